(* C13 - incremental transfers between versions that may hold RRsets of ANY type: singleton types
   (CNAME, DNAME, NSEC, NXT: one rdata per RRset) and CNAME-kind RRsets (CNAME, RRSIG(CNAME)), provided
   each version obeys "CNAME and other data" (no node with both a CNAME-kind and a regular RRset).
   A name may change from a CNAME to ordinary records (or back) between two versions: the difference
   sequence deletes the old RRsets before it adds the new ones, so dns/node.py never has to evict
   anything and Rdataset.add never replaces a singleton rdata. *)
From DV Require Import Base.Prelude Model.XfrM Proofs.XfrSets Proofs.XfrSpec Proofs.XfrZone Proofs.XfrDiff
  Proofs.XfrSafety Proofs.XfrBasic Proofs.XfrRun Proofs.XfrIxfr Proofs.XfrAxfr.

(* ---- records of any type ---- *)
Definition rec_g (r : rr) : Prop :=
  r_class r = cIN /\ r_type r <> tSOA /\ 0 <= r_name r /\ ttl_ok (r_ttl r).

Lemma t_add_single_gg : forall z r, rec_g r -> addable z (rkey r) ->
  (is_singleton (r_type r) = true -> look z (rkey r) = None) ->
  t_add false z (single r) = Ok (zput (rkey r) (add1 (look z (rkey r)) (r_ttl r) (r_data r)) z).
Proof.
  intros z r (Hc & Ht & Hn & Httl) Ha Hs. unfold t_add, single, skey.
  cbn [s_class s_type s_name s_ttl s_data s_covers].
  rewrite Hc. cbn [Z.eqb cIN Pos.eqb negb].
  apply Z.eqb_neq in Ht. rewrite Ht. cbn [andb].
  rewrite (clamp_ok _ Httl). unfold rkey in *. rewrite (node_put_id _ _ _ Ha). unfold add1.
  destruct (look z (r_name r, r_type r, r_covers r)) as [[ettl erds]|] eqn:El; [|reflexivity].
  destruct (is_singleton (r_type r)) eqn:Es; [specialize (Hs eq_refl); discriminate|].
  cbn [fold_left]. rewrite (rds_add_plain _ _ _ Es). reflexivity.
Qed.

(* ---- keys only shrink under deletions; a sub-zone of a consistent zone is consistent ---- *)
Definition sub_keys (z z' : zone) : Prop := forall k, look z k <> None -> look z' k <> None.

Lemma sub_keys_refl : forall z, sub_keys z z. Proof. intros z k H; exact H. Qed.
Lemma sub_keys_trans : forall a b c, sub_keys a b -> sub_keys b c -> sub_keys a c.
Proof. intros a b c H1 H2 k H. apply H2, H1, H. Qed.

Lemma consistent_sub : forall z z', consistent z' -> sub_keys z z' -> consistent z.
Proof. intros z z' Hc Hs k k' H1 H2. apply Hc; apply Hs; assumption. Qed.

Lemma sub_keys_zset : forall z k oe, look z k <> None -> sub_keys (zset k oe z) z.
Proof.
  intros z k oe Hk k' H. rewrite look_zset in H. destruct (key_eqb k' k) eqn:E; [|exact H].
  apply key_eqb_eq in E. subst. exact Hk.
Qed.

Lemma del1_some_present : forall e d oe, del1 e d = Some oe -> e <> None.
Proof. intros [e|] d oe H; [discriminate|discriminate]. Qed.

Lemma dels_sub : forall rs z z', dels z rs = Some z' -> sub_keys z' z.
Proof.
  induction rs as [|r rs IH]; intros z z' H; cbn [dels] in H; [inversion H; apply sub_keys_refl|].
  destruct (del1 (look z (rkey r)) (r_data r)) as [oe|] eqn:E; [|discriminate].
  eapply sub_keys_trans; [apply (IH _ _ H)|]. apply sub_keys_zset. eapply del1_some_present, E.
Qed.

Lemma adds_keeps : forall x z k, look z k <> None -> look (adds z x) k <> None.
Proof.
  induction x as [|r x IH]; intros z k H; cbn [adds]; [exact H|].
  apply IH. rewrite look_zput. destruct (key_eqb k (rkey r)); [discriminate|exact H].
Qed.

Lemma look_some_in : forall z k, look z k <> None -> In k (map fst z).
Proof.
  induction z as [|[k0 e0] r IH]; intros k H; cbn [look] in H; [congruence|].
  destruct (key_eqb k k0) eqn:E; [left; symmetry; apply key_eqb_eq, E|right; apply IH, H].
Qed.

(* a decision procedure for "CNAME and other data" on a concrete zone *)
Definition consistent_b (z : zone) : bool :=
  forallb (fun k => forallb (fun k' => negb (conflicts k k')) (map fst z)) (map fst z).

Lemma consistent_check : forall z, consistent_b z = true -> consistent z.
Proof.
  intros z H k k' Hk Hk'. unfold consistent_b in H. rewrite forallb_forall in H.
  specialize (H k (look_some_in _ _ Hk)). rewrite forallb_forall in H.
  specialize (H k' (look_some_in _ _ Hk')). apply negb_true_iff, H.
Qed.

(* ---- the steps on records of any type ---- *)
Lemma step_del_g : forall l p tz rdt inc ser udp so rq r, rec_g r -> consistent tz ->
  step l (mkSt p (Some tz) rdt inc ser udp so false false true rq) (single r) =
  match del1 (look tz (rkey r)) (r_data r) with
  | Some oe => (mkSt p (Some (zset (rkey r) oe tz)) rdt inc ser udp so false false true rq, None)
  | None => (mkSt p (Some tz) rdt inc ser udp so false false true rq, Some eDeleteNotExact)
  end.
Proof.
  intros l p tz rdt inc ser udp so rq r (Hc & Ht & Hn & Httl) Hq.
  unfold step. cbn [done txn expecting delmode].
  assert (E : (s_type (single r) =? tSOA) = false) by (apply Z.eqb_neq; exact Ht).
  rewrite E. cbn [andb].
  assert (Z : in_zone (s_name (single r)) = true) by (apply Z.leb_le; exact Hn).
  rewrite Z. cbn [negb]. rewrite (t_del_single tz r Hc Hq).
  destruct (del1 (look tz (rkey r)) (r_data r)); reflexivity.
Qed.

Lemma loopn_dels_g : forall rs p tz tz' rdt inc ser udp so rq, Forall rec_g rs -> consistent tz ->
  dels tz rs = Some tz' ->
  loopn (mkSt p (Some tz) rdt inc ser udp so false false true rq) (map single rs) =
  (mkSt p (Some tz') rdt inc ser udp so false false true rq, None).
Proof.
  induction rs as [|r rs IH]; intros p tz tz' rdt inc ser udp so rq Hf Hq Hd; cbn [map loopn dels] in *.
  - inversion Hd; reflexivity.
  - inversion Hf; subst. rewrite step_del_g by assumption.
    destruct (del1 (look tz (rkey r)) (r_data r)) as [oe|] eqn:E; [|discriminate]. apply IH; try assumption.
    eapply consistent_sub; [exact Hq|]. apply sub_keys_zset. eapply del1_some_present, E.
Qed.

Lemma step_add_g : forall l p tz rdt inc ser udp so rq r, rec_g r -> addable tz (rkey r) ->
  (is_singleton (r_type r) = true -> look tz (rkey r) = None) ->
  step l (mkSt p (Some tz) rdt inc ser udp so false false false rq) (single r) =
  (mkSt p (Some (zput (rkey r) (add1 (look tz (rkey r)) (r_ttl r) (r_data r)) tz)) rdt inc ser udp so false false false rq, None).
Proof.
  intros l p tz rdt inc ser udp so rq r Hp Ha Hs. pose proof Hp as (Hc & Ht & Hn & Httl).
  unfold step. cbn [done txn expecting delmode].
  assert (E : (s_type (single r) =? tSOA) = false) by (apply Z.eqb_neq; exact Ht).
  rewrite E. cbn [andb].
  assert (Z : in_zone (s_name (single r)) = true) by (apply Z.leb_le; exact Hn).
  rewrite Z. cbn [negb]. rewrite (t_add_single_gg tz r Hp Ha Hs). reflexivity.
Qed.

(* every record of the list can be stored without evicting anything and without replacing a singleton *)
Definition adds_ok (z : zone) (rs : list rr) : Prop :=
  forall pre r post, rs = pre ++ r :: post ->
    addable (adds z pre) (rkey r) /\
    (is_singleton (r_type r) = true -> look (adds z pre) (rkey r) = None).

Lemma loopn_adds_g : forall rs p tz rdt inc ser udp so rq, Forall rec_g rs -> adds_ok tz rs ->
  loopn (mkSt p (Some tz) rdt inc ser udp so false false false rq) (map single rs) =
  (mkSt p (Some (adds tz rs)) rdt inc ser udp so false false false rq, None).
Proof.
  induction rs as [|r rs IH]; intros p tz rdt inc ser udp so rq Hf Hok; cbn [map loopn adds]; [reflexivity|].
  inversion Hf; subst. destruct (Hok [] r rs eq_refl) as [Ha Hs]. cbn [adds] in Ha, Hs.
  rewrite step_add_g by assumption. apply IH; [assumption|].
  intros pre r' post E. apply (Hok (r :: pre) r' post). rewrite E. reflexivity.
Qed.

Lemma t_add_soa_g : forall tz v, ttl_ok (v_ttl v) -> addable tz soakey ->
  t_add true tz (single (soa_rr v)) = Ok (zput soakey (v_ttl v, [v_soa v]) tz).
Proof.
  intros tz v Httl Ha. unfold t_add, single, soa_rr, skey.
  cbn [s_class s_type s_name s_ttl s_data s_covers r_class r_type r_name r_ttl r_data r_covers].
  rewrite (clamp_ok _ Httl). change (origin, tSOA, 0) with soakey.
  rewrite (node_put_id _ _ _ Ha). reflexivity.
Qed.

Section GEN.
Variable u : bool.

Lemma step_add_start_g : forall l p tz vn b ser, ttl_ok (v_ttl b) -> addable tz soakey ->
  step l (ist u p tz ser (single (soa_rr vn)) false true) (single (soa_rr b)) =
  (ist u p (zput soakey (v_ttl b, [v_soa b]) tz) (v_serial b) (single (soa_rr vn)) false false, None).
Proof.
  intros l p tz vn b ser Httl Hq. unfold step, ist. cbn [done txn incremental delmode soa set_delmode negb].
  change ((s_type (single (soa_rr b)) =? tSOA) && (s_name (single (soa_rr b)) =? origin)) with true. cbv iota.
  cbn [orb]. rewrite andb_false_r.
  rewrite soa_serial_single. cbn [incremental set_expecting set_serial].
  rewrite t_add_soa_g by assumption. reflexivity.
Qed.

Lemma step_final_g : forall p tz vn, ttl_ok (v_ttl vn) -> addable tz soakey ->
  step Last (ist u p tz (v_serial vn) (single (soa_rr vn)) false false) (single (soa_rr vn)) =
  (mkSt (zput soakey (v_ttl vn, [v_soa vn]) tz) None tIXFR true (v_serial vn) u
        (Some (single (soa_rr vn))) true false true false, None).
Proof.
  intros p tz vn Httl Hq. unfold step, ist. cbn [done txn incremental delmode soa set_delmode negb].
  change ((s_type (single (soa_rr vn)) =? tSOA) && (s_name (single (soa_rr vn)) =? origin)) with true. cbv iota.
  rewrite soa_eqb, Z.eqb_refl. cbn [andb orb].
  rewrite soa_serial_single. cbn [expecting incremental serial]. rewrite Z.eqb_refl. cbn [negb andb].
  rewrite t_add_soa_g by assumption. reflexivity.
Qed.
End GEN.

(* ---- versions with RRsets of any type ---- *)
Definition single_ok (ke : key * entry) : Prop :=
  let '((n, t, c), (ttl, ds)) := ke in is_singleton t = true -> exists d, ds = [d].

(* every RRset is a non-empty set at or below the origin; a singleton type has one rdata; CNAME and
   other data: no node has both a CNAME-kind and a regular RRset (the apex, which has the SOA,
   therefore has no CNAME) *)
Definition version_wf_g (v : version) : Prop :=
  ttl_ok (v_ttl v) /\ rest_wf0 (v_rest v) /\ Forall single_ok (v_rest v) /\ consistent (zone_of v).

Lemma version_wf_wf_g : forall v, version_wf v -> version_wf_g v.
Proof.
  intros v Hv. pose proof Hv as [Httl Hr]. split; [exact Httl|]. split; [apply rest_wf_wf0, Hr|]. split.
  - destruct Hr as [_ Hf]. eapply Forall_impl; [|exact Hf].
    intros [[[n t] c] [ttl ds]] (_ & _ & _ & _ & _ & Hs & _). cbn. intros E. congruence.
  - apply quiet_consistent, zone_of_quiet, Hv.
Qed.

Lemma body_in_look0 : forall z r, rest_wf0 z -> In r (body z) ->
  exists S0, look z (rkey r) = Some (r_ttl r, S0) /\ In (r_data r) S0 /\ rkey r <> soakey /\ rec_g r.
Proof.
  intros z r Hwf Hin. unfold body in Hin. apply in_flat_map in Hin. destruct Hin as [[k [t ds]] [Hke Hr]].
  rewrite rrs_of_entry_mk in Hr. apply in_map_iff in Hr. destruct Hr as [d [<- Hd]].
  rewrite rkey_mk_rr, r_ttl_mk_rr, r_data_mk_rr. exists ds.
  assert (Hl : look z k = Some (t, ds)) by (apply look_in; [destruct Hwf|]; assumption).
  split; [exact Hl|]. split; [exact Hd|].
  destruct (rest_wf0_entry z k t ds Hwf Hl) as (_ & _ & Httl & Hk & Hn). split; [exact Hk|].
  destruct k as [[n ty] c]. unfold rec_g. cbn in *. split; [reflexivity|]. split; [|split; assumption].
  intros E. apply Hk. unfold soakey. subst ty.
  destruct Hwf as [_ Hf]. rewrite Forall_forall in Hf. apply Hf in Hke. cbn in Hke. destruct Hke as (_ & Ht & _). congruence.
Qed.

Lemma zminus_rec_g : forall a b, rest_wf0 a -> Forall rec_g (zminus a b).
Proof.
  intros a b Ha. unfold zminus. apply Forall_forall. intros r Hr. apply filter_In in Hr. destruct Hr as [Hr _].
  destruct (body_in_look0 a r Ha Hr) as (_ & _ & _ & _ & H). exact H.
Qed.

Lemma look_single : forall z k t ds, Forall single_ok z -> look z k = Some (t, ds) ->
  is_singleton (let '(_, ty, _) := k in ty) = true -> exists d, ds = [d].
Proof.
  intros z k t ds Hf Hl Hs. apply rest_wf_look in Hl. rewrite Forall_forall in Hf. apply Hf in Hl.
  destruct k as [[n ty] c]. cbn in *. apply Hl, Hs.
Qed.

(* a record is determined by its key, TTL and rdata (class IN) *)
Lemma rr_ext : forall r r', r_class r = cIN -> r_class r' = cIN -> rkey r = rkey r' ->
  r_ttl r = r_ttl r' -> r_data r = r_data r' -> r = r'.
Proof.
  intros [n c t cv ttl d] [n' c' t' cv' ttl' d']. unfold rkey. cbn. intros -> -> E -> ->. inversion E. reflexivity.
Qed.

Lemma NoDup_app_intro : forall {A} (l1 l2 : list A), NoDup l1 -> NoDup l2 ->
  (forall x, In x l1 -> ~ In x l2) -> NoDup (l1 ++ l2).
Proof.
  induction l1 as [|a l1 IH]; intros l2 H1 H2 Hd; cbn [app]; [exact H2|].
  inversion H1; subst. constructor.
  - rewrite in_app_iff. intros [H|H]; [auto|]. apply (Hd a); [left; reflexivity|exact H].
  - apply IH; [assumption|assumption|]. intros x Hx. apply Hd. right; exact Hx.
Qed.

Lemma NoDup_body : forall z, rest_wf0 z -> NoDup (body z).
Proof.
  induction z as [|[k [t ds]] z IH]; intros [Hnd Hf]; unfold body; cbn [flat_map]; [constructor|].
  inversion Hnd as [|? ? Hni Hnd']; subst. inversion Hf as [|? ? He Hf']; subst.
  rewrite rrs_of_entry_mk. apply NoDup_app_intro.
  - destruct k as [[n ty] c]. cbn in He. destruct He as (_ & _ & _ & _ & Hs).
    apply FinFun.Injective_map_NoDup; [|apply ssorted_NoDup, Hs].
    intros d d' E. cbn in E. inversion E. reflexivity.
  - apply IH. split; assumption.
  - intros x Hx Hx'. apply in_map_iff in Hx. destruct Hx as [d [<- _]].
    fold (body z) in Hx'. destruct (body_in_look0 z _ (conj Hnd' Hf') Hx') as (S0 & Hl & _).
    rewrite rkey_mk_rr in Hl. apply rest_wf_look in Hl. apply Hni. apply (in_map fst) in Hl. exact Hl.
Qed.

Lemma fa_none : forall k x e, (forall r, In r x -> key_eqb (rkey r) k = false) -> fa k e x = e.
Proof.
  unfold fa. induction x as [|r x IH]; intros e H; cbn [fold_left]; [reflexivity|].
  rewrite (H r (or_introl eq_refl)). apply IH. intros r' Hr'. apply H. right; exact Hr'.
Qed.

(* the additions of a difference a -> b (to the zone zb left by the deletions) never evict and never replace *)
Lemma adds_ok_gen : forall a b zb,
  rest_wf0 a -> rest_wf0 b -> Forall single_ok a -> Forall single_ok b ->
  (forall k k', (k = soakey \/ look b k <> None) -> (k' = soakey \/ look b k' <> None) -> conflicts k k' = false) ->
  (forall k, k <> soakey -> look zb k = after_del (look a k) (look b k)) ->
  (forall k, look (adds zb (zminus b a)) k <> None -> k = soakey \/ look b k <> None) ->
  adds_ok zb (zminus b a).
Proof.
  intros a b zb Ha Hb Sa Sb Hcons Hz1 Hadd pre r post E.
  assert (Hin : In r (zminus b a)) by (rewrite E; apply in_or_app; right; left; reflexivity).
  pose proof Hin as Hin'. unfold zminus in Hin'. apply filter_In in Hin'. destruct Hin' as [Hbody Hnot].
  apply negb_true_iff in Hnot.
  destruct (body_in_look0 b r Hb Hbody) as (S0 & Hlb & Hd0 & Hk & Hrg).
  split.
  - (* nothing to evict: every key present is a key of b (or the SOA), and b is consistent *)
    intros k' Hk'. apply Hcons.
    + right. rewrite Hlb. discriminate.
    + apply Hadd. rewrite E, adds_app. apply adds_keeps, Hk'.
  - (* a singleton RRset that is added was deleted (or absent) before, and is added once *)
    intros Hs. rewrite look_adds_fa.
    assert (HS0 : S0 = [r_data r]).
    { destruct (look_single b (rkey r) _ _ Sb Hlb Hs) as [d ->]. destruct Hd0 as [->|[]]. reflexivity. }
    subst S0.
    assert (Hz : look zb (rkey r) = None).
    { rewrite (Hz1 _ Hk), Hlb. unfold after_del. destruct (look a (rkey r)) as [[t Sa0]|] eqn:Ea; [|reflexivity].
      destruct (look_single a (rkey r) _ _ Sa Ea Hs) as [d0 ->].
      unfold has_rr in Hnot. rewrite Ea in Hnot. cbn [filter has_in].
      assert (Hh : (r_ttl r =? t) && mem d0 [r_data r] = false).
      { rewrite Z.eqb_sym. destruct (t =? r_ttl r) eqn:Et; [|reflexivity]. cbn [andb] in *.
        cbn [mem] in *. rewrite orb_false_r in *. rewrite Z.eqb_sym. exact Hnot. }
      rewrite Hh. cbn [negb]. unfold diff. cbn [filter mem]. rewrite Z.eqb_refl. reflexivity. }
    rewrite Hz. apply fa_none. intros r' Hr'.
    destruct (key_eqb (rkey r') (rkey r)) eqn:Ek'; [|reflexivity]. exfalso.
    apply key_eqb_eq in Ek'.
    assert (Hin2 : In r' (zminus b a)) by (rewrite E; apply in_or_app; left; exact Hr').
    unfold zminus in Hin2. apply filter_In in Hin2. destruct Hin2 as [Hbody' _].
    destruct (body_in_look0 b r' Hb Hbody') as (S1 & Hlb' & Hd1 & _ & Hrg').
    rewrite Ek', Hlb in Hlb'. inversion Hlb' as [[Et ES]]. subst S1. destruct Hd1 as [Hd1|[]].
    assert (r = r').
    { apply rr_ext; [apply Hrg|apply Hrg'|symmetry; exact Ek'|exact Et|exact Hd1]. }
    subst r'.
    assert (Hnd : NoDup (zminus b a)) by (unfold zminus; apply NoDup_filter, NoDup_body, Hb).
    rewrite E in Hnd. apply NoDup_remove_2 in Hnd. apply Hnd. apply in_or_app. left. exact Hr'.
Qed.

Lemma adds_ok_diff : forall a b z1 soa_e,
  rest_wf0 a -> rest_wf0 b -> Forall single_ok a -> Forall single_ok b ->
  (forall k k', (k = soakey \/ look b k <> None) -> (k' = soakey \/ look b k' <> None) -> conflicts k k' = false) ->
  (forall k, k <> soakey -> look z1 k = after_del (look a k) (look b k)) ->
  (forall k, look (adds (zput soakey soa_e z1) (zminus b a)) k = if key_eqb k soakey then Some soa_e else look b k) ->
  adds_ok (zput soakey soa_e z1) (zminus b a).
Proof.
  intros a b z1 soa_e Ha Hb Sa Sb Hcons Hz1 Hadd.
  apply (adds_ok_gen a b _ Ha Hb Sa Sb Hcons).
  - intros k Hk. rewrite look_zput. apply key_eqb_neq in Hk. rewrite Hk. apply Hz1. apply key_eqb_neq, Hk.
  - intros k H. rewrite Hadd in H. destruct (key_eqb k soakey) eqn:Ek; [left; apply key_eqb_eq, Ek|right; exact H].
Qed.

Lemma zone_of_keys : forall v k, look (zone_of v) k <> None <-> (k = soakey \/ look (v_rest v) k <> None).
Proof.
  intros v k. rewrite look_zone_of. destruct (key_eqb k soakey) eqn:E.
  - apply key_eqb_eq in E. split; [intros _; left; exact E|intros _; discriminate].
  - apply key_eqb_neq in E. split; [intros H; right; exact H|intros [H|H]; [congruence|exact H]].
Qed.

(* one difference sequence between versions of any content *)
Lemma section_run_g : forall u p tz vn a b e,
  version_wf_g a -> version_wf_g b -> v_soa a <> v_soa vn ->
  (forall k, k <> soakey -> look tz k = look (v_rest a) k) ->
  exists tz',
    loopn (ist u p tz (v_serial a) (single (soa_rr vn)) e false) (map single (diff_seq a b)) =
    (ist u p tz' (v_serial b) (single (soa_rr vn)) false false, None)
    /\ zeq tz' (zone_of b).
Proof.
  intros u p tz vn a b e (Hta & Ha & Sa & Ca) (Htb & Hb & Sb & Cb) Hne Hz.
  destruct (diff_apply0 (v_rest a) (v_rest b) tz Ha Hb Hz) as (z1 & Hd & _ & Hz1 & Hadd).
  assert (Hsub : sub_keys tz (zone_of a)).
  { intros k Hk. apply zone_of_keys. destruct (key_eqb k soakey) eqn:E.
    - left. apply key_eqb_eq, E.
    - right. apply key_eqb_neq in E. rewrite <- (Hz k E). exact Hk. }
  assert (Hct : consistent tz) by (apply (consistent_sub _ _ Ca Hsub)).
  assert (Hsub1 : sub_keys z1 (zone_of a)) by (eapply sub_keys_trans; [apply (dels_sub _ _ _ Hd)|exact Hsub]).
  assert (Ha1 : addable z1 soakey).
  { intros k' Hk'. apply Ca; [apply zone_of_keys; left; reflexivity|apply Hsub1, Hk']. }
  assert (Hok : adds_ok (zput soakey (v_ttl b, [v_soa b]) z1) (zminus (v_rest b) (v_rest a))).
  { apply (adds_ok_diff (v_rest a) (v_rest b) z1 _ Ha Hb Sa Sb); [|exact Hz1|apply Hadd].
    intros k k' H1 H2. apply Cb; apply zone_of_keys; assumption. }
  exists (adds (zput soakey (v_ttl b, [v_soa b]) z1) (zminus (v_rest b) (v_rest a))). split.
  - unfold diff_seq. cbn [map loopn]. rewrite step_del_start by assumption.
    rewrite map_app, loopn_app.
    unfold ist at 1. rewrite (loopn_dels_g _ _ _ z1) by (auto using zminus_rec_g).
    cbn [map loopn]. fold (ist u p z1 (v_serial a) (single (soa_rr vn)) false true).
    rewrite step_add_start_g by assumption.
    unfold ist at 1. rewrite loopn_adds_g by (auto using zminus_rec_g). reflexivity.
  - intros k. rewrite Hadd, look_zone_of. reflexivity.
Qed.

Lemma chain_run_g : forall u chain p tz vn v0 e,
  chain <> [] -> version_wf_g v0 -> Forall version_wf_g chain ->
  (forall v, In v (v0 :: removelast chain) -> v_soa v <> v_soa vn) ->
  (forall k, k <> soakey -> look tz k = look (v_rest v0) k) ->
  exists tz',
    loopn (ist u p tz (v_serial v0) (single (soa_rr vn)) e false) (map single (diff_seqs v0 chain)) =
    (ist u p tz' (v_serial (last chain v0)) (single (soa_rr vn)) false false, None)
    /\ zeq tz' (zone_of (last chain v0)).
Proof.
  intros u. induction chain as [|w chain IH]; intros p tz vn v0 e Hne Hv0 Hch Hd Hz; [congruence|].
  inversion Hch as [|? ? Hw Hch']; subst.
  destruct (section_run_g u p tz vn v0 w e Hv0 Hw (Hd v0 (or_introl eq_refl)) Hz) as [tz1 [Hr1 Hz1]].
  cbn [diff_seqs]. rewrite map_app, loopn_app, Hr1.
  destruct chain as [|w2 chain].
  - cbn [diff_seqs map loopn last]. exists tz1. auto.
  - assert (H1 : w2 :: chain <> []) by discriminate.
    assert (H2 : forall v, In v (w :: removelast (w2 :: chain)) -> v_soa v <> v_soa vn).
    { intros v Hin. apply Hd. right. exact Hin. }
    assert (H3 : forall k, k <> soakey -> look tz1 k = look (v_rest w) k).
    { intros k Hk. rewrite Hz1, look_zone_of. apply key_eqb_neq in Hk. rewrite Hk. reflexivity. }
    destruct (IH p tz1 vn w false H1 Hw Hch' H2 H3) as [tz2 [Hr2 Hz2]].
    change (last (w :: w2 :: chain) v0) with (last (w2 :: chain) v0).
    rewrite (last_default (w2 :: chain) v0 w H1).
    exists tz2. split; [exact Hr2|exact Hz2].
Qed.

Definition chain_ok_g (v0 : version) (chain : list version) : Prop :=
  chain <> [] /\ version_wf_g v0 /\ Forall version_wf_g chain /\
  (forall v, In v (v0 :: removelast chain) -> v_serial v <> v_serial (last chain v0)) /\
  serial_lt (v_serial (last chain v0)) (v_serial v0) = false.

Lemma chain_ok_ok_g : forall v0 chain, chain_ok v0 chain -> chain_ok_g v0 chain.
Proof.
  intros v0 chain (H1 & H2 & H3 & H4 & H5). split; [exact H1|]. split; [apply version_wf_wf_g, H2|].
  split; [|split; assumption]. eapply Forall_impl; [|exact H3]. apply version_wf_wf_g.
Qed.

Lemma chain_ok_g_soa : forall v0 chain, chain_ok_g v0 chain ->
  forall v, In v (v0 :: removelast chain) -> v_soa v <> v_soa (last chain v0).
Proof.
  intros v0 chain (_ & _ & _ & H & _) v Hin E. apply (H v Hin). unfold v_serial. rewrite E. reflexivity.
Qed.

Lemma version_wf_g_last : forall chain v0, version_wf_g v0 -> Forall version_wf_g chain -> version_wf_g (last chain v0).
Proof.
  induction chain as [|w chain IH]; intros v0 H0 Hc; [exact H0|].
  inversion Hc; subst. destruct chain as [|w2 chain]; [assumption|].
  change (last (w :: w2 :: chain) v0) with (last (w2 :: chain) v0).
  rewrite (last_default (w2 :: chain) v0 w) by discriminate. apply IH; assumption.
Qed.

Lemma ixfr_records_g : forall u v0 chain z0,
  chain_ok_g v0 chain -> zeq z0 (zone_of v0) ->
  let vn := last chain v0 in
  exists s1 s2,
    loopn (ist u z0 z0 (v_serial v0) (single (soa_rr vn)) true false) (map single (diff_seqs v0 chain)) = (s1, None)
    /\ done s1 = false
    /\ step Last s1 (single (soa_rr vn)) = (s2, None)
    /\ done s2 = true /\ zeq (pub s2) (zone_of vn).
Proof.
  intros u v0 chain z0 Hok Hz vn.
  pose proof Hok as (Hne & Hv0 & Hch & _ & _).
  destruct (chain_run_g u chain z0 z0 vn v0 true Hne Hv0 Hch (chain_ok_g_soa v0 chain Hok)) as [tz' [Hr Hz']].
  { intros k Hk. rewrite Hz, look_zone_of. apply key_eqb_neq in Hk. rewrite Hk. reflexivity. }
  pose proof (version_wf_g_last chain v0 Hv0 Hch) as Hvn. pose proof Hvn as (Httl & _ & _ & Cn).
  assert (Han : addable tz' soakey).
  { intros k' Hk'. apply Cn; [apply zone_of_keys; left; reflexivity|]. rewrite <- Hz'. exact Hk'. }
  eexists. eexists. split; [exact Hr|]. split; [reflexivity|].
  split; [apply step_final_g; assumption|]. split; [reflexivity|].
  cbn [pub]. intros k. rewrite look_zput, look_zone_of.
  destruct (key_eqb k soakey) eqn:E; [reflexivity|]. rewrite Hz', look_zone_of, E. reflexivity.
Qed.

(* Multi-step incremental transfer between versions of any content - CNAME, DNAME, NSEC RRsets, names
   that change between a CNAME and other data - in any division into messages: the client's zone
   becomes the server's newest version. *)
Theorem ixfr_converges_general : forall v0 chain z0 ws,
  chain_ok_g v0 chain -> zeq z0 (zone_of v0) -> chunking tIXFR (ixfr_stream v0 chain) ws ->
  exists z' n, inbound_xfr z0 tIXFR (Some (v_serial v0)) false ws = (Done z', n)
               /\ zeq z' (zone_of (last chain v0)).
Proof.
  intros v0 chain z0 ws Hok Hz Hch.
  unfold ixfr_stream in Hch. cbv zeta in Hch.
  apply chunking_first in Hch. destruct Hch as (w & ws' & a & -> & Hr & Hw & Hws & Hcat).
  destruct (ixfr_records_g false v0 chain z0 Hok Hz) as (s1 & s2 & Hl & Hd1 & Hf & Hd2 & Hz2).
  pose proof Hok as (_ & _ & _ & Hser & Hlt).
  unfold inbound_xfr, xfr_run. rewrite init_ixfr. cbn [Z.eqb tIXFR Pos.eqb]. rewrite drive_cons by solve_req.
  rewrite (first_message_ixfr z0 (v_serial v0) false w (soa_rr (last chain v0)) a Hw Hr) by (split; reflexivity).
  cbv zeta. change (r_data (soa_rr (last chain v0)) mod two32) with (v_serial (last chain v0)).
  assert (Hne : (v_serial (last chain v0) =? v_serial v0) = false).
  { apply Z.eqb_neq. intros E. apply (Hser v0 (or_introl eq_refl)). symmetry. exact E. }
  rewrite Hne, Hlt. cbn [andb]. rewrite after_tcp by reflexivity.
  destruct (cont_records ws' a (ist false z0 z0 (v_serial v0) (single (soa_rr (last chain v0))) true false)
              (diff_seqs v0 chain) (soa_rr (last chain v0)) s1 s2) as [n Hn]; try assumption.
  - repeat split; try reflexivity; discriminate.
  - exists (pub s2), n. split; [exact Hn|exact Hz2].
Qed.

(* the same stream in one UDP datagram *)
Theorem udp_ixfr_general : forall v0 chain z0 w,
  chain_ok_g v0 chain -> zeq z0 (zone_of v0) ->
  header_ok tIXFR w -> w_records w = ixfr_stream v0 chain ->
  exists z', inbound_xfr z0 tIXFR (Some (v_serial v0)) true [w] = (Done z', 1%nat)
             /\ zeq z' (zone_of (last chain v0)).
Proof.
  intros v0 chain z0 w Hok Hz Hw Hr.
  destruct (ixfr_records_g true v0 chain z0 Hok Hz) as (s1 & s2 & Hl & Hd1 & Hf & Hd2 & Hz2).
  pose proof Hok as (Hne0 & _ & _ & Hser & Hlt).
  unfold inbound_xfr, xfr_run. rewrite init_ixfr. cbn [Z.eqb tIXFR Pos.eqb]. rewrite drive_cons by solve_req.
  unfold ixfr_stream in Hr. cbv zeta in Hr.
  rewrite (first_message_ixfr z0 (v_serial v0) true w (soa_rr (last chain v0)) _ Hw Hr) by (split; reflexivity).
  cbv zeta. change (r_data (soa_rr (last chain v0)) mod two32) with (v_serial (last chain v0)).
  assert (Hne : (v_serial (last chain v0) =? v_serial v0) = false).
  { apply Z.eqb_neq. intros E. apply (Hser v0 (or_introl eq_refl)). symmetry. exact E. }
  rewrite Hne, Hlt.
  assert (Hnn : (match diff_seqs v0 chain ++ [soa_rr (last chain v0)] with [] => true | _ :: _ => false end) = false)
    by (destruct (diff_seqs v0 chain); reflexivity).
  rewrite Hnn. cbn [andb].
  rewrite map_app. cbn [map]. rewrite loop_snoc.
  change (set_expecting (set_soa (set_txn (ixfr_init z0 (v_serial v0) true) (Some z0))
            (Some (single (soa_rr (last chain v0))))) true)
    with (ist true z0 z0 (v_serial v0) (single (soa_rr (last chain v0))) true false).
  rewrite Hl, Hf, Hd2. cbn [negb]. rewrite andb_false_r. cbn [cont]. rewrite Hd2.
  exists (pub s2). auto.
Qed.

(* every proper prefix of the stream, in any division into messages: an error, zone untouched *)
Theorem ixfr_early_end_rejected_general : forall v0 chain z0 ws q,
  chain_ok_g v0 chain -> zeq z0 (zone_of v0) ->
  Forall (header_ok tIXFR) ws -> q <> [] ->
  concat (map w_records ws) ++ q = ixfr_stream v0 chain ->
  exists e n, inbound_xfr z0 tIXFR (Some (v_serial v0)) false ws = (Error e z0, n).
Proof.
  intros v0 chain z0 ws q Hok Hz Hh Hq Hcat.
  assert (NE : forall r n, r = inbound_xfr z0 tIXFR (Some (v_serial v0)) false ws ->
            (exists e z, r = (Error e z, n)) -> exists e n, inbound_xfr z0 tIXFR (Some (v_serial v0)) false ws = (Error e z0, n)).
  { intros r n -> [e [z H]]. pose proof (error_leaves_zone _ _ _ _ _ _ _ _ H). subst z. eauto. }
  destruct ws as [|w ws'].
  { eapply NE; [reflexivity|]. unfold inbound_xfr, xfr_run. rewrite init_ixfr. cbn. eauto. }
  inversion Hh as [|? ? Hw Hws]; subst.
  destruct (w_records w) as [|r0 a] eqn:Hr.
  { eapply NE; [reflexivity|]. unfold inbound_xfr, xfr_run. rewrite init_ixfr. cbn [Z.eqb tIXFR Pos.eqb]. rewrite drive_cons by solve_req.
    unfold process_message, from_wire. cbn [txn ixfr_init incremental pub set_txn rdtype m_rcode m_question m_answer].
    destruct Hw as [Hrc Hqq]. rewrite Hrc. cbn [Z.eqb negb]. rewrite (header_ok_question tIXFR w (conj Hrc Hqq)).
    cbn [soa]. rewrite Hr. cbn. eauto. }
  unfold ixfr_stream in Hcat. cbv zeta in Hcat. cbn [map concat] in Hcat. rewrite Hr in Hcat.
  cbn [app] in Hcat. inversion Hcat as [[E0 Hcat']]. subst r0. rewrite <- app_assoc in Hcat'.
  destruct (ixfr_records_g false v0 chain z0 Hok Hz) as (s1 & s2 & Hl & Hd1 & Hf & Hd2 & Hz2).
  pose proof Hok as (_ & _ & _ & Hser & Hlt).
  (* the part received is a prefix of the difference sequences *)
  rewrite app_assoc in Hcat'. apply app_snoc_split in Hcat'.
  destruct Hcat' as [[c' [Hmid Hq']]|[_ Hq']]; [|congruence].
  rewrite Hmid, map_app, loopn_app in Hl.
  destruct (loopn _ (map single (a ++ concat (map w_records ws')))) as [sp [e|]] eqn:Hp; [discriminate|].
  pose proof (loopn_none_not_done _ _ _ Hl Hd1) as Hdp.
  destruct (cont_records_eof ws' a (ist false z0 z0 (v_serial v0) (single (soa_rr (last chain v0))) true false) sp)
    as [n [z Hn]]; try assumption.
  { repeat split; try reflexivity; discriminate. }
  apply (NE _ n eq_refl). exists eEOF, z.
  unfold inbound_xfr, xfr_run. rewrite init_ixfr. cbn [Z.eqb tIXFR Pos.eqb]. rewrite drive_cons by solve_req.
  rewrite (first_message_ixfr z0 (v_serial v0) false w (soa_rr (last chain v0)) a Hw Hr) by (split; reflexivity).
  cbv zeta. change (r_data (soa_rr (last chain v0)) mod two32) with (v_serial (last chain v0)).
  assert (Hne : (v_serial (last chain v0) =? v_serial v0) = false).
  { apply Z.eqb_neq. intros E. apply (Hser v0 (or_introl eq_refl)). symmetry. exact E. }
  rewrite Hne, Hlt. cbn [andb]. rewrite after_tcp by reflexivity.
  exact Hn.
Qed.

(* ---- the AXFR-style answer to an IXFR request, versions of any content ---- *)
Lemma zminus_nil : forall b, zminus b [] = body b.
Proof. intros b. unfold zminus. apply filter_all. intros r _. reflexivity. Qed.

Lemma adds_body0 : forall z, rest_wf0 z -> zeq (adds [] (body z)) z.
Proof.
  intros z Hwf k. rewrite body_sel, look_adds_entries by (destruct Hwf; assumption).
  destruct (look z k) as [[t ds]|] eqn:E; [|reflexivity].
  destruct (rest_wf0_entry z k t ds Hwf E) as (Hne & Hs & _).
  cbn [look fst snd]. rewrite add_all_none. destruct ds; [congruence|].
  f_equal. f_equal. apply union_nil_sorted, Hs.
Qed.

(* the whole body of a version can be added to the empty zone without evicting / replacing *)
Lemma adds_ok_body : forall v, version_wf_g v -> adds_ok [] (body (v_rest v)).
Proof.
  intros v (_ & Hb & Sb & Cb). rewrite <- zminus_nil.
  apply (adds_ok_gen [] (v_rest v) []); try assumption.
  - split; constructor.
  - constructor.
  - intros k k' H1 H2. apply Cb; apply zone_of_keys; assumption.
  - intros k _. reflexivity.
  - intros k H. right. rewrite zminus_nil, (adds_body0 _ Hb) in H. exact H.
Qed.

Lemma step_fallback_g : forall l p tz ser s0 r, rec_g r ->
  step l (ist false p tz ser s0 true false) (single r) =
  (ast false tIXFR p (adds [] [r]) ser s0, None).
Proof.
  intros l p tz ser s0 r Hp. pose proof Hp as (Hc & Ht & Hn & Httl).
  unfold step, ist. cbn [done txn expecting].
  assert (E : (s_type (single r) =? tSOA) = false) by (apply Z.eqb_neq; exact Ht).
  rewrite E. cbn [andb].
  assert (Z : in_zone (s_name (single r)) = true) by (apply Z.leb_le; exact Hn).
  rewrite Z. cbn [negb delmode set_txn set_delmode set_expecting set_incremental].
  rewrite (t_add_single_gg [] r Hp); [reflexivity| |reflexivity].
  intros k' H. exfalso. apply H. reflexivity.
Qed.

Lemma step_final_full_g : forall u rdt p tz ser v, ttl_ok (v_ttl v) -> addable tz soakey ->
  step Last (ast u rdt p tz ser (single (soa_rr v))) (single (soa_rr v)) =
  (mkSt (zput soakey (v_ttl v, [v_soa v]) tz) None rdt false ser u (Some (single (soa_rr v))) true false false false, None).
Proof.
  intros u rdt p tz ser v Httl Hq. unfold step, ast. cbn [done txn incremental delmode soa set_delmode negb].
  change ((s_type (single (soa_rr v)) =? tSOA) && (s_name (single (soa_rr v)) =? origin)) with true. cbv iota.
  rewrite soa_eqb, Z.eqb_refl. cbn [andb orb negb].
  rewrite soa_serial_single. cbn [expecting incremental negb andb].
  rewrite t_add_soa_g by assumption. reflexivity.
Qed.

Lemma full_target_g : forall v z', version_wf_g v ->
  zeq z' (zput soakey (v_ttl v, [v_soa v]) (adds [] (body (v_rest v)))) -> zeq z' (zone_of v).
Proof.
  intros v z' (_ & Hwf & _) H k. rewrite H, look_zput, look_zone_of.
  destruct (key_eqb k soakey); [reflexivity|apply adds_body0, Hwf].
Qed.

Theorem axfr_style_ixfr_converges_general : forall v z0 ser ws,
  version_wf_g v -> v_rest v <> [] ->
  v_serial v <> ser -> serial_lt (v_serial v) ser = false ->
  chunking tIXFR (axfr_stream v) ws ->
  exists z' n, inbound_xfr z0 tIXFR (Some ser) false ws = (Done z', n) /\ zeq z' (zone_of v).
Proof.
  intros v z0 ser ws Hv Hne Hs Hlt Hch. unfold axfr_stream in Hch.
  apply chunking_first in Hch. destruct Hch as (w & ws' & a & -> & Hr & Hw & Hws & Hcat).
  pose proof Hv as (Httl & Hwf & Sv & Cv).
  assert (Hpl : Forall rec_g (body (v_rest v))).
  { rewrite <- zminus_nil. apply zminus_rec_g, Hwf. }
  pose proof (adds_ok_body v Hv) as Hok.
  destruct (body (v_rest v)) as [|r c] eqn:Eb.
  { exfalso. destruct (v_rest v) as [|[k [t ds]] rest]; [congruence|].
    destruct Hwf as [_ Hf]. inversion Hf as [|? ? He _]; subst.
    unfold body in Eb. cbn [flat_map] in Eb. apply app_eq_nil in Eb. destruct Eb as [Eb _].
    rewrite rrs_of_entry_mk in Eb. destruct k as [[n ty] cv]. cbn in He.
    destruct He as (_ & _ & _ & Hds & _). destruct ds; [congruence|discriminate]. }
  inversion Hpl as [|? ? Hpr Hpc]; subst.
  unfold inbound_xfr, xfr_run. rewrite init_ixfr. cbn [Z.eqb tIXFR Pos.eqb]. rewrite drive_cons by solve_req.
  rewrite (first_message_ixfr z0 ser false w (soa_rr v) a Hw Hr) by (split; reflexivity).
  cbv zeta. change (r_data (soa_rr v) mod two32) with (v_serial v).
  apply Z.eqb_neq in Hs. rewrite Hs, Hlt. cbn [andb]. rewrite after_tcp by reflexivity.
  set (s0 := ist false z0 z0 ser (single (soa_rr v)) true false).
  assert (Hl : loopn s0 (map single (r :: c)) =
               (ast false tIXFR z0 (adds [] (r :: c)) ser (single (soa_rr v)), None)).
  { cbn [map loopn]. unfold s0. rewrite step_fallback_g by exact Hpr.
    unfold ast. rewrite loopn_adds_g; [reflexivity|exact Hpc|].
    intros pre r' post E. apply (Hok (r :: pre) r' post). rewrite E. reflexivity. }
  assert (Hsoa : addable (adds [] (r :: c)) soakey).
  { intros k' Hk'. rewrite <- Eb, (adds_body0 _ Hwf) in Hk'.
    apply Cv; apply zone_of_keys; [left; reflexivity|right; exact Hk']. }
  assert (Hrun : running s0) by (repeat split; try reflexivity; discriminate).
  destruct (cont_records ws' a s0 (r :: c) (soa_rr v) _ _ Hrun Hws Hcat Hl eq_refl
              (step_final_full_g false tIXFR z0 _ ser v Httl Hsoa) eq_refl) as [n Hn].
  eexists. exists n. split; [exact Hn|]. cbn [pub]. apply full_target_g; [exact Hv|]. rewrite Eb. apply zeq_refl.
Qed.
