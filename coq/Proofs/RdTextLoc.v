(* LOC (dns/rdtypes/ANY/LOC.py): coordinates with their optional minutes / seconds / milliseconds, the altitude
   and the three sizes printed with format(x / 100.0, "0.2f") and read back with float(t) * 100.0, in IEEE-754
   double arithmetic (Model/RdTextM.v: round_q and friends, compared with CPython's float on every run). *)
From DV Require Import Base.Prelude Model.NameM Model.TokM Model.RdTextM.
From DV Require Import Proofs.TokEsc Proofs.TokTxt Proofs.TokWords Proofs.TokDec Proofs.TokShape Proofs.TokGeneric
     Proofs.RdTextAddr Proofs.RdTextTypes Proofs.RdTextTail Proofs.RdTextApl.
Open Scope Z_scope.
Set Warnings "-abstract-large-number".

Ltac Zify.zify_post_hook ::= Z.to_euclidean_division_equations.

(* ---------- decimal digits ---------- *)
Lemma dec_value_app x : forall y a, dec_value (x ++ y) a = dec_value y (dec_value x a).
Proof. induction x as [|c x IH]; intros y a; [reflexivity|]. cbn [app dec_value]. apply IH. Qed.

Lemma dec_value_dec n : 0 <= n -> dec_value (dec n) 0 = n.
Proof. intros Hn. rewrite dec_value_pv. apply pv_dec, Hn. Qed.

Lemma pad2_facts b : 0 <= b < 100 ->
  forallb is_decimal (pad2 b) = true /\ zlen (pad2 b) = 2 /\ forall a, dec_value (pad2 b) a = a * 100 + b.
Proof.
  intros Hb. unfold pad2. split; [|split; [reflexivity|]].
  - cbn [forallb]. unfold is_decimal. replace ((48 <=? 48 + b / 10) && (48 + b / 10 <=? 57)) with true by lia.
    replace ((48 <=? 48 + b mod 10) && (48 + b mod 10 <=? 57)) with true by lia. reflexivity.
  - intros a. cbn [dec_value]. lia.
Qed.

Lemma pad3_facts b : 0 <= b <= 999 ->
  forallb is_decimal (pad3 b) = true /\ length (pad3 b) = 3%nat /\ dec_value (pad3 b) 0 = b.
Proof.
  intros Hb. unfold pad3.
  assert (Hd : forall n, 0 <= n -> forallb is_decimal (dec n) = true) by (intros; apply dec_decimal; assumption).
  assert (L1 : forall n, 0 <= n < 10 -> dec n = [48 + n]).
  { intros n Hn. assert (n = 0 \/ n = 1 \/ n = 2 \/ n = 3 \/ n = 4 \/ n = 5 \/ n = 6 \/ n = 7 \/ n = 8 \/ n = 9) by lia.
    repeat (destruct H as [->|H]; [reflexivity|]). subst. reflexivity. }
  destruct (b <? 10) eqn:E1.
  - rewrite (L1 b) by lia. split; [|split; [reflexivity|cbn [app dec_value]; lia]].
    cbn [app forallb]. unfold is_decimal. replace ((48 <=? 48 + b) && (48 + b <=? 57)) with true by lia. reflexivity.
  - destruct (b <? 100) eqn:E2.
    + assert (E : dec b = [48 + b / 10; 48 + b mod 10]).
      { pose proof (pad2_facts b ltac:(lia)) as (_ & _ & P).
        assert (Hdv : dec_value (dec b) 0 = b) by (apply dec_value_dec; lia).
        (* two digits: by the sweep below *) clear P Hdv.
        assert (Hall : forallb (fun n => zlist_eqb (dec n) [48 + n / 10; 48 + n mod 10]) (map Z.of_nat (seq 10 90)) = true)
          by (vm_compute; reflexivity).
        rewrite forallb_forall in Hall. apply zlist_eqb_eq. apply Hall.
        rewrite <- (Z2Nat.id b) by lia. apply in_map. apply in_seq. lia. }
      rewrite E. split; [|split; [reflexivity|cbn [dec_value]; lia]].
      cbn [forallb]. unfold is_decimal. replace ((48 <=? 48 + b / 10) && (48 + b / 10 <=? 57)) with true by lia.
      replace ((48 <=? 48 + b mod 10) && (48 + b mod 10 <=? 57)) with true by lia. reflexivity.
    + assert (Hall : forallb (fun n => Nat.eqb (length (dec n)) 3) (map Z.of_nat (seq 100 900)) = true) by (vm_compute; reflexivity).
      rewrite forallb_forall in Hall.
      assert (Hl : length (dec b) = 3%nat).
      { apply Nat.eqb_eq. apply Hall. rewrite <- (Z2Nat.id b) by lia. apply in_map. apply in_seq. lia. }
      split; [apply Hd; lia|]. split; [exact Hl|apply dec_value_dec; lia].
Qed.

(* ---------- numbers ---------- *)
Lemma rdiv_even_nonneg n d : 0 <= n -> 0 < d -> 0 <= rdiv_even n d.
Proof.
  intros Hn Hd. unfold rdiv_even. assert (0 <= n / d) by (apply Z.div_pos; lia).
  destruct ((2 * (n mod d) >? d) || ((2 * (n mod d) =? d) && Z.odd (n / d))); lia.
Qed.

Lemma pow2_pos k : 0 < 2 ^ k \/ k < 0.
Proof. destruct (Z_lt_le_dec k 0); [right; assumption|left; apply Z.pow_pos_nonneg; lia]. Qed.

Lemma dbl_q_pos x : 0 <= dm x -> 0 <= fst (dbl_q x) /\ 0 < snd (dbl_q x).
Proof.
  intros Hm. unfold dbl_q. destruct (de x >=? 0) eqn:E; cbn [fst snd].
  - split; [|lia]. apply Z.mul_nonneg_nonneg; [exact Hm|]. apply Z.pow_nonneg. lia.
  - split; [exact Hm|]. apply Z.pow_pos_nonneg; lia.
Qed.

Lemma round_q_dm neg n d : 0 <= n -> 0 < d -> 0 <= dm (the_dbl (round_q neg n d)).
Proof.
  intros Hn Hd. unfold round_q. destruct (n =? 0); [cbn; lia|].
  destruct (scaled n d (pick_exp n d)) as [sn sd] eqn:Es.
  assert (Hs : 0 <= sn /\ 0 < sd).
  { unfold scaled in Es. destruct (pick_exp n d >=? 0) eqn:Ee; inversion Es; subst.
    - split; [lia|]. apply Z.mul_pos_pos; [lia|apply Z.pow_pos_nonneg; lia].
    - split; [|lia]. apply Z.mul_nonneg_nonneg; [lia|apply Z.pow_nonneg; lia]. }
  pose proof (rdiv_even_nonneg sn sd (proj1 Hs) (proj2 Hs)) as Hr.
  destruct (rdiv_even sn sd =? p53); cbn [fst snd].
  - destruct (pick_exp n d + 1 >? 971); cbn [the_dbl dm]; unfold p52; lia.
  - destruct (pick_exp n d >? 971); cbn [the_dbl dm]; lia.
Qed.

Definition fmt_R (d : dbl) : Z := let '(n, q) := dbl_q d in rdiv_even (n * 100) q.

Lemma fmt_R_nonneg d : 0 <= dm d -> 0 <= fmt_R d.
Proof.
  intros Hm. unfold fmt_R. destruct (dbl_q_pos d Hm) as [A B]. destruct (dbl_q d) as [n q]. cbn [fst snd] in *.
  apply rdiv_even_nonneg; lia.
Qed.

Lemma format_2f_eq d : format_2f d = (if dneg d then [45] else []) ++ dec (fmt_R d / 100) ++ [46] ++ pad2 (fmt_R d mod 100).
Proof. unfold format_2f, fmt_R. destruct (dbl_q d) as [n q]. reflexivity. Qed.

Definition numc (c : Z) : bool := is_decimal c || (c =? 46) || (c =? 45) || (c =? 109).

Lemma numc_safe t : forallb numc t = true -> forallb safe t = true.
Proof.
  intros H. apply forallb_forall. intros c Hc. rewrite forallb_forall in H. specialize (H c Hc).
  unfold numc, is_decimal in H. unfold safe, is_delim.
  replace (c =? 32) with false by lia. replace (c =? 9) with false by lia.
  replace (c =? 10) with false by lia. replace (c =? 59) with false by lia.
  replace (c =? 40) with false by lia. replace (c =? 41) with false by lia.
  replace (c =? 34) with false by lia. replace (c =? 92) with false by lia. reflexivity.
Qed.

Lemma decimal_numc s : forallb is_decimal s = true -> forallb numc s = true.
Proof.
  intros H. apply forallb_forall. intros c Hc. rewrite forallb_forall in H. unfold numc. rewrite (H c Hc). reflexivity.
Qed.

(* float(format(x, "0.2f")) is the correctly rounded value of the printed decimal *)
Lemma float_of_format d : 0 <= dm d ->
  float_of_text (format_2f d) = Ok (round_q (dneg d) (fmt_R d) 100) /\ forallb numc (format_2f d) = true.
Proof.
  intros Hm. pose proof (fmt_R_nonneg d Hm) as HR. rewrite format_2f_eq. set (R := fmt_R d) in *.
  assert (Ha : 0 <= R / 100) by (apply Z.div_pos; lia).
  assert (Hb : 0 <= R mod 100 < 100) by (apply Z.mod_pos_bound; lia).
  destruct (pad2_facts (R mod 100) Hb) as (P1 & P2 & P3).
  pose proof (dec_decimal (R / 100) Ha) as D1. pose proof (dec_nonempty (R / 100)) as D2.
  set (body := dec (R / 100) ++ [46] ++ pad2 (R mod 100)).
  assert (Hsplit : split_once 46 body = Some (dec (R / 100), pad2 (R mod 100))).
  { unfold body. change ([46] ++ pad2 (R mod 100)) with (46 :: pad2 (R mod 100)).
    apply split_once_app. apply dec_ns; [exact Ha|left; reflexivity]. }
  assert (Hval : dec_value (dec (R / 100) ++ pad2 (R mod 100)) 0 = R).
  { rewrite dec_value_app, dec_value_dec by exact Ha. rewrite P3. lia. }
  assert (Hnumc : forallb numc body = true).
  { unfold body. rewrite !forallb_app. rewrite (decimal_numc _ D1), (decimal_numc _ P1). reflexivity. }
  assert (Hd0 : exists c r, dec (R / 100) = c :: r /\ is_decimal c = true).
  { destruct (dec (R / 100)) as [|c r]; [congruence|]. exists c, r. split; [reflexivity|].
    cbn [forallb] in D1. apply andb_true_iff in D1 as [D1 _]. exact D1. }
  destruct Hd0 as (c0 & r0 & E0 & Hc0).
  split.
  - unfold float_of_text. destruct (dneg d).
    + cbn [app]. change (45 =? 45) with true. cbv iota. fold body. rewrite Hsplit.
      rewrite D1, P1. cbn [andb]. replace (is_nil (dec (R / 100))) with false by (rewrite E0; reflexivity). cbn [andb negb].
      rewrite Hval. rewrite P2. reflexivity.
    + cbn [app]. fold body.
      assert (Hhead : (match body with
                       | c :: r => if c =? 45 then (true, r) else if c =? 43 then (false, r) else (false, body)
                       | [] => (false, body)
                       end) = (false, body)).
      { unfold body. rewrite E0. cbn [app]. unfold is_decimal in Hc0.
        replace (c0 =? 45) with false by lia. replace (c0 =? 43) with false by lia. reflexivity. }
      rewrite Hhead. rewrite Hsplit. rewrite D1, P1. cbn [andb].
      replace (is_nil (dec (R / 100))) with false by (rewrite E0; reflexivity).
      cbn [andb negb]. rewrite Hval. rewrite P2. reflexivity.
  - destruct (dneg d); cbn [app forallb]; [change (numc 45) with true; cbn [andb]|]; exact Hnumc.
Qed.

Definition num_reparse (x : dbl) : fval :=
  let y := the_dbl (fdiv100 x) in fmul100 (round_q (dneg y) (fmt_R y) 100).

Lemma fdiv100_dm x : 0 <= dm x -> 0 <= dm (the_dbl (fdiv100 x)).
Proof.
  intros Hm. unfold fdiv100. destruct (dbl_q_pos x Hm) as [A B]. destruct (dbl_q x) as [n q]. cbn [fst snd] in *.
  apply round_q_dm; lia.
Qed.

Theorem loc_meters_text x : 0 <= dm x ->
  loc_meters (meters_text x) = Ok (num_reparse x) /\ forallb safe (meters_text x) = true /\ meters_text x <> [].
Proof.
  intros Hm. pose proof (fdiv100_dm x Hm) as Hy. destruct (float_of_format _ Hy) as [F N].
  unfold meters_text. split; [|split].
  - unfold loc_meters. rewrite rev_app_distr. cbn [rev app]. change (109 =? 109) with true. cbv iota.
    rewrite rev_involutive. rewrite F. reflexivity.
  - apply numc_safe. rewrite forallb_app, N. reflexivity.
  - destruct (format_2f (the_dbl (fdiv100 x))); discriminate.
Qed.

(* ---------- one coordinate ---------- *)
Lemma get_int_from n stX s1 : 0 <= n ->
  get0 stX = Ok (mkTok tIDENT (dec n) false None, s1) -> get_int stX 10 = Ok (n, s1).
Proof.
  intros Hn HX. unfold get_int, get_unescaped. rewrite HX. cbn [bind fst snd]. unfold unescape. cbn [tesc negb bind fst snd].
  rewrite as_int_dec by lia. reflexivity.
Qed.

Lemma isdecimal_dec n : 0 <= n -> isdecimal_str (dec n) = true.
Proof.
  intros Hn. unfold isdecimal_str. rewrite (dec_decimal n Hn).
  pose proof (dec_nonempty n). destruct (dec n); [congruence|reflexivity].
Qed.

Definition secs_text (s ms : Z) : list Z := dec s ++ 46 :: pad3 ms.

Lemma secs_facts s ms : 0 <= s -> 0 <= ms <= 999 ->
  forallb safe (secs_text s ms) = true /\ secs_text s ms <> [] /\ isdecimal_str (secs_text s ms) = false /\
  existsb (Z.eqb 46) (secs_text s ms) = true /\ split_on 46 (secs_text s ms) [] = [dec s; pad3 ms].
Proof.
  intros Hs Hms. destruct (pad3_facts ms Hms) as (P1 & P2 & P3). pose proof (dec_decimal s Hs) as D.
  unfold secs_text. split; [|split; [|split; [|split]]].
  - apply numc_safe. rewrite forallb_app. cbn [forallb]. rewrite (decimal_numc _ D), (decimal_numc _ P1). reflexivity.
  - destruct (dec s); discriminate.
  - unfold isdecimal_str. rewrite forallb_app. cbn [forallb]. change (is_decimal 46) with false. rewrite andb_false_r, andb_false_r. reflexivity.
  - rewrite existsb_app. cbn [existsb]. change (46 =? 46) with true. rewrite orb_true_r. reflexivity.
  - rewrite split_on_word by (apply dec_ns; [exact Hs|left; reflexivity]). cbn [rev app].
    rewrite split_on_last by (apply decimal_nosep; [left; reflexivity|exact P1]). reflexivity.
Qed.

Definition coord_wf (cd : Z * Z * Z * Z * Z) : Prop :=
  let '(d, m, s, ms, sign) := cd in 0 <= d /\ 0 <= m /\ 0 <= s /\ 0 <= ms <= 999 /\ (sign = 1 \/ sign = -1).

Lemma coord_parse cd hpos hneg tail stX : coord_wf cd -> hpos <> hneg -> safe hpos = true -> safe hneg = true ->
  let '(d, m, s, ms, sign) := cd in
  get0 stX = Ok (mkTok tIDENT (dec d) false None,
                 stq false ([32] ++ dec m ++ ([32] ++ secs_text s ms ++ ([32] ++ [if sign >? 0 then hpos else hneg] ++ (32 :: tail))))) ->
  loc_coord stX hpos hneg = Ok (cd, stq false (32 :: tail)).
Proof.
  destruct cd as [[[[d m] s] ms] sign]. intros (Hd & Hm & Hs & Hms & Hsign) Hne Sp Sn HX.
  destruct (secs_facts s ms Hs Hms) as (F1 & F2 & F3 & F4 & F5). destruct (pad3_facts ms Hms) as (P1 & P2 & P3).
  set (h := if sign >? 0 then hpos else hneg) in *.
  assert (Sh : forallb safe [h] = true) by (unfold h; destruct (sign >? 0); cbn [forallb]; rewrite ?Sp, ?Sn; reflexivity).
  set (r3 := 32 :: tail) in *. set (r2 := [32] ++ [h] ++ r3) in *. set (r1 := [32] ++ secs_text s ms ++ r2) in *.
  assert (W1 : word_end r1) by apply word_end_blank32. assert (W2 : word_end r2) by apply word_end_blank32.
  assert (W3 : word_end r3) by apply word_end_blank32.
  unfold loc_coord. rewrite (get_int_from d stX _ Hd HX). cbn [bind fst snd].
  rewrite (get_string_word false [32] (dec m) r1 eq_refl (dec_safe m Hm) (dec_nonempty m) W1). cbn [bind fst snd].
  rewrite (isdecimal_dec m Hm). rewrite (dec_value_dec m Hm).
  unfold r1 at 1. rewrite (get_string_word false [32] (secs_text s ms) r2 eq_refl F1 F2 W2). cbn [bind fst snd].
  rewrite F4, F5. rewrite (isdecimal_dec s Hs). cbn [negb]. rewrite P2.
  change (Nat.eqb 3 0 || Nat.ltb 3 3) with false. rewrite P1. cbn [negb orb].
  change (Nat.eqb 3 1) with false. change (Nat.eqb 3 2) with false. cbv iota.
  unfold r2 at 1. rewrite (get_string_word false [32] [h] r3 eq_refl Sh ltac:(discriminate) W3). cbn [bind fst snd].
  rewrite (dec_value_dec s Hs), P3. replace (1 * ms) with ms by lia.
  unfold h. destruct Hsign as [-> | ->]; cbn [Z.gtb Z.compare].
  - cbn [zlist_eqb]. replace (hpos =? hneg) with false by lia. cbn [andb]. rewrite Z.eqb_refl. reflexivity.
  - cbn [zlist_eqb]. rewrite Z.eqb_refl. reflexivity.
Qed.

Lemma line_end_word_end_l r : line_end r -> word_end r.
Proof. intros [->|[x ->]]; [left; reflexivity|right; exists 10, x; split; reflexivity]. Qed.

(* ---------- the record ---------- *)
Definition loc_sizes_default (sz hp vp : dbl) : bool :=
  dbl_eqb sz loc_default_size && dbl_eqb hp loc_default_hprec && dbl_eqb vp loc_default_vprec.

Definition loc_ok (la lo : Z * Z * Z * Z * Z) (alt : Z) (sz hp vp : dbl) : Prop :=
  coord_wf la /\ coord_wf lo /\ loc_coord_ok la 90 = true /\ loc_coord_ok lo 180 = true /\
  -10000000 <= alt < 4284967296 /\
  (exists a', num_reparse (the_dbl (dbl_of_Z alt)) = FFin a' /\ dbl_round a' = alt) /\
  0 <= dm sz /\ 0 <= dm hp /\ 0 <= dm vp /\
  (loc_sizes_default sz hp vp = false ->
     (exists s, loc_norm (num_reparse sz) = Ok s) /\ (exists s, loc_norm (num_reparse hp) = Ok s)
     /\ (exists s, loc_norm (num_reparse vp) = Ok s)).

(* the value the wire form of a re-read size has (loc_norm succeeds under loc_ok) *)
Definition norm_dbl (x : fval) : dbl := match loc_norm x with Ok d => d | _ => mkD false 0 (-1074) end.

(* what from_text returns: the sizes re-read from their two-decimal text and cut to one digit times a power of ten *)
Definition loc_expect (la lo : Z * Z * Z * Z * Z) (alt : Z) (sz hp vp : dbl) : tval :=
  if loc_sizes_default sz hp vp then VLoc la lo alt sz hp vp
  else VLoc la lo alt (norm_dbl (num_reparse sz)) (norm_dbl (num_reparse hp)) (norm_dbl (num_reparse vp)).

Lemma default_sizes_ok : loc_norm (FFin loc_default_size) = Ok loc_default_size /\ loc_norm (FFin loc_default_hprec) = Ok loc_default_hprec
  /\ loc_norm (FFin loc_default_vprec) = Ok loc_default_vprec.
Proof. repeat split; vm_compute; reflexivity. Qed.

Lemma dbl_eqb_eq a b : dbl_eqb a b = true -> dm b <> 0 -> a = b.
Proof.
  unfold dbl_eqb. destruct a as [na ma ea], b as [nb mb eb]. cbn [dm de dneg]. intros H Hb.
  apply andb_true_iff in H as [H H3]. apply andb_true_iff in H as [H1 H2]. apply Z.eqb_eq in H1. apply Z.eqb_eq in H2. subst.
  apply orb_true_iff in H3 as [H3|H3]; [apply Bool.eqb_prop in H3; subst; reflexivity|apply Z.eqb_eq in H3; congruence].
Qed.

Lemma grl3 z1 z2 z3 R : forallb safe z1 = true -> z1 <> [] -> forallb safe z2 = true -> z2 <> [] ->
  forallb safe z3 = true -> z3 <> [] -> word_end R ->
  get_remaining (stq false ([32] ++ z1 ++ ([32] ++ z2 ++ ([32] ++ z3 ++ R)))) 3 = Ok ([utok z1; utok z2; utok z3], stq false R).
Proof.
  intros S1 N1 S2 N2 S3 N3 HR. unfold get_remaining, rem_fuel, stq. cbn [inp pend app length].
  change (mkSt (32 :: z1 ++ 32 :: z2 ++ 32 :: z3 ++ R) 0 false None) with (stq false ([32] ++ z1 ++ ([32] ++ z2 ++ ([32] ++ z3 ++ R)))).
  rewrite grl_unfold_m.
  rewrite (get0_word_q false [32] z1 ([32] ++ z2 ++ ([32] ++ z3 ++ R)) eq_refl (units_safe _ S1) N1 (word_end_blank32 _)).
  cbn [bind]. change (is_eol_or_eof (mkTok tIDENT z1 (has_bs z1) None)) with false. cbv iota.
  change (negb (3 =? 0) && (zlen [mkTok tIDENT z1 (has_bs z1) None] =? 3)) with false. cbv iota.
  rewrite grl_unfold_m.
  rewrite (get0_word_q false [32] z2 ([32] ++ z3 ++ R) eq_refl (units_safe _ S2) N2 (word_end_blank32 _)).
  cbn [bind]. change (is_eol_or_eof (mkTok tIDENT z2 (has_bs z2) None)) with false. cbv iota.
  change (negb (3 =? 0) && (zlen [mkTok tIDENT z2 (has_bs z2) None; mkTok tIDENT z1 (has_bs z1) None] =? 3)) with false. cbv iota.
  assert (Hf : exists f, length (z1 ++ 32 :: z2 ++ 32 :: z3 ++ R) = S f).
  { destruct z1; [congruence|]. cbn [app length]. eexists. reflexivity. }
  destruct Hf as (f & Ef). rewrite Ef. rewrite grl_unfold_m.
  rewrite (get0_word_q false [32] z3 R eq_refl (units_safe _ S3) N3 HR).
  cbn [bind]. change (is_eol_or_eof (mkTok tIDENT z3 (has_bs z3) None)) with false. cbv iota.
  change (negb (3 =? 0) && (zlen [mkTok tIDENT z3 (has_bs z3) None; mkTok tIDENT z2 (has_bs z2) None; mkTok tIDENT z1 (has_bs z1) None] =? 3)) with true.
  cbv iota. reflexivity.
Qed.

Lemma meters_token x : 0 <= dm x ->
  (do u <- unescape (utok (meters_text x)); loc_meters (tvalue u)) = Ok (num_reparse x).
Proof.
  intros Hm. destruct (loc_meters_text x Hm) as (E & S & N). unfold utok, unescape. cbn [tesc].
  rewrite has_bs_safe by exact S. cbn [negb bind tvalue]. exact E.
Qed.

Definition loc_tail (sz hp vp : dbl) (R : list Z) : list Z :=
  if loc_sizes_default sz hp vp then R
  else [32] ++ meters_text sz ++ ([32] ++ meters_text hp ++ ([32] ++ meters_text vp ++ R)).

Definition hemi (sign pos neg : Z) : Z := if sign >? 0 then pos else neg.

Theorem loc_after_first d1 m1 s1 ms1 sg1 d2 m2 s2 ms2 sg2 alt sz hp vp R stX :
  loc_ok (d1, m1, s1, ms1, sg1) (d2, m2, s2, ms2, sg2) alt sz hp vp -> line_end R ->
  get0 stX = Ok (mkTok tIDENT (dec d1) false None,
     stq false ([32] ++ dec m1 ++ ([32] ++ secs_text s1 ms1 ++ ([32] ++ [hemi sg1 78 83] ++ (32 ::
       (dec d2 ++ ([32] ++ dec m2 ++ ([32] ++ secs_text s2 ms2 ++ ([32] ++ [hemi sg2 69 87] ++ (32 ::
          (meters_text (the_dbl (dbl_of_Z alt)) ++ loc_tail sz hp vp R))))))))))) ->
  exists st, loc_from_text stX = Ok (loc_expect (d1, m1, s1, ms1, sg1) (d2, m2, s2, ms2, sg2) alt sz hp vp, st) /\
    ((exists te, ungot st = Some te /\ is_eol_or_eof te = true) \/ st = stq false R).
Proof.
  intros (W1 & W2 & C1 & C2 & Halt & (a' & Ea & Ra) & M1 & M2 & M3 & Hsz) HR HX.
  set (A := meters_text (the_dbl (dbl_of_Z alt))) in *. set (T := loc_tail sz hp vp R) in *.
  assert (Md : 0 <= dm (the_dbl (dbl_of_Z alt))) by (unfold dbl_of_Z; apply round_q_dm; lia).
  destruct (loc_meters_text _ Md) as (EA & SA & NA). fold A in EA, SA, NA.
  assert (WT : word_end T).
  { unfold T, loc_tail. destruct (loc_sizes_default sz hp vp); [apply line_end_word_end_l, HR|apply word_end_blank32]. }
  unfold loc_from_text. unfold hemi in HX.
  set (rest2 := [32] ++ dec m2 ++ ([32] ++ secs_text s2 ms2 ++ ([32] ++ [if sg2 >? 0 then 69 else 87] ++ (32 :: (A ++ T))))) in *.
  pose proof (coord_parse (d1, m1, s1, ms1, sg1) 78 83 (dec d2 ++ rest2) stX W1 ltac:(lia) eq_refl eq_refl) as P1. cbv beta iota in P1.
  rewrite (P1 HX). cbn [bind fst snd].
  (* longitude: its first token *)
  assert (Hd2 : 0 <= d2) by (destruct W2 as (H & _); exact H).
  assert (G2 : get0 (stq false (32 :: dec d2 ++ rest2)) = Ok (mkTok tIDENT (dec d2) false None, stq false rest2)).
  { pose proof (get0_word_q false [32] (dec d2) rest2 eq_refl (units_safe _ (dec_safe d2 Hd2)) (dec_nonempty d2) (word_end_blank32 _)) as G.
    rewrite has_bs_safe in G by (apply dec_safe; exact Hd2). exact G. }
  pose proof (coord_parse (d2, m2, s2, ms2, sg2) 69 87 (A ++ T) (stq false (32 :: dec d2 ++ rest2)) W2 ltac:(lia) eq_refl eq_refl) as P2.
  cbv beta iota in P2. rewrite (P2 G2). cbn [bind fst snd].
  change (32 :: (A ++ T)) with ([32] ++ A ++ T).
  rewrite (get_string_word false [32] A T eq_refl SA NA WT). cbn [bind fst snd]. rewrite EA. cbn [bind]. rewrite Ea. cbn [bind].
  rewrite Ra.
  unfold T, loc_tail, loc_expect. destruct (loc_sizes_default sz hp vp) eqn:Edef.
  - (* default sizes: nothing follows the altitude *)
    unfold get_remaining, rem_fuel. rewrite grl_unfold_m.
    destruct (get0_end_q false [] R eq_refl HR) as (te & st & H1 & H2 & H3 & H4 & E). cbn [app] in E. rewrite E. cbn [bind].
    rewrite H1. unfold unget. rewrite H4. cbn [bind rev fst snd map_res nth].
    destruct default_sizes_ok as (D1 & D2 & D3). rewrite D1, D2, D3. cbn [bind].
    rewrite C1, C2. cbn [negb orb]. replace ((alt <? -10000000) || (alt >=? 4284967296)) with false by lia.
    unfold loc_sizes_default in Edef. apply andb_true_iff in Edef as [Edef E3]. apply andb_true_iff in Edef as [E1 E2].
    rewrite (dbl_eqb_eq _ _ E1 ltac:(vm_compute; discriminate)), (dbl_eqb_eq _ _ E2 ltac:(vm_compute; discriminate)),
            (dbl_eqb_eq _ _ E3 ltac:(vm_compute; discriminate)).
    eexists. split; [reflexivity|]. left. exists te. split; [reflexivity|exact H1].
  - destruct (Hsz eq_refl) as ((k1 & K1) & (k2 & K2) & (k3 & K3)).
    destruct (loc_meters_text sz M1) as (_ & S1 & N1). destruct (loc_meters_text hp M2) as (_ & S2 & N2).
    destruct (loc_meters_text vp M3) as (_ & S3 & N3).
    rewrite (grl3 _ _ _ R S1 N1 S2 N2 S3 N3 (line_end_word_end_l R HR)). cbn [bind fst snd map_res].
    rewrite (meters_token sz M1), (meters_token hp M2), (meters_token vp M3). cbn [bind nth].
    unfold norm_dbl. rewrite K1, K2, K3. cbn [bind]. rewrite C1, C2. cbn [negb orb].
    replace ((alt <? -10000000) || (alt >=? 4284967296)) with false by lia.
    eexists. split; [reflexivity|]. right. reflexivity.
Qed.

(* ---------- the numbers that occur in records read from wire ---------- *)
(* sizes: base * 10^exponent centimetres, base and exponent 0..9 (RFC 1876): the two-decimal text is read back to
   exactly the same value *)
Definition wire_size (b e : Z) : dbl := the_dbl (round_q false (b * 10 ^ e) 1).

Definition size_rt_ok (be : Z * Z) : bool :=
  let x := wire_size (fst be) (snd be) in
  match loc_norm (num_reparse x) with
  | Ok y => (dm y =? dm x) && (de y =? de x) && Bool.eqb (dneg y) (dneg x) && (0 <=? dm x)
  | _ => false
  end.

Definition all_sizes : list (Z * Z) := flat_map (fun b => map (fun e => (b, e)) [0; 1; 2; 3; 4; 5; 6; 7; 8; 9]) [0; 1; 2; 3; 4; 5; 6; 7; 8; 9].

Lemma wire_sizes_roundtrip : forallb size_rt_ok all_sizes = true.
Proof. vm_compute. reflexivity. Qed.

Theorem wire_size_roundtrip b e : 0 <= b <= 9 -> 0 <= e <= 9 ->
  loc_norm (num_reparse (wire_size b e)) = Ok (wire_size b e) /\ 0 <= dm (wire_size b e).
Proof.
  intros Hb He. pose proof wire_sizes_roundtrip as G. rewrite forallb_forall in G. specialize (G (b, e)).
  assert (Hin : In (b, e) all_sizes).
  { unfold all_sizes. apply in_flat_map. exists b. split.
    - cbn [In]. lia.
    - apply in_map_iff. exists e. split; [reflexivity|]. cbn [In]. lia. }
  specialize (G Hin). unfold size_rt_ok in G. cbn [fst snd] in G.
  destruct (loc_norm (num_reparse (wire_size b e))) as [y| |]; try discriminate.
  apply andb_true_iff in G as [G G4]. apply andb_true_iff in G as [G G3]. apply andb_true_iff in G as [G1 G2].
  split; [|lia]. f_equal. destruct y as [ny my ey], (wire_size b e) as [nx mx ex]. cbn [dm de dneg] in *.
  apply Z.eqb_eq in G1. apply Z.eqb_eq in G2. apply Bool.eqb_prop in G3. subst. reflexivity.
Qed.

(* altitude: see Proofs/RdTextLocAlt.v (error bounds on the correctly rounded operations, whole wire range) *)
