(* LOC altitude: round(float(format(alt / 100.0, "0.2f")) * 100.0) = alt for every altitude of the wire range, by
   error bounds on the correctly rounded operations (no sweep). *)
From DV Require Import Base.Prelude Model.NameM Model.TokM Model.RdTextM.
From DV Require Import Proofs.RdTextLoc.
Open Scope Z_scope.

(* ---------- round-half-even division ---------- *)
Lemma rdiv_even_err n d : 0 <= n -> 0 < d -> Z.abs (rdiv_even n d * d - n) * 2 <= d.
Proof.
  intros Hn Hd. unfold rdiv_even. pose proof (Z.div_mod n d ltac:(lia)) as E. pose proof (Z.mod_pos_bound n d Hd) as B.
  set (q := n / d) in *. set (r := n mod d) in *.
  destruct ((2 * r >? d) || ((2 * r =? d) && Z.odd q)) eqn:C.
  - apply orb_true_iff in C as [C|C]; [|apply andb_true_iff in C as [C _]]; nia.
  - apply orb_false_iff in C as [C1 C2]. assert (2 * r <= d) by lia. nia.
Qed.

Lemma rdiv_even_unique n d k : 0 <= n -> 0 < d -> Z.abs (k * d - n) * 2 < d -> rdiv_even n d = k.
Proof.
  intros Hn Hd Hk. pose proof (rdiv_even_err n d Hn Hd) as E. set (m := rdiv_even n d) in *.
  assert (Z.abs ((m - k) * d) < 2 * d) by nia.
  assert (Z.abs (m - k) * d < 2 * d) by (rewrite <- (Z.abs_eq d) at 1 by lia; rewrite <- Z.abs_mul; exact H).
  assert (Z.abs (m - k) < 2) by nia.
  destruct (Z.eq_dec m k) as [|Hne]; [assumption|].
  assert (Z.abs (m - k) = 1) by lia.
  (* |m - k| = 1 contradicts the two half-unit bounds *)
  exfalso. assert (Z.abs ((m - k) * d) = d) by (rewrite Z.abs_mul, H2, (Z.abs_eq d) by lia; lia). nia.
Qed.

(* ---------- the exponent chosen for n / d in [2^-10, 2^40) ---------- *)
Lemma pow2_add a b : 0 <= a -> 0 <= b -> 2 ^ (a + b) = 2 ^ a * 2 ^ b.
Proof. intros. apply Z.pow_add_r; assumption. Qed.

Lemma round_q_spec neg n d : 0 < n -> 0 < d -> d <= n * 2 ^ 10 -> n < d * 2 ^ 40 ->
  exists m e, round_q neg n d = FFin (mkD neg m e) /\ -64 <= e <= -11 /\ 0 <= m /\
    Z.abs (m * d - n * 2 ^ (- e)) * 2 <= d.
Proof.
  intros Hn Hd Hlo Hhi.
  pose proof (Z.log2_spec n Hn) as [La Ua]. pose proof (Z.log2_spec d Hd) as [Lb Ub].
  set (a := Z.log2 n) in *. set (b := Z.log2 d) in *.
  assert (Ha : 0 <= a) by apply Z.log2_nonneg. assert (Hb : 0 <= b) by apply Z.log2_nonneg.
  replace (Z.succ a) with (a + 1) in Ua by lia. replace (Z.succ b) with (b + 1) in Ub by lia.
  (* a - b is between -11 and 40 *)
  assert (Hab1 : a - b <= 40).
  { destruct (Z_lt_le_dec 40 (a - b)) as [H|H]; [|lia]. exfalso.
    assert (2 ^ a = 2 ^ (a - b - 41) * 2 ^ 41 * 2 ^ b).
    { rewrite <- !pow2_add by lia. f_equal. lia. }
    assert (0 < 2 ^ (a - b - 41)) by (apply Z.pow_pos_nonneg; lia).
    rewrite pow2_add in Ub by lia. nia. }
  assert (Hab2 : -11 <= a - b).
  { destruct (Z_lt_le_dec (a - b) (-11)) as [H|H]; [|lia]. exfalso.
    assert (2 ^ b = 2 ^ (b - a - 12) * 2 ^ 12 * 2 ^ a).
    { rewrite <- !pow2_add by lia. f_equal. lia. }
    assert (0 < 2 ^ (b - a - 12)) by (apply Z.pow_pos_nonneg; lia).
    rewrite pow2_add in Ua by lia. nia. }
  set (t := 52 - a + b).
  assert (Ht : 12 <= t <= 63) by (unfold t; lia).
  (* the two candidate exponents e0 - 1 = -(t + 1) and e0 = -t *)
  assert (P1 : 2 ^ (a + t) = 2 ^ 52 * 2 ^ b) by (rewrite <- pow2_add by lia; f_equal; unfold t; lia).
  assert (Pt : 0 < 2 ^ t) by (apply Z.pow_pos_nonneg; lia).
  assert (Pt1 : 2 ^ (t + 1) = 2 * 2 ^ t) by (rewrite pow2_add by lia; lia).
  assert (Pa : 2 ^ (a + t) = 2 ^ a * 2 ^ t) by (apply pow2_add; lia).
  assert (Pa1 : 2 ^ (a + 1) = 2 * 2 ^ a) by (rewrite pow2_add by lia; lia).
  assert (Pb1 : 2 ^ (b + 1) = 2 * 2 ^ b) by (rewrite pow2_add by lia; lia).
  assert (F0up : n * 2 ^ t < p53 * d) by (unfold p53; change 9007199254740992 with (2 * 2 ^ 52); nia).
  assert (F1lo : p52 * d <= n * 2 ^ (t + 1)) by (unfold p52; change 4503599627370496 with (2 ^ 52); nia).
  unfold round_q. replace (n =? 0) with false by lia.
  assert (Hpick : exists e, pick_exp n d = e /\ (e = - t \/ e = - (t + 1)) /\
                   p52 * d <= n * 2 ^ (- e) /\ n * 2 ^ (- e) < p53 * d).
  { unfold pick_exp. fold a b. replace (a - b - 52) with (- t) by (unfold t; lia).
    unfold scaled at 1. replace (- t - 1 >=? 0) with false by lia. replace (- (- t - 1)) with (t + 1) by lia.
    destruct ((p52 * d <=? n * 2 ^ (t + 1)) && (n * 2 ^ (t + 1) <? p53 * d)) eqn:C1.
    - exists (- (t + 1)). replace (- t - 1) with (- (t + 1)) by lia. split; [apply Z.max_l; lia|]. split; [right; reflexivity|].
      replace (- - (t + 1)) with (t + 1) by lia. lia.
    - assert (p53 * d <= n * 2 ^ (t + 1)) by lia.
      unfold scaled. replace (- t >=? 0) with false by lia. replace (- - t) with t by lia.
      replace ((p52 * d <=? n * 2 ^ t) && (n * 2 ^ t <? p53 * d)) with true
        by (unfold p52, p53 in *; symmetry; apply andb_true_iff; split; [apply Z.leb_le|apply Z.ltb_lt]; nia).
      exists (- t). split; [apply Z.max_l; lia|]. split; [left; reflexivity|]. replace (- - t) with t by lia.
      unfold p52, p53 in *. nia. }
  destruct Hpick as (e & -> & He & Flo & Fup).
  assert (He' : -64 <= e <= -12) by lia.
  unfold scaled. replace (e >=? 0) with false by lia.
  assert (Pe : 0 < 2 ^ (- e)) by (apply Z.pow_pos_nonneg; lia).
  pose proof (rdiv_even_err (n * 2 ^ (- e)) d ltac:(nia) Hd) as Err.
  set (m := rdiv_even (n * 2 ^ (- e)) d) in *.
  assert (Hm0 : 0 <= m) by (apply rdiv_even_nonneg; nia).
  destruct (m =? p53) eqn:Ec.
  - apply Z.eqb_eq in Ec. replace (e + 1 >? 971) with false by lia.
    exists p52, (e + 1). split; [reflexivity|]. split; [lia|]. split; [unfold p52; lia|].
    assert (2 ^ (- e) = 2 * 2 ^ (- (e + 1))) by (replace (- e) with (1 + - (e + 1)) by lia; rewrite pow2_add by lia; lia).
    unfold p52, p53 in *. nia.
  - replace (e >? 971) with false by lia. exists m, e. split; [reflexivity|]. split; [lia|]. split; [exact Hm0|exact Err].
Qed.

Lemma pow_ge_2048 e : -64 <= e <= -11 -> 2048 <= 2 ^ (- e).
Proof. intros H. change 2048 with (2 ^ 11). apply Z.pow_le_mono_r; lia. Qed.

Lemma dbl_q_neg_exp neg m e : e < 0 -> dbl_q (mkD neg m e) = (m, 2 ^ (- e)).
Proof. intros H. unfold dbl_q. cbn [de dm]. replace (e >=? 0) with false by lia. reflexivity. Qed.

Theorem altitude_roundtrip alt : -10000000 <= alt < 4284967296 ->
  exists a', num_reparse (the_dbl (dbl_of_Z alt)) = FFin a' /\ dbl_round a' = alt.
Proof.
  intros Hr. destruct (Z.eq_dec alt 0) as [->|Hnz]; [eexists; split; vm_compute; reflexivity|].
  set (A := Z.abs alt). set (neg := alt <? 0).
  assert (HA : 1 <= A < 4284967296) by (unfold A; lia).
  assert (Hsign : (if neg then - A else A) = alt) by (unfold neg, A; destruct (alt <? 0) eqn:E; lia).
  unfold dbl_of_Z. fold A neg.
  (* 1. float(alt) is exact *)
  destruct (round_q_spec neg A 1 ltac:(lia) ltac:(lia) ltac:(lia) ltac:(lia)) as (m0 & e0 & E0 & He0 & Hm0 & B0).
  pose proof (pow_ge_2048 e0 He0) as P0. set (p0 := 2 ^ (- e0)) in *.
  assert (Hm0e : m0 = A * p0) by lia.
  rewrite E0. cbn [the_dbl]. unfold num_reparse, fdiv100. rewrite dbl_q_neg_exp by lia. fold p0. cbn [dneg].
  (* 2. / 100.0 *)
  destruct (round_q_spec neg m0 (p0 * 100) ltac:(nia) ltac:(nia) ltac:(nia) ltac:(nia)) as (m1 & e1 & E1 & He1 & Hm1 & B1).
  pose proof (pow_ge_2048 e1 He1) as P1. set (p1 := 2 ^ (- e1)) in *.
  rewrite E1. cbn [the_dbl dneg]. unfold fmt_R. rewrite dbl_q_neg_exp by lia. fold p1.
  assert (B1' : Z.abs (m1 * 100 - A * p1) * 2 <= 100).
  { subst m0. assert (Z.abs ((m1 * 100 - A * p1) * p0) * 2 <= p0 * 100) by (replace ((m1 * 100 - A * p1) * p0) with (m1 * (p0 * 100) - A * p0 * p1) by ring; exact B1).
    rewrite Z.abs_mul, (Z.abs_eq p0) in H by lia. nia. }
  (* 3. the two decimals printed are those of alt *)
  assert (HR : rdiv_even (m1 * 100) p1 = A).
  { apply rdiv_even_unique; [nia|lia|]. replace (A * p1 - m1 * 100) with (- (m1 * 100 - A * p1)) by ring. rewrite Z.abs_opp. lia. }
  rewrite HR.
  (* 4. float(text) *)
  destruct (round_q_spec neg A 100 ltac:(lia) ltac:(lia) ltac:(lia) ltac:(lia)) as (m2 & e2 & E2 & He2 & Hm2 & B2).
  pose proof (pow_ge_2048 e2 He2) as P2. set (p2 := 2 ^ (- e2)) in *.
  rewrite E2. unfold fmul100. rewrite dbl_q_neg_exp by lia. fold p2. cbn [dneg].
  assert (B2a : A * p2 - 50 <= m2 * 100 <= A * p2 + 50) by lia.
  (* 5. * 100.0 *)
  destruct (round_q_spec neg (m2 * 100) p2 ltac:(nia) ltac:(lia) ltac:(nia) ltac:(nia)) as (m3 & e3 & E3 & He3 & Hm3 & B3).
  pose proof (pow_ge_2048 e3 He3) as P3. set (p3 := 2 ^ (- e3)) in *.
  rewrite E3. exists (mkD neg m3 e3). split; [reflexivity|].
  (* 6. round() *)
  unfold dbl_round. rewrite dbl_q_neg_exp by lia. fold p3. cbn [dneg].
  assert (HQ : rdiv_even m3 p3 = A).
  { apply rdiv_even_unique; [lia|lia|].
    assert (K : Z.abs (A * p3 - m3) * 2 * p2 <= 100 * p3 + p2).
    { assert (T1 : Z.abs ((A * p2 - m2 * 100) * p3) * 2 <= 100 * p3).
      { rewrite Z.abs_mul, (Z.abs_eq p3) by lia. replace (A * p2 - m2 * 100) with (- (m2 * 100 - A * p2)) by ring. rewrite Z.abs_opp. nia. }
      assert (T2 : Z.abs (m2 * 100 * p3 - m3 * p2) * 2 <= p2).
      { replace (m2 * 100 * p3 - m3 * p2) with (- (m3 * p2 - m2 * 100 * p3)) by ring. rewrite Z.abs_opp. exact B3. }
      assert (T3 : Z.abs ((A * p3 - m3) * p2) <= Z.abs ((A * p2 - m2 * 100) * p3) + Z.abs (m2 * 100 * p3 - m3 * p2)).
      { replace ((A * p3 - m3) * p2) with ((A * p2 - m2 * 100) * p3 + (m2 * 100 * p3 - m3 * p2)) by ring. apply Z.abs_triangle. }
      rewrite Z.abs_mul, (Z.abs_eq p2) in T3 by lia. nia. }
    destruct (Z_lt_le_dec (Z.abs (A * p3 - m3) * 2) p3) as [|C]; [assumption|]. exfalso. nia. }
  rewrite HQ. exact Hsign.
Qed.

(* the record-level side conditions without the altitude clause (now a theorem) *)
Definition loc_wf (la lo : Z * Z * Z * Z * Z) (alt : Z) (sz hp vp : dbl) : Prop :=
  coord_wf la /\ coord_wf lo /\ loc_coord_ok la 90 = true /\ loc_coord_ok lo 180 = true /\
  -10000000 <= alt < 4284967296 /\ 0 <= dm sz /\ 0 <= dm hp /\ 0 <= dm vp /\
  (loc_sizes_default sz hp vp = false ->
     (exists s, loc_norm (num_reparse sz) = Ok s) /\ (exists s, loc_norm (num_reparse hp) = Ok s)
     /\ (exists s, loc_norm (num_reparse vp) = Ok s)).

Lemma loc_wf_ok la lo alt sz hp vp : loc_wf la lo alt sz hp vp -> loc_ok la lo alt sz hp vp.
Proof.
  intros (A & B & C & D & E & F & G & H & I). unfold loc_ok. repeat (split; [assumption|]).
  split; [apply altitude_roundtrip, E|]. repeat (split; [assumption|]). exact I.
Qed.

(* a LOC whose sizes are wire values (base * 10^exponent cm) comes back exactly *)
Definition is_wire_size (x : dbl) : Prop := exists b e, 0 <= b <= 9 /\ 0 <= e <= 9 /\ x = wire_size b e.

Lemma loc_expect_wire la lo alt sz hp vp : is_wire_size sz -> is_wire_size hp -> is_wire_size vp ->
  loc_expect la lo alt sz hp vp = VLoc la lo alt sz hp vp.
Proof.
  intros (b1 & e1 & B1 & E1 & ->) (b2 & e2 & B2 & E2 & ->) (b3 & e3 & B3 & E3 & ->). unfold loc_expect.
  destruct (loc_sizes_default _ _ _); [reflexivity|]. unfold norm_dbl.
  destruct (wire_size_roundtrip b1 e1 B1 E1) as [-> _]. destruct (wire_size_roundtrip b2 e2 B2 E2) as [-> _].
  destruct (wire_size_roundtrip b3 e3 B3 E3) as [-> _]. reflexivity.
Qed.
