(* Render-then-parse, the top-level theorem (ordinary messages, no origin). *)
From DV Require Import Base.Prelude Model.NameM Model.MessageM.
From DV Require Import Proofs.NameOrder Proofs.NameValid Proofs.NameRel Proofs.NameWire Proofs.NameCompress.
From DV Require Import Proofs.MessageName Proofs.MessageRender Proofs.MessageRead Proofs.MessageRoundtrip.
Open Scope Z_scope.

Definition q_equiv (q' q : rrset) : Prop :=
  ci_equal (rname q') (rname q) /\ name_ok (rname q') /\ rclass q' = rclass q /\ rtype q' = rtype q /\
  rcovers q' = 0 /\ rdeleting q' = None /\ rttl q' = 0 /\ rrds q' = [].

Definition msg_equiv (m' m : msg) : Prop :=
  mid m' = mid m /\ mflags m' = mflags m /\
  Forall2 q_equiv (mq m') (mq m) /\
  Forall2 rrset_equiv (man m') (man m) /\ Forall2 rrset_equiv (mau m') (mau m) /\
  Forall2 rrset_equiv (mad m') (mad m) /\
  mopt m' = mopt m.

Lemma reserve_is size r r' : reserve size r = Ok r' -> exists a b, r' = set_limits r a b.
Proof.
  unfold reserve. destruct (size <? 0); [discriminate|]. destruct (size >? maxsz r); [discriminate|].
  intros H; injection H as <-. eauto.
Qed.

Lemma hdr_read id fl c0 c1 c2 c3 body :
  0 <= id <= 65535 -> 0 <= fl <= 65535 -> 0 <= c0 <= 65535 -> 0 <= c1 <= 65535 ->
  0 <= c2 <= 65535 -> 0 <= c3 <= 65535 ->
  let w := hdr_bytes id fl c0 c1 c2 c3 ++ body in
  rd_u16 w (length w) 0 = Ok id /\ rd_u16 w (length w) 2 = Ok fl /\ rd_u16 w (length w) 4 = Ok c0 /\
  rd_u16 w (length w) 6 = Ok c1 /\ rd_u16 w (length w) 8 = Ok c2 /\ rd_u16 w (length w) 10 = Ok c3.
Proof.
  intros H0 H1 H2 H3 H4 H5 w.
  assert (Hl : (12 <= length w)%nat) by (unfold w, hdr_bytes; rewrite !app_length; cbn [length MessageM.u16]; lia).
  unfold w, hdr_bytes. rewrite <- !app_assoc.
  repeat split.
  - apply (rd_u16_at [] id); [lia|cbn [length]; fold w; unfold w in Hl; unfold hdr_bytes in Hl; rewrite <- !app_assoc in Hl; lia].
  - apply (rd_u16_at (MessageM.u16 id) fl); [lia|].
    unfold w, hdr_bytes in Hl. rewrite <- !app_assoc in Hl. cbn [length MessageM.u16]. lia.
  - replace (MessageM.u16 id ++ MessageM.u16 fl ++ MessageM.u16 c0 ++ MessageM.u16 c1 ++ MessageM.u16 c2 ++ MessageM.u16 c3 ++ body)
      with ((MessageM.u16 id ++ MessageM.u16 fl) ++ MessageM.u16 c0 ++ MessageM.u16 c1 ++ MessageM.u16 c2 ++ MessageM.u16 c3 ++ body)
      by (rewrite <- !app_assoc; reflexivity).
    apply (rd_u16_at (MessageM.u16 id ++ MessageM.u16 fl) c0); [lia|].
    unfold w, hdr_bytes in Hl. rewrite !app_length in *. cbn [length MessageM.u16] in *. lia.
  - replace (MessageM.u16 id ++ MessageM.u16 fl ++ MessageM.u16 c0 ++ MessageM.u16 c1 ++ MessageM.u16 c2 ++ MessageM.u16 c3 ++ body)
      with ((MessageM.u16 id ++ MessageM.u16 fl ++ MessageM.u16 c0) ++ MessageM.u16 c1 ++ MessageM.u16 c2 ++ MessageM.u16 c3 ++ body)
      by (rewrite <- !app_assoc; reflexivity).
    apply (rd_u16_at (MessageM.u16 id ++ MessageM.u16 fl ++ MessageM.u16 c0) c1); [lia|].
    unfold w, hdr_bytes in Hl. rewrite !app_length in *. cbn [length MessageM.u16] in *. lia.
  - replace (MessageM.u16 id ++ MessageM.u16 fl ++ MessageM.u16 c0 ++ MessageM.u16 c1 ++ MessageM.u16 c2 ++ MessageM.u16 c3 ++ body)
      with ((MessageM.u16 id ++ MessageM.u16 fl ++ MessageM.u16 c0 ++ MessageM.u16 c1) ++ MessageM.u16 c2 ++ MessageM.u16 c3 ++ body)
      by (rewrite <- !app_assoc; reflexivity).
    apply (rd_u16_at (MessageM.u16 id ++ MessageM.u16 fl ++ MessageM.u16 c0 ++ MessageM.u16 c1) c2); [lia|].
    unfold w, hdr_bytes in Hl. rewrite !app_length in *. cbn [length MessageM.u16] in *. lia.
  - replace (MessageM.u16 id ++ MessageM.u16 fl ++ MessageM.u16 c0 ++ MessageM.u16 c1 ++ MessageM.u16 c2 ++ MessageM.u16 c3 ++ body)
      with ((MessageM.u16 id ++ MessageM.u16 fl ++ MessageM.u16 c0 ++ MessageM.u16 c1 ++ MessageM.u16 c2) ++ MessageM.u16 c3 ++ body)
      by (rewrite <- !app_assoc; reflexivity).
    apply (rd_u16_at (MessageM.u16 id ++ MessageM.u16 fl ++ MessageM.u16 c0 ++ MessageM.u16 c1 ++ MessageM.u16 c2) c3); [lia|].
    unfold w, hdr_bytes in Hl. rewrite !app_length in *. cbn [length MessageM.u16] in *. lia.
Qed.

Definition opt_count {A} (o : option A) : Z := match o with Some _ => 1 | None => 0 end.

Definition read_result (id fl : Z) (qs : list qd) (ds1 ds2 ds3 : list rrd) (o : option optrec) : msg :=
  let m1 := fold_left add_q qs (mkMsg id fl [] [] [] [] None None) in
  let m2 := fold_left (apply_d 1 false) ds1 m1 in
  let m3 := fold_left (apply_d 2 false) ds2 m2 in
  let m4 := fold_left (apply_d 3 false) ds3 m3 in
  match o with Some o' => set_opt m4 o' | None => m4 end.

Lemma fold_add_q_keeps qs : forall m,
  mopt (fold_left add_q qs m) = mopt m /\ man (fold_left add_q qs m) = man m /\
  mau (fold_left add_q qs m) = mau m /\ mad (fold_left add_q qs m) = mad m /\
  mid (fold_left add_q qs m) = mid m /\ mflags (fold_left add_q qs m) = mflags m /\
  mq (fold_left add_q qs m) = mq m ++ map (fun q => mkRR (q_name q) (q_cl q) (q_ty q) 0 None 0 []) qs.
Proof.
  induction qs as [|q qs IH]; intros m; cbn [fold_left map].
  - rewrite app_nil_r. repeat split; reflexivity.
  - destruct (IH (add_q m q)) as (A & B & C & D & E & F & G). rewrite A, B, C, D, E, F, G.
    unfold add_q. cbn [mopt man mau mad mid mflags mq set_sec Z.eqb]. rewrite <- app_assoc.
    repeat split; reflexivity.
Qed.

Lemma zlen_to_nat {A} (l : list A) : Z.to_nat (zlen l) = length l.
Proof. unfold zlen. apply Nat2Z.id. Qed.

Lemma read_structure id fl qs ds1 ds2 ds3 (o : option optrec) owner' wb body (e0 e1 e2 e3 : nat) :
  let w := hdr_bytes id fl (zlen qs) (zlen ds1) (zlen ds2) (zlen ds3 + opt_count o) ++ body in
  0 <= id <= 65535 -> 0 <= fl <= 65535 -> zlen qs <= 65535 -> zlen ds1 <= 65535 -> zlen ds2 <= 65535 ->
  zlen ds3 + opt_count o <= 65535 ->
  (opcode_from_flags fl =? 5) = false ->
  QChain w 12 qs e0 -> Chain w e0 ds1 e1 -> Chain w e1 ds2 e2 -> Chain w e2 ds3 e3 ->
  Forall ordinary ds1 -> Forall ordinary ds2 -> Forall ordinary ds3 ->
  match o with
  | Some o' => RRreads w e3 owner' tOPT (opayload o') (oflags o') [FRest] [PB wb] (length w) /\
               ci_equal owner' [[]] /\ opts_wire (oopts o') = Ok wb /\ opts_ok (oopts o')
  | None => e3 = length w
  end ->
  from_wire w None po0 = Ok (read_result id fl qs ds1 ds2 ds3 o).
Proof.
  intros w Hid Hfl Hq H1 H2 H3 Hop QC C1 C2 C3 O1 O2 O3 HO.
  pose proof (zlen_nn qs). pose proof (zlen_nn ds1). pose proof (zlen_nn ds2). pose proof (zlen_nn ds3).
  assert (Hoc : 0 <= opt_count o <= 1) by (destruct o; cbn; lia).
  destruct (hdr_read id fl (zlen qs) (zlen ds1) (zlen ds2) (zlen ds3 + opt_count o) body) as (R0 & R2 & R4 & R6 & R8 & R10);
    try lia.
  fold w in R0, R2, R4, R6, R8, R10.
  assert (Hl : (12 <= length w)%nat).
  { unfold w, hdr_bytes. rewrite !app_length. cbn [length MessageM.u16]. lia. }
  unfold from_wire. destruct (Nat.ltb_spec (length w) 12); [lia|].
  rewrite R0, R2, R4, R6, R8, R10. cbn [bind]. rewrite Hop.
  change (p_one_rr po0) with false. change (p_question_only po0) with false. cbv iota.
  rewrite zlen_to_nat.
  pose proof (get_question_chain w [] qs 12 e0 (mkMsg id fl [] [] [] [] None None) QC) as GQ.
  rewrite app_nil_r in GQ. rewrite GQ. cbn [bind fst snd].
  rewrite !zlen_to_nat.
  set (m1 := fold_left add_q qs (mkMsg id fl [] [] [] [] None None)).
  pose proof (get_section_chain w [] 1 (length ds1) ds1 e0 e1 0%nat false m1 C1 O1) as G1.
  rewrite app_nil_r in G1. rewrite G1. cbn [bind fst snd].
  set (m2 := fold_left (apply_d 1 false) ds1 m1).
  pose proof (get_section_chain w [] 2 (length ds2) ds2 e1 e2 0%nat false m2 C2 O2) as G2.
  rewrite app_nil_r in G2. rewrite G2. cbn [bind fst snd].
  set (m3 := fold_left (apply_d 2 false) ds2 m2).
  set (cnt := Z.to_nat (zlen ds3 + opt_count o)).
  set (m4 := fold_left (apply_d 3 false) ds3 m3).
  destruct o as [o'|].
  - destruct HO as (RO & CI & HW & OK).
    assert (Hcnt : cnt = (length ds3 + 1)%nat) by (unfold cnt, zlen; cbn [opt_count]; lia).
    rewrite Hcnt. rewrite get_section_split.
    pose proof (get_section_chain w [] 3 (length ds3 + 1) ds3 e2 e3 0%nat false m3 C3 O3) as G3.
    rewrite app_nil_r in G3. rewrite G3. cbn [bind fst snd get_section].
    assert (HM : mopt m4 = None).
    { unfold m4. destruct (fold_apply_d_keeps 3 ds3 m3) as (-> & _).
      unfold m3. destruct (fold_apply_d_keeps 2 ds2 m2) as (-> & _).
      unfold m2. destruct (fold_apply_d_keeps 1 ds1 m1) as (-> & _).
      unfold m1. destruct (fold_add_q_keeps qs (mkMsg id fl [] [] [] [] None None)) as (-> & _). reflexivity. }
    pose proof (get_rr_opt w e3 owner' (opayload o') (oflags o') wb (oopts o') (length w) [] (length ds3 + 1)
                           (0 + length ds3) false m4 RO CI HW OK HM) as GO.
    rewrite app_nil_r in GO. fold m4. rewrite GO. cbn [bind fst snd].
    change (p_ignore_trailing po0) with false. change (p_raise_on_trunc po0) with false.
    cbn [negb andb]. rewrite Nat.eqb_refl. cbn [negb andb].
    rewrite andb_false_r. unfold read_result. fold m1 m2 m3 m4. destruct o'; reflexivity.
  - assert (Hcnt : cnt = length ds3) by (unfold cnt, zlen; cbn [opt_count]; lia).
    rewrite Hcnt.
    pose proof (get_section_chain w [] 3 (length ds3) ds3 e2 e3 0%nat false m3 C3 O3) as G3.
    rewrite app_nil_r in G3. rewrite G3. cbn [bind fst snd]. subst e3.
    change (p_ignore_trailing po0) with false. change (p_raise_on_trunc po0) with false.
    cbn [negb andb]. rewrite Nat.eqb_refl. cbn [negb andb].
    rewrite andb_false_r. reflexivity.
Qed.

Lemma skipn_app_exact' {A} (a b : list A) n : length a = n -> skipn n (a ++ b) = b.
Proof. intros <-. rewrite skipn_app, skipn_all, Nat.sub_diag. reflexivity. Qed.

Lemma TableSound_nil' file : TableSound file [].
Proof. intros k v []. Qed.

Lemma render_structure m ms rp r :
  WfMsg m -> mtsig m = None -> to_wire_st m None ms rp false 0 = Ok r ->
  exists qs ds1 ds2 ds3 owner' wb body (e0 e1 e2 e3 : nat),
    out r = hdr_bytes (mid m) (mflags m) (zlen qs) (zlen ds1) (zlen ds2) (zlen ds3 + opt_count (mopt m)) ++ body /\
    0 <= mid m <= 65535 /\ 0 <= mflags m <= 65535 /\ zlen qs <= 65535 /\ zlen ds1 <= 65535 /\
    zlen ds2 <= 65535 /\ zlen ds3 + opt_count (mopt m) <= 65535 /\
    QChain (out r) 12 qs e0 /\ Chain (out r) e0 ds1 e1 /\ Chain (out r) e1 ds2 e2 /\ Chain (out r) e2 ds3 e3 /\
    Forall2 q_desc (mq m) qs /\ SecDesc (man m) ds1 /\ SecDesc (mau m) ds2 /\ SecDesc (mad m) ds3 /\
    match mopt m with
    | Some o' => RRreads (out r) e3 owner' tOPT (opayload o') (oflags o') [FRest] [PB wb] (length (out r)) /\
                 ci_equal owner' [[]] /\ opts_wire (oopts o') = Ok wb
    | None => e3 = length (out r)
    end /\
    TableSound (out r) (tbl r).
Proof.
  intros WF NT H. unfold to_wire_st in H.
  set (eff := eff_limit ms rp) in *.
  set (r0 := mkRst (repeat 0 12) [] 0 0 0 0 0 (mflags m) eff 0 false) in *.
  apply bind_ok in H. destruct H as (r1 & R1 & H).
  unfold compute_tsig_reserve in H. rewrite NT in H. cbn [bind] in H.
  apply bind_ok in H. destruct H as (r2 & R2 & H).
  apply reserve_is in R1. destruct R1 as (a1 & b1 & ->). apply reserve_is in R2. destruct R2 as (a2 & b2 & ->).
  set (r2 := set_limits (set_limits r0 a1 b1) a2 b2) in *.
  apply bind_ok in H. destruct H as ([bq s1] & S1 & H). cbn [fst snd] in H.
  apply bind_ok in H. destruct H as ([ba s2] & S2 & H). cbn [fst snd] in H.
  apply bind_ok in H. destruct H as ([bu s3] & S3 & H). cbn [fst snd] in H.
  apply bind_ok in H. destruct H as ([bd s4] & S4 & H). cbn [fst snd] in H.
  apply bind_ok in H. destruct H as (r3 & R3 & H).
  assert (bq = false /\ ba = false /\ bu = false /\ bd = false) as (-> & -> & -> & ->).
  { destruct bq; [injection S2 as <- <-; injection S3 as <- <-; injection S4 as <- <-; discriminate|].
    destruct ba; [injection S3 as <- <-; injection S4 as <- <-; discriminate|].
    destruct bu; [injection S4 as <- <-; discriminate|].
    destruct bd; [discriminate|]. auto. }
  injection R3 as <-.
  set (r4 := release_reserved s4) in *.
  apply bind_ok in H. destruct H as (r5 & R5 & H).
  (* the final header *)
  apply bind_ok in H. destruct H as (r6 & H & Hr6). injection Hr6 as <-.
  destruct (write_header_full _ _ _ H) as (-> & Hid & Hfl & Hc0 & Hc1 & Hc2 & Hc3).
  assert (Hh : zlen (hdr_bytes (mid m) (rflags r5) (cq r5) (can r5) (cau r5) (cad r5)) = 12) by reflexivity.
  assert (Hhl : length (hdr_bytes (mid m) (rflags r5) (cq r5) (can r5) (cau r5) (cad r5)) = 12%nat) by reflexivity.
  remember (hdr_bytes (mid m) (rflags r5) (cq r5) (can r5) (cau r5) (cad r5)) as hdr eqn:Ehdr.
  destruct WF as [W0 WQ WA WU WD KA KU KD WO].
  (* questions *)
  destruct (add_questions_chain (mq m) r2 s1 hdr) as (emq & qs & Oq & TSq & TBq & QC & QD & Cq0 & Cq1 & Cq2 & Cq3 & Fq & _);
    [rewrite Hh; reflexivity|apply TableSound_nil'|constructor|exact WQ|exact S1|].
  (* answer, authority, additional *)
  destruct (add_rrsets_chain 1 (man m) s1 s2 (hdr ++ emq)) as (em1 & ds1 & O1 & TS1 & TB1 & C1 & SD1 & N1 & N1' & F1 & _);
    [lia|rewrite Oq, !zlen_app', Hh; reflexivity|exact TSq|exact TBq|exact WA|exact S2|].
  destruct (add_rrsets_chain 2 (mau m) s2 s3 ((hdr ++ emq) ++ em1)) as (em2 & ds2 & O2 & TS2 & TB2 & C2 & SD2 & N2 & N2' & F2 & _);
    [lia|rewrite O1, Oq, !zlen_app', Hh; reflexivity|exact TS1|exact TB1|exact WU|exact S3|].
  destruct (add_rrsets_chain 3 (mad m) s3 s4 (((hdr ++ emq) ++ em1) ++ em2)) as (em3 & ds3 & O3 & TS3 & TB3 & C3 & SD3 & N3 & N3' & F3 & _);
    [lia|rewrite O2, O1, Oq, !zlen_app', Hh; reflexivity|exact TS2|exact TB2|exact WD|exact S4|].
  remember ((((hdr ++ emq) ++ em1) ++ em2) ++ em3) as f3 eqn:Ef3.
  assert (Os4 : out s4 = repeat 0 12 ++ emq ++ em1 ++ em2 ++ em3).
  { rewrite O3, O2, O1, Oq. unfold r2. cbn [out set_limits r0]. rewrite <- !app_assoc. reflexivity. }
  assert (Hz4 : zlen f3 = zlen (out r4)).
  { unfold r4. cbn [out release_reserved set_limits]. rewrite Os4. rewrite Ef3. rewrite !zlen_app'.
    change (zlen (repeat 0 12)) with 12. lia. }
  (* counts and flags after the sections *)
  assert (Hcnt : cq s4 = zlen qs /\ can s4 = zlen ds1 /\ cau s4 = zlen ds2 /\ cad s4 = zlen ds3 /\ rflags s4 = mflags m).
  { pose proof (N1' 0 ltac:(lia) ltac:(lia)) as A0. pose proof (N1' 2 ltac:(lia) ltac:(lia)) as A2.
    pose proof (N1' 3 ltac:(lia) ltac:(lia)) as A3.
    pose proof (N2' 0 ltac:(lia) ltac:(lia)) as B0. pose proof (N2' 1 ltac:(lia) ltac:(lia)) as B1.
    pose proof (N2' 3 ltac:(lia) ltac:(lia)) as B3.
    pose proof (N3' 0 ltac:(lia) ltac:(lia)) as D0. pose proof (N3' 1 ltac:(lia) ltac:(lia)) as D1.
    pose proof (N3' 2 ltac:(lia) ltac:(lia)) as D2.
    unfold count_of in *. cbn [Z.eqb Pos.eqb] in *.
    unfold r2 in *. cbn [cq can cau cad rflags set_limits r0] in *.
    repeat split; try lia; try (rewrite F3, F2, F1, Fq; reflexivity); try congruence. }
  destruct Hcnt as (K0 & K1 & K2 & K3 & KF).
  destruct (mopt m) as [o'|] eqn:EO.
  - apply bind_ok in R5. destruct R5 as ([b5 s5] & A5 & R5). unfold raise_if_big in R5. cbn [fst snd] in R5.
    destruct b5; [discriminate|]. injection R5 as <-.
    destruct (add_opt_chain o' (compute_opt_reserve m 0) 0 r4 s5 f3 Hz4) as (emo & wb & owner' & Oo & HW & CIo & RO & TSo & Q0 & Q1 & Q2 & Q3 & QF).
    { unfold r4. cbn [tbl release_reserved set_limits]. exact TS3. }
    { unfold TblBelow, r4 in *. cbn [out tbl release_reserved set_limits]. exact TB3. }
    { exact A5. }
    unfold r4 in Oo, Q0, Q1, Q2, Q3, QF. cbn [out cq can cau cad rflags release_reserved set_limits] in Oo, Q0, Q1, Q2, Q3, QF.
    assert (Eout : hdr ++ skipn 12 (out s5) = f3 ++ emo).
    { rewrite Oo, Os4. rewrite <- !app_assoc. rewrite (skipn_app_exact' (repeat 0 12)) by reflexivity.
      rewrite Ef3. rewrite <- !app_assoc. reflexivity. }
    assert (Ehdr' : hdr = hdr_bytes (mid m) (mflags m) (zlen qs) (zlen ds1) (zlen ds2) (zlen ds3 + 1)).
    { rewrite Ehdr, Q0, Q1, Q2, Q3, QF, K0, K1, K2, K3, KF. reflexivity. }
    rewrite Q0, Q1, Q2, Q3, K0, K1, K2, K3 in *. rewrite QF, KF in Hfl.
    exists qs, ds1, ds2, ds3, owner', wb, (emq ++ em1 ++ em2 ++ em3 ++ emo),
      (length (hdr ++ emq)), (length ((hdr ++ emq) ++ em1)), (length (((hdr ++ emq) ++ em1) ++ em2)), (length f3).
    cbn [out tbl set_out]. rewrite Eout. cbn [opt_count].
    split; [rewrite Ef3, Ehdr'; rewrite <- !app_assoc; reflexivity|].
    split; [exact Hid|]. split; [exact Hfl|]. split; [lia|]. split; [lia|]. split; [lia|]. split; [lia|].
    split; [rewrite <- Hhl; rewrite Ef3; do 4 apply QChain_app_w; exact QC|].
    split; [rewrite Ef3; do 3 apply Chain_app_w; exact C1|].
    split; [rewrite Ef3; do 2 apply Chain_app_w; exact C2|].
    split; [apply Chain_app_w; exact C3|].
    split; [exact QD|]. split; [exact SD1|]. split; [exact SD2|]. split; [exact SD3|].
    split; [split; [exact RO|split; [exact CIo|exact HW]]|].
    exact TSo.
  - injection R5 as <-.
    assert (Eout : hdr ++ skipn 12 (out r4) = f3).
    { unfold r4. cbn [out release_reserved set_limits]. rewrite Os4.
      rewrite (skipn_app_exact' (repeat 0 12)) by reflexivity. rewrite Ef3. rewrite <- !app_assoc. reflexivity. }
    unfold r4 in Ehdr, Hc0, Hc1, Hc2, Hc3, Hfl. cbn [cq can cau cad rflags release_reserved set_limits] in Ehdr, Hc0, Hc1, Hc2, Hc3, Hfl.
    assert (Ehdr' : hdr = hdr_bytes (mid m) (mflags m) (zlen qs) (zlen ds1) (zlen ds2) (zlen ds3 + 0)).
    { rewrite Ehdr, K0, K1, K2, K3, KF, Z.add_0_r. reflexivity. }
    rewrite K0, K1, K2, K3 in *. rewrite KF in Hfl.
    exists qs, ds1, ds2, ds3, [[]], [], (emq ++ em1 ++ em2 ++ em3),
      (length (hdr ++ emq)), (length ((hdr ++ emq) ++ em1)), (length (((hdr ++ emq) ++ em1) ++ em2)), (length f3).
    cbn [out tbl set_out]. rewrite Eout. cbn [opt_count].
    split; [rewrite Ef3, Ehdr'; rewrite <- !app_assoc; reflexivity|].
    split; [exact Hid|]. split; [exact Hfl|]. split; [lia|]. split; [lia|]. split; [lia|]. split; [lia|].
    split; [rewrite <- Hhl; rewrite Ef3; do 3 apply QChain_app_w; exact QC|].
    split; [rewrite Ef3; do 2 apply Chain_app_w; exact C1|].
    split; [rewrite Ef3; apply Chain_app_w; exact C2|].
    split; [exact C3|].
    split; [exact QD|]. split; [exact SD1|]. split; [exact SD2|]. split; [exact SD3|].
    split; [reflexivity|]. unfold r4. cbn [tbl release_reserved set_limits]. exact TS3.
Qed.

Lemma set_get_sec m sec : 0 <= sec <= 3 -> set_sec m sec (get_sec m sec) = m.
Proof.
  intros H. destruct m. assert (sec = 0 \/ sec = 1 \/ sec = 2 \/ sec = 3) as [Hs|[Hs|[Hs|Hs]]] by lia; subst sec; reflexivity.
Qed.

Lemma fold_apply_d_eq sec ds m : 0 <= sec <= 3 ->
  fold_left (apply_d sec false) ds m = set_sec m sec (fold_left step_sec ds (get_sec m sec)).
Proof.
  intros Hs. destruct (fold_apply_d sec Hs ds m) as [E|E]; [exact E|].
  subst ds. cbn [fold_left]. symmetry. apply set_get_sec. exact Hs.
Qed.

Lemma section_rebuilt sec l ds m :
  1 <= sec <= 3 -> SecDesc l ds -> Forall wf_rrset l -> keys_fresh [] l -> get_sec m sec = [] ->
  exists l', Forall2 rrset_equiv l' l /\ fold_left (apply_d sec false) ds m = set_sec m sec l'.
Proof.
  intros Hs SD WF KF HE. rewrite fold_apply_d_eq by lia. rewrite HE.
  destruct (regroup_sec l ds [] [] SD WF (Forall2_nil _) KF) as (l' & EQ & E).
  exists l'. split; [exact EQ|]. rewrite E. reflexivity.
Qed.

Theorem render_parse_lemma m ms rp w :
  WfMsg m -> mtsig m = None -> to_wire m None ms rp false 0 = Ok w ->
  exists m', from_wire w None po0 = Ok m' /\ msg_equiv m' m.
Proof.
  intros WF NT H. unfold to_wire in H. apply bind_ok in H. destruct H as (r & HR & H). injection H as <-.
  destruct (render_structure m ms rp r WF NT HR)
    as (qs & ds1 & ds2 & ds3 & owner' & wb & body & e0 & e1 & e2 & e3 & Eo & Hid & Hfl & L0 & L1 & L2 & L3 &
        QC & C1 & C2 & C3 & QD & SD1 & SD2 & SD3 & HO & _).
  destruct WF as [W0 WQ WA WU WD KA KU KD WO].
  exists (read_result (mid m) (mflags m) qs ds1 ds2 ds3 (mopt m)). split.
  - rewrite Eo in *. eapply read_structure; try eassumption.
    + apply SecDesc_ordinary with (l := man m); assumption.
    + apply SecDesc_ordinary with (l := mau m); assumption.
    + apply SecDesc_ordinary with (l := mad m); assumption.
    + destruct (mopt m) as [o'|]; [|exact HO]. destruct HO as (A & B & C).
      split; [exact A|]. split; [exact B|]. split; [exact C|exact WO].
  - unfold read_result.
    set (m0 := mkMsg (mid m) (mflags m) [] [] [] [] None None).
    destruct (fold_add_q_keeps qs m0) as (Q1 & Q2 & Q3 & Q4 & Q5 & Q6 & Q7).
    set (m1 := fold_left add_q qs m0) in *.
    assert (G1 : get_sec m1 1 = []) by (unfold get_sec; cbn [Z.eqb Pos.eqb]; rewrite Q2; reflexivity).
    destruct (section_rebuilt 1 (man m) ds1 m1 ltac:(lia) SD1 WA KA G1) as (l1 & EQ1 & E1).
    rewrite E1. set (m2 := set_sec m1 1 l1).
    assert (G2 : get_sec m2 2 = []) by (unfold m2, get_sec, set_sec; cbn [Z.eqb Pos.eqb mau]; rewrite Q3; reflexivity).
    destruct (section_rebuilt 2 (mau m) ds2 m2 ltac:(lia) SD2 WU KU G2) as (l2 & EQ2 & E2).
    rewrite E2. set (m3 := set_sec m2 2 l2).
    assert (G3 : get_sec m3 3 = []) by (unfold m3, m2, get_sec, set_sec; cbn [Z.eqb Pos.eqb mad]; rewrite Q4; reflexivity).
    destruct (section_rebuilt 3 (mad m) ds3 m3 ltac:(lia) SD3 WD KD G3) as (l3 & EQ3 & E3).
    rewrite E3. set (m4 := set_sec m3 3 l3).
    assert (F : mid m4 = mid m /\ mflags m4 = mflags m /\ mq m4 = mq m1 /\ man m4 = l1 /\ mau m4 = l2 /\ mad m4 = l3 /\ mopt m4 = None).
    { unfold m4, m3, m2. cbn [mid mflags mq man mau mad mopt set_sec Z.eqb Pos.eqb]. rewrite Q5, Q6, Q1. auto 10. }
    destruct F as (F1 & F2 & F3 & F4 & F5 & F6 & F7).
    assert (QE : Forall2 q_equiv (mq m1) (mq m)).
    { rewrite Q7. cbn [mq m0 app]. clear - QD. induction QD as [|rs q l qs (A & B & C & D) _ IH]; cbn [map]; constructor; [|exact IH].
      unfold q_equiv. cbn [rname rclass rtype rcovers rdeleting rttl rrds]. auto 10. }
    destruct (mopt m) as [o'|] eqn:EO.
    + unfold msg_equiv. cbn [mid mflags mq man mau mad mopt set_opt]. rewrite F1, F2, F3, F4, F5, F6, EO.
      repeat split; try assumption.
    + unfold msg_equiv. rewrite F1, F2, F3, F4, F5, F6, F7, EO. repeat split; assumption.
Qed.

(* ---------- corollaries ---------- *)
Definition rr_count (l : list rrset) : Z := fold_right (fun rs acc => rrset_count rs + acc) 0 l.

Lemma SecDesc_count : forall l ds, SecDesc l ds -> Forall wf_rrset l -> zlen ds = rr_count l.
Proof.
  induction 1 as [|rs l ds1 ds2 F2 SD IH]; intros WF; [reflexivity|].
  inversion WF as [|? ? W1 WF']; subst. cbn [rr_count fold_right]. rewrite zlen_app', (IH WF').
  f_equal. destruct W1 as (_ & _ & NE & _). unfold rrset_count.
  apply Forall2_len in F2. destruct (rrds rs) eqn:E; [congruence|]. unfold zlen. f_equal. exact F2.
Qed.

(* the header counts are the numbers of records present, and they account for every octet *)
Theorem counts_exact_lemma m ms rp w :
  WfMsg m -> mtsig m = None -> to_wire m None ms rp false 0 = Ok w ->
  exists body,
    w = hdr_bytes (mid m) (mflags m) (zlen (mq m)) (rr_count (man m)) (rr_count (mau m))
                  (rr_count (mad m) + opt_count (mopt m)) ++ body /\
    exists (qs : list qd) (ds1 ds2 ds3 : list rrd) (e0 e1 e2 e3 : nat),
      zlen qs = zlen (mq m) /\ zlen ds1 = rr_count (man m) /\ zlen ds2 = rr_count (mau m) /\
      zlen ds3 = rr_count (mad m) /\
      QChain w 12 qs e0 /\ Chain w e0 ds1 e1 /\ Chain w e1 ds2 e2 /\ Chain w e2 ds3 e3 /\
      match mopt m with
      | Some o' => exists owner' wb, RRreads w e3 owner' tOPT (opayload o') (oflags o') [FRest] [PB wb] (length w)
      | None => e3 = length w
      end.
Proof.
  intros WF NT H. unfold to_wire in H. apply bind_ok in H. destruct H as (r & HR & H). injection H as <-.
  destruct (render_structure m ms rp r WF NT HR)
    as (qs & ds1 & ds2 & ds3 & owner' & wb & body & e0 & e1 & e2 & e3 & Eo & Hid & Hfl & L0 & L1 & L2 & L3 &
        QC & C1 & C2 & C3 & QD & SD1 & SD2 & SD3 & HO & _).
  destruct WF as [W0 WQ WA WU WD KA KU KD WO].
  assert (Z0 : zlen qs = zlen (mq m)) by (unfold zlen; f_equal; symmetry; eapply Forall2_len; exact QD).
  pose proof (SecDesc_count _ _ SD1 WA) as Z1. pose proof (SecDesc_count _ _ SD2 WU) as Z2.
  pose proof (SecDesc_count _ _ SD3 WD) as Z3.
  exists body. split; [rewrite Eo, Z0, Z1, Z2, Z3; reflexivity|].
  exists qs, ds1, ds2, ds3, e0, e1, e2, e3. repeat split; try assumption.
  destruct (mopt m); [|exact HO]. destruct HO as (A & _). eauto.
Qed.

(* the compression table at the end of rendering is sound w.r.t. the final octets; and every
   single name write keeps it sound and is decoded by the independent decoder NameM.from_wire *)
Theorem render_table_sound_lemma m ms rp r :
  WfMsg m -> mtsig m = None -> to_wire_st m None ms rp false 0 = Ok r -> TableSound (out r) (tbl r).
Proof.
  intros WF NT HR.
  destruct (render_structure m ms rp r WF NT HR)
    as (qs & ds1 & ds2 & ds3 & owner' & wb & body & e0 & e1 & e2 & e3 & _ & _ & _ & _ & _ & _ & _ &
        _ & _ & _ & _ & _ & _ & _ & _ & _ & TS).
  exact TS.
Qed.

Theorem name_write_sound_lemma n c file t file' t' :
  TableSound file t -> name_ok n -> name_to_wire n None c file t = Ok (file', t') ->
  exists em n',
    file' = file ++ em /\ TableSound file' t' /\ ci_equal n' n /\
    NameM.from_wire file' (length file) = Ok (n', length em) /\
    (forall ext endp, (length file' <= endp)%nat -> nm_from_wire (file' ++ ext) endp (length file) = Ok (n', length file')).
Proof.
  intros TS NO H. rewrite name_to_wire_em in H. unfold run_em in H.
  apply bind_ok in H. destruct H as ([em t1] & HE & H). injection H as <- <-. cbn [fst snd].
  destruct (nm_em_sound _ _ _ _ _ _ TS NO HE) as (TS1 & n' & CI & NO1 & D).
  exists em, n'. split; [reflexivity|]. split; [exact TS1|]. split; [exact CI|]. split.
  - rewrite (Dec_from_wire _ _ _ _ D (proj1 NO1)). f_equal. f_equal. rewrite app_length. lia.
  - intros ext endp He. apply nm_read; assumption.
Qed.
