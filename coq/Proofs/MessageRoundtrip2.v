(* Render-then-parse, the top-level theorem (ordinary messages, no origin). *)
From DV Require Import Base.Prelude Model.NameM Model.MessageM.
From DV Require Import Proofs.NameOrder Proofs.NameValid Proofs.NameRel Proofs.NameWire Proofs.NameCompress.
From DV Require Import Proofs.MessageName Proofs.MessageRender Proofs.MessageRead Proofs.MessageRoundtrip.
Open Scope Z_scope.

Definition q_equiv (q' q : rrset) : Prop :=
  ci_equal (rname q') (rname q) /\ rclass q' = rclass q /\ rtype q' = rtype q /\
  rcovers q' = 0 /\ rdeleting q' = None /\ rttl q' = 0 /\ rrds q' = [].

Definition msg_equiv (m' m : msg) : Prop :=
  mid m' = mid m /\ mflags m' = mflags m /\
  Forall2 q_equiv (mq m') (mq m) /\
  Forall2 rrset_equiv (man m') (man m) /\ Forall2 rrset_equiv (mau m') (mau m) /\
  Forall2 rrset_equiv (mad m') (mad m) /\
  mopt m' = mopt m.

Lemma reserve_is size r r' : reserve size r = Ok r' -> exists a b, r' = set_limits r a b.
Proof.
  unfold reserve. destruct (size <? 0); [discriminate|]. destruct (size >? maxsz r); [discriminate|].
  intros H; injection H as <-. eauto.
Qed.

Lemma hdr_read id fl c0 c1 c2 c3 body :
  0 <= id <= 65535 -> 0 <= fl <= 65535 -> 0 <= c0 <= 65535 -> 0 <= c1 <= 65535 ->
  0 <= c2 <= 65535 -> 0 <= c3 <= 65535 ->
  let w := hdr_bytes id fl c0 c1 c2 c3 ++ body in
  rd_u16 w (length w) 0 = Ok id /\ rd_u16 w (length w) 2 = Ok fl /\ rd_u16 w (length w) 4 = Ok c0 /\
  rd_u16 w (length w) 6 = Ok c1 /\ rd_u16 w (length w) 8 = Ok c2 /\ rd_u16 w (length w) 10 = Ok c3.
Proof.
  intros H0 H1 H2 H3 H4 H5 w.
  assert (Hl : (12 <= length w)%nat) by (unfold w, hdr_bytes; rewrite !app_length; cbn [length MessageM.u16]; lia).
  unfold w, hdr_bytes. rewrite <- !app_assoc.
  repeat split.
  - apply (rd_u16_at [] id); [lia|cbn [length]; fold w; unfold w in Hl; unfold hdr_bytes in Hl; rewrite <- !app_assoc in Hl; lia].
  - apply (rd_u16_at (MessageM.u16 id) fl); [lia|].
    unfold w, hdr_bytes in Hl. rewrite <- !app_assoc in Hl. cbn [length MessageM.u16]. lia.
  - replace (MessageM.u16 id ++ MessageM.u16 fl ++ MessageM.u16 c0 ++ MessageM.u16 c1 ++ MessageM.u16 c2 ++ MessageM.u16 c3 ++ body)
      with ((MessageM.u16 id ++ MessageM.u16 fl) ++ MessageM.u16 c0 ++ MessageM.u16 c1 ++ MessageM.u16 c2 ++ MessageM.u16 c3 ++ body)
      by (rewrite <- !app_assoc; reflexivity).
    apply (rd_u16_at (MessageM.u16 id ++ MessageM.u16 fl) c0); [lia|].
    unfold w, hdr_bytes in Hl. rewrite !app_length in *. cbn [length MessageM.u16] in *. lia.
  - replace (MessageM.u16 id ++ MessageM.u16 fl ++ MessageM.u16 c0 ++ MessageM.u16 c1 ++ MessageM.u16 c2 ++ MessageM.u16 c3 ++ body)
      with ((MessageM.u16 id ++ MessageM.u16 fl ++ MessageM.u16 c0) ++ MessageM.u16 c1 ++ MessageM.u16 c2 ++ MessageM.u16 c3 ++ body)
      by (rewrite <- !app_assoc; reflexivity).
    apply (rd_u16_at (MessageM.u16 id ++ MessageM.u16 fl ++ MessageM.u16 c0) c1); [lia|].
    unfold w, hdr_bytes in Hl. rewrite !app_length in *. cbn [length MessageM.u16] in *. lia.
  - replace (MessageM.u16 id ++ MessageM.u16 fl ++ MessageM.u16 c0 ++ MessageM.u16 c1 ++ MessageM.u16 c2 ++ MessageM.u16 c3 ++ body)
      with ((MessageM.u16 id ++ MessageM.u16 fl ++ MessageM.u16 c0 ++ MessageM.u16 c1) ++ MessageM.u16 c2 ++ MessageM.u16 c3 ++ body)
      by (rewrite <- !app_assoc; reflexivity).
    apply (rd_u16_at (MessageM.u16 id ++ MessageM.u16 fl ++ MessageM.u16 c0 ++ MessageM.u16 c1) c2); [lia|].
    unfold w, hdr_bytes in Hl. rewrite !app_length in *. cbn [length MessageM.u16] in *. lia.
  - replace (MessageM.u16 id ++ MessageM.u16 fl ++ MessageM.u16 c0 ++ MessageM.u16 c1 ++ MessageM.u16 c2 ++ MessageM.u16 c3 ++ body)
      with ((MessageM.u16 id ++ MessageM.u16 fl ++ MessageM.u16 c0 ++ MessageM.u16 c1 ++ MessageM.u16 c2) ++ MessageM.u16 c3 ++ body)
      by (rewrite <- !app_assoc; reflexivity).
    apply (rd_u16_at (MessageM.u16 id ++ MessageM.u16 fl ++ MessageM.u16 c0 ++ MessageM.u16 c1 ++ MessageM.u16 c2) c3); [lia|].
    unfold w, hdr_bytes in Hl. rewrite !app_length in *. cbn [length MessageM.u16] in *. lia.
Qed.

Definition opt_count {A} (o : option A) : Z := match o with Some _ => 1 | None => 0 end.

Definition read_result (id fl : Z) (qs : list qd) (ds1 ds2 ds3 : list rrd) (o : option optrec) : msg :=
  let m1 := fold_left add_q qs (mkMsg id fl [] [] [] [] None None) in
  let m2 := fold_left (apply_d 1 false) ds1 m1 in
  let m3 := fold_left (apply_d 2 false) ds2 m2 in
  let m4 := fold_left (apply_d 3 false) ds3 m3 in
  match o with Some o' => set_opt m4 o' | None => m4 end.

Lemma fold_add_q_keeps qs : forall m,
  mopt (fold_left add_q qs m) = mopt m /\ man (fold_left add_q qs m) = man m /\
  mau (fold_left add_q qs m) = mau m /\ mad (fold_left add_q qs m) = mad m /\
  mid (fold_left add_q qs m) = mid m /\ mflags (fold_left add_q qs m) = mflags m /\
  mq (fold_left add_q qs m) = mq m ++ map (fun q => mkRR (q_name q) (q_cl q) (q_ty q) 0 None 0 []) qs.
Proof.
  induction qs as [|q qs IH]; intros m; cbn [fold_left map].
  - rewrite app_nil_r. repeat split; reflexivity.
  - destruct (IH (add_q m q)) as (A & B & C & D & E & F & G). rewrite A, B, C, D, E, F, G.
    unfold add_q. cbn [mopt man mau mad mid mflags mq set_sec Z.eqb]. rewrite <- app_assoc.
    repeat split; reflexivity.
Qed.

Lemma zlen_to_nat {A} (l : list A) : Z.to_nat (zlen l) = length l.
Proof. unfold zlen. apply Nat2Z.id. Qed.

Lemma skipn_app_exact' {A} (a b : list A) n : length a = n -> skipn n (a ++ b) = b.
Proof. intros <-. rewrite skipn_app, skipn_all, Nat.sub_diag. reflexivity. Qed.

Lemma TableSound_nil' file : TableSound file [].
Proof. intros k v []. Qed.

Lemma set_get_sec m sec : 0 <= sec <= 3 -> set_sec m sec (get_sec m sec) = m.
Proof.
  intros H. destruct m. assert (sec = 0 \/ sec = 1 \/ sec = 2 \/ sec = 3) as [Hs|[Hs|[Hs|Hs]]] by lia; subst sec; reflexivity.
Qed.

Lemma fold_apply_d_eq sec ds m : 0 <= sec <= 3 ->
  fold_left (apply_d sec false) ds m = set_sec m sec (fold_left step_sec ds (get_sec m sec)).
Proof.
  intros Hs. destruct (fold_apply_d sec Hs ds m) as [E|E]; [exact E|].
  subst ds. cbn [fold_left]. symmetry. apply set_get_sec. exact Hs.
Qed.

Lemma section_rebuilt o sec l ds m :
  1 <= sec <= 3 -> SecDesc o l ds -> Forall (wf_rrset o) l -> keys_fresh [] l -> get_sec m sec = [] ->
  exists l', Forall2 rrset_equiv l' l /\ fold_left (apply_d sec false) ds m = set_sec m sec l' /\ Rebuilt l ds l'.
Proof.
  intros Hs SD WF KF HE. rewrite fold_apply_d_eq by lia. rewrite HE.
  destruct (regroup_sec o l ds [] [] SD WF (Forall2_nil _) KF) as (l' & EQ & E & RB).
  exists l'. split; [exact EQ|]. split; [|exact RB]. rewrite E. reflexivity.
Qed.

(* ---------- corollaries ---------- *)
Definition rr_count (l : list rrset) : Z := fold_right (fun rs acc => rrset_count rs + acc) 0 l.

Lemma SecDesc_count o : forall l ds, SecDesc o l ds -> Forall (wf_rrset o) l -> zlen ds = rr_count l.
Proof.
  induction 1 as [|rs l ds1 ds2 F2 SD IH]; intros WF; [reflexivity|].
  inversion WF as [|? ? W1 WF']; subst. cbn [rr_count fold_right]. rewrite zlen_app', (IH WF').
  f_equal. destruct W1 as (_ & _ & NE & _). unfold rrset_count.
  apply Forall2_len in F2. destruct (rrds rs) eqn:E; [congruence|]. unfold zlen. f_equal. exact F2.
Qed.

