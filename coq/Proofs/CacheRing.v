(* C17 - store-level lemmas: the sentinel ring of LRUCacheNode objects.
   `cyc s m` says that the nodes m (in this order) form a doubly linked cycle in store s:
   next of each is the following one, prev of the following one is it (prev (next n) = n).
   unlink / link_after are proved against that invariant. *)
From DV Require Import Base.Prelude Model.CacheM.

(* ------------------------------------------------------------------ the store *)
Lemma sget_sset : forall s i n j, sget (sset s i n) j = if Nat.eqb i j then Some n else sget s j.
Proof.
  induction s as [|[x m] s IH]; intros i n j; cbn.
  - reflexivity.
  - destruct (Nat.eqb x i) eqn:E1; cbn.
    + apply Nat.eqb_eq in E1; subst x. destruct (Nat.eqb i j); reflexivity.
    + rewrite IH. destruct (Nat.eqb x j) eqn:E2; [|reflexivity].
      apply Nat.eqb_eq in E2; subst x. rewrite Nat.eqb_sym, E1. reflexivity.
Qed.

Lemma sget_sfree : forall s i j, sget (sfree s i) j = if Nat.eqb i j then None else sget s j.
Proof.
  induction s as [|[x m] s IH]; intros i j; cbn.
  - destruct (Nat.eqb i j); reflexivity.
  - destruct (Nat.eqb x i) eqn:E1; cbn.
    + apply Nat.eqb_eq in E1; subst x. rewrite IH. destruct (Nat.eqb i j); reflexivity.
    + rewrite IH. destruct (Nat.eqb x j) eqn:E2; [|reflexivity].
      apply Nat.eqb_eq in E2; subst x. rewrite Nat.eqb_sym, E1. reflexivity.
Qed.

Definition nxt (s : store) (i : nat) : option nat := option_map n_next (sget s i).
Definition prv (s : store) (i : nat) : option nat := option_map n_prev (sget s i).
Definition payload (s : store) (i : nat) : option (option Z * option ans * Z) :=
  option_map (fun n => (n_key n, n_val n, n_hits n)) (sget s i).

Lemma set_prev_spec : forall s i v n, sget s i = Some n ->
  exists s', set_prev s i v = Ok s' /\
    (forall j, nxt s' j = nxt s j) /\
    (forall j, prv s' j = if Nat.eqb i j then Some v else prv s j) /\
    (forall j, payload s' j = payload s j).
Proof.
  intros s i v n H. unfold set_prev, getn. rewrite H. cbn [bind].
  eexists; split; [reflexivity|]. unfold nxt, prv, payload.
  repeat split; intros j; rewrite sget_sset; destruct (Nat.eqb i j) eqn:E; try reflexivity;
    apply Nat.eqb_eq in E; subst j; rewrite H; reflexivity.
Qed.

Lemma set_next_spec : forall s i v n, sget s i = Some n ->
  exists s', set_next s i v = Ok s' /\
    (forall j, nxt s' j = if Nat.eqb i j then Some v else nxt s j) /\
    (forall j, prv s' j = prv s j) /\
    (forall j, payload s' j = payload s j).
Proof.
  intros s i v n H. unfold set_next, getn. rewrite H. cbn [bind].
  eexists; split; [reflexivity|]. unfold nxt, prv, payload.
  repeat split; intros j; rewrite sget_sset; destruct (Nat.eqb i j) eqn:E; try reflexivity;
    apply Nat.eqb_eq in E; subst j; rewrite H; reflexivity.
Qed.

Lemma set_hits_spec : forall s i h n, sget s i = Some n ->
  exists s', set_hits s i h = Ok s' /\
    (forall j, nxt s' j = nxt s j) /\
    (forall j, prv s' j = prv s j) /\
    (forall j, payload s' j = if Nat.eqb i j then Some (n_key n, n_val n, h) else payload s j).
Proof.
  intros s i h n H. unfold set_hits, getn. rewrite H. cbn [bind].
  eexists; split; [reflexivity|]. unfold nxt, prv, payload.
  repeat split; intros j; rewrite sget_sset; destruct (Nat.eqb i j) eqn:E; try reflexivity;
    apply Nat.eqb_eq in E; subst j; rewrite H; reflexivity.
Qed.

Lemma nxt_some : forall s i b, nxt s i = Some b -> exists n, sget s i = Some n /\ n_next n = b.
Proof. unfold nxt; intros s i b H; destruct (sget s i) as [n|]; [|discriminate]. inversion H; eauto. Qed.
Lemma prv_some : forall s i b, prv s i = Some b -> exists n, sget s i = Some n /\ n_prev n = b.
Proof. unfold prv; intros s i b H; destruct (sget s i) as [n|]; [|discriminate]. inversion H; eauto. Qed.
Lemma payload_some : forall s i p, payload s i = Some p ->
  exists n, sget s i = Some n /\ (n_key n, n_val n, n_hits n) = p.
Proof. unfold payload; intros s i p H; destruct (sget s i) as [n|]; [|discriminate]. inversion H; eauto. Qed.

(* ------------------------------------------------------------------ paths and cycles *)
Definition linked (s : store) (a b : nat) : Prop := nxt s a = Some b /\ prv s b = Some a.

Fixpoint path (s : store) (a : nat) (l : list nat) (b : nat) : Prop :=
  match l with
  | [] => linked s a b
  | x :: r => linked s a x /\ path s x r b
  end.

Definition cyc (s : store) (m : list nat) : Prop :=
  match m with
  | [] => True
  | x :: r => path s x r x
  end.

Lemma path_app : forall s l1 a x l2 b,
  path s a (l1 ++ x :: l2) b <-> path s a l1 x /\ path s x l2 b.
Proof.
  induction l1 as [|y l1 IH]; intros a x l2 b; cbn.
  - tauto.
  - rewrite IH. tauto.
Qed.

Lemma path_snoc : forall s l a p b, path s a (l ++ [p]) b <-> path s a l p /\ linked s p b.
Proof. intros. rewrite path_app. cbn. tauto. Qed.

Lemma cyc_rot : forall s l1 l2, cyc s (l1 ++ l2) -> cyc s (l2 ++ l1).
Proof.
  intros s l1 l2. destruct l1 as [|a l1]; [rewrite app_nil_r; auto|].
  destruct l2 as [|b l2]; [rewrite app_nil_r; auto|].
  cbn [cyc app]. rewrite !path_app. tauto.
Qed.

Lemma path_frame : forall s s' l a b,
  (forall y, In y (a :: l) -> nxt s' y = nxt s y) ->
  (forall y, In y (l ++ [b]) -> prv s' y = prv s y) ->
  path s a l b -> path s' a l b.
Proof.
  induction l as [|x l IH]; intros a b Hn Hp; cbn [path]; unfold linked.
  - intros [H1 H2]. rewrite Hn, Hp by (cbn; auto). auto.
  - intros [[H1 H2] H3]. rewrite Hn, Hp by (cbn; auto). split; [auto|].
    apply IH; auto.
    + intros y Hy. apply Hn. cbn in *. tauto.
    + intros y Hy. apply Hp. cbn in *. tauto.
Qed.

Lemma cyc_frame : forall s s' m,
  (forall y, In y m -> nxt s' y = nxt s y) ->
  (forall y, In y m -> prv s' y = prv s y) ->
  cyc s m -> cyc s' m.
Proof.
  intros s s' [|x r] Hn Hp; cbn [cyc]; [auto|].
  apply path_frame; intros y Hy.
  - apply Hn; auto.
  - apply Hp. apply in_app_or in Hy. cbn in *. tauto.
Qed.

(* every node on a cycle exists *)
Lemma path_nxt_in : forall s l a b y, path s a l b -> In y (a :: l) -> nxt s y <> None.
Proof.
  induction l as [|x l IH]; intros a b y; cbn [path]; unfold linked.
  - intros [H _] [<-|[]]. congruence.
  - intros [[H _] H3] [<-|Hy]; [congruence|]. eapply IH; eauto.
Qed.

Lemma cyc_in_store : forall s m y, cyc s m -> In y m -> sget s y <> None.
Proof.
  intros s [|x r] y Hc Hy; [destruct Hy|]. cbn in Hc.
  pose proof (path_nxt_in _ _ _ _ _ Hc Hy) as H. unfold nxt in H.
  destruct (sget s y); [discriminate|]. cbn in H. congruence.
Qed.

Lemma exists_last_or_nil : forall {A} (l : list A), l = [] \/ exists l' a, l = l' ++ [a].
Proof.
  intros A l. destruct l as [|x r]; [left; reflexivity|right].
  destruct (@exists_last A (x :: r)) as [l' [a E]]; [discriminate|]. eauto.
Qed.

(* ------------------------------------------------------------------ unlink *)
(* node n is the first of the cycle n :: m; afterwards m alone is a cycle, payloads untouched,
   and only the next of n's predecessor and the prev of n's successor changed *)
Lemma unlink_cyc : forall s n m,
  cyc s (n :: m) -> NoDup (n :: m) -> m <> [] ->
  exists s', unlink s n = Ok s' /\ cyc s' m /\
    (forall j, payload s' j = payload s j) /\
    (forall j, (sget s' j = None <-> sget s j = None)).
Proof.
  intros s n m Hc Hnd Hne.
  destruct m as [|q m']; [congruence|]. clear Hne.
  cbn [cyc path] in Hc. destruct Hc as [[Hnq Hqn] Hp].
  destruct (nxt_some _ _ _ Hnq) as [nd [Hnd_get Hnd_next]].
  assert (Hnq_ne : n <> q).
  { intros E. apply NoDup_cons_iff in Hnd. destruct Hnd as [Hin _]. apply Hin. left. auto. }
  destruct (@exists_last_or_nil nat m') as [->|[m'' [p ->]]].
  - (* the cycle is n <-> q *)
    cbn [path] in Hp. destruct Hp as [Hqn' Hnq'].
    destruct (prv_some _ _ _ Hnq') as [nd' [Hg' Hprev]]. rewrite Hnd_get in Hg'. inversion Hg'; subst nd'.
    destruct (nxt_some _ _ _ Hqn') as [qd [Hq_get _]].
    destruct (set_prev_spec s q q qd Hq_get) as [s1 [E1 [N1 [P1 Y1]]]].
    assert (Hq1 : exists qd1, sget s1 q = Some qd1).
    { specialize (P1 q). rewrite Nat.eqb_refl in P1. destruct (prv_some _ _ _ P1) as [x [? _]]; eauto. }
    destruct Hq1 as [qd1 Hq1].
    destruct (set_next_spec s1 q q qd1 Hq1) as [s2 [E2 [N2 [P2 Y2]]]].
    assert (Hn1 : sget s1 n = Some nd).
    { unfold set_prev, getn in E1. rewrite Hq_get in E1. cbn [bind] in E1. inversion E1; subst s1.
      rewrite sget_sset. destruct (Nat.eqb q n) eqn:E; [apply Nat.eqb_eq in E; congruence|auto]. }
    exists s2. split.
    { unfold unlink, getn. rewrite Hnd_get. cbn [bind]. rewrite Hnd_next, Hprev, E1. cbn [bind].
      rewrite Hn1. cbn [bind]. rewrite Hnd_next, Hprev. exact E2. }
    split.
    { cbn [cyc path]. unfold linked. rewrite N2, P2, P1, !Nat.eqb_refl. auto. }
    split.
    { intros j. rewrite Y2, Y1. reflexivity. }
    { intros j. specialize (Y1 j). specialize (Y2 j). unfold payload in *.
      destruct (sget s2 j), (sget s1 j), (sget s j); cbn in *; split; intros; congruence. }
  - (* the cycle is n -> q -> m'' -> p -> n *)
    rewrite path_snoc in Hp. destruct Hp as [Hp [Hpn Hnp]].
    destruct (prv_some _ _ _ Hnp) as [nd' [Hg' Hprev]]. rewrite Hnd_get in Hg'. inversion Hg'; subst nd'.
    destruct (prv_some _ _ _ Hqn) as [qd [Hq_get _]].
    destruct (set_prev_spec s q p qd Hq_get) as [s1 [E1 [N1 [P1 Y1]]]].
    assert (Hp1 : exists pd1, sget s1 p = Some pd1).
    { specialize (N1 p). rewrite Hpn in N1. destruct (nxt_some _ _ _ N1) as [x [? _]]; eauto. }
    destruct Hp1 as [pd1 Hp1].
    destruct (set_next_spec s1 p q pd1 Hp1) as [s2 [E2 [N2 [P2 Y2]]]].
    assert (Hn1 : sget s1 n = Some nd).
    { unfold set_prev, getn in E1. rewrite Hq_get in E1. cbn [bind] in E1. inversion E1; subst s1.
      rewrite sget_sset. destruct (Nat.eqb q n) eqn:E; [apply Nat.eqb_eq in E; congruence|auto]. }
    assert (Hpq : ~ In p (q :: m'')).
    { apply NoDup_cons_iff in Hnd. destruct Hnd as [_ H2].
      change (q :: m'' ++ [p]) with ((q :: m'') ++ [p]) in H2.
      apply NoDup_remove_2 in H2. rewrite app_nil_r in H2. exact H2. }
    assert (Hqm : ~ In q (m'' ++ [p])).
    { apply NoDup_cons_iff in Hnd. destruct Hnd as [_ H2].
      apply NoDup_cons_iff in H2. tauto. }
    exists s2. split.
    { unfold unlink, getn. rewrite Hnd_get. cbn [bind]. rewrite Hnd_next, Hprev, E1. cbn [bind].
      rewrite Hn1. cbn [bind]. rewrite Hnd_next, Hprev. exact E2. }
    split.
    { cbn [cyc]. rewrite path_snoc. split.
      - eapply path_frame; [| |exact Hp].
        + intros y Hy. rewrite N2, N1. destruct (Nat.eqb p y) eqn:E; [|reflexivity].
          apply Nat.eqb_eq in E; subst y. contradiction.
        + intros y Hy. rewrite P2, P1. destruct (Nat.eqb q y) eqn:E; [|reflexivity].
          apply Nat.eqb_eq in E; subst y. contradiction.
      - unfold linked. rewrite N2, P2, P1, !Nat.eqb_refl. auto. }
    split.
    { intros j. rewrite Y2, Y1. reflexivity. }
    { intros j. specialize (Y1 j). specialize (Y2 j). unfold payload in *.
      destruct (sget s2 j), (sget s1 j), (sget s j); cbn in *; split; intros; congruence. }
Qed.

(* ------------------------------------------------------------------ link_after *)
Lemma payload_dom : forall s s', (forall j, payload s' j = payload s j) ->
  forall j, sget s' j = None <-> sget s j = None.
Proof.
  intros s s' H j. specialize (H j). unfold payload in H.
  destruct (sget s' j), (sget s j); cbn in H; split; intros; congruence.
Qed.

Lemma dom_some : forall s s' j n, (forall j, sget s' j = None <-> sget s j = None) ->
  sget s j = Some n -> exists n', sget s' j = Some n'.
Proof.
  intros s s' j n H Hj. destruct (sget s' j) eqn:E; eauto.
  apply H in E. congruence.
Qed.

Lemma link_after_spec : forall s n a nd ad,
  sget s n = Some nd -> sget s a = Some ad -> n <> a -> sget s (n_next ad) <> None ->
  exists s', link_after s n a = Ok s' /\
    (forall j, nxt s' j = if Nat.eqb a j then Some n else if Nat.eqb n j then Some (n_next ad) else nxt s j) /\
    (forall j, prv s' j = if Nat.eqb (n_next ad) j then Some n else if Nat.eqb n j then Some a else prv s j) /\
    (forall j, payload s' j = payload s j).
Proof.
  intros s n a nd ad Hn Ha Hna Hq.
  set (q := n_next ad) in *.
  destruct (set_prev_spec s n a nd Hn) as [s1 [E1 [N1 [P1 Y1]]]].
  assert (Ha1 : sget s1 a = Some ad).
  { unfold set_prev, getn in E1. rewrite Hn in E1. cbn [bind] in E1. inversion E1; subst s1.
    rewrite sget_sset. destruct (Nat.eqb n a) eqn:E; [apply Nat.eqb_eq in E; congruence|auto]. }
  destruct (dom_some s s1 n nd (payload_dom _ _ Y1) Hn) as [nd1 Hn1].
  destruct (set_next_spec s1 n q nd1 Hn1) as [s2 [E2 [N2 [P2 Y2]]]].
  assert (Ha2 : sget s2 a = Some ad).
  { unfold set_next, getn in E2. rewrite Hn1 in E2. cbn [bind] in E2. inversion E2; subst s2.
    rewrite sget_sset. destruct (Nat.eqb n a) eqn:E; [apply Nat.eqb_eq in E; congruence|auto]. }
  assert (Hq2 : exists qd, sget s2 q = Some qd).
  { destruct (sget s q) as [qd|] eqn:Eq; [|congruence].
    destruct (dom_some s s1 q qd (payload_dom _ _ Y1) Eq) as [qd1 Hq1].
    eapply dom_some; [apply payload_dom; exact Y2|exact Hq1]. }
  destruct Hq2 as [qd Hq2].
  destruct (set_prev_spec s2 q n qd Hq2) as [s3 [E3 [N3 [P3 Y3]]]].
  destruct (dom_some s2 s3 a ad (payload_dom _ _ Y3) Ha2) as [ad3 Ha3].
  destruct (set_next_spec s3 a n ad3 Ha3) as [s4 [E4 [N4 [P4 Y4]]]].
  exists s4. split.
  { unfold link_after. rewrite E1. cbn [bind]. unfold getn at 1. rewrite Ha1. cbn [bind].
    fold q. rewrite E2. cbn [bind]. unfold getn at 1. rewrite Ha2. cbn [bind]. fold q.
    rewrite E3. cbn [bind]. exact E4. }
  split. { intros j. rewrite N4, N3, N2, N1. reflexivity. }
  split. { intros j. rewrite P4, P3, P2, P1. reflexivity. }
  intros j. rewrite Y4, Y3, Y2, Y1. reflexivity.
Qed.

(* node n (present in the store, not on the cycle) is inserted right after a *)
Lemma link_after_cyc : forall s a l n nd,
  cyc s (a :: l) -> NoDup (a :: l) -> ~ In n (a :: l) -> sget s n = Some nd ->
  exists s', link_after s n a = Ok s' /\ cyc s' (a :: n :: l) /\
    (forall j, payload s' j = payload s j).
Proof.
  intros s a l n nd Hc Hnd Hnin Hn.
  assert (Hna : n <> a) by (intros ->; apply Hnin; left; reflexivity).
  destruct l as [|q l'].
  - cbn [cyc path] in Hc. destruct Hc as [Haa Hpa].
    destruct (nxt_some _ _ _ Haa) as [ad [Ha Hnext]].
    destruct (link_after_spec s n a nd ad Hn Ha Hna) as [s' [E [Nx [Pv Y]]]].
    { rewrite Hnext, Ha. discriminate. }
    exists s'. split; [exact E|]. split; [|exact Y].
    cbn [cyc path]. unfold linked. rewrite !Nx, !Pv, Hnext.
    rewrite !Nat.eqb_refl.
    destruct (Nat.eqb a n) eqn:E1; [apply Nat.eqb_eq in E1; congruence|]. auto.
  - cbn [cyc path] in Hc. destruct Hc as [[Haq Hqa] Hp].
    destruct (nxt_some _ _ _ Haq) as [ad [Ha Hnext]].
    destruct (prv_some _ _ _ Hqa) as [qd [Hq _]].
    destruct (link_after_spec s n a nd ad Hn Ha Hna) as [s' [E [Nx [Pv Y]]]].
    { rewrite Hnext, Hq. discriminate. }
    exists s'. split; [exact E|]. split; [|exact Y].
    assert (Hnq : n <> q) by (intros ->; apply Hnin; right; left; reflexivity).
    assert (Haq' : a <> q).
    { intros ->. apply NoDup_cons_iff in Hnd. apply (proj1 Hnd). left; reflexivity. }
    cbn [cyc path]. unfold linked. rewrite !Nx, !Pv, Hnext. rewrite !Nat.eqb_refl.
    destruct (Nat.eqb a n) eqn:E1; [apply Nat.eqb_eq in E1; congruence|].
    destruct (Nat.eqb q n) eqn:E2; [apply Nat.eqb_eq in E2; congruence|].
    split; [auto|]. split; [auto|].
    eapply path_frame; [| |exact Hp].
    + intros y Hy. rewrite Nx.
      destruct (Nat.eqb a y) eqn:E3.
      { apply Nat.eqb_eq in E3; subst y. apply NoDup_cons_iff in Hnd. tauto. }
      destruct (Nat.eqb n y) eqn:E4.
      { apply Nat.eqb_eq in E4; subst y. exfalso. apply Hnin. right. exact Hy. }
      reflexivity.
    + intros y Hy. rewrite Pv, Hnext.
      destruct (Nat.eqb q y) eqn:E3.
      { apply Nat.eqb_eq in E3; subst y. exfalso.
        apply NoDup_cons_iff in Hnd. destruct Hnd as [_ H2]. apply NoDup_cons_iff in H2.
        apply in_app_or in Hy. destruct Hy as [Hy|[Hy|[]]]; [tauto|congruence]. }
      destruct (Nat.eqb n y) eqn:E4.
      { apply Nat.eqb_eq in E4; subst y. exfalso.
        apply in_app_or in Hy. destruct Hy as [Hy|[Hy|[]]]; [|congruence].
        apply Hnin. right; right; exact Hy. }
      reflexivity.
Qed.

(* ------------------------------------------------------------------ allocation, freeing, hits *)
Lemma cyc_sfree : forall s m i, cyc s m -> ~ In i m -> cyc (sfree s i) m.
Proof.
  intros s m i Hc Hi. eapply cyc_frame; [| |exact Hc]; intros y Hy; unfold nxt, prv;
    rewrite sget_sfree; destruct (Nat.eqb i y) eqn:E; try reflexivity;
    apply Nat.eqb_eq in E; subst y; contradiction.
Qed.

Lemma cyc_sset_new : forall s m i n, cyc s m -> sget s i = None -> cyc (sset s i n) m.
Proof.
  intros s m i n Hc Hi. eapply cyc_frame; [| |exact Hc]; intros y Hy; unfold nxt, prv;
    rewrite sget_sset; destruct (Nat.eqb i y) eqn:E; try reflexivity;
    apply Nat.eqb_eq in E; subst y; exfalso; eapply cyc_in_store; eauto.
Qed.

(* the prev of the first node of a cycle is its last node *)
Lemma cyc_prv_last : forall s a l g, cyc s (a :: l ++ [g]) -> prv s a = Some g.
Proof.
  intros s a l g Hc. cbn [cyc] in Hc. rewrite path_snoc in Hc. destruct Hc as [_ [_ H]]. exact H.
Qed.

Lemma cyc_nxt_first : forall s a q l, cyc s (a :: q :: l) -> nxt s a = Some q.
Proof. intros s a q l Hc. cbn [cyc path] in Hc. destruct Hc as [[H _] _]. exact H. Qed.

(* walking a cycle: the successor of every node but the last *)
Lemma path_nxt_mid : forall s l1 a x y l2 b, path s a (l1 ++ x :: y :: l2) b -> nxt s x = Some y.
Proof.
  intros s l1 a x y l2 b H. rewrite path_app in H. destruct H as [_ H]. cbn [path] in H.
  destruct H as [[H _] _]. exact H.
Qed.
