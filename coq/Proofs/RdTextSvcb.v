(* SVCB / HTTPS (dns/rdtypes/svcbbase.py): the text of a record (priority, target, parameters sorted by key,
   every parameter class with its own value syntax and the two levels of escaping) is read back by from_text
   as the same record. *)
From DV Require Import Base.Prelude Model.NameM Model.TokM Model.RdTextM.
From DV Require Import Proofs.NameValid Proofs.NameText Proofs.TokEsc Proofs.TokTxt Proofs.TokWords Proofs.TokDec Proofs.TokHex
     Proofs.TokShape Proofs.TokGeneric Proofs.RdTextName Proofs.RdTextAddr Proofs.RdTextBitmap Proofs.RdTextTypes
     Proofs.RdTextFmtHex Proofs.RdTextTail Proofs.RdTextApl.
Open Scope Z_scope.
Set Warnings "-abstract-large-number".

Ltac Zify.zify_post_hook ::= Z.to_euclidean_division_equations.

(* ================================================================== A. escaping *)

(* svcbbase._unescape inverts dns.rdata._escapify *)
Lemma su_step c t : 0 <= c < 256 ->
  svcb_unescape (esc_octet c ++ t) = (do r <- svcb_unescape t; Ok (c :: r)).
Proof.
  intros Hc. destruct (esc_octet_shape c Hc) as [H|H1 H2 H3|d1 d2 d3 H -> -> ->].
  - cbn [app svcb_unescape]. replace (92 =? 92) with true by reflexivity.
    assert (is_decimal c = false) by (unfold is_decimal; lia). rewrite H0.
    unfold utf8_cp. replace (c <? 128) with true by lia. cbn [bind]. destruct (svcb_unescape t); reflexivity.
  - cbn [app svcb_unescape]. replace (c =? 92) with false by lia.
    unfold utf8_cp. replace (c <? 128) with true by lia. cbn [bind]. destruct (svcb_unescape t); reflexivity.
  - cbn [app svcb_unescape]. replace (92 =? 92) with true by reflexivity.
    unfold is_decimal.
    replace ((48 <=? 48 + c / 100) && (48 + c / 100 <=? 57)) with true by lia.
    replace ((48 <=? 48 + (c / 10) mod 10) && (48 + (c / 10) mod 10 <=? 57)) with true by lia.
    replace ((48 <=? 48 + c mod 10) && (48 + c mod 10 <=? 57)) with true by lia.
    cbn [andb negb].
    replace ((48 + c / 100 - 48) * 100 + (48 + (c / 10) mod 10 - 48) * 10 + (48 + c mod 10 - 48)) with c by lia.
    replace (c >? 255) with false by lia. reflexivity.
Qed.

Theorem svcb_unescape_escapify s : all_bytes s = true -> svcb_unescape (escapify s) = Ok s.
Proof.
  induction s as [|c s IH]; intros Hs; [reflexivity|].
  cbn [all_bytes forallb] in Hs. apply andb_true_iff in Hs as [Hc Hs].
  unfold escapify in *. cbn [flat_map]. rewrite su_step by (apply is_byte_range; exact Hc).
  rewrite IH by exact Hs. reflexivity.
Qed.

(* _split inverts the comma-join of _escapify'd items *)
Lemma split_item id : forall rest cur,
  svcb_split (svcb_escapify id ++ rest) cur = svcb_split rest (rev id ++ cur).
Proof.
  induction id as [|c id IH]; intros rest cur; [reflexivity|].
  unfold svcb_escapify in *. cbn [flat_map]. destruct ((c =? 44) || (c =? 92)) eqn:E.
  - cbn [app svcb_split]. replace (92 =? 92) with true by reflexivity. rewrite IH. cbn [rev]. rewrite <- app_assoc. reflexivity.
  - cbn [app svcb_split]. apply orb_false_iff in E as [E1 E2]. rewrite E2, E1. rewrite IH. cbn [rev]. rewrite <- app_assoc. reflexivity.
Qed.

Theorem svcb_split_join ids : ids <> [] -> svcb_split (join_comma (map svcb_escapify ids)) [] = Ok ids.
Proof.
  induction ids as [|id ids IH]; intros Hne; [congruence|]. destruct ids as [|id2 ids].
  - cbn [map join_comma]. rewrite <- (app_nil_r (svcb_escapify id)). rewrite split_item. cbn [svcb_split].
    rewrite app_nil_r, rev_involutive. reflexivity.
  - change (join_comma (map svcb_escapify (id :: id2 :: ids)))
      with (svcb_escapify id ++ 44 :: join_comma (map svcb_escapify (id2 :: ids))).
    rewrite split_item. cbn [svcb_split]. change (44 =? 92) with false. change (44 =? 44) with true. cbv iota.
    rewrite IH by discriminate. cbn [bind]. rewrite app_nil_r, rev_involutive. reflexivity.
Qed.

Lemma svcb_escapify_bytes id : all_bytes id = true -> all_bytes (svcb_escapify id) = true.
Proof.
  unfold all_bytes, svcb_escapify. induction id as [|c id IH]; intros H; [reflexivity|].
  cbn [forallb] in H. apply andb_true_iff in H as [Hc H]. cbn [flat_map]. rewrite forallb_app, (IH H).
  destruct ((c =? 44) || (c =? 92)); cbn [forallb]; rewrite Hc; reflexivity.
Qed.

Lemma join_comma_bytes l : Forall (fun x => all_bytes x = true) l -> all_bytes (join_comma l) = true.
Proof.
  induction 1 as [|x l Hx _ IH]; [reflexivity|]. destruct l as [|y l]; [exact Hx|].
  change (join_comma (x :: y :: l)) with (x ++ 44 :: join_comma (y :: l)).
  unfold all_bytes in *. rewrite forallb_app. cbn [forallb]. rewrite Hx, IH. reflexivity.
Qed.

(* text without quote, backslash, control or non-ASCII characters is its own escaped form *)
Definition plainc (c : Z) : bool := (32 <=? c) && (c <? 127) && negb (c =? 34) && negb (c =? 92).

Lemma escapify_plain t : forallb plainc t = true -> escapify t = t /\ all_bytes t = true.
Proof.
  induction t as [|c t IH]; intros H; [split; reflexivity|].
  cbn [forallb] in H. apply andb_true_iff in H as [Hc H]. destruct (IH H) as [I1 I2].
  unfold plainc in Hc. unfold escapify in *. cbn [flat_map]. rewrite I1. unfold esc_octet, q_escaped.
  replace (c =? 34) with false by lia. replace (c =? 92) with false by lia. cbn [orb].
  replace ((c >=? 32) && (c <? 127)) with true by lia. split; [reflexivity|].
  unfold all_bytes in *. cbn [forallb]. rewrite I2. unfold is_byte. replace ((0 <=? c) && (c <? 256)) with true by lia. reflexivity.
Qed.

(* ================================================================== B. keys: finite sweep *)
Definition keyc (c : Z) : bool := ((97 <=? c) && (c <=? 122)) || ((48 <=? c) && (c <=? 57)) || (c =? 45).

Definition key_ok (k : Z) : bool :=
  let t := svcb_key_text k in
  negb (is_nil t) && forallb keyc t
  && match svcb_validate_key t with
     | Ok (k', force) => (k' =? k) && Bool.eqb force (negb (existsb (fun nv => snd nv =? k) svcb_keys))
     | _ => false
     end.

Lemma key_ok_all : forallb key_ok (zrange 65536 0) = true.
Proof. vm_compute. reflexivity. Qed.

Definition named (k : Z) : bool := existsb (fun nv => snd nv =? k) svcb_keys.

Lemma key_facts k : 0 <= k <= 65535 ->
  svcb_key_text k <> [] /\ forallb keyc (svcb_key_text k) = true /\
  svcb_validate_key (svcb_key_text k) = Ok (k, negb (named k)).
Proof.
  intros Hk. pose proof key_ok_all as G. rewrite forallb_forall in G. specialize (G k).
  assert (Hin : In k (zrange 65536 0)).
  { apply zrange_in. assert (E : Z.of_nat 65536 = 65536) by (vm_compute; reflexivity). rewrite E. lia. }
  specialize (G Hin). unfold key_ok in G. cbv zeta in G.
  apply andb_true_iff in G as [G G3]. apply andb_true_iff in G as [G1 G2].
  split; [intros E; rewrite E in G1; discriminate|]. split; [exact G2|].
  destruct (svcb_validate_key (svcb_key_text k)) as [[k' f]| |]; try discriminate.
  apply andb_true_iff in G3 as [A B]. apply Z.eqb_eq in A. apply Bool.eqb_prop in B. subst. reflexivity.
Qed.

Lemma keyc_facts c : keyc c = true ->
  safe c = true /\ plainc c = true /\ (c =? 61) = false /\ (c =? 44) = false /\ (c =? 92) = false /\ is_decimal c = is_decimal c.
Proof.
  unfold keyc, plainc. intros H. split; [|repeat split; lia].
  unfold safe, is_delim.
  replace (c =? 32) with false by lia. replace (c =? 9) with false by lia.
  replace (c =? 10) with false by lia. replace (c =? 59) with false by lia.
  replace (c =? 40) with false by lia. replace (c =? 41) with false by lia.
  replace (c =? 34) with false by lia. replace (c =? 92) with false by lia. reflexivity.
Qed.

(* _unescape leaves a key text alone (no backslash, ASCII) *)
Lemma svcb_unescape_plain t : forallb (fun c => negb (c =? 92) && (0 <=? c) && (c <? 128)) t = true -> svcb_unescape t = Ok t.
Proof.
  induction t as [|c t IH]; intros H; [reflexivity|]. cbn [forallb] in H. apply andb_true_iff in H as [Hc H].
  cbn [svcb_unescape]. replace (c =? 92) with false by lia. unfold utf8_cp. replace (c <? 128) with true by lia.
  cbn [bind]. rewrite IH by exact H. reflexivity.
Qed.

(* ================================================================== C. one parameter value *)
Lemma split_join_comma cs : Forall (fun c => no_sep 44 c = true) cs -> cs <> [] ->
  split_on 44 (join_comma cs) [] = cs.
Proof.
  induction 1 as [|c cs Hc Hcs IH]; intros Hne; [congruence|].
  destruct cs as [|c2 cs].
  - cbn [join_comma]. rewrite split_on_last by exact Hc. reflexivity.
  - change (join_comma (c :: c2 :: cs)) with (c ++ 44 :: join_comma (c2 :: cs)).
    rewrite split_on_word by exact Hc. cbn [rev app]. rewrite IH by discriminate. reflexivity.
Qed.

Lemma plain_app a b : forallb plainc a = true -> forallb plainc b = true -> forallb plainc (a ++ b) = true.
Proof. intros. rewrite forallb_app. apply andb_true_iff. split; assumption. Qed.

Lemma join_comma_plain l : Forall (fun x => forallb plainc x = true) l -> forallb plainc (join_comma l) = true.
Proof.
  induction 1 as [|x l Hx _ IH]; [reflexivity|]. destruct l as [|y l]; [exact Hx|].
  change (join_comma (x :: y :: l)) with (x ++ [44] ++ join_comma (y :: l)).
  apply plain_app; [exact Hx|]. apply plain_app; [reflexivity|exact IH].
Qed.

Lemma keyc_plain t : forallb keyc t = true -> forallb plainc t = true /\ no_sep 44 t = true /\ all_ascii t = true.
Proof.
  induction t as [|c t IH]; intros H; [repeat split; reflexivity|]. cbn [forallb] in H. apply andb_true_iff in H as [Hc H].
  destruct (IH H) as (I1 & I2 & I3). unfold no_sep, all_ascii in *. cbn [forallb]. rewrite I1, I2, I3.
  unfold keyc in Hc. unfold plainc. repeat split.
  - replace ((32 <=? c) && (c <? 127) && negb (c =? 34) && negb (c =? 92)) with true by lia. reflexivity.
  - replace (negb (c =? 44)) with true by lia. reflexivity.
  - replace ((0 <=? c) && (c <? 128)) with true by lia. reflexivity.
Qed.

Lemma decimal_plain s : forallb is_decimal s = true -> forallb plainc s = true.
Proof.
  intros H. apply forallb_forall. intros c Hc. rewrite forallb_forall in H. specialize (H c Hc).
  unfold is_decimal in H. unfold plainc. lia.
Qed.

(* base64 text *)
Lemma b64char_plain_all : forallb (fun v => plainc (b64char v)) (map Z.of_nat (seq 0 64)) = true.
Proof. vm_compute. reflexivity. Qed.
Lemma b64char_plain v : 0 <= v < 64 -> plainc (b64char v) = true.
Proof.
  intros Hv. pose proof b64char_plain_all as H. rewrite forallb_forall in H. apply H.
  rewrite <- (Z2Nat.id v) by lia. apply in_map. apply in_seq. lia.
Qed.

Lemma b64encode_plain d : all_bytes d = true -> forallb plainc (b64encode d) = true.
Proof.
  induction d as [|a|a b|a b c r IH] using list_ind3; intros Hd.
  - reflexivity.
  - cbn [all_bytes forallb] in Hd. rewrite andb_true_r in Hd. apply is_byte_range in Hd.
    cbn [b64encode forallb]. rewrite !b64char_plain by lia. reflexivity.
  - cbn [all_bytes forallb] in Hd. apply andb_true_iff in Hd as [Ha Hd]. rewrite andb_true_r in Hd.
    apply is_byte_range in Ha. apply is_byte_range in Hd.
    cbn [b64encode forallb]. rewrite !b64char_plain by lia. reflexivity.
  - cbn [all_bytes forallb] in Hd. apply andb_true_iff in Hd as [Ha Hd]. apply andb_true_iff in Hd as [Hb Hd].
    apply andb_true_iff in Hd as [Hc Hd]. apply is_byte_range in Ha. apply is_byte_range in Hb. apply is_byte_range in Hc.
    cbn [b64encode forallb]. rewrite !b64char_plain by lia. rewrite (IH Hd). reflexivity.
Qed.

Lemma plain_facts t : forallb plainc t = true ->
  existsb (Z.eqb 92) t = false /\ all_ascii t = true.
Proof.
  induction t as [|c t IH]; intros H; [split; reflexivity|]. cbn [forallb] in H. apply andb_true_iff in H as [Hc H].
  destruct (IH H) as [I1 I2]. unfold all_ascii in *. cbn [existsb forallb]. rewrite I1, I2. unfold plainc in Hc.
  split; [replace (92 =? c) with false by lia; reflexivity|replace ((0 <=? c) && (c <? 128)) with true by lia; reflexivity].
Qed.

(* address lists *)
Lemma addrs_texts (v6 : bool) l : Forall (fun a => all_bytes a = true /\ length a = (if v6 then 16 else 4)%nat) l ->
  exists ts, map_res (if v6 then ipv6_ntoa else ipv4_ntoa) l = Ok ts /\
    Forall (fun t => no_sep 44 t = true /\ forallb safe t = true /\ t <> []) ts /\
    map_res (if v6 then ipv6_aton else ipv4_aton) ts = Ok l.
Proof.
  induction 1 as [|a l [Hb Hl] _ IH]; [exists []; repeat split; constructor|].
  destruct IH as (ts & E1 & F & E2).
  assert (Ha : exists t, (if v6 then ipv6_ntoa else ipv4_ntoa) a = Ok t /\ no_sep 44 t = true /\ forallb safe t = true /\ t <> []
                         /\ (if v6 then ipv6_aton else ipv4_aton) t = Ok a).
  { destruct v6.
    - destruct (ipv6_roundtrip a Hb Hl) as (t & En & Ea). exists t. split; [exact En|].
      destruct (ipv6_ntoa_word a t Hb En) as [S N]. repeat split; auto. apply (ipv6_ntoa_nocomma a t Hb En).
    - destruct (ipv4_roundtrip a Hb Hl) as (t & En & Ea). exists t. split; [exact En|].
      destruct (ipv4_ntoa_word a t Hb En) as [S N]. repeat split; auto. apply (ipv4_ntoa_nocomma a t Hb En). }
  destruct Ha as (t & En & Nc & S & N & Ea).
  exists (t :: ts). cbn [map_res]. rewrite En, E1, Ea, E2. cbn [bind]. repeat split; auto.
Qed.

(* printable ASCII without quote / backslash from "safe" and the address alphabets: addresses are made of
   hexadecimal digits, ":" and "." *)
Definition addrc (c : Z) : bool := is_hexdigit c || (c =? 58) || (c =? 46).

Lemma addrc_plain c : addrc c = true -> plainc c = true.
Proof. unfold addrc, is_hexdigit, plainc. intros H. lia. Qed.

From DV Require Import Proofs.TokUtf8.
Require Import Coq.Sorting.Sorted.

Lemma safe_not c : safe c = true -> c <> 34 /\ c <> 10 /\ c <> 92.
Proof.
  unfold safe, is_delim. intros H. apply andb_true_iff in H as [H1 H2]. apply negb_true_iff in H1. apply negb_true_iff in H2.
  repeat (apply orb_false_iff in H1 as [H1 ?]). lia.
Qed.

Lemma safe_qbody t : forallb safe t = true -> qbody t.
Proof.
  induction t as [|c t IH]; intros H; [constructor|]. cbn [forallb] in H. apply andb_true_iff in H as [Hc H].
  destruct (safe_not c Hc) as (A & B & C). apply qb_plain; auto.
Qed.

Lemma plain_qbody t : forallb plainc t = true -> qbody t.
Proof.
  induction t as [|c t IH]; intros H; [constructor|]. cbn [forallb] in H. apply andb_true_iff in H as [Hc H].
  unfold plainc in Hc. apply qb_plain; auto; lia.
Qed.

Lemma escapify_qbody s : all_bytes s = true -> qbody (escapify s).
Proof.
  induction s as [|c s IH]; intros H; [constructor|]. cbn [all_bytes forallb] in H. apply andb_true_iff in H as [Hc H].
  unfold escapify in *. cbn [flat_map]. apply qbody_app; [apply esc_octet_qbody, is_byte_range, Hc|apply IH, H].
Qed.

Definition value_ok (k : Z) (v : pval) : Prop :=
  match v with
  | PNone => svcb_never k = false
  | PKeys l => k = 0 /\ l <> [] /\ StronglySorted Z.lt l /\ Forall (fun m => 1 <= m <= 65535) l
  | PStrs ids => (k = 1 \/ k = 10) /\ ids <> [] /\ Forall (fun i => all_bytes i = true /\ i <> [] /\ zlen i <= 255) ids
  | PPort p => k = 3 /\ 0 <= p <= 65535
  | PAddrs v6 l => k = (if v6 then 6 else 4) /\ l <> [] /\
                   Forall (fun a => all_bytes a = true /\ length a = (if v6 then 16 else 4)%nat) l
  | PEch b => k = 5 /\ all_bytes b = true
  | PGen b => svcb_known k = false /\ all_bytes b = true /\ b <> []
  end.

Lemma sorted_nodup l : StronglySorted Z.lt l -> has_dup_sorted l = false.
Proof.
  induction 1 as [|a l Hs IH Ha]; [reflexivity|]. destruct l as [|b r]; [reflexivity|].
  cbn [has_dup_sorted]. inversion Ha; subst. replace (a =? b) with false by lia. exact IH.
Qed.

Lemma keys_texts l : Forall (fun m => 1 <= m <= 65535) l ->
  Forall (fun t => no_sep 44 t = true) (map svcb_key_text l) /\
  Forall (fun t => forallb plainc t = true) (map svcb_key_text l) /\
  map_res (fun t => do e <- utf8_encode t; do kf <- svcb_validate_key e; Ok (fst kf)) (map svcb_key_text l) = Ok l.
Proof.
  induction 1 as [|m l Hm _ IH]; [repeat split; constructor|]. destruct IH as (I1 & I2 & I3).
  destruct (key_facts m ltac:(lia)) as (N & K & V). destruct (keyc_plain _ K) as (P & C & A).
  cbn [map]. split; [constructor; assumption|]. split; [constructor; assumption|].
  cbn [map_res]. rewrite utf8_ascii by exact A. cbn [bind]. rewrite V. cbn [bind fst]. rewrite I3. reflexivity.
Qed.

(* what to_text prints for a value is a quoted body that from_value reads back *)
Theorem value_roundtrip k v : value_ok k v ->
  match v with
  | PNone => pval_text v = Ok None
  | _ => exists body, pval_text v = Ok (Some (34 :: body ++ [34])) /\ qbody body /\
           (svcb_known k = true \/ k = 7 -> svcb_from_value k body = Ok v) /\
           (forall b, v = PGen b -> svcb_unescape body = Ok b)
  end.
Proof.
  destruct v as [|l|ids|p|v6 l|b|b]; cbn [value_ok]; intros H.
  - reflexivity.
  - (* mandatory *)
    destruct H as (-> & Hne & Hs & Hr). destruct (keys_texts l Hr) as (C & P & M).
    exists (join_comma (map svcb_key_text l)). split; [reflexivity|]. split; [apply plain_qbody, join_comma_plain, P|].
    split; [|intros b E; discriminate]. intros _. unfold svcb_from_value. cbn [Z.eqb].
    rewrite (split_join_comma _ C) by (destruct l; [congruence|discriminate]). rewrite M. cbn [bind].
    rewrite (sort_sorted l Hs). rewrite (sorted_nodup l Hs).
    replace (existsb (Z.eqb 0) l) with false; [reflexivity|].
    symmetry. apply not_true_is_false. intros E. apply existsb_exists in E as (x & Hx & Ex). rewrite Forall_forall in Hr.
    specialize (Hr x Hx). lia.
  - (* alpn / docpath *)
    destruct H as (Hk & Hne & Hids).
    set (x := join_comma (map svcb_escapify ids)).
    assert (Hx : all_bytes x = true).
    { apply join_comma_bytes. clear - Hids. induction Hids as [|i l (A & _) _ IH]; constructor; [apply svcb_escapify_bytes, A|exact IH]. }
    exists (escapify x). split; [reflexivity|]. split; [apply escapify_qbody, Hx|]. split; [|intros b E; discriminate].
    intros _. unfold svcb_from_value.
    assert (Hk0 : (k =? 0) = false) by (destruct Hk; subst; reflexivity). rewrite Hk0.
    replace ((k =? 1) || (k =? 10)) with true by (destruct Hk; subst; reflexivity).
    assert (Hxne : x <> []).
    { unfold x. destruct ids as [|i r]; [congruence|]. inversion Hids as [|? ? (A & N & L) _]; subst.
      destruct i as [|c i]; [congruence|]. destruct r; cbn [map join_comma svcb_escapify flat_map];
        destruct ((c =? 44) || (c =? 92)); discriminate. }
    replace (is_nil (escapify x)) with false.
    2:{ destruct x as [|c x']; [congruence|]. unfold escapify. cbn [flat_map]. unfold esc_octet.
        destruct (q_escaped c); [reflexivity|]. destruct ((c >=? 32) && (c <? 127)); reflexivity. }
    rewrite svcb_unescape_escapify by exact Hx. cbn [bind]. unfold x. rewrite svcb_split_join by exact Hne. cbn [bind].
    replace (existsb (fun i => is_nil i || (zlen i >? 255)) ids) with false; [reflexivity|].
    symmetry. apply not_true_is_false. intros E. apply existsb_exists in E as (i & Hi & Ei). rewrite Forall_forall in Hids.
    destruct (Hids i Hi) as (A & N & L). destruct i; [congruence|]. cbn [is_nil orb] in Ei. lia.
  - (* port *)
    destruct H as (-> & Hp). exists (dec p). split; [reflexivity|].
    split; [apply plain_qbody, decimal_plain, dec_decimal; lia|]. split; [|intros b E; discriminate].
    intros _. unfold svcb_from_value. cbn [Z.eqb orb]. rewrite py_int_dec by lia.
    replace ((p <? 0) || (p >? 65535)) with false by lia. reflexivity.
  - (* address hints *)
    destruct H as (-> & Hne & Hl). destruct (addrs_texts v6 l Hl) as (ts & E1 & F & E2).
    cbn [pval_text]. rewrite E1. cbn [bind]. exists (join_comma ts). split; [reflexivity|].
    assert (Hts : ts <> []) by (destruct l; [congruence|]; destruct ts; [cbn [map_res] in E2; discriminate|discriminate]).
    split.
    { apply safe_qbody. clear - F. induction F as [|t ts (_ & S & _) _ IH]; [reflexivity|]. destruct ts as [|t2 ts]; [exact S|].
      change (join_comma (t :: t2 :: ts)) with (t ++ [44] ++ join_comma (t2 :: ts)).
      apply safe_app; [exact S|apply safe_app; [reflexivity|exact IH]]. }
    split; [|intros b E; discriminate]. intros _. unfold svcb_from_value.
    assert (Hsp : split_on 44 (join_comma ts) [] = ts).
    { apply split_join_comma; [|exact Hts]. eapply Forall_impl; [|exact F]. intros t (A & _); exact A. }
    destruct v6; cbn [Z.eqb orb]; rewrite Hsp, E2; reflexivity.
  - (* ech *)
    destruct H as (-> & Hb). exists (b64encode b). split; [reflexivity|].
    pose proof (b64encode_plain b Hb) as P. split; [apply plain_qbody, P|]. split; [|intros b0 E; discriminate].
    intros _. unfold svcb_from_value. cbn [Z.eqb orb]. destruct (plain_facts _ P) as [N A]. rewrite N.
    rewrite utf8_ascii by exact A. cbn [bind]. rewrite b64decode_b64encode by exact Hb. reflexivity.
  - (* generic *)
    destruct H as (Hk & Hb & Hne). exists (escapify b). split; [reflexivity|]. split; [apply escapify_qbody, Hb|].
    assert (Hn : is_nil (escapify b) = false).
    { destruct b as [|c b']; [congruence|]. unfold escapify. cbn [flat_map]. unfold esc_octet.
      destruct (q_escaped c); [reflexivity|]. destruct ((c >=? 32) && (c <? 127)); reflexivity. }
    split.
    + intros [Hkn| ->]; [congruence|]. unfold svcb_from_value. cbn [Z.eqb orb]. rewrite Hn.
      rewrite svcb_unescape_escapify by exact Hb. reflexivity.
    + intros b0 E. inversion E; subst. apply svcb_unescape_escapify, Hb.
Qed.

(* ================================================================== D. one parameter in the token stream *)
Lemma get_wl_quote r : get (stq false (34 :: r)) true false = get0 (stq false (34 :: r)).
Proof. reflexivity. Qed.

Lemma split_once_none sep s : no_sep sep s = true -> split_once sep s = None.
Proof.
  induction s as [|c s IH]; intros H; [reflexivity|]. unfold no_sep in H. cbn [forallb] in H. apply andb_true_iff in H as [Hc H].
  apply negb_true_iff in Hc. cbn [split_once]. rewrite Hc. rewrite (IH H). reflexivity.
Qed.

Lemma keytext_facts k : 0 <= k <= 65535 ->
  let t := svcb_key_text k in
  t <> [] /\ forallb safe t = true /\ no_sep 61 t = true /\ svcb_unescape t = Ok t /\
  svcb_validate_key t = Ok (k, negb (named k)).
Proof.
  intros Hk. cbv zeta. destruct (key_facts k Hk) as (N & K & V). split; [exact N|].
  assert (F : forall c, In c (svcb_key_text k) -> keyc c = true) by (rewrite forallb_forall in K; exact K).
  split; [apply forallb_forall; intros c Hc; apply (keyc_facts c (F c Hc))|].
  split; [unfold no_sep; apply forallb_forall; intros c Hc; destruct (keyc_facts c (F c Hc)) as (_ & _ & E & _); rewrite E; reflexivity|].
  split; [|exact V]. apply svcb_unescape_plain. apply forallb_forall. intros c Hc. specialize (F c Hc). unfold keyc in F. lia.
Qed.

Lemma named_known k : named k = true -> svcb_known k = true \/ k = 7.
Proof.
  unfold named, svcb_keys. cbn [existsb snd]. unfold svcb_known. intros H.
  repeat (apply orb_true_iff in H as [H|H]; [apply Z.eqb_eq in H; subst; auto|]). discriminate.
Qed.

Lemma known_named k : named k = false -> svcb_known k = false.
Proof.
  unfold named, svcb_keys, svcb_known. cbn [existsb snd]. intros H.
  repeat (apply orb_false_iff in H as [? H]). repeat (apply orb_false_iff; split); try assumption; lia.
Qed.

Definition param_ok (kv : Z * pval) : Prop := 0 <= fst kv <= 65535 /\ value_ok (fst kv) (snd kv).

(* svcb_define on what the tokenizer hands over for a printed parameter *)
Lemma define_printed acc k v body : 0 <= k <= 65535 -> value_ok k v ->
  existsb (fun kv => fst kv =? k) acc = false ->
  match v with
  | PNone => svcb_define acc (svcb_key_text k) None = Ok (acc ++ [(k, v)])
  | _ => pval_text v = Ok (Some (34 :: body ++ [34])) ->
         (svcb_known k = true \/ k = 7 -> svcb_from_value k body = Ok v) ->
         (forall b, v = PGen b -> svcb_unescape body = Ok b) ->
         svcb_define acc (svcb_key_text k) (Some body) = Ok (acc ++ [(k, v)])
  end.
Proof.
  intros Hk Hv Hacc. destruct (keytext_facts k Hk) as (_ & _ & _ & U & V). unfold svcb_define. rewrite U. cbn [bind]. rewrite V.
  cbn [bind]. rewrite Hacc.
  destruct v as [|l|ids|p|v6 l|b|b]; cbn [value_ok] in Hv.
  - rewrite Hv. reflexivity.
  - intros _ F _. destruct Hv as (-> & _). cbn [named svcb_keys existsb snd Z.eqb orb negb]. rewrite F by (left; reflexivity). reflexivity.
  - intros _ F _. destruct Hv as (Hk1 & _).
    assert (Hn : named k = true) by (destruct Hk1; subst; reflexivity). rewrite Hn. cbn [negb].
    rewrite F by (left; destruct Hk1; subst; reflexivity). reflexivity.
  - intros _ F _. destruct Hv as (-> & _). cbn [named svcb_keys existsb snd Z.eqb orb negb]. rewrite F by (left; reflexivity). reflexivity.
  - intros _ F _. destruct Hv as (-> & _).
    assert (Hn : named (if v6 then 6 else 4) = true) by (destruct v6; reflexivity). rewrite Hn. cbn [negb].
    rewrite F by (left; destruct v6; reflexivity). reflexivity.
  - intros _ F _. destruct Hv as (-> & _). cbn [named svcb_keys existsb snd Z.eqb orb negb]. rewrite F by (left; reflexivity). reflexivity.
  - intros _ F G. destruct Hv as (Hkn & Hb & Hne). destruct (named k) eqn:En; cbn [negb].
    + destruct (named_known k En) as [Hc| ->]; [congruence|]. rewrite F by (right; reflexivity). reflexivity.
    + rewrite Hkn. rewrite (G b eq_refl). cbn [bind]. destruct b; [congruence|reflexivity].
Qed.

Definition ptext_shape (kv : Z * pval) (pt : list Z) : Prop := svcb_param_text kv = Ok pt.

(* one turn of the parameter loop on " " ++ the printed parameter *)
Lemma param_step f q acc kv pt rest : param_ok kv -> svcb_param_text kv = Ok pt ->
  existsb (fun x => fst x =? fst kv) acc = false ->
  (rest = [] \/ exists c r, rest = c :: r /\ is_delim false c = true) ->
  exists q', svcb_params_loop (S f) (stq q ([32] ++ pt ++ rest)) acc = svcb_params_loop f (stq q' rest) (acc ++ [kv]).
Proof.
  destruct kv as [k v]. intros (Hk & Hv) Hpt Hacc Hrest. cbn [fst snd] in *.
  destruct (keytext_facts k Hk) as (N & S & E61 & _ & _). cbv zeta in N, S, E61.
  pose proof (value_roundtrip k v Hv) as VR. pose proof (define_printed acc k v) as DP.
  unfold svcb_param_text in Hpt. cbn [fst snd] in Hpt.
  destruct v as [|l|ids|p|v6 l|b|b].
  1:{ (* key without value *)
    rewrite VR in Hpt. cbn [bind] in Hpt. inversion Hpt; subst pt. rewrite app_nil_r.
    exists false. cbn [svcb_params_loop].
    rewrite (get0_word_q q [32] (svcb_key_text k) rest eq_refl (units_safe _ S) N Hrest). cbn [bind].
    unfold is_eol_or_eof, is_identifier. cbn [ttype tvalue]. change (tIDENT =? tEOL) with false. change (tIDENT =? tEOF) with false.
    change (tIDENT =? tIDENT) with true. cbn [orb negb].
    rewrite (split_once_none 61 _ E61). rewrite (DP [] Hk Hv Hacc). reflexivity. }
  all: destruct VR as (body & Ept & Hq & F & G); rewrite Ept in Hpt; cbn [bind] in Hpt; inversion Hpt; subst pt; clear Hpt.
  all: exists true; cbn [svcb_params_loop].
  all: replace ([32] ++ (svcb_key_text k ++ 61 :: 34 :: body ++ [34]) ++ rest)
         with ([32] ++ (svcb_key_text k ++ [61]) ++ (34 :: body ++ 34 :: rest))
         by (rewrite <- !app_assoc; cbn [app]; rewrite <- !app_assoc; reflexivity).
  all: assert (S1 : forallb safe (svcb_key_text k ++ [61]) = true) by (rewrite forallb_app, S; reflexivity).
  all: rewrite (get0_word_q q [32] (svcb_key_text k ++ [61]) (34 :: body ++ 34 :: rest) eq_refl (units_safe _ S1)
                  ltac:(destruct (svcb_key_text k); discriminate)
                  ltac:(right; exists 34, (body ++ 34 :: rest); split; reflexivity)).
  all: cbn [bind]; unfold is_eol_or_eof, is_identifier; cbn [ttype tvalue].
  all: change (tIDENT =? tEOL) with false; change (tIDENT =? tEOF) with false; change (tIDENT =? tIDENT) with true; cbn [orb negb].
  all: rewrite (split_once_app 61 (svcb_key_text k) []) by exact E61.
  all: cbn [is_nil]; rewrite get_wl_quote.
  all: destruct (get0_quoted_body_q false [] body rest eq_refl Hq) as (he & EQ); cbn [app] in EQ; rewrite EQ.
  all: cbn [bind fst snd]; unfold is_quoted; cbn [ttype tvalue]; change (tQUOTED =? tQUOTED) with true; cbn [negb].
  all: rewrite (DP body Hk Hv Hacc Ept F G); reflexivity.
Qed.

(* ================================================================== E. the parameter loop *)
Lemma not_in_acc (acc : list (Z * pval)) k : ~ In k (map fst acc) -> existsb (fun x => fst x =? k) acc = false.
Proof.
  intros H. apply not_true_is_false. intros E. apply existsb_exists in E as (x & Hx & Ex). apply Z.eqb_eq in Ex.
  apply H. rewrite <- Ex. apply in_map, Hx.
Qed.

Lemma params_loop_ok ps : Forall param_ok ps -> forall pts, map_res svcb_param_text ps = Ok pts ->
  forall acc q fuel rest, line_end rest -> NoDup (map fst (acc ++ ps)) -> (length ps < fuel)%nat ->
  exists te st, is_eol_or_eof te = true /\ ungot st = Some te /\
    svcb_params_loop fuel (stq q (spaced pts ++ rest)) acc = Ok (acc ++ ps, st).
Proof.
  induction 1 as [|kv ps Hkv _ IH]; intros pts Hp acc q fuel rest Hrest Hnd Hfuel.
  - inversion Hp; subst pts. destruct fuel as [|f]; [cbn in Hfuel; lia|].
    destruct (get0_end_q q [] rest eq_refl Hrest) as (t & st & Ht & _ & _ & Hug & E). cbn [app] in E.
    cbn [spaced flat_map app svcb_params_loop]. rewrite E. cbn [bind]. rewrite Ht. unfold unget. rewrite Hug. cbn [bind].
    do 2 eexists. split; [exact Ht|]. split; [|rewrite app_nil_r; reflexivity]. reflexivity.
  - cbn [map_res] in Hp. destruct (svcb_param_text kv) as [pt| |] eqn:E1; cbn [bind] in Hp; try discriminate.
    destruct (map_res svcb_param_text ps) as [pts'| |] eqn:E2; cbn [bind] in Hp; try discriminate. inversion Hp; subst pts.
    destruct fuel as [|f]; [cbn in Hfuel; lia|]. cbn [length] in Hfuel.
    assert (Hfresh : existsb (fun x => fst x =? fst kv) acc = false).
    { apply not_in_acc. rewrite map_app in Hnd. cbn [map] in Hnd. apply NoDup_remove_2 in Hnd.
      intros Hin. apply Hnd. apply in_or_app. left. exact Hin. }
    assert (Hnext : (spaced pts' ++ rest = []) \/ exists c r, spaced pts' ++ rest = c :: r /\ is_delim false c = true).
    { destruct pts' as [|p2 pts'']; cbn [spaced flat_map app].
      - destruct Hrest as [->|[r ->]]; [left; reflexivity|right; exists 10, r; split; reflexivity].
      - right. eexists 32, _. split; reflexivity. }
    unfold spaced. cbn [flat_map]. fold (spaced pts').
    replace (((32 :: pt) ++ spaced pts') ++ rest) with ([32] ++ pt ++ (spaced pts' ++ rest))
      by (cbn [app]; rewrite <- app_assoc; reflexivity).
    destruct (param_step f q acc kv pt (spaced pts' ++ rest) Hkv E1 Hfresh Hnext) as (q' & Estep). rewrite Estep.
    destruct (IH pts' eq_refl (acc ++ [kv]) q' f rest Hrest) as (te & st & T1 & T2 & E).
    { rewrite <- app_assoc. exact Hnd. }
    { lia. }
    exists te, st. split; [exact T1|]. split; [exact T2|]. rewrite E. rewrite <- app_assoc. reflexivity.
Qed.

(* ================================================================== F. the record *)
Lemma map_res_length {A B} (f : A -> res B) l : forall r, map_res f l = Ok r -> length r = length l.
Proof.
  induction l as [|a l IH]; intros r H; cbn [map_res] in H; [inversion H; reflexivity|].
  destruct (f a); cbn [bind] in H; try discriminate. destruct (map_res f l) as [t| |]; cbn [bind] in H; try discriminate.
  inversion H; subst. cbn [length]. rewrite (IH t eq_refl). reflexivity.
Qed.

Lemma spaced_length ts : (length ts <= length (spaced ts))%nat.
Proof. induction ts as [|x l IH]; cbn [spaced flat_map length]; [lia|]. rewrite app_length. cbn [length]. unfold spaced in IH. lia. Qed.

Definition svcb_ok (p : Z) (n : name) (ps : list (Z * pval)) : Prop :=
  0 <= p <= 65535 /\ Valid n /\ AllBytes n /\ Forall param_ok ps /\ NoDup (map fst ps) /\
  (p = 0 -> ps = []) /\ svcb_ctor_ok ps = true.

(* from the state reached after the priority token *)
Theorem svcb_after_priority sty c p n n' ps tgt pts R stX :
  svcb_ok p n ps -> oAllBytes (s_origin sty) -> line_end R ->
  name_to_styled_text sty n = Ok tgt -> name_path sty c n = Ok n' -> map_res svcb_param_text ps = Ok pts ->
  get0 stX = Ok (mkTok tIDENT (dec p) false None, stq false ([32] ++ tgt ++ (spaced pts ++ R))) ->
  exists te st, is_eol_or_eof te = true /\ ungot st = Some te /\ svcb_from_text c stX = Ok (p, n', ps, st).
Proof.
  intros (Hp & V & HB & Hps & Hnd & Halias & Hctor) HO HR Etgt Enp Epts HX.
  assert (Hw : units tgt /\ tgt <> []).
  { unfold name_to_styled_text in Etgt.
    destruct (choose_relativity n (s_origin sty) (s_relativize sty)) as [n1| |] eqn:E3; cbn [bind] in Etgt; try discriminate.
    inversion Etgt; subst tgt. destruct (choose_relativity_ok _ _ _ _ V HB HO E3) as [V1 B1].
    destruct (name_text_word n1 V1 B1) as (Hu & Hne & _). split; assumption. }
  destruct Hw as [Hu Hne].
  unfold svcb_from_text.
  assert (HX' : get0 stX = Ok (mkTok tIDENT (dec p) (has_bs (dec p)) None, stq false ([32] ++ tgt ++ (spaced pts ++ R))))
    by (rewrite has_bs_safe by (apply dec_safe; lia); exact HX).
  rewrite (get_uint_from p max16 stX _ ltac:(unfold max16; lia) HX'). cbn [bind fst snd].
  rewrite (get_name_word c false [32] tgt (spaced pts ++ R) eq_refl Hu Hne (spaced_word_end pts R HR)).
  unfold utok. rewrite (as_name_printed sty c n tgt (has_bs tgt) V HB HO Etgt). rewrite Enp. cbn [bind fst snd].
  destruct (p =? 0) eqn:E0.
  - apply Z.eqb_eq in E0. rewrite (Halias E0) in *. inversion Epts; subst pts. cbn [spaced flat_map app].
    destruct (get0_end_q false [] R eq_refl HR) as (te & st & H1 & H2 & H3 & H4 & E). cbn [app] in E.
    rewrite E. cbn [bind fst snd]. rewrite H1. cbn [negb].
    destruct (eol_not_ws te H1) as [A B].
    destruct (get0_unget _ _ _ E H4 A B) as (stu & U1 & U2). rewrite U1. cbn [bind].
    unfold rem_fuel. cbn [svcb_params_loop]. rewrite U2. cbn [bind]. rewrite H1. rewrite U1. cbn [bind fst snd].
    exists te, stu. split; [exact H1|]. split; [|reflexivity].
    unfold unget in U1. rewrite H4 in U1. inversion U1. reflexivity.
  - cbn [bind].
    destruct (params_loop_ok ps Hps pts Epts [] false (rem_fuel (stq false (spaced pts ++ R))) R HR Hnd) as (te & st & T1 & T2 & E).
    { unfold rem_fuel, stq. cbn [inp pend app]. rewrite app_length. pose proof (spaced_length pts).
      rewrite (map_res_length _ _ _ Epts) in H. lia. }
    rewrite E. cbn [bind fst snd app]. rewrite Hctor. exists te, st. split; [exact T1|]. split; [exact T2|reflexivity].
Qed.
