(* C10: the simulation relation between a zone version and the flat reference store, and its
   preservation by every low-level store operation (the abstract methods of Transaction). *)
From DV Require Import Base.Prelude Model.NameM Model.TxnM.
From DV Require Import Proofs.NameValid Proofs.NameOrder Proofs.NameRel Proofs.TxnName Proofs.TxnStore.
Open Scope Z_scope.

Definition opt_node (l : node) : option node := match l with [] => None | _ => Some l end.

(* every owner of the reference store holds at most one rdataset per (type, covers), all of class IN *)
Definition swf (l : list entry) : Prop := forall a, node_wf (entries_at a l).

(* the version holds, under the validated key of every owner name, exactly the rdatasets the reference
   store holds for the absolute spelling of that owner - in the same order - and no empty node *)
Definition R (c : cfg) (v : version) (s : rstate) : Prop :=
  (forall n k a, Valid n -> validate_name c n = Ok k -> canon c n = Ok a ->
     map_get (v_nodes v) k = opt_node (entries_at a (rs_entries s)))
  /\ swf (rs_entries s)
  /\ (match v_changed v with [] => false | _ => true end) = rs_dirty s.

(* ---------------------------------------------------------------- entries *)
Lemma at_name_congr a a' e : name_eqb a a' = true -> at_name a e = at_name a' e.
Proof. intros H. unfold at_name. apply name_eqb_trans_r. exact H. Qed.

Lemma entries_at_congr a a' l : name_eqb a a' = true -> entries_at a l = entries_at a' l.
Proof.
  intros H. unfold entries_at. f_equal. apply filter_ext. intros e. apply at_name_congr. exact H.
Qed.

Lemma entries_at_filter a0 q a l :
  entries_at a (filter (fun e => negb (at_name a0 e && q (e_rds e))) l) =
  if name_eqb a0 a then filter (fun r => negb (q r)) (entries_at a l) else entries_at a l.
Proof.
  unfold entries_at. induction l as [|e l IH].
  - cbn. destruct (name_eqb a0 a); reflexivity.
  - destruct (at_name a e) eqn:Ea.
    + (* e is at a *)
      assert (at_name a0 e = name_eqb a0 a) as E0.
      { unfold at_name in *. rewrite (name_eqb_sym a0 a). rewrite (name_eqb_trans_l (e_name e) a a0 Ea). reflexivity. }
      destruct (name_eqb a0 a) eqn:E; destruct (q (e_rds e)) eqn:Q;
        repeat (cbn [filter map andb negb]; rewrite ?Ea, ?E0, ?Q); rewrite ?IH; reflexivity.
    + destruct (negb (at_name a0 e && q (e_rds e))) eqn:P;
        repeat (cbn [filter map andb negb]; rewrite ?Ea, ?P); exact IH.
Qed.

Lemma entries_at_app a l l' : entries_at a (l ++ l') = entries_at a l ++ entries_at a l'.
Proof. unfold entries_at. rewrite filter_app, map_app. reflexivity. Qed.

Lemma entries_at_single a a0 r : entries_at a [mkEntry a0 r] = if name_eqb a0 a then [r] else [].
Proof. unfold entries_at, at_name. cbn. destruct (name_eqb a0 a); reflexivity. Qed.

Lemma node_find_entries a l ty cov :
  node_find (entries_at a l) cIN ty cov =
  match find (at_key a ty cov) l with Some e => Some (e_rds e) | None => None end.
Proof.
  unfold entries_at, at_key. induction l as [|e l IH]; cbn [filter map find node_find]; [reflexivity|].
  destruct (at_name a e); cbn [andb map node_find].
  - destruct (rds_match (e_rds e) cIN ty cov); [reflexivity|exact IH].
  - exact IH.
Qed.

Lemma existsb_entries a l :
  existsb (at_name a) l = match entries_at a l with [] => false | _ => true end.
Proof.
  unfold entries_at. induction l as [|e l IH]; cbn [existsb filter map]; [reflexivity|].
  destruct (at_name a e); cbn [orb map]; [reflexivity|exact IH].
Qed.

Lemma opt_node_some l nd : opt_node l = Some nd -> l = nd /\ nd <> [].
Proof. destruct l; cbn; intros H; inversion H; subst. split; [reflexivity|discriminate]. Qed.

Lemma opt_node_none l : opt_node l = None -> l = [].
Proof. destruct l; cbn; [reflexivity|discriminate]. Qed.

Lemma opt_node_snoc l r : opt_node (l ++ [r]) = Some (l ++ [r]).
Proof. destruct l; reflexivity. Qed.

(* ---------------------------------------------------------------- reading *)
Section Low.
  Variable c : cfg.
  Hypothesis W : wfc c.

  Lemma sim_node v s n : R c v s -> Valid n -> get_node c v n = r_node c s n.
  Proof.
    intros (Hm & _ & _) Vn. unfold get_node, r_node.
    pose proof (validate_canon c n W Vn) as VC.
    destruct (validate_name c n) as [k|e|e] eqn:Ev, (canon c n) as [a|e'|e'] eqn:Ec; try contradiction; cbn [bind].
    - rewrite (Hm n k a Vn Ev Ec). unfold opt_node. destruct (entries_at a (rs_entries s)); reflexivity.
    - cbn in VC. subst. reflexivity.
    - cbn in VC. subst. reflexivity.
  Qed.

  Lemma sim_get v s n ty cov : R c v s -> Valid n -> get_rdataset c v n ty cov = r_get c s n ty cov.
  Proof.
    intros HR Vn. unfold get_rdataset. rewrite (sim_node v s n HR Vn). unfold r_node, r_get.
    destruct (canon c n) as [a|e|e]; cbn [bind]; try reflexivity.
    rewrite <- node_find_entries. destruct (entries_at a (rs_entries s)); reflexivity.
  Qed.

  Lemma sim_exists v s n : R c v s -> Valid n -> s_exists (zstore c) v n = r_exists c s n.
  Proof.
    intros HR Vn. cbn [s_exists zstore]. rewrite (sim_node v s n HR Vn). unfold r_node, r_exists.
    destruct (canon c n) as [a|e|e]; cbn [bind]; try reflexivity.
    rewrite existsb_entries. destruct (entries_at a (rs_entries s)); reflexivity.
  Qed.

  (* what a stored rdataset looks like *)
  Lemma r_get_cls s n ty cov r : r_get c s n ty cov = Ok (Some r) -> r_cls r = cIN.
  Proof.
    unfold r_get. destruct (canon c n); cbn [bind]; try discriminate.
    destruct (find _ _) eqn:F; intros H; inversion H; subst.
    apply find_some in F. destruct F as [_ F]. unfold at_key in F. apply andb_true_iff in F.
    destruct F as [_ F]. eapply rds_match_cls; eauto.
  Qed.

  (* ---------------------------------------------------------------- copy on write *)
  Lemma cow_spec v n k :
    validate_name c n = Ok k ->
    exists v1 nd,
      maybe_cow c v n = Ok (v1, nd, k) /\
      nd = match map_get (v_nodes v) k with Some x => x | None => [] end /\
      (forall k', map_get (v_nodes v1) k' = if name_eqb k k' then Some nd else map_get (v_nodes v) k') /\
      v_changed v1 <> [].
  Proof.
    intros Ev. unfold maybe_cow. rewrite Ev. cbn [bind].
    destruct (map_get (v_nodes v) k) as [nd|] eqn:G.
    - destruct (changed_has (v_changed v) k) eqn:Ch.
      + exists v, nd. repeat split; auto.
        * intros k'. destruct (name_eqb k k') eqn:E; [|reflexivity].
          rewrite <- (map_get_congr _ k k' E). exact G.
        * intros H. rewrite H in Ch. discriminate.
      + eexists _, nd. repeat split; auto.
        * intros k'. cbn [v_nodes]. apply map_get_set.
        * cbn [v_changed]. unfold changed_add. rewrite Ch. destruct (v_changed v); discriminate.
    - eexists _, []. repeat split; auto.
      + intros k'. cbn [v_nodes]. apply map_get_set.
      + cbn [v_changed]. unfold changed_add. destruct (changed_has (v_changed v) k) eqn:Ch; [|destruct (v_changed v); discriminate].
        intros H. rewrite H in Ch. discriminate.
  Qed.

  Lemma changed_ne (l : list name) : l <> [] -> (match l with [] => false | _ => true end) = true.
  Proof. destruct l; congruence. Qed.

  (* the node the version holds for an owner is the reference store's list for that owner *)
  Lemma node_is_entries v s n k a :
    R c v s -> Valid n -> validate_name c n = Ok k -> canon c n = Ok a ->
    match map_get (v_nodes v) k with Some x => x | None => [] end = entries_at a (rs_entries s).
  Proof.
    intros (Hm & _ & _) Vn Ev Ec. rewrite (Hm n k a Vn Ev Ec).
    destruct (entries_at a (rs_entries s)); reflexivity.
  Qed.

  (* ---------------------------------------------------------------- put *)
  Lemma sim_put v s n r :
    R c v s -> Valid n -> r_cls r = cIN -> res_rel (R c) (put_rdataset c v n r) (r_put c s n r).
  Proof.
    intros HR Vn Cr. unfold put_rdataset, r_put.
    pose proof (validate_canon c n W Vn) as VC.
    destruct (validate_name c n) as [k|e|e] eqn:Ev, (canon c n) as [a|e'|e'] eqn:Ec; try contradiction;
      try (unfold maybe_cow; rewrite Ev; cbn; exact VC).
    destruct VC as (KR & _).
    destruct (cow_spec v n k Ev) as (v1 & nd & -> & Hnd & Hget & Hch). cbn [bind res_rel].
    rewrite (node_is_entries v s n k a HR Vn Ev Ec) in Hnd. subst nd.
    destruct HR as (Hm & Hwf & Hd).
    set (q := fun x => rds_match x cIN (r_ty r) (r_cov r) || evicts_rds (classify_rds r) x).
    assert (forall a', entries_at a' (filter (fun e => negb (at_name a e &&
                 (rds_match (e_rds e) (r_cls r) (r_ty r) (r_cov r) || evicts (classify_rds r) e))) (rs_entries s)
                 ++ [mkEntry a r]) =
            if name_eqb a a' then node_replace (entries_at a (rs_entries s)) r else entries_at a' (rs_entries s)) as EA.
    { intros a'. rewrite entries_at_app, entries_at_single.
      rewrite (filter_ext _ (fun e => negb (at_name a e && q (e_rds e)))).
      2:{ intros e. unfold q. rewrite Cr. destruct (classify_rds r); reflexivity. }
      rewrite entries_at_filter. destruct (name_eqb a a') eqn:E.
      - rewrite <- (entries_at_congr a a' _ E).
        rewrite node_replace_filter by (auto; apply Hwf). reflexivity.
      - apply app_nil_r. }
    split; [|split].
    - intros n' k' a' Vn' Ev' Ec'. cbn [v_nodes rs_entries].
      pose proof (validate_canon c n' W Vn') as VC'. rewrite Ev', Ec' in VC'. destruct VC' as (KR' & _).
      rewrite map_get_set, Hget, EA, (key_rel_eqb c k a k' a' KR KR').
      destruct (name_eqb a a') eqn:E.
      + unfold node_replace, node_append.
        destruct (node_delete _ _ _ _); [reflexivity|].
        destruct (classify_rds r); rewrite opt_node_snoc; reflexivity.
      + apply (Hm n' k' a' Vn' Ev' Ec').
    - intros a'. cbn [rs_entries]. rewrite EA. destruct (name_eqb a a'); [|apply Hwf].
      apply node_replace_wf; [apply Hwf|exact Cr].
    - cbn [v_changed rs_dirty]. apply changed_ne. exact Hch.
  Qed.

  (* ---------------------------------------------------------------- delete one rdataset *)
  Lemma sim_del_rds v s n ty cov :
    R c v s -> Valid n -> res_rel (R c) (delete_rdataset c v n ty cov) (r_del_rds c s n ty cov).
  Proof.
    intros HR Vn. unfold delete_rdataset, r_del_rds.
    pose proof (validate_canon c n W Vn) as VC.
    destruct (validate_name c n) as [k|e|e] eqn:Ev, (canon c n) as [a|e'|e'] eqn:Ec; try contradiction;
      try (unfold maybe_cow; rewrite Ev; cbn; exact VC).
    destruct VC as (KR & _).
    destruct (cow_spec v n k Ev) as (v1 & nd & -> & Hnd & Hget & Hch). cbn [bind].
    rewrite (node_is_entries v s n k a HR Vn Ev Ec) in Hnd. subst nd.
    destruct HR as (Hm & Hwf & Hd).
    rewrite node_delete_filter by apply Hwf.
    set (nd' := filter (fun r => negb (rds_match r cIN ty cov)) (entries_at a (rs_entries s))).
    assert (forall a', entries_at a' (filter (fun e => negb (at_key a ty cov e)) (rs_entries s)) =
                       if name_eqb a a' then nd' else entries_at a' (rs_entries s)) as EA.
    { intros a'. unfold at_key.
      rewrite (entries_at_filter a (fun x => rds_match x cIN ty cov)).
      destruct (name_eqb a a') eqn:E; [|reflexivity].
      rewrite <- (entries_at_congr a a' _ E). reflexivity. }
    (* both branches of `if len(node) == 0` give the same map, observationally *)
    assert (exists m, (match nd' with
                       | [] => do m <- map_del (v_nodes v1) k; Ok (mkVer m (v_changed v1))
                       | _ => Ok (mkVer (map_set (v_nodes v1) k nd') (v_changed v1))
                       end) = Ok (mkVer m (v_changed v1)) /\
                      forall k', map_get m k' = if name_eqb k k' then opt_node nd' else map_get (v_nodes v) k') as (m & -> & Hm').
    { destruct nd' as [|x nd2] eqn:End.
      - unfold map_del, map_has. rewrite Hget, name_eqb_refl. cbn [bind].
        eexists. split; [reflexivity|]. intros k'. rewrite map_get_remove, Hget.
        destruct (name_eqb k k'); reflexivity.
      - eexists. split; [reflexivity|]. intros k'. rewrite map_get_set, Hget.
        destruct (name_eqb k k'); reflexivity. }
    cbn [res_rel]. split; [|split].
    - intros n' k' a' Vn' Ev' Ec'. cbn [v_nodes rs_entries].
      pose proof (validate_canon c n' W Vn') as VC'. rewrite Ev', Ec' in VC'. destruct VC' as (KR' & _).
      rewrite Hm', EA, (key_rel_eqb c k a k' a' KR KR').
      destruct (name_eqb a a'); [reflexivity|apply (Hm n' k' a' Vn' Ev' Ec')].
    - intros a'. cbn [rs_entries]. rewrite EA. destruct (name_eqb a a'); [|apply Hwf].
      apply node_wf_filter, Hwf.
    - cbn [v_changed rs_dirty]. apply changed_ne. exact Hch.
  Qed.

  (* ---------------------------------------------------------------- delete a whole name *)
  Lemma sim_del_name v s n :
    R c v s -> Valid n -> res_rel (R c) (delete_node c v n) (r_del_name c s n).
  Proof.
    intros HR Vn. unfold delete_node, r_del_name.
    pose proof (validate_canon c n W Vn) as VC.
    destruct (validate_name c n) as [k|e|e] eqn:Ev, (canon c n) as [a|e'|e'] eqn:Ec; try contradiction;
      try (cbn; exact VC).
    destruct VC as (KR & _). cbn [bind].
    pose proof HR as (Hm & Hwf & Hd).
    unfold map_has. rewrite (Hm n k a Vn Ev Ec), existsb_entries.
    destruct (entries_at a (rs_entries s)) as [|x nd] eqn:En; cbn [opt_node res_rel]; [exact HR|].
    assert (forall a', entries_at a' (filter (fun e => negb (at_name a e)) (rs_entries s)) =
                       if name_eqb a a' then [] else entries_at a' (rs_entries s)) as EA.
    { intros a'.
      transitivity (entries_at a' (filter (fun e => negb (at_name a e && (fun _ : rds => true) (e_rds e))) (rs_entries s))).
      { f_equal. apply filter_ext. intros e. rewrite andb_true_r. reflexivity. }
      rewrite (entries_at_filter a (fun _ : rds => true) a' (rs_entries s)). destruct (name_eqb a a'); [|reflexivity].
      cbn. induction (entries_at a' (rs_entries s)); cbn; auto. }
    split; [|split].
    - intros n' k' a' Vn' Ev' Ec'. cbn [v_nodes rs_entries].
      pose proof (validate_canon c n' W Vn') as VC'. rewrite Ev', Ec' in VC'. destruct VC' as (KR' & _).
      rewrite map_get_remove, EA, (key_rel_eqb c k a k' a' KR KR').
      destruct (name_eqb a a'); [reflexivity|apply (Hm n' k' a' Vn' Ev' Ec')].
    - intros a'. cbn [rs_entries]. rewrite EA. destruct (name_eqb a a'); [apply node_wf_nil|apply Hwf].
    - cbn [v_changed rs_dirty]. apply changed_ne. unfold changed_add.
      destruct (changed_has _ _) eqn:Ch; [intros H; rewrite H in Ch; discriminate|destruct (v_changed v); discriminate].
  Qed.

  (* ---------------------------------------------------------------- begin / publish *)
  (* published states: a node map and a reference list denote the same zone *)
  Definition RP (z : nmap) (l : list entry) : Prop := R c (mkVer z []) (mkRst l false).

  Lemma RP_nil : RP [] [].
  Proof.
    split; [|split]; cbn; auto.
    intros a. apply node_wf_nil.
  Qed.

  Lemma sim_begin z l b : RP z l -> R c (s_begin (zstore c) z b) (s_begin (rstore c) l b).
  Proof.
    intros H. cbn [s_begin zstore rstore]. destruct b; [apply RP_nil|exact H].
  Qed.

  Lemma sim_publish v s : R c v s -> RP (s_publish (zstore c) v) (s_publish (rstore c) s).
  Proof.
    intros (Hm & Hwf & _). split; [|split]; cbn; auto.
  Qed.

  Lemma sim_changed v s : R c v s -> s_changed (zstore c) v = s_changed (rstore c) s.
  Proof. intros (_ & _ & H). exact H. Qed.
End Low.
