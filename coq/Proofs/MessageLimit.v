(* The size limit of Message.to_wire: the rendering depends on max_size / request_payload only through
   the effective limit; without prefer_truncation the result at another limit is the same octets or
   TooBig, decided by the length alone (no TSIG, no padding), and always the same at a larger limit. *)
From DV Require Import Base.Prelude Model.NameM Model.MessageM.
From DV Require Import Proofs.NameOrder Proofs.NameValid Proofs.NameRel Proofs.NameWire Proofs.NameCompress.
From DV Require Import Proofs.MessageName Proofs.MessageRender Proofs.MessageRead Proofs.MessageRoundtrip Proofs.MessageRoundtrip2.
From DV Require Import Proofs.MessageSize Proofs.MessagePad Proofs.MessageTrunc Proofs.MessageRoundtrip3 Proofs.MessageTruncParse Proofs.MessageUpdate.
Open Scope Z_scope.

(* ---------- max_size = 0, request_payload, the clamp ---------- *)
Definition clamp (x : Z) : Z := if x <? 512 then 512 else if x >? 65535 then 65535 else x.

Lemma eff_limit_clamp ms rp :
  eff_limit ms rp = clamp (if ms =? 0 then (if rp =? 0 then 65535 else rp) else ms).
Proof. reflexivity. Qed.

Lemma to_wire_eff m o ms rp ms' rp' pf pad :
  eff_limit ms rp = eff_limit ms' rp' -> to_wire m o ms rp pf pad = to_wire m o ms' rp' pf pad.
Proof. intros H. unfold to_wire, to_wire_st. rewrite H. reflexivity. Qed.

Lemma clamp_idem x : clamp (clamp x) = clamp x.
Proof.
  unfold clamp. destruct (Z.ltb_spec x 512); [reflexivity|].
  destruct (Z.gtb_spec x 65535); [reflexivity|].
  destruct (Z.ltb_spec x 512); [lia|]. destruct (Z.gtb_spec x 65535); [lia|reflexivity].
Qed.

Lemma clamp_nz x : (clamp x =? 0) = false.
Proof. apply Z.eqb_neq. unfold clamp. destruct (Z.ltb_spec x 512); [lia|]. destruct (Z.gtb_spec x 65535); lia. Qed.

(* Message.to_wire(max_size=0) uses the request payload, else 65535; limits below 512 / above 65535 are
   clamped; the payload advertised by the message's own OPT record plays no role *)
Theorem limit_defaulting_lemma m o ms rp pf pad :
  to_wire m o ms rp pf pad =
  to_wire m o (clamp (if ms =? 0 then (if rp =? 0 then 65535 else rp) else ms)) 0 pf pad.
Proof.
  apply to_wire_eff. rewrite !eff_limit_clamp. rewrite clamp_nz. rewrite clamp_idem. reflexivity.
Qed.

(* ---------- the same run under another limit ---------- *)
Definition wm (r : rst) (x : Z) : rst := set_limits r x (reserved r).

Lemma tracked_reserved E sec n a b a' : tracked E sec n a = Ok (b, a') -> reserved a' = reserved a.
Proof.
  unfold tracked. intros H. apply bind_ok in H. destruct H as (r1 & S & H).
  apply set_section_spec in S. destruct S as (-> & _). cbn [out tbl set_rsec] in H.
  apply bind_ok in H. destruct H as ([em t'] & HE & H). cbn [fst snd] in H.
  unfold track_end in H. destruct (_ >? _); injection H as <- <-; reflexivity.
Qed.

Lemma tracked_out E sec n a b a' : tracked E sec n a = Ok (b, a') -> zlen (out a) <= zlen (out a').
Proof.
  unfold tracked. intros H. apply bind_ok in H. destruct H as (r1 & S & H).
  apply set_section_spec in S. destruct S as (-> & _). cbn [out tbl set_rsec] in H.
  apply bind_ok in H. destruct H as ([em t'] & HE & H). cbn [fst snd] in H.
  unfold track_end in H. cbn [out maxsz set_out set_rsec] in H.
  destruct (zlen (out a ++ em) >? maxsz a).
  - injection H as <- <-. unfold rollback. cbn [out set_out]. rewrite firstn_zlen_app. lia.
  - injection H as <- <-. cbn [out inc_count set_out]. rewrite zlen_app'. pose proof (zlen_nn em). lia.
Qed.

Lemma tracked_wm E sec n a a' x :
  tracked E sec n a = Ok (false, a') ->
  (zlen (out a') <= x -> tracked E sec n (wm a x) = Ok (false, wm a' x)) /\
  (x < zlen (out a') -> exists r, tracked E sec n (wm a x) = Ok (true, r)).
Proof.
  unfold tracked. intros H. apply bind_ok in H. destruct H as (r1 & S & H).
  assert (S' : set_section sec (wm a x) = Ok (wm r1 x) /\ out r1 = out a /\ tbl r1 = tbl a /\ maxsz r1 = maxsz a).
  { unfold set_section in *. cbn [rsec wm set_limits]. destruct (rsec a =? sec); [injection S as <-; auto|].
    destruct (rsec a >? sec); [discriminate|]. injection S as <-. auto. }
  destruct S' as (S' & O1 & T1 & M1). rewrite S'. cbn [bind]. cbn [out tbl wm set_limits].
  apply bind_ok in H. destruct H as ([em t'] & HE & H). cbn [fst snd] in H. rewrite HE. cbn [bind fst snd].
  unfold track_end in *. unfold wm. cbn [out maxsz reserved set_out set_limits] in *.
  destruct (zlen (out r1 ++ em) >? maxsz r1); [discriminate|]. injection H as <-.
  cbn [out inc_count set_out]. split; intros Hx.
  - destruct (Z.gtb_spec (zlen (out r1 ++ em)) x); [lia|]. reflexivity.
  - destruct (Z.gtb_spec (zlen (out r1 ++ em)) x); [|lia]. eexists. reflexivity.
Qed.

Lemma add_rrsets_wm o sec : forall l a a' x,
  add_rrsets o sec l a = Ok (false, a') ->
  reserved a' = reserved a /\ zlen (out a) <= zlen (out a') /\
  (zlen (out a') <= x -> add_rrsets o sec l (wm a x) = Ok (false, wm a' x)) /\
  (zlen (out a) <= x < zlen (out a') -> exists r, add_rrsets o sec l (wm a x) = Ok (true, r)).
Proof.
  induction l as [|rs l IH]; intros a a' x H.
  - injection H as <-. split; [reflexivity|]. split; [lia|]. split; [reflexivity|intros; lia].
  - cbn [add_rrsets] in *. apply bind_ok in H. destruct H as ([b1 a1] & H1 & H). cbn [fst snd] in H.
    destruct b1; [discriminate|]. rewrite add_rrset_tracked in *.
    pose proof (tracked_out _ _ _ _ _ _ H1) as M1. pose proof (tracked_reserved _ _ _ _ _ _ H1) as V1.
    destruct (tracked_wm _ _ _ _ _ x H1) as (T1 & T2).
    destruct (IH a1 a' x H) as (V2 & M2 & I1 & I2).
    split; [congruence|]. split; [lia|]. split.
    + intros Hx. rewrite T1 by lia. cbn [bind fst snd]. apply I1. exact Hx.
    + intros Hx. destruct (Z.le_gt_cases (zlen (out a1)) x) as [L|L].
      * rewrite T1 by exact L. cbn [bind fst snd]. apply I2. lia.
      * destruct (T2 ltac:(lia)) as (r & Hr). rewrite Hr. cbn [bind fst snd]. eauto.
Qed.

Lemma add_questions_wm o : forall l a a' x,
  add_questions o l a = Ok (false, a') ->
  reserved a' = reserved a /\ zlen (out a) <= zlen (out a') /\
  (zlen (out a') <= x -> add_questions o l (wm a x) = Ok (false, wm a' x)) /\
  (zlen (out a) <= x < zlen (out a') -> exists r, add_questions o l (wm a x) = Ok (true, r)).
Proof.
  induction l as [|rs l IH]; intros a a' x H.
  - injection H as <-. split; [reflexivity|]. split; [lia|]. split; [reflexivity|intros; lia].
  - cbn [add_questions] in *. apply bind_ok in H. destruct H as ([b1 a1] & H1 & H). cbn [fst snd] in H.
    destruct b1; [discriminate|]. rewrite add_question_tracked in *.
    pose proof (tracked_out _ _ _ _ _ _ H1) as M1. pose proof (tracked_reserved _ _ _ _ _ _ H1) as V1.
    destruct (tracked_wm _ _ _ _ _ x H1) as (T1 & T2).
    destruct (IH a1 a' x H) as (V2 & M2 & I1 & I2).
    split; [congruence|]. split; [lia|]. split.
    + intros Hx. rewrite T1 by lia. cbn [bind fst snd]. apply I1. exact Hx.
    + intros Hx. destruct (Z.le_gt_cases (zlen (out a1)) x) as [L|L].
      * rewrite T1 by exact L. cbn [bind fst snd]. apply I2. lia.
      * destruct (T2 ltac:(lia)) as (r & Hr). rewrite Hr. cbn [bind fst snd]. eauto.
Qed.

(* ---------- reserve / release / header under another limit ---------- *)
Lemma reserve_wm size a a1 x :
  reserve size a = Ok a1 -> size <= x -> reserve size (wm a x) = Ok (wm a1 (x - size)) /\ reserved a1 = reserved a + size.
Proof.
  unfold reserve. destruct (Z.ltb_spec size 0) as [Hneg|Hpos]; [discriminate|].
  destruct (size >? maxsz a); [discriminate|]. intros HH Hx. injection HH as <-.
  unfold wm. cbn [maxsz reserved set_limits]. destruct (Z.gtb_spec size x); [lia|]. split; reflexivity.
Qed.

Lemma write_header_wm id a a' x : write_header id a = Ok a' -> write_header id (wm a x) = Ok (wm a' x).
Proof.
  unfold write_header. cbn [wm set_limits rflags cq can cau cad out tbl].
  destruct (pack16 id); cbn [bind]; try discriminate.
  destruct (pack16 (rflags a)); cbn [bind]; try discriminate.
  destruct (pack16 (cq a)); cbn [bind]; try discriminate.
  destruct (pack16 (can a)); cbn [bind]; try discriminate.
  destruct (pack16 (cau a)); cbn [bind]; try discriminate.
  destruct (pack16 (cad a)); cbn [bind]; try discriminate.
  intros H. injection H as <-. reflexivity.
Qed.

(* ---------- Message.to_wire up to the end of the section loops ---------- *)
Definition body4 (m : msg) (o : option name) (e : Z) (pad : Z) : res (Z * rst) :=
  let r0 := mkRst (repeat 0 12) [] 0 0 0 0 0 (mflags m) e 0 false in
  do r1 <- reserve (compute_opt_reserve m pad) r0;
  do tr <- compute_tsig_reserve m;
  do r2 <- reserve tr r1;
  do b1 <- add_questions o (mq m) r2;
  do b2 <- (if fst b1 then Ok b1 else add_rrsets o 1 (man m) (snd b1));
  do b3 <- (if fst b2 then Ok b2 else add_rrsets o 2 (mau m) (snd b2));
  do b4 <- (if fst b3 then Ok b3 else add_rrsets o 3 (mad m) (snd b3));
  if fst b4 then Lib eTooBig else Ok (tr, snd b4).

Lemma to_wire_st_body4 m o ms rp pad :
  to_wire_st m o ms rp false pad =
  do ts <- body4 m o (eff_limit ms rp) pad; finish m o pad (compute_opt_reserve m pad) (fst ts) (snd ts).
Proof.
  unfold to_wire_st, body4, finish.
  destruct (reserve _ _) as [r1| |]; cbn [bind]; try reflexivity.
  destruct (compute_tsig_reserve m) as [tr| |]; cbn [bind]; try reflexivity.
  destruct (reserve tr r1) as [r2| |]; cbn [bind]; try reflexivity.
  destruct (add_questions o (mq m) r2) as [[b1 s1]| |]; cbn [bind fst snd]; try reflexivity.
  destruct (if b1 then _ else _) as [[b2 s2]| |]; cbn [bind fst snd]; try reflexivity.
  destruct (if b2 then _ else _) as [[b3 s3]| |]; cbn [bind fst snd]; try reflexivity.
  destruct (if b3 then _ else _) as [[b4 s4]| |]; cbn [bind fst snd]; try reflexivity.
  destruct b4; cbn [bind fst snd]; reflexivity.
Qed.

Lemma body4_wm m o e e' pad tr s4 :
  body4 m o e pad = Ok (tr, s4) ->
  compute_opt_reserve m pad <= e' -> tr <= e' - compute_opt_reserve m pad ->
  let x := e' - compute_opt_reserve m pad - tr in
  reserved s4 = compute_opt_reserve m pad + tr /\ 12 <= zlen (out s4) /\
  (zlen (out s4) <= x -> body4 m o e' pad = Ok (tr, wm s4 x)) /\
  (12 <= x < zlen (out s4) -> body4 m o e' pad = Lib eTooBig).
Proof.
  intros H C1 C2 x. unfold body4 in *.
  set (ores := compute_opt_reserve m pad) in *.
  set (r0 := mkRst (repeat 0 12) [] 0 0 0 0 0 (mflags m) e 0 false) in *.
  change (mkRst (repeat 0 12) [] 0 0 0 0 0 (mflags m) e' 0 false) with (wm r0 e').
  apply bind_ok in H. destruct H as (r1 & R1 & H).
  apply bind_ok in H. destruct H as (tr' & TR & H).
  apply bind_ok in H. destruct H as (r2 & R2 & H).
  apply bind_ok in H. destruct H as ([b1 s1] & S1 & H). cbn [fst snd] in H.
  apply bind_ok in H. destruct H as ([b2 s2] & S2 & H). cbn [fst snd] in H.
  apply bind_ok in H. destruct H as ([b3 s3] & S3 & H). cbn [fst snd] in H.
  apply bind_ok in H. destruct H as ([b4 s4'] & S4 & H). cbn [fst snd] in H.
  destruct b4; [discriminate|]. injection H as -> <-.
  destruct b3; [injection S4 as ?; discriminate|]. destruct b2; [injection S3 as ?; discriminate|].
  destruct b1; [injection S2 as ?; discriminate|].
  destruct (reserve_wm _ _ _ e' R1 C1) as (R1' & V1). fold ores in R1'.
  destruct (reserve_wm _ _ _ (e' - ores) R2 C2) as (R2' & V2). fold x in R2'.
  rewrite R1'. cbn [bind]. rewrite TR. cbn [bind]. rewrite R2'. cbn [bind].
  destruct (add_questions_wm o _ _ _ x S1) as (W1 & N1 & Q1 & Q1').
  destruct (add_rrsets_wm o 1 _ _ _ x S2) as (W2 & N2 & Q2 & Q2').
  destruct (add_rrsets_wm o 2 _ _ _ x S3) as (W3 & N3 & Q3 & Q3').
  destruct (add_rrsets_wm o 3 _ _ _ x S4) as (W4 & N4 & Q4 & Q4').
  assert (O2 : zlen (out r2) = 12).
  { apply reserve_spec in R1. apply reserve_spec in R2. destruct R1 as (A & _). destruct R2 as (B & _).
    rewrite B, A. reflexivity. }
  split; [rewrite W4, W3, W2, W1, V2, V1; reflexivity|]. split; [lia|]. split.
  - intros Hx. rewrite Q1 by lia. cbn [bind fst snd]. rewrite Q2 by lia. cbn [bind fst snd].
    rewrite Q3 by lia. cbn [bind fst snd]. rewrite Q4 by lia. reflexivity.
  - intros Hx.
    destruct (Z.le_gt_cases (zlen (out s1)) x) as [L1|L1];
      [|destruct (Q1' ltac:(lia)) as (q & ->); reflexivity].
    rewrite Q1 by exact L1. cbn [bind fst snd].
    destruct (Z.le_gt_cases (zlen (out s2)) x) as [L2|L2];
      [|destruct (Q2' ltac:(lia)) as (q & ->); reflexivity].
    rewrite Q2 by exact L2. cbn [bind fst snd].
    destruct (Z.le_gt_cases (zlen (out s3)) x) as [L3|L3];
      [|destruct (Q3' ltac:(lia)) as (q & ->); reflexivity].
    rewrite Q3 by exact L3. cbn [bind fst snd].
    destruct (Q4' ltac:(lia)) as (q & ->). reflexivity.
Qed.

(* ---------- the rest of Message.to_wire (release, OPT, header, TSIG, header) ---------- *)
Lemma pad_st_wm a pad x : pad_st (wm a x) pad = wm (pad_st a pad) x.
Proof. unfold pad_st. destruct (pad =? 0); reflexivity. Qed.

Lemma finish_wm m o pad ores tr s4 r x e' :
  finish m o pad ores tr s4 = Ok r -> x + reserved s4 = e' -> 12 <= zlen (out s4) -> zlen (out r) <= e' ->
  finish m o pad ores tr (wm s4 x) = Ok (wm r e').
Proof.
  intros H HX H12 HL. unfold finish in *.
  assert (RL : release_reserved (wm s4 x) = wm (release_reserved s4) e').
  { unfold release_reserved, wm. cbn [maxsz reserved set_limits]. rewrite HX. reflexivity. }
  rewrite RL. set (r4 := release_reserved s4) in *.
  assert (O4 : out r4 = out s4) by reflexivity.
  apply bind_ok in H. destruct H as (r5 & R5 & H).
  apply bind_ok in H. destruct H as (r6 & R6 & H).
  (* lengths: out r4 <= out r5 = out r6 <= out r *)
  assert (L5 : zlen (out r4) <= zlen (out r5)).
  { destruct (mopt m) as [oo|]; [|injection R5 as <-; lia].
    apply bind_ok in R5. destruct R5 as ([b5 s5] & A5 & R5). unfold raise_if_big in R5. cbn [fst snd] in R5.
    destruct b5; [discriminate|]. injection R5 as <-.
    rewrite add_opt_pad in A5. unfold add_opt in A5. cbn [Z.eqb] in A5.
    apply bind_ok in A5. destruct A5 as (rs & _ & A5). rewrite add_rrset_tracked in A5.
    apply tracked_out in A5. destruct (pad_st_fields r4 pad) as (Po & _). rewrite Po in A5. exact A5. }
  rewrite O4 in L5.
  assert (H125 : 12 <= zlen (out r5)) by lia.
  assert (L6 : zlen (out r6) = zlen (out r5)).
  { apply (write_header_spec _ _ _ H125 R6). }
  assert (L7 : zlen (out r6) <= zlen (out r)).
  { destruct (mtsig m) as [[kn rd]|]; [|injection H as <-; lia].
    apply bind_ok in H. destruct H as ([b7 s7] & A7 & H). apply bind_ok in H. destruct H as (r7 & R7 & H).
    unfold raise_if_big in R7. cbn [fst snd] in R7. destruct b7; [discriminate|]. injection R7 as <-.
    rewrite write_tsig_eq in A7. apply bind_ok in A7. destruct A7 as ([b8 s8] & A8 & A7). cbn [fst snd] in A7.
    destruct b8; [discriminate|]. apply bind_ok in A7. destruct A7 as (c & _ & A7). injection A7 as <-.
    apply tracked_out in A8.
    assert (P8 : zlen (patch16 (out s8) 10 (cad s8)) = zlen (out s8)) by (apply zlen_patch16; lia).
    assert (H128 : 12 <= zlen (out (set_out s8 (patch16 (out s8) 10 (cad s8)) (tbl s8)))) by (cbn [out set_out]; lia).
    destruct (write_header_spec _ _ _ H128 H) as (E8 & _). cbn [out set_out] in E8. lia. }
  (* the OPT record *)
  assert (R5' : match mopt m with
                | Some o0 => do br <- add_opt o o0 pad ores tr (wm r4 e'); raise_if_big br
                | None => Ok (wm r4 e')
                end = Ok (wm r5 e')).
  { destruct (mopt m) as [oo|]; [|injection R5 as <-; reflexivity].
    apply bind_ok in R5. destruct R5 as ([b5 s5] & A5 & R5). unfold raise_if_big in R5. cbn [fst snd] in R5.
    destruct b5; [discriminate|]. injection R5 as <-.
    rewrite add_opt_pad in A5 |- *. rewrite pad_st_wm. cbn [out wm set_limits].
    unfold add_opt in A5 |- *. cbn [Z.eqb] in A5 |- *.
    apply bind_ok in A5. destruct A5 as (rs & HRS & A5). rewrite HRS. cbn [bind].
    rewrite add_rrset_tracked in A5 |- *.
    destruct (tracked_wm _ _ _ _ _ e' A5) as (T1 & _). rewrite T1 by lia. reflexivity. }
  rewrite R5'. cbn [bind]. rewrite (write_header_wm _ _ _ e' R6). cbn [bind].
  destruct (mtsig m) as [[kn rd]|]; [|injection H as <-; reflexivity].
  apply bind_ok in H. destruct H as ([b7 s7] & A7 & H). apply bind_ok in H. destruct H as (r7 & R7 & H).
  unfold raise_if_big in R7. cbn [fst snd] in R7. destruct b7; [discriminate|]. injection R7 as <-.
  rewrite write_tsig_eq in A7 |- *. cbn [padded wm set_limits].
  apply bind_ok in A7. destruct A7 as ([b8 s8] & A8 & A7). cbn [fst snd] in A7.
  destruct b8; [discriminate|]. apply bind_ok in A7. destruct A7 as (c & PC & A7). injection A7 as <-.
  assert (L8 : zlen (out s8) <= e').
  { pose proof (tracked_out _ _ _ _ _ _ A8) as G8.
    assert (P8 : zlen (patch16 (out s8) 10 (cad s8)) = zlen (out s8)) by (apply zlen_patch16; lia).
    assert (H128 : 12 <= zlen (out (set_out s8 (patch16 (out s8) 10 (cad s8)) (tbl s8)))) by (cbn [out set_out]; lia).
    destruct (write_header_spec _ _ _ H128 H) as (E8 & _). cbn [out set_out] in E8. lia. }
  destruct (tracked_wm _ _ _ _ _ e' A8) as (T8 & _). rewrite T8 by exact L8. cbn [bind fst snd].
  cbn [cad wm set_limits]. rewrite PC. cbn [bind]. unfold raise_if_big. cbn [fst snd bind].
  change (set_out (wm s8 e') (patch16 (out (wm s8 e')) 10 (cad s8)) (tbl (wm s8 e')))
    with (wm (set_out s8 (patch16 (out s8) 10 (cad s8)) (tbl s8)) e').
  apply write_header_wm. exact H.
Qed.

(* ---------- a larger limit: every write that fitted still fits ---------- *)
Lemma tracked_mono E sec n a a' x :
  tracked E sec n a = Ok (false, a') -> maxsz a <= x ->
  tracked E sec n (wm a x) = Ok (false, wm a' x) /\ maxsz a' = maxsz a.
Proof.
  unfold tracked. intros H Hx. apply bind_ok in H. destruct H as (r1 & S & H).
  assert (S' : set_section sec (wm a x) = Ok (wm r1 x) /\ out r1 = out a /\ tbl r1 = tbl a /\ maxsz r1 = maxsz a).
  { unfold set_section in *. cbn [rsec wm set_limits]. destruct (rsec a =? sec); [injection S as <-; auto|].
    destruct (rsec a >? sec); [discriminate|]. injection S as <-. auto. }
  destruct S' as (S' & O1 & T1 & M1). rewrite S'. cbn [bind]. cbn [out tbl wm set_limits].
  apply bind_ok in H. destruct H as ([em t'] & HE & H). cbn [fst snd] in H. rewrite HE. cbn [bind fst snd].
  unfold track_end in *. unfold wm. cbn [out maxsz reserved set_out set_limits] in *.
  destruct (Z.gtb_spec (zlen (out r1 ++ em)) (maxsz r1)); [discriminate|]. injection H as <-.
  cbn [out maxsz inc_count set_out]. split; [|exact M1].
  destruct (Z.gtb_spec (zlen (out r1 ++ em)) x); [lia|]. reflexivity.
Qed.

Lemma add_rrsets_mono o sec : forall l a a' x,
  add_rrsets o sec l a = Ok (false, a') -> maxsz a <= x -> add_rrsets o sec l (wm a x) = Ok (false, wm a' x) /\ maxsz a' = maxsz a.
Proof.
  induction l as [|rs l IH]; intros a a' x H Hx.
  - injection H as <-. split; reflexivity.
  - cbn [add_rrsets] in *. apply bind_ok in H. destruct H as ([b1 a1] & H1 & H). cbn [fst snd] in H.
    destruct b1; [discriminate|]. rewrite add_rrset_tracked in *.
    destruct (tracked_mono _ _ _ _ _ x H1 Hx) as (T1 & M1). rewrite T1. cbn [bind fst snd].
    destruct (IH a1 a' x H ltac:(lia)) as (I1 & I2). split; [exact I1|lia].
Qed.

Lemma add_questions_mono o : forall l a a' x,
  add_questions o l a = Ok (false, a') -> maxsz a <= x -> add_questions o l (wm a x) = Ok (false, wm a' x) /\ maxsz a' = maxsz a.
Proof.
  induction l as [|rs l IH]; intros a a' x H Hx.
  - injection H as <-. split; reflexivity.
  - cbn [add_questions] in *. apply bind_ok in H. destruct H as ([b1 a1] & H1 & H). cbn [fst snd] in H.
    destruct b1; [discriminate|]. rewrite add_question_tracked in *.
    destruct (tracked_mono _ _ _ _ _ x H1 Hx) as (T1 & M1). rewrite T1. cbn [bind fst snd].
    destruct (IH a1 a' x H ltac:(lia)) as (I1 & I2). split; [exact I1|lia].
Qed.

Lemma reserve_le size a a1 : reserve size a = Ok a1 -> 0 <= size <= maxsz a /\ maxsz a1 = maxsz a - size.
Proof.
  unfold reserve. destruct (Z.ltb_spec size 0); [discriminate|].
  destruct (Z.gtb_spec size (maxsz a)); [discriminate|]. intros H'. injection H' as <-. cbn. lia.
Qed.

Lemma body4_mono m o e e' pad tr s4 :
  body4 m o e pad = Ok (tr, s4) -> e <= e' ->
  body4 m o e' pad = Ok (tr, wm s4 (e' - compute_opt_reserve m pad - tr)) /\
  reserved s4 = compute_opt_reserve m pad + tr /\ 12 <= zlen (out s4).
Proof.
  intros H Hle. unfold body4 in *.
  set (ores := compute_opt_reserve m pad) in *.
  set (r0 := mkRst (repeat 0 12) [] 0 0 0 0 0 (mflags m) e 0 false) in *.
  change (mkRst (repeat 0 12) [] 0 0 0 0 0 (mflags m) e' 0 false) with (wm r0 e').
  apply bind_ok in H. destruct H as (r1 & R1 & H).
  apply bind_ok in H. destruct H as (tr' & TR & H).
  apply bind_ok in H. destruct H as (r2 & R2 & H).
  apply bind_ok in H. destruct H as ([b1 s1] & S1 & H). cbn [fst snd] in H.
  apply bind_ok in H. destruct H as ([b2 s2] & S2 & H). cbn [fst snd] in H.
  apply bind_ok in H. destruct H as ([b3 s3] & S3 & H). cbn [fst snd] in H.
  apply bind_ok in H. destruct H as ([b4 s4'] & S4 & H). cbn [fst snd] in H.
  destruct b4; [discriminate|]. injection H as -> <-.
  destruct b3; [injection S4 as ?; discriminate|]. destruct b2; [injection S3 as ?; discriminate|].
  destruct b1; [injection S2 as ?; discriminate|].
  destruct (reserve_le _ _ _ R1) as (B1 & M1). destruct (reserve_le _ _ _ R2) as (B2 & M2).
  cbn [maxsz r0] in B1, M1.
  destruct (reserve_wm _ _ _ e' R1 ltac:(lia)) as (R1' & V1). fold ores in R1'.
  destruct (reserve_wm _ _ _ (e' - ores) R2 ltac:(lia)) as (R2' & V2).
  rewrite R1'. cbn [bind]. rewrite TR. cbn [bind]. rewrite R2'. cbn [bind].
  set (x := e' - ores - tr).
  destruct (add_questions_mono o _ _ _ x S1 ltac:(lia)) as (Q1 & N1). rewrite Q1. cbn [bind fst snd].
  destruct (add_rrsets_mono o 1 _ _ _ x S2 ltac:(lia)) as (Q2 & N2). rewrite Q2. cbn [bind fst snd].
  destruct (add_rrsets_mono o 2 _ _ _ x S3 ltac:(lia)) as (Q3 & N3). rewrite Q3. cbn [bind fst snd].
  destruct (add_rrsets_mono o 3 _ _ _ x S4 ltac:(lia)) as (Q4 & N4). rewrite Q4. cbn [bind fst snd].
  split; [reflexivity|].
  destruct (add_questions_wm o _ _ _ 0 S1) as (W1 & G1 & _).
  destruct (add_rrsets_wm o 1 _ _ _ 0 S2) as (W2 & G2 & _).
  destruct (add_rrsets_wm o 2 _ _ _ 0 S3) as (W3 & G3 & _).
  destruct (add_rrsets_wm o 3 _ _ _ 0 S4) as (W4 & G4 & _).
  assert (O2 : zlen (out r2) = 12).
  { apply reserve_spec in R1. apply reserve_spec in R2. destruct R1 as (A & _). destruct R2 as (B & _).
    rewrite B, A. reflexivity. }
  split; [rewrite W4, W3, W2, W1, V2, V1; reflexivity|lia].
Qed.

(* without prefer_truncation a rendering that succeeds at one limit is the rendering at every larger limit *)
Theorem limit_monotone_lemma m o ms rp ms' rp' pad w :
  to_wire m o ms rp false pad = Ok w -> eff_limit ms rp <= eff_limit ms' rp' ->
  to_wire m o ms' rp' false pad = Ok w.
Proof.
  intros H Hle. pose proof (size_bound_lemma _ _ _ _ _ _ _ H) as SB.
  unfold to_wire in *. apply bind_ok in H. destruct H as (r & HR & H). injection H as <-.
  rewrite to_wire_st_body4 in *. apply bind_ok in HR. destruct HR as ([tr s4] & B4 & FIN). cbn [fst snd] in FIN.
  destruct (body4_mono _ _ _ _ _ _ _ B4 Hle) as (B4' & V4 & H12).
  rewrite B4'. cbn [bind fst snd].
  rewrite (finish_wm _ _ _ _ _ _ _ _ (eff_limit ms' rp') FIN); [reflexivity|lia|exact H12|lia].
Qed.

(* ---------- the exact TooBig condition (no TSIG record, no padding) ---------- *)
Lemma body4_KL m o e pad tr s4 :
  512 <= e -> body4 m o e pad = Ok (tr, s4) -> KeysLong (tbl s4) /\ TblBelow s4.
Proof.
  intros He H. unfold body4 in H.
  set (r0 := mkRst (repeat 0 12) [] 0 0 0 0 0 (mflags m) e 0 false) in *.
  apply bind_ok in H. destruct H as (r1 & R1 & H).
  apply bind_ok in H. destruct H as (tr' & TR & H).
  apply bind_ok in H. destruct H as (r2 & R2 & H).
  apply reserve_spec in R1. destruct R1 as (O1 & T1 & L1 & V1 & _).
  apply reserve_spec in R2. destruct R2 as (O2 & T2 & L2 & V2 & _).
  assert (I2 : SInv e r2).
  { unfold SInv, TblBelow. rewrite O2, O1, T2, T1. cbn [out tbl r0 maxsz reserved] in *.
    change (zlen (repeat 0 12)) with 12. repeat split; try lia. constructor. }
  assert (K2 : KeysLong (tbl r2)) by (rewrite T2, T1; constructor).
  apply bind_ok in H. destruct H as ([b1 s1] & S1 & H).
  destruct (add_questions_SInv _ _ _ _ _ _ I2 S1) as (J1 & _).
  pose proof (add_questions_KL _ _ _ _ _ _ I2 K2 S1) as KL1.
  apply bind_ok in H. destruct H as ([b2 s2] & S2 & H). cbn [fst snd] in S2.
  assert (J2 : SInv e s2 /\ KeysLong (tbl s2)).
  { destruct b1; [inversion S2; subst; auto|]. split; [eapply add_rrsets_SInv; eassumption|eapply add_rrsets_KL; eassumption]. }
  destruct J2 as (J2 & KL2).
  apply bind_ok in H. destruct H as ([b3 s3] & S3 & H). cbn [fst snd] in S3.
  assert (J3 : SInv e s3 /\ KeysLong (tbl s3)).
  { destruct b2; [inversion S3; subst; auto|]. split; [eapply add_rrsets_SInv; eassumption|eapply add_rrsets_KL; eassumption]. }
  destruct J3 as (J3 & KL3).
  apply bind_ok in H. destruct H as ([b4 s4'] & S4 & H). cbn [fst snd] in S4, H.
  assert (J4 : SInv e s4' /\ KeysLong (tbl s4')).
  { destruct b3; [inversion S4; subst; auto|]. split; [eapply add_rrsets_SInv; eassumption|eapply add_rrsets_KL; eassumption]. }
  destruct J4 as (J4 & KL4). destruct b4; [discriminate|]. injection H as _ <-.
  split; [exact KL4|]. destruct J4 as (_ & _ & TB & _). exact TB.
Qed.

Lemma opt_reserve0 m : compute_opt_reserve m 0 =
  match mopt m with Some oo => 11 + fold_left (fun acc cd => acc + zlen (snd cd) + 4) (oopts oo) 0 | None => 0 end.
Proof. unfold compute_opt_reserve. destruct (mopt m); [|reflexivity]. cbn [Z.eqb]. rewrite fold_shift. lia. Qed.

(* with neither TSIG nor padding the OPT reserve is exactly the OPT record: the result at any other
   limit is the same octets when they fit and TooBig otherwise *)
Theorem toobig_exact_lemma m o ms rp ms' rp' w :
  mtsig m = None -> to_wire m o ms rp false 0 = Ok w ->
  compute_opt_reserve m 0 + 12 <= eff_limit ms' rp' ->
  to_wire m o ms' rp' false 0 = if zlen w <=? eff_limit ms' rp' then Ok w else Lib eTooBig.
Proof.
  intros NT H HR0. pose proof (eff_limit_range ms rp) as He.
  set (e := eff_limit ms rp) in *. set (e' := eff_limit ms' rp') in *.
  unfold to_wire in *. apply bind_ok in H. destruct H as (r & HR & H). injection H as <-.
  rewrite to_wire_st_body4 in *. fold e in HR. fold e'.
  apply bind_ok in HR. destruct HR as ([tr s4] & B4 & FIN). cbn [fst snd] in FIN.
  assert (tr = 0).
  { unfold body4 in B4. apply bind_ok in B4. destruct B4 as (r1 & _ & B4). apply bind_ok in B4. destruct B4 as (tr' & TR & B4).
    unfold compute_tsig_reserve in TR. rewrite NT in TR. injection TR as <-.
    apply bind_ok in B4. destruct B4 as (r2 & _ & B4). apply bind_ok in B4. destruct B4 as (b1 & _ & B4).
    apply bind_ok in B4. destruct B4 as (b2 & _ & B4). apply bind_ok in B4. destruct B4 as (b3 & _ & B4).
    apply bind_ok in B4. destruct B4 as (b4 & _ & B4). destruct (fst b4); [discriminate|]. injection B4 as <- _. reflexivity. }
  subst tr.
  destruct (body4_KL _ _ _ _ _ _ (proj1 He) B4) as (KL4 & TB4).
  set (ores := compute_opt_reserve m 0) in *.
  destruct (body4_wm _ _ _ e' _ _ _ B4 ltac:(lia) ltac:(lia)) as (V4 & H12 & F1 & F2). fold ores in V4, F1, F2.
  (* the length of the result *)
  assert (LW : zlen (out r) = zlen (out s4) + ores).
  { unfold finish in FIN. rewrite NT in FIN. set (r4 := release_reserved s4) in *.
    apply bind_ok in FIN. destruct FIN as (r5 & R5 & FIN). apply bind_ok in FIN. destruct FIN as (r6 & R6 & FIN).
    injection FIN as <-. unfold ores. rewrite opt_reserve0.
    destruct (mopt m) as [oo|].
    - apply bind_ok in R5. destruct R5 as ([b5 s5] & A5 & R5). unfold raise_if_big in R5. cbn [fst snd] in R5.
      destruct b5; [discriminate|]. injection R5 as <-.
      unfold add_opt in A5. cbn [Z.eqb] in A5. apply bind_ok in A5. destruct A5 as (rs & HRS & A5).
      rewrite add_rrset_tracked in A5.
      assert (TB : TblBelow r4) by exact TB4.
      destruct (tracked_spec _ _ _ _ _ _ (ext_rrset_em _ _ _) TB A5) as (_ & emo & new & HE & _ & [(_ & _ & ->)|(Hb & _)]);
        [|discriminate].
      pose proof (opt_em_len _ _ _ _ _ _ _ KL4 HRS HE) as Lo.
      assert (H125 : 12 <= zlen (out (inc_count (set_out (set_rsec r4 3) (out r4 ++ emo) (tbl r4 ++ new)) 3 (rrset_count rs)))).
      { cbn [out inc_count set_out]. rewrite zlen_app'. pose proof (zlen_nn emo). change (out r4) with (out s4). lia. }
      destruct (write_header_spec _ _ _ H125 R6) as (E6 & _). rewrite E6. cbn [out inc_count set_out].
      rewrite zlen_app'. change (out r4) with (out s4). lia.
    - injection R5 as <-. assert (H125 : 12 <= zlen (out r4)) by exact H12.
      destruct (write_header_spec _ _ _ H125 R6) as (E6 & _). rewrite E6. change (out r4) with (out s4). lia. }
  rewrite Z.sub_0_r in *.
  destruct (Z.leb_spec (zlen (out r)) e') as [L|L].
  - rewrite F1 by lia. cbn [bind fst snd].
    rewrite (finish_wm _ _ _ _ _ _ _ _ e' FIN); [reflexivity|lia|exact H12|exact L].
  - rewrite F2 by lia. reflexivity.
Qed.

(* ---------- truncated dynamic updates ---------- *)
Lemma WfUpd_cut o m z a1 a2 u1 u2 d1 d2 fl :
  WfUpd o m z -> man m = a1 ++ a2 -> mau m = u1 ++ u2 -> mad m = d1 ++ d2 ->
  (fl = mflags m \/ fl = Z.lor (mflags m) fTC) ->
  WfUpd o (cut_msg m fl (mq m) a1 u1 d1) z.
Proof.
  intros [WU WZ WN WT WC WA WUu WD WO] EA EU ED HF.
  rewrite EA in WA. rewrite EU in WUu. rewrite ED in WD.
  constructor; cbn [cut_msg mflags mq man mau mad mopt]; try assumption.
  - destruct HF as [->| ->]; [exact WU|rewrite opcode_tc; exact WU].
  - eapply Forall_prefix; exact WA.
  - eapply Forall_prefix; exact WUu.
  - eapply Forall_prefix; exact WD.
Qed.

(* prefer_truncation for a dynamic update: when the zone section fits (it always does unless the
   reserved OPT/TSIG octets leave less room than one question), the result parses back to the update
   cut to a prefix of its prerequisite / update / additional record sets, for every padding block size *)
Theorem trunc_parses_update_lemma o pad m z ms rp w :
  org_ok o -> WfUpd o m z -> wf_tsig m -> to_wire m o ms rp true pad = Ok w ->
  exists q1 q2 a1 a2 u1 u2 d1 d2,
    mq m = q1 ++ q2 /\ man m = a1 ++ a2 /\ mau m = u1 ++ u2 /\ mad m = d1 ++ d2 /\
    (q2 <> [] -> a1 = [] /\ u1 = [] /\ d1 = []) /\ (a2 <> [] -> u1 = [] /\ d1 = []) /\ (u2 <> [] -> d1 = []) /\
    (q2 = [] ->
     exists m', from_wire w o po0 = Ok m' /\
       msg_equiv_p pad m' (cut_msg m (if cut_before q2 a2 u2 then Z.lor (mflags m) fTC else mflags m) q1 a1 u1 d1)).
Proof.
  intros OO WF WT H.
  destruct (trunc_prefix_lemma _ _ _ _ _ _ H) as (q1 & q2 & a1 & a2 & u1 & u2 & d1 & d2 & EQ & EA & EU & ED & C1 & C2 & C3 & R).
  exists q1, q2, a1, a2, u1, u2, d1, d2. repeat (split; [assumption|]).
  intros Q2. subst q2. rewrite app_nil_r in EQ. subst q1.
  set (fl := if cut_before [] a2 u2 then Z.lor (mflags m) fTC else mflags m) in *.
  assert (WC : WfUpd o (cut_msg m fl (mq m) a1 u1 d1) z).
  { eapply WfUpd_cut; try eassumption. unfold fl. destruct (cut_before [] a2 u2); auto. }
  exact (update_roundtrip_pad_lemma o OO pad _ z _ _ _ WC WT R).
Qed.
