(* The size limit of Message.to_wire: the rendering depends on max_size / request_payload only through
   the effective limit; without prefer_truncation the result at another limit is the same octets or
   TooBig, decided by the length alone (no TSIG, no padding), and always the same at a larger limit. *)
From DV Require Import Base.Prelude Model.NameM Model.MessageM.
From DV Require Import Proofs.NameOrder Proofs.NameValid Proofs.NameRel Proofs.NameWire Proofs.NameCompress.
From DV Require Import Proofs.MessageName Proofs.MessageRender Proofs.MessageRead Proofs.MessageRoundtrip Proofs.MessageRoundtrip2.
From DV Require Import Proofs.MessageSize Proofs.MessagePad Proofs.MessageTrunc Proofs.MessageRoundtrip3 Proofs.MessageTruncParse Proofs.MessageUpdate Proofs.MessageRerender.
Open Scope Z_scope.

(* ---------- max_size = 0, request_payload, the clamp ---------- *)
Definition clamp (x : Z) : Z := if x <? 512 then 512 else if x >? 65535 then 65535 else x.

Lemma eff_limit_clamp ms rp :
  eff_limit ms rp = clamp (if ms =? 0 then (if rp =? 0 then 65535 else rp) else ms).
Proof. reflexivity. Qed.

Lemma to_wire_eff m o ms rp ms' rp' pf pad :
  eff_limit ms rp = eff_limit ms' rp' -> to_wire m o ms rp pf pad = to_wire m o ms' rp' pf pad.
Proof. intros H. unfold to_wire, to_wire_st. rewrite H. reflexivity. Qed.

Lemma clamp_idem x : clamp (clamp x) = clamp x.
Proof.
  unfold clamp. destruct (Z.ltb_spec x 512); [reflexivity|].
  destruct (Z.gtb_spec x 65535); [reflexivity|].
  destruct (Z.ltb_spec x 512); [lia|]. destruct (Z.gtb_spec x 65535); [lia|reflexivity].
Qed.

Lemma clamp_nz x : (clamp x =? 0) = false.
Proof. apply Z.eqb_neq. unfold clamp. destruct (Z.ltb_spec x 512); [lia|]. destruct (Z.gtb_spec x 65535); lia. Qed.

(* Message.to_wire(max_size=0) uses the request payload, else 65535; limits below 512 / above 65535 are
   clamped; the payload advertised by the message's own OPT record plays no role *)
Theorem limit_defaulting_lemma m o ms rp pf pad :
  to_wire m o ms rp pf pad =
  to_wire m o (clamp (if ms =? 0 then (if rp =? 0 then 65535 else rp) else ms)) 0 pf pad.
Proof.
  apply to_wire_eff. rewrite !eff_limit_clamp. rewrite clamp_nz. rewrite clamp_idem. reflexivity.
Qed.

(* ---------- the same run under another limit ---------- *)
Definition wm (r : rst) (x : Z) : rst := set_limits r x (reserved r).

Lemma tracked_reserved E sec n a b a' : tracked E sec n a = Ok (b, a') -> reserved a' = reserved a.
Proof.
  unfold tracked. intros H. apply bind_ok in H. destruct H as (r1 & S & H).
  apply set_section_spec in S. destruct S as (-> & _). cbn [out tbl set_rsec] in H.
  apply bind_ok in H. destruct H as ([em t'] & HE & H). cbn [fst snd] in H.
  unfold track_end in H. destruct (_ >? _); injection H as <- <-; reflexivity.
Qed.

Lemma tracked_out E sec n a b a' : tracked E sec n a = Ok (b, a') -> zlen (out a) <= zlen (out a').
Proof.
  unfold tracked. intros H. apply bind_ok in H. destruct H as (r1 & S & H).
  apply set_section_spec in S. destruct S as (-> & _). cbn [out tbl set_rsec] in H.
  apply bind_ok in H. destruct H as ([em t'] & HE & H). cbn [fst snd] in H.
  unfold track_end in H. cbn [out maxsz set_out set_rsec] in H.
  destruct (zlen (out a ++ em) >? maxsz a).
  - injection H as <- <-. unfold rollback. cbn [out set_out]. rewrite firstn_zlen_app. lia.
  - injection H as <- <-. cbn [out inc_count set_out]. rewrite zlen_app'. pose proof (zlen_nn em). lia.
Qed.

Lemma tracked_wm E sec n a a' x :
  tracked E sec n a = Ok (false, a') ->
  (zlen (out a') <= x -> tracked E sec n (wm a x) = Ok (false, wm a' x)) /\
  (x < zlen (out a') -> exists r, tracked E sec n (wm a x) = Ok (true, r)).
Proof.
  unfold tracked. intros H. apply bind_ok in H. destruct H as (r1 & S & H).
  assert (S' : set_section sec (wm a x) = Ok (wm r1 x) /\ out r1 = out a /\ tbl r1 = tbl a /\ maxsz r1 = maxsz a).
  { unfold set_section in *. cbn [rsec wm set_limits]. destruct (rsec a =? sec); [injection S as <-; auto|].
    destruct (rsec a >? sec); [discriminate|]. injection S as <-. auto. }
  destruct S' as (S' & O1 & T1 & M1). rewrite S'. cbn [bind]. cbn [out tbl wm set_limits].
  apply bind_ok in H. destruct H as ([em t'] & HE & H). cbn [fst snd] in H. rewrite HE. cbn [bind fst snd].
  unfold track_end in *. unfold wm. cbn [out maxsz reserved set_out set_limits] in *.
  destruct (zlen (out r1 ++ em) >? maxsz r1); [discriminate|]. injection H as <-.
  cbn [out inc_count set_out]. split; intros Hx.
  - destruct (Z.gtb_spec (zlen (out r1 ++ em)) x); [lia|]. reflexivity.
  - destruct (Z.gtb_spec (zlen (out r1 ++ em)) x); [|lia]. eexists. reflexivity.
Qed.

Lemma add_rrsets_wm o sec : forall l a a' x,
  add_rrsets o sec l a = Ok (false, a') ->
  reserved a' = reserved a /\ zlen (out a) <= zlen (out a') /\
  (zlen (out a') <= x -> add_rrsets o sec l (wm a x) = Ok (false, wm a' x)) /\
  (zlen (out a) <= x < zlen (out a') -> exists r, add_rrsets o sec l (wm a x) = Ok (true, r)).
Proof.
  induction l as [|rs l IH]; intros a a' x H.
  - injection H as <-. split; [reflexivity|]. split; [lia|]. split; [reflexivity|intros; lia].
  - cbn [add_rrsets] in *. apply bind_ok in H. destruct H as ([b1 a1] & H1 & H). cbn [fst snd] in H.
    destruct b1; [discriminate|]. rewrite add_rrset_tracked in *.
    pose proof (tracked_out _ _ _ _ _ _ H1) as M1. pose proof (tracked_reserved _ _ _ _ _ _ H1) as V1.
    destruct (tracked_wm _ _ _ _ _ x H1) as (T1 & T2).
    destruct (IH a1 a' x H) as (V2 & M2 & I1 & I2).
    split; [congruence|]. split; [lia|]. split.
    + intros Hx. rewrite T1 by lia. cbn [bind fst snd]. apply I1. exact Hx.
    + intros Hx. destruct (Z.le_gt_cases (zlen (out a1)) x) as [L|L].
      * rewrite T1 by exact L. cbn [bind fst snd]. apply I2. lia.
      * destruct (T2 ltac:(lia)) as (r & Hr). rewrite Hr. cbn [bind fst snd]. eauto.
Qed.

Lemma add_questions_wm o : forall l a a' x,
  add_questions o l a = Ok (false, a') ->
  reserved a' = reserved a /\ zlen (out a) <= zlen (out a') /\
  (zlen (out a') <= x -> add_questions o l (wm a x) = Ok (false, wm a' x)) /\
  (zlen (out a) <= x < zlen (out a') -> exists r, add_questions o l (wm a x) = Ok (true, r)).
Proof.
  induction l as [|rs l IH]; intros a a' x H.
  - injection H as <-. split; [reflexivity|]. split; [lia|]. split; [reflexivity|intros; lia].
  - cbn [add_questions] in *. apply bind_ok in H. destruct H as ([b1 a1] & H1 & H). cbn [fst snd] in H.
    destruct b1; [discriminate|]. rewrite add_question_tracked in *.
    pose proof (tracked_out _ _ _ _ _ _ H1) as M1. pose proof (tracked_reserved _ _ _ _ _ _ H1) as V1.
    destruct (tracked_wm _ _ _ _ _ x H1) as (T1 & T2).
    destruct (IH a1 a' x H) as (V2 & M2 & I1 & I2).
    split; [congruence|]. split; [lia|]. split.
    + intros Hx. rewrite T1 by lia. cbn [bind fst snd]. apply I1. exact Hx.
    + intros Hx. destruct (Z.le_gt_cases (zlen (out a1)) x) as [L|L].
      * rewrite T1 by exact L. cbn [bind fst snd]. apply I2. lia.
      * destruct (T2 ltac:(lia)) as (r & Hr). rewrite Hr. cbn [bind fst snd]. eauto.
Qed.

(* ---------- reserve / release / header under another limit ---------- *)
Lemma reserve_wm size a a1 x :
  reserve size a = Ok a1 -> size <= x -> reserve size (wm a x) = Ok (wm a1 (x - size)) /\ reserved a1 = reserved a + size.
Proof.
  unfold reserve. destruct (Z.ltb_spec size 0) as [Hneg|Hpos]; [discriminate|].
  destruct (size >? maxsz a); [discriminate|]. intros HH Hx. injection HH as <-.
  unfold wm. cbn [maxsz reserved set_limits]. destruct (Z.gtb_spec size x); [lia|]. split; reflexivity.
Qed.

Lemma write_header_wm id a a' x : write_header id a = Ok a' -> write_header id (wm a x) = Ok (wm a' x).
Proof.
  unfold write_header. cbn [wm set_limits rflags cq can cau cad out tbl].
  destruct (pack16 id); cbn [bind]; try discriminate.
  destruct (pack16 (rflags a)); cbn [bind]; try discriminate.
  destruct (pack16 (cq a)); cbn [bind]; try discriminate.
  destruct (pack16 (can a)); cbn [bind]; try discriminate.
  destruct (pack16 (cau a)); cbn [bind]; try discriminate.
  destruct (pack16 (cad a)); cbn [bind]; try discriminate.
  intros H. injection H as <-. reflexivity.
Qed.

(* ---------- Message.to_wire up to the end of the section loops ---------- *)
Definition body4 (m : msg) (o : option name) (e : Z) (pad : Z) : res (Z * rst) :=
  let r0 := mkRst (repeat 0 12) [] 0 0 0 0 0 (mflags m) e 0 false in
  do r1 <- reserve (compute_opt_reserve m pad) r0;
  do tr <- compute_tsig_reserve m;
  do r2 <- reserve tr r1;
  do b1 <- add_questions o (mq m) r2;
  do b2 <- (if fst b1 then Ok b1 else add_rrsets o 1 (man m) (snd b1));
  do b3 <- (if fst b2 then Ok b2 else add_rrsets o 2 (mau m) (snd b2));
  do b4 <- (if fst b3 then Ok b3 else add_rrsets o 3 (mad m) (snd b3));
  if fst b4 then Lib eTooBig else Ok (tr, snd b4).

Lemma to_wire_st_body4 m o ms rp pad :
  to_wire_st m o ms rp false pad =
  do ts <- body4 m o (eff_limit ms rp) pad; finish m o pad (compute_opt_reserve m pad) (fst ts) (snd ts).
Proof.
  unfold to_wire_st, body4, finish.
  destruct (reserve _ _) as [r1| |]; cbn [bind]; try reflexivity.
  destruct (compute_tsig_reserve m) as [tr| |]; cbn [bind]; try reflexivity.
  destruct (reserve tr r1) as [r2| |]; cbn [bind]; try reflexivity.
  destruct (add_questions o (mq m) r2) as [[b1 s1]| |]; cbn [bind fst snd]; try reflexivity.
  destruct (if b1 then _ else _) as [[b2 s2]| |]; cbn [bind fst snd]; try reflexivity.
  destruct (if b2 then _ else _) as [[b3 s3]| |]; cbn [bind fst snd]; try reflexivity.
  destruct (if b3 then _ else _) as [[b4 s4]| |]; cbn [bind fst snd]; try reflexivity.
  destruct b4; cbn [bind fst snd]; reflexivity.
Qed.

Lemma body4_wm m o e e' pad tr s4 :
  body4 m o e pad = Ok (tr, s4) ->
  compute_opt_reserve m pad <= e' -> tr <= e' - compute_opt_reserve m pad ->
  let x := e' - compute_opt_reserve m pad - tr in
  reserved s4 = compute_opt_reserve m pad + tr /\ 12 <= zlen (out s4) /\
  (zlen (out s4) <= x -> body4 m o e' pad = Ok (tr, wm s4 x)) /\
  (12 <= x < zlen (out s4) -> body4 m o e' pad = Lib eTooBig).
Proof.
  intros H C1 C2 x. unfold body4 in *.
  set (ores := compute_opt_reserve m pad) in *.
  set (r0 := mkRst (repeat 0 12) [] 0 0 0 0 0 (mflags m) e 0 false) in *.
  change (mkRst (repeat 0 12) [] 0 0 0 0 0 (mflags m) e' 0 false) with (wm r0 e').
  apply bind_ok in H. destruct H as (r1 & R1 & H).
  apply bind_ok in H. destruct H as (tr' & TR & H).
  apply bind_ok in H. destruct H as (r2 & R2 & H).
  apply bind_ok in H. destruct H as ([b1 s1] & S1 & H). cbn [fst snd] in H.
  apply bind_ok in H. destruct H as ([b2 s2] & S2 & H). cbn [fst snd] in H.
  apply bind_ok in H. destruct H as ([b3 s3] & S3 & H). cbn [fst snd] in H.
  apply bind_ok in H. destruct H as ([b4 s4'] & S4 & H). cbn [fst snd] in H.
  destruct b4; [discriminate|]. injection H as -> <-.
  destruct b3; [injection S4 as ?; discriminate|]. destruct b2; [injection S3 as ?; discriminate|].
  destruct b1; [injection S2 as ?; discriminate|].
  destruct (reserve_wm _ _ _ e' R1 C1) as (R1' & V1). fold ores in R1'.
  destruct (reserve_wm _ _ _ (e' - ores) R2 C2) as (R2' & V2). fold x in R2'.
  rewrite R1'. cbn [bind]. rewrite TR. cbn [bind]. rewrite R2'. cbn [bind].
  destruct (add_questions_wm o _ _ _ x S1) as (W1 & N1 & Q1 & Q1').
  destruct (add_rrsets_wm o 1 _ _ _ x S2) as (W2 & N2 & Q2 & Q2').
  destruct (add_rrsets_wm o 2 _ _ _ x S3) as (W3 & N3 & Q3 & Q3').
  destruct (add_rrsets_wm o 3 _ _ _ x S4) as (W4 & N4 & Q4 & Q4').
  assert (O2 : zlen (out r2) = 12).
  { apply reserve_spec in R1. apply reserve_spec in R2. destruct R1 as (A & _). destruct R2 as (B & _).
    rewrite B, A. reflexivity. }
  split; [rewrite W4, W3, W2, W1, V2, V1; reflexivity|]. split; [lia|]. split.
  - intros Hx. rewrite Q1 by lia. cbn [bind fst snd]. rewrite Q2 by lia. cbn [bind fst snd].
    rewrite Q3 by lia. cbn [bind fst snd]. rewrite Q4 by lia. reflexivity.
  - intros Hx.
    destruct (Z.le_gt_cases (zlen (out s1)) x) as [L1|L1];
      [|destruct (Q1' ltac:(lia)) as (q & ->); reflexivity].
    rewrite Q1 by exact L1. cbn [bind fst snd].
    destruct (Z.le_gt_cases (zlen (out s2)) x) as [L2|L2];
      [|destruct (Q2' ltac:(lia)) as (q & ->); reflexivity].
    rewrite Q2 by exact L2. cbn [bind fst snd].
    destruct (Z.le_gt_cases (zlen (out s3)) x) as [L3|L3];
      [|destruct (Q3' ltac:(lia)) as (q & ->); reflexivity].
    rewrite Q3 by exact L3. cbn [bind fst snd].
    destruct (Q4' ltac:(lia)) as (q & ->). reflexivity.
Qed.

(* ---------- the rest of Message.to_wire (release, OPT, header, TSIG, header) ---------- *)
Lemma pad_st_wm a pad x : pad_st (wm a x) pad = wm (pad_st a pad) x.
Proof. unfold pad_st. destruct (pad =? 0); reflexivity. Qed.

Lemma finish_wm m o pad ores tr s4 r x e' :
  finish m o pad ores tr s4 = Ok r -> x + reserved s4 = e' -> 12 <= zlen (out s4) -> zlen (out r) <= e' ->
  finish m o pad ores tr (wm s4 x) = Ok (wm r e').
Proof.
  intros H HX H12 HL. unfold finish in *.
  assert (RL : release_reserved (wm s4 x) = wm (release_reserved s4) e').
  { unfold release_reserved, wm. cbn [maxsz reserved set_limits]. rewrite HX. reflexivity. }
  rewrite RL. set (r4 := release_reserved s4) in *.
  assert (O4 : out r4 = out s4) by reflexivity.
  apply bind_ok in H. destruct H as (r5 & R5 & H).
  apply bind_ok in H. destruct H as (r6 & R6 & H).
  (* lengths: out r4 <= out r5 = out r6 <= out r *)
  assert (L5 : zlen (out r4) <= zlen (out r5)).
  { destruct (mopt m) as [oo|]; [|injection R5 as <-; lia].
    apply bind_ok in R5. destruct R5 as ([b5 s5] & A5 & R5). unfold raise_if_big in R5. cbn [fst snd] in R5.
    destruct b5; [discriminate|]. injection R5 as <-.
    rewrite add_opt_pad in A5. unfold add_opt in A5. cbn [Z.eqb] in A5.
    apply bind_ok in A5. destruct A5 as (rs & _ & A5). rewrite add_rrset_tracked in A5.
    apply tracked_out in A5. destruct (pad_st_fields r4 pad) as (Po & _). rewrite Po in A5. exact A5. }
  rewrite O4 in L5.
  assert (H125 : 12 <= zlen (out r5)) by lia.
  assert (L6 : zlen (out r6) = zlen (out r5)).
  { apply (write_header_spec _ _ _ H125 R6). }
  assert (L7 : zlen (out r6) <= zlen (out r)).
  { destruct (mtsig m) as [[kn rd]|]; [|injection H as <-; lia].
    apply bind_ok in H. destruct H as ([b7 s7] & A7 & H). apply bind_ok in H. destruct H as (r7 & R7 & H).
    unfold raise_if_big in R7. cbn [fst snd] in R7. destruct b7; [discriminate|]. injection R7 as <-.
    rewrite write_tsig_eq in A7. apply bind_ok in A7. destruct A7 as ([b8 s8] & A8 & A7). cbn [fst snd] in A7.
    destruct b8; [discriminate|]. apply bind_ok in A7. destruct A7 as (c & _ & A7). injection A7 as <-.
    apply tracked_out in A8.
    assert (P8 : zlen (patch16 (out s8) 10 (cad s8)) = zlen (out s8)) by (apply zlen_patch16; lia).
    assert (H128 : 12 <= zlen (out (set_out s8 (patch16 (out s8) 10 (cad s8)) (tbl s8)))) by (cbn [out set_out]; lia).
    destruct (write_header_spec _ _ _ H128 H) as (E8 & _). cbn [out set_out] in E8. lia. }
  (* the OPT record *)
  assert (R5' : match mopt m with
                | Some o0 => do br <- add_opt o o0 pad ores tr (wm r4 e'); raise_if_big br
                | None => Ok (wm r4 e')
                end = Ok (wm r5 e')).
  { destruct (mopt m) as [oo|]; [|injection R5 as <-; reflexivity].
    apply bind_ok in R5. destruct R5 as ([b5 s5] & A5 & R5). unfold raise_if_big in R5. cbn [fst snd] in R5.
    destruct b5; [discriminate|]. injection R5 as <-.
    rewrite add_opt_pad in A5 |- *. rewrite pad_st_wm. cbn [out wm set_limits].
    unfold add_opt in A5 |- *. cbn [Z.eqb] in A5 |- *.
    apply bind_ok in A5. destruct A5 as (rs & HRS & A5). rewrite HRS. cbn [bind].
    rewrite add_rrset_tracked in A5 |- *.
    destruct (tracked_wm _ _ _ _ _ e' A5) as (T1 & _). rewrite T1 by lia. reflexivity. }
  rewrite R5'. cbn [bind]. rewrite (write_header_wm _ _ _ e' R6). cbn [bind].
  destruct (mtsig m) as [[kn rd]|]; [|injection H as <-; reflexivity].
  apply bind_ok in H. destruct H as ([b7 s7] & A7 & H). apply bind_ok in H. destruct H as (r7 & R7 & H).
  unfold raise_if_big in R7. cbn [fst snd] in R7. destruct b7; [discriminate|]. injection R7 as <-.
  rewrite write_tsig_eq in A7 |- *. cbn [padded wm set_limits].
  apply bind_ok in A7. destruct A7 as ([b8 s8] & A8 & A7). cbn [fst snd] in A7.
  destruct b8; [discriminate|]. apply bind_ok in A7. destruct A7 as (c & PC & A7). injection A7 as <-.
  assert (L8 : zlen (out s8) <= e').
  { pose proof (tracked_out _ _ _ _ _ _ A8) as G8.
    assert (P8 : zlen (patch16 (out s8) 10 (cad s8)) = zlen (out s8)) by (apply zlen_patch16; lia).
    assert (H128 : 12 <= zlen (out (set_out s8 (patch16 (out s8) 10 (cad s8)) (tbl s8)))) by (cbn [out set_out]; lia).
    destruct (write_header_spec _ _ _ H128 H) as (E8 & _). cbn [out set_out] in E8. lia. }
  destruct (tracked_wm _ _ _ _ _ e' A8) as (T8 & _). rewrite T8 by exact L8. cbn [bind fst snd].
  cbn [cad wm set_limits]. rewrite PC. cbn [bind]. unfold raise_if_big. cbn [fst snd bind].
  change (set_out (wm s8 e') (patch16 (out (wm s8 e')) 10 (cad s8)) (tbl (wm s8 e')))
    with (wm (set_out s8 (patch16 (out s8) 10 (cad s8)) (tbl s8)) e').
  apply write_header_wm. exact H.
Qed.

(* ---------- a larger limit: every write that fitted still fits ---------- *)
Lemma tracked_mono E sec n a a' x :
  tracked E sec n a = Ok (false, a') -> maxsz a <= x ->
  tracked E sec n (wm a x) = Ok (false, wm a' x) /\ maxsz a' = maxsz a.
Proof.
  unfold tracked. intros H Hx. apply bind_ok in H. destruct H as (r1 & S & H).
  assert (S' : set_section sec (wm a x) = Ok (wm r1 x) /\ out r1 = out a /\ tbl r1 = tbl a /\ maxsz r1 = maxsz a).
  { unfold set_section in *. cbn [rsec wm set_limits]. destruct (rsec a =? sec); [injection S as <-; auto|].
    destruct (rsec a >? sec); [discriminate|]. injection S as <-. auto. }
  destruct S' as (S' & O1 & T1 & M1). rewrite S'. cbn [bind]. cbn [out tbl wm set_limits].
  apply bind_ok in H. destruct H as ([em t'] & HE & H). cbn [fst snd] in H. rewrite HE. cbn [bind fst snd].
  unfold track_end in *. unfold wm. cbn [out maxsz reserved set_out set_limits] in *.
  destruct (Z.gtb_spec (zlen (out r1 ++ em)) (maxsz r1)); [discriminate|]. injection H as <-.
  cbn [out maxsz inc_count set_out]. split; [|exact M1].
  destruct (Z.gtb_spec (zlen (out r1 ++ em)) x); [lia|]. reflexivity.
Qed.

Lemma add_rrsets_mono o sec : forall l a a' x,
  add_rrsets o sec l a = Ok (false, a') -> maxsz a <= x -> add_rrsets o sec l (wm a x) = Ok (false, wm a' x) /\ maxsz a' = maxsz a.
Proof.
  induction l as [|rs l IH]; intros a a' x H Hx.
  - injection H as <-. split; reflexivity.
  - cbn [add_rrsets] in *. apply bind_ok in H. destruct H as ([b1 a1] & H1 & H). cbn [fst snd] in H.
    destruct b1; [discriminate|]. rewrite add_rrset_tracked in *.
    destruct (tracked_mono _ _ _ _ _ x H1 Hx) as (T1 & M1). rewrite T1. cbn [bind fst snd].
    destruct (IH a1 a' x H ltac:(lia)) as (I1 & I2). split; [exact I1|lia].
Qed.

Lemma add_questions_mono o : forall l a a' x,
  add_questions o l a = Ok (false, a') -> maxsz a <= x -> add_questions o l (wm a x) = Ok (false, wm a' x) /\ maxsz a' = maxsz a.
Proof.
  induction l as [|rs l IH]; intros a a' x H Hx.
  - injection H as <-. split; reflexivity.
  - cbn [add_questions] in *. apply bind_ok in H. destruct H as ([b1 a1] & H1 & H). cbn [fst snd] in H.
    destruct b1; [discriminate|]. rewrite add_question_tracked in *.
    destruct (tracked_mono _ _ _ _ _ x H1 Hx) as (T1 & M1). rewrite T1. cbn [bind fst snd].
    destruct (IH a1 a' x H ltac:(lia)) as (I1 & I2). split; [exact I1|lia].
Qed.

Lemma reserve_le size a a1 : reserve size a = Ok a1 -> 0 <= size <= maxsz a /\ maxsz a1 = maxsz a - size.
Proof.
  unfold reserve. destruct (Z.ltb_spec size 0); [discriminate|].
  destruct (Z.gtb_spec size (maxsz a)); [discriminate|]. intros H'. injection H' as <-. cbn. lia.
Qed.

Lemma body4_mono m o e e' pad tr s4 :
  body4 m o e pad = Ok (tr, s4) -> e <= e' ->
  body4 m o e' pad = Ok (tr, wm s4 (e' - compute_opt_reserve m pad - tr)) /\
  reserved s4 = compute_opt_reserve m pad + tr /\ 12 <= zlen (out s4).
Proof.
  intros H Hle. unfold body4 in *.
  set (ores := compute_opt_reserve m pad) in *.
  set (r0 := mkRst (repeat 0 12) [] 0 0 0 0 0 (mflags m) e 0 false) in *.
  change (mkRst (repeat 0 12) [] 0 0 0 0 0 (mflags m) e' 0 false) with (wm r0 e').
  apply bind_ok in H. destruct H as (r1 & R1 & H).
  apply bind_ok in H. destruct H as (tr' & TR & H).
  apply bind_ok in H. destruct H as (r2 & R2 & H).
  apply bind_ok in H. destruct H as ([b1 s1] & S1 & H). cbn [fst snd] in H.
  apply bind_ok in H. destruct H as ([b2 s2] & S2 & H). cbn [fst snd] in H.
  apply bind_ok in H. destruct H as ([b3 s3] & S3 & H). cbn [fst snd] in H.
  apply bind_ok in H. destruct H as ([b4 s4'] & S4 & H). cbn [fst snd] in H.
  destruct b4; [discriminate|]. injection H as -> <-.
  destruct b3; [injection S4 as ?; discriminate|]. destruct b2; [injection S3 as ?; discriminate|].
  destruct b1; [injection S2 as ?; discriminate|].
  destruct (reserve_le _ _ _ R1) as (B1 & M1). destruct (reserve_le _ _ _ R2) as (B2 & M2).
  cbn [maxsz r0] in B1, M1.
  destruct (reserve_wm _ _ _ e' R1 ltac:(lia)) as (R1' & V1). fold ores in R1'.
  destruct (reserve_wm _ _ _ (e' - ores) R2 ltac:(lia)) as (R2' & V2).
  rewrite R1'. cbn [bind]. rewrite TR. cbn [bind]. rewrite R2'. cbn [bind].
  set (x := e' - ores - tr).
  destruct (add_questions_mono o _ _ _ x S1 ltac:(lia)) as (Q1 & N1). rewrite Q1. cbn [bind fst snd].
  destruct (add_rrsets_mono o 1 _ _ _ x S2 ltac:(lia)) as (Q2 & N2). rewrite Q2. cbn [bind fst snd].
  destruct (add_rrsets_mono o 2 _ _ _ x S3 ltac:(lia)) as (Q3 & N3). rewrite Q3. cbn [bind fst snd].
  destruct (add_rrsets_mono o 3 _ _ _ x S4 ltac:(lia)) as (Q4 & N4). rewrite Q4. cbn [bind fst snd].
  split; [reflexivity|].
  destruct (add_questions_wm o _ _ _ 0 S1) as (W1 & G1 & _).
  destruct (add_rrsets_wm o 1 _ _ _ 0 S2) as (W2 & G2 & _).
  destruct (add_rrsets_wm o 2 _ _ _ 0 S3) as (W3 & G3 & _).
  destruct (add_rrsets_wm o 3 _ _ _ 0 S4) as (W4 & G4 & _).
  assert (O2 : zlen (out r2) = 12).
  { apply reserve_spec in R1. apply reserve_spec in R2. destruct R1 as (A & _). destruct R2 as (B & _).
    rewrite B, A. reflexivity. }
  split; [rewrite W4, W3, W2, W1, V2, V1; reflexivity|lia].
Qed.

(* without prefer_truncation a rendering that succeeds at one limit is the rendering at every larger limit *)
Theorem limit_monotone_lemma m o ms rp ms' rp' pad w :
  to_wire m o ms rp false pad = Ok w -> eff_limit ms rp <= eff_limit ms' rp' ->
  to_wire m o ms' rp' false pad = Ok w.
Proof.
  intros H Hle. pose proof (size_bound_lemma _ _ _ _ _ _ _ H) as SB.
  unfold to_wire in *. apply bind_ok in H. destruct H as (r & HR & H). injection H as <-.
  rewrite to_wire_st_body4 in *. apply bind_ok in HR. destruct HR as ([tr s4] & B4 & FIN). cbn [fst snd] in FIN.
  destruct (body4_mono _ _ _ _ _ _ _ B4 Hle) as (B4' & V4 & H12).
  rewrite B4'. cbn [bind fst snd].
  rewrite (finish_wm _ _ _ _ _ _ _ _ (eff_limit ms' rp') FIN); [reflexivity|lia|exact H12|lia].
Qed.

(* ---------- the exact TooBig condition (no TSIG record, no padding) ---------- *)
Lemma body4_KL m o e pad tr s4 :
  512 <= e -> body4 m o e pad = Ok (tr, s4) -> KeysLong (tbl s4) /\ TblBelow s4.
Proof.
  intros He H. unfold body4 in H.
  set (r0 := mkRst (repeat 0 12) [] 0 0 0 0 0 (mflags m) e 0 false) in *.
  apply bind_ok in H. destruct H as (r1 & R1 & H).
  apply bind_ok in H. destruct H as (tr' & TR & H).
  apply bind_ok in H. destruct H as (r2 & R2 & H).
  apply reserve_spec in R1. destruct R1 as (O1 & T1 & L1 & V1 & _).
  apply reserve_spec in R2. destruct R2 as (O2 & T2 & L2 & V2 & _).
  assert (I2 : SInv e r2).
  { unfold SInv, TblBelow. rewrite O2, O1, T2, T1. cbn [out tbl r0 maxsz reserved] in *.
    change (zlen (repeat 0 12)) with 12. repeat split; try lia. constructor. }
  assert (K2 : KeysLong (tbl r2)) by (rewrite T2, T1; constructor).
  apply bind_ok in H. destruct H as ([b1 s1] & S1 & H).
  destruct (add_questions_SInv _ _ _ _ _ _ I2 S1) as (J1 & _).
  pose proof (add_questions_KL _ _ _ _ _ _ I2 K2 S1) as KL1.
  apply bind_ok in H. destruct H as ([b2 s2] & S2 & H). cbn [fst snd] in S2.
  assert (J2 : SInv e s2 /\ KeysLong (tbl s2)).
  { destruct b1; [inversion S2; subst; auto|]. split; [eapply add_rrsets_SInv; eassumption|eapply add_rrsets_KL; eassumption]. }
  destruct J2 as (J2 & KL2).
  apply bind_ok in H. destruct H as ([b3 s3] & S3 & H). cbn [fst snd] in S3.
  assert (J3 : SInv e s3 /\ KeysLong (tbl s3)).
  { destruct b2; [inversion S3; subst; auto|]. split; [eapply add_rrsets_SInv; eassumption|eapply add_rrsets_KL; eassumption]. }
  destruct J3 as (J3 & KL3).
  apply bind_ok in H. destruct H as ([b4 s4'] & S4 & H). cbn [fst snd] in S4, H.
  assert (J4 : SInv e s4' /\ KeysLong (tbl s4')).
  { destruct b3; [inversion S4; subst; auto|]. split; [eapply add_rrsets_SInv; eassumption|eapply add_rrsets_KL; eassumption]. }
  destruct J4 as (J4 & KL4). destruct b4; [discriminate|]. injection H as _ <-.
  split; [exact KL4|]. destruct J4 as (_ & _ & TB & _). exact TB.
Qed.

Lemma opt_reserve0 m : compute_opt_reserve m 0 =
  match mopt m with Some oo => 11 + fold_left (fun acc cd => acc + zlen (snd cd) + 4) (oopts oo) 0 | None => 0 end.
Proof. unfold compute_opt_reserve. destruct (mopt m); [|reflexivity]. cbn [Z.eqb]. rewrite fold_shift. lia. Qed.

(* with neither TSIG nor padding the OPT reserve is exactly the OPT record: the result at any other
   limit is the same octets when they fit and TooBig otherwise *)
Theorem toobig_exact_lemma m o ms rp ms' rp' w :
  mtsig m = None -> to_wire m o ms rp false 0 = Ok w ->
  compute_opt_reserve m 0 + 12 <= eff_limit ms' rp' ->
  to_wire m o ms' rp' false 0 = if zlen w <=? eff_limit ms' rp' then Ok w else Lib eTooBig.
Proof.
  intros NT H HR0. pose proof (eff_limit_range ms rp) as He.
  set (e := eff_limit ms rp) in *. set (e' := eff_limit ms' rp') in *.
  unfold to_wire in *. apply bind_ok in H. destruct H as (r & HR & H). injection H as <-.
  rewrite to_wire_st_body4 in *. fold e in HR. fold e'.
  apply bind_ok in HR. destruct HR as ([tr s4] & B4 & FIN). cbn [fst snd] in FIN.
  assert (tr = 0).
  { unfold body4 in B4. apply bind_ok in B4. destruct B4 as (r1 & _ & B4). apply bind_ok in B4. destruct B4 as (tr' & TR & B4).
    unfold compute_tsig_reserve in TR. rewrite NT in TR. injection TR as <-.
    apply bind_ok in B4. destruct B4 as (r2 & _ & B4). apply bind_ok in B4. destruct B4 as (b1 & _ & B4).
    apply bind_ok in B4. destruct B4 as (b2 & _ & B4). apply bind_ok in B4. destruct B4 as (b3 & _ & B4).
    apply bind_ok in B4. destruct B4 as (b4 & _ & B4). destruct (fst b4); [discriminate|]. injection B4 as <- _. reflexivity. }
  subst tr.
  destruct (body4_KL _ _ _ _ _ _ (proj1 He) B4) as (KL4 & TB4).
  set (ores := compute_opt_reserve m 0) in *.
  destruct (body4_wm _ _ _ e' _ _ _ B4 ltac:(lia) ltac:(lia)) as (V4 & H12 & F1 & F2). fold ores in V4, F1, F2.
  (* the length of the result *)
  assert (LW : zlen (out r) = zlen (out s4) + ores).
  { unfold finish in FIN. rewrite NT in FIN. set (r4 := release_reserved s4) in *.
    apply bind_ok in FIN. destruct FIN as (r5 & R5 & FIN). apply bind_ok in FIN. destruct FIN as (r6 & R6 & FIN).
    injection FIN as <-. unfold ores. rewrite opt_reserve0.
    destruct (mopt m) as [oo|].
    - apply bind_ok in R5. destruct R5 as ([b5 s5] & A5 & R5). unfold raise_if_big in R5. cbn [fst snd] in R5.
      destruct b5; [discriminate|]. injection R5 as <-.
      unfold add_opt in A5. cbn [Z.eqb] in A5. apply bind_ok in A5. destruct A5 as (rs & HRS & A5).
      rewrite add_rrset_tracked in A5.
      assert (TB : TblBelow r4) by exact TB4.
      destruct (tracked_spec _ _ _ _ _ _ (ext_rrset_em _ _ _) TB A5) as (_ & emo & new & HE & _ & [(_ & _ & ->)|(Hb & _)]);
        [|discriminate].
      pose proof (opt_em_len _ _ _ _ _ _ _ KL4 HRS HE) as Lo.
      assert (H125 : 12 <= zlen (out (inc_count (set_out (set_rsec r4 3) (out r4 ++ emo) (tbl r4 ++ new)) 3 (rrset_count rs)))).
      { cbn [out inc_count set_out]. rewrite zlen_app'. pose proof (zlen_nn emo). change (out r4) with (out s4). lia. }
      destruct (write_header_spec _ _ _ H125 R6) as (E6 & _). rewrite E6. cbn [out inc_count set_out].
      rewrite zlen_app'. change (out r4) with (out s4). lia.
    - injection R5 as <-. assert (H125 : 12 <= zlen (out r4)) by exact H12.
      destruct (write_header_spec _ _ _ H125 R6) as (E6 & _). rewrite E6. change (out r4) with (out s4). lia. }
  rewrite Z.sub_0_r in *.
  destruct (Z.leb_spec (zlen (out r)) e') as [L|L].
  - rewrite F1 by lia. cbn [bind fst snd].
    rewrite (finish_wm _ _ _ _ _ _ _ _ e' FIN); [reflexivity|lia|exact H12|exact L].
  - rewrite F2 by lia. reflexivity.
Qed.

(* ---------- truncated dynamic updates ---------- *)
Lemma WfUpd_cut o m z a1 a2 u1 u2 d1 d2 fl :
  WfUpd o m z -> man m = a1 ++ a2 -> mau m = u1 ++ u2 -> mad m = d1 ++ d2 ->
  (fl = mflags m \/ fl = Z.lor (mflags m) fTC) ->
  WfUpd o (cut_msg m fl (mq m) a1 u1 d1) z.
Proof.
  intros [WU WZ WN WT WC WA WUu WD WO] EA EU ED HF.
  rewrite EA in WA. rewrite EU in WUu. rewrite ED in WD.
  constructor; cbn [cut_msg mflags mq man mau mad mopt]; try assumption.
  - destruct HF as [->| ->]; [exact WU|rewrite opcode_tc; exact WU].
  - eapply Forall_prefix; exact WA.
  - eapply Forall_prefix; exact WUu.
  - eapply Forall_prefix; exact WD.
Qed.

(* prefer_truncation for a dynamic update: when the zone section fits (it always does unless the
   reserved OPT/TSIG octets leave less room than one question), the result parses back to the update
   cut to a prefix of its prerequisite / update / additional record sets, for every padding block size *)
Theorem trunc_parses_update_lemma o pad m z ms rp w :
  org_ok o -> WfUpd o m z -> wf_tsig m -> to_wire m o ms rp true pad = Ok w ->
  exists q1 q2 a1 a2 u1 u2 d1 d2,
    mq m = q1 ++ q2 /\ man m = a1 ++ a2 /\ mau m = u1 ++ u2 /\ mad m = d1 ++ d2 /\
    (q2 <> [] -> a1 = [] /\ u1 = [] /\ d1 = []) /\ (a2 <> [] -> u1 = [] /\ d1 = []) /\ (u2 <> [] -> d1 = []) /\
    (q2 = [] ->
     exists m', from_wire w o po0 = Ok m' /\
       msg_equiv_p pad m' (cut_msg m (if cut_before q2 a2 u2 then Z.lor (mflags m) fTC else mflags m) q1 a1 u1 d1)).
Proof.
  intros OO WF WT H.
  destruct (trunc_prefix_lemma _ _ _ _ _ _ H) as (q1 & q2 & a1 & a2 & u1 & u2 & d1 & d2 & EQ & EA & EU & ED & C1 & C2 & C3 & R).
  exists q1, q2, a1, a2, u1, u2, d1, d2. repeat (split; [assumption|]).
  intros Q2. subst q2. rewrite app_nil_r in EQ. subst q1.
  set (fl := if cut_before [] a2 u2 then Z.lor (mflags m) fTC else mflags m) in *.
  assert (WC : WfUpd o (cut_msg m fl (mq m) a1 u1 d1) z).
  { eapply WfUpd_cut; try eassumption. unfold fl. destruct (cut_before [] a2 u2); auto. }
  exact (update_roundtrip_pad_lemma o OO pad _ z _ _ _ WC WT R).
Qed.

(* ---------- prefer_truncation never raises TooBig (no padding) ---------- *)
(* no emitter fails with TooBig of its own: that error only comes from the size check *)
Lemma vl_loop_err : forall ls total i j e, vl_loop ls total i j = Lib e -> e = eLabelTooLong.
Proof.
  induction ls as [|l r IH]; intros total i j e H; cbn [vl_loop] in H; [discriminate|].
  destruct (zlen l >? 63); [injection H as <-; reflexivity|]. eapply IH. exact H.
Qed.

Lemma mk_name_err n e : mk_name n = Lib e -> e <> eTooBig.
Proof.
  unfold mk_name, validate_labels. destruct (vl_loop n 0 None 0) as [[total i]| |] eqn:V.
  - destruct (total >? 255); [intros H; injection H as <-; discriminate|].
    destruct i as [k|]; [|discriminate]. destruct (Nat.eqb k (length n - 1)); [discriminate|].
    intros H; injection H as <-; discriminate.
  - apply vl_loop_err in V. subst. intros H; injection H as <-; discriminate.
  - discriminate.
Qed.

Definition no_tb (E : emitter) : Prop := forall pos t, E pos t <> Lib eTooBig.

Lemma no_tb_nm n o c : no_tb (nm_em n o c).
Proof.
  intros pos t H. unfold nm_em, full_labels in H.
  destruct (is_absolute n).
  - cbn [bind] in H. destruct (mk_name n) as [L| |] eqn:M; cbn [bind] in H; try discriminate.
    injection H as ->. exact (mk_name_err _ _ M eq_refl).
  - destruct o as [org|]; [|cbn [bind] in H; discriminate].
    destruct (is_absolute org); [|cbn [bind] in H; discriminate]. cbn [bind] in H.
    destruct (mk_name (n ++ org)) as [L| |] eqn:M; cbn [bind] in H; try discriminate.
    injection H as ->. exact (mk_name_err _ _ M eq_refl).
Qed.

Lemma pack16_no_lib v e : pack16 v <> Lib e.
Proof. unfold pack16. destruct (_ && _); discriminate. Qed.
Lemma pack32_no_lib v e : pack32 v <> Lib e.
Proof. unfold pack32. destruct (_ && _); discriminate. Qed.

Lemma no_tb_rd : forall ps o c, no_tb (rd_em ps o c).
Proof.
  induction ps as [|p r IH]; intros o c pos t H; [discriminate|].
  destruct p as [b|n|n|n]; cbn [rd_em] in H.
  - destruct (rd_em r o c (pos + zlen b) t) as [[e2 t2]| |] eqn:E; cbn [bind] in H; try discriminate.
    injection H as ->. exact (IH _ _ _ _ E).
  - destruct (nm_em n o c pos t) as [[e1 t1]| |] eqn:E1; cbn [bind fst snd] in H; try discriminate.
    + destruct (rd_em r o c (pos + zlen e1) t1) as [[e2 t2]| |] eqn:E; cbn [bind] in H; try discriminate.
      injection H as ->. exact (IH _ _ _ _ E).
    + injection H as ->. exact (no_tb_nm _ _ _ _ _ E1).
  - destruct (nm_em n o false pos t) as [[e1 t1]| |] eqn:E1; cbn [bind fst snd] in H; try discriminate.
    + destruct (rd_em r o c (pos + zlen e1) t1) as [[e2 t2]| |] eqn:E; cbn [bind] in H; try discriminate.
      injection H as ->. exact (IH _ _ _ _ E).
    + injection H as ->. exact (no_tb_nm _ _ _ _ _ E1).
  - destruct (nm_em n o false pos t) as [[e1 t1]| |] eqn:E1; cbn [bind fst snd] in H; try discriminate.
    + destruct (rd_em r o c (pos + zlen e1) t1) as [[e2 t2]| |] eqn:E; cbn [bind] in H; try discriminate.
      injection H as ->. exact (IH _ _ _ _ E).
    + injection H as ->. exact (no_tb_nm _ _ _ _ _ E1).
Qed.

Lemma no_tb_rr owner ty cl ttl rd oo ro oc rc : no_tb (rr_em owner ty cl ttl rd oo ro oc rc).
Proof.
  intros pos t H. unfold rr_em in H.
  destruct (nm_em owner oo oc pos t) as [[e1 t1]| |] eqn:E1; cbn [bind fst snd] in H; try discriminate.
  2:{ injection H as ->. exact (no_tb_nm _ _ _ _ _ E1). }
  destruct (pack16 ty) as [h1| |] eqn:P1; cbn [bind] in H; try discriminate; [|exfalso; exact (pack16_no_lib _ _ P1)].
  destruct (pack16 cl) as [h2| |] eqn:P2; cbn [bind] in H; try discriminate; [|exfalso; exact (pack16_no_lib _ _ P2)].
  destruct (pack32 ttl) as [h3| |] eqn:P3; cbn [bind] in H; try discriminate; [|exfalso; exact (pack32_no_lib _ _ P3)].
  destruct (rd_em rd ro rc (pos + zlen e1 + 10) t1) as [[e2 t2]| |] eqn:E2; cbn [bind fst snd] in H; try discriminate.
  - destruct (zlen e2 >? 65535); discriminate.
  - injection H as ->. exact (no_tb_rd _ _ _ _ _ E2).
Qed.

Lemma no_tb_rrs : forall rds owner ty cl ttl o c, no_tb (rrs_em owner ty cl ttl rds o c).
Proof.
  induction rds as [|rd r IH]; intros owner ty cl ttl o c pos t H; [discriminate|].
  cbn [rrs_em] in H.
  destruct (rr_em owner ty cl ttl rd o o c c pos t) as [[e1 t1]| |] eqn:E1; cbn [bind fst snd] in H; try discriminate.
  - destruct (rrs_em owner ty cl ttl r o c (pos + zlen e1) t1) as [[e2 t2]| |] eqn:E; cbn [bind] in H; try discriminate.
    injection H as ->. exact (IH _ _ _ _ _ _ _ _ E).
  - injection H as ->. exact (no_tb_rr _ _ _ _ _ _ _ _ _ _ _ E1).
Qed.

Lemma no_tb_rrset rs o c : no_tb (rrset_em rs o c).
Proof. unfold rrset_em. intros pos t H. destruct (rrds rs); [exact (no_tb_rr _ _ _ _ _ _ _ _ _ _ _ H)|exact (no_tb_rrs _ _ _ _ _ _ _ _ _ H)]. Qed.

Lemma tracked_no_tb E sec n r : no_tb E -> tracked E sec n r <> Lib eTooBig.
Proof.
  intros X H. unfold tracked in H. unfold set_section in H.
  destruct (rsec r =? sec); cbn [bind] in H.
  - destruct (E (zlen (out r)) (tbl r)) as [[em t']| |] eqn:EE; cbn [bind fst snd] in H; try discriminate.
    + destruct (track_end _ _) as [big r2]. destruct big; discriminate.
    + injection H as ->. exact (X _ _ EE).
  - destruct (rsec r >? sec); cbn [bind] in H; [discriminate|].
    cbn [out tbl set_rsec] in H.
    destruct (E (zlen (out r)) (tbl r)) as [[em t']| |] eqn:EE; cbn [bind fst snd] in H; try discriminate.
    + destruct (track_end _ _) as [big r2]. destruct big; discriminate.
    + injection H as ->. exact (X _ _ EE).
Qed.

Lemma write_header_no_lib id r e : write_header id r <> Lib e.
Proof.
  unfold write_header. intros H.
  destruct (pack16 id) eqn:P0; cbn [bind] in H; try discriminate; [|exact (pack16_no_lib _ _ P0)].
  destruct (pack16 (rflags r)) eqn:P1; cbn [bind] in H; try discriminate; [|exact (pack16_no_lib _ _ P1)].
  destruct (pack16 (cq r)) eqn:P2; cbn [bind] in H; try discriminate; [|exact (pack16_no_lib _ _ P2)].
  destruct (pack16 (can r)) eqn:P3; cbn [bind] in H; try discriminate; [|exact (pack16_no_lib _ _ P3)].
  destruct (pack16 (cau r)) eqn:P4; cbn [bind] in H; try discriminate; [|exact (pack16_no_lib _ _ P4)].
  destruct (pack16 (cad r)) eqn:P5; cbn [bind] in H; try discriminate. exact (pack16_no_lib _ _ P5).
Qed.

Lemma reserve_no_lib size r e : reserve size r <> Lib e.
Proof. unfold reserve. destruct (size <? 0); [discriminate|]. destruct (size >? maxsz r); discriminate. Qed.

Lemma no_tb_q o n ty cl : no_tb (q_em o n ty cl).
Proof.
  intros pos t H. unfold q_em in H.
  destruct (nm_em n o true pos t) as [[e1 t1]| |] eqn:E1; cbn [bind fst snd] in H; try discriminate.
  2:{ injection H as ->. exact (no_tb_nm _ _ _ _ _ E1). }
  destruct (pack16 ty) eqn:P1; cbn [bind] in H; try discriminate; [|exact (pack16_no_lib _ _ P1)].
  destruct (pack16 cl) eqn:P2; cbn [bind] in H; try discriminate. exact (pack16_no_lib _ _ P2).
Qed.

Lemma add_questions_no_tb o : forall l r, add_questions o l r <> Lib eTooBig.
Proof.
  induction l as [|rs l IH]; intros r H; [discriminate|]. cbn [add_questions] in H.
  rewrite add_question_tracked in H.
  destruct (tracked _ _ _ r) as [[b1 r1]| |] eqn:T; cbn [bind fst snd] in H; try discriminate.
  - destruct b1; [discriminate|]. exact (IH _ H).
  - injection H as ->. exact (tracked_no_tb _ _ _ _ (no_tb_q _ _ _ _) T).
Qed.

Lemma add_rrsets_no_tb o sec : forall l r, add_rrsets o sec l r <> Lib eTooBig.
Proof.
  induction l as [|rs l IH]; intros r H; [discriminate|]. cbn [add_rrsets] in H.
  rewrite add_rrset_tracked in H.
  destruct (tracked _ _ _ r) as [[b1 r1]| |] eqn:T; cbn [bind fst snd] in H; try discriminate.
  - destruct b1; [discriminate|]. exact (IH _ H).
  - injection H as ->. exact (tracked_no_tb _ _ _ _ (no_tb_rrset _ _ _) T).
Qed.

Lemma opts_wire_no_lib : forall os e, opts_wire os <> Lib e.
Proof.
  induction os as [|[c d] os IH]; intros e H; [discriminate|]. cbn [opts_wire] in H.
  destruct (pack16 c) eqn:P1; cbn [bind] in H; try discriminate; [|exact (pack16_no_lib _ _ P1)].
  destruct (pack16 (zlen d)) eqn:P2; cbn [bind] in H; try discriminate; [|exact (pack16_no_lib _ _ P2)].
  destruct (opts_wire os) eqn:O; cbn [bind] in H; try discriminate. injection H as ->. exact (IH _ eq_refl).
Qed.

Lemma wire_labels_pos (n : name) : n <> [] -> 1 <= zlen (wire_labels false n).
Proof. destruct n as [|l r]; [congruence|]. intros _. rewrite wire_labels_cons, zlen_cons'. pose proof (zlen_nn (l ++ wire_labels false r)). lia. Qed.

(* compression never makes a name longer: a pointer (2 octets) only replaces a suffix of at least two labels *)
Lemma tw_em_le : forall L pos t, KeysLong t -> zlen (fst (tw_em L pos t)) <= zlen (wire_labels false L).
Proof.
  induction L as [|l r IH]; intros pos t KL; [cbn; lia|].
  cbn [tw_em]. destruct (tbl_get t (l :: r)) as [p|] eqn:E.
  - cbn [fst]. change (zlen (NameM.u16 (49152 + p))) with 2.
    destruct (tbl_get_some _ _ _ E) as (k & I & Eq). apply name_eqb_iff_ci in Eq. apply ci_equal_length in Eq.
    unfold KeysLong in KL. rewrite Forall_forall in KL. specialize (KL _ I). cbn [fst] in KL.
    assert (r <> []). { intros ->. unfold zlen in KL. cbn [length] in *. lia. }
    rewrite wire_labels_cons, zlen_cons', zlen_app'. pose proof (wire_labels_pos r H). pose proof (zlen_nn l). lia.
  - cbn [fst].
    assert (KL' : KeysLong (if (1 <? zlen (l :: r)) && (pos <=? 16383) then t ++ [(l :: r, pos)] else t)).
    { destruct (Z.ltb_spec 1 (zlen (l :: r))); cbn [andb]; [|exact KL]. destruct (pos <=? 16383); [|exact KL].
      apply Forall_app. split; [exact KL|]. constructor; [cbn [fst]; exact H|constructor]. }
    pose proof (IH (pos + 1 + zlen l) _ KL') as IH'.
    rewrite wire_labels_cons. rewrite (zlen_cons' (zlen l)), (zlen_cons' (zlen l) (l ++ wire_labels false r)), !zlen_app'. apply Zplus_le_compat_l. apply Zplus_le_compat_l. exact IH'.
Qed.

Lemma rr_em_compress_le kn ty cl ttl rd o pos t em t' et :
  KeysLong t -> is_absolute kn = true ->
  rr_em kn ty cl ttl rd o None true false pos t = Ok (em, t') ->
  rr_em kn ty cl ttl rd None None false false 0 [] = Ok (et, []) ->
  zlen em <= zlen et.
Proof.
  intros KL A H H0.
  destruct (rr_em_split _ _ _ _ _ _ _ _ _ _ _ _ _ H) as (e1 & t1 & e2 & N1 & D1 & _ & _ & _ & _ & ->).
  destruct (rr_em_split _ _ _ _ _ _ _ _ _ _ _ _ _ H0) as (f1 & u1 & f2 & M1 & M2 & _ & _ & _ & _ & ->).
  destruct (rd_em_nc _ _ _ _ _ _ D1) as (_ & NC). rewrite NC in M2. injection M2 as <- _.
  unfold nm_em in N1, M1. rewrite (full_labels_abs_origin kn o A) in N1.
  destruct (full_labels kn None) as [L| |]; cbn [bind] in *; try discriminate.
  injection N1 as N1. injection M1 as <- _.
  assert (E1 : e1 = fst (tw_em L pos t)) by (rewrite N1; reflexivity). subst e1.
  rewrite !zlen_app'. pose proof (tw_em_le L pos t KL). lia.
Qed.

Theorem trunc_no_toobig_lemma m o ms rp tr :
  compute_tsig_reserve m = Ok tr ->
  compute_opt_reserve m 0 + tr + 12 <= eff_limit ms rp ->
  to_wire m o ms rp true 0 <> Lib eTooBig.
Proof.
  intros TR0 HR0 H. pose proof (eff_limit_range ms rp) as He. set (e := eff_limit ms rp) in *.
  unfold to_wire in H. destruct (to_wire_st m o ms rp true 0) as [r| |] eqn:HS; cbn [bind] in H; try discriminate.
  injection H as ->.
  unfold to_wire_st in HS. fold e in HS.
  set (r0 := mkRst (repeat 0 12) [] 0 0 0 0 0 (mflags m) e 0 false) in *.
  set (ores := compute_opt_reserve m 0) in *.
  destruct (reserve ores r0) as [r1| |] eqn:R1; cbn [bind] in HS; [|exfalso; exact (reserve_no_lib _ _ _ R1)|discriminate].
  rewrite TR0 in HS. cbn [bind] in HS.
  destruct (reserve tr r1) as [r2| |] eqn:R2; cbn [bind] in HS; [|exfalso; exact (reserve_no_lib _ _ _ R2)|discriminate].
  destruct (reserve_le _ _ _ R1) as (B1 & M1). destruct (reserve_le _ _ _ R2) as (B2 & M2). cbn [maxsz r0] in B1, M1.
  apply reserve_spec in R1. destruct R1 as (O1 & T1 & L1 & V1 & _).
  apply reserve_spec in R2. destruct R2 as (O2 & T2 & L2 & V2 & _).
  assert (I2 : SInv e r2).
  { unfold SInv, TblBelow. rewrite O2, O1, T2, T1. cbn [out tbl r0 maxsz reserved] in *.
    change (zlen (repeat 0 12)) with 12. repeat split; try lia. constructor. }
  assert (K2 : KeysLong (tbl r2)) by (rewrite T2, T1; constructor).
  destruct (add_questions o (mq m) r2) as [[b1 s1]| |] eqn:S1; cbn [bind fst snd] in HS;
    [|exfalso; injection HS as ->; exact (add_questions_no_tb _ _ _ S1)|discriminate].
  destruct (add_questions_SInv _ _ _ _ _ _ I2 S1) as (J1 & X1 & _).
  pose proof (add_questions_KL _ _ _ _ _ _ I2 K2 S1) as KL1.
  destruct (if b1 then Ok (b1, s1) else add_rrsets o 1 (man m) s1) as [[b2 s2]| |] eqn:S2; cbn [bind fst snd] in HS;
    [|exfalso; injection HS as ->; destruct b1; [discriminate|exact (add_rrsets_no_tb _ _ _ _ S2)]|discriminate].
  assert (J2 : SInv e s2 /\ KeysLong (tbl s2) /\ maxsz s2 = maxsz r2).
  { destruct b1; [inversion S2; subst; auto|]. cbv iota in S2.
    destruct (add_rrsets_SInv _ _ _ _ _ _ _ J1 S2) as (A & B & _). split; [exact A|]. split; [exact (add_rrsets_KL _ _ _ _ _ _ _ J1 KL1 S2)|congruence]. }
  destruct J2 as (J2 & KL2 & X2).
  destruct (if b2 then Ok (b2, s2) else add_rrsets o 2 (mau m) s2) as [[b3 s3]| |] eqn:S3; cbn [bind fst snd] in HS;
    [|exfalso; injection HS as ->; destruct b2; [discriminate|exact (add_rrsets_no_tb _ _ _ _ S3)]|discriminate].
  assert (J3 : SInv e s3 /\ KeysLong (tbl s3) /\ maxsz s3 = maxsz r2).
  { destruct b2; [inversion S3; subst; auto|]. cbv iota in S3.
    destruct (add_rrsets_SInv _ _ _ _ _ _ _ J2 S3) as (A & B & _). split; [exact A|]. split; [exact (add_rrsets_KL _ _ _ _ _ _ _ J2 KL2 S3)|congruence]. }
  destruct J3 as (J3 & KL3 & X3).
  destruct (if b3 then Ok (b3, s3) else add_rrsets o 3 (mad m) s3) as [[b4 s4]| |] eqn:S4; cbn [bind fst snd] in HS;
    [|exfalso; injection HS as ->; destruct b3; [discriminate|exact (add_rrsets_no_tb _ _ _ _ S4)]|discriminate].
  assert (J4 : SInv e s4 /\ KeysLong (tbl s4) /\ maxsz s4 = maxsz r2).
  { destruct b3; [inversion S4; subst; auto|]. cbv iota in S4.
    destruct (add_rrsets_SInv _ _ _ _ _ _ _ J3 S4) as (A & B & _). split; [exact A|]. split; [exact (add_rrsets_KL _ _ _ _ _ _ _ J3 KL3 S4)|congruence]. }
  destruct J4 as (J4 & KL4 & X4).
  set (r3 := if b4 then (if rsec s4 <? 3 then set_rflags s4 (Z.lor (rflags s4) fTC) else s4) else s4) in *.
  assert (HS' : (do r5 <- match mopt m with
                          | Some o0 => do br <- add_opt o o0 0 ores tr (release_reserved r3); raise_if_big br
                          | None => Ok (release_reserved r3) end;
                 do r6 <- write_header (mid m) r5;
                 match mtsig m with
                 | Some (kn, rd) => do br <- write_tsig o kn rd r6; do r7 <- raise_if_big br; write_header (mid m) r7
                 | None => Ok r6 end) = Lib eTooBig).
  { destruct b4; exact HS. }
  clear HS.
  assert (J5 : SInv e r3 /\ KeysLong (tbl r3) /\ maxsz r3 = maxsz r2).
  { unfold r3. destruct b4; [destruct (rsec s4 <? 3)|]; auto. }
  destruct J5 as ((K1 & K2' & K3 & K4 & K5) & KL5 & X5).
  set (r4 := release_reserved r3) in *.
  assert (F4 : zlen (out r4) + ores + tr <= e /\ maxsz r4 = e /\ TblBelow r4 /\ KeysLong (tbl r4) /\ padded r4 = padded r3 /\ 12 <= zlen (out r4)).
  { unfold r4, release_reserved. cbn [out tbl maxsz padded set_limits]. rewrite X5, M2, M1 in K2'. split; [lia|]. split; [lia|]. auto. }
  destruct F4 as (F4 & MX4 & TB4 & KL4' & P4 & H124).
  (* the OPT record fits *)
  assert (F5 : (exists r5, match mopt m with
                          | Some o0 => do br <- add_opt o o0 0 ores tr r4; raise_if_big br
                          | None => Ok r4 end = Ok r5 /\
                          zlen (out r5) + tr <= e /\ maxsz r5 = e /\ TblBelow r5 /\ KeysLong (tbl r5) /\ padded r5 = padded r3 /\ 12 <= zlen (out r5))
               \/ exists x, match mopt m with
                          | Some o0 => do br <- add_opt o o0 0 ores tr r4; raise_if_big br
                          | None => Ok r4 end = x /\ x <> Lib eTooBig /\ (forall r5, x <> Ok r5)).
  { destruct (mopt m) as [oo|] eqn:EO.
    - destruct (add_opt o oo 0 ores tr r4) as [[b5 s5]| |] eqn:A5; cbn [bind].
      + unfold add_opt in A5. cbn [Z.eqb] in A5. apply bind_ok in A5. destruct A5 as (rs & HRS & A5).
        rewrite add_rrset_tracked in A5.
        destruct (tracked_spec _ _ _ _ _ _ (ext_rrset_em _ _ _) TB4 A5) as (_ & emo & new & HE & FN & [(-> & Hfit & ->)|(-> & Hbig & ->)]).
        * left. eexists. split; [reflexivity|]. cbn [fst snd raise_if_big out tbl maxsz padded inc_count set_out set_rsec].
          pose proof (opt_em_len _ _ _ _ _ _ _ KL4' HRS HE) as Lo.
          assert (ores = zlen emo). { unfold ores. rewrite opt_reserve0, EO. lia. }
          rewrite zlen_app'. split; [lia|]. split; [exact MX4|]. split; [apply TblBelow_step; assumption|].
          split; [|split; [exact P4|pose proof (zlen_nn emo); lia]].
          apply Forall_app. split; [exact KL4'|]. eapply Forall_impl; [|exact FN]. cbn beta. intros kv (_ & Hk). exact Hk.
        * exfalso. pose proof (opt_em_len _ _ _ _ _ _ _ KL4' HRS HE) as Lo.
          assert (ores = zlen emo). { unfold ores. rewrite opt_reserve0, EO. lia. } lia.
      + right. eexists. split; [reflexivity|]. split; [|discriminate].
        intros HX. injection HX as ->. unfold add_opt in A5. cbn [Z.eqb] in A5.
        destruct (opt_rrset oo) as [rs| |] eqn:HRS; cbn [bind] in A5; try discriminate.
        * rewrite add_rrset_tracked in A5. exact (tracked_no_tb _ _ _ _ (no_tb_rrset _ _ _) A5).
        * unfold opt_rrset in HRS. destruct (opts_wire (oopts oo)) eqn:OW; cbn [bind] in HRS; try discriminate.
          injection HRS as ->. injection A5 as ->. exact (opts_wire_no_lib _ _ OW).
      + right. eexists. split; [reflexivity|]. split; discriminate.
    - left. exists r4. split; [reflexivity|]. repeat split; try assumption. lia. }
  destruct F5 as [(r5 & E5 & F5 & MX5 & TB5 & KL5' & P5 & H125)|(x & E5 & NX & NOk)].
  2:{ rewrite E5 in HS'. destruct x as [r5| |]; [exfalso; eapply NOk; reflexivity|cbn [bind] in HS'; congruence|cbn [bind] in HS'; discriminate]. }
  rewrite E5 in HS'. cbn [bind] in HS'.
  destruct (write_header (mid m) r5) as [r6| |] eqn:R6; cbn [bind] in HS';
    [|exact (write_header_no_lib _ _ _ R6)|discriminate].
  destruct (write_header_spec _ _ _ H125 R6) as (A6 & B6 & C6 & D6 & P6 & _).
  destruct (mtsig m) as [[kn rd]|] eqn:ET; [|discriminate].
  rewrite write_tsig_eq in HS'.
  destruct (tsig_reserve_spec m kn rd tr ET TR0) as (Akn & et0 & HE0 & ->).
  destruct (tracked (rr_em kn tTSIG cANY 0 rd o None (negb (padded r6)) false) 3 1 r6) as [[b8 s8]| |] eqn:A8;
    cbn [bind fst snd] in HS'; [|injection HS' as ->; exact (tracked_no_tb _ _ _ _ (no_tb_rr _ _ _ _ _ _ _ _ _) A8)|discriminate].
  assert (TB6 : TblBelow r6) by (unfold TblBelow in *; rewrite A6, B6; exact TB5).
  destruct (tracked_spec _ _ _ _ _ _ (ext_rr_em _ _ _ _ _ _ _ _ _) TB6 A8) as (_ & emt & new & HE & _ & [(-> & _ & ->)|(-> & Hbig & ->)]).
  - (* it fitted: what follows is the count patch and the header *)
    destruct (pack16 _) eqn:PC; cbn [bind] in HS'; try discriminate; [|exact (pack16_no_lib _ _ PC)].
    unfold raise_if_big in HS'. cbn [fst snd bind] in HS'.
    match type of HS' with write_header ?i ?x = _ => exact (write_header_no_lib i x _ HS') end.
  - (* written with compression it is at most its reserved, uncompressed size *)
    assert (LE : zlen emt <= zlen et0).
    { rewrite B6 in HE. destruct (padded r6).
      - cbn [negb] in HE. pose proof (rr_em_nc _ _ _ _ _ _ _ _ _ _ HE Akn) as HE'. rewrite HE0 in HE'. injection HE' as <-. lia.
      - cbn [negb] in HE. exact (rr_em_compress_le _ _ _ _ _ _ _ _ _ _ _ KL5' Akn HE HE0). }
    lia.
Qed.

(* ---------- the same run with other limit, reserve and padded flag ---------- *)
Definition wg (a : rst) (x v : Z) (p : bool) : rst :=
  mkRst (out a) (tbl a) (cq a) (can a) (cau a) (cad a) (rsec a) (rflags a) x v p.

Lemma tracked_wg E sec n a a' x v p :
  tracked E sec n a = Ok (false, a') -> zlen (out a') <= x ->
  tracked E sec n (wg a x v p) = Ok (false, wg a' x v p).
Proof.
  unfold tracked. intros H Hx. apply bind_ok in H. destruct H as (r1 & S & H).
  assert (S' : set_section sec (wg a x v p) = Ok (wg r1 x v p) /\ out r1 = out a /\ tbl r1 = tbl a).
  { unfold set_section in *. cbn [rsec wg]. destruct (rsec a =? sec); [injection S as <-; auto|].
    destruct (rsec a >? sec); [discriminate|]. injection S as <-. auto. }
  destruct S' as (S' & O1 & T1). rewrite S'. cbn [bind]. cbn [out tbl wg].
  apply bind_ok in H. destruct H as ([em t'] & HE & H). cbn [fst snd] in H. rewrite HE. cbn [bind fst snd].
  unfold track_end in *. unfold wg. cbn [out maxsz set_out] in *.
  destruct (zlen (out r1 ++ em) >? maxsz r1); [discriminate|]. injection H as <-.
  cbn [out inc_count set_out] in Hx. destruct (Z.gtb_spec (zlen (out r1 ++ em)) x); [lia|]. reflexivity.
Qed.

Lemma add_rrsets_wg o sec x v p : forall l a a',
  add_rrsets o sec l a = Ok (false, a') -> zlen (out a') <= x ->
  add_rrsets o sec l (wg a x v p) = Ok (false, wg a' x v p).
Proof.
  induction l as [|rs l IH]; intros a a' H Hx.
  - injection H as <-. reflexivity.
  - cbn [add_rrsets] in *. apply bind_ok in H. destruct H as ([b1 a1] & H1 & H). cbn [fst snd] in H.
    destruct b1; [discriminate|]. rewrite add_rrset_tracked in *.
    destruct (add_rrsets_wm o sec l a1 a' 0 H) as (_ & M2 & _).
    rewrite (tracked_wg _ _ _ _ _ x v p H1) by lia. cbn [bind fst snd]. apply IH; assumption.
Qed.

Lemma add_questions_wg o x v p : forall l a a',
  add_questions o l a = Ok (false, a') -> zlen (out a') <= x ->
  add_questions o l (wg a x v p) = Ok (false, wg a' x v p).
Proof.
  induction l as [|rs l IH]; intros a a' H Hx.
  - injection H as <-. reflexivity.
  - cbn [add_questions] in *. apply bind_ok in H. destruct H as ([b1 a1] & H1 & H). cbn [fst snd] in H.
    destruct b1; [discriminate|]. rewrite add_question_tracked in *.
    destruct (add_questions_wm o l a1 a' 0 H) as (_ & M2 & _).
    rewrite (tracked_wg _ _ _ _ _ x v p H1) by lia. cbn [bind fst snd]. apply IH; assumption.
Qed.

Lemma write_header_wg id a a' x v p : write_header id a = Ok a' -> write_header id (wg a x v p) = Ok (wg a' x v p).
Proof.
  unfold write_header. cbn [wg rflags cq can cau cad out tbl].
  destruct (pack16 id); cbn [bind]; try discriminate.
  destruct (pack16 (rflags a)); cbn [bind]; try discriminate.
  destruct (pack16 (cq a)); cbn [bind]; try discriminate.
  destruct (pack16 (can a)); cbn [bind]; try discriminate.
  destruct (pack16 (cau a)); cbn [bind]; try discriminate.
  destruct (pack16 (cad a)); cbn [bind]; try discriminate.
  intros H. injection H as <-. reflexivity.
Qed.

(* ---------- a padded, unsigned rendering is the unpadded rendering of the message with the padding option ---------- *)
Theorem padded_explicit_lemma m o ms rp pad w o1 :
  mtsig m = None -> mopt m = Some o1 -> to_wire m o ms rp false pad = Ok w ->
  exists sz, to_wire (set_opt m (pad_opt o1 pad sz)) o ms rp false 0 = Ok w.
Proof.
  intros NT EO H. pose proof (eff_limit_range ms rp) as He. set (e := eff_limit ms rp) in *.
  unfold to_wire in H. apply bind_ok in H. destruct H as (r & HR & H). injection H as <-.
  rewrite to_wire_st_body4 in HR. fold e in HR.
  apply bind_ok in HR. destruct HR as ([tr s4] & B4 & FIN). cbn [fst snd] in FIN.
  destruct (body4_KL _ _ _ _ _ _ (proj1 He) B4) as (KL4 & TB4).
  set (oresP := compute_opt_reserve m pad) in *.
  (* the stages of the padded run *)
  unfold body4 in B4. fold oresP in B4.
  set (r0 := mkRst (repeat 0 12) [] 0 0 0 0 0 (mflags m) e 0 false) in *.
  apply bind_ok in B4. destruct B4 as (r1 & R1 & B4).
  apply bind_ok in B4. destruct B4 as (tr' & TR & B4).
  assert (tr' = 0) by (unfold compute_tsig_reserve in TR; rewrite NT in TR; congruence). subst tr'.
  apply bind_ok in B4. destruct B4 as (r2 & R2 & B4).
  apply bind_ok in B4. destruct B4 as ([b1 s1] & S1 & B4). cbn [fst snd] in B4.
  apply bind_ok in B4. destruct B4 as ([b2 s2] & S2 & B4). cbn [fst snd] in B4.
  apply bind_ok in B4. destruct B4 as ([b3 s3] & S3 & B4). cbn [fst snd] in B4.
  apply bind_ok in B4. destruct B4 as ([b4 s4'] & S4 & B4). cbn [fst snd] in B4.
  destruct b4; [discriminate|]. injection B4 as <- ->.
  destruct b3; [injection S4 as ?; discriminate|]. destruct b2; [injection S3 as ?; discriminate|].
  destruct b1; [injection S2 as ?; discriminate|].
  destruct (reserve_le _ _ _ R1) as (B1 & M1). destruct (reserve_le _ _ _ R2) as (B2 & M2). cbn [maxsz r0] in B1, M1.
  assert (E1 : r1 = set_limits r0 (e - oresP) oresP).
  { unfold reserve in R1. destruct (oresP <? 0); [discriminate|]. destruct (oresP >? maxsz r0); [discriminate|].
    injection R1 as <-. cbn [maxsz reserved r0]. f_equal. }
  assert (E2 : r2 = set_limits r1 (maxsz r1) (reserved r1)).
  { unfold reserve in R2. destruct (0 <? 0); [discriminate|]. destruct (0 >? maxsz r1); [discriminate|].
    injection R2 as <-. f_equal; lia. }
  destruct (add_questions_wm o _ _ _ 0 S1) as (W1 & G1 & _).
  destruct (add_rrsets_wm o 1 _ _ _ 0 S2) as (W2 & G2 & _).
  destruct (add_rrsets_wm o 2 _ _ _ 0 S3) as (W3 & G3 & _).
  destruct (add_rrsets_wm o 3 _ _ _ 0 S4) as (W4 & G4 & _).
  (* the rest of the padded run *)
  unfold finish in FIN. rewrite NT, EO in FIN. set (r4 := release_reserved s4) in *.
  apply bind_ok in FIN. destruct FIN as (r5 & R5 & FIN). apply bind_ok in FIN. destruct FIN as (r6 & R6 & FIN).
  injection FIN as <-.
  apply bind_ok in R5. destruct R5 as ([b5 s5] & A5 & R5). unfold raise_if_big in R5. cbn [fst snd] in R5.
  destruct b5; [discriminate|]. injection R5 as <-.
  rewrite add_opt_pad in A5.
  set (sz := zlen (out r4) + oresP + 0) in *. set (o2 := pad_opt o1 pad sz) in *.
  exists sz. fold o2. set (m2 := set_opt m o2).
  unfold add_opt in A5. cbn [Z.eqb] in A5. apply bind_ok in A5. destruct A5 as (rs & HRS & A5).
  rewrite add_rrset_tracked in A5.
  destruct (pad_st_fields r4 pad) as (Po & Pt & _ & _ & _ & _ & _ & _ & _).
  assert (TB4p : TblBelow (pad_st r4 pad)) by (unfold TblBelow; rewrite Po, Pt; exact TB4).
  assert (KL4p : KeysLong (tbl (pad_st r4 pad))) by (rewrite Pt; exact KL4).
  destruct (tracked_spec _ _ _ _ _ _ (ext_rrset_em _ _ _) TB4p A5) as (_ & emo & new & HE & _ & [(_ & Hfit & Es5)|(Hb & _)]);
    [|discriminate].
  pose proof (opt_em_len _ _ _ _ _ _ _ KL4p HRS HE) as Lo.
  set (oresQ := compute_opt_reserve m2 0).
  assert (EQ : oresQ = zlen emo).
  { unfold oresQ. rewrite opt_reserve0. unfold m2. cbn [mopt set_opt]. lia. }
  assert (MX4 : maxsz (pad_st r4 pad) = e /\ maxsz s4 + reserved s4 = e /\ padded s4 = false).
  { assert (maxsz s4 = maxsz r2 /\ reserved s4 = reserved r2 /\ padded s4 = padded r2).
    { assert (I2 : SInv e r2).
      { subst r2 r1. unfold SInv, TblBelow. cbn [out tbl maxsz reserved set_limits r0]. change (zlen (repeat 0 12)) with 12.
        repeat split; try lia. constructor. }
      destruct (add_questions_SInv _ _ _ _ _ _ I2 S1) as (J1 & X1 & Y1 & _).
      destruct (add_rrsets_SInv _ _ _ _ _ _ _ J1 S2) as (J2 & X2 & Y2 & _).
      destruct (add_rrsets_SInv _ _ _ _ _ _ _ J2 S3) as (J3 & X3 & Y3 & _).
      destruct (add_rrsets_SInv _ _ _ _ _ _ _ J3 S4) as (J4 & X4 & Y4 & _).
      split; [congruence|]. split; [congruence|congruence]. }
    destruct H as (A & B & C). subst r2 r1. cbn [maxsz reserved padded set_limits r0] in *.
    split; [|split; [lia|congruence]].
    unfold pad_st. destruct (pad =? 0); unfold r4, release_reserved; cbn [maxsz set_limits set_padded]; lia. }
  destruct MX4 as (MXp & MS4 & PS4).
  rewrite Po, MXp in Hfit.
  assert (O12 : zlen (out r2) = 12) by (subst r2 r1; reflexivity).
  assert (Hs4 : 12 <= zlen (out s4)) by lia.
  change (out r4) with (out s4) in Hfit.
  (* the unpadded run on the message with the padding option *)
  unfold to_wire. rewrite to_wire_st_body4. fold e.
  assert (B4Q : body4 m2 o e 0 = Ok (0, wg s4 (e - oresQ) oresQ false)).
  { unfold body4. fold oresQ. change (mflags m2) with (mflags m). fold r0.
    pose proof (zlen_nn emo).
    assert (R1Q : reserve oresQ r0 = Ok (set_limits r0 (e - oresQ) oresQ)).
    { unfold reserve. destruct (Z.ltb_spec oresQ 0); [lia|]. cbn [maxsz reserved r0].
      destruct (Z.gtb_spec oresQ e); [lia|]. f_equal; try lia. }
    rewrite R1Q. cbn [bind].
    assert (TRQ : compute_tsig_reserve m2 = Ok 0) by (unfold compute_tsig_reserve; change (mtsig m2) with (mtsig m); rewrite NT; reflexivity).
    rewrite TRQ. cbn [bind].
    assert (R2Q : reserve 0 (set_limits r0 (e - oresQ) oresQ) = Ok (wg r2 (e - oresQ) oresQ false)).
    { unfold reserve. cbn [Z.ltb maxsz reserved set_limits]. destruct (Z.gtb_spec 0 (e - oresQ)); [lia|].
      subst r2 r1. unfold wg. cbn [out tbl cq can cau cad rsec rflags set_limits r0]. change (0 <? 0) with false. cbv iota.
      unfold set_limits. cbn [out tbl cq can cau cad rsec rflags padded r0]. f_equal. f_equal; lia. }
    rewrite R2Q. cbn [bind]. change (mq m2) with (mq m). change (man m2) with (man m). change (mau m2) with (mau m).
    change (mad m2) with (mad m).
    rewrite (add_questions_wg o _ _ _ _ _ _ S1) by lia. cbn [bind fst snd].
    rewrite (add_rrsets_wg o 1 _ _ _ _ _ _ S2) by lia. cbn [bind fst snd].
    rewrite (add_rrsets_wg o 2 _ _ _ _ _ _ S3) by lia. cbn [bind fst snd].
    rewrite (add_rrsets_wg o 3 _ _ _ _ _ _ S4) by lia. reflexivity. }
  rewrite B4Q. cbn [bind fst snd]. unfold finish. change (mtsig m2) with (mtsig m). rewrite NT.
  change (mopt m2) with (Some o2). change (mid m2) with (mid m).
  assert (R4Q : release_reserved (wg s4 (e - oresQ) oresQ false) = wg (pad_st r4 pad) e 0 false).
  { unfold release_reserved, wg, pad_st, r4. destruct (pad =? 0);
      cbn [out tbl cq can cau cad rsec rflags maxsz reserved set_limits set_padded release_reserved];
      unfold set_limits; cbn [out tbl cq can cau cad rsec rflags padded]; f_equal; lia. }
  rewrite R4Q. unfold add_opt. cbn [Z.eqb]. rewrite HRS. cbn [bind]. rewrite add_rrset_tracked.
  assert (Ls5 : zlen (out s5) <= e).
  { rewrite Es5. cbn [out inc_count set_out]. rewrite Po, zlen_app'. change (out r4) with (out s4). lia. }
  rewrite (tracked_wg _ _ _ _ _ e 0 false A5 Ls5). cbn [bind fst snd]. unfold raise_if_big. cbn [fst snd bind].
  rewrite (write_header_wg _ _ _ e 0 false R6). reflexivity.
Qed.

Lemma to_wire_nopt m o ms rp pf pad : mopt m = None -> to_wire m o ms rp pf pad = to_wire m o ms rp pf 0.
Proof. intros H. unfold to_wire, to_wire_st, compute_opt_reserve. rewrite H. reflexivity. Qed.

(* a padded rendering of an unsigned message: the parsed message (which carries the padding option) renders,
   without padding, to the same octets *)
Theorem rerender_identical_padded_lemma o pad m ms rp w m' :
  org_ok o -> WfMsg o m -> mtsig m = None ->
  to_wire m o ms rp false pad = Ok w -> from_wire w o po0 = Ok m' ->
  to_wire m' o ms rp false 0 = Ok w.
Proof.
  intros OO WF NT H HF.
  assert (WT : forall x, mtsig x = None -> wf_tsig x) by (intros x Hx; unfold wf_tsig; rewrite Hx; exact Logic.I).
  destruct (mopt m) as [o1|] eqn:EO.
  - destruct (padded_explicit_lemma m o ms rp pad w o1 NT EO H) as (sz & H2).
    set (m2 := set_opt m (pad_opt o1 pad sz)) in *.
    assert (WF2 : WfMsg o m2).
    { destruct WF as [W0 WQ WA WU WD KA KU KD WO]. constructor; try assumption.
      cbn [mopt m2 set_opt]. rewrite EO in WO. destruct WO as (WO1 & WO2). split; [apply pad_opt_ok; exact WO1|exact WO2]. }
    exact (rerender_identical_lemma o m2 ms rp w m' OO WF2 (WT m2 NT) H2 HF).
  - rewrite (to_wire_nopt m o ms rp false pad EO) in H.
    exact (rerender_identical_lemma o m ms rp w m' OO WF (WT m NT) H HF).
Qed.

(* ---------- refuted strengthenings (the known findings, as theorems) ---------- *)
(* C08-reserve-valueerror: when the reserved OPT (+TSIG) octets alone exceed the limit, Renderer.reserve raises
   ValueError: neither TooBig nor a truncated message, even with prefer_truncation *)
Definition big_opt_msg : msg :=
  mkMsg 1 0 [mkRR [[97]; []] 1 1 0 None 0 []] [] [] [] (Some (mkOpt 0 1232 [(65001, repeat 0 600)])) None.

Lemma toobig_or_truncated_refuted_lemma :
  exists m, to_wire m None 512 0 true 0 = Internal iValueError /\ to_wire m None 512 0 false 0 = Internal iValueError /\
            exists w, to_wire m None 65535 0 false 0 = Ok w.
Proof. exists big_opt_msg. split; [vm_compute; reflexivity|]. split; [vm_compute; reflexivity|]. eexists. vm_compute. reflexivity. Qed.

(* C03-update-meta-class-spelling: an update whose empty prerequisite is spelled (class ANY, deleting = None), as
   UpdateMessage.present(name) builds it, renders to the octets of the normal form (zone class, deleting = ANY);
   the reader returns the normal form, which is not the message that was rendered *)
Definition meta_spelled_update : msg :=
  mkMsg 8 10240 [mkRR [[101; 120]; []] 1 6 0 None 0 []]
        [mkRR [[97]; [101; 120]; []] 255 255 0 None 0 []] [] [] None None.

Lemma update_meta_spelling_refuted_lemma :
  exists m w m', to_wire m None 0 0 false 0 = Ok w /\ from_wire w None po0 = Ok m' /\
                 map rclass (man m') <> map rclass (man m) /\ to_wire m' None 0 0 false 0 = Ok w.
Proof.
  exists meta_spelled_update. eexists. eexists. split; [vm_compute; reflexivity|]. split; [vm_compute; reflexivity|].
  split; [vm_compute; discriminate|vm_compute; reflexivity].
Qed.


(* ---------- the recorded finding C08-reserve-valueerror, as a class of inputs ---------- *)
Lemma fold_reserve_nonneg : forall (os : list (Z * list Z)) a, 0 <= a ->
  0 <= fold_left (fun acc cd => acc + zlen (snd cd) + 4) os a.
Proof.
  induction os as [|cd os IH]; intros a Ha; [exact Ha|]. cbn [fold_left]. apply IH.
  pose proof (zlen_nonneg (snd cd)). lia.
Qed.

Lemma compute_opt_reserve_nonneg m pad : 0 <= compute_opt_reserve m pad.
Proof.
  unfold compute_opt_reserve. destruct (mopt m) as [o|]; [|lia].
  pose proof (fold_reserve_nonneg (oopts o) 11 ltac:(lia)). destruct (pad =? 0); lia.
Qed.

(* whenever the OPT reserve exceeds the effective limit, or the TSIG reserve exceeds what the OPT reserve left
   of it, Message.to_wire raises the ValueError of Renderer.reserve - with and without prefer_truncation -
   instead of TooBig *)
Lemma reserve_valueerror_lemma m o ms rp prefer pad :
  (eff_limit ms rp < compute_opt_reserve m pad \/
   exists t, compute_tsig_reserve m = Ok t /\ eff_limit ms rp - compute_opt_reserve m pad < t) ->
  to_wire m o ms rp prefer pad = Internal iValueError.
Proof.
  intros H. unfold to_wire, to_wire_st. cbv zeta.
  pose proof (compute_opt_reserve_nonneg m pad) as NN.
  unfold reserve at 1. cbn [maxsz reserved].
  destruct (Z.ltb_spec (compute_opt_reserve m pad) 0) as [|_]; [lia|].
  destruct (Z.gtb_spec (compute_opt_reserve m pad) (eff_limit ms rp)) as [G|G]; [reflexivity|].
  destruct H as [H|(t & ET & H)]; [lia|].
  cbn [bind]. rewrite ET. cbn [bind]. unfold reserve. cbn [maxsz reserved set_limits].
  destruct (Z.ltb_spec t 0) as [|_]; [reflexivity|].
  destruct (Z.gtb_spec t (eff_limit ms rp - compute_opt_reserve m pad)) as [|G2]; [reflexivity|lia].
Qed.
