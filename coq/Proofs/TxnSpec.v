(* C10: what the reference model predicts, in closed form - the laws of the reference store (get after
   put / delete, CNAME exclusivity), of the record-set algebra used on merge (TTL minimisation, singleton
   types, union / difference / exactness), RFC 1982 serial increments - and their transfer to the zone
   model (reads inside a transaction see its own writes). *)
From DV Require Import Base.Prelude Model.NameM Model.TxnM.
From DV Require Import Proofs.NameValid Proofs.NameOrder Proofs.NameRel.
From DV Require Import Proofs.TxnName Proofs.TxnStore Proofs.TxnLow Proofs.TxnSim Proofs.TxnThm Proofs.TxnIrrel.
Open Scope Z_scope.

(* ---------------------------------------------------------------- node_find through list surgery *)
Lemma node_find_app nd r ty cov :
  node_find (nd ++ [r]) cIN ty cov =
  match node_find nd cIN ty cov with
  | Some x => Some x
  | None => if rds_match r cIN ty cov then Some r else None
  end.
Proof.
  induction nd as [|x nd IH]; cbn [app node_find]; [destruct (rds_match r cIN ty cov); reflexivity|].
  destruct (rds_match x cIN ty cov); [reflexivity|exact IH].
Qed.

Lemma node_find_none_iff nd ty cov :
  Forall (fun r => r_cls r = cIN) nd ->
  (node_find nd cIN ty cov = None <-> ~ In (ty, cov) (map tkey nd)).
Proof.
  induction nd as [|x nd IH]; intros F; cbn [node_find map]; [split; auto|].
  inversion F; subst. destruct (rds_match x cIN ty cov) eqn:M.
  - apply (rds_match_tkey x ty cov H1) in M. split; [discriminate|]. intros H. exfalso. apply H. left. exact M.
  - rewrite (IH H2). split.
    + intros H [Hx|Hin]; [|auto]. apply (rds_match_tkey x ty cov H1) in Hx. congruence.
    + intros H Hin. apply H. right. exact Hin.
Qed.

Lemma node_find_some nd ty cov x : node_find nd cIN ty cov = Some x -> In x nd /\ rds_match x cIN ty cov = true.
Proof.
  induction nd as [|y nd IH]; cbn [node_find]; [discriminate|].
  destruct (rds_match y cIN ty cov) eqn:M.
  - intros H; inversion H; subst. split; [left; reflexivity|exact M].
  - intros H. destruct (IH H). split; [right|]; auto.
Qed.

Lemma node_find_filter p nd ty cov :
  node_wf nd ->
  node_find (filter p nd) cIN ty cov =
  match node_find nd cIN ty cov with
  | Some x => if p x then Some x else None
  | None => None
  end.
Proof.
  induction nd as [|y nd IH]; intros W; [reflexivity|]. cbn [filter node_find].
  pose proof W as [W1 W2]. inversion W1; inversion W2; subst.
  destruct (rds_match y cIN ty cov) eqn:M.
  - destruct (p y); cbn [node_find]; [rewrite M; reflexivity|].
    rewrite IH by (eapply node_wf_tail; eauto).
    assert (node_find nd cIN ty cov = None) as ->; [|reflexivity].
    apply node_find_none_iff; [exact H6|]. apply (rds_match_tkey y ty cov H5) in M. rewrite <- M. exact H1.
  - destruct (p y); cbn [node_find]; rewrite ?M; apply IH; eapply node_wf_tail; eauto.
Qed.

(* Node.replace_rdataset: the stored rdataset is found; an rdataset of another type survives unless the
   CNAME / other-data rule evicts it *)
Lemma node_find_replace nd r ty cov :
  node_wf nd -> r_cls r = cIN ->
  node_find (node_replace nd r) cIN ty cov =
  if (r_ty r =? ty) && (r_cov r =? cov) then Some r
  else match node_find nd cIN ty cov with
       | Some x => if evicts_rds (classify_rds r) x then None else Some x
       | None => None
       end.
Proof.
  intros W C. rewrite node_replace_filter by assumption. rewrite node_find_app, node_find_filter by exact W.
  assert (rds_match r cIN ty cov = (r_ty r =? ty) && (r_cov r =? cov)) as Mr
    by (unfold rds_match; rewrite C, Z.eqb_refl; reflexivity).
  rewrite Mr.
  destruct (node_find nd cIN ty cov) as [x|] eqn:F.
  - apply node_find_some in F. destruct F as [Hin Mx].
    assert (rds_match x cIN (r_ty r) (r_cov r) = (r_ty r =? ty) && (r_cov r =? cov)) as Mx'.
    { unfold rds_match in *. apply andb_true_iff in Mx. destruct Mx as [Mx Mc]. apply andb_true_iff in Mx.
      destruct Mx as [M1 M2]. apply Z.eqb_eq in M2, Mc. rewrite M1, M2, Mc. cbn [andb].
      rewrite (Z.eqb_sym ty), (Z.eqb_sym cov). reflexivity. }
    rewrite Mx'. destruct ((r_ty r =? ty) && (r_cov r =? cov)); cbn [orb negb]; [reflexivity|].
    destruct (evicts_rds (classify_rds r) x); reflexivity.
  - reflexivity.
Qed.

(* ---------------------------------------------------------------- laws of the reference store *)
Section Laws.
  Variable c : cfg.

  Lemma r_get_entries s n a ty cov :
    canon c n = Ok a -> r_get c s n ty cov = Ok (node_find (entries_at a (rs_entries s)) cIN ty cov).
  Proof. intros H. unfold r_get. rewrite H. cbn [bind]. rewrite node_find_entries. reflexivity. Qed.

  Lemma entries_put s a r a' :
    swf (rs_entries s) -> r_cls r = cIN ->
    entries_at a' (filter (fun e => negb (at_name a e &&
                 (rds_match (e_rds e) (r_cls r) (r_ty r) (r_cov r) || evicts (classify_rds r) e))) (rs_entries s)
                 ++ [mkEntry a r]) =
    if name_eqb a a' then node_replace (entries_at a (rs_entries s)) r else entries_at a' (rs_entries s).
  Proof.
    intros Hwf Cr. rewrite entries_at_app, entries_at_single.
    set (q := fun x => rds_match x cIN (r_ty r) (r_cov r) || evicts_rds (classify_rds r) x).
    rewrite (filter_ext _ (fun e => negb (at_name a e && q (e_rds e)))).
    2:{ intros e. unfold q. rewrite Cr. destruct (classify_rds r); reflexivity. }
    rewrite entries_at_filter. destruct (name_eqb a a') eqn:E.
    - rewrite <- (entries_at_congr a a' _ E). rewrite node_replace_filter by (auto; apply Hwf). reflexivity.
    - apply app_nil_r.
  Qed.

  (* get after put: same owner and same (type, covers) -> the stored rdataset; same owner, other type ->
     unchanged unless evicted by the CNAME / other-data rule; other owner -> unchanged *)
  Theorem r_get_put s n r s' n' a a' ty cov :
    swf (rs_entries s) -> r_cls r = cIN -> canon c n = Ok a -> canon c n' = Ok a' ->
    r_put c s n r = Ok s' ->
    r_get c s' n' ty cov =
    if name_eqb a a' then
      if (r_ty r =? ty) && (r_cov r =? cov) then Ok (Some r)
      else match r_get c s n' ty cov with
           | Ok (Some x) => if evicts_rds (classify_rds r) x then Ok None else Ok (Some x)
           | o => o
           end
    else r_get c s n' ty cov.
  Proof.
    intros Hwf Cr Ha Ha' Hp. unfold r_put in Hp. rewrite Ha in Hp. cbn [bind] in Hp. inversion Hp; subst s'. clear Hp.
    rewrite (r_get_entries _ n' a' ty cov Ha'), (r_get_entries s n' a' ty cov Ha'). cbn [rs_entries].
    rewrite entries_put by assumption. destruct (name_eqb a a') eqn:E; [|reflexivity].
    rewrite node_find_replace by (auto; apply Hwf). rewrite (entries_at_congr a a' _ E).
    destruct ((r_ty r =? ty) && (r_cov r =? cov)); [reflexivity|].
    destruct (node_find _ _ _ _) as [x|]; [destruct (evicts_rds _ x)|]; reflexivity.
  Qed.

  Theorem r_get_del_rds s n s' n' a a' ty0 cov0 ty cov :
    swf (rs_entries s) -> canon c n = Ok a -> canon c n' = Ok a' ->
    r_del_rds c s n ty0 cov0 = Ok s' ->
    r_get c s' n' ty cov =
    if name_eqb a a' && (ty0 =? ty) && (cov0 =? cov) then Ok None else r_get c s n' ty cov.
  Proof.
    intros Hwf Ha Ha' Hp. unfold r_del_rds in Hp. rewrite Ha in Hp. cbn [bind] in Hp. inversion Hp; subst s'. clear Hp.
    rewrite (r_get_entries _ n' a' ty cov Ha'), (r_get_entries s n' a' ty cov Ha'). cbn [rs_entries].
    unfold at_key. rewrite (entries_at_filter a (fun x => rds_match x cIN ty0 cov0)).
    destruct (name_eqb a a') eqn:E; cbn [andb]; [|reflexivity].
    rewrite node_find_filter by apply Hwf.
    destruct (node_find (entries_at a' (rs_entries s)) cIN ty cov) as [x|] eqn:F.
    - apply node_find_some in F. destruct F as [_ Mx].
      assert (rds_match x cIN ty0 cov0 = (ty0 =? ty) && (cov0 =? cov)) as Mx'.
      { unfold rds_match in *. apply andb_true_iff in Mx. destruct Mx as [Mx Mc]. apply andb_true_iff in Mx.
        destruct Mx as [M1 M2]. apply Z.eqb_eq in M2, Mc. rewrite M1, M2, Mc. cbn [andb].
        rewrite (Z.eqb_sym ty), (Z.eqb_sym cov). reflexivity. }
      rewrite Mx'. destruct ((ty0 =? ty) && (cov0 =? cov)); reflexivity.
    - destruct ((ty0 =? ty) && (cov0 =? cov)); reflexivity.
  Qed.

  Theorem r_exists_del_name s n s' n' a a' :
    canon c n = Ok a -> canon c n' = Ok a' -> r_del_name c s n = Ok s' ->
    r_exists c s' n' = if name_eqb a a' then Ok false else r_exists c s n'.
  Proof.
    intros Ha Ha' Hp. unfold r_del_name in Hp. rewrite Ha in Hp. cbn [bind] in Hp.
    unfold r_exists. rewrite Ha'. cbn [bind].
    destruct (existsb (at_name a) (rs_entries s)) eqn:Ex; inversion Hp; subst s'; clear Hp; cbn [rs_entries].
    - rewrite !existsb_entries.
      rewrite (filter_ext _ (fun e => negb (at_name a e && (fun _ : rds => true) (e_rds e))))
        by (intros e; rewrite andb_true_r; reflexivity).
      rewrite (entries_at_filter a (fun _ : rds => true) a' (rs_entries s)).
      destruct (name_eqb a a'); [|reflexivity].
      induction (entries_at a' (rs_entries s)); cbn; auto.
    - destruct (name_eqb a a') eqn:E; [|reflexivity].
      rewrite existsb_entries in *. rewrite <- (entries_at_congr a a' _ E).
      destruct (entries_at a (rs_entries s)); [reflexivity|discriminate].
  Qed.
End Laws.

(* ---------------------------------------------------------------- the record-set algebra on merge *)
Lemma fold_add_ttl l x : r_ttl (fold_left rds_add l x) = r_ttl x.
Proof. revert x. induction l; cbn; intros; [reflexivity|]. rewrite IHl. reflexivity. Qed.

Lemma fold_add_key l x : tkey (fold_left rds_add l x) = tkey x /\ r_cls (fold_left rds_add l x) = r_cls x.
Proof. revert x. induction l; cbn; intros; [auto|]. destruct (IHl (rds_add x a)) as [-> ->]. auto. Qed.

(* TTL minimisation: the merged TTL is the smaller one (the new one if nothing was there) *)
Theorem union_ttl e r :
  r_ttl (rds_union e r) = match r_items e with [] => r_ttl r | _ => Z.min (r_ttl e) (r_ttl r) end.
Proof.
  unfold rds_union. rewrite fold_add_ttl. unfold update_ttl.
  destruct (r_items e); [reflexivity|].
  destruct (r_ttl r <? r_ttl e) eqn:L; cbn [set_ttl r_ttl]; lia.
Qed.

Lemma mem_set_add x y l : mem x (set_add y l) = mem x l || rdata_eqb x y.
Proof.
  unfold set_add. destruct (mem y l) eqn:M.
  - destruct (rdata_eqb x y) eqn:E; [|rewrite orb_false_r; reflexivity].
    assert (x = y) as ->.
    { unfold rdata_eqb in E. apply andb_true_iff in E. destruct E as [E1 E2]. apply Z.eqb_eq in E1, E2.
      destruct x, y; cbn in *; congruence. }
    rewrite M. reflexivity.
  - induction l as [|z l IH]; cbn [app mem]; [rewrite orb_false_r; reflexivity|].
    cbn [mem] in M. apply orb_false_iff in M. destruct M as [_ M]. rewrite (IH M).
    destruct (rdata_eqb x z); reflexivity.
Qed.

(* plain types: the merged set is the union, existing records first *)
Theorem union_items_plain e r :
  is_singleton (r_ty e) = false ->
  (forall x, mem x (r_items (rds_union e r)) = mem x (r_items e) || mem x (r_items r)) /\
  exists suffix, r_items (rds_union e r) = r_items e ++ suffix.
Proof.
  intros Hs. unfold rds_union.
  assert (forall l x0, is_singleton (r_ty x0) = false ->
            (forall x, mem x (r_items (fold_left rds_add l x0)) = mem x (r_items x0) || mem x l) /\
            exists suffix, r_items (fold_left rds_add l x0) = r_items x0 ++ suffix) as K.
  { induction l as [|y l IH]; intros x0 H0; cbn [fold_left mem].
    - split; [intros; rewrite orb_false_r; reflexivity|exists []; rewrite app_nil_r; reflexivity].
    - assert (r_items (rds_add x0 y) = set_add y (r_items x0)) as A.
      { unfold rds_add. rewrite H0. destruct (r_items x0); reflexivity. }
      destruct (IH (rds_add x0 y)) as [I1 [sfx I2]]; [exact H0|]. split.
      + intros x. rewrite I1, A, mem_set_add. destruct (mem x (r_items x0)), (rdata_eqb x y), (mem x l); reflexivity.
      + rewrite I2, A. unfold set_add. destruct (mem y (r_items x0)); [exists sfx; reflexivity|].
        exists (y :: sfx). rewrite <- app_assoc. reflexivity. }
  destruct (K (r_items r) (update_ttl e (r_ttl r))) as [K1 K2].
  - unfold update_ttl. destruct (r_items e); [exact Hs|]. destruct (_ <? _); exact Hs.
  - assert (r_items (update_ttl e (r_ttl r)) = r_items e) as U
      by (unfold update_ttl; destruct (r_items e) eqn:Ee; [cbn; exact Ee|destruct (_ <? _); cbn; auto]).
    rewrite U in *. auto.
Qed.

(* singleton types (SOA, CNAME, DNAME, NSEC, NXT): the newest record wins *)
Theorem union_items_singleton e r :
  is_singleton (r_ty e) = true ->
  r_items (rds_union e r) =
  match rev (r_items r) with
  | [] => r_items e
  | newest :: _ => [newest]
  end.
Proof.
  intros Hs. unfold rds_union.
  assert (r_items (update_ttl e (r_ttl r)) = r_items e /\ r_ty (update_ttl e (r_ttl r)) = r_ty e) as [U1 U2].
  { unfold update_ttl. destruct (r_items e) eqn:Ee; [cbn; auto|destruct (_ <? _); cbn; auto]. }
  revert U1 U2. generalize (update_ttl e (r_ttl r)) as x0. intros x0 U1 U2. rewrite <- U1. rewrite <- U2 in Hs. clear U1 U2.
  revert x0 Hs. induction (r_items r) as [|y l IH] using rev_ind; intros x0 Hs; [reflexivity|].
  rewrite fold_left_app, rev_app_distr. cbn [fold_left rev app].
  unfold rds_add at 1.
  destruct (fold_add_key l x0) as [Hk _]. unfold tkey in Hk. inversion Hk as [[Ht Hc]]. rewrite Ht, Hs.
  cbn [r_items set_items]. destruct (r_items (fold_left rds_add l x0)); reflexivity.
Qed.

(* delete: the records of the argument are removed (record sets have no duplicates) *)
Definition nodup_items (l : list rdata) : Prop := NoDup l.

Lemma rdata_eqb_eq x y : rdata_eqb x y = true <-> x = y.
Proof.
  unfold rdata_eqb. rewrite andb_true_iff, !Z.eqb_eq. destruct x, y; cbn. split; [intros [-> ->]; reflexivity|].
  intros H; inversion H; auto.
Qed.

Lemma mem_In x l : mem x l = true <-> In x l.
Proof.
  induction l as [|y l IH]; cbn; [split; [discriminate|tauto]|].
  rewrite orb_true_iff, rdata_eqb_eq, IH. split; intros [H|H]; auto.
Qed.

Lemma mem_discard x y l : NoDup l -> mem x (discard y l) = mem x l && negb (rdata_eqb x y).
Proof.
  induction l as [|z l IH]; intros N; cbn [discard mem]; [reflexivity|].
  inversion N; subst. destruct (rdata_eqb y z) eqn:E.
  - apply rdata_eqb_eq in E. subst z.
    destruct (rdata_eqb x y) eqn:Exy; cbn [orb negb].
    + apply rdata_eqb_eq in Exy. subst x. rewrite andb_false_r.
      destruct (mem y l) eqn:M; [apply mem_In in M; contradiction|reflexivity].
    + rewrite andb_true_r. reflexivity.
  - cbn [mem]. rewrite (IH H2).
    destruct (rdata_eqb x z) eqn:Exz; cbn [orb]; [|reflexivity].
    apply rdata_eqb_eq in Exz. subst z.
    destruct (rdata_eqb x y) eqn:Exy; [|reflexivity].
    apply rdata_eqb_eq in Exy. subst y. rewrite (proj2 (rdata_eqb_eq x x) eq_refl) in E. discriminate.
Qed.

Lemma discard_nodup y l : NoDup l -> NoDup (discard y l).
Proof.
  induction l as [|z l IH]; intros N; cbn [discard]; [constructor|].
  inversion N; subst. destruct (rdata_eqb y z); [exact H2|].
  constructor; [|auto]. intros Hin. apply H1. apply mem_In. apply mem_In in Hin.
  rewrite (mem_discard z y l H2) in Hin. apply andb_true_iff in Hin. tauto.
Qed.

Theorem difference_items e r :
  NoDup (r_items e) ->
  (forall x, mem x (r_items (rds_difference e r)) = mem x (r_items e) && negb (mem x (r_items r))) /\
  r_ttl (rds_difference e r) = r_ttl e.
Proof.
  intros N. split; [|reflexivity]. unfold rds_difference. cbn [r_items set_items].
  revert N. generalize (r_items e) as l. induction (r_items r) as [|y l' IH]; intros l N x; cbn [fold_left mem].
  - rewrite andb_true_r. reflexivity.
  - rewrite (IH (discard y l) (discard_nodup y l N)), (mem_discard x y l N), negb_orb.
    destruct (mem x l), (rdata_eqb x y), (mem x l'); reflexivity.
Qed.

(* delete_exact: accepted exactly when every record of the argument is there *)
Theorem exact_test e r :
  r_cls e = r_cls r -> tkey e = tkey r -> NoDup (r_items e) -> NoDup (r_items r) ->
  (rds_eqb (rds_intersection e r) r = true <-> forall x, In x (r_items r) -> In x (r_items e)).
Proof.
  intros Hc Hk Ne Nr. unfold tkey in Hk. inversion Hk as [[Ht Hv]].
  assert (r_items (update_ttl e (r_ttl r)) = r_items e) as U
    by (unfold update_ttl; destruct (r_items e) eqn:Ee; [cbn; exact Ee|destruct (_ <? _); cbn; auto]).
  assert (forall f, r_cls (update_ttl e f) = r_cls e /\ r_ty (update_ttl e f) = r_ty e /\ r_cov (update_ttl e f) = r_cov e) as Uk
    by (intros f; unfold update_ttl; destruct (r_items e); [cbn; auto|destruct (_ <? _); cbn; auto]).
  unfold rds_eqb, rds_intersection. cbn [r_cls r_ty r_cov r_items set_items].
  destruct (Uk (r_ttl r)) as (-> & -> & ->). rewrite U, Hc, Ht, Hv, !Z.eqb_refl. cbn [andb].
  set (I := filter (fun x => mem x (r_items r)) (r_items e)).
  assert (NoDup I) as NI by (apply NoDup_filter; exact Ne).
  assert (forall x, In x I <-> In x (r_items e) /\ In x (r_items r)) as HI
    by (intros x; unfold I; rewrite filter_In, mem_In; tauto).
  unfold items_eqb. rewrite andb_true_iff, Nat.eqb_eq, forallb_forall. split.
  - intros [Hlen _] x Hx.
    (* I is a duplicate-free sublist of r of the same length, hence all of r *)
    assert (incl I (r_items r)) as Inc by (intros y Hy; apply HI in Hy; tauto).
    assert (incl (r_items r) I) as Inc'.
    { apply NoDup_length_incl; [exact NI|lia|exact Inc]. }
    apply Inc' in Hx. apply HI in Hx. tauto.
  - intros Hall. split.
    + apply Nat.le_antisymm.
      * apply NoDup_incl_length; [exact NI|]. intros y Hy. apply HI in Hy. tauto.
      * apply NoDup_incl_length; [exact Nr|]. intros y Hy. apply HI. auto.
    + intros x Hx. apply mem_In. apply HI in Hx. tauto.
Qed.

(* ---------------------------------------------------------------- RFC 1982 serial increments *)
(* dns.serial.Serial.__lt__ (32 bits) = RFC 1982 section 3.2 *)
Definition serial_lt (a b : Z) : Prop :=
  (a < b /\ b - a < 2147483648) \/ (a > b /\ a - b > 2147483648).

Definition bump (s : Z) : Z := if s =? 0 then 1 else s.

Theorem serial_increment v d :
  0 <= v < 4294967296 -> 1 <= d <= 2147483647 ->
  exists s, serial_add v d = Ok s /\ s = (v + d) mod 4294967296 /\ serial_lt v s.
Proof.
  intros Hv Hd. unfold serial_add. rewrite Z.abs_eq by lia.
  destruct (d >? 2147483647) eqn:E; [lia|].
  rewrite (Z.mod_small v) by lia. eexists. split; [reflexivity|]. split; [reflexivity|].
  unfold serial_lt. destruct (Z_lt_dec (v + d) 4294967296).
  - rewrite Z.mod_small by lia. left. lia.
  - assert ((v + d) mod 4294967296 = v + d - 4294967296) as ->.
    { symmetry. apply Z.mod_unique with 1; lia. }
    right. lia.
Qed.

(* with the "0 becomes 1" rule of update_serial the new serial still follows the old one, except in one
   corner: increment 2^31-1 landing on 0 gives distance exactly 2^31, which RFC 1982 leaves undefined *)
Theorem serial_increment_bumped v d s :
  0 <= v < 4294967296 -> 1 <= d <= 2147483646 -> serial_add v d = Ok s -> serial_lt v (bump s).
Proof.
  intros Hv Hd H. destruct (serial_increment v d Hv) as (s' & H' & Hs & Hlt); [lia|].
  assert (s' = s) as Es by congruence. rewrite Es in *. clear Es H'. unfold bump. destruct (s =? 0) eqn:E; [|exact Hlt].
  apply Z.eqb_eq in E. unfold serial_lt in *.
  assert (v + d = 4294967296) as Hsum.
  { rewrite E in Hs. symmetry in Hs. apply Z.mod_divide in Hs; [|lia]. destruct Hs as [k Hk]. nia. }
  right. lia.
Qed.

Theorem serial_increment_refused v d : d > 2147483647 -> serial_add v d = Lib eValueError.
Proof. intros H. unfold serial_add. rewrite Z.abs_eq by lia. destruct (d >? 2147483647) eqn:E; [reflexivity|lia]. Qed.

Theorem serial_corner_refuted :
  exists v d s, 0 <= v < 4294967296 /\ 1 <= d <= 2147483647 /\ serial_add v d = Ok s /\
                ~ serial_lt v (bump s) /\ ~ serial_lt (bump s) v.
Proof.
  exists 2147483649, 2147483647, 0. repeat split; try lia; try reflexivity.
  - unfold serial_lt, bump. cbn. lia.
  - unfold serial_lt, bump. cbn. lia.
Qed.

(* ---------------------------------------------------------------- the zone model obeys the same laws *)
Section Impl.
  Variable c : cfg.
  Hypothesis W : wfc c.

  (* reads inside a transaction see its own writes: what put_rdataset stored is what get_rdataset
     returns, under either spelling of the owner *)
  Theorem read_your_writes v s n r v' n' :
    R c v s -> Valid n -> Valid n' -> r_cls r = cIN ->
    res_rel ci (canon c n) (canon c n') ->
    put_rdataset c v n r = Ok v' ->
    match canon c n with
    | Ok _ => get_rdataset c v' n' (r_ty r) (r_cov r) = Ok (Some r)
    | _ => True
    end.
  Proof.
    intros HR Vn Vn' Cr Hc Hp.
    pose proof (sim_put c W v s n r HR Vn Cr) as SP. rewrite Hp in SP.
    destruct (r_put c s n r) as [s'|e|e] eqn:Rp; cbn in SP; try contradiction.
    destruct (canon c n) as [a|e|e] eqn:Ca; [|exact Logic.I|exact Logic.I].
    destruct (canon c n') as [a'|e|e] eqn:Ca'; cbn in Hc; try contradiction.
    rewrite (sim_get c W v' s' n' _ _ SP Vn').
    destruct HR as (_ & Hwf & _).
    rewrite (r_get_put c s n r s' n' a a' _ _ Hwf Cr Ca Ca' Rp).
    rewrite (proj2 (name_eqb_ck a a') Hc), !Z.eqb_refl. reflexivity.
  Qed.

  (* the whole add(): afterwards get() returns the union of what was there and what was added *)
  Theorem add_then_get v s n r v' :
    R c v s -> Valid n -> r_cls r = cIN -> (r_ty r =? tSOA) = false ->
    hl_add (zstore c) c false [AName n; ARds r] v = Ok v' ->
    exists old, get_rdataset c v n (r_ty r) (r_cov r) = Ok old /\
      get_rdataset c v' n (r_ty r) (r_cov r) =
      Ok (Some (match old with Some e => rds_union e r | None => r end)).
  Proof.
    intros HR Vn Cr Hsoa H. unfold hl_add, add_parse in H. cbn [rdataset_from_args bind fst snd] in H.
    rewrite Cr, Hsoa in H. cbn [Z.eqb negb andb] in H. change (cIN =? cIN) with true in H. cbn [negb bind] in H.
    cbn [s_get s_put zstore] in H.
    destruct (get_rdataset c v n (r_ty r) (r_cov r)) as [old|e|e] eqn:G; cbn [bind] in H; try discriminate.
    exists old. split; [reflexivity|].
    set (r2 := match old with Some e => rds_union e r | None => r end) in *.
    assert (r_cls r2 = cIN /\ r_ty r2 = r_ty r /\ r_cov r2 = r_cov r) as (C2 & T2 & V2).
    { unfold r2. destruct old as [e|]; [|auto].
      rewrite (sim_get c W v s n _ _ HR Vn) in G. pose proof (r_get_cls c s n _ _ e G) as Ce.
      unfold r_get in G. destruct (canon c n); cbn [bind] in G; try discriminate.
      destruct (find _ _) eqn:F; inversion G; subst. apply find_some in F. destruct F as [_ F].
      unfold at_key, rds_match in F. rewrite !andb_true_iff, !Z.eqb_eq in F.
      unfold rds_union. destruct (fold_add_key (r_items r) (update_ttl (e_rds e0) (r_ttl r))) as [K1 K2].
      unfold tkey in K1. inversion K1 as [[K3 K4]]. rewrite K3, K4, K2.
      unfold update_ttl. destruct (r_items (e_rds e0)); [cbn; tauto|destruct (_ <? _); cbn; tauto]. }
    pose proof (read_your_writes v s n r2 v' n HR Vn Vn C2) as RY.
    assert (res_rel ci (canon c n) (canon c n)) as Hrefl by (destruct (canon c n); cbn; reflexivity).
    specialize (RY Hrefl H). rewrite T2, V2 in RY.
    destruct (canon c n) eqn:Ca; [exact RY| |].
    - exfalso. unfold put_rdataset, maybe_cow in H. pose proof (validate_canon c n W Vn) as VC. rewrite Ca in VC.
      destruct (validate_name c n); try contradiction. discriminate.
    - exfalso. eapply canon_never_internal; eauto.
  Qed.
End Impl.
