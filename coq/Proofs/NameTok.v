(* C01: the zone-file path: Tokenizer.get() returns the printed form of a name as one identifier
   token (no unescaped delimiter, white space or line end in to_text output), and
   Tokenizer.get_name parses it back to the name. *)
From DV Require Import Base.Prelude Model.NameM Proofs.NameValid Proofs.NameText.
Open Scope Z_scope.

Ltac Zify.zify_post_hook ::= Z.to_euclidean_division_equations.

(* a text the scanner walks through without stopping: every character is an ordinary one, or a
   backslash followed by a character other than newline *)
Inductive clean : list Z -> Prop :=
| clean_nil : clean []
| clean_char c w : tok_delim c = false -> c <> 92 -> clean w -> clean (c :: w)
| clean_pair c w : c <> 10 -> clean w -> clean (92 :: c :: w).

Lemma clean_app a b : clean a -> clean b -> clean (a ++ b).
Proof.
  induction 1 as [|c w Hd H92 Hw IH|c w H10 Hw IH]; intros Hb; cbn [app].
  - exact Hb.
  - apply clean_char; auto.
  - apply clean_pair; auto.
Qed.

Lemma tok_scan_clean w : clean w -> forall f rest tok,
  (length w < f)%nat ->
  exists f', (f - length w <= f')%nat /\ tok_scan f (w ++ rest) tok = tok_scan f' rest (rev w ++ tok).
Proof.
  induction 1 as [|c w Hd H92 Hw IH|c w H10 Hw IH]; intros f rest tok Hf.
  - exists f. split; [cbn; lia|reflexivity].
  - destruct f as [|f]; [cbn in Hf; lia|]. cbn [app tok_scan]. rewrite Hd.
    replace (c =? 92) with false by lia.
    destruct (IH f rest (c :: tok)) as (f' & Hf' & E); [cbn in Hf; lia|].
    exists f'. split; [cbn [length]; lia|]. rewrite E. cbn [rev]. rewrite <- app_assoc. reflexivity.
  - destruct f as [|f]; [cbn in Hf; lia|]. cbn [app tok_scan].
    change (tok_delim 92) with false. change (92 =? 92) with true. cbn iota.
    replace (c =? 10) with false by lia.
    destruct (IH f rest (c :: 92 :: tok)) as (f' & Hf' & E); [cbn in Hf; lia|].
    exists f'. split; [cbn [length]; lia|]. rewrite E. cbn [rev]. rewrite <- !app_assoc. reflexivity.
Qed.

(* every octet value prints as clean text *)
Lemma esc_octet_clean c : 0 <= c < 256 -> clean (esc_octet c).
Proof.
  intros Hc. unfold esc_octet. destruct (escaped c) eqn:E.
  - apply clean_pair; [|constructor].
    unfold escaped in E. intros ->. discriminate.
  - destruct ((c >? 32) && (c <? 127)) eqn:P.
    + apply clean_char; [| |constructor].
      * unfold escaped in E. unfold tok_delim.
        repeat (apply orb_false_iff in E; destruct E as [E ?]).
        repeat (apply orb_false_iff; split); lia.
      * destruct (escaped_false _ E) as (_ & H & _). exact H.
    + apply clean_pair; [lia|].
      apply clean_char; [unfold tok_delim; lia|lia|].
      apply clean_char; [unfold tok_delim; lia|lia|]. constructor.
Qed.

Lemma escapify_clean l : Forall (fun c => 0 <= c < 256) l -> clean (escapify l).
Proof.
  induction 1 as [|c l Hc _ IH]; [constructor|].
  unfold escapify. cbn [flat_map]. apply clean_app; [apply esc_octet_clean; exact Hc|exact IH].
Qed.

Lemma join_dot_clean (ls : list (list Z)) : Forall clean ls -> clean (join_dot ls).
Proof.
  induction 1 as [|x ls Hx _ IH]; [constructor|]. destruct ls as [|y ls]; [exact Hx|].
  change (join_dot (x :: y :: ls)) with (x ++ 46 :: join_dot (y :: ls)).
  apply clean_app; [exact Hx|]. apply clean_char; [reflexivity|discriminate|exact IH].
Qed.

Lemma to_text_clean (n : name) : AllBytes n -> clean (to_text n) /\ to_text n <> [].
Proof.
  intros HB. unfold name, label in *.
  assert (forall m : list (list Z), AllBytes m -> clean (join_dot (map escapify m))) as J.
  { intros m Hm. apply join_dot_clean. apply Forall_map. eapply Forall_impl; [|exact Hm].
    intros l Hl. apply escapify_clean, Hl. }
  destruct n as [|x n].
  { split; [apply clean_char; [reflexivity|discriminate|constructor]|discriminate]. }
  destruct x as [|c x].
  - destruct n as [|y n].
    + split; [apply clean_char; [reflexivity|discriminate|constructor]|discriminate].
    + change (to_text ([] :: y :: n)) with (join_dot (map escapify ([] :: y :: n))).
      split; [apply J, HB|].
      change (join_dot (map escapify ([] :: y :: n))) with ([] ++ 46 :: join_dot (map escapify (y :: n))).
      discriminate.
  - change (to_text ((c :: x) :: n)) with (join_dot (map escapify ((c :: x) :: n))).
    split; [apply J, HB|].
    assert (0 <= c < 256) as Hc by (inversion HB as [|? ? H1 _]; inversion H1; assumption).
    destruct (esc_octet_head c) as (h & r & E & _ & _).
    destruct n as [|y n].
    + cbn [map join_dot]. unfold escapify. cbn [flat_map]. rewrite E. discriminate.
    + change (join_dot (map escapify ((c :: x) :: y :: n)))
        with (escapify (c :: x) ++ 46 :: join_dot (map escapify (y :: n))).
      unfold escapify at 1. cbn [flat_map]. rewrite E. discriminate.
Qed.

(* a clean, non-empty text does not start with a blank *)
Lemma clean_skip_ws w rest : clean w -> w <> [] -> tok_skip_ws (w ++ rest) = w ++ rest.
Proof.
  intros Hw Hne. destruct Hw as [|c w Hd H92 Hw|c w H10 Hw]; [congruence| |reflexivity].
  cbn [app tok_skip_ws]. unfold tok_delim in Hd.
  repeat (apply orb_false_iff in Hd; destruct Hd as [Hd ?]).
  replace ((c =? 32) || (c =? 9)) with false; [reflexivity|].
  symmetry. apply orb_false_iff. split; assumption.
Qed.

(* what may follow the token: end of input or a delimiter *)
Definition token_end (rest : list Z) : Prop :=
  rest = [] \/ exists d r, rest = d :: r /\ tok_delim d = true.

Theorem tokenizer_identifier (n : name) rest : AllBytes n -> token_end rest ->
  tok_get_identifier (to_text n ++ rest) = Ok (to_text n, rest).
Proof.
  intros HB He. destruct (to_text_clean n HB) as [Hc Hne].
  unfold tok_get_identifier. rewrite clean_skip_ws by assumption.
  destruct (tok_scan_clean _ Hc (S (length (to_text n ++ rest))) rest []) as (f' & Hf' & ->).
  { rewrite app_length. lia. }
  rewrite app_nil_r.
  assert (rev (to_text n) <> []) as Hr by (apply rev_ne; exact Hne).
  destruct f' as [|f']; [rewrite app_length in Hf'; lia|].
  destruct He as [->|(d & r & -> & Hd)]; cbn [tok_scan].
  - destruct (rev (to_text n)) eqn:R; [congruence|]. rewrite <- R, rev_involutive. reflexivity.
  - rewrite Hd. destruct (rev (to_text n)) eqn:R; [congruence|]. rewrite <- R, rev_involutive. reflexivity.
Qed.

Lemma choose_derel_abs n o : is_absolute n = true -> choose_relativity n o false = Ok n.
Proof.
  intros A. unfold choose_relativity. destruct o as [[|x o]|]; try reflexivity.
  unfold derelativize. rewrite A. reflexivity.
Qed.

(* Tokenizer.get_name on the printed name: the name itself (origin None), or the name made
   absolute with the origin exactly as from_text does *)
Theorem tokenizer_name_roundtrip (n : name) rest : Valid n -> AllBytes n -> token_end rest ->
  tok_get_name (to_text n ++ rest) None = Ok n.
Proof.
  intros V HB He. unfold tok_get_name. rewrite tokenizer_identifier by assumption.
  cbn [bind fst]. rewrite text_roundtrip by assumption. reflexivity.
Qed.

Theorem tokenizer_name_roundtrip_origin (n o : name) rest :
  Valid n -> AllBytes n -> token_end rest -> is_absolute o = true ->
  tok_get_name (to_text n ++ rest) (Some o) =
    if is_absolute n then Ok n else mk_name (n ++ o).
Proof.
  intros V HB He Ao. unfold tok_get_name. rewrite tokenizer_identifier by assumption.
  cbn [bind fst]. rewrite text_roundtrip_origin by assumption.
  destruct (is_absolute n) eqn:A; cbn [bind].
  - apply choose_derel_abs, A.
  - destruct (mk_name (n ++ o)) as [m| |] eqn:M; cbn [bind]; try reflexivity.
    apply mk_name_ok in M. destruct M as [-> _].
    apply choose_derel_abs. destruct o as [|x o]; [discriminate|]. rewrite is_absolute_app. exact Ao.
Qed.

(* the scanner's fuel is sufficient on every input, and the only errors are the library's *)
Lemma tok_scan_no_fuel : forall f i tok, (length i < f)%nat -> tok_scan f i tok <> Internal iFuel.
Proof.
  induction f as [|f IH]; intros i tok H; [lia|].
  cbn [tok_scan]. destruct i as [|c r]; [destruct tok; discriminate|].
  destruct (tok_delim c); [destruct tok; discriminate|].
  destruct (c =? 92).
  - destruct r as [|c2 r2]; [discriminate|]. destruct (c2 =? 10); [discriminate|].
    apply IH. cbn [length] in H. lia.
  - apply IH. cbn [length] in H. lia.
Qed.

Theorem tok_get_identifier_fuel text : tok_get_identifier text <> Internal iFuel.
Proof. unfold tok_get_identifier. apply tok_scan_no_fuel. lia. Qed.
