(* Render-then-parse: the reader, run on what the renderer emitted, rebuilds the records.
   (rendering without origin; all names absolute) *)
From DV Require Import Base.Prelude Model.NameM Model.MessageM.
From DV Require Import Proofs.NameOrder Proofs.NameValid Proofs.NameRel Proofs.NameWire Proofs.NameCompress.
From DV Require Import Proofs.MessageName Proofs.MessageRender Proofs.MessageRead.
Open Scope Z_scope.

(* ---------- re-rendering: the same state with a table of ci-equal keys ---------- *)
Definition with_tbl (r : rst) (tq : ctable) : rst := set_out r (out r) tq.

Lemma tracked_sim (E' E : emitter) sec n r r' tq :
  tracked E sec n r = Ok (false, r') -> tbl_ci tq (tbl r) ->
  (forall em t', E (zlen (out r)) (tbl r) = Ok (em, t') ->
                 exists tq', E' (zlen (out r)) tq = Ok (em, tq') /\ tbl_ci tq' t') ->
  exists tq', tracked E' sec n (with_tbl r tq) = Ok (false, with_tbl r' tq') /\ tbl_ci tq' (tbl r').
Proof.
  intros H TC HE. unfold tracked in *.
  apply bind_ok in H. destruct H as (r1 & S & H).
  assert (S' : set_section sec (with_tbl r tq) = Ok (with_tbl r1 tq) /\ out r1 = out r /\ tbl r1 = tbl r).
  { unfold set_section in *. cbn [rsec with_tbl set_out]. destruct (rsec r =? sec); [injection S as <-; auto|].
    destruct (rsec r >? sec); [discriminate|]. injection S as <-. auto. }
  destruct S' as (S' & O1 & T1). rewrite S'. cbn [bind]. rewrite O1, T1 in H.
  apply bind_ok in H. destruct H as ([em t'] & HEm & H). cbn [fst snd] in H.
  destruct (HE em t' HEm) as (tq' & HE' & TC').
  cbn [out tbl with_tbl set_out]. rewrite O1. rewrite HE'. cbn [bind fst snd].
  destruct (track_end (zlen (out r)) (set_out r1 (out r ++ em) t')) as [big r2] eqn:TE.
  destruct big; [discriminate|]. injection H as <-.
  unfold track_end, with_tbl in *. cbn [out maxsz set_out] in *.
  destruct (zlen (out r ++ em) >? maxsz r1); [discriminate|]. injection TE as <-.
  exists tq'. split; [|cbn [tbl inc_count set_out]; exact TC'].
  unfold with_tbl, inc_count, set_out. cbn [out tbl cq can cau cad rsec rflags maxsz reserved padded]. reflexivity.
Qed.

Section WithOrigin.
Variable o : option name.
Hypothesis OO : org_ok o.

(* ---------- chains of RRs on the wire ---------- *)
Record rrd := mkD { d_owner : name; d_ty : Z; d_cl : Z; d_ttl : Z; d_fs : list fld; d_rd : rdata }.

Inductive Chain (w : list Z) : nat -> list rrd -> nat -> Prop :=
| ch_nil off : (off <= length w)%nat -> Chain w off [] off
| ch_cons off d mid ds end_ :
    (exists abs', RRreads o o w off abs' (d_owner d) (d_ty d) (d_cl d) (d_ttl d) (d_fs d) (d_rd d) mid) ->
    Chain w mid ds end_ -> Chain w off (d :: ds) end_.

Lemma Chain_app_w w more off ds end_ : Chain w off ds end_ -> Chain (w ++ more) off ds end_.
Proof.
  induction 1.
  - constructor. rewrite app_length. lia.
  - econstructor; [destruct H as (abs' & H); exists abs'; apply RRreads_app; exact H|exact IHChain].
Qed.

Lemma Chain_app w off ds1 mid ds2 end_ :
  Chain w off ds1 mid -> Chain w mid ds2 end_ -> Chain w off (ds1 ++ ds2) end_.
Proof. induction 1; intros H2; [exact H2|]. cbn [app]. econstructor; [eassumption|auto]. Qed.

Lemma Chain_end w off ds end_ : Chain w off ds end_ -> (off <= end_ <= length w)%nat.
Proof.
  induction 1; [lia|]. destruct H as (abs' & c1 & rdl & A & B & C & _). lia.
Qed.

Definition ordinary (d : rrd) : Prop :=
  d_ty d <> tOPT /\ d_ty d <> tTSIG /\ schema_of (d_cl d) (d_ty d) = Some (d_fs d) /\
  0 <= d_ttl d <= 2147483647.

(* the reader's state update for one ordinary RR *)
Definition apply_d (sec : Z) (fu : bool) (m : msg) (d : rrd) : msg :=
  set_sec m sec (find_add (get_sec m sec) (d_owner d) (d_cl d) (d_ty d) (rd_covers (d_ty d) (d_rd d)) None fu
                          (fun rs => rrset_add rs (d_rd d) (d_ttl d))).

Lemma get_section_chain w ext sec count : forall ds off end_ i fu m,
  Chain w off ds end_ -> Forall ordinary ds ->
  get_section (w ++ ext) o po0 false sec count i (length ds) off fu m
  = Ok (end_, fu, fold_left (apply_d sec fu) ds m).
Proof.
  induction ds as [|d ds IH]; intros off end_ i fu m C O.
  - inversion C; subst. reflexivity.
  - inversion C as [|? ? mid ? ? R C']; subst. inversion O as [|? ? (O1 & O2 & O3 & O4) O']; subst.
    cbn [length get_section].
    destruct R as (abs' & R).
    rewrite (get_rr_ordinary o w off abs' _ _ _ _ _ _ mid ext sec count i fu m R O1 O2 O3 O4). cbn [bind].
    rewrite (IH mid end_ (S i) fu _ C' O'). reflexivity.
Qed.

(* get_section reads a + b records as a records then b records *)
Lemma get_section_split wire og po iu sec count : forall a b i cur fu m,
  get_section wire og po iu sec count i (a + b) cur fu m =
  do r <- get_section wire og po iu sec count i a cur fu m;
  get_section wire og po iu sec count (i + a) b (fst (fst r)) (snd (fst r)) (snd r).
Proof.
  induction a as [|a IH]; intros b i cur fu m.
  - cbn [Nat.add get_section bind fst snd]. rewrite Nat.add_0_r. reflexivity.
  - cbn [Nat.add get_section].
    destruct (get_rr wire og po iu sec count i cur fu m) as [[[cur' fu'] m']| |]; cbn [bind]; try reflexivity.
    rewrite IH. replace (S i + a)%nat with (i + S a)%nat by lia. reflexivity.
Qed.

Lemma Forall2_cons_inv {A B} (R : A -> B -> Prop) a l b l' :
  Forall2 R (a :: l) (b :: l') -> R a b /\ Forall2 R l l'.
Proof. inversion 1; auto. Qed.
Lemma Forall2_cons_nil_inv {A B} (R : A -> B -> Prop) a l : Forall2 R (a :: l) [] -> False.
Proof. inversion 1. Qed.

Lemma Forall2_cons_inv_l {A B} (R : A -> B -> Prop) a l l' :
  Forall2 R (a :: l) l' -> exists b l'', R a b /\ Forall2 R l l'' /\ l' = b :: l''.
Proof. inversion 1; subst; eauto. Qed.

Lemma Forall2_len {A B} (R : A -> B -> Prop) l1 l2 : Forall2 R l1 l2 -> length l1 = length l2.
Proof. induction 1; cbn; congruence. Qed.

(* ---------- rendering produces chains ---------- *)
Definition desc_of (owner : name) (ty cl ttl : Z) (fs : list fld) (d : rrd) (rd : rdata) : Prop :=
  d_ty d = ty /\ d_cl d = cl /\ d_ttl d = ttl /\ d_fs d = fs /\
  ci_equal (d_owner d) owner /\ name_wf o (d_owner d) /\
  rdata_ci (d_rd d) rd /\ Forall (piece_wf o) (d_rd d) /\ shaped fs (d_rd d).

Lemma rrs_em_chain fs owner ty cl ttl : forall rds file t em t',
  TableSound file t -> name_wf o owner ->
  Forall (fun rd => Forall (piece_wf o) rd /\ shaped fs rd) rds ->
  rrs_em owner ty cl ttl rds o true (zlen file) t = Ok (em, t') ->
  TableSound (file ++ em) t' /\
  (rds <> [] -> 0 <= ty <= 65535 /\ 0 <= cl <= 65535 /\ 0 <= ttl <= 4294967295) /\
  exists ds, Chain (file ++ em) (length file) ds (length (file ++ em)) /\
             Forall2 (desc_of owner ty cl ttl fs) ds rds /\
    forall Lown, full_labels owner o = Ok Lown ->
      (forall d ds', ds = d :: ds' -> exists X, full_labels (d_owner d) o = Ok X /\ lsim t X Lown) /\
      (forall tq ownq Lq, tbl_ci tq t -> full_labels ownq o = Ok Lq -> lsim t Lq Lown ->
         exists tq', rrs_em ownq ty cl ttl (map d_rd ds) o true (zlen file) tq = Ok (em, tq') /\ tbl_ci tq' t').
Proof.
  induction rds as [|rd rds IH]; intros file t em t' TS NO HF H.
  - injection H as <- <-. rewrite app_nil_r. split; [exact TS|]. split; [congruence|].
    exists []. split; [constructor; lia|]. split; [constructor|].
    intros Lown _. split; [intros d ds' Hd; discriminate|].
    intros tq ownq Lq TC _ _. exists tq. split; [reflexivity|exact TC].
  - cbn [rrs_em] in H. apply bind_ok in H. destruct H as ([e1 t1] & H1 & H).
    apply bind_ok in H. destruct H as ([e2 t2] & H2 & H). injection H as <- <-. cbn [fst snd] in *.
    inversion HF as [|? ? (PO & S) HF']; subst.
    destruct (name_wf_full o owner OO NO) as (Lown & HFo & NOL).
    destruct (rr_em_read_x o o fs owner Lown ty cl ttl rd true true file t e1 t1 OO OO TS HFo NOL PO S H1)
      as (TS1 & R1 & R2 & R3 & abs' & owner' & rd' & c1 & rdl & CIa & NOa & HX & CI2 & PO2 & S2 & A & B & C & E & SL & RE1).
    destruct (name_back_sim o owner Lown abs' true t OO NO HFo SL NOa) as (x' & X & HX' & CI1 & NO1 & HFX & SX).
    assert (x' = owner') by congruence. subst x'.
    rewrite <- zlen_app' in H2.
    destruct (IH (file ++ e1) t1 e2 t2 TS1 NO HF' H2) as (TS2 & _ & ds & CH & F2 & RE2).
    rewrite <- app_assoc in TS2, CH. split; [exact TS2|]. split; [auto|].
    exists (mkD owner' ty cl ttl fs rd' :: ds). split; [|split].
    + econstructor; [|exact CH]. cbn [d_owner d_ty d_cl d_ttl d_fs d_rd].
      exists abs'. rewrite app_assoc. apply RRreads_app.
      exists c1, rdl. split; [exact A|]. split; [lia|]. split; [exact B|]. split; [exact C|]. exact E.
    + constructor; [|exact F2]. unfold desc_of. cbn [d_owner d_ty d_cl d_ttl d_fs d_rd]. auto 10.
    + intros Lown' HFo'. assert (Lown' = Lown) by congruence. subst Lown'. split.
      * intros d ds' Hd. injection Hd as <- _. cbn [d_owner]. exists X. split; [exact HFX|exact SX].
      * intros tq ownq Lq TC HFq SLq.
        destruct (RE1 tq ownq Lq TC HFq SLq) as (tq1 & E1 & TC1).
        destruct (ext_rr_em _ _ _ _ _ _ _ _ _ _ _ _ _ H1) as (new1 & -> & _).
        destruct (RE2 Lown HFo) as (_ & RE2').
        destruct (RE2' tq1 ownq Lq TC1 HFq (lsim_mono _ _ _ _ SLq)) as (tq' & E2 & TC').
        exists tq'. split; [|exact TC']. cbn [rrs_em map d_rd]. rewrite E1. cbn [bind fst snd].
        rewrite <- zlen_app'. rewrite E2. reflexivity.
Qed.

(* a record set of sections 1..3 of an ordinary (non-update) message *)
Definition NoDupRd (rds : list rdata) : Prop :=
  ForallOrdPairs (fun a b => rdata_eqb a b = false) rds.

Definition wf_rrset (rs : rrset) : Prop :=
  name_wf o (rname rs) /\ rdeleting rs = None /\ rrds rs <> [] /\
  rtype rs <> tOPT /\ rtype rs <> tTSIG /\
  0 <= rttl rs <= 2147483647 /\
  (exists fs, schema_of (rclass rs) (rtype rs) = Some fs /\
              Forall (fun rd => Forall (piece_wf o) rd /\ shaped fs rd) (rrds rs)) /\
  Forall (fun rd => rd_covers (rtype rs) rd = rcovers rs) (rrds rs) /\
  NoDupRd (rrds rs) /\
  (is_singleton (rtype rs) = true -> length (rrds rs) = 1%nat).

Definition rs_fs (rs : rrset) : list fld :=
  match schema_of (rclass rs) (rtype rs) with Some fs => fs | None => [] end.

Inductive SecDesc : list rrset -> list rrd -> Prop :=
| sd_nil : SecDesc [] []
| sd_cons rs l ds1 ds2 :
    Forall2 (desc_of (rname rs) (rtype rs) (rclass rs) (rttl rs) (rs_fs rs)) ds1 (rrds rs) ->
    SecDesc l ds2 -> SecDesc (rs :: l) (ds1 ++ ds2).

(* the record set the reader rebuilds from the records ds of rs *)
Definition rebuilt_rs (rs : rrset) (ds : list rrd) : rrset :=
  mkRR (match ds with d :: _ => d_owner d | [] => rname rs end) (rclass rs) (rtype rs) (rcovers rs) None (rttl rs)
       (map d_rd ds).

Inductive Rebuilt : list rrset -> list rrd -> list rrset -> Prop :=
| rb_nil : Rebuilt [] [] []
| rb_cons rs l ds1 ds2 l2 :
    length ds1 = length (rrds rs) -> Rebuilt l ds2 l2 -> Rebuilt (rs :: l) (ds1 ++ ds2) (rebuilt_rs rs ds1 :: l2).

Lemma rrset_em_chain rs file t em t' :
  TableSound file t -> wf_rrset rs ->
  rrset_em rs o true (zlen file) t = Ok (em, t') ->
  TableSound (file ++ em) t' /\
  exists ds, Chain (file ++ em) (length file) ds (length (file ++ em)) /\
             Forall2 (desc_of (rname rs) (rtype rs) (rclass rs) (rttl rs) (rs_fs rs)) ds (rrds rs) /\
             rrset_count rs = zlen ds /\
             (forall tq, tbl_ci tq t ->
                exists tq', rrset_em (rebuilt_rs rs ds) o true (zlen file) tq = Ok (em, tq') /\ tbl_ci tq' t').
Proof.
  intros TS (NO & DEL & NE & _ & _ & _ & (fs & HS & HF) & _) H.
  unfold rrset_em, wclass in H. rewrite DEL in H. unfold rs_fs. rewrite HS.
  destruct (rrds rs) as [|rd rds] eqn:E; [congruence|]. rewrite <- E in *.
  destruct (rrs_em_chain fs _ _ _ _ _ _ _ _ _ TS NO HF H) as (TS' & _ & ds & CH & F2 & RE).
  split; [exact TS'|]. exists ds. split; [exact CH|]. split; [exact F2|].
  split.
  { unfold rrset_count. rewrite E. rewrite <- E. unfold zlen. f_equal.
    symmetry. eapply Forall2_len. exact F2. }
  intros tq TC. destruct (name_wf_full o (rname rs) OO NO) as (Lown & HFo & _).
  destruct (RE Lown HFo) as (HD & RE').
  destruct ds as [|d ds']; [rewrite E in F2; inversion F2|].
  destruct (HD d ds' eq_refl) as (X & HFX & SX).
  destruct (RE' tq (d_owner d) X TC HFX SX) as (tq' & E1 & TC').
  exists tq'. split; [|exact TC'].
  unfold rrset_em, wclass, rebuilt_rs. cbn [rrds rdeleting rname rtype rclass rttl map]. exact E1.
Qed.

Definition counts_sum (r : rst) : Z := cq r + can r + cau r + cad r.
Definition count_of (r : rst) (sec : Z) : Z :=
  if sec =? 0 then cq r else if sec =? 1 then can r else if sec =? 2 then cau r else cad r.

(* the section loop of Message.to_wire when nothing overflows; `file` is any octet string of
   the same length as the output so far (the output with its final header) *)
Lemma add_rrsets_chain_x sec : forall l r r' file,
  1 <= sec <= 3 ->
  zlen file = zlen (out r) -> TableSound file (tbl r) -> TblBelow r -> Forall wf_rrset l ->
  add_rrsets o sec l r = Ok (false, r') ->
  exists em ds,
    out r' = out r ++ em /\ TableSound (file ++ em) (tbl r') /\ TblBelow r' /\
    Chain (file ++ em) (length file) ds (length (file ++ em)) /\ SecDesc l ds /\
    count_of r' sec = count_of r sec + zlen ds /\
    (forall s, 0 <= s <= 3 -> s <> sec -> count_of r' s = count_of r s) /\
    rflags r' = rflags r /\ maxsz r' = maxsz r /\ reserved r' = reserved r /\ padded r' = padded r /\
    rsec r <= rsec r' <= Z.max (rsec r) sec /\
    (forall l2 tq, Rebuilt l ds l2 -> tbl_ci tq (tbl r) ->
       exists tq', add_rrsets o sec l2 (with_tbl r tq) = Ok (false, with_tbl r' tq') /\ tbl_ci tq' (tbl r')).
Proof.
  induction l as [|rs l IH]; intros r r' file Hsec Hz TS TB WF H.
  - injection H as <-. exists [], []. rewrite !app_nil_r.
    split; [reflexivity|]. split; [exact TS|]. split; [exact TB|].
    split; [constructor; lia|]. split; [constructor|].
    split; [change (zlen (@nil rrd)) with 0; lia|].
    split; [reflexivity|]. split; [reflexivity|]. split; [reflexivity|]. split; [reflexivity|]. split; [reflexivity|].
    split; [lia|].
    intros l2 tq RB TC. inversion RB; subst. exists tq. split; [|exact TC]. cbn [add_rrsets]. destruct r; reflexivity.
  - cbn [add_rrsets] in H. apply bind_ok in H. destruct H as ([b1 r1] & H1 & H). cbn [fst snd] in H.
    destruct b1; [discriminate|]. inversion WF as [|? ? W1 WF']; subst.
    rewrite add_rrset_tracked in H1.
    destruct (tracked_spec _ _ _ _ _ _ (ext_rrset_em _ _ _) TB H1) as (Hs & em1 & new & HE & F & [(_ & Hfit & ->)|(Hb & _)]);
      [|discriminate].
    rewrite <- Hz in HE.
    destruct (rrset_em_chain rs file (tbl r) em1 _ TS W1 HE) as (TS1 & ds1 & CH1 & F1 & Hcnt & RE1).
    set (r1 := inc_count (set_out (set_rsec r sec) (out r ++ em1) (tbl r ++ new)) sec (rrset_count rs)) in *.
    assert (Hz1 : zlen (file ++ em1) = zlen (out r1)).
    { unfold r1. cbn [out inc_count set_out]. rewrite !zlen_app'. lia. }
    assert (TB1 : TblBelow r1).
    { unfold TblBelow, r1. cbn [out tbl inc_count set_out].
      rewrite zlen_app'. apply Forall_app. split.
      - eapply Forall_impl; [|exact TB]. cbn beta. intros kv Hk. pose proof (zlen_nn em1). nlia.
      - eapply Forall_impl; [|exact F]. cbn beta. intros kv (Hk & _). nlia. }
    destruct (IH r1 r' (file ++ em1) Hsec Hz1 TS1 TB1 WF' H) as (em2 & ds2 & O2 & TS2 & TB2 & CH2 & SD2 & C2 & C2' & FL & MX & RV & PD & RS & RE2).
    exists (em1 ++ em2), (ds1 ++ ds2).
    rewrite <- app_assoc in TS2, CH2.
    split; [rewrite O2; unfold r1; cbn [out inc_count set_out]; rewrite <- app_assoc; reflexivity|].
    split; [exact TS2|]. split; [exact TB2|].
    split.
    { eapply Chain_app; [|exact CH2].
      rewrite app_assoc. apply Chain_app_w. exact CH1. }
    split; [constructor; assumption|].
    assert (Hc1 : count_of r1 sec = count_of r sec + rrset_count rs).
    { unfold count_of, r1. cbn [cq can cau cad inc_count set_out set_rsec].
      assert (sec = 1 \/ sec = 2 \/ sec = 3) as [Hx|[Hx|Hx]] by lia; subst sec; cbn [Z.eqb Pos.eqb]; lia. }
    split; [rewrite C2, Hc1, Hcnt, zlen_app'; lia|].
    split.
    { intros s Hr Hne. rewrite (C2' s Hr Hne). unfold count_of, r1. cbn [cq can cau cad inc_count set_out set_rsec].
      destruct (Z.eqb_spec sec 0); destruct (Z.eqb_spec sec 1); destruct (Z.eqb_spec sec 2); destruct (Z.eqb_spec sec 3);
        destruct (Z.eqb_spec s 0); destruct (Z.eqb_spec s 1); destruct (Z.eqb_spec s 2); try lia; reflexivity. }
    split; [rewrite FL; reflexivity|]. split; [rewrite MX; reflexivity|]. split; [rewrite RV; reflexivity|].
    split; [rewrite PD; reflexivity|].
    split; [unfold r1 in RS; cbn [rsec inc_count set_out set_rsec] in RS; lia|].
    intros l2 tq RB TC. inversion RB as [|rs0 l0 da db l2' Hlen RB' E1 E2 E3]; subst.
    assert (da = ds1 /\ db = ds2) as (-> & ->).
    { apply app_inj_len; [|exact E2]. rewrite Hlen. symmetry. eapply Forall2_len. exact F1. }
    rewrite Hz in RE1.
    destruct (tracked_sim (rrset_em (rebuilt_rs rs ds1) o true) _ _ _ _ _ tq H1 TC) as (tq1 & T1 & TC1).
    { intros em0 t0 HE0. rewrite <- Hz in HE0. assert (em0 = em1 /\ t0 = tbl r ++ new) as (-> & ->) by (split; congruence).
      apply RE1. exact TC. }
    destruct (RE2 l2' tq1 RB' TC1) as (tq' & T2 & TC').
    exists tq'. split; [|exact TC']. cbn [add_rrsets]. rewrite add_rrset_tracked.
    assert (Ecnt : rrset_count (rebuilt_rs rs ds1) = rrset_count rs).
    { rewrite Hcnt. unfold rrset_count, rebuilt_rs. cbn [rrds]. destruct ds1 as [|d0 ds1']; [|cbn [map]; unfold zlen; cbn [length]; rewrite map_length; reflexivity].
      exfalso. destruct W1 as (_ & _ & NE & _). apply Forall2_len in F1. cbn [length] in F1. destruct (rrds rs); [congruence|discriminate]. }
    rewrite Ecnt. rewrite T1. cbn [bind fst snd]. exact T2.
Qed.

Lemma add_rrsets_chain sec : forall l r r' file,
  1 <= sec <= 3 ->
  zlen file = zlen (out r) -> TableSound file (tbl r) -> TblBelow r -> Forall wf_rrset l ->
  add_rrsets o sec l r = Ok (false, r') ->
  exists em ds,
    out r' = out r ++ em /\ TableSound (file ++ em) (tbl r') /\ TblBelow r' /\
    Chain (file ++ em) (length file) ds (length (file ++ em)) /\ SecDesc l ds /\
    count_of r' sec = count_of r sec + zlen ds /\
    (forall s, 0 <= s <= 3 -> s <> sec -> count_of r' s = count_of r s) /\
    rflags r' = rflags r /\ maxsz r' = maxsz r /\ reserved r' = reserved r /\ padded r' = padded r /\
    rsec r <= rsec r' <= Z.max (rsec r) sec.
Proof.
  intros l r r' file Hsec Hz TS TB WF H.
  destruct (add_rrsets_chain_x sec l r r' file Hsec Hz TS TB WF H)
    as (em & ds & A1 & A2 & A3 & A4 & A5 & A6 & A7 & A8 & A9 & A10 & A11 & A12 & _).
  exists em, ds. repeat (split; [assumption|]). exact A12.
Qed.

(* ---------- regrouping: the reader's index rebuilds the record sets ---------- *)
Lemma name_eqb_ci_r k n n0 : ci_equal n n0 -> name_eqb k n = name_eqb k n0.
Proof.
  intros H. destruct (name_eqb k n) eqn:E1; destruct (name_eqb k n0) eqn:E2; try reflexivity.
  - apply name_eqb_iff_ci in E1. assert (ci_equal k n0) by (unfold ci_equal in *; congruence).
    apply name_eqb_iff_ci in H0. congruence.
  - apply name_eqb_iff_ci in E2. assert (ci_equal k n) by (unfold ci_equal in *; congruence).
    apply name_eqb_iff_ci in H0. congruence.
Qed.
Lemma name_eqb_ci_l k k0 n : ci_equal k k0 -> name_eqb k n = name_eqb k0 n.
Proof.
  intros H. destruct (name_eqb k n) eqn:E1; destruct (name_eqb k0 n) eqn:E2; try reflexivity.
  - apply name_eqb_iff_ci in E1. assert (ci_equal k0 n) by (unfold ci_equal in *; congruence).
    apply name_eqb_iff_ci in H0. congruence.
  - apply name_eqb_iff_ci in E2. assert (ci_equal k n) by (unfold ci_equal in *; congruence).
    apply name_eqb_iff_ci in H0. congruence.
Qed.

Lemma wire_labels_canon_ci n n' : ci_equal n n' -> wire_labels true n = wire_labels true n'.
Proof.
  unfold ci_equal. revert n'. induction n as [|l n IH]; intros [|l' n'] H; try discriminate; [reflexivity|].
  cbn [map] in H. injection H as H1 H2. rewrite !wire_labels_cons. rewrite H1. f_equal.
  - unfold zlen. f_equal. apply (f_equal (@length Z)) in H1. unfold lower_l in H1. rewrite !map_length in H1. exact H1.
  - f_equal. apply IH. exact H2.
Qed.

Lemma piece_digest_ci a b : piece_ci a b -> piece_digest a = piece_digest b.
Proof.
  destruct a as [x|x|x|x]; destruct b as [y|y|y|y]; cbn [piece_ci]; intros H; try contradiction.
  4:{ subst. reflexivity. }
  - subst. reflexivity.
  - cbn [piece_digest]. rewrite (ci_equal_absolute _ _ H). destruct (is_absolute y).
    + rewrite (wire_labels_canon_ci _ _ H). reflexivity.
    + rewrite (wire_labels_canon_ci (x ++ [[]]) (y ++ [[]])); [reflexivity|].
      unfold ci_equal in *. rewrite !map_app. f_equal. exact H.
  - cbn [piece_digest]. rewrite (ci_equal_absolute _ _ H). destruct (is_absolute y).
    + rewrite (wire_labels_canon_ci _ _ H). reflexivity.
    + rewrite (wire_labels_canon_ci (x ++ [[]]) (y ++ [[]])); [reflexivity|].
      unfold ci_equal in *. rewrite !map_app. f_equal. exact H.
Qed.

Lemma rd_digest_ci a b : rdata_ci a b -> rd_digest a = rd_digest b.
Proof.
  intros H. unfold rd_digest.
  assert (E : map piece_digest a = map piece_digest b).
  { induction H; [reflexivity|]. cbn [map]. f_equal; [apply piece_digest_ci; assumption|assumption]. }
  rewrite E. reflexivity.
Qed.

Lemma rdata_eqb_ci a a' b b' : rdata_ci a' a -> rdata_ci b' b -> rdata_eqb a' b' = rdata_eqb a b.
Proof. intros H1 H2. unfold rdata_eqb. rewrite (rd_digest_ci _ _ H1), (rd_digest_ci _ _ H2). reflexivity. Qed.

Lemma rd_covers_ci ty a b : rdata_ci a b -> rd_covers ty a = rd_covers ty b.
Proof.
  intros H. unfold rd_covers. destruct (is_sigtype ty); [|reflexivity].
  destruct H as [|x y a b Hxy H]; [reflexivity|].
  destruct x; destruct y; cbn [piece_ci] in Hxy; try contradiction; try reflexivity. subst. reflexivity.
Qed.

Definition rrset_equiv (a b : rrset) : Prop :=
  ci_equal (rname a) (rname b) /\ rclass a = rclass b /\ rtype a = rtype b /\
  rcovers a = rcovers b /\ rdeleting a = rdeleting b /\ rttl a = rttl b /\
  Forall2 rdata_ci (rrds a) (rrds b).

Definition step_sec (S : list rrset) (d : rrd) : list rrset :=
  find_add S (d_owner d) (d_cl d) (d_ty d) (rd_covers (d_ty d) (d_rd d)) None false
           (fun rs => rrset_add rs (d_rd d) (d_ttl d)).

Definition key_of_match (rs s : rrset) : bool :=
  key_match (rname rs) (rclass rs) (rtype rs) (rcovers rs) (rdeleting rs) s.

Lemma upd_first_none {A} (p : A -> bool) f l : Forall (fun x => p x = false) l -> upd_first p f l = None.
Proof. induction 1 as [|x l Hx _ IH]; [reflexivity|]. cbn [upd_first]. rewrite Hx, IH. reflexivity. Qed.

Lemma find_add_fresh S n c t cov del f :
  Forall (fun s => key_match n c t cov del s = false) S ->
  find_add S n c t cov del false f = S ++ [f (mkRR n c t cov del 0 [])].
Proof.
  intros H. unfold find_add. rewrite upd_first_none; [reflexivity|].
  apply Forall_rev. exact H.
Qed.

Lemma find_add_last S cur n c t cov del f :
  key_match n c t cov del cur = true ->
  find_add (S ++ [cur]) n c t cov del false f = S ++ [f cur].
Proof.
  intros H. unfold find_add. rewrite rev_app_distr. cbn [rev app upd_first]. rewrite H.
  cbn [rev]. rewrite rev_involutive. reflexivity.
Qed.

Lemma rrset_add_nonempty cur rd ttl :
  rrds cur <> [] ->
  rrset_add cur rd ttl =
    set_rds cur (if ttl <? rttl cur then ttl else rttl cur)
            (let rds := if is_singleton (rtype cur) then [] else rrds cur in
             if existsb (rdata_eqb rd) rds then rds else rds ++ [rd]).
Proof. intros H. unfold rrset_add. destruct (rrds cur); [congruence|reflexivity]. Qed.

Lemma rdata_ci_refl x : rdata_ci x x.
Proof. induction x as [|q p IHp]; constructor; [|exact IHp]. destruct q; cbn; reflexivity. Qed.

Lemma zlist_eqb_sym : forall a b, zlist_eqb a b = zlist_eqb b a.
Proof. induction a as [|u a IHa]; destruct b as [|v b]; cbn; try reflexivity. rewrite Z.eqb_sym, IHa. reflexivity. Qed.

Lemma rdata_eqb_sym a b : rdata_eqb a b = rdata_eqb b a.
Proof. unfold rdata_eqb. rewrite zlist_eqb_sym. f_equal. destruct (fst (rd_digest a)), (fst (rd_digest b)); reflexivity. Qed.

(* the RRs of one record set, added to a section in which the set has been started *)
Lemma regroup_inner ty cl ttl cov fs owner : forall ds rds S cur,
  Forall2 (desc_of owner ty cl ttl fs) ds rds ->
  ci_equal (rname cur) owner -> rclass cur = cl -> rtype cur = ty -> rcovers cur = cov ->
  rdeleting cur = None -> rttl cur = ttl -> rrds cur <> [] ->
  Forall (fun rd => rd_covers ty rd = cov) rds ->
  (rds <> [] -> is_singleton ty = false) ->
  (forall done, Forall2 rdata_ci (rrds cur) done -> NoDupRd (done ++ rds)) ->
  exists rds', Forall2 rdata_ci rds' rds /\
    fold_left step_sec ds (S ++ [cur]) = S ++ [set_rds cur ttl (rrds cur ++ rds')] /\ rds' = map d_rd ds.
Proof.
  induction ds as [|d ds IH]; intros rds S cur F2 CN CC CT CV CD CL NE COV SG ND.
  - inversion F2; subst. exists []. split; [constructor|]. split; [|reflexivity]. cbn [fold_left]. rewrite app_nil_r.
    destruct cur; cbn in *. subst. reflexivity.
  - destruct rds as [|rd rds0]; [exfalso; eapply Forall2_cons_nil_inv; exact F2|].
    apply Forall2_cons_inv in F2. destruct F2 as ((D1 & D2 & D3 & D4 & D5 & D6 & D7 & D8 & D9) & F2').
    pose proof (Forall_inv COV) as COV1. pose proof (Forall_inv_tail COV) as COV'. cbn beta in COV1.
    cbn [fold_left]. unfold step_sec at 2. rewrite D1, D2, D3.
    rewrite (rd_covers_ci _ _ _ D7), COV1.
    rewrite find_add_last.
    2:{ unfold key_match. rewrite CC, CT, CV, CD, !Z.eqb_refl. cbn [odel_eqb andb].
        rewrite !andb_true_r. apply name_eqb_iff_ci. unfold ci_equal in *. congruence. }
    assert (Hsg : is_singleton (rtype cur) = false) by (rewrite CT; apply SG; discriminate).
    assert (Hadd : rrset_add cur (d_rd d) ttl = set_rds cur ttl (rrds cur ++ [d_rd d])).
    { rewrite rrset_add_nonempty by exact NE. rewrite CL, Z.ltb_irrefl, Hsg. cbn zeta.
      replace (existsb (rdata_eqb (d_rd d)) (rrds cur)) with false; [reflexivity|].
      symmetry. apply not_true_is_false. intros Hex. apply existsb_exists in Hex. destruct Hex as (x0 & Hin & Hx0).
      (* x0 is one of the rdatas already present: impossible by NoDupRd *)
      pose proof (ND (rrds cur) (ltac:(clear; induction (rrds cur); constructor; [apply rdata_ci_refl|assumption]))) as ND0.
      rewrite (rdata_eqb_ci rd (d_rd d) x0 x0 D7 (rdata_ci_refl x0)) in Hx0.
      clear - ND0 Hin Hx0. unfold NoDupRd in ND0.
      induction (rrds cur) as [|y ys IHy]; [contradiction|]. cbn [app] in ND0. inversion ND0 as [|? ? Hy ND']; subst.
      destruct Hin as [->|Hin].
      - rewrite Forall_forall in Hy. specialize (Hy rd (in_or_app _ _ _ (or_intror (in_eq rd rds0)))).
        rewrite rdata_eqb_sym in Hx0. congruence.
      - apply IHy; assumption. }
    rewrite Hadd.
    set (cur' := set_rds cur ttl (rrds cur ++ [d_rd d])).
    destruct (IH rds0 S cur' F2') as (rds' & R' & E' & M').
    + exact CN.
    + exact CC.
    + exact CT.
    + exact CV.
    + exact CD.
    + reflexivity.
    + unfold cur'. cbn [rrds set_rds]. intros Hx. apply app_eq_nil in Hx. destruct Hx; discriminate.
    + exact COV'.
    + intros _. apply SG. discriminate.
    + intros done Hd. unfold cur' in Hd. cbn [rrds set_rds] in Hd.
      apply Forall2_app_inv_l in Hd. destruct Hd as (d1 & d2 & Hd1 & Hd2 & ->).
      inversion Hd2 as [|? y ? ? Hy Hnil]; subst. inversion Hnil; subst.
      specialize (ND d1 Hd1). rewrite <- app_assoc. cbn [app].
      (* y is a ci-variant of rd: the pair conditions are the same *)
      clear - ND Hy D7. unfold NoDupRd in *.
      assert (Hyr : forall b, rdata_eqb y b = rdata_eqb rd b).
      { intros b. unfold rdata_eqb. rewrite <- (rd_digest_ci _ _ Hy), (rd_digest_ci _ _ D7). reflexivity. }
      induction d1 as [|z zs IHz]; cbn [app] in *.
      * inversion ND as [|? ? Hh Ht]; subst. constructor; [|exact Ht].
        eapply Forall_impl; [|exact Hh]. cbn beta. intros b Hb. rewrite Hyr. exact Hb.
      * inversion ND as [|? ? Hh Ht]; subst. constructor; [|apply IHz; exact Ht].
        apply Forall_app in Hh. destruct Hh as (Hh1 & Hh2). inversion Hh2 as [|? ? Hrd Hh3]; subst.
        apply Forall_app. split; [exact Hh1|]. constructor; [|exact Hh3].
        rewrite rdata_eqb_sym, Hyr, rdata_eqb_sym. exact Hrd.
    + exists (d_rd d :: rds'). split; [constructor; assumption|]. split; [|cbn [map]; rewrite M'; reflexivity].
      rewrite E'. unfold cur'. cbn [rrds set_rds]. rewrite <- app_assoc. cbn [app].
      destruct cur; reflexivity.
Qed.

Lemma key_match_equiv rs s s' : rrset_equiv s' s -> key_of_match rs s' = key_of_match rs s.
Proof.
  intros (E1 & E2 & E3 & E4 & E5 & _). unfold key_of_match, key_match.
  rewrite E2, E3, E4, E5. rewrite (name_eqb_ci_l _ _ _ E1). reflexivity.
Qed.

Lemma regroup_rrset rs ds S :
  wf_rrset rs ->
  Forall2 (desc_of (rname rs) (rtype rs) (rclass rs) (rttl rs) (rs_fs rs)) ds (rrds rs) ->
  Forall (fun s => key_of_match rs s = false) S ->
  exists rs', rrset_equiv rs' rs /\ fold_left step_sec ds S = S ++ [rs'] /\ rs' = rebuilt_rs rs ds.
Proof.
  intros (NO & DEL & NE & _ & _ & TTL & _ & COV & ND & SG) F2 FR.
  destruct (rrds rs) as [|rd rds0] eqn:E; [congruence|].
  destruct ds as [|d ds0]; [inversion F2|].
  apply Forall2_cons_inv in F2. destruct F2 as ((D1 & D2 & D3 & D4 & D5 & D6 & D7 & D8 & D9) & F2').
  pose proof (Forall_inv COV) as COV1. pose proof (Forall_inv_tail COV) as COV'. cbn beta in COV1.
  cbn [fold_left]. unfold step_sec at 2. rewrite D1, D2, D3. rewrite (rd_covers_ci _ _ _ D7), COV1.
  rewrite find_add_fresh.
  2:{ eapply Forall_impl; [|exact FR]. cbn beta. intros s Hs. unfold key_of_match, key_match in *.
      rewrite DEL in Hs. rewrite (name_eqb_ci_r _ _ _ D5). exact Hs. }
  set (cur := mkRR (d_owner d) (rclass rs) (rtype rs) (rcovers rs) None (rttl rs) [d_rd d]).
  assert (Hc : rrset_add (mkRR (d_owner d) (rclass rs) (rtype rs) (rcovers rs) None 0 []) (d_rd d) (rttl rs) = cur) by reflexivity.
  rewrite Hc.
  destruct (regroup_inner (rtype rs) (rclass rs) (rttl rs) (rcovers rs) (rs_fs rs) (rname rs) ds0 rds0 S cur F2')
    as (rds' & R' & E' & M'); try reflexivity.
  - exact D5.
  - discriminate.
  - exact COV'.
  - intros Hne. destruct (is_singleton (rtype rs)) eqn:Es; [|reflexivity].
    specialize (SG eq_refl). cbn [length] in SG. destruct rds0; [congruence|discriminate].
  - intros done Hd. unfold cur in Hd. cbn [rrds] in Hd.
    apply Forall2_cons_inv_l in Hd. destruct Hd as (y & done' & Hy & Hnil & ->). inversion Hnil; subst.
    cbn [app]. unfold NoDupRd in *. inversion ND as [|? ? Hh Ht]; subst. constructor; [|exact Ht].
    eapply Forall_impl; [|exact Hh]. cbn beta. intros b Hb.
    assert (Hyr : rdata_eqb y b = rdata_eqb rd b).
    { unfold rdata_eqb. rewrite <- (rd_digest_ci _ _ Hy), (rd_digest_ci _ _ D7). reflexivity. }
    rewrite Hyr. exact Hb.
  - exists (set_rds cur (rttl rs) (rrds cur ++ rds')). split; [|split; [exact E'|rewrite M'; reflexivity]].
    unfold rrset_equiv, cur. cbn [rname rclass rtype rcovers rdeleting rttl rrds set_rds app].
    split; [exact D5|]. split; [reflexivity|]. split; [reflexivity|].
    split; [reflexivity|]. split; [symmetry; exact DEL|]. split; [reflexivity|].
    rewrite E. constructor; assumption.
Qed.

Fixpoint keys_fresh (S l : list rrset) : Prop :=
  match l with
  | [] => True
  | rs :: l' => Forall (fun s => key_of_match rs s = false) S /\ keys_fresh (S ++ [rs]) l'
  end.

Lemma regroup_sec : forall l ds S S0,
  SecDesc l ds -> Forall wf_rrset l -> Forall2 rrset_equiv S S0 -> keys_fresh S0 l ->
  exists l', Forall2 rrset_equiv l' l /\ fold_left step_sec ds S = S ++ l' /\ Rebuilt l ds l'.
Proof.
  induction l as [|rs l IH]; intros ds S S0 SD WF EQ KF.
  - inversion SD; subst. exists []. split; [constructor|]. split; [|constructor]. cbn. rewrite app_nil_r. reflexivity.
  - inversion SD as [|? ? ds1 ds2 F2 SD']; subst. inversion WF as [|? ? W1 WF']; subst.
    destruct KF as (K1 & K2). rewrite fold_left_app.
    destruct (regroup_rrset rs ds1 S W1 F2) as (rs' & Er & E1 & M1).
    { clear - K1 EQ. induction EQ as [|s s0 S S0 Hs _ IHS]; [constructor|].
      inversion K1; subst. constructor; [|apply IHS; assumption].
      rewrite (key_match_equiv rs s0 s Hs). assumption. }
    rewrite E1.
    destruct (IH ds2 (S ++ [rs']) (S0 ++ [rs]) SD' WF') as (l' & El & E2 & RB2).
    + apply Forall2_app; [exact EQ|]. constructor; [exact Er|constructor].
    + exact K2.
    + exists (rs' :: l'). split; [constructor; assumption|]. split; [rewrite E2, <- app_assoc; reflexivity|].
      rewrite M1. constructor; [eapply Forall2_len; exact F2|exact RB2].
Qed.

Lemma get_set_sec m sec x : 0 <= sec <= 3 -> get_sec (set_sec m sec x) sec = x.
Proof.
  intros H. assert (sec = 0 \/ sec = 1 \/ sec = 2 \/ sec = 3) as [Hs|[Hs|[Hs|Hs]]] by lia; subst sec; reflexivity.
Qed.
Lemma set_set_sec m sec x y : set_sec (set_sec m sec x) sec y = set_sec m sec y.
Proof.
  unfold set_sec. cbn [mid mflags mq man mau mad mopt mtsig].
  destruct (sec =? 0); destruct (sec =? 1); destruct (sec =? 2); destruct (sec =? 3); reflexivity.
Qed.

Lemma fold_apply_d sec : 0 <= sec <= 3 -> forall ds m,
  fold_left (apply_d sec false) ds m = set_sec m sec (fold_left step_sec ds (get_sec m sec)) \/ ds = [].
Proof.
  intros Hs ds. induction ds as [|d ds IH]; intros m; [right; reflexivity|]. left.
  cbn [fold_left]. destruct (IH (apply_d sec false m d)) as [E|E].
  - rewrite E. unfold apply_d at 1 2. rewrite get_set_sec by exact Hs. rewrite set_set_sec. reflexivity.
  - subst ds. cbn [fold_left]. unfold apply_d, step_sec. reflexivity.
Qed.

(* ---------- questions ---------- *)
Definition QReads (w : list Z) (off : nat) (n' : name) (ty cl : Z) (end_ : nat) : Prop :=
  (end_ <= length w)%nat /\ (off < end_)%nat /\
  forall ext, exists c1 : nat,
    (c1 + 4 = end_)%nat /\
    get_name (w ++ ext) o (length (w ++ ext)) off = Ok (n', c1) /\
    rd_u16 (w ++ ext) (length (w ++ ext)) c1 = Ok ty /\
    rd_u16 (w ++ ext) (length (w ++ ext)) (c1 + 2) = Ok cl.

Lemma QReads_app w more off n' ty cl end_ : QReads w off n' ty cl end_ -> QReads (w ++ more) off n' ty cl end_.
Proof.
  intros (A & B & C). split; [rewrite app_length; lia|]. split; [exact B|].
  intros ext. rewrite <- app_assoc. apply C.
Qed.

Lemma q_em_read n ty cl file t em t' :
  TableSound file t -> name_wf o n -> q_em o n ty cl (zlen file) t = Ok (em, t') ->
  TableSound (file ++ em) t' /\
  exists n', ci_equal n' n /\ name_wf o n' /\ QReads (file ++ em) (length file) n' ty cl (length (file ++ em)) /\
    (forall tq, tbl_ci tq t -> exists tq', q_em o n' ty cl (zlen file) tq = Ok (em, tq') /\ tbl_ci tq' t').
Proof.
  intros TS NO H. unfold q_em in H.
  apply bind_ok in H. destruct H as ([e1 t1] & H1 & H).
  apply bind_ok in H. destruct H as (h1 & E1 & H). apply bind_ok in H. destruct H as (h2 & E2 & H).
  cbn [fst snd] in H. injection H as <- <-.
  pose proof E1 as P1. pose proof E2 as P2.
  apply pack16_ok in E1, E2. destruct E1 as (-> & R1). destruct E2 as (-> & R2).
  destruct (name_wf_full o n OO NO) as (L & HF & NOL).
  destruct (nm_em_sound_sim _ _ _ _ _ _ _ _ TS HF NOL H1) as (TS1 & L' & SL & NOL' & D1).
  destruct (name_back_sim o n L L' true t OO NO HF SL NOL') as (n' & X & HRZ & CI1 & NO1 & HFX & SX).
  split.
  { rewrite app_assoc. apply TableSound_app. exact TS1. }
  exists n'. split; [exact CI1|]. split; [exact NO1|].
  pose proof (Dec_bounds _ _ _ _ _ D1) as (B1 & B2 & B3).
  split.
  2:{ intros tq TC. destruct (nm_em_resim n' n o true (zlen file) tq t e1 t1 X L TC HF HFX SX H1) as (tq1 & E1 & TC1).
      exists tq1. split; [|exact TC1]. unfold q_em. rewrite E1. cbn [bind fst snd]. rewrite P1, P2. reflexivity. }
  split; [lia|]. split; [rewrite !app_length in *; cbn [length MessageM.u16]; lia|].
  intros ext. exists (length (file ++ e1)).
  split; [rewrite !app_length; cbn [length MessageM.u16]; lia|].
  replace ((file ++ e1 ++ MessageM.u16 ty ++ MessageM.u16 cl) ++ ext)
    with ((file ++ e1) ++ (MessageM.u16 ty ++ MessageM.u16 cl ++ ext)) by (rewrite <- !app_assoc; reflexivity).
  split.
  - rewrite (get_name_relz o _ _ _ OO). rewrite (nm_read file e1 _ _ L' NOL' D1) by (rewrite !app_length; lia).
    cbn [bind fst snd]. rewrite HRZ. reflexivity.
  - split.
    + rewrite rd_u16_at; [reflexivity|lia|]. rewrite !app_length. cbn [length MessageM.u16]. lia.
    + replace ((file ++ e1) ++ MessageM.u16 ty ++ MessageM.u16 cl ++ ext)
        with (((file ++ e1) ++ MessageM.u16 ty) ++ MessageM.u16 cl ++ ext) by (rewrite <- !app_assoc; reflexivity).
      replace (length (file ++ e1) + 2)%nat with (length ((file ++ e1) ++ MessageM.u16 ty)) by (rewrite app_length; reflexivity).
      rewrite rd_u16_at; [reflexivity|lia|]. rewrite !app_length. cbn [length MessageM.u16]. lia.
Qed.

Record qd := mkQ { q_name : name; q_ty : Z; q_cl : Z }.

Inductive QChain (w : list Z) : nat -> list qd -> nat -> Prop :=
| qc_nil off : (off <= length w)%nat -> QChain w off [] off
| qc_cons off q mid qs end_ :
    QReads w off (q_name q) (q_ty q) (q_cl q) mid -> QChain w mid qs end_ -> QChain w off (q :: qs) end_.

Lemma QChain_app_w w more off qs end_ : QChain w off qs end_ -> QChain (w ++ more) off qs end_.
Proof.
  induction 1.
  - constructor. rewrite app_length. lia.
  - econstructor; [apply QReads_app; eassumption|assumption].
Qed.

Lemma QChain_end w off qs end_ : QChain w off qs end_ -> (off <= end_ <= length w)%nat.
Proof. induction 1; [lia|]. destruct H as (A & B & _). lia. Qed.

Definition add_q (m : msg) (q : qd) : msg :=
  set_sec m 0 (mq m ++ [mkRR (q_name q) (q_cl q) (q_ty q) 0 None 0 []]).

Lemma get_question_chain w ext : forall qs off end_ m,
  QChain w off qs end_ ->
  get_question (w ++ ext) o false (length qs) off m = Ok (end_, fold_left add_q qs m).
Proof.
  induction qs as [|q qs IH]; intros off end_ m C.
  - inversion C; subst. reflexivity.
  - inversion C as [|? ? mid ? ? R C']; subst. cbn [length get_question].
    destruct R as (_ & _ & R). destruct (R ext) as (c1 & Hc & Hn & Ht & Hcl).
    rewrite Hn. cbn [bind fst snd]. rewrite Ht, Hcl. cbn [bind].
    unfold parse_rr_header. cbn [negb bind].
    replace (c1 + 4)%nat with mid by lia.
    rewrite (IH mid end_ _ C'). reflexivity.
Qed.

Definition q_desc (rs : rrset) (q : qd) : Prop :=
  ci_equal (q_name q) (rname rs) /\ name_wf o (q_name q) /\ q_ty q = rtype rs /\ q_cl q = rclass rs.

Lemma add_questions_chain : forall l r r' file,
  zlen file = zlen (out r) -> TableSound file (tbl r) -> TblBelow r ->
  Forall (fun rs => name_wf o (rname rs)) l ->
  add_questions o l r = Ok (false, r') ->
  exists em qs,
    out r' = out r ++ em /\ TableSound (file ++ em) (tbl r') /\ TblBelow r' /\
    QChain (file ++ em) (length file) qs (length (file ++ em)) /\ Forall2 q_desc l qs /\
    cq r' = cq r + zlen qs /\ can r' = can r /\ cau r' = cau r /\ cad r' = cad r /\
    rflags r' = rflags r /\ maxsz r' = maxsz r /\ reserved r' = reserved r /\ padded r' = padded r /\
    (forall tq, tbl_ci tq (tbl r) ->
       exists tq', add_questions o (map (fun q => mkRR (q_name q) (q_cl q) (q_ty q) 0 None 0 []) qs) (with_tbl r tq)
                   = Ok (false, with_tbl r' tq') /\ tbl_ci tq' (tbl r')).
Proof.
  induction l as [|rs l IH]; intros r r' file Hz TS TB WF H.
  - injection H as <-. exists [], []. rewrite !app_nil_r.
    split; [reflexivity|]. split; [exact TS|]. split; [exact TB|].
    split; [constructor; lia|]. split; [constructor|].
    change (zlen (@nil qd)) with 0.
    split; [lia|]. split; [reflexivity|]. split; [reflexivity|]. split; [reflexivity|]. split; [reflexivity|].
    split; [reflexivity|]. split; [reflexivity|]. split; [reflexivity|].
    intros tq TC. exists tq. split; [reflexivity|exact TC].
  - cbn [add_questions] in H. apply bind_ok in H. destruct H as ([b1 r1] & H1 & H). cbn [fst snd] in H.
    destruct b1; [discriminate|]. inversion WF as [|? ? W1 WF']; subst.
    rewrite add_question_tracked in H1.
    destruct (tracked_spec _ _ _ _ _ _ (ext_q_em _ _ _ _) TB H1) as (Hs & em1 & new & HE & F & [(_ & Hfit & ->)|(Hb & _)]);
      [|discriminate].
    rewrite <- Hz in HE.
    destruct (q_em_read _ _ _ file (tbl r) em1 _ TS W1 HE) as (TS1 & n' & CI & NO' & QR & RE1).
    set (r1 := inc_count (set_out (set_rsec r 0) (out r ++ em1) (tbl r ++ new)) 0 1) in *.
    assert (Hz1 : zlen (file ++ em1) = zlen (out r1)).
    { unfold r1. cbn [out inc_count set_out]. rewrite !zlen_app'. lia. }
    assert (TB1 : TblBelow r1).
    { unfold TblBelow, r1. cbn [out tbl inc_count set_out].
      rewrite zlen_app'. apply Forall_app. split.
      - eapply Forall_impl; [|exact TB]. cbn beta. intros kv Hk. pose proof (zlen_nn em1). nlia.
      - eapply Forall_impl; [|exact F]. cbn beta. intros kv (Hk & _). nlia. }
    destruct (IH r1 r' (file ++ em1) Hz1 TS1 TB1 WF' H) as (em2 & qs & O2 & TS2 & TB2 & CH2 & QD & C0 & C1 & C2 & C3 & FL & MX & RV & PD & RE2).
    exists (em1 ++ em2), (mkQ n' (rtype rs) (rclass rs) :: qs).
    rewrite <- app_assoc in TS2, CH2.
    split; [rewrite O2; unfold r1; cbn [out inc_count set_out]; rewrite <- app_assoc; reflexivity|].
    split; [exact TS2|]. split; [exact TB2|].
    split.
    { econstructor; [|exact CH2]. cbn [q_name q_ty q_cl]. rewrite app_assoc. apply QReads_app. exact QR. }
    split; [constructor; [unfold q_desc; cbn [q_name q_ty q_cl]; auto|exact QD]|].
    split; [rewrite zlen_cons', C0; unfold r1; cbn [cq inc_count set_out set_rsec Z.eqb]; lia|].
    split; [rewrite C1; reflexivity|]. split; [rewrite C2; reflexivity|]. split; [rewrite C3; reflexivity|].
    split; [rewrite FL; reflexivity|]. split; [rewrite MX; reflexivity|]. split; [rewrite RV; reflexivity|].
    split; [rewrite PD; reflexivity|].
    intros tq TC. rewrite Hz in RE1.
    destruct (tracked_sim (q_em o n' (rtype rs) (rclass rs)) _ _ _ _ _ tq H1 TC) as (tq1 & T1 & TC1).
    { intros em0 t0 HE0. rewrite <- Hz in HE0. assert (em0 = em1 /\ t0 = tbl r ++ new) as (-> & ->) by (split; congruence).
      apply RE1. exact TC. }
    destruct (RE2 tq1 TC1) as (tq' & T2 & TC').
    exists tq'. split; [|exact TC']. cbn [map add_questions q_name q_ty q_cl rname rtype rclass].
    rewrite add_question_tracked. rewrite T1. cbn [bind fst snd]. exact T2.
Qed.

(* ---------- OPT ---------- *)
(* an option in the octets its class renders: REPORTCHANNEL carries an uncompressed absolute name, every
   other code is a fixed point of MessageM.opt_dec *)
Definition opt_wf (cd : Z * list Z) : Prop :=
  if fst cd =? 18 then exists n, name_ok n /\ snd cd = wire_labels false n
  else opt_dec (fst cd) (snd cd) = Ok (snd cd).
Definition opts_ok (os : list (Z * list Z)) : Prop := Forall opt_wf os.

Lemma opts_loop_read : forall os wb pre post fuel acc,
  opts_wire os = Ok wb -> opts_ok os -> (length wb < fuel)%nat ->
  opts_loop (pre ++ wb ++ post) fuel (length (pre ++ wb)) (length pre) acc = Ok (rev acc ++ os).
Proof.
  induction os as [|[code data] os IH]; intros wb pre post fuel acc H OK Hf.
  - injection H as <-. destruct fuel; [lia|]. cbn [opts_loop]. rewrite app_nil_r, Nat.leb_refl.
    rewrite app_nil_r. reflexivity.
  - cbn [opts_wire] in H. apply bind_ok in H. destruct H as (h1 & E1 & H). apply bind_ok in H. destruct H as (h2 & E2 & H).
    apply bind_ok in H. destruct H as (rest & E3 & H). injection H as <-.
    apply pack16_ok in E1, E2. destruct E1 as (-> & R1). destruct E2 as (-> & R2).
    inversion OK as [|? ? O1 OK']; subst. cbn [fst snd] in O1.
    destruct fuel; [lia|]. cbn [opts_loop].
    set (wb := MessageM.u16 code ++ MessageM.u16 (zlen data) ++ data ++ rest) in *.
    assert (Hwl : length wb = (4 + length data + length rest)%nat).
    { unfold wb. rewrite !app_length. cbn [length MessageM.u16]. lia. }
    destruct (Nat.leb_spec (length (pre ++ wb)) (length pre)); [rewrite app_length in *; lia|].
    replace (pre ++ wb ++ post) with (pre ++ MessageM.u16 code ++ (MessageM.u16 (zlen data) ++ data ++ rest ++ post))
      by (unfold wb; rewrite <- !app_assoc; reflexivity).
    rewrite rd_u16_at by (try lia; rewrite app_length; lia). cbn [bind].
    replace (pre ++ MessageM.u16 code ++ MessageM.u16 (zlen data) ++ data ++ rest ++ post)
      with ((pre ++ MessageM.u16 code) ++ MessageM.u16 (zlen data) ++ (data ++ rest ++ post))
      by (rewrite <- !app_assoc; reflexivity).
    replace (length pre + 2)%nat with (length (pre ++ MessageM.u16 code)) by (rewrite app_length; reflexivity).
    rewrite rd_u16_at by (try lia; rewrite !app_length; cbn [length MessageM.u16]; lia). cbn [bind].
    replace ((pre ++ MessageM.u16 code) ++ MessageM.u16 (zlen data) ++ data ++ rest ++ post)
      with ((pre ++ MessageM.u16 code ++ MessageM.u16 (zlen data)) ++ data ++ (rest ++ post))
      by (rewrite <- !app_assoc; reflexivity).
    replace (length pre + 4)%nat with (length (pre ++ MessageM.u16 code ++ MessageM.u16 (zlen data)))
      by (rewrite !app_length; cbn [length MessageM.u16]; lia).
    replace (Z.to_nat (zlen data)) with (length data) by (unfold zlen; rewrite Nat2Z.id; reflexivity).
    rewrite rd_bytes_at by (rewrite !app_length; cbn [length MessageM.u16]; lia). cbn [bind].
    assert (ED : (if code =? 18
                  then do nc <- nm_from_wire ((pre ++ MessageM.u16 code ++ MessageM.u16 (zlen data)) ++ data ++ rest ++ post)
                                             (length (pre ++ MessageM.u16 code ++ MessageM.u16 (zlen data)) + length data)
                                             (length (pre ++ MessageM.u16 code ++ MessageM.u16 (zlen data)));
                       if Nat.eqb (snd nc) (length (pre ++ MessageM.u16 code ++ MessageM.u16 (zlen data)) + length data)
                       then Ok (wire_labels false (fst nc)) else Lib eFormError
                  else opt_dec code data) = Ok data).
    { unfold opt_wf in O1. cbn [fst snd] in O1. destruct (code =? 18); [|exact O1].
      destruct O1 as (n & NO & ->).
      set (F := pre ++ MessageM.u16 code ++ MessageM.u16 (zlen (wire_labels false n))) in *.
      assert (EM : nm_em n None false (zlen F) [] = Ok (wire_labels false n, [])).
      { unfold nm_em. rewrite (full_labels_abs n None NO). reflexivity. }
      destruct (nm_em_sound_sim n None n false F [] _ _ (proj1 (TableSound_nil F)) (full_labels_abs n None NO) NO EM)
        as (_ & L' & SL & NO1 & D1).
      cbn [Lsim] in SL. subst L'.
      replace (F ++ wire_labels false n ++ rest ++ post) with ((F ++ wire_labels false n) ++ (rest ++ post))
        by (rewrite <- !app_assoc; reflexivity).
      replace (length F + length (wire_labels false n))%nat with (length (F ++ wire_labels false n)) by (rewrite app_length; reflexivity).
      rewrite (nm_read F (wire_labels false n) (rest ++ post) _ n NO1 D1) by lia.
      cbn [bind fst snd]. rewrite Nat.eqb_refl. reflexivity. }
    rewrite ED. cbn [bind].
    replace ((pre ++ MessageM.u16 code ++ MessageM.u16 (zlen data)) ++ data ++ rest ++ post)
      with ((pre ++ MessageM.u16 code ++ MessageM.u16 (zlen data) ++ data) ++ rest ++ post)
      by (rewrite <- !app_assoc; reflexivity).
    replace (length (pre ++ MessageM.u16 code ++ MessageM.u16 (zlen data)) + length data)%nat
      with (length (pre ++ MessageM.u16 code ++ MessageM.u16 (zlen data) ++ data))
      by (rewrite !app_length; lia).
    replace (length (pre ++ wb)) with (length ((pre ++ MessageM.u16 code ++ MessageM.u16 (zlen data) ++ data) ++ rest))
      by (unfold wb; rewrite <- !app_assoc; reflexivity).
    rewrite (IH rest _ post fuel _ E3 OK') by lia.
    cbn [rev]. rewrite <- app_assoc. reflexivity.
Qed.

Lemma ci_root n : ci_equal n [[]] -> n = [[]].
Proof.
  unfold ci_equal. destruct n as [|l [|l2 n]]; cbn; intros H; try discriminate.
  injection H as H. destruct l; [reflexivity|discriminate].
Qed.

Lemma get_rr_opt iu w off abs' owner' cl ttl wb os end_ ext count i fu m :
  RRreads o o w off abs' owner' tOPT cl ttl [FRest] [PB wb] end_ -> ci_equal owner' [[]] ->
  opts_wire os = Ok wb -> opts_ok os -> mopt m = None ->
  get_rr (w ++ ext) o po0 iu 3 count i off fu m = Ok (end_, fu, set_opt m (mkOpt ttl cl os)).
Proof.
  intros (c1 & rdl & A & B & C & D & E) CI HW OK HM.
  destruct (E ext) as (EH & ED). apply ci_root in CI. subst owner'.
  unfold get_rr. rewrite EH. cbn [bind]. cbn [Z.eqb Pos.eqb tOPT orb].
  unfold parse_special_rr_header. cbn [Z.eqb Pos.eqb tOPT negb orb]. rewrite HM.
  change (name_eqb [[]] [[]]) with true. cbn [negb orb bind].
  rewrite Nat2Z.id.
  destruct (Nat.ltb_spec (length (w ++ ext) - (c1 + 10)) rdl); [rewrite app_length in *; lia|].
  (* the octets of the rdata *)
  specialize (ED []). cbn [dec_fields] in ED. apply bind_ok in ED. destruct ED as (b & Hb & ED).
  cbn [rev app] in ED. injection ED as ->.
  unfold rd_bytes in Hb. destruct (Nat.ltb (end_ - (c1 + 10)) (end_ - (c1 + 10))); [discriminate|].
  injection Hb as Hb. replace (end_ - (c1 + 10))%nat with rdl in Hb by lia.
  set (wire := w ++ ext) in *.
  assert (Hlen : (c1 + 10 + rdl <= length wire)%nat) by (unfold wire; rewrite app_length; lia).
  remember (firstn (c1 + 10) wire) as pre eqn:Epre.
  remember (skipn rdl (skipn (c1 + 10) wire)) as post eqn:Epost.
  assert (Hw : wire = pre ++ wb ++ post).
  { subst pre post. rewrite <- Hb. rewrite firstn_skipn. rewrite firstn_skipn. reflexivity. }
  assert (Hp : length pre = (c1 + 10)%nat) by (subst pre; rewrite firstn_length; lia).
  assert (Hwb : length wb = rdl) by (rewrite <- Hb, firstn_length, skipn_length; lia).
  change (tOPT =? tOPT) with true. cbv iota.
  replace (opts_loop wire (S rdl) (c1 + 10 + rdl) (c1 + 10) [])
    with (opts_loop (pre ++ wb ++ post) (S rdl) (length (pre ++ wb)) (length pre) [])
    by (rewrite app_length, Hp, Hwb, <- Hw; reflexivity).
  rewrite (opts_loop_read os wb pre post (S rdl) [] HW OK) by lia. cbn [bind rev app].
  rewrite A. reflexivity.
Qed.

(* ---------- the whole rendering ---------- *)
Definition tsig_fs : list fld := [FNameA; FFix 8; FCnt16; FFix 2; FMax16 4095; FCnt16].

Record WfMsg (m : msg) : Prop := mkWf {
  wf_notupdate : (opcode_from_flags (mflags m) =? 5) = false;
  wf_q : Forall (fun rs => name_wf o (rname rs)) (mq m);
  wf_an : Forall wf_rrset (man m);
  wf_au : Forall wf_rrset (mau m);
  wf_ad : Forall wf_rrset (mad m);
  wf_keys_an : keys_fresh [] (man m);
  wf_keys_au : keys_fresh [] (mau m);
  wf_keys_ad : keys_fresh [] (mad m);
  wf_opt : match mopt m with Some oo => opts_ok (oopts oo) /\ name_wf o [[]] | None => True end }.

Definition hdr_bytes (id flags c0 c1 c2 c3 : Z) : list Z :=
  MessageM.u16 id ++ MessageM.u16 flags ++ MessageM.u16 c0 ++ MessageM.u16 c1 ++ MessageM.u16 c2 ++ MessageM.u16 c3.

Lemma write_header_full id r r' :
  write_header id r = Ok r' ->
  r' = set_out r (hdr_bytes id (rflags r) (cq r) (can r) (cau r) (cad r) ++ skipn 12 (out r)) (tbl r) /\
  0 <= id <= 65535 /\ 0 <= rflags r <= 65535 /\ 0 <= cq r <= 65535 /\ 0 <= can r <= 65535 /\
  0 <= cau r <= 65535 /\ 0 <= cad r <= 65535.
Proof.
  intros H. unfold write_header in H.
  apply bind_ok in H. destruct H as (a & Ea & H). apply bind_ok in H. destruct H as (b & Eb & H).
  apply bind_ok in H. destruct H as (c0 & E0 & H). apply bind_ok in H. destruct H as (c1 & E1 & H).
  apply bind_ok in H. destruct H as (c2 & E2 & H). apply bind_ok in H. destruct H as (c3 & E3 & H).
  apply pack16_ok in Ea, Eb, E0, E1, E2, E3.
  destruct Ea as (-> & ?). destruct Eb as (-> & ?). destruct E0 as (-> & ?). destruct E1 as (-> & ?).
  destruct E2 as (-> & ?). destruct E3 as (-> & ?).
  split; [|repeat split; lia]. injection H as <-. unfold hdr_bytes. rewrite <- !app_assoc. reflexivity.
Qed.

Lemma SecDesc_ordinary : forall l ds, SecDesc l ds -> Forall wf_rrset l -> Forall ordinary ds.
Proof.
  induction 1 as [|rs l ds1 ds2 F2 SD IH]; intros WF; [constructor|].
  inversion WF as [|? ? W1 WF']; subst. apply Forall_app. split; [|apply IH; exact WF'].
  destruct W1 as (_ & _ & _ & T1 & T2 & TTL & (fs & HS & _) & _).
  clear - F2 T1 T2 TTL HS. induction F2 as [|d rd ds rds (D1 & D2 & D3 & D4 & _) _ IHF]; constructor; [|exact IHF].
  unfold ordinary. rewrite D1, D2, D3, D4. unfold rs_fs. rewrite HS. auto.
Qed.

(* the OPT record written by add_opt (no padding) *)
Lemma add_opt_chain (oo : optrec) os ts r r' file :
  name_wf o [[]] ->
  zlen file = zlen (out r) -> TableSound file (tbl r) -> TblBelow r ->
  add_opt o oo 0 os ts r = Ok (false, r') ->
  exists em wb abs' owner',
    out r' = out r ++ em /\ opts_wire (oopts oo) = Ok wb /\ ci_equal owner' [[]] /\
    RRreads o o (file ++ em) (length file) abs' owner' tOPT (opayload oo) (oflags oo) [FRest] [PB wb] (length (file ++ em)) /\
    TableSound (file ++ em) (tbl r') /\
    cq r' = cq r /\ can r' = can r /\ cau r' = cau r /\ cad r' = cad r + 1 /\ rflags r' = rflags r /\
    (forall tq, tbl_ci tq (tbl r) ->
       exists tq', add_opt o oo 0 os ts (with_tbl r tq) = Ok (false, with_tbl r' tq') /\ tbl_ci tq' (tbl r')).
Proof.
  intros NW Hz TS TB H. unfold add_opt in H. cbn [Z.eqb] in H.
  apply bind_ok in H. destruct H as (rs & HR & H). unfold opt_rrset in HR.
  apply bind_ok in HR. destruct HR as (wb & HW & HR). injection HR as <-.
  rewrite add_rrset_tracked in H.
  destruct (tracked_spec _ _ _ _ _ _ (ext_rrset_em _ _ _) TB H) as (Hs & em & new & HE & F & [(_ & Hfit & ->)|(Hb & _)]);
    [|discriminate].
  rewrite <- Hz in HE. unfold rrset_em, wclass in HE. cbn [rrds rdeleting rname rtype rclass rttl] in HE.
  cbn [rrs_em] in HE. apply bind_ok in HE. destruct HE as ([e1 t1] & H1 & HE). cbn [bind fst snd] in HE.
  injection HE as <- ->. rewrite app_nil_r in *.
  destruct (name_wf_full o [[]] OO NW) as (Lr & HFr & NOr).
  assert (PO : Forall (piece_wf o) [PB wb]) by (constructor; [exact Logic.I|constructor]).
  assert (S0 : shaped [FRest] [PB wb]) by constructor.
  destruct (rr_em_read_x o o [FRest] [[]] Lr tOPT (opayload oo) (oflags oo) [PB wb] true true file (tbl r) e1 _ OO OO TS HFr NOr PO S0 H1)
    as (TS1 & R1 & R2 & R3 & abs' & owner' & rd' & c1 & rdl & CIa & NOa & HX & CI2 & PO2 & S2 & A & B & C & E & SL & RE1).
  destruct (name_back o [[]] Lr abs' OO NW HFr CIa NOa) as (x' & HX' & CI1 & _).
  assert (x' = owner') by congruence. subst x'.
  assert (rd' = [PB wb]).
  { inversion CI2 as [|x y l l' Hxy Hl]; subst. inversion Hl; subst. destruct x; cbn in Hxy; try contradiction. subst. reflexivity. }
  subst rd'.
  exists e1, wb, abs', owner'. cbn [out tbl cq can cau cad rflags inc_count set_out set_rsec Z.eqb Pos.eqb].
  split; [reflexivity|]. split; [exact HW|]. split; [exact CI1|]. split.
  - exists c1, rdl. split; [exact A|]. split; [lia|]. split; [exact B|]. split; [exact C|]. exact E.
  - split; [exact TS1|]. unfold rrset_count. cbn [rrds]. change (zlen [[PB wb]]) with 1.
    split; [lia|]. split; [lia|]. split; [lia|]. split; [lia|]. split; [lia|].
    intros tq TC.
    destruct (tracked_sim (rrset_em (mkRR [[]] (opayload oo) tOPT 0 None (oflags oo) [[PB wb]]) o true) _ _ _ _ _ tq H TC) as (tq1 & T1 & TC1).
    { intros em0 t0 HE0. unfold rrset_em, wclass in HE0 |- *. cbn [rrds rdeleting rname rtype rclass rttl rrs_em] in HE0 |- *.
      apply bind_ok in HE0. destruct HE0 as ([e1' t1'] & H1' & HE0). cbn [bind fst snd] in HE0. injection HE0 as <- <-.
      rewrite <- Hz in H1' |- *. assert (e1' = e1 /\ t1' = tbl r ++ new) as (-> & ->) by (split; congruence).
      destruct (RE1 tq [[]] Lr TC HFr (lsim_refl _ _)) as (tq1 & E1 & TC1). exists tq1. split; [|exact TC1].
      rewrite E1. reflexivity. }
    exists tq1. split; [|exact TC1]. unfold add_opt, opt_rrset. cbn [Z.eqb]. rewrite HW. cbn [bind].
    rewrite add_rrset_tracked. exact T1.
Qed.

Lemma apply_d_keeps sec m d :
  mopt (apply_d sec false m d) = mopt m /\ mtsig (apply_d sec false m d) = mtsig m /\
  mid (apply_d sec false m d) = mid m /\ mflags (apply_d sec false m d) = mflags m /\
  (forall s, 0 <= s <= 3 -> s <> sec -> get_sec (apply_d sec false m d) s = get_sec m s).
Proof.
  unfold apply_d. cbn [mopt mtsig mid mflags set_sec]. repeat split; try reflexivity.
  intros s Hs Hne. unfold get_sec, set_sec. cbn [mq man mau mad].
  assert (s = 0 \/ s = 1 \/ s = 2 \/ s = 3) as [Hx|[Hx|[Hx|Hx]]] by lia; subst s; cbn [Z.eqb Pos.eqb];
    destruct (Z.eqb_spec sec 0); destruct (Z.eqb_spec sec 1); destruct (Z.eqb_spec sec 2); destruct (Z.eqb_spec sec 3);
    try lia; reflexivity.
Qed.

Lemma fold_apply_d_keeps sec ds : forall m,
  mopt (fold_left (apply_d sec false) ds m) = mopt m /\
  mtsig (fold_left (apply_d sec false) ds m) = mtsig m /\
  mid (fold_left (apply_d sec false) ds m) = mid m /\
  mflags (fold_left (apply_d sec false) ds m) = mflags m /\
  (forall s, 0 <= s <= 3 -> s <> sec -> get_sec (fold_left (apply_d sec false) ds m) s = get_sec m s).
Proof.
  induction ds as [|d ds IH]; intros m; cbn [fold_left]; [repeat split; reflexivity|].
  destruct (IH (apply_d sec false m d)) as (A & B & C & D & E).
  destruct (apply_d_keeps sec m d) as (A' & B' & C' & D' & E').
  rewrite A, B, C, D, A', B', C', D'. repeat split; try reflexivity.
  intros s Hs Hne. rewrite (E s Hs Hne). apply E'; assumption.
Qed.

End WithOrigin.
