(* C19 - well-formedness predicate, in-order traversal lemmas, split / steal / merge. *)
From DV Require Import Base.Prelude Model.BTreeM Proofs.BTreeBase.

Notation E := (fun k : tree => elements k).

(* ---------------------------------------------------------------- in-order traversal *)

Fixpoint zipl (ks : list tree) (es : list elt) : list elt :=
  match ks, es with
  | k :: ks', e :: es' => elements k ++ e :: zipl ks' es'
  | _, _ => []
  end.

Fixpoint zipr (es : list elt) (ks : list tree) : list elt :=
  match es, ks with
  | e :: es', k :: ks' => e :: elements k ++ zipr es' ks'
  | _, _ => []
  end.

Lemma elements_node es ks : elements (Node false es ks) = interleave E es ks.
Proof. reflexivity. Qed.
Lemma elements_leaf es ks : elements (Node true es ks) = es.
Proof. reflexivity. Qed.

Lemma interleave_tail eb c kb : length kb = length eb -> interleave E eb (c :: kb) = elements c ++ zipr eb kb.
Proof.
  revert c kb. induction eb as [|e eb IH]; intros c kb Hl; destruct kb as [|k kb]; try discriminate; cbn.
  - now rewrite app_nil_r.
  - f_equal. f_equal. apply IH. cbn in Hl. lia.
Qed.

Lemma interleave_split ea eb ka c kb :
  length ka = length ea -> interleave E (ea ++ eb) (ka ++ c :: kb) = zipl ka ea ++ interleave E eb (c :: kb).
Proof.
  revert ea. induction ka as [|k ka IH]; intros ea Hl; destruct ea as [|e ea]; try discriminate.
  - reflexivity.
  - cbn [app zipl]. cbn [interleave]. change (interleave E (ea ++ eb) (ka ++ c :: kb)) with (interleave E (ea ++ eb) (ka ++ c :: kb)).
    rewrite <- app_assoc. cbn [app]. f_equal. f_equal. apply IH. cbn in Hl. lia.
Qed.

Lemma elements_split ea eb ka c kb :
  length ka = length ea -> length kb = length eb ->
  elements (Node false (ea ++ eb) (ka ++ c :: kb)) = zipl ka ea ++ elements c ++ zipr eb kb.
Proof. intros H1 H2. rewrite elements_node, interleave_split, interleave_tail by assumption. reflexivity. Qed.

(* two adjacent children and their separator *)
Lemma elements_split2 ea pe eb ka l r kb :
  length ka = length ea -> length kb = length eb ->
  elements (Node false (ea ++ pe :: eb) (ka ++ l :: r :: kb))
  = zipl ka ea ++ (elements l ++ pe :: elements r) ++ zipr eb kb.
Proof.
  intros H1 H2. rewrite elements_split by (cbn; lia). cbn [zipr]. rewrite <- !app_assoc. reflexivity.
Qed.

Lemma interleave_snoc es ks e k :
  length ks = S (length es) -> interleave E (es ++ [e]) (ks ++ [k]) = interleave E es ks ++ e :: elements k.
Proof.
  revert ks. induction es as [|e0 es IH]; intros ks Hl.
  - destruct ks as [|k0 [|]]; try discriminate. reflexivity.
  - destruct ks as [|k0 ks]; [discriminate|]. cbn [app interleave]. rewrite IH by (cbn in Hl; lia).
    now rewrite <- app_assoc.
Qed.

Lemma interleave_app es1 e es2 ks1 ks2 :
  length ks1 = S (length es1) -> length ks2 = S (length es2) ->
  interleave E (es1 ++ e :: es2) (ks1 ++ ks2) = interleave E es1 ks1 ++ e :: interleave E es2 ks2.
Proof.
  revert ks1. induction es1 as [|e0 es1 IH]; intros ks1 H1 H2.
  - destruct ks1 as [|k0 [|]]; try discriminate. cbn. destruct ks2; [discriminate|]. reflexivity.
  - destruct ks1 as [|k0 ks1]; [discriminate|]. cbn [app interleave]. rewrite IH by (cbn in H1; lia).
    now rewrite <- app_assoc.
Qed.

Lemma in_zipl x ka ea : length ka = length ea -> In x ea -> In x (zipl ka ea).
Proof.
  revert ea. induction ka as [|k ka IH]; intros [|e ea] Hl; try discriminate; cbn; [tauto|].
  intros [->|H]; apply in_or_app; right; [now left|right]. apply IH; [cbn in Hl; lia|assumption].
Qed.

Lemma in_zipr x eb kb : length kb = length eb -> In x eb -> In x (zipr eb kb).
Proof.
  revert kb. induction eb as [|e eb IH]; intros [|k kb] Hl; try discriminate; cbn; [tauto|].
  intros [->|H]; [now left|right]. apply in_or_app; right. apply IH; [cbn in Hl; lia|assumption].
Qed.

Lemma zipl_lt ka ea k : length ka = length ea -> ksorted (zipl ka ea) -> all_lt ea k -> all_lt (zipl ka ea) k.
Proof.
  revert ea. induction ka as [|c ka IH]; intros [|e ea] Hl Hs Hlt; try discriminate; cbn in *; try constructor.
  inversion Hlt; subst. apply ksorted_mid in Hs as (Ha1 & Ha2 & Ha3 & Ha4).
  apply all_lt_app; split.
  - eapply all_lt_weaken; [|exact Ha1]. lia.
  - constructor; [assumption|]. apply IH; [lia|assumption|assumption].
Qed.

Lemma zipr_gt eb kb k : length kb = length eb -> ksorted (zipr eb kb) -> all_gt eb k -> all_gt (zipr eb kb) k.
Proof.
  revert kb. induction eb as [|e eb IH]; intros [|c kb] Hl Hs Hgt; try discriminate; cbn in *; try constructor.
  - inversion Hgt; subst. assumption.
  - inversion Hgt; subst. destruct Hs as (Hg & Hs). eapply all_gt_weaken; [|exact Hg]. lia.
Qed.

(* ---------------------------------------------------------------- well-formed subtrees *)

Lemma Forall_mid {A} (P : A -> Prop) a x b : Forall P (a ++ x :: b) <-> Forall P a /\ P x /\ Forall P b.
Proof.
  rewrite Forall_app. split.
  - intros (H1 & H2). inversion H2; subst. tauto.
  - intros (H1 & H2 & H3). split; [assumption|now constructor].
Qed.

Lemma firstn_app_exact {A} (a b : list A) n : length a = n -> firstn n (a ++ b) = a.
Proof. intros <-. rewrite firstn_app, firstn_all, Nat.sub_diag. cbn. apply app_nil_r. Qed.
Lemma skipn_app_exact {A} (a b : list A) n : length a = n -> skipn n (a ++ b) = b.
Proof. intros <-. rewrite skipn_app, skipn_all, Nat.sub_diag. reflexivity. Qed.

Lemma nth_error_app_mid' {A} (a : list A) x b n : length a = n -> nth_error (a ++ x :: b) n = Some x.
Proof. intros <-. apply nth_error_app_mid. Qed.

Lemma list_split_at {A} (l : list A) n : (n <= length l)%nat -> exists a b, l = a ++ b /\ length a = n.
Proof. intros H. exists (firstn n l), (skipn n l). split; [symmetry; apply firstn_skipn|]. rewrite firstn_length. lia. Qed.

Section WF.
Variable t : nat.
Hypothesis Ht : (3 <= t)%nat.

(* wfn lo h n : n is a subtree of height h, every node below it holds t-1..2t-1 keys, n itself
   holds lo..2t-1 keys, internal nodes have one more child than keys, all leaves at depth h *)
Inductive wfn : nat -> nat -> tree -> Prop :=
| wfn_leaf lo es : (lo <= length es <= t_max t)%nat -> wfn lo 1 (Node true es [])
| wfn_node lo h es ks :
    (lo <= length es <= t_max t)%nat -> length ks = S (length es) ->
    Forall (wfn (t_min t) h) ks -> wfn lo (S h) (Node false es ks).

Lemma wfn_inv lo h lf es ks :
  wfn lo h (Node lf es ks) ->
  (lo <= length es <= t_max t)%nat /\
  ((lf = true /\ h = 1%nat /\ ks = []) \/
   (lf = false /\ exists h', h = S h' /\ length ks = S (length es) /\ Forall (wfn (t_min t) h') ks)).
Proof. intros H; inversion H; subst; split; eauto 10. Qed.

Lemma wfn_lo lo lo' h n : wfn lo h n -> (lo' <= length (n_elts n))%nat -> wfn lo' h n.
Proof. intros H; inversion H; subst; cbn; intros; constructor; auto; lia. Qed.

Lemma wfn_len lo h n : wfn lo h n -> (lo <= length (n_elts n) <= t_max t)%nat.
Proof. intros H; inversion H; subst; cbn; lia. Qed.

Lemma wfn_pos lo h n : wfn lo h n -> (1 <= h)%nat.
Proof. intros H; inversion H; lia. Qed.

Lemma wfn_leaf_iff lo h n : wfn lo h n -> (n_leaf n = true <-> h = 1%nat).
Proof.
  destruct n as [lf es ks]. intros H.
  apply wfn_inv in H as (_ & [(-> & Hh & ->)|(-> & h' & Hh & Hk & Hall)]); cbn; [tauto|].
  split; [discriminate|]. intros ->. inversion Hh; subst.
  destruct ks as [|k0 ks]; [discriminate|]. inversion Hall; subst. match goal with H : wfn _ 0 _ |- _ => apply wfn_pos in H end. lia.
Qed.

Lemma wfn_depth lo h n : wfn lo h n -> depth n = h.
Proof.
  revert lo n. induction h as [|h IH]; intros lo [lf es ks] H;
    apply wfn_inv in H as (_ & [(-> & Hh & ->)|(-> & h' & Hh & Hk & Hall)]); try discriminate;
    inversion Hh; subst; try reflexivity.
  destruct ks as [|k ks]; [discriminate|]. inversion Hall; subst. cbn. f_equal. eapply IH; eauto.
Qed.


Lemma t_min_lt_max : (t_min t < t_max t)%nat.
Proof. unfold t_min, t_max. lia. Qed.

Lemma is_maximal_ok lo h n : wfn lo h n -> is_maximal t n = Ok (length (n_elts n) =? t_max t)%nat.
Proof.
  intros H. apply wfn_len in H. unfold is_maximal.
  destruct (Nat.ltb_spec (t_max t) (length (n_elts n))); [lia|reflexivity].
Qed.

Lemma is_minimal_ok h n : wfn (t_min t) h n -> is_minimal t n = Ok (length (n_elts n) =? t_min t)%nat.
Proof.
  intros H. apply wfn_len in H. unfold is_minimal.
  destruct (Nat.ltb_spec (length (n_elts n)) (t_min t)); [lia|reflexivity].
Qed.

(* keys of a node are sorted when its traversal is *)
Lemma in_interleave x es ks : (length es < length ks)%nat -> In x es -> In x (interleave E es ks).
Proof.
  revert ks. induction es as [|e es IH]; intros ks Hl Hin; [destruct Hin|].
  destruct ks as [|k ks]; [cbn in Hl; lia|]. cbn [interleave]. apply in_or_app. right.
  destruct Hin as [->|Hin]; [now left|right]. apply IH; [cbn in Hl; lia|assumption].
Qed.

Lemma interleave_sorted_es es ks : (length es < length ks)%nat -> ksorted (interleave E es ks) -> ksorted es.
Proof.
  revert ks. induction es as [|e es IH]; intros ks Hl Hs; [exact Logic.I|].
  destruct ks as [|k ks]; [cbn in Hl; lia|]. cbn [interleave] in Hs.
  apply ksorted_mid in Hs as (H1 & H2 & H3 & H4). cbn. split.
  - unfold all_gt in *. rewrite Forall_forall in *. intros x Hx. apply H2. apply in_interleave; [cbn in Hl; lia|assumption].
  - apply (IH ks); [cbn in Hl; lia|assumption].
Qed.

Lemma node_es_sorted lo h n : wfn lo h n -> ksorted (elements n) -> ksorted (n_elts n).
Proof.
  intros H Hs. inversion H; subst; cbn in *; [assumption|].
  apply (interleave_sorted_es es ks); [lia|assumption].
Qed.

(* a child of a sorted node is sorted, and bounded by its neighbours *)
Lemma kid_sorted ea eb ka c kb :
  length ka = length ea -> length kb = length eb ->
  ksorted (elements (Node false (ea ++ eb) (ka ++ c :: kb))) ->
  ksorted (elements c) /\ ksorted (zipl ka ea) /\ ksorted (zipr eb kb) /\ ksorted (elements c ++ zipr eb kb) /\
  (forall x, In x (elements c) -> all_lt ea (fst x) /\ all_gt eb (fst x)).
Proof.
  intros H1 H2 Hs. rewrite elements_split in Hs by assumption.
  apply ksorted_app in Hs as (Ha & Hcb & Hacb). pose proof Hcb as Hcb'.
  apply ksorted_app in Hcb as (Hc & Hb & Hcb). repeat split; try assumption.
  - unfold all_lt. apply Forall_forall. intros y Hy.
    specialize (Hacb y (in_zipl _ _ _ H1 Hy)). apply all_gt_app in Hacb as (Hacb & _).
    unfold all_gt in Hacb. rewrite Forall_forall in Hacb. now apply Hacb.
  - unfold all_gt. apply Forall_forall. intros y Hy. specialize (Hcb x H).
    unfold all_gt in Hcb. rewrite Forall_forall in Hcb. apply Hcb. now apply in_zipr.
Qed.

(* ---------------------------------------------------------------- split *)




Lemma split_node_spec h c :
  wfn (t_min t) h c -> length (n_elts c) = t_max t ->
  exists l m r, split_node t c = Ok (l, m, r) /\ wfn (t_min t) h l /\ wfn (t_min t) h r /\
    length (n_elts l) = t_min t /\ length (n_elts r) = t_min t /\
    elements c = elements l ++ m :: elements r.
Proof.
  intros Hw Hlen. destruct c as [lf es ks]. cbn in Hlen.
  destruct (list_split_at es (t_min t)) as (el & er0 & -> & Hel); [unfold t_min, t_max in *; lia|].
  destruct er0 as [|m er]; [rewrite app_length in Hlen; cbn in Hlen; unfold t_min, t_max in *; lia|].
  assert (Her : length er = t_min t) by (rewrite app_length in Hlen; cbn in Hlen; unfold t_min, t_max in *; lia).
  unfold split_node. rewrite (is_maximal_ok _ _ _ Hw). cbn [n_elts]. rewrite Hlen, Nat.eqb_refl. cbn [bind negb].
  rewrite (nth_error_app_mid' _ _ _ _ Hel). rewrite firstn_app_exact by assumption.
  replace (el ++ m :: er) with ((el ++ [m]) ++ er) by (now rewrite <- app_assoc).
  rewrite skipn_app_exact by (rewrite app_length; cbn; lia).
  apply wfn_inv in Hw as (Hb & [(-> & -> & ->)|(-> & h' & -> & Hks & Hall)]).
  - exists (Node true el []), m, (Node true er []). split; [reflexivity|].
    repeat split; try (constructor; lia); cbn; try assumption. now rewrite <- app_assoc.
  - destruct (list_split_at ks (S (t_min t))) as (kl & kr & -> & Hkl).
    { rewrite Hks, !app_length. cbn. lia. }
    rewrite firstn_app_exact, skipn_app_exact by assumption.
    assert (Hkr : length kr = S (t_min t)).
    { rewrite !app_length in Hks. cbn in Hks. lia. }
    apply Forall_app in Hall as (Hl & Hr).
    exists (Node false el kl), m, (Node false er kr). split; [reflexivity|].
    repeat split; try (constructor; try assumption; pose proof t_min_lt_max; lia); cbn [n_elts]; try assumption.
    rewrite !elements_node. rewrite <- app_assoc. cbn [app]. apply interleave_app; lia.
Qed.

(* ---------------------------------------------------------------- steal from the right sibling *)

(* p = Node false (ea ++ pe :: eb) (ka ++ l :: r :: kb): kid l (index |ka|) takes the separator,
   the first key of r moves up *)
Lemma try_right_steal_spec h ea pe eb ka l r kb lol :
  length ka = length ea -> length kb = length eb ->
  wfn lol h l -> wfn (t_min t) h r -> (length (n_elts l) < t_max t)%nat ->
  let p := Node false (ea ++ pe :: eb) (ka ++ l :: r :: kb) in
  if (length (n_elts r) =? t_min t)%nat then try_right_steal t p (length ka) = Ok (p, false)
  else exists l' re r',
      try_right_steal t p (length ka) = Ok (Node false (ea ++ re :: eb) (ka ++ l' :: r' :: kb), true) /\
      wfn lol h l' /\ wfn (t_min t) h r' /\
      length (n_elts l') = S (length (n_elts l)) /\ S (length (n_elts r')) = length (n_elts r) /\
      elements l' ++ re :: elements r' = elements l ++ pe :: elements r /\ In re (elements r).
Proof.
  intros H1 H2 Hl Hr Hlen p. subst p. unfold try_right_steal.
  rewrite split_at_app by reflexivity. cbn [bind].
  rewrite (is_minimal_ok _ _ Hr). cbn [bind].
  destruct (Nat.eqb_spec (length (n_elts r)) (t_min t)) as [Hm|Hm]; [reflexivity|].
  rewrite split_at_app by congruence. cbn [bind].
  destruct r as [rlf res_ rks]. destruct l as [slf ses sks]. cbn [n_elts] in *.
  pose proof (wfn_len _ _ _ Hr) as Hrl. cbn in Hrl.
  destruct res_ as [|re res']; [cbn in *; unfold t_min in *; lia|].
  apply wfn_inv in Hr as (Hrb & [(-> & -> & ->)|(-> & h' & -> & Hrk & Hrall)]).
  - apply wfn_inv in Hl as (Hlb & [(-> & _ & ->)|(-> & h'' & Hh & Hlk & Hlall)]).
    2:{ inversion Hh; subst. destruct sks; [discriminate|]. inversion Hlall; subst.
        match goal with H : wfn _ 0 _ |- _ => apply wfn_pos in H end. lia. }
    exists (Node true (ses ++ [pe]) []), re, (Node true res' []). split; [reflexivity|].
    cbn in *. repeat split; try (constructor; rewrite ?app_length; cbn; lia); rewrite ?app_length; cbn; try lia; auto.
    now rewrite <- app_assoc.
  - apply wfn_inv in Hl as (Hlb & [(-> & Hh & ->)|(-> & h'' & Hh & Hlk & Hlall)]).
    { inversion Hh; subst. destruct rks; [discriminate|]. inversion Hrall; subst.
      match goal with H : wfn _ 0 _ |- _ => apply wfn_pos in H end. lia. }
    inversion Hh; subst h''.
    destruct rks as [|rc rks']; [discriminate|]. inversion Hrall; subst.
    exists (Node false (ses ++ [pe]) (sks ++ [rc])), re, (Node false res' rks'). split; [reflexivity|].
    cbn [n_elts length] in *.
    split; [constructor; rewrite ?app_length; cbn [length]; try lia; apply Forall_app; split; [assumption|now constructor]|].
    split; [constructor; try assumption; lia|].
    split; [rewrite app_length; cbn [length]; lia|]. split; [reflexivity|]. split.
    + rewrite !elements_node, interleave_snoc by assumption. cbn [interleave]. now rewrite <- app_assoc.
    + rewrite elements_node. cbn [interleave]. apply in_or_app. right. now left.
Qed.

Lemma try_right_steal_last p i a x : split_at i (n_kids p) = Ok (a, x, []) -> try_right_steal t p i = Ok (p, false).
Proof. destruct p as [lf es ks]. cbn. unfold try_right_steal. intros ->. reflexivity. Qed.

(* ---------------------------------------------------------------- steal from the left sibling *)

Lemma interleave_last {A B} (es : list A) (ks : list B) : length ks = S (length es) -> ks <> [] ->
  exists ks' k, ks = ks' ++ [k] /\ length ks' = length es.
Proof using.
  clear Ht. intros Hl Hne. destruct (exists_last Hne) as (ks' & k & ->). exists ks', k. split; [reflexivity|].
  rewrite app_length in Hl. cbn in Hl. lia.
Qed.

(* p = Node false (ea ++ pe :: eb) (ka ++ l :: r :: kb): kid r (index S |ka|) takes the separator
   in front, the last key of l moves up *)
Lemma try_left_steal_spec h ea pe eb ka l r kb lor :
  length ka = length ea -> length kb = length eb ->
  wfn (t_min t) h l -> wfn lor h r -> (length (n_elts r) < t_max t)%nat ->
  let p := Node false (ea ++ pe :: eb) (ka ++ l :: r :: kb) in
  if (length (n_elts l) =? t_min t)%nat then try_left_steal t p (S (length ka)) = Ok (p, false)
  else exists l' le r',
      try_left_steal t p (S (length ka)) = Ok (Node false (ea ++ le :: eb) (ka ++ l' :: r' :: kb), true) /\
      wfn (t_min t) h l' /\ wfn lor h r' /\
      S (length (n_elts l')) = length (n_elts l) /\ length (n_elts r') = S (length (n_elts r)) /\
      elements l' ++ le :: elements r' = elements l ++ pe :: elements r /\ In le (elements l).
Proof.
  intros H1 H2 Hl Hr Hlen p. subst p. unfold try_left_steal.
  rewrite split_at_app by reflexivity. cbn [bind].
  rewrite (is_minimal_ok _ _ Hl). cbn [bind].
  destruct (Nat.eqb_spec (length (n_elts l)) (t_min t)) as [Hm|Hm]; [reflexivity|].
  rewrite split_at_app by congruence. cbn [bind].
  destruct l as [llf les lks]. destruct r as [slf ses sks]. cbn [n_elts] in *.
  pose proof (wfn_len _ _ _ Hl) as Hll. cbn [n_elts] in Hll.
  destruct (pop_last_ok les) as (les' & le & -> & ->).
  { destruct les; [cbn in *; unfold t_min in *; lia|discriminate]. }
  cbn [bind]. rewrite app_length in *. cbn [length] in *.
  apply wfn_inv in Hl as (Hlb & [(-> & -> & ->)|(-> & h' & -> & Hlk & Hlall)]).
  - apply wfn_inv in Hr as (Hrb & [(-> & _ & ->)|(-> & h'' & Hh & Hrk & Hrall)]).
    2:{ inversion Hh; subst. destruct sks; [discriminate|]. inversion Hrall; subst.
        match goal with H : wfn _ 0 _ |- _ => apply wfn_pos in H end. lia. }
    exists (Node true les' []), le, (Node true (pe :: ses) []). split; [reflexivity|].
    cbn [n_elts elements length]. repeat split; try (constructor; cbn [length]; lia); try lia.
    + now rewrite <- app_assoc.
    + apply in_or_app. right. now left.
  - apply wfn_inv in Hr as (Hrb & [(-> & Hh & ->)|(-> & h'' & Hh & Hrk & Hrall)]).
    { inversion Hh; subst. destruct lks; [discriminate|]. inversion Hlall; subst.
      match goal with H : wfn _ 0 _ |- _ => apply wfn_pos in H end. lia. }
    inversion Hh; subst h''.
    destruct (interleave_last (les' ++ [le]) lks) as (lks' & lc & -> & Hlks').
    { exact Hlk. } { intros ->. discriminate Hlk. }
    rewrite app_length in Hlks'. cbn [length] in Hlks'.
    rewrite pop_last_app. cbn [bind].
    apply Forall_app in Hlall as (Hlall & Hlc). inversion Hlc; subst.
    exists (Node false les' lks'), le, (Node false (pe :: ses) (lc :: sks)). split; [reflexivity|].
    cbn [n_elts length]. repeat split; try lia.
    + constructor; try assumption; lia.
    + constructor; cbn [length]; try lia. now constructor.
    + rewrite !elements_node. rewrite interleave_snoc by lia. cbn [interleave]. now rewrite <- app_assoc.
    + rewrite elements_node, interleave_snoc by lia. apply in_or_app. right. now left.
Qed.

Lemma try_left_steal_zero p : try_left_steal t p 0 = Ok (p, false).
Proof. destruct p. reflexivity. Qed.

(* ---------------------------------------------------------------- merge *)

Lemma merge_spec h ea pe eb ka l r kb :
  length ka = length ea -> length kb = length eb ->
  wfn (t_min t) h l -> wfn (t_min t) h r ->
  (length (n_elts l) + S (length (n_elts r)) <= t_max t)%nat ->
  exists m, merge (Node false (ea ++ pe :: eb) (ka ++ l :: r :: kb)) (length ka)
            = Ok (Node false (ea ++ eb) (ka ++ m :: kb)) /\
    wfn (t_min t) h m /\ elements m = elements l ++ pe :: elements r /\
    length (n_elts m) = (length (n_elts l) + S (length (n_elts r)))%nat.
Proof.
  intros H1 H2 Hl Hr Hlen. unfold merge.
  rewrite split_at_app by reflexivity. cbn [bind]. rewrite split_at_app by congruence. cbn [bind].
  destruct l as [slf ses sks]. destruct r as [rlf res_ rks]. cbn [n_elts] in *.
  apply wfn_inv in Hl as (Hlb & [(-> & -> & ->)|(-> & h' & -> & Hlk & Hlall)]).
  - apply wfn_inv in Hr as (Hrb & [(-> & _ & ->)|(-> & h'' & Hh & Hrk & Hrall)]).
    2:{ inversion Hh; subst. destruct rks; [discriminate|]. inversion Hrall; subst.
        match goal with H : wfn _ 0 _ |- _ => apply wfn_pos in H end. lia. }
    eexists. split; [reflexivity|]. cbn [n_elts elements]. rewrite app_length. cbn [length].
    repeat split; try lia. constructor. rewrite app_length. cbn [length]. lia.
  - apply wfn_inv in Hr as (Hrb & [(-> & Hh & ->)|(-> & h'' & Hh & Hrk & Hrall)]).
    { inversion Hh; subst. destruct sks; [discriminate|]. inversion Hlall; subst.
      match goal with H : wfn _ 0 _ |- _ => apply wfn_pos in H end. lia. }
    inversion Hh; subst h''.
    eexists. split; [reflexivity|]. cbn [n_elts]. rewrite app_length. cbn [length].
    repeat split; try lia.
    + constructor; rewrite ?app_length; cbn [length]; try lia. apply Forall_app. auto.
    + rewrite !elements_node. apply interleave_app; assumption.
Qed.

End WF.
