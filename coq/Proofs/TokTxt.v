(* TXT-like records: to_styled_text of any non-empty list of octet strings (each <= 255 octets)
   parses back, through dns.rdata.from_text (peek, class from_text = get_remaining +
   unescape_to_bytes, end-of-line check), to the same list. *)
From DV Require Import Base.Prelude Model.TokM Proofs.TokEsc.
Open Scope Z_scope.

(* what follows the closing quote of a string: blank + next quoted string ..., then `rest` *)
Fixpoint txt_tail (ss : list (list Z)) (rest : list Z) : list Z :=
  match ss with
  | [] => rest
  | s :: r => 32 :: 34 :: escapify s ++ 34 :: txt_tail r rest
  end.

Lemma txt_to_text_tail s ss rest :
  txt_to_text (s :: ss) ++ rest = 34 :: escapify s ++ 34 :: txt_tail ss rest.
Proof.
  revert s. induction ss as [|s2 ss IH]; intros s.
  - unfold txt_to_text, quote, txt_tail. rewrite <- app_comm_cons. f_equal.
    rewrite <- app_assoc. reflexivity.
  - change (txt_to_text (s :: s2 :: ss)) with (quote s ++ 32 :: txt_to_text (s2 :: ss)).
    unfold quote at 1. rewrite <- !app_comm_cons. f_equal. rewrite <- !app_assoc. f_equal.
    cbn [app txt_tail]. f_equal. f_equal. rewrite IH. reflexivity.
Qed.

Lemma txt_tail_length ss rest : (length ss <= length (txt_tail ss rest))%nat.
Proof.
  induction ss as [|s ss IH]; cbn [txt_tail length]; [lia|].
  rewrite app_length. cbn [length]. lia.
Qed.

Definition tok_of (s : list Z) (t : token) : Prop :=
  ttype t = tQUOTED /\ tvalue t = escapify s.

Lemma gl_open f wc r ml :
  get_loop (S f) wc (34 :: r) ml false [] tIDENT false = get_loop f wc r ml true [] tQUOTED false.
Proof. reflexivity. Qed.

Lemma gl_closing f wc r ml :
  get_loop (S f) wc (34 :: r) ml true [] tIDENT false
  = get_loop f wc (snd (skip_ws ml r)) ml false [] tIDENT false.
Proof. reflexivity. Qed.

Lemma gl_eof f wc :
  get_loop (S f) wc [] 0%nat false [] tIDENT false
  = Ok (mkTok tEOF [] false None, ([], 0%nat, false)).
Proof. reflexivity. Qed.

Lemma gl_eol f wc r :
  get_loop (S f) wc (10 :: r) 0%nat false [] tIDENT false
  = Ok (mkTok tEOL [10] false None, (r, 0%nat, false)).
Proof. reflexivity. Qed.

Lemma skip_ws_quote ml r : skip_ws ml (34 :: r) = (0%nat, 34 :: r).
Proof. reflexivity. Qed.

(* first token of the record *)
Lemma get_first s r : all_bytes s = true ->
  exists t, tok_of s t /\
    get0 (mkSt (34 :: escapify s ++ 34 :: r) 0%nat false None)
    = Ok (t, mkSt (34 :: r) 0%nat true None).
Proof.
  intros Hs. unfold get0, get. cbn [ungot]. unfold get_fresh. cbn [multiline inp quoting].
  rewrite skip_ws_quote. cbn [andb]. unfold get_fuel. cbn [length].
  rewrite gl_open. rewrite app_length. cbn [length].
  replace (S (length (escapify s) + S (length r)))%nat with (length (escapify s) + S (S (length r)))%nat by lia.
  destruct (gl_quoted_body s Hs (S (length r)) false r 0%nat) as (he & E).
  rewrite E. eexists. split; [|reflexivity]. split; reflexivity.
Qed.

(* a further token: closing quote of the previous string, one blank, the next quoted string *)
Lemma get_next s r : all_bytes s = true ->
  exists t, tok_of s t /\
    get0 (mkSt (34 :: 32 :: 34 :: escapify s ++ 34 :: r) 0%nat true None)
    = Ok (t, mkSt (34 :: r) 0%nat true None).
Proof.
  intros Hs. unfold get0, get. cbn [ungot]. unfold get_fresh. cbn [multiline inp quoting].
  rewrite skip_ws_quote. cbn [andb]. unfold get_fuel. cbn [length].
  rewrite gl_closing.
  replace (snd (skip_ws 0 (32 :: 34 :: escapify s ++ 34 :: r))) with (34 :: escapify s ++ 34 :: r) by reflexivity.
  rewrite gl_open. rewrite app_length. cbn [length].
  replace (S (S (length (escapify s) + S (length r))))%nat with (length (escapify s) + S (S (S (length r))))%nat by lia.
  destruct (gl_quoted_body s Hs (S (S (length r))) false r 0%nat) as (he & E).
  rewrite E. eexists. split; [|reflexivity]. split; reflexivity.
Qed.

(* after the last string: end of line or end of input *)
Definition good_rest (rest : list Z) : Prop := rest = [] \/ exists r, rest = 10 :: r.

Lemma get_end rest : good_rest rest ->
  exists t st, is_eol_or_eof t = true /\ ungot st = None /\
    get0 (mkSt (34 :: rest) 0%nat true None) = Ok (t, st).
Proof.
  intros [->|[r ->]]; unfold get0, get; cbn [ungot]; unfold get_fresh; cbn [multiline inp quoting];
    rewrite skip_ws_quote; cbn [andb]; unfold get_fuel; cbn [length]; rewrite gl_closing.
  - replace (snd (skip_ws 0 [])) with (@nil Z) by reflexivity. rewrite gl_eof.
    do 2 eexists. split; [|split; [|reflexivity]]; reflexivity.
  - replace (snd (skip_ws 0 (10 :: r))) with (10 :: r) by reflexivity. rewrite gl_eol.
    do 2 eexists. split; [|split; [|reflexivity]]; reflexivity.
Qed.

Lemma grl_unfold f st acc :
  get_remaining_loop (S f) st 0 acc
  = (do ts <- get0 st;
     let '(t, st1) := ts in
     if is_eol_or_eof t then do st2 <- unget st1 t; Ok (rev acc, st2)
     else get_remaining_loop f st1 0 (t :: acc)).
Proof. reflexivity. Qed.

(* get_remaining over the rest of the line *)
Lemma get_remaining_tail ss : Forall (fun s => all_bytes s = true) ss ->
  forall rest fuel acc, good_rest rest -> (length ss < fuel)%nat ->
  exists toks t st,
    Forall2 tok_of ss toks /\ is_eol_or_eof t = true /\ ungot st = Some t /\
    get_remaining_loop fuel (mkSt (34 :: txt_tail ss rest) 0%nat true None) 0 acc
    = Ok (rev acc ++ toks, st).
Proof.
  induction ss as [|s ss IH]; intros Hss rest fuel acc Hrest Hfuel.
  - destruct fuel as [|f]; [cbn in Hfuel; lia|].
    destruct (get_end rest Hrest) as (t & st & Ht & Hu & E).
    cbn [txt_tail]. rewrite grl_unfold. rewrite E. cbn [bind]. rewrite Ht.
    unfold unget. rewrite Hu. cbn [bind].
    do 3 eexists. split; [constructor|]. split; [exact Ht|]. split; [|rewrite app_nil_r; reflexivity].
    reflexivity.
  - destruct fuel as [|f]; [cbn in Hfuel; lia|].
    inversion Hss as [|? ? Hs Hss']; subst.
    destruct (get_next s (txt_tail ss rest) Hs) as (t & Ht & E).
    cbn [txt_tail]. rewrite grl_unfold. rewrite E. cbn [bind].
    assert (Heol : is_eol_or_eof t = false).
    { destruct Ht as [Ht _]. unfold is_eol_or_eof. rewrite Ht. reflexivity. }
    rewrite Heol.
    cbn [length] in Hfuel.
    destruct (IH Hss' rest f (t :: acc) Hrest ltac:(lia)) as (toks & te & st & HF & Hte & Hu & E2).
    rewrite E2. exists (t :: toks), te, st. split; [constructor; assumption|].
    split; [exact Hte|]. split; [exact Hu|]. cbn [rev]. rewrite <- app_assoc. reflexivity.
Qed.

Lemma txt_strings_ok ss toks :
  Forall (fun s => all_bytes s = true /\ zlen s <= 255) ss -> Forall2 tok_of ss toks ->
  txt_strings toks = Ok ss.
Proof.
  intros Hss HF. induction HF as [|s t ss toks [Ht Hv] HF IH]; [reflexivity|].
  inversion Hss as [|? ? [Hb Hl] Hss']; subst.
  cbn [txt_strings]. unfold unescape_to_bytes. rewrite Hv.
  rewrite unescape_to_bytes_escapify by exact Hb. cbn [bind].
  unfold is_quoted, is_identifier. cbn [ttype tvalue]. rewrite Ht.
  replace (tQUOTED =? tQUOTED) with true by reflexivity. cbn [orb negb].
  replace (zlen s >? 255) with false by lia.
  rewrite IH by exact Hss'. reflexivity.
Qed.

Theorem txt_roundtrip strings rest :
  strings <> [] ->
  Forall (fun s => all_bytes s = true /\ zlen s <= 255) strings ->
  good_rest rest ->
  rdata_from_text_txt (txt_to_text strings ++ rest) = Ok strings.
Proof.
  intros Hne Hss Hrest. destruct strings as [|s ss]; [congruence|].
  inversion Hss as [|? ? [Hb Hl] Hss']; subst.
  assert (Hbs : Forall (fun s => all_bytes s = true) ss).
  { eapply Forall_impl; [|exact Hss']. intros ? [? _]; assumption. }
  rewrite txt_to_text_tail.
  unfold rdata_from_text_txt, rdata_from_text, init.
  destruct (get_first s (txt_tail ss rest) Hb) as (t1 & Ht1 & E1).
  rewrite E1. cbn [bind]. unfold unget at 1. cbn [ungot bind inp multiline quoting].
  assert (Hid : is_identifier t1 = false).
  { destruct Ht1 as [H _]. unfold is_identifier. rewrite H. reflexivity. }
  rewrite Hid. cbn [andb].
  unfold txt_from_text, get_remaining, rem_fuel. cbn [inp length].
  (* first iteration returns the ungotten first token *)
  rewrite grl_unfold. unfold get0 at 1, get at 1. cbn [ungot].
  assert (Hws : (ttype t1 =? tWS) = false) by (destruct Ht1 as [H _]; rewrite H; reflexivity).
  assert (Hcm : (ttype t1 =? tCOMMENT) = false) by (destruct Ht1 as [H _]; rewrite H; reflexivity).
  rewrite Hws, Hcm. cbn [bind inp multiline quoting].
  assert (Heol : is_eol_or_eof t1 = false).
  { destruct Ht1 as [H _]. unfold is_eol_or_eof. rewrite H. reflexivity. }
  rewrite Heol.
  pose proof (txt_tail_length ss rest) as Hlen.
  destruct (get_remaining_tail ss Hbs rest (S (S (length (txt_tail ss rest)))) [t1] Hrest ltac:(lia))
    as (toks & te & st & HF & Hte & Hu & E2).
  rewrite E2. cbn [bind rev app fst snd].
  rewrite (txt_strings_ok (s :: ss) (t1 :: toks)); [|constructor; [split|]; assumption|constructor; assumption].
  cbn [bind is_nil fst snd].
  unfold get_eol_as_token, get0, get. rewrite Hu.
  assert (Hws' : (ttype te =? tWS) = false).
  { unfold is_eol_or_eof in Hte. apply orb_true_iff in Hte as [H|H]; apply Z.eqb_eq in H; rewrite H; reflexivity. }
  assert (Hcm' : (ttype te =? tCOMMENT) = false).
  { unfold is_eol_or_eof in Hte. apply orb_true_iff in Hte as [H|H]; apply Z.eqb_eq in H; rewrite H; reflexivity. }
  rewrite Hws', Hcm'. cbn [bind fst snd]. rewrite Hte. cbn [negb wrap_syntax]. reflexivity.
Qed.
