(* C19 - refinement, world level: every history of store operations (new / insert / delete /
   freeze / clone and the collections.abc mixins) on the store-level model - nodes with ids and
   creator tags, in-place writes, maybe_cow - is simulated by the same history on value-level
   trees (BTreeM's insert_element / delete_btree / get / minimum).  Every tree of the store
   represents (`rep`: tree-shaped footprint, node by node) its value-level tree, the outputs are
   equal, and in particular the ghost ownership check of the store delete never fires. *)
From DV Require Import Base.Prelude Model.BTreeM Model.BTreeStoreM Proofs.BTreeBase Proofs.BTreeWf Proofs.BTreeInsert
  Proofs.BTreeLookup Proofs.BTreeDelete Proofs.BTreeTop Proofs.BTreeCursor Proofs.BTreeHistory
  Proofs.BTreeStore Proofs.BTreeIsolation Proofs.BTreeRefine Proofs.BTreeRefine2 Proofs.BTreeRefine3 Proofs.BTreeRefine4.

(* ---------------------------------------------------------------- the value-level meaning of a store operation *)

Definition v_with (ts : list btree) (ti : Z) (f : nat -> btree -> list btree * obs) : list btree * obs :=
  match nth_error ts (Z.to_nat ti) with
  | Some b => f (Z.to_nat ti) b
  | None => (ts, Prelude.E eBadCase)
  end.

Definition v_mutate (ts : list btree) (i : nat) (r : res (btree * obs)) : list btree * obs :=
  match r with
  | Ok (b', o) => (set_nth i b' ts, o)
  | Lib e => (ts, Prelude.E e)
  | Internal e => (ts, Prelude.E e)
  end.

Definition vexec_prim (ts : list btree) (x : sop) : list btree * obs :=
  match x with
  | SNew t io =>
      if (Z.to_nat t <? 3)%nat then (ts, Prelude.E eBadT)
      else (ts ++ [mkB (Z.to_nat t) (Node true [] []) 0 false (bool_of io)], N)
  | SIns ti k v io report =>
      v_with ts ti (fun i b =>
        v_mutate ts i (do (b', o) <- insert_element b (k, v) (match io with Some x => x | None => b_inorder b end);
                       Ok (b', if report then obs_of_oelt o else N)))
  | SDel ti k exact mode =>
      v_with ts ti (fun i b =>
        v_mutate ts i (do (b', o) <- delete_btree b k exact;
                       Ok (b', match mode with
                               | O => obs_of_dout o
                               | S O => match o with DDel _ => N | _ => Prelude.E eKey end
                               | _ => N
                               end)))
  | SFreeze ti => v_with ts ti (fun i b => (set_nth i (make_immutable b) ts, N))
  | SClone ti io =>
      v_with ts ti (fun i b =>
        if b_immut b then (ts ++ [mkB (b_t b) (b_root b) (b_size b) false io], N) else (ts, Prelude.E eNotImmutable))
  | _ => (ts, N)
  end.

Definition v_lookup (ts : list btree) (ti k : Z) : option elt :=
  match nth_error ts (Z.to_nat ti) with
  | Some b => match get_element b k with Ok o => o | _ => None end
  | None => None
  end.

Definition v_first (ts : list btree) (ti : Z) : option elt :=
  match nth_error ts (Z.to_nat ti) with
  | Some b => match minimum (b_root b) with Ok e => Some e | _ => None end
  | None => None
  end.

Fixpoint v_clear (fuel : nat) (ts : list btree) (ti : Z) : list btree :=
  match fuel with
  | O => ts
  | S f => match v_first ts ti with
           | Some e => v_clear f (fst (vexec_prim ts (SDel ti (fst e) None 2))) ti
           | None => ts
           end
  end.

Definition v_size (ts : list btree) (ti : Z) : nat :=
  match nth_error ts (Z.to_nat ti) with Some b => Z.to_nat (b_size b) | None => O end.

Definition vexec (ts : list btree) (x : sop) : list btree * obs :=
  match x with
  | SPop ti k => match v_lookup ts ti k with Some _ => vexec_prim ts (SDel ti k None 2) | None => (ts, N) end
  | SPopFirst ti => match v_first ts ti with Some e => vexec_prim ts (SDel ti (fst e) None 2) | None => (ts, N) end
  | SClear ti => (v_clear (S (v_size ts ti)) ts ti, N)
  | SSetDefault ti k v => match v_lookup ts ti k with Some _ => (ts, N) | None => vexec_prim ts (SIns ti k v None false) end
  | _ => vexec_prim ts x
  end.

Fixpoint vexecs (ts : list btree) (xs : list sop) : list btree :=
  match xs with
  | [] => ts
  | x :: r => vexecs (fst (vexec ts x)) r
  end.

(* ---------------------------------------------------------------- everything a tree reaches is visible from it *)

Lemma rep_vis (anc : nat -> nat -> Prop) (anc_trans : forall a b d, anc a b -> anc b d -> anc a d) s :
  store_ok anc s -> forall id tr fp, rep s id tr fp -> forall k, vis anc s k id -> forall x, In x fp -> vis anc s k x.
Proof.
  intros Hok.
  apply (rep_mind s (fun id tr fp _ => forall k, vis anc s k id -> forall x, In x fp -> vis anc s k x)
           (fun ids trs fps _ => forall k, Forall (vis anc s k) ids -> forall x, In x (concat fps) -> vis anc s k x)).
  - intros id n kids fps Hn Hlk Hr IH Hnd k Hv x [<-|Hx]; [assumption|].
    apply (IH k); [|assumption]. destruct Hv as (n' & Hn' & Ha). assert (n' = n) by congruence. subst n'.
    eapply Forall_impl; [|apply (Hok id n Hn)]. intros a Hva. eapply vis_trans; eauto.
  - intros k _ x [].
  - intros kid ks tr trs fp fps Hr IH Hrs IHs k HF x Hx. inversion HF; subst. cbn [concat] in Hx.
    apply in_app_iff in Hx as [Hx|Hx]; eauto.
Qed.

(* a tree that cannot see creator c keeps its representation when only c's nodes change *)
Lemma rep_ext (anc : nat -> nat -> Prop) (anc_trans : forall a b d, anc a b -> anc b d -> anc a d) c s s' k id tr fp :
  store_ok anc s -> vis anc s k id -> ~ anc k c -> ext c s s' -> rep s id tr fp -> rep s' id tr fp.
Proof.
  intros Hok Hv Hna (_ & He) Hr. eapply rep_frame; [exact Hr|]. intros x Hx.
  destruct (rep_vis anc anc_trans s Hok id tr fp Hr k Hv x Hx) as (n & Hn & Ha).
  rewrite Hn. apply (proj1 (He x n Hn)). intros Hc. apply Hna. now rewrite <- Hc.
Qed.

(* ---------------------------------------------------------------- the simulation relation *)

Definition SR (sw : sworld) (ts : list btree) : Prop :=
  WI sw /\ length (sw_trees sw) = length ts /\
  forall k sb b, nth_error (sw_trees sw) k = Some sb -> nth_error ts k = Some b ->
                 tree_sr (sw_store sw) sb b /\ bwf b.

Lemma SR_empty : SR (mkSW [] []) [].
Proof. split; [apply WI_empty|]. split; [reflexivity|]. intros k sb b H. destruct k; discriminate. Qed.

Lemma SR_tree sw ts i : SR sw ts ->
  match nth_error (sw_trees sw) i, nth_error ts i with
  | Some sb, Some b => tree_sr (sw_store sw) sb b /\ bwf b /\ sb_cr sb = i
  | None, None => True
  | _, _ => False
  end.
Proof.
  intros ((Hok & Htr) & Hlen & Hrel).
  destruct (nth_error (sw_trees sw) i) as [sb|] eqn:E1; destruct (nth_error ts i) as [b|] eqn:E2.
  - destruct (Hrel i sb b E1 E2). destruct (Htr i sb E1). auto.
  - apply nth_error_None in E2. assert (i < length (sw_trees sw))%nat by (apply nth_error_Some; congruence). lia.
  - apply nth_error_None in E1. assert (i < length ts)%nat by (apply nth_error_Some; congruence). lia.
  - exact Logic.I.
Qed.

(* a mutation by the (not frozen) tree i *)
Lemma SR_mutate sw ts i sb b s' sb' b' :
  SR sw ts -> nth_error (sw_trees sw) i = Some sb -> nth_error ts i = Some b ->
  sb_immut sb = false ->
  WI (mkSW s' (set_nth i sb' (sw_trees sw))) ->
  ext i (sw_store sw) s' ->
  tree_sr s' sb' b' -> bwf b' ->
  SR (mkSW s' (set_nth i sb' (sw_trees sw))) (set_nth i b' ts).
Proof.
  intros (HW & Hlen & Hrel) Hsb Hb Him HW' He Hsr' Hbwf'. pose proof HW as (Hok & Htr).
  split; [assumption|]. cbn [sw_trees sw_store]. split; [now rewrite !length_set_nth|].
  intros k sbk bk Hk1 Hk2. destruct (Nat.eq_dec i k) as [<-|Hne].
  - rewrite nth_set_nth_eq in Hk1 by (apply nth_error_Some; congruence).
    rewrite nth_set_nth_eq in Hk2 by (apply nth_error_Some; congruence).
    inversion Hk1; inversion Hk2; subst. auto.
  - rewrite nth_set_nth_ne in Hk1 by assumption. rewrite nth_set_nth_ne in Hk2 by assumption.
    destruct (Hrel k sbk bk Hk1 Hk2) as ((H1 & H2 & H3 & H4 & fp & Hr) & Hbk). split; [|assumption].
    destruct (Htr k sbk Hk1) as (Hc & Hv).
    repeat split; try assumption. exists fp.
    apply (rep_ext (ancw (frw (sw_trees sw))) (ancw_trans _) i (sw_store sw) s' k (sb_root sbk) _ fp Hok Hv); [|exact He|exact Hr].
    intros [Heq|(Hlt & Hf)]; [congruence|]. unfold frw in Hf. rewrite Hsb in Hf. congruence.
Qed.

Lemma tree_sr_fr s s' sb b : tree_sr s sb b -> fr s s' [] -> tree_sr s' sb b.
Proof.
  intros (H1 & H2 & H3 & H4 & fp & Hr) Hf. repeat split; try assumption. exists fp.
  eapply rep_fr; [exact Hr|exact Hf|]. intros x _ [].
Qed.

(* ---------------------------------------------------------------- primitive operations *)

Lemma exec_prim_sim sw ts x sw' o :
  SR sw ts -> exec_prim sw x = (sw', o) ->
  SR sw' (fst (vexec_prim ts x)) /\ o = snd (vexec_prim ts x).
Proof.
  intros HSR H. pose proof HSR as (HW & Hlen & Hrel). pose proof HW as (Hok & Htr).
  destruct (exec_prim_isolated sw x sw' o HW H) as (HW' & _).
  destruct x; cbn [exec_prim vexec_prim] in *;
    try (inversion H; subst; split; [assumption|reflexivity]; fail).
  - (* new tree *)
    unfold s_new in H. destruct (Z.to_nat t <? 3)%nat eqn:Et.
    { inversion H; subst. split; [assumption|reflexivity]. }
    unfold alloc in H. inversion H; subst sw' o. clear H. cbn [fst snd]. split; [|reflexivity].
    split; [assumption|]. cbn [sw_trees sw_store]. split; [rewrite !app_length; cbn; lia|].
    intros k sbk bk Hk1 Hk2. destruct (Nat.lt_ge_cases k (length (sw_trees sw))).
    + rewrite nth_error_app1 in Hk1 by assumption. rewrite nth_error_app1 in Hk2 by lia.
      destruct (Hrel k sbk bk Hk1 Hk2) as (Hsr & Hb). split; [|assumption].
      eapply tree_sr_fr; [exact Hsr|apply alloc_fr].
    + rewrite nth_error_app2 in Hk1 by assumption. rewrite nth_error_app2 in Hk2 by lia.
      rewrite Hlen in Hk1.
      destruct (k - length ts)%nat as [|[|]]; cbn in Hk1, Hk2; try discriminate.
      inversion Hk1; inversion Hk2; subst. split.
      * unfold tree_sr. cbn [sb_t sb_size sb_immut sb_inorder sb_root b_t b_size b_immut b_inorder b_root].
        repeat split. exists (length (sw_store sw) :: concat []).
        apply (rep_build _ _ (mkS (length (sw_trees sw)) true [] []) true [] [] []); try reflexivity.
        -- apply nth_alloc.
        -- constructor.
        -- cbn. constructor; [intros []|constructor].
      * split; [|reflexivity]. cbn [b_t b_root]. apply wf_empty. apply Nat.ltb_ge in Et. lia.
  - (* insert *)
    unfold s_with_tree in H. unfold v_with.
    pose proof (SR_tree sw ts (Z.to_nat ti) HSR) as Ht.
    destruct (nth_error (sw_trees sw) (Z.to_nat ti)) as [sb|] eqn:Esb; destruct (nth_error ts (Z.to_nat ti)) as [b|] eqn:Eb; try contradiction.
    2:{ inversion H; subst. split; [assumption|reflexivity]. }
    destruct Ht as (Hsr & Hbwf & Hcr). pose proof Hsr as (H1 & H2 & H3 & H4 & _).
    rewrite H4 in H.
    set (io' := match io with Some x => x | None => b_inorder b end) in *.
    destruct (b_immut b) eqn:Eim.
    + unfold s_insert_element in H. rewrite H3 in H. unfold insert_element. rewrite Eim.
      cbn [bind s_mutate v_mutate] in *. inversion H; subst. split; [assumption|reflexivity].
    + destruct (insert_element_spec_proof b (k, v) io' Hbwf Eim) as (b' & Hi & Hbwf' & _).
      destruct (insert_element_sim (Z.to_nat ti) _ _ _ _ _ _ _ Hcr Hsr Hi) as (s' & sb' & Hsi & Hsr' & Hcr').
      rewrite Hsi in H. rewrite Hi. cbn [bind s_mutate v_mutate fst snd] in *. inversion H; subst sw' o. clear H.
      split; [|reflexivity].
      destruct (Htr _ sb Esb) as (_ & Hvb).
      destruct (s_insert_element_ok (ancw (frw (sw_trees sw))) (ancw_refl _) (ancw_trans _) (Z.to_nat ti)
                  (sw_store sw) sb (k, v) _ s' sb' _ Hok Hvb Hcr Hsi) as ((_ & He) & _).
      eapply SR_mutate; eauto; congruence.
  - (* delete *)
    unfold s_with_tree in H. unfold v_with.
    pose proof (SR_tree sw ts (Z.to_nat ti) HSR) as Ht.
    destruct (nth_error (sw_trees sw) (Z.to_nat ti)) as [sb|] eqn:Esb; destruct (nth_error ts (Z.to_nat ti)) as [b|] eqn:Eb; try contradiction.
    2:{ inversion H; subst. split; [assumption|reflexivity]. }
    destruct Ht as (Hsr & Hbwf & Hcr). pose proof Hsr as (H1 & H2 & H3 & H4 & _).
    destruct (b_immut b) eqn:Eim.
    + unfold s_delete in H. rewrite H3 in H. unfold delete_btree. rewrite Eim.
      cbn [bind s_mutate v_mutate] in *. inversion H; subst. split; [assumption|reflexivity].
    + destruct (delete_btree_spec_proof b k exact Hbwf Eim) as (b' & Hi & Hbwf' & _).
      destruct (delete_sim (Z.to_nat ti) _ _ _ _ _ _ _ Hcr Hsr (proj1 Hbwf) Hi) as (s' & sb' & Hsi & Hsr' & Hcr').
      rewrite Hsi in H. rewrite Hi. cbn [bind s_mutate v_mutate fst snd] in *. inversion H; subst sw' o. clear H.
      split; [|reflexivity].
      destruct (Htr _ sb Esb) as (_ & Hvb).
      destruct (s_delete_ok (ancw (frw (sw_trees sw))) (ancw_refl _) (ancw_trans _) (Z.to_nat ti)
                  (sw_store sw) sb k exact s' sb' _ Hok Hvb Hcr Hsi) as ((_ & He) & _).
      eapply SR_mutate; eauto; congruence.
  - (* freeze *)
    unfold s_with_tree in H. unfold v_with.
    pose proof (SR_tree sw ts (Z.to_nat ti) HSR) as Ht.
    destruct (nth_error (sw_trees sw) (Z.to_nat ti)) as [sb|] eqn:Esb; destruct (nth_error ts (Z.to_nat ti)) as [b|] eqn:Eb; try contradiction.
    2:{ inversion H; subst. split; [assumption|reflexivity]. }
    destruct Ht as (Hsr & Hbwf & Hcr). inversion H; subst sw' o. clear H. cbn [fst snd]. split; [|reflexivity].
    split; [assumption|]. cbn [sw_trees sw_store]. split; [now rewrite !length_set_nth|].
    intros j sbj bj Hj1 Hj2. destruct (Nat.eq_dec (Z.to_nat ti) j) as [<-|Hne].
    + rewrite nth_set_nth_eq in Hj1 by (apply nth_error_Some; congruence).
      rewrite nth_set_nth_eq in Hj2 by (apply nth_error_Some; congruence).
      inversion Hj1; inversion Hj2; subst. destruct Hsr as (H1 & H2 & H3 & H4 & Hfp).
      split; [unfold tree_sr, make_immutable; cbn; auto|]. exact Hbwf.
    + rewrite nth_set_nth_ne in Hj1 by assumption. rewrite nth_set_nth_ne in Hj2 by assumption. exact (Hrel j sbj bj Hj1 Hj2).
  - (* clone *)
    unfold s_with_tree in H. unfold v_with.
    pose proof (SR_tree sw ts (Z.to_nat ti) HSR) as Ht.
    destruct (nth_error (sw_trees sw) (Z.to_nat ti)) as [sb|] eqn:Esb; destruct (nth_error ts (Z.to_nat ti)) as [b|] eqn:Eb; try contradiction.
    2:{ inversion H; subst. split; [assumption|reflexivity]. }
    destruct Ht as (Hsr & Hbwf & Hcr). pose proof Hsr as (H1 & H2 & H3 & H4 & Hfp).
    unfold s_clone in H. rewrite H3 in H. destruct (b_immut b).
    2:{ inversion H; subst. split; [assumption|reflexivity]. }
    inversion H; subst sw' o. clear H. cbn [fst snd]. split; [|reflexivity].
    split; [assumption|]. cbn [sw_trees sw_store]. split; [rewrite !app_length; cbn; lia|].
    intros j sbj bj Hj1 Hj2. destruct (Nat.lt_ge_cases j (length (sw_trees sw))).
    + rewrite nth_error_app1 in Hj1 by assumption. rewrite nth_error_app1 in Hj2 by lia. exact (Hrel j sbj bj Hj1 Hj2).
    + rewrite nth_error_app2 in Hj1 by assumption. rewrite nth_error_app2 in Hj2 by lia.
      rewrite Hlen in Hj1.
      destruct (j - length ts)%nat as [|[|]]; cbn in Hj1, Hj2; try discriminate.
      inversion Hj1; inversion Hj2; subst. split; [unfold tree_sr; cbn; auto|].
      destruct Hbwf as (Hw & Hz). split; assumption.
Qed.

(* ---------------------------------------------------------------- the reads used by the mixins *)

Lemma lookup_sim sw ts ti k : SR sw ts -> s_lookup sw ti k = v_lookup ts ti k.
Proof.
  intros HSR. unfold s_lookup, v_lookup. pose proof (SR_tree sw ts (Z.to_nat ti) HSR) as Ht.
  destruct (nth_error (sw_trees sw) (Z.to_nat ti)) as [sb|]; destruct (nth_error ts (Z.to_nat ti)) as [b|]; try contradiction; [|reflexivity].
  destruct Ht as ((_ & _ & _ & _ & fp & Hr) & Hbwf & _).
  rewrite (get_element_spec b k Hbwf).
  pose proof (get_element_spec b k Hbwf) as Hg. unfold get_element in Hg.
  assert (Hd : (depth (b_root b) <= S (length (sw_store sw)))%nat).
  { pose proof (rep_depth_le _ _ _ _ Hr). pose proof (fp_le_store _ _ _ _ Hr). lia. }
  rewrite (get_sim _ k _ (S (length (sw_store sw))) _ _ _ _ Hd Hr Hg). reflexivity.
Qed.

Lemma first_sim sw ts ti : SR sw ts -> s_first sw ti = v_first ts ti.
Proof.
  intros HSR. unfold s_first, v_first. pose proof (SR_tree sw ts (Z.to_nat ti) HSR) as Ht.
  destruct (nth_error (sw_trees sw) (Z.to_nat ti)) as [sb|]; destruct (nth_error ts (Z.to_nat ti)) as [b|]; try contradiction; [|reflexivity].
  destruct Ht as ((_ & _ & _ & _ & fp & Hr) & ((Ht3 & (h & Hw) & Hs) & _) & _).
  destruct (b_root b) as [lf es ks] eqn:Eroot. destruct lf.
  - destruct (rep_root _ _ _ _ _ _ Hr) as (n & Hn & Hl & He).
    cbn [s_minimum minimum]. rewrite (sget_some _ _ _ Hn). cbn [bind]. rewrite Hl, He. destruct es; reflexivity.
  - unfold wfr, root_lo in Hw. cbn [n_leaf] in Hw.
    destruct (minimum_spec (b_t b) Ht3 h 1 _ Hw (le_n _)) as (e & rest & Hm & _). rewrite Hm.
    assert (Hd : (h <= S (length (sw_store sw)))%nat).
    { pose proof (rep_depth_le _ _ _ _ Hr). pose proof (fp_le_store _ _ _ _ Hr). rewrite (wfn_depth _ _ _ _ Hw) in *. lia. }
    rewrite (minimum_sim (b_t b) Ht3 (sw_store sw) (S (length (sw_store sw))) h 1 _ _ fp e Hw Hd Hr Hm). reflexivity.
Qed.

Lemma size_sim sw ts ti : SR sw ts -> tree_size sw ti = v_size ts ti.
Proof.
  intros HSR. unfold tree_size, v_size. pose proof (SR_tree sw ts (Z.to_nat ti) HSR) as Ht.
  destruct (nth_error (sw_trees sw) (Z.to_nat ti)) as [sb|]; destruct (nth_error ts (Z.to_nat ti)) as [b|]; try contradiction; [|reflexivity].
  destruct Ht as ((_ & -> & _) & _). reflexivity.
Qed.

Lemma clear_sim ti : forall fuel sw ts, SR sw ts -> SR (s_clear fuel sw ti) (v_clear fuel ts ti).
Proof.
  induction fuel as [|f IH]; intros sw ts HSR; [assumption|]. cbn [s_clear v_clear].
  rewrite (first_sim sw ts ti HSR). destruct (v_first ts ti) as [e|]; [|assumption].
  destruct (exec_prim sw (SDel ti (fst e) None 2)) as (sw1 & o1) eqn:E1. cbn [fst].
  apply IH. exact (proj1 (exec_prim_sim _ _ _ _ _ HSR E1)).
Qed.

(* ---------------------------------------------------------------- every operation *)

Theorem exec_sim sw ts x sw' o :
  SR sw ts -> exec sw x = (sw', o) ->
  SR sw' (fst (vexec ts x)) /\ o = snd (vexec ts x).
Proof.
  intros HSR H. destruct x; cbn [exec vexec] in *; try (exact (exec_prim_sim _ _ _ _ _ HSR H)).
  - rewrite (lookup_sim sw ts ti k HSR) in H. destruct (v_lookup ts ti k).
    + exact (exec_prim_sim _ _ _ _ _ HSR H).
    + inversion H; subst. auto.
  - rewrite (first_sim sw ts ti HSR) in H. destruct (v_first ts ti).
    + exact (exec_prim_sim _ _ _ _ _ HSR H).
    + inversion H; subst. auto.
  - injection H as Hsw Ho. subst sw' o. split; [|reflexivity].
    change (SR (s_clear (S (tree_size sw ti)) sw ti) (v_clear (S (v_size ts ti)) ts ti)).
    rewrite (size_sim sw ts ti HSR). now apply clear_sim.
  - rewrite (lookup_sim sw ts ti k HSR) in H. destruct (v_lookup ts ti k).
    + inversion H; subst. auto.
    + exact (exec_prim_sim _ _ _ _ _ HSR H).
Qed.

Theorem store_refines_proof xs : SR (execs (mkSW [] []) xs) (vexecs [] xs).
Proof.
  assert (forall sw ts, SR sw ts -> SR (execs sw xs) (vexecs ts xs)) as H; [|apply H, SR_empty].
  induction xs as [|x r IH]; intros sw ts HSR; [assumption|]. cbn [execs vexecs]. apply IH.
  destruct (exec sw x) as (sw' & o) eqn:E. cbn [fst]. exact (proj1 (exec_sim _ _ _ _ _ HSR E)).
Qed.

(* ---------------------------------------------------------------- consequences *)

(* only exceptions the Python code really raises (or the harness's bad-case marker) come out:
   never an internal model error - in particular not the ghost ownership check *)
Definition lib_errors : list Z := [eImmutable; eKey; eMismatch; eNoMatch; eNotImmutable; eBadT; eBadCase].

Lemma vexec_prim_errors sw ts x e :
  SR sw ts -> snd (vexec_prim ts x) = Prelude.E e -> In e lib_errors.
Proof.
  intros HSR H. destruct x; cbn [vexec_prim] in H; try discriminate.
  - destruct (Z.to_nat t <? 3)%nat; cbn in H; [|discriminate]. inversion H. cbn. tauto.
  - unfold v_with in H. pose proof (SR_tree sw ts (Z.to_nat ti) HSR) as Ht.
    destruct (nth_error ts (Z.to_nat ti)) as [b|]; [|inversion H; cbn; tauto].
    destruct (nth_error (sw_trees sw) (Z.to_nat ti)); [|contradiction]. destruct Ht as (_ & Hbwf & _).
    unfold insert_element in H. destruct (b_immut b) eqn:Eim.
    + cbn in H. inversion H. cbn. tauto.
    + destruct (insert_element_spec_proof b (k, v) (match io with Some x => x | None => b_inorder b end) Hbwf Eim) as (b' & Hi & _).
      unfold insert_element in Hi. rewrite Eim in Hi. rewrite Hi in H. cbn in H.
      destruct report; [|discriminate]. destruct (find_sorted k (elements (b_root b))); discriminate.
  - unfold v_with in H. pose proof (SR_tree sw ts (Z.to_nat ti) HSR) as Ht.
    destruct (nth_error ts (Z.to_nat ti)) as [b|]; [|inversion H; cbn; tauto].
    destruct (nth_error (sw_trees sw) (Z.to_nat ti)); [|contradiction]. destruct Ht as (_ & Hbwf & _).
    unfold delete_btree in H. destruct (b_immut b) eqn:Eim.
    + cbn in H. inversion H. cbn. tauto.
    + destruct (delete_btree_spec_proof b k exact Hbwf Eim) as (b' & Hi & _).
      unfold delete_btree in Hi. rewrite Eim in Hi. rewrite Hi in H. cbn [bind v_mutate snd] in H.
      destruct mode as [|[|]]; [| |discriminate];
        destruct (dspec exact (find_sorted k (elements (b_root b)))); cbn in H; try discriminate; inversion H; cbn; tauto.
  - unfold v_with in H. destruct (nth_error ts (Z.to_nat ti)) as [b|]; [discriminate|inversion H; cbn; tauto].
  - unfold v_with in H. destruct (nth_error ts (Z.to_nat ti)) as [b|]; [|inversion H; cbn; tauto].
    destruct (b_immut b); [discriminate|]. inversion H; cbn; tauto.
Qed.

Lemma vexec_errors sw ts x e :
  SR sw ts -> snd (vexec ts x) = Prelude.E e -> In e lib_errors.
Proof.
  intros HSR H. destruct x; cbn [vexec] in H; try (exact (vexec_prim_errors sw ts _ e HSR H)).
  - destruct (v_lookup ts ti k); [exact (vexec_prim_errors sw ts _ e HSR H)|discriminate].
  - destruct (v_first ts ti); [exact (vexec_prim_errors sw ts _ e HSR H)|discriminate].
  - discriminate.
  - destruct (v_lookup ts ti k); [discriminate|exact (vexec_prim_errors sw ts _ e HSR H)].
Qed.

(* the store world is an image of the value-level trees: same parameters, and reading the store
   from a tree's root pointer (abs) gives exactly the value-level tree *)
Definition represents (sw : sworld) (ts : list btree) : Prop :=
  length (sw_trees sw) = length ts /\
  forall k sb b, nth_error (sw_trees sw) k = Some sb -> nth_error ts k = Some b ->
    sb_t sb = b_t b /\ sb_size sb = b_size b /\ sb_immut sb = b_immut b /\ sb_inorder sb = b_inorder b /\
    bwf b /\
    exists fuel, forall f, (fuel <= f)%nat -> abs f (sw_store sw) (sb_root sb) = Some (b_root b).

Lemma SR_represents sw ts : SR sw ts -> represents sw ts.
Proof.
  intros (_ & Hlen & Hrel). split; [assumption|]. intros k sb b H1 H2.
  destruct (Hrel k sb b H1 H2) as ((Ha & Hb & Hc & Hd & fp & Hr) & Hbwf).
  repeat split; try assumption; try apply Hbwf. exact (rep_abs _ _ _ _ Hr).
Qed.

(* Copy-on-write isolation, full statement. *)
Theorem cow_isolated_full xs x w' o :
  let w := execs (mkSW [] []) xs in
  let ts := vexecs [] xs in
  exec w x = (w', o) ->
  represents w ts /\
  represents w' (fst (vexec ts x)) /\
  o = snd (vexec ts x) /\
  (forall e, o = Prelude.E e -> In e lib_errors) /\
  forall k bk, target x <> Some k -> nth_error (sw_trees w) k = Some bk ->
    nth_error (sw_trees w') k = Some bk /\
    forall fuel, abs fuel (sw_store w') (sb_root bk) = abs fuel (sw_store w) (sb_root bk).
Proof.
  intros w ts H. pose proof (store_refines_proof xs) as HSR. fold w ts in HSR.
  destruct (exec_sim w ts x w' o HSR H) as (HSR' & Ho).
  split; [now apply SR_represents|]. split; [now apply SR_represents|]. split; [assumption|]. split.
  - intros e He. apply (vexec_errors w ts x e HSR). congruence.
  - exact (cow_isolated_proof xs x w' o H).
Qed.

(* the ghost check in particular *)
Corollary ghost_check_never_fires xs x :
  snd (exec (execs (mkSW [] []) xs) x) <> Prelude.E eForeign.
Proof.
  destruct (exec (execs (mkSW [] []) xs) x) as (w' & o) eqn:E. cbn [snd]. intros ->.
  destruct (cow_isolated_full xs x w' _ E) as (_ & _ & _ & Herr & _).
  specialize (Herr eForeign eq_refl). cbn in Herr. unfold eForeign, eImmutable, eKey, eMismatch, eNoMatch, eNotImmutable, eBadT, eBadCase in Herr.
  repeat (destruct Herr as [Herr|Herr]; [discriminate|]). exact Herr.
Qed.

Theorem store_represents_proof xs : represents (execs (mkSW [] []) xs) (vexecs [] xs).
Proof. apply SR_represents, store_refines_proof. Qed.
