(* The renderer as pure emission: every write appends octets that depend only on the current
   length of the output and on the compression table.  Step characterisations of
   add_question / add_rrset (incl. exact rollback), used by the C03 and C08 proofs. *)
From DV Require Import Base.Prelude Model.NameM Model.MessageM.
From DV Require Import Proofs.NameOrder Proofs.NameValid Proofs.NameRel Proofs.NameWire Proofs.NameCompress.
From DV Require Import Proofs.MessageName.
Open Scope Z_scope.

Lemma zlen_app' {A} (a b : list A) : zlen (a ++ b) = zlen a + zlen b.
Proof. unfold zlen. rewrite app_length. lia. Qed.
Lemma zlen_cons' {A} (x : A) (a : list A) : zlen (x :: a) = 1 + zlen a.
Proof. unfold zlen. cbn [length]. lia. Qed.
Lemma zlen_nn {A} (a : list A) : 0 <= zlen a.
Proof. unfold zlen. lia. Qed.
Lemma bind_ok {A B} (r : res A) (f : A -> res B) b :
  bind r f = Ok b -> exists a, r = Ok a /\ f a = Ok b.
Proof. destruct r; cbn; intros H; try discriminate. eauto. Qed.

(* ---------- emitters ---------- *)
Definition emitter := Z -> ctable -> res (list Z * ctable).
Definition run_em (E : emitter) (file : list Z) (t : ctable) : res (list Z * ctable) :=
  do et <- E (zlen file) t; Ok (file ++ fst et, snd et).

Definition full_labels (n : name) (origin : option name) : res name :=
  do labels <-
     (if is_absolute n then Ok n
      else match origin with
           | Some o => if is_absolute o then Ok (n ++ o) else Lib eNeedAbsolute
           | None => Lib eNeedAbsolute
           end);
  mk_name labels.

Definition nm_em (n : name) (origin : option name) (compress : bool) : emitter :=
  fun pos t =>
    do labels <- full_labels n origin;
    Ok (if compress then tw_em labels pos t else (wire_labels false labels, t)).

Lemma name_to_wire_em n o c file t : name_to_wire n o c file t = run_em (nm_em n o c) file t.
Proof.
  unfold name_to_wire, run_em, nm_em, full_labels.
  destruct (is_absolute n).
  - cbn [bind]. destruct (mk_name n); cbn [bind]; try reflexivity.
    destruct c; [rewrite tw_loop_em|]; reflexivity.
  - destruct o as [o|]; [|reflexivity]. destruct (is_absolute o); [|reflexivity].
    cbn [bind]. destruct (mk_name (n ++ o)); cbn [bind]; try reflexivity.
    destruct c; [rewrite tw_loop_em|]; reflexivity.
Qed.

Fixpoint rd_em (ps : rdata) (origin : option name) (compress : bool) : emitter :=
  fun pos t =>
    match ps with
    | [] => Ok ([], t)
    | PB b :: r =>
        do e2 <- rd_em r origin compress (pos + zlen b) t; Ok (b ++ fst e2, snd e2)
    | PN n :: r =>
        do e1 <- nm_em n origin compress pos t;
        do e2 <- rd_em r origin compress (pos + zlen (fst e1)) (snd e1);
        Ok (fst e1 ++ fst e2, snd e2)
    | PU n :: r | PX n :: r =>
        do e1 <- nm_em n origin false pos t;
        do e2 <- rd_em r origin compress (pos + zlen (fst e1)) (snd e1);
        Ok (fst e1 ++ fst e2, snd e2)
    end.

Lemma rd_to_wire_em : forall ps o c file t, rd_to_wire ps o c file t = run_em (rd_em ps o c) file t.
Proof.
  induction ps as [|p r IH]; intros o c file t.
  - unfold run_em. cbn. rewrite app_nil_r. reflexivity.
  - destruct p as [b|n|n|n]; cbn [rd_to_wire rd_em].
    + rewrite IH. unfold run_em. rewrite zlen_app'.
      destruct (rd_em r o c (zlen file + zlen b) t) as [[em t']| |]; cbn [bind fst snd]; try reflexivity.
      rewrite <- app_assoc. reflexivity.
    + rewrite name_to_wire_em. unfold run_em at 1 2.
      destruct (nm_em n o c (zlen file) t) as [[e1 t1]| |]; cbn [bind fst snd]; try reflexivity.
      rewrite IH. unfold run_em. rewrite zlen_app'.
      destruct (rd_em r o c (zlen file + zlen e1) t1) as [[e2 t2]| |]; cbn [bind fst snd]; try reflexivity.
      rewrite <- app_assoc. reflexivity.
    + rewrite name_to_wire_em. unfold run_em at 1 2.
      destruct (nm_em n o false (zlen file) t) as [[e1 t1]| |]; cbn [bind fst snd]; try reflexivity.
      rewrite IH. unfold run_em. rewrite zlen_app'.
      destruct (rd_em r o c (zlen file + zlen e1) t1) as [[e2 t2]| |]; cbn [bind fst snd]; try reflexivity.
      rewrite <- app_assoc. reflexivity.
    + rewrite name_to_wire_em. unfold run_em at 1 2.
      destruct (nm_em n o false (zlen file) t) as [[e1 t1]| |]; cbn [bind fst snd]; try reflexivity.
      rewrite IH. unfold run_em. rewrite zlen_app'.
      destruct (rd_em r o c (zlen file + zlen e1) t1) as [[e2 t2]| |]; cbn [bind fst snd]; try reflexivity.
      rewrite <- app_assoc. reflexivity.
Qed.

(* one RR: owner, type, class, ttl, rdlength, rdata *)
Definition rr_em (owner : name) (rdtype rdclass ttl : Z) (rd : rdata)
           (oorigin rorigin : option name) (ocompress rcompress : bool) : emitter :=
  fun pos t =>
    do e1 <- nm_em owner oorigin ocompress pos t;
    do h1 <- pack16 rdtype; do h2 <- pack16 rdclass; do h3 <- pack32 ttl;
    do e2 <- rd_em rd rorigin rcompress (pos + zlen (fst e1) + 10) (snd e1);
    if zlen (fst e2) >? 65535 then Lib eFormError
    else Ok (fst e1 ++ h1 ++ h2 ++ h3 ++ MessageM.u16 (zlen (fst e2)) ++ fst e2, snd e2).

Lemma pack16_len v b : pack16 v = Ok b -> zlen b = 2.
Proof. unfold pack16. destruct (_ && _); [|discriminate]. intros H; inversion H. reflexivity. Qed.
Lemma pack32_len v b : pack32 v = Ok b -> zlen b = 4.
Proof. unfold pack32. destruct (_ && _); [|discriminate]. intros H; inversion H. reflexivity. Qed.

Lemma patch16_spec (pre : list Z) (a b : Z) (post : list Z) v :
  patch16 (pre ++ a :: b :: post) (zlen pre) v = pre ++ MessageM.u16 v ++ post.
Proof.
  unfold patch16, zlen. rewrite Nat2Z.id.
  rewrite firstn_app, firstn_all, Nat.sub_diag. cbn [firstn]. rewrite app_nil_r.
  rewrite skipn_app. rewrite skipn_all2 by lia.
  replace (length pre + 2 - length pre)%nat with 2%nat by lia. cbn [skipn app]. reflexivity.
Qed.

Lemma rr_to_wire_em owner rdtype rdclass ttl rd oo ro oc rc file t :
  rr_to_wire owner rdtype rdclass ttl rd oo ro oc rc file t
  = run_em (rr_em owner rdtype rdclass ttl rd oo ro oc rc) file t.
Proof.
  unfold rr_to_wire, rr_em. rewrite name_to_wire_em. unfold run_em at 1 2.
  destruct (nm_em owner oo oc (zlen file) t) as [[e1 t1]| |]; cbn [bind fst snd]; try reflexivity.
  destruct (pack16 rdtype) as [h1| |] eqn:E1; cbn [bind]; try reflexivity.
  destruct (pack16 rdclass) as [h2| |] eqn:E2; cbn [bind]; try reflexivity.
  destruct (pack32 ttl) as [h3| |] eqn:E3; cbn [bind]; try reflexivity.
  rewrite rd_to_wire_em. unfold run_em.
  apply pack16_len in E1. apply pack16_len in E2. apply pack32_len in E3.
  assert (Hz : zlen ((file ++ e1) ++ h1 ++ h2 ++ h3 ++ [0; 0]) = zlen file + zlen e1 + 10)
    by (rewrite !zlen_app'; change (zlen [0; 0]) with 2; lia).
  rewrite Hz.
  destruct (rd_em rd ro rc (zlen file + zlen e1 + 10) t1) as [[e2 t2]| |]; cbn [bind fst snd]; try reflexivity.
  rewrite zlen_app', Hz.
  replace (zlen file + zlen e1 + 10 + zlen e2 - (zlen file + zlen e1 + 10)) with (zlen e2) by lia.
  destruct (zlen e2 >? 65535); [reflexivity|]. cbn [bind fst snd]. f_equal. f_equal.
  destruct (Z.gtb_spec (zlen e2) 0).
  - replace (zlen file + zlen e1 + 10 - 2) with (zlen ((file ++ e1) ++ h1 ++ h2 ++ h3))
      by (rewrite !zlen_app'; lia).
    replace (((file ++ e1) ++ h1 ++ h2 ++ h3 ++ [0; 0]) ++ e2)
      with (((file ++ e1) ++ h1 ++ h2 ++ h3) ++ 0 :: 0 :: e2)
      by (rewrite <- !app_assoc; reflexivity).
    rewrite patch16_spec. rewrite <- !app_assoc. reflexivity.
  - assert (e2 = []) by (destruct e2; [reflexivity|unfold zlen in *; cbn [length] in *; lia]).
    subst e2. rewrite <- !app_assoc. reflexivity.
Qed.

Fixpoint rrs_em (owner : name) (rdtype rdclass ttl : Z) (rds : list rdata)
         (origin : option name) (compress : bool) : emitter :=
  fun pos t =>
    match rds with
    | [] => Ok ([], t)
    | rd :: r =>
        do e1 <- rr_em owner rdtype rdclass ttl rd origin origin compress compress pos t;
        do e2 <- rrs_em owner rdtype rdclass ttl r origin compress (pos + zlen (fst e1)) (snd e1);
        Ok (fst e1 ++ fst e2, snd e2)
    end.

Lemma rrs_loop_em : forall rds owner rdtype rdclass ttl o c file t,
  rrs_loop owner rdtype rdclass ttl rds o c file t = run_em (rrs_em owner rdtype rdclass ttl rds o c) file t.
Proof.
  induction rds as [|rd r IH]; intros.
  - unfold run_em. cbn. rewrite app_nil_r. reflexivity.
  - cbn [rrs_loop rrs_em]. rewrite rr_to_wire_em. unfold run_em at 1 2.
    destruct (rr_em owner rdtype rdclass ttl rd o o c c (zlen file) t) as [[e1 t1]| |]; cbn [bind fst snd]; try reflexivity.
    rewrite IH. unfold run_em. rewrite zlen_app'.
    destruct (rrs_em owner rdtype rdclass ttl r o c (zlen file + zlen e1) t1) as [[e2 t2]| |]; cbn [bind fst snd]; try reflexivity.
    rewrite <- app_assoc. reflexivity.
Qed.

Definition wclass (rs : rrset) : Z := match rdeleting rs with Some d => d | None => rclass rs end.

(* Rdataset.to_wire: the empty form is the RR form with ttl 0 and no rdata *)
Definition rrset_em (rs : rrset) (origin : option name) (compress : bool) : emitter :=
  fun pos t =>
    match rrds rs with
    | [] => rr_em (rname rs) (rtype rs) (wclass rs) 0 [] origin origin compress compress pos t
    | rds => rrs_em (rname rs) (rtype rs) (wclass rs) (rttl rs) rds origin compress pos t
    end.
Definition rrset_count (rs : rrset) : Z := match rrds rs with [] => 1 | rds => zlen rds end.

Lemma rrset_to_wire_em rs o c file t :
  rrset_to_wire rs o c file t =
    do ft <- run_em (rrset_em rs o c) file t; Ok (fst ft, snd ft, rrset_count rs).
Proof.
  unfold rrset_to_wire, rrset_em, rrset_count, wclass.
  destruct (rrds rs) as [|rd rds] eqn:E.
  - rewrite name_to_wire_em. unfold run_em, rr_em.
    destruct (nm_em (rname rs) o c (zlen file) t) as [[e1 t1]| |]; cbn [bind fst snd]; try reflexivity.
    destruct (pack16 (rtype rs)) as [h1| |]; cbn [bind]; try reflexivity.
    destruct (pack16 _) as [h2| |]; cbn [bind]; try reflexivity.
    cbn. rewrite <- !app_assoc. reflexivity.
  - rewrite rrs_loop_em. unfold run_em.
    destruct (rrs_em _ _ _ _ _ _ _ _ _) as [[e1 t1]| |]; cbn [bind fst snd]; reflexivity.
Qed.

(* ---------- emitters only extend the table, with offsets inside what they emit ---------- *)
Definition ext_em (E : emitter) : Prop :=
  forall pos t em t', E pos t = Ok (em, t') ->
    exists new, t' = t ++ new /\ Forall (fun kv => pos <= snd kv < pos + zlen em /\ 1 < zlen (fst kv)) new.

Lemma tw_em_new2 : forall labels pos t,
  exists new, snd (tw_em labels pos t) = t ++ new /\
              Forall (fun kv => pos <= snd kv < pos + zlen (fst (tw_em labels pos t)) /\ 1 < zlen (fst kv)) new.
Proof.
  induction labels as [|l r IH]; intros pos t.
  - exists []. cbn. rewrite app_nil_r. auto.
  - cbn [tw_em]. destruct (tbl_get t (l :: r)).
    + exists []. cbn [snd]. rewrite app_nil_r. auto.
    + cbn [snd fst].
      assert (Hlen : forall x, zlen (zlen l :: l ++ x) = 1 + zlen l + zlen x).
      { intros x. unfold zlen. cbn [length]. rewrite app_length. lia. }
      match goal with |- context [if ?c then _ else _] => destruct c eqn:Ec end.
      * destruct (IH (pos + 1 + zlen l) (t ++ [(l :: r, pos)])) as (new & E & F).
        exists ((l :: r, pos) :: new). split; [rewrite <- app_assoc in E; exact E|].
        rewrite Hlen. pose proof (zlen_nn l).
        pose proof (zlen_nn (fst (tw_em r (pos + 1 + zlen l) (t ++ [(l :: r, pos)])))).
        apply andb_true_iff in Ec. destruct Ec as [Ec _]. apply Z.ltb_lt in Ec.
        unfold name, label in *. constructor; [cbn [snd fst]; lia|]. eapply Forall_impl; [|exact F].
        intros kv H'. cbn beta in H'. lia.
      * destruct (IH (pos + 1 + zlen l) t) as (new & E & F).
        exists new. split; [exact E|]. rewrite Hlen. pose proof (zlen_nn l).
        unfold name, label in *. eapply Forall_impl; [|exact F]. intros kv H'. cbn beta in H'. lia.
Qed.

Lemma ext_nm_em n o c : ext_em (nm_em n o c).
Proof.
  intros pos t em t' H. unfold nm_em in H. apply bind_ok in H. destruct H as (labels & _ & H).
  destruct c.
  - destruct (tw_em_new2 labels pos t) as (new & E & F).
    inversion H as [H1]. rewrite H1 in E, F. cbn [fst snd] in E, F. exists new. auto.
  - inversion H; subst. exists []. rewrite app_nil_r. auto.
Qed.

Lemma Forall_widen (new : list (name * Z)) a b a' b' :
  a' <= a -> b <= b' -> Forall (fun kv => a <= snd kv < b /\ 1 < zlen (fst kv)) new ->
  Forall (fun kv => a' <= snd kv < b' /\ 1 < zlen (fst kv)) new.
Proof. intros. eapply Forall_impl; [|eassumption]. cbn. intros; lia. Qed.

(* sequencing two extending emitters *)
Lemma ext_seq (E1 E2 : emitter) pos t e1 t1 e2 t2 :
  ext_em E1 -> ext_em E2 -> E1 pos t = Ok (e1, t1) -> E2 (pos + zlen e1) t1 = Ok (e2, t2) ->
  exists new, t2 = t ++ new /\ Forall (fun kv => pos <= snd kv < pos + zlen e1 + zlen e2 /\ 1 < zlen (fst kv)) new.
Proof.
  intros X1 X2 H1 H2. destruct (X1 _ _ _ _ H1) as (n1 & -> & F1). destruct (X2 _ _ _ _ H2) as (n2 & -> & F2).
  exists (n1 ++ n2). rewrite app_assoc. split; [reflexivity|]. apply Forall_app. split.
  - eapply Forall_widen; [| |exact F1]; [lia|pose proof (zlen_nn e2); lia].
  - eapply Forall_widen; [| |exact F2]; [pose proof (zlen_nn e1); lia|lia].
Qed.

Lemma ext_rd_em : forall ps o c, ext_em (rd_em ps o c).
Proof.
  induction ps as [|p r IH]; intros o c pos t em t' H.
  - inversion H; subst. exists []. rewrite app_nil_r. auto.
  - destruct p as [b|n|n|n]; cbn [rd_em] in H.
    + apply bind_ok in H. destruct H as ([e2 t2] & H2 & H). inversion H; subst. cbn [fst snd].
      destruct (IH o c _ _ _ _ H2) as (new & -> & F). exists new. split; [reflexivity|].
      rewrite zlen_app'. eapply Forall_widen; [| |exact F]; [pose proof (zlen_nn b); lia|lia].
    + apply bind_ok in H. destruct H as ([e1 t1] & H1 & H). apply bind_ok in H. destruct H as ([e2 t2] & H2 & H).
      inversion H; subst. cbn [fst snd] in *. rewrite zlen_app'.
      destruct (ext_seq _ _ _ _ _ _ _ _ (ext_nm_em n o c) (IH o c) H1 H2) as (new & -> & F).
      exists new. split; [reflexivity|]. eapply Forall_widen; [| |exact F]; lia.
    + apply bind_ok in H. destruct H as ([e1 t1] & H1 & H). apply bind_ok in H. destruct H as ([e2 t2] & H2 & H).
      inversion H; subst. cbn [fst snd] in *. rewrite zlen_app'.
      destruct (ext_seq _ _ _ _ _ _ _ _ (ext_nm_em n o false) (IH o c) H1 H2) as (new & -> & F).
      exists new. split; [reflexivity|]. eapply Forall_widen; [| |exact F]; lia.
    + apply bind_ok in H. destruct H as ([e1 t1] & H1 & H). apply bind_ok in H. destruct H as ([e2 t2] & H2 & H).
      inversion H; subst. cbn [fst snd] in *. rewrite zlen_app'.
      destruct (ext_seq _ _ _ _ _ _ _ _ (ext_nm_em n o false) (IH o c) H1 H2) as (new & -> & F).
      exists new. split; [reflexivity|]. eapply Forall_widen; [| |exact F]; lia.
Qed.

Lemma ext_rr_em owner rdtype rdclass ttl rd oo ro oc rc : ext_em (rr_em owner rdtype rdclass ttl rd oo ro oc rc).
Proof.
  intros pos t em t' H. unfold rr_em in H.
  apply bind_ok in H. destruct H as ([e1 t1] & H1 & H).
  apply bind_ok in H. destruct H as (h1 & E1 & H). apply bind_ok in H. destruct H as (h2 & E2 & H).
  apply bind_ok in H. destruct H as (h3 & E3 & H). apply bind_ok in H. destruct H as ([e2 t2] & H2 & H).
  cbn [fst snd] in *. destruct (zlen e2 >? 65535); [discriminate|]. inversion H; subst.
  destruct (ext_nm_em owner oo oc _ _ _ _ H1) as (n1 & -> & F1).
  destruct (ext_rd_em rd ro rc _ _ _ _ H2) as (n2 & -> & F2).
  apply pack16_len in E1. apply pack16_len in E2. apply pack32_len in E3.
  exists (n1 ++ n2). rewrite app_assoc. split; [reflexivity|].
  rewrite !zlen_app', !zlen_cons'.
  pose proof (zlen_nn e1). pose proof (zlen_nn e2). unfold name, label in *.
  apply Forall_app. split; (eapply Forall_widen; [| |eassumption]; lia).
Qed.

Lemma ext_rrs_em : forall rds owner rdtype rdclass ttl o c, ext_em (rrs_em owner rdtype rdclass ttl rds o c).
Proof.
  induction rds as [|rd r IH]; intros owner rdtype rdclass ttl o c pos t em t' H.
  - inversion H; subst. exists []. rewrite app_nil_r. auto.
  - cbn [rrs_em] in H. apply bind_ok in H. destruct H as ([e1 t1] & H1 & H).
    apply bind_ok in H. destruct H as ([e2 t2] & H2 & H). inversion H; subst. cbn [fst snd] in *.
    rewrite zlen_app'.
    destruct (ext_seq _ _ _ _ _ _ _ _ (ext_rr_em owner rdtype rdclass ttl rd o o c c) (IH owner rdtype rdclass ttl o c) H1 H2)
      as (new & -> & F).
    exists new. split; [reflexivity|]. eapply Forall_widen; [| |exact F]; lia.
Qed.

Lemma ext_rrset_em rs o c : ext_em (rrset_em rs o c).
Proof.
  unfold rrset_em. intros pos t em t' H. destruct (rrds rs).
  - eapply ext_rr_em; exact H.
  - eapply ext_rrs_em; exact H.
Qed.

(* ---------- tracked writes (Renderer._track_size around one emitter) ---------- *)
Definition TblBelow (r : rst) : Prop := Forall (fun kv => snd kv < zlen (out r)) (tbl r).

Definition tracked (E : emitter) (sec n : Z) (r : rst) : res (bool * rst) :=
  do r1 <- set_section sec r;
  do et <- E (zlen (out r1)) (tbl r1);
  let '(big, r2) := track_end (zlen (out r1)) (set_out r1 (out r1 ++ fst et) (snd et)) in
  if big then Ok (true, r2) else Ok (false, inc_count r2 sec n).

Definition q_em (origin : option name) (qname : name) (rdtype rdclass : Z) : emitter :=
  fun pos t =>
    do e1 <- nm_em qname origin true pos t;
    do h1 <- pack16 rdtype; do h2 <- pack16 rdclass;
    Ok (fst e1 ++ h1 ++ h2, snd e1).

Lemma ext_q_em o n t c : ext_em (q_em o n t c).
Proof.
  intros pos tb em t' H. unfold q_em in H.
  apply bind_ok in H. destruct H as ([e1 t1] & H1 & H).
  apply bind_ok in H. destruct H as (h1 & E1 & H). apply bind_ok in H. destruct H as (h2 & E2 & H).
  inversion H; subst. cbn [fst snd].
  destruct (ext_nm_em n o true _ _ _ _ H1) as (new & -> & F). exists new. split; [reflexivity|].
  rewrite !zlen_app'. pose proof (zlen_nn h1). pose proof (zlen_nn h2).
  eapply Forall_widen; [| |exact F]; lia.
Qed.

Lemma add_question_tracked o n t c r : add_question o n t c r = tracked (q_em o n t c) 0 1 r.
Proof.
  unfold add_question, tracked, q_em.
  destruct (set_section 0 r) as [r1| |]; cbn [bind]; try reflexivity.
  rewrite name_to_wire_em. unfold run_em.
  destruct (nm_em n o true (zlen (out r1)) (tbl r1)) as [[e1 t1]| |]; cbn [bind fst snd]; try reflexivity.
  destruct (pack16 t) as [h1| |]; cbn [bind]; try reflexivity.
  destruct (pack16 c) as [h2| |]; cbn [bind fst snd]; try reflexivity.
  rewrite <- app_assoc. reflexivity.
Qed.

Lemma add_rrset_tracked o sec rs r : add_rrset o sec rs r = tracked (rrset_em rs o true) sec (rrset_count rs) r.
Proof.
  unfold add_rrset, tracked.
  destruct (set_section sec r) as [r1| |]; cbn [bind]; try reflexivity.
  rewrite rrset_to_wire_em. unfold run_em.
  destruct (rrset_em rs o true (zlen (out r1)) (tbl r1)) as [[e1 t1]| |]; cbn [bind fst snd]; reflexivity.
Qed.

Lemma set_section_spec s r r1 : set_section s r = Ok r1 -> r1 = set_rsec r s /\ rsec r <= s.
Proof.
  unfold set_section. destruct (Z.eqb_spec (rsec r) s).
  - intros H0; inversion H0; subst. split; [destruct r1; reflexivity|lia].
  - destruct (Z.gtb_spec (rsec r) s); [discriminate|]. intros H0; inversion H0. split; [reflexivity|lia].
Qed.

Lemma firstn_app_exact {A} (a b : list A) : firstn (length a) (a ++ b) = a.
Proof. rewrite firstn_app, firstn_all, Nat.sub_diag. cbn. apply app_nil_r. Qed.

Lemma firstn_zlen_app {A} (a b : list A) : firstn (Z.to_nat (zlen a)) (a ++ b) = a.
Proof. unfold zlen. rewrite Nat2Z.id. apply firstn_app_exact. Qed.

Lemma filter_below (t new : ctable) pos :
  Forall (fun kv => snd kv < pos) t -> Forall (fun kv => pos <= snd kv) new ->
  filter (fun kv => snd kv <? pos) (t ++ new) = t.
Proof.
  intros Ht Hn. rewrite filter_app.
  replace (filter (fun kv => snd kv <? pos) new) with (@nil (name * Z)).
  - rewrite app_nil_r. induction Ht as [|x l Hx _ IH]; [reflexivity|]. cbn [filter].
    destruct (Z.ltb_spec (snd x) pos); [|lia]. f_equal. exact IH.
  - induction Hn as [|x l Hx _ IH]; [reflexivity|]. cbn [filter].
    destruct (Z.ltb_spec (snd x) pos); [lia|]. exact IH.
Qed.

(* the step: either the octets are appended (and fit), or the state is exactly what it was
   (only the current section may have advanced) and TooBig is signalled *)
Lemma tracked_spec E sec n r b r' :
  ext_em E -> TblBelow r -> tracked E sec n r = Ok (b, r') ->
  rsec r <= sec /\
  exists em new,
    E (zlen (out r)) (tbl r) = Ok (em, tbl r ++ new) /\
    Forall (fun kv => zlen (out r) <= snd kv < zlen (out r) + zlen em /\ 1 < zlen (fst kv)) new /\
    ((b = false /\ zlen (out r) + zlen em <= maxsz r /\
      r' = inc_count (set_out (set_rsec r sec) (out r ++ em) (tbl r ++ new)) sec n)
     \/ (b = true /\ zlen (out r) + zlen em > maxsz r /\ r' = set_rsec r sec)).
Proof.
  intros X TB H. unfold tracked in H.
  apply bind_ok in H. destruct H as (r1 & S & H). apply set_section_spec in S. destruct S as [-> Hs].
  split; [exact Hs|]. cbn [out tbl set_rsec] in H.
  apply bind_ok in H. destruct H as ([em t'] & HE & H). cbn [fst snd] in H.
  destruct (X _ _ _ _ HE) as (new & -> & F). exists em, new. split; [exact HE|]. split; [exact F|].
  unfold track_end in H. cbn [out set_out maxsz set_rsec] in H. rewrite zlen_app' in H.
  destruct (Z.gtb_spec (zlen (out r) + zlen em) (maxsz r)).
  - right. inversion H; subst. split; [reflexivity|]. split; [lia|].
    unfold rollback, set_out, set_rsec. cbn [out tbl cq can cau cad rsec rflags maxsz reserved padded].
    rewrite firstn_zlen_app.
    rewrite filter_below; [reflexivity|exact TB|].
    eapply Forall_impl; [|exact F]. cbn beta. intros kv (Hk & _). unfold name, label in *. lia.
  - left. inversion H; subst. split; [reflexivity|]. split; [lia|reflexivity].
Qed.
