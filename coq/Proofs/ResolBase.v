(* Inversion lemmas for the resolver state machine of Model/ResolM.v and the generic
   invariant principle for `loop`. *)
From DV Require Import Base.Prelude Model.NameM Model.ResolM.
Open Scope Z_scope.

(* ---------- the loop: invariants lift from `step` to `loop` ---------- *)
Section LoopInd.
Variables (sc : nat -> outcome) (c : cfg) (start : Z).
Variable P : st -> env -> Prop.
Variable Q : final -> st -> env -> Prop.
Hypothesis Hstep : forall s e s' e', P s e -> step sc c start s e = inl (s', e') -> P s' e'.
Hypothesis Hfin : forall s e f s' e', P s e -> step sc c start s e = inr (f, s', e') -> Q f s' e'.

Lemma loop_ind : forall fuel s e f s' e',
  P s e -> loop fuel sc c start s e = (f, s', e') -> f <> FFuel -> Q f s' e'.
Proof.
  induction fuel as [|fuel IH]; intros s e f s' e' HP HL HF; simpl in HL.
  - inversion HL; subst. congruence.
  - destruct (step sc c start s e) as [[s1 e1]|[[f1 s1] e1]] eqn:ES.
    + apply (IH s1 e1); auto. eapply Hstep; eauto.
    + inversion HL; subst. eapply Hfin; eauto.
Qed.
End LoopInd.

(* ---------- next_nameserver ---------- *)
Lemma next_nameserver_ok : forall c s s1 ns tcp backoff,
  next_nameserver c s = NSOk s1 ns tcp backoff ->
  s_qnames s1 = s_qnames s /\ s_qname s1 = s_qname s /\ s_nx s1 = s_nx s /\
  s_nameservers s1 = s_nameservers s /\ s_errors s1 = s_errors s /\
  s_nameserver s1 = Some ns /\ s_tcp_attempt s1 = tcp /\ s_retry_with_tcp s1 = false /\
  s_have_request s1 = s_have_request s /\ s_cache s1 = s_cache s /\
  ( (* TCP retry *)
    (s_retry_with_tcp s = true /\ s_nameserver s = Some ns /\ sv_maxsize ns = false /\ tcp = true /\
     backoff = 0 /\ s_current s1 = s_current s /\ s_backoff s1 = s_backoff s)
    \/ (* next server of the round *)
    (s_retry_with_tcp s = false /\ s_current s = ns :: s_current s1 /\ backoff = 0 /\
     tcp = (c_tcp c || sv_maxsize ns) /\ s_backoff s1 = s_backoff s)
    \/ (* round exhausted: re-arm with back-off *)
    (s_retry_with_tcp s = false /\ s_current s = [] /\ s_nameservers s = ns :: s_current s1 /\
     backoff = s_backoff s /\ tcp = (c_tcp c || sv_maxsize ns) /\
     s_backoff s1 = Z.min (s_backoff s * 2) 2000) ).
Proof.
  intros c s s1 ns tcp backoff H. unfold next_nameserver in H.
  destruct (s_retry_with_tcp s) eqn:ER.
  - destruct (s_nameserver s) as [n0|] eqn:EN; try discriminate.
    destruct (sv_maxsize n0) eqn:EM; try discriminate.
    inversion H; subst; clear H. simpl. repeat split; auto. left. repeat split; auto.
  - destruct (s_current s) as [|n0 rest] eqn:EC.
    + destruct (s_nameservers s) as [|n1 rest1] eqn:ENS; try discriminate.
      unfold pop_server in H. inversion H; subst; clear H. simpl.
      repeat split; auto. right. right. repeat split; auto.
    + unfold pop_server in H. inversion H; subst; clear H. simpl.
      repeat split; auto. right. left. repeat split; auto.
Qed.

Lemma next_nameserver_none : forall c s s1,
  next_nameserver c s = NSNone s1 ->
  s1 = s /\ s_retry_with_tcp s = false /\ s_current s = [] /\ s_nameservers s = [].
Proof.
  intros c s s1 H. unfold next_nameserver in H.
  destruct (s_retry_with_tcp s) eqn:ER.
  - destruct (s_nameserver s) as [n0|]; try discriminate.
    destruct (sv_maxsize n0); discriminate.
  - destruct (s_current s) as [|n0 rest] eqn:EC.
    + destruct (s_nameservers s) as [|n1 rest1] eqn:ENS.
      * inversion H; subst. auto.
      * unfold pop_server in H. discriminate.
    + unfold pop_server in H. discriminate.
Qed.

Lemma next_nameserver_int : forall c s k,
  next_nameserver c s = NSInt k ->
  s_retry_with_tcp s = true /\
  (s_nameserver s = None \/ exists ns, s_nameserver s = Some ns /\ sv_maxsize ns = true).
Proof.
  intros c s k H. unfold next_nameserver in H.
  destruct (s_retry_with_tcp s) eqn:ER.
  - split; auto. destruct (s_nameserver s) as [n0|]; [|left; reflexivity].
    destruct (sv_maxsize n0) eqn:EM; [|discriminate]. right. exists n0. split; auto.
  - destruct (s_current s) as [|n0 rest].
    + destruct (s_nameservers s) as [|n1 rest1]; try discriminate; unfold pop_server in H; try discriminate.
    + unfold pop_server in H; try discriminate.
Qed.

(* ---------- query_result ---------- *)
(* does the observed reply make query_result take the server out of the mix? *)
Definition drops (c : cfg) (tcp : bool) (r : oreply) : bool :=
  match r with
  | OExn k =>
      match exn_of_class k with
      | XFormError | XEOF | XOSError | XNotImpl => true
      | XTruncated => tcp
      | XTimeout | XOther => false
      end
  | OMsg m =>
      if m_rcode m =? rcNOERROR then
        match resolve_chaining m with Ok _ => false | _ => true end
      else if m_rcode m =? rcNXDOMAIN then
        match resolve_chaining m with Ok _ => false | _ => true end
      else if m_rcode m =? rcYXDOMAIN then false
      else negb (m_rcode m =? rcSERVFAIL) || negb (c_retry_servfail c)
  end.

Definition is_trunc (r : oreply) : bool :=
  match r with OExn k => match exn_of_class k with XTruncated => true | _ => false end | OMsg _ => false end.

Lemma make_answer_ok : forall q t k m sv now src a,
  make_answer q t k m sv now src = Ok a ->
  exists ch, resolve_chaining m = Ok ch /\
    a_qname a = q /\ a_rdtype a = t /\ a_rdclass a = k /\ a_canonical a = ch_canonical ch /\
    a_rrset a = ch_answer ch /\ a_min_ttl a = ch_min_ttl ch /\
    a_expiration a = now + 1000 * ch_min_ttl ch /\ a_server a = sv /\
    a_ncnames a = zlen (ch_cnames ch) /\ a_rcode a = m_rcode m /\ a_src a = src.
Proof.
  intros. unfold make_answer in H. destruct (resolve_chaining m) as [ch|e|e]; simpl in H; try discriminate.
  inversion H; subst; clear H. exists ch. simpl. repeat split; auto.
Qed.

Lemma make_answer_err : forall q t k m sv now src,
  (forall a, make_answer q t k m sv now src <> Ok a) ->
  forall ch, resolve_chaining m <> Ok ch.
Proof.
  intros. intro HC. unfold make_answer in H. rewrite HC in H. simpl in H. eapply H; eauto.
Qed.

(* the state after a drop *)
Definition dropped (s s' : st) (ns : server) : Prop :=
  exists nss, remove_server ns (s_nameservers s) = Some nss /\
    s_nameservers s' = nss /\ s_retry_with_tcp s' = s_retry_with_tcp s.

Definition same_but (s s' : st) : Prop :=
  s_qnames s' = s_qnames s /\ s_qname s' = s_qname s /\ s_current s' = s_current s /\
  s_nameserver s' = s_nameserver s /\ s_tcp_attempt s' = s_tcp_attempt s /\
  s_have_request s' = s_have_request s /\ s_backoff s' = s_backoff s.

Lemma upd_same_but : forall s nss errs retry nx ch, same_but s (upd s nss errs retry nx ch).
Proof. intros. unfold same_but, upd. simpl. repeat split; auto. Qed.

Lemma err_then_drop_cont : forall s ns code s',
  err_then_drop s ns code = QCont s' ->
  same_but s s' /\ dropped s s' ns /\ s_nx s' = s_nx s /\ s_cache s' = s_cache s /\
  s_errors s' = s_errors s ++ [mk_err s ns code].
Proof.
  intros. unfold err_then_drop in H. destruct (remove_server ns (s_nameservers s)) as [nss|] eqn:ER; try discriminate.
  inversion H; subst; clear H. split; [apply upd_same_but|]. split.
  - exists nss. simpl. auto.
  - simpl. auto.
Qed.

Lemma err_then_drop_cases : forall s ns code,
  (exists s', err_then_drop s ns code = QCont s') \/
  (err_then_drop s ns code = QInt iValueError /\ remove_server ns (s_nameservers s) = None).
Proof.
  intros. unfold err_then_drop. destruct (remove_server ns (s_nameservers s)); eauto.
Qed.

Ltac drop_case H :=
  let A := fresh "A" in let B := fresh "B" in let C := fresh "C" in let D := fresh "D" in
  apply err_then_drop_cont in H; destruct H as (A & B & C & D & _);
  split; [exact A|]; split; [exact C|]; split; [exact D|]; left; split; [try reflexivity; auto | exact B].

Ltac keep_case H :=
  inversion H; subst; clear H; split; [apply upd_same_but|]; simpl;
  split; [reflexivity|]; split; [reflexivity|]; right; split; [try reflexivity; auto|];
  split; [reflexivity|]; try (destruct (s_retry_with_tcp _); reflexivity).

(* QCont: either the server was dropped, or nothing but errors / the retry flag changed *)
Lemma query_result_cont : forall c s now src r s',
  query_result c s now src r = QCont s' ->
  exists ns, s_nameserver s = Some ns /\ same_but s s' /\ s_nx s' = s_nx s /\ s_cache s' = s_cache s /\
    ( (drops c (s_tcp_attempt s) r = true /\ dropped s s' ns)
      \/ (drops c (s_tcp_attempt s) r = false /\ s_nameservers s' = s_nameservers s /\
          s_retry_with_tcp s' = (s_retry_with_tcp s || (is_trunc r && negb (s_tcp_attempt s)))) ).
Proof.
  intros c s now src r s' H. unfold query_result in H.
  destruct (s_nameserver s) as [ns|] eqn:EN; try discriminate. exists ns. split; auto.
  destruct r as [k|m].
  - unfold drops, is_trunc. destruct (exn_of_class k) eqn:EK.
    + drop_case H.
    + drop_case H.
    + drop_case H.
    + drop_case H.
    + destruct (s_tcp_attempt s) eqn:ET.
      * drop_case H.
      * keep_case H.
    + keep_case H.
    + keep_case H.
  - unfold drops, is_trunc. simpl.
    destruct (m_rcode m =? rcNOERROR) eqn:E0.
    + unfold make_answer in H. destruct (resolve_chaining m) as [ch|e|e]; simpl in H.
      * destruct ((match ch_answer ch with None => true | Some _ => false end) && c_raise c); discriminate.
      * drop_case H.
      * discriminate.
    + destruct (m_rcode m =? rcNXDOMAIN) eqn:E3.
      * unfold make_answer in H. destruct (resolve_chaining m) as [ch|e|e]; simpl in H; try discriminate.
        drop_case H.
      * destruct (m_rcode m =? rcYXDOMAIN) eqn:E6; try discriminate.
        destruct (negb (m_rcode m =? rcSERVFAIL) || negb (c_retry_servfail c)) eqn:ES.
        -- drop_case H.
        -- keep_case H.
Qed.

(* the terminal classes of a reply *)
Definition accepts (r : oreply) : option chaining :=
  match r with
  | OMsg m => if m_rcode m =? rcNOERROR then match resolve_chaining m with Ok ch => Some ch | _ => None end else None
  | OExn _ => None
  end.

Definition nx_accepts (r : oreply) : option chaining :=
  match r with
  | OMsg m => if m_rcode m =? rcNXDOMAIN then match resolve_chaining m with Ok ch => Some ch | _ => None end else None
  | OExn _ => None
  end.

Definition is_yx (r : oreply) : bool :=
  match r with OMsg m => negb (m_rcode m =? rcNOERROR) && negb (m_rcode m =? rcNXDOMAIN) && (m_rcode m =? rcYXDOMAIN) | OExn _ => false end.

Lemma query_result_cont_class : forall c s now src r s',
  query_result c s now src r = QCont s' -> accepts r = None /\ nx_accepts r = None /\ is_yx r = false.
Proof.
  intros c s now src r s' H. unfold query_result in H.
  destruct (s_nameserver s) as [ns|]; try discriminate.
  destruct r as [k|m]; simpl; auto.
  destruct (m_rcode m =? rcNOERROR) eqn:E0.
  - unfold make_answer in H. destruct (resolve_chaining m); simpl in *; auto.
    + destruct ((match ch_answer a with None => true | Some _ => false end) && c_raise c); discriminate.
    + assert (m_rcode m =? rcNXDOMAIN = false). { apply Z.eqb_eq in E0. rewrite E0. reflexivity. } rewrite H0. auto.
    + assert (m_rcode m =? rcNXDOMAIN = false). { apply Z.eqb_eq in E0. rewrite E0. reflexivity. } rewrite H0. auto.
  - destruct (m_rcode m =? rcNXDOMAIN) eqn:E3.
    + unfold make_answer in H. destruct (resolve_chaining m); simpl in *; auto. discriminate.
    + destruct (m_rcode m =? rcYXDOMAIN) eqn:E6; try discriminate. auto.
Qed.

(* discharge a branch of query_result that cannot produce the constructor in H *)
Ltac qr_absurd H :=
  unfold err_then_drop in H; try discriminate;
  repeat (match type of H with
          | context [match ?x with _ => _ end] => destruct x
          | context [if ?x then _ else _] => destruct x
          end; try discriminate; unfold err_then_drop in H).

Lemma query_result_answer : forall c s now src r s' a,
  query_result c s now src r = QAnswer s' a ->
  exists ns m ch, s_nameserver s = Some ns /\ r = OMsg m /\ accepts r = Some ch /\
    make_answer (s_qname s) (c_rdtype c) (c_rdclass c) m (Some (sv_id ns)) now src = Ok a /\
    s_cache s' = (if c_cache c then cache_put (s_cache s) {| k_name := s_qname s; k_type := c_rdtype c; k_class := c_rdclass c |} a else s_cache s) /\
    s_nx s' = s_nx s /\ s_nameservers s' = s_nameservers s /\
    (a_rrset a <> None \/ c_raise c = false).
Proof.
  intros c s now src r s' a H. unfold query_result in H.
  destruct (s_nameserver s) as [ns|] eqn:EN; [|discriminate].
  destruct r as [k|m].
  - exfalso. qr_absurd H.
  - simpl in *. destruct (m_rcode m =? rcNOERROR) eqn:E0.
    + destruct (make_answer (s_qname s) (c_rdtype c) (c_rdclass c) m (Some (sv_id ns)) now src) as [a0|e|e] eqn:EA.
      * destruct (make_answer_ok _ _ _ _ _ _ _ _ EA) as (ch & HC & _).
        exists ns, m, ch. rewrite HC.
        destruct ((match a_rrset a0 with None => true | Some _ => false end) && c_raise c) eqn:EB; [discriminate|].
        inversion H; subst; clear H.
        split; [reflexivity|]. split; [reflexivity|]. split; [reflexivity|]. split; [exact EA|].
        split; [destruct (c_cache c); reflexivity|].
        split; [destruct (c_cache c); reflexivity|].
        split; [destruct (c_cache c); reflexivity|].
        apply andb_false_iff in EB. destruct EB as [EB|EB]; auto.
        left. destruct (a_rrset a); congruence.
      * exfalso. qr_absurd H.
      * discriminate.
    + exfalso. qr_absurd H.
Qed.

Lemma query_result_noanswer : forall c s now src r s' a,
  query_result c s now src r = QNoAnswer s' a ->
  exists ns m ch, s_nameserver s = Some ns /\ r = OMsg m /\ accepts r = Some ch /\
    make_answer (s_qname s) (c_rdtype c) (c_rdclass c) m (Some (sv_id ns)) now src = Ok a /\
    s_cache s' = (if c_cache c then cache_put (s_cache s) {| k_name := s_qname s; k_type := c_rdtype c; k_class := c_rdclass c |} a else s_cache s) /\
    s_nx s' = s_nx s /\ s_nameservers s' = s_nameservers s /\
    a_rrset a = None /\ c_raise c = true.
Proof.
  intros c s now src r s' a H. unfold query_result in H.
  destruct (s_nameserver s) as [ns|] eqn:EN; [|discriminate].
  destruct r as [k|m].
  - exfalso. qr_absurd H.
  - simpl in *. destruct (m_rcode m =? rcNOERROR) eqn:E0.
    + destruct (make_answer (s_qname s) (c_rdtype c) (c_rdclass c) m (Some (sv_id ns)) now src) as [a0|e|e] eqn:EA.
      * destruct (make_answer_ok _ _ _ _ _ _ _ _ EA) as (ch & HC & _).
        exists ns, m, ch. rewrite HC.
        destruct ((match a_rrset a0 with None => true | Some _ => false end) && c_raise c) eqn:EB; [|discriminate].
        inversion H; subst; clear H.
        split; [reflexivity|]. split; [reflexivity|]. split; [reflexivity|]. split; [exact EA|].
        split; [destruct (c_cache c); reflexivity|].
        split; [destruct (c_cache c); reflexivity|].
        split; [destruct (c_cache c); reflexivity|].
        apply andb_true_iff in EB. destruct EB as [EB1 EB2]. split; auto.
        destruct (a_rrset a); congruence.
      * exfalso. qr_absurd H.
      * discriminate.
    + exfalso. qr_absurd H.
Qed.

Lemma query_result_next : forall c s now src r s',
  query_result c s now src r = QNext s' ->
  exists ns m ch a, s_nameserver s = Some ns /\ r = OMsg m /\ nx_accepts r = Some ch /\ accepts r = None /\
    make_answer (s_qname s) tANY cIN m None now src = Ok a /\
    same_but s s' /\ s_nameservers s' = s_nameservers s /\ s_retry_with_tcp s' = s_retry_with_tcp s /\
    s_nx s' = nx_set (s_nx s) (s_qname s) src /\
    s_cache s' = (if c_cache c then cache_put (s_cache s) {| k_name := s_qname s; k_type := tANY; k_class := c_rdclass c |} a else s_cache s).
Proof.
  intros c s now src r s' H. unfold query_result in *.
  destruct (s_nameserver s) as [ns|] eqn:EN; try discriminate.
  destruct r as [k|m].
  - exfalso. qr_absurd H.
  - simpl in *. destruct (m_rcode m =? rcNOERROR) eqn:E0.
    + exfalso. qr_absurd H.
    + destruct (m_rcode m =? rcNXDOMAIN) eqn:E3.
      * destruct (make_answer (s_qname s) tANY cIN m None now src) as [a|e|e] eqn:EA.
        -- destruct (make_answer_ok _ _ _ _ _ _ _ _ EA) as (ch & HC & _).
           exists ns, m, ch, a. rewrite HC. inversion H; subst; clear H.
           split; [reflexivity|]. split; [reflexivity|]. split; [reflexivity|]. split; [reflexivity|].
           split; [exact EA|]. split; [apply upd_same_but|]. simpl. repeat split; reflexivity.
        -- exfalso. qr_absurd H.
        -- discriminate.
      * exfalso. qr_absurd H.
Qed.

Lemma query_result_yx : forall c s now src r s',
  query_result c s now src r = QYX s' ->
  is_yx r = true /\ accepts r = None /\ nx_accepts r = None /\ s_nx s' = s_nx s /\ s_cache s' = s_cache s.
Proof.
  intros c s now src r s' H. unfold query_result in *.
  destruct (s_nameserver s) as [ns|] eqn:EN; try discriminate.
  destruct r as [k|m].
  - exfalso. qr_absurd H.
  - simpl in *. destruct (m_rcode m =? rcNOERROR) eqn:E0.
    + exfalso. qr_absurd H.
    + destruct (m_rcode m =? rcNXDOMAIN) eqn:E3.
      * exfalso. qr_absurd H.
      * destruct (m_rcode m =? rcYXDOMAIN) eqn:E6.
        -- inversion H; subst; clear H. simpl. auto.
        -- exfalso. qr_absurd H.
Qed.

(* an Internal failure of query_result: only list.remove of an absent server, or no current server *)
Lemma query_result_int : forall c s now src r k,
  query_result c s now src r = QInt k ->
  s_nameserver s = None \/
  (exists ns, s_nameserver s = Some ns /\ remove_server ns (s_nameservers s) = None).
Proof.
  intros c s now src r k H. unfold query_result in *.
  destruct (s_nameserver s) as [ns|] eqn:EN; auto. right. exists ns. split; auto.
  assert (HD: forall code, err_then_drop s ns code = QInt k -> remove_server ns (s_nameservers s) = None).
  { intros code HH. unfold err_then_drop in HH. destruct (remove_server ns (s_nameservers s)); congruence. }
  destruct r as [x|m].
  - destruct (exn_of_class x); try discriminate; eauto.
    destruct (s_tcp_attempt s); try discriminate; eauto.
  - simpl in *. destruct (m_rcode m =? rcNOERROR).
    + unfold make_answer in H. destruct (resolve_chaining m) as [ch|e|e] eqn:ERC; simpl in H; eauto.
      * destruct ((match ch_answer ch with None => true | Some _ => false end) && c_raise c); discriminate.
      * exfalso. unfold resolve_chaining in ERC.
        destruct (negb (m_qr m)); try discriminate.
        destruct (m_question m) as [|q [|q' l]]; try discriminate.
        destruct (chain_loop MAX_CHAIN (m_answer m) (q_class q) (q_type q) (q_name q) MAX_TTL []) as [[[[an qn] mt] cn] ex].
        destruct ex; try discriminate.
        destruct ((m_rcode m =? rcNXDOMAIN) && match an with Some _ => true | None => false end); discriminate.
    + destruct (m_rcode m =? rcNXDOMAIN).
      * unfold make_answer in H. destruct (resolve_chaining m) as [ch|e|e] eqn:ERC; simpl in H; eauto; try discriminate.
        exfalso. unfold resolve_chaining in ERC.
        destruct (negb (m_qr m)); try discriminate.
        destruct (m_question m) as [|q [|q' l]]; try discriminate.
        destruct (chain_loop MAX_CHAIN (m_answer m) (q_class q) (q_type q) (q_name q) MAX_TTL []) as [[[[an qn] mt] cn] ex].
        destruct ex; try discriminate.
        destruct ((m_rcode m =? rcNXDOMAIN) && match an with Some _ => true | None => false end); discriminate.
      * destruct (m_rcode m =? rcYXDOMAIN); try discriminate.
        destruct (negb (m_rcode m =? rcSERVFAIL) || negb (c_retry_servfail c)); try discriminate; eauto.
Qed.

(* ---------- next_request ---------- *)
Lemma next_request_request : forall c qnames s now s',
  next_request c s qnames now = NRequest s' ->
  exists q rest skipped s0,
    qnames = skipped ++ q :: rest /\
    s' = arm c s0 q rest /\
    s_have_request s0 = s_have_request s /\ s_nameservers s0 = s_nameservers s /\ s_cache s0 = s_cache s.
Proof.
  induction qnames as [|q rest IH]; intros s now s' H; simpl in H; try discriminate.
  destruct (c_cache c).
  - destruct (cache_get _ _ now) as [a|].
    + destruct ((match a_rrset a with None => true | Some _ => false end) && c_raise c); discriminate.
    + destruct (cache_get _ _ now) as [a|].
      * destruct (a_rcode a =? rcNXDOMAIN).
        -- apply IH in H. destruct H as (q' & rest' & sk & s0 & E1 & E2 & E3 & E4 & E5).
           exists q', rest', (q :: sk), s0. subst. simpl. auto.
        -- inversion H; subst. exists q, rest, [], (with_qname s q rest). simpl. auto.
      * inversion H; subst. exists q, rest, [], (with_qname s q rest). simpl. auto.
  - inversion H; subst. exists q, rest, [], (with_qname s q rest). simpl. auto.
Qed.

(* ---------- step ---------- *)
Definition mk_event (s1 : st) (ns : server) (tcp : bool) (backoff T : Z) (e : env) (ob : oreply) (clock2 : Z) : event :=
  {| ev_server := sv_id ns; ev_tcp := tcp; ev_backoff := backoff; ev_timeout := T;
     ev_qname := s_qname s1; ev_idx := e_pos e; ev_start := e_clock e + backoff; ev_end := clock2; ev_left := length (s_qnames s1); ev_level := s_backoff s1; ev_obs := ob |}.

Definition question_of (c : cfg) (s : st) : question :=
  {| q_name := s_qname s; q_class := c_rdclass c; q_type := c_rdtype c |}.

Lemma step_inl : forall sc c start s e s' e',
  step sc c start s e = inl (s', e') ->
  exists s1 ns tcp backoff T ob clock2,
    next_nameserver c s = NSOk s1 ns tcp backoff /\
    compute_timeout start (c_lifetime c) (c_timeout c) (e_clock e + backoff) = inl T /\
    observe (face (sc (e_pos e)) tcp) T (e_clock e + backoff) (question_of c s1) = (ob, clock2) /\
    e' = {| e_clock := clock2; e_pos := S (e_pos e); e_trace := e_trace e ++ [mk_event s1 ns tcp backoff T e ob clock2] |} /\
    (query_result c s1 clock2 (Z.of_nat (e_pos e)) ob = QCont s' \/
     exists s2, query_result c s1 clock2 (Z.of_nat (e_pos e)) ob = QNext s2 /\
                next_request c s2 (s_qnames s2) clock2 = NRequest s').
Proof.
  intros sc c start s e s' e' H. unfold step in H.
  destruct (next_nameserver c s) as [s1 ns tcp backoff|s1|k] eqn:EN; try discriminate.
  destruct (compute_timeout start (c_lifetime c) (c_timeout c) (e_clock e + backoff)) as [T|d] eqn:ET; try discriminate.
  fold (question_of c s1) in H.
  destruct (observe (face (sc (e_pos e)) tcp) T (e_clock e + backoff) (question_of c s1)) as [ob clock2] eqn:EO.
  exists s1, ns, tcp, backoff, T, ob, clock2.
  destruct (query_result c s1 clock2 (Z.of_nat (e_pos e)) ob) as [s2|s2 a|s2|s2 a|s2|k] eqn:EQ; try discriminate.
  - inversion H; subst. repeat split; auto.
  - destruct (next_request c s2 (s_qnames s2) clock2) as [s3|s3 a|s3 a|s3] eqn:ENR; simpl in H; try discriminate.
    inversion H; subst. repeat split; auto. right. exists s2. auto.
Qed.

Inductive fin_kind :=
| KInternalNS (k : Z)
| KNoNameservers
| KLifetime (d : Z)
| KQuery (s1 : st) (ns : server) (tcp : bool) (backoff T : Z) (ob : oreply) (clock2 : Z).

Lemma step_inr : forall sc c start s e f s' e',
  step sc c start s e = inr (f, s', e') ->
  (exists k, next_nameserver c s = NSInt k /\ f = FInternal k /\ s' = s /\ e' = e) \/
  (next_nameserver c s = NSNone s' /\ f = FNoNameservers (s_errors s') /\ e' = e) \/
  (exists ns tcp backoff d,
     next_nameserver c s = NSOk s' ns tcp backoff /\
     compute_timeout start (c_lifetime c) (c_timeout c) (e_clock e + backoff) = inr d /\
     f = FLifetime (s_errors s') d /\
     e' = {| e_clock := e_clock e + backoff; e_pos := e_pos e; e_trace := e_trace e |}) \/
  (exists s1 ns tcp backoff T ob clock2,
     next_nameserver c s = NSOk s1 ns tcp backoff /\
     compute_timeout start (c_lifetime c) (c_timeout c) (e_clock e + backoff) = inl T /\
     observe (face (sc (e_pos e)) tcp) T (e_clock e + backoff) (question_of c s1) = (ob, clock2) /\
     e' = {| e_clock := clock2; e_pos := S (e_pos e); e_trace := e_trace e ++ [mk_event s1 ns tcp backoff T e ob clock2] |} /\
     ( (exists a, query_result c s1 clock2 (Z.of_nat (e_pos e)) ob = QAnswer s' a /\ f = FAnswer a) \/
       (exists a, query_result c s1 clock2 (Z.of_nat (e_pos e)) ob = QNoAnswer s' a /\ f = FNoAnswer a) \/
       (query_result c s1 clock2 (Z.of_nat (e_pos e)) ob = QYX s' /\ f = FYXDOMAIN) \/
       (exists k, query_result c s1 clock2 (Z.of_nat (e_pos e)) ob = QInt k /\ f = FInternal k /\ s' = s1) \/
       (exists s2, query_result c s1 clock2 (Z.of_nat (e_pos e)) ob = QNext s2 /\
          ( (exists a, next_request c s2 (s_qnames s2) clock2 = NAnswer s' a /\ f = FAnswer a) \/
            (exists a, next_request c s2 (s_qnames s2) clock2 = NNoAnswer s' a /\ f = FNoAnswer a) \/
            (next_request c s2 (s_qnames s2) clock2 = NNXDOMAIN s' /\ f = FNXDOMAIN (c_qnames c) (s_nx s')) )) )).
Proof.
  intros sc c start s e f s' e' H. unfold step in H.
  destruct (next_nameserver c s) as [s1 ns tcp backoff|s1|k] eqn:EN.
  - destruct (compute_timeout start (c_lifetime c) (c_timeout c) (e_clock e + backoff)) as [T|d] eqn:ET.
    + right. right. right. fold (question_of c s1) in H.
      destruct (observe (face (sc (e_pos e)) tcp) T (e_clock e + backoff) (question_of c s1)) as [ob clock2] eqn:EO.
      exists s1, ns, tcp, backoff, T, ob, clock2.
      destruct (query_result c s1 clock2 (Z.of_nat (e_pos e)) ob) as [s2|s2 a|s2|s2 a|s2|k] eqn:EQ; try discriminate.
      * inversion H; subst. repeat split; auto. left. eauto.
      * destruct (next_request c s2 (s_qnames s2) clock2) as [s3|s3 a|s3 a|s3] eqn:ENR; simpl in H; try discriminate;
          inversion H; subst; repeat split; auto; right; right; right; right; exists s2; split; auto.
        -- left. eauto.
        -- right. left. eauto.
      * inversion H; subst. repeat split; auto. right. left. eauto.
      * inversion H; subst. repeat split; auto.
      * inversion H; subst. repeat split; auto. right. right. right. left. eauto.
    + right. right. left. inversion H; subst. exists ns, tcp, backoff, d. auto.
  - right. left. inversion H; subst. auto.
  - left. inversion H; subst. eauto.
Qed.
