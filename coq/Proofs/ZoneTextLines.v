(* C09: reading a text line by line; the fields of a printed record line as blank-separated pieces. *)
From DV Require Import Base.Prelude Model.NameM Model.ZoneTextM Proofs.ZoneTextBase Proofs.ZoneTextLex.
Open Scope Z_scope.

(* ---------- read_loop, one line at a time ---------- *)
Definition line_reads (c : cfg) (s : rstate) (line : list Z) (s' : rstate) : Prop :=
  forall rest f, read_loop (S f) c s (line ++ 10 :: rest) = read_loop f c s' rest.

Inductive lines_read (c : cfg) : rstate -> list (list Z) -> rstate -> Prop :=
| lr_nil s : lines_read c s [] s
| lr_cons s l s1 ls s2 :
    line_reads c s l s1 -> lines_read c s1 ls s2 -> lines_read c s (l :: ls) s2.

Lemma lines_read_app c s a s1 b s2 :
  lines_read c s a s1 -> lines_read c s1 b s2 -> lines_read c s (a ++ b) s2.
Proof. induction 1; cbn [app]; intros; [assumption|]. econstructor; eauto. Qed.

Definition text_of (ls : list (list Z)) : list Z := concat (map (fun l => l ++ [10]) ls).

Lemma read_loop_lines c : forall ls s s',
  lines_read c s ls s' -> forall f, (length ls < f)%nat -> read_loop f c s (text_of ls) = Ok s'.
Proof.
  induction 1 as [s|s l s1 ls s2 Hl Hr IH]; intros f Hf.
  - destruct f as [|f]; [lia|]. unfold text_of. cbn [map concat read_loop lex starts_ws process_line eol_ok bind].
    reflexivity.
  - destruct f as [|f]; [cbn in Hf; lia|].
    unfold text_of. cbn [map concat]. rewrite <- app_assoc. cbn [app].
    rewrite Hl. apply IH. cbn in Hf. lia.
Qed.

Lemma length_text_of ls : (length ls <= length (text_of ls))%nat.
Proof.
  unfold text_of. induction ls as [|l ls IH]; cbn [map concat length]; [lia|].
  rewrite !app_length. cbn [length]. lia.
Qed.

Lemma starts_ws_any l r1 r2 : starts_ws (l ++ 10 :: r1) = starts_ws (l ++ 10 :: r2).
Proof. destruct l; reflexivity. Qed.

(* a line made of clean, separated pieces is read as its tokens *)
Lemma line_reads_pieces c s ps s' :
  sep_ok ps = true ->
  process_line c s (starts_ws (render ps ++ [10])) (toks_of ps) false = Ok s' ->
  line_reads c s (render ps) s'.
Proof.
  intros Hs Hp rest f. cbn [read_loop].
  rewrite (lex_render ps [] rest Hs). cbn [rev app].
  rewrite (starts_ws_any _ rest []), Hp. reflexivity.
Qed.

(* ---------- justified fields as pieces ---------- *)
Lemma repeat_snoc {A} (x : A) n : repeat x n ++ [x] = repeat x (S n).
Proof. induction n as [|n IH]; cbn; [reflexivity|]. rewrite IH. reflexivity. Qed.

(* justify(token + " ", a), or justify("", a) for an omitted field *)
Definition jpieces (t : option (list Z)) (a : Z) : list piece :=
  match t with
  | Some t =>
      if a =? 0 then [Tk (TId t); Sp 1]
      else if a <? 0 then [Tk (TId t); Sp (S (Z.to_nat (- a - zlen (t ++ [32]))))]
      else [Sp (Z.to_nat (a - zlen (t ++ [32]))); Tk (TId t); Sp 1]
  | None =>
      if a =? 0 then [] else if a <? 0 then [Sp (Z.to_nat (- a - 0))] else [Sp (Z.to_nat (a - 0))]
  end.

Lemma render_jpieces t a :
  render (jpieces t a) = justify (match t with Some t => t ++ [32] | None => [] end) a.
Proof.
  unfold jpieces, justify, spaces. destruct t as [t|].
  - destruct (a =? 0); [cbn [render repeat app render_tok]; rewrite ?app_nil_r; reflexivity|].
    destruct (a <? 0); cbn [render repeat app render_tok]; rewrite ?app_nil_r.
    + rewrite <- app_assoc. reflexivity.
    + reflexivity.
  - destruct (a =? 0); [reflexivity|]. unfold zlen. cbn [length Z.of_nat].
    destruct (a <? 0); cbn [render app]; rewrite ?app_nil_r; reflexivity.
Qed.

Lemma toks_jpieces t a : toks_of (jpieces t a) = match t with Some t => [TId t] | None => [] end.
Proof.
  unfold jpieces. destruct t as [t|]; destruct (a =? 0); try reflexivity; destruct (a <? 0); reflexivity.
Qed.

(* the last piece is not a token *)
Fixpoint ends_ok (ps : list piece) : bool :=
  match ps with
  | [] => true
  | [Tk _] => false
  | _ :: r => ends_ok r
  end.

Lemma sep_ok_app a b : sep_ok a = true -> ends_ok a = true -> sep_ok b = true -> sep_ok (a ++ b) = true.
Proof.
  induction a as [|p a IH]; intros Ha He Hb; [exact Hb|].
  destruct p as [n|t].
  - cbn [app sep_ok] in *. apply IH; assumption.
  - cbn [app sep_ok] in *.
    apply andb_true_iff in Ha as [Ha Hr]. apply andb_true_iff in Ha as [Hc Hn].
    destruct a as [|p' a']; [discriminate|].
    rewrite Hc. cbn [app]. destruct p' as [[|k]|t']; try discriminate. cbn [andb].
    apply IH; assumption.
Qed.

Lemma ends_ok_app a b : ends_ok b = true -> b <> [] -> ends_ok (a ++ b) = true.
Proof.
  intros Hb Hne. induction a as [|p a IH]; [exact Hb|].
  cbn [app]. assert (Hne' : a ++ b <> []) by (intro H; apply app_eq_nil in H; tauto).
  destruct (a ++ b) as [|q l] eqn:E; [congruence|]. destruct p; exact IH.
Qed.

Lemma jpieces_ok t a :
  (forall v, t = Some v -> id_clean v = true) ->
  sep_ok (jpieces t a) = true /\ ends_ok (jpieces t a) = true.
Proof.
  intros H. unfold jpieces. destruct t as [v|].
  - pose proof (H v eq_refl) as Hv.
    destruct (a =? 0); [cbn; rewrite Hv; split; reflexivity|].
    destruct (a <? 0); cbn; rewrite Hv; split; reflexivity.
  - destruct (a =? 0); [split; reflexivity|]. destruct (a <? 0); split; reflexivity.
Qed.

(* the type field and the blank that follows it: justify(type, a) + " " *)
Definition typieces (t : list Z) (a : Z) : list piece :=
  if a =? 0 then [Tk (TId t); Sp 1]
  else if a <? 0 then [Tk (TId t); Sp (S (Z.to_nat (- a - zlen t)))]
  else [Sp (Z.to_nat (a - zlen t)); Tk (TId t); Sp 1].

Lemma render_typieces t a rest : render (typieces t a) ++ rest = justify t a ++ 32 :: rest.
Proof.
  unfold typieces, justify, spaces.
  destruct (a =? 0); [cbn [render repeat app render_tok]; rewrite ?app_nil_r, <- ?app_assoc; reflexivity|].
  destruct (a <? 0); cbn [render app render_tok]; rewrite ?app_nil_r.
  - rewrite <- repeat_snoc, <- !app_assoc. reflexivity.
  - cbn [repeat]. rewrite <- !app_assoc. reflexivity.
Qed.

Lemma typieces_ok t a : id_clean t = true ->
  sep_ok (typieces t a) = true /\ ends_ok (typieces t a) = true /\ toks_of (typieces t a) = [TId t].
Proof.
  intros Hv. unfold typieces.
  destruct (a =? 0); [cbn; rewrite Hv; repeat split; reflexivity|].
  destruct (a <? 0); cbn; rewrite Hv; repeat split; reflexivity.
Qed.

(* rdata tokens joined by single blanks *)
Fixpoint interleave (ts : list tok) : list piece :=
  match ts with
  | [] => []
  | [t] => [Tk t]
  | t :: r => Tk t :: Sp 1 :: interleave r
  end.

Lemma render_interleave ts : render (interleave ts) = join_sp (map render_tok ts).
Proof.
  induction ts as [|t ts IH]; [reflexivity|].
  destruct ts as [|t' ts']; [cbn; rewrite app_nil_r; reflexivity|].
  cbn [interleave render map join_sp] in *. rewrite IH. reflexivity.
Qed.

Lemma toks_interleave ts : toks_of (interleave ts) = ts.
Proof.
  induction ts as [|t ts IH]; [reflexivity|].
  destruct ts as [|t' ts']; [reflexivity|]. cbn [interleave toks_of] in *. rewrite IH. reflexivity.
Qed.

Lemma sep_interleave ts : forallb tok_clean ts = true -> sep_ok (interleave ts) = true.
Proof.
  induction ts as [|t ts IH]; [reflexivity|].
  cbn [forallb]. intros H. apply andb_true_iff in H as [Ht Hr].
  destruct ts as [|t' ts']; [cbn; rewrite Ht; reflexivity|].
  cbn [interleave sep_ok] in *. rewrite Ht. cbn [andb]. apply IH. exact Hr.
Qed.
