(* C17 - the runs the harness observes (`hrun`, `hrun_g`: harness operations incl. "build an
   Answer now and put it") are the runs the theorems quantify over (`wrun`/`grun` on items):
   every harness operation is one or two items, with the same result, world and ghost. *)
From DV Require Import Base.Prelude Model.CacheM Model.CacheAnsM Model.CacheSpecM Proofs.CacheSpec.

Section Obs.
  Context {St : Type}.
  Variable step : call -> St -> clk -> res (ret * St * clk).
  Variable gupd : call -> St -> ret -> St -> lghost -> lghost.

  (* the items a harness operation stands for, from world w *)
  Definition items_of_hop (h : hop) (w : St * Z) : res (list item) :=
    match h with
    | HAdv d => Ok [Adv d]
    | HCall c ds => Ok [Call c ds]
    | HPutAns key mk ds =>
        let (t, k1) := tick (mkClk (snd w) ds) in
        do a <- mk t; Ok [Adv (t - snd w); Call (Put key a) (pend k1)]
    end.

  Lemma tick_mk : forall n ds, tick (mkClk n ds) =
    match ds with [] => (n, mkClk n []) | d :: q => (n + d, mkClk (n + d) q) end.
  Proof. intros n [|d q]; reflexivity. Qed.

  Lemma hstep_g_items : forall h w g r w' g',
    hstep_g step gupd h w g = Ok (r, w', g') ->
    exists its, items_of_hop h w = Ok its /\ grun step gupd its w g = Ok (g', w') /\
                hstep step h w = Ok (r, w').
  Proof.
    intros h [s n] g r w' g' H. destruct h as [c ds|key mk ds|d]; cbn [hstep_g hstep items_of_hop fst snd] in *.
    - destruct (step c s (mkClk n ds)) as [[[r0 s'] k']| |] eqn:E; cbn [bind] in *; try discriminate.
      inversion H; subst. eexists. split; [reflexivity|]. cbn [grun wstep fst snd]. rewrite E. cbn [bind snd fst gnext].
      auto.
    - rewrite tick_mk in *. destruct ds as [|d q].
      + destruct (mk n) as [a| |] eqn:Em; cbn [bind] in *; try discriminate.
        destruct (step (Put key a) s (mkClk n [])) as [[[r0 s'] k']| |] eqn:E; cbn [bind] in *; try discriminate.
        inversion H; subst. eexists. split; [reflexivity|].
        cbn [grun wstep fst snd bind gnext pend]. replace (n + (n - n)) with n by lia. rewrite E. cbn [bind snd fst gnext].
        auto.
      + destruct (mk (n + d)) as [a| |] eqn:Em; cbn [bind] in *; try discriminate.
        destruct (step (Put key a) s (mkClk (n + d) q)) as [[[r0 s'] k']| |] eqn:E; cbn [bind] in *; try discriminate.
        inversion H; subst. eexists. split; [reflexivity|].
        cbn [grun wstep fst snd bind gnext pend]. replace (n + (n + d - n)) with (n + d) by lia. rewrite E.
        cbn [bind snd fst gnext]. auto.
    - inversion H; subst. eexists. split; [reflexivity|]. cbn. auto.
  Qed.

  (* a monotone harness operation stands for monotone items *)
  Definition mono_hop (h : hop) : Prop :=
    match h with HAdv d => 0 <= d | HCall _ ds | HPutAns _ _ ds => nonneg ds end.

  Lemma items_of_hop_mono : forall h w its, mono_hop h -> items_of_hop h w = Ok its -> mono its.
  Proof.
    intros h [s n] its Hm H. destruct h as [c ds|key mk ds|d]; cbn [items_of_hop snd] in H.
    - inversion H; subst. apply Forall_cons; [exact Hm|apply Forall_nil].
    - rewrite tick_mk in H. destruct ds as [|d q].
      + destruct (mk n); cbn [bind] in H; try discriminate. inversion H; subst.
        apply Forall_cons; [cbn; lia|]. apply Forall_cons; [apply Forall_nil|apply Forall_nil].
      + destruct (mk (n + d)); cbn [bind] in H; try discriminate. inversion H; subst.
        cbn in Hm. apply Forall_cons_iff in Hm. destruct Hm as [Hd Hq].
        apply Forall_cons; [cbn; lia|]. apply Forall_cons; [exact Hq|apply Forall_nil].
    - inversion H; subst. apply Forall_cons; [exact Hm|apply Forall_nil].
  Qed.
End Obs.
