(* C20, layer E2: common-label counts, suffixes, relativity of stored names. *)
From DV Require Import Base.Prelude Model.NameM Model.BTZoneM
     Proofs.BTZoneOrder Proofs.BTZoneList Proofs.BTZoneSpec Proofs.BTZoneInv.
Open Scope Z_scope.

(* ---------- longest common prefix of two keys ---------- *)
Lemma lcp_nonneg : forall a b, 0 <= lcp a b.
Proof.
  induction a as [|x a IH]; intros [|y b]; cbn; try lia.
  destruct (cmp_bytes x y); try lia. specialize (IH b). lia.
Qed.

Lemma lcp_le_r : forall a b, lcp a b <= zlen b.
Proof.
  induction a as [|x a IH]; intros [|y b]; cbn [lcp]; try (pose proof (zlen_nonneg (y :: b)); lia);
    try (unfold zlen; cbn; lia).
  rewrite zlen_cons. pose proof (zlen_nonneg b). destruct (cmp_bytes x y); try lia. specialize (IH b). lia.
Qed.

Lemma lcp_firstn : forall a b, prefix (firstn (Z.to_nat (lcp a b)) b) a.
Proof.
  induction a as [|x a IH]; intros [|y b]; cbn [lcp]; try (exists []; reflexivity);
    try (cbn; eexists; reflexivity).
  destruct (cmp_bytes x y) eqn:E; try (cbn; eexists; reflexivity).
  apply cmp_bytes_eq in E. subst y. pose proof (lcp_nonneg a b).
  replace (Z.to_nat (1 + lcp a b)) with (Datatypes.S (Z.to_nat (lcp a b))) by lia. cbn [firstn].
  destruct (IH b) as [s Hs]. exists s. cbn. congruence.
Qed.

Lemma lcp_max : forall p a b, prefix p a -> prefix p b -> zlen p <= lcp a b.
Proof.
  induction p as [|x p IH]; intros a b [s1 H1] [s2 H2].
  - unfold zlen; cbn. apply lcp_nonneg.
  - subst a b. cbn [app lcp]. assert (cmp_bytes x x = Eq) by (apply cmp_bytes_eq; reflexivity). rewrite H.
    rewrite zlen_cons. specialize (IH (p ++ s1) (p ++ s2)).
    assert (zlen p <= lcp (p ++ s1) (p ++ s2)) by (apply IH; eexists; reflexivity). lia.
Qed.

Lemma firstn_prefix : forall (n : nat) (b : key), prefix (firstn n b) b.
Proof. intros. exists (skipn n b). symmetry. apply firstn_skipn. Qed.

Lemma kcmp_le_antisym : forall a b, kcmp a b <> Gt -> kcmp b a <> Gt -> a = b.
Proof.
  intros a b H1 H2. destruct (kcmp a b) eqn:E; try congruence.
  - apply kcmp_eq; auto.
  - exfalso. apply H2. apply kcmp_gt_lt. auto.
Qed.

(* ---------- relativity ---------- *)
Lemma below_split : forall n m, below (K n) (K m) <-> (is_absolute n = is_absolute m /\ prefix (lkey m) (lkey n)).
Proof.
  intros n m. unfold below, ekey. split.
  - intros [s H]. cbn in H. inversion H. split.
    + destruct (is_absolute n), (is_absolute m); auto; discriminate.
    + exists s. auto.
  - intros [E [s H]]. rewrite E. exists s. cbn. rewrite H. reflexivity.
Qed.

Lemma valid_abs : forall c n, is_absolute (c_origin c) = true -> validk c (K n) ->
                              is_absolute n = negb (c_rel c).
Proof.
  intros c n Ho Hv. unfold validk, apexkey in Hv. apply below_split in Hv as [E _]. rewrite E.
  unfold apexname. destruct (c_rel c); auto.
Qed.

(* ---------- suffixes ---------- *)
Lemma skipn_in_suffixes : forall (q : name) (k : nat), (k <= length q)%nat -> In (skipn k q) (suffixes q).
Proof.
  induction q as [|x q IH]; intros k Hk.
  - destruct k; cbn; auto.
  - destruct k as [|k]; [left; reflexivity|]. cbn [skipn suffixes]. right. apply IH. cbn in Hk. lia.
Qed.

Lemma suffixes_skipn : forall (q s : name), In s (suffixes q) -> exists k, (k <= length q)%nat /\ s = skipn k q.
Proof.
  induction q as [|x q IH]; intros s H.
  - destruct H as [<-|[]]. exists 0%nat. auto.
  - destruct H as [<-|H]; [exists 0%nat; split; [lia|reflexivity]|].
    destruct (IH s H) as (k & Hk & E). exists (Datatypes.S k). split; [cbn; lia|auto].
Qed.

Lemma is_absolute_skipn : forall (q : name) (k : nat), (k < length q)%nat -> is_absolute (skipn k q) = is_absolute q.
Proof.
  induction q as [|x q IH]; intros k Hk; [cbn in Hk; lia|].
  destruct k as [|k]; auto. cbn [skipn]. rewrite IH by (cbn in Hk; lia).
  destruct q; [cbn in Hk; lia|reflexivity].
Qed.

Lemma lkey_skipn : forall (q : name) (k : nat), (k <= length q)%nat ->
                                               lkey (skipn k q) = firstn (length q - k) (lkey q).
Proof.
  intros q k Hk. unfold lkey. rewrite firstn_rev. rewrite map_length.
  f_equal. rewrite <- skipn_map. f_equal. unfold label in *. lia.
Qed.

Lemma py_suffix_skipn : forall (q : name) n, 0 <= n <= zlen q ->
                                             py_suffix q n = skipn (length q - Z.to_nat n) q.
Proof.
  intros q n Hn. unfold py_suffix. unfold zlen in *.
  destruct (0 <=? Z.of_nat (length q) - n) eqn:E; [|apply Z.leb_gt in E; lia].
  f_equal. lia.
Qed.

Lemma is_absolute_nonempty : forall n, is_absolute n = true -> (1 <= length n)%nat.
Proof. intros [|x n] H; cbn in *; [discriminate|lia]. Qed.

(* ---------- the validated origin ---------- *)
Lemma mk_name_nil : mk_name [] = Ok [].
Proof. reflexivity. Qed.

Lemma validate_origin : forall c, is_absolute (c_origin c) = true ->
    exists o, validate_name c (c_origin c) = Ok o /\ zlen o = if c_rel c then 0 else zlen (c_origin c).
Proof.
  intros c Ho. unfold validate_name. rewrite Ho.
  assert (Hs : is_subdomain (c_origin c) (c_origin c) = true) by (apply is_subdomain_below, below_refl).
  rewrite Hs. cbn [negb]. destruct (c_rel c).
  - unfold relativize. rewrite Hs. unfold drop_last. rewrite Nat.sub_diag. cbn [firstn].
    exists []. split; auto.
  - eexists. split; reflexivity.
Qed.
