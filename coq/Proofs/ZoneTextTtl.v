(* C09: TTLs with BIND units ("1w2d3h4m5s") read as the sum of their parts. *)
From DV Require Import Base.Prelude Model.NameM Model.ZoneTextM Proofs.ZoneTextBase.
Open Scope Z_scope.

Definition unit_mult (u : Z) : option Z :=
  let c := lower u in
  if c =? 119 then Some 604800 else if c =? 100 then Some 86400 else if c =? 104 then Some 3600
  else if c =? 109 then Some 60 else if c =? 115 then Some 1 else None.

Fixpoint units_text (l : list (Z * Z)) : list Z :=
  match l with
  | [] => []
  | (n, u) :: r => dec n ++ u :: units_text r
  end.

Fixpoint units_value (l : list (Z * Z)) : Z :=
  match l with
  | [] => 0
  | (n, u) :: r => n * (match unit_mult u with Some m => m | None => 0 end) + units_value r
  end.

Lemma ttl_loop_digits : forall ds rest total cur need,
  all_digits ds = true ->
  ttl_loop (ds ++ rest) total cur need =
  ttl_loop rest total (fold_left (fun a c => a * 10 + (c - 48)) ds cur)
           (match ds with [] => need | _ => false end).
Proof.
  induction ds as [|d ds IH]; intros rest total cur need H; [reflexivity|].
  unfold all_digits in H. cbn [forallb] in H. apply andb_true_iff in H as [Hd Hr].
  cbn [app ttl_loop fold_left]. rewrite Hd. rewrite (IH rest total _ false Hr).
  destruct ds; reflexivity.
Qed.

Lemma unit_not_digit u m : unit_mult u = Some m -> is_digit u = false.
Proof.
  unfold unit_mult, is_digit, lower. intros H.
  destruct (48 <=? u) eqn:E1; [|reflexivity]. destruct (u <=? 57) eqn:E2; [|reflexivity].
  apply Z.leb_le in E1, E2. exfalso.
  replace ((65 <=? u) && (u <=? 90)) with false in H
    by (symmetry; apply andb_false_iff; left; apply Z.leb_gt; lia).
  repeat match type of H with context [u =? ?k] => replace (u =? k) with false in H by (symmetry; apply Z.eqb_neq; lia) end.
  discriminate.
Qed.

Lemma ttl_loop_unit u m r total cur :
  unit_mult u = Some m ->
  ttl_loop (u :: r) total cur false = ttl_loop r (total + cur * m) 0 true.
Proof.
  intros H. cbn [ttl_loop]. rewrite (unit_not_digit u m H).
  unfold unit_mult in H. cbv zeta in H.
  destruct (lower u =? 119); [inversion H; reflexivity|].
  destruct (lower u =? 100); [inversion H; reflexivity|].
  destruct (lower u =? 104); [inversion H; reflexivity|].
  destruct (lower u =? 109); [inversion H; reflexivity|].
  destruct (lower u =? 115); [inversion H; subst; rewrite Z.mul_1_r; reflexivity|discriminate].
Qed.

Definition units_ok (l : list (Z * Z)) : Prop :=
  Forall (fun e => 0 <= fst e /\ unit_mult (snd e) <> None) l.

Lemma ttl_loop_units : forall l rest total,
  units_ok l ->
  ttl_loop (units_text l ++ rest) total 0 true = ttl_loop rest (total + units_value l) 0 true.
Proof.
  induction l as [|[n u] l IH]; intros rest total H.
  - cbn. rewrite Z.add_0_r. reflexivity.
  - inversion H as [|? ? [Hn Hu] Hl]; subst. cbn [fst snd] in *.
    destruct (unit_mult u) as [m|] eqn:Em; [|congruence].
    destruct (dec_spec n Hn) as (Ha & Hi & Hne).
    cbn [units_text units_value]. rewrite Em. rewrite <- app_assoc. cbn [app].
    rewrite (ttl_loop_digits (dec n) _ total 0 true Ha).
    destruct (dec n) as [|d0 ds] eqn:Ed; [congruence|].
    change (fold_left (fun a c => a * 10 + (c - 48)) (d0 :: ds) 0) with (int_of_digits (d0 :: ds)).
    rewrite Hi, (ttl_loop_unit u m _ total n Em), (IH rest _ Hl).
    f_equal. lia.
Qed.

Lemma units_not_all_digits l : l <> [] -> units_ok l -> all_digits (units_text l) = false.
Proof.
  destruct l as [|[n u] l]; [congruence|]. intros _ H. inversion H as [|? ? [_ Hu] _]; subst. cbn [snd] in Hu.
  destruct (unit_mult u) as [m|] eqn:Em; [|congruence].
  cbn [units_text]. rewrite all_digits_app. apply andb_false_iff. right.
  unfold all_digits. cbn [forallb]. rewrite (unit_not_digit u m Em). reflexivity.
Qed.

(* "1w2d3h4m5s"-style texts (any letter case) read as the sum *)
Theorem ttl_units_text_proof l :
  l <> [] -> units_ok l -> 0 <= units_value l <= MAX_TTL ->
  ttl_from_text (units_text l) = Ok (units_value l).
Proof.
  intros Hne Hok Hr. unfold ttl_from_text.
  rewrite (units_not_all_digits l Hne Hok).
  assert (Htext : units_text l <> []).
  { destruct l as [|[n u] l]; [congruence|]. cbn. intro H. apply app_eq_nil in H. destruct H; discriminate. }
  destruct (units_text l) as [|c0 t0] eqn:Et; [congruence|]. rewrite <- Et.
  pose proof (ttl_loop_units l [] 0 Hok) as H. rewrite app_nil_r in H. rewrite H. cbn [ttl_loop Z.eqb negb bind].
  rewrite Z.add_0_l.
  replace (units_value l <? 0) with false by (symmetry; apply Z.ltb_ge; lia).
  replace (units_value l >? MAX_TTL) with false by (symmetry; rewrite Z.gtb_ltb; apply Z.ltb_ge; lia).
  reflexivity.
Qed.
