(* C19 - refinement of the store-level model by the value-level model: a store subtree that is
   tree-shaped (no node reachable twice) represents a value-level tree; every store operation
   maps such a representation of t to a representation of (value operation t). *)
From DV Require Import Base.Prelude Model.BTreeM Model.BTreeStoreM Proofs.BTreeBase Proofs.BTreeWf Proofs.BTreeInsert
  Proofs.BTreeDelete Proofs.BTreeStore.

(* rep s id tr fp : the nodes fp (all distinct) of store s form, below id, exactly the tree tr *)
Inductive rep (s : store) : nat -> tree -> list nat -> Prop :=
| rep_node id n kids fps :
    nth_error s id = Some n ->
    (s_leaf n = true -> s_kids n = []) ->          (* leaves have no children *)
    reps s (s_kids n) kids fps ->
    NoDup (id :: concat fps) ->
    rep s id (Node (s_leaf n) (s_elts n) kids) (id :: concat fps)
with reps (s : store) : list nat -> list tree -> list (list nat) -> Prop :=
| reps_nil : reps s [] [] []
| reps_cons k ks tr trs fp fps :
    rep s k tr fp -> reps s ks trs fps -> reps s (k :: ks) (tr :: trs) (fp :: fps).

Scheme rep_mind := Induction for rep Sort Prop
  with reps_mind := Induction for reps Sort Prop.

Lemma rep_inv s id lf es kids fp :
  rep s id (Node lf es kids) fp ->
  exists n fps, nth_error s id = Some n /\ s_leaf n = lf /\ s_elts n = es /\
                reps s (s_kids n) kids fps /\ fp = id :: concat fps /\ NoDup fp /\
                (lf = true -> s_kids n = [] /\ kids = []).
Proof.
  intros H. inversion H as [? n ? fps Hn Hlk Hr Hnd]; subst. exists n, fps.
  split; [assumption|]. split; [reflexivity|]. split; [reflexivity|]. split; [assumption|].
  split; [reflexivity|]. split; [assumption|]. intros Hlf. split; [auto|].
  rewrite (Hlk Hlf) in Hr. inversion Hr. reflexivity.
Qed.

Lemma reps_length s ids trs fps : reps s ids trs fps -> length ids = length trs /\ length fps = length trs.
Proof. induction 1; cbn; [auto|]. destruct IHreps. lia. Qed.

Lemma reps_app s i1 i2 t1 t2 f1 f2 :
  reps s i1 t1 f1 -> reps s i2 t2 f2 -> reps s (i1 ++ i2) (t1 ++ t2) (f1 ++ f2).
Proof. induction 1; cbn; [auto|]. intros. constructor; auto. Qed.

Lemma reps_split s ids t1 t2 fps :
  reps s ids (t1 ++ t2) fps ->
  exists i1 i2 f1 f2, ids = i1 ++ i2 /\ fps = f1 ++ f2 /\ reps s i1 t1 f1 /\ reps s i2 t2 f2 /\
                      length i1 = length t1 /\ length f1 = length t1.
Proof.
  revert ids fps. induction t1 as [|a t1 IH]; intros ids fps H; cbn in *.
  - exists [], ids, [], fps. repeat split; auto. constructor.
  - inversion H; subst. destruct (IH _ _ H5) as (i1 & i2 & f1 & f2 & -> & -> & H1 & H2 & L1 & L2).
    exists (k :: i1), i2, (fp :: f1), f2. repeat split; cbn; auto; try lia. constructor; auto.
Qed.

Lemma reps_mid s ids ka c kb fps :
  reps s ids (ka ++ c :: kb) fps ->
  exists ia cid ib fa fc fb, ids = ia ++ cid :: ib /\ fps = fa ++ fc :: fb /\
    reps s ia ka fa /\ rep s cid c fc /\ reps s ib kb fb /\ length ia = length ka /\ length fa = length ka.
Proof.
  intros H. destruct (reps_split _ _ _ _ _ H) as (i1 & i2 & f1 & f2 & -> & -> & H1 & H2 & L1 & L2).
  inversion H2 as [|k ks tr trs fp fps' Hk Hks]; subst. exists i1, k, ks, f1, fp, fps'. repeat split; auto.
Qed.

Lemma reps_cons_inv s ids tr trs fps :
  reps s ids (tr :: trs) fps -> exists k ks fp fps', ids = k :: ks /\ fps = fp :: fps' /\ rep s k tr fp /\ reps s ks trs fps'.
Proof. intros H. inversion H; subst. eauto 10. Qed.

Lemma reps_nil_inv s ids fps : reps s ids [] fps -> ids = [] /\ fps = [].
Proof. intros H. inversion H; auto. Qed.

(* footprints contain valid ids only *)
Lemma rep_valid s : forall id tr fp, rep s id tr fp -> forall x, In x fp -> (x < length s)%nat.
Proof.
  apply (rep_mind s (fun id tr fp _ => forall x, In x fp -> (x < length s)%nat)
                    (fun ids trs fps _ => forall x, In x (concat fps) -> (x < length s)%nat)).
  - intros id n kids fps Hn Hlk Hr IH Hnd x [<-|Hx]; [apply nth_error_Some; congruence|auto].
  - intros x [].
  - intros k ks tr trs fp fps Hr IH Hrs IHs x Hx. cbn in Hx. apply in_app_iff in Hx as [Hx|Hx]; auto.
Qed.

Lemma rep_root_in s id tr fp : rep s id tr fp -> In id fp.
Proof. intros H; inversion H; subst. now left. Qed.

Lemma rep_nodup s id tr fp : rep s id tr fp -> NoDup fp.
Proof. intros H; inversion H; subst. assumption. Qed.

(* frame: a store that agrees on the footprint represents the same tree *)
Lemma rep_frame s s' : forall id tr fp, rep s id tr fp ->
  (forall x, In x fp -> nth_error s' x = nth_error s x) -> rep s' id tr fp.
Proof.
  apply (rep_mind s (fun id tr fp _ => (forall x, In x fp -> nth_error s' x = nth_error s x) -> rep s' id tr fp)
                    (fun ids trs fps _ => (forall x, In x (concat fps) -> nth_error s' x = nth_error s x) -> reps s' ids trs fps)).
  - intros id n kids fps Hn Hlk Hr IH Hnd Hag. constructor; [rewrite Hag; [assumption|now left]|assumption| |assumption].
    apply IH. intros x Hx. apply Hag. now right.
  - constructor.
  - intros k ks tr trs fp fps Hr IH Hrs IHs Hag. constructor.
    + apply IH. intros x Hx. apply Hag. cbn. apply in_app_iff. now left.
    + apply IHs. intros x Hx. apply Hag. cbn. apply in_app_iff. now right.
Qed.

Lemma reps_frame s s' ids trs fps : reps s ids trs fps ->
  (forall x, In x (concat fps) -> nth_error s' x = nth_error s x) -> reps s' ids trs fps.
Proof.
  induction 1; intros Hag; constructor.
  - eapply rep_frame; eauto. intros x Hx. apply Hag. cbn. apply in_app_iff. now left.
  - apply IHreps. intros x Hx. apply Hag. cbn. apply in_app_iff. now right.
Qed.

(* abs agrees with rep *)
Lemma rep_abs s : forall id tr fp, rep s id tr fp -> exists fuel, forall f, (fuel <= f)%nat -> abs f s id = Some tr.
Proof.
  apply (rep_mind s (fun id tr fp _ => exists fuel, forall f, (fuel <= f)%nat -> abs f s id = Some tr)
           (fun ids trs fps _ => exists fuel, forall f, (fuel <= f)%nat ->
              (fix go (ks : list nat) : option (list tree) :=
                 match ks with
                 | [] => Some []
                 | k :: r => match abs f s k, go r with Some k', Some r' => Some (k' :: r') | _, _ => None end
                 end) ids = Some trs)).
  - intros id n kids fps Hn Hlk Hr (fu & IH) Hnd. exists (S fu). intros f Hf. destruct f as [|f]; [lia|].
    cbn [abs]. rewrite Hn. rewrite IH by lia. reflexivity.
  - exists 0%nat. reflexivity.
  - intros k ks tr trs fp fps Hr (f1 & IH1) Hrs (f2 & IH2). exists (Nat.max f1 f2). intros f Hf.
    rewrite IH1, IH2 by lia. reflexivity.
Qed.

(* ---------------------------------------------------------------- frames with footprints *)

Definition ownc (c : nat) (s : store) (id : nat) : Prop := exists n, nth_error s id = Some n /\ s_cr n = c.

(* s' differs from s only inside fp and by new nodes; creator tags are permanent *)
Definition fr (s s' : store) (fp : list nat) : Prop :=
  (length s <= length s')%nat /\
  (forall x, (x < length s)%nat -> ~ In x fp -> nth_error s' x = nth_error s x) /\
  (forall x n, nth_error s x = Some n -> exists n', nth_error s' x = Some n' /\ s_cr n' = s_cr n).

(* every id of fp' is in fp or newer than s *)
Definition sub (s : store) (fp fp' : list nat) : Prop := forall x, In x fp' -> In x fp \/ (length s <= x)%nat.

Lemma fr_refl s fp : fr s s fp.
Proof. split; [lia|]. split; eauto. Qed.

Lemma sub_refl s fp : sub s fp fp.
Proof. intros x; auto. Qed.

Lemma fr_trans s s1 s2 fp fp1 : fr s s1 fp -> sub s fp fp1 -> fr s1 s2 fp1 -> fr s s2 fp.
Proof.
  intros (L1 & F1 & C1) Hsub (L2 & F2 & C2). split; [lia|]. split.
  - intros x Hx Hn. rewrite F2; [apply F1; assumption|lia|]. intros Hin. destruct (Hsub x Hin); [contradiction|lia].
  - intros x n Hn. destruct (C1 x n Hn) as (n1 & Hn1 & Hc1). destruct (C2 x n1 Hn1) as (n2 & Hn2 & Hc2).
    exists n2. split; [assumption|congruence].
Qed.

Lemma sub_trans s s1 fp fp1 fp2 : (length s <= length s1)%nat -> sub s fp fp1 -> sub s1 fp1 fp2 -> sub s fp fp2.
Proof. intros L H1 H2 x Hx. destruct (H2 x Hx) as [H|H]; [apply H1; assumption|right; lia]. Qed.

Lemma fr_weaken s s' fp fp' : fr s s' fp -> incl fp fp' -> fr s s' fp'.
Proof. intros (L & F & C) Hi. split; [assumption|]. split; [|assumption]. intros x Hx Hn. apply F; auto. Qed.

Lemma ownc_fr c s s' fp id : fr s s' fp -> ownc c s id -> ownc c s' id.
Proof. intros (_ & _ & C) (n & Hn & Hc). destruct (C id n Hn) as (n' & Hn' & Hc'). exists n'. split; [assumption|congruence]. Qed.

(* a sub-representation survives when the changed part is disjoint from it *)
Lemma rep_fr s s' id tr fp wfp :
  rep s id tr fp -> fr s s' wfp -> (forall x, In x fp -> ~ In x wfp) -> rep s' id tr fp.
Proof.
  intros Hr (L & F & C) Hd. eapply rep_frame; [exact Hr|]. intros x Hx. apply F; [eapply rep_valid; eauto|auto].
Qed.

Lemma reps_fr s s' ids trs fps wfp :
  reps s ids trs fps -> fr s s' wfp -> (forall x, In x (concat fps) -> ~ In x wfp) -> reps s' ids trs fps.
Proof.
  induction 1; intros Hf Hd; constructor.
  - eapply rep_fr; eauto. intros x Hx. apply Hd. cbn. apply in_app_iff. now left.
  - apply IHreps; auto. intros x Hx. apply Hd. cbn. apply in_app_iff. now right.
Qed.

Lemma reps_valid s ids trs fps : reps s ids trs fps -> forall x, In x (concat fps) -> (x < length s)%nat.
Proof.
  induction 1; intros x Hx; [destruct Hx|]. cbn in Hx. apply in_app_iff in Hx as [Hx|Hx]; [eapply rep_valid; eauto|auto].
Qed.

(* one write *)
Lemma upd_spec s id f s' :
  upd s id f = Ok s' ->
  exists n, nth_error s id = Some n /\ nth_error s' id = Some (f n) /\ length s' = length s /\
            forall x, x <> id -> nth_error s' x = nth_error s x.
Proof.
  unfold upd, sget. destruct (nth_error s id) as [n|] eqn:E; [|discriminate]. cbn [bind]. intros H; inversion H; subst s'.
  exists n. split; [reflexivity|]. unfold sset.
  assert (id < length s)%nat by (apply nth_error_Some; congruence).
  split; [now apply nth_set_nth_eq|]. split; [apply length_set_nth|]. intros x Hx. apply nth_set_nth_ne. intros Heq. apply Hx. now symmetry.
Qed.

Lemma sset_fr s id n n' : nth_error s id = Some n -> s_cr n' = s_cr n -> fr s (sset s id n') [id].
Proof.
  intros Hn Hc. assert (id < length s)%nat by (apply nth_error_Some; congruence). unfold sset.
  split; [rewrite length_set_nth; lia|]. split.
  - intros x Hx Hni. apply nth_set_nth_ne. intros ->. apply Hni. now left.
  - intros x m Hm. destruct (Nat.eq_dec id x) as [<-|Hne].
    + rewrite nth_set_nth_eq by assumption. exists n'. split; [reflexivity|congruence].
    + rewrite nth_set_nth_ne by assumption. eauto.
Qed.

Lemma upd_fr s id f s' : upd s id f = Ok s' -> (forall n, s_cr (f n) = s_cr n) -> fr s s' [id].
Proof.
  unfold upd, sget. destruct (nth_error s id) as [n|] eqn:E; [|discriminate]. cbn [bind]. intros H Hc; inversion H; subst s'.
  eapply sset_fr; eauto.
Qed.

Lemma alloc_fr s n : fr s (s ++ [n]) [].
Proof.
  split; [rewrite app_length; lia|]. split.
  - intros x Hx _. now rewrite nth_error_app1.
  - intros x m Hm. exists m. split; [|reflexivity]. rewrite nth_error_app1; [assumption|]. apply nth_error_Some. congruence.
Qed.

Lemma nth_alloc s (n : snode) : nth_error (s ++ [n]) (length s) = Some n.
Proof. rewrite nth_error_app2, Nat.sub_diag by lia. reflexivity. Qed.

(* NoDup helpers *)
Lemma NoDup_app_iff {A} (a b : list A) : NoDup (a ++ b) <-> NoDup a /\ NoDup b /\ (forall x, In x a -> ~ In x b).
Proof.
  induction a as [|x a IH]; cbn.
  - split; [intros H; repeat split; auto; constructor|tauto].
  - split.
    + intros H. inversion H as [|? ? Hn Hnd]; subst. apply IH in Hnd as (Ha & Hb & Hd). repeat split.
      * constructor; [|assumption]. intros Hi. apply Hn. apply in_app_iff. now left.
      * assumption.
      * intros y [<-|Hy]; [intros Hi; apply Hn; apply in_app_iff; now right|auto].
    + intros (Ha & Hb & Hd). inversion Ha as [|? ? Hn Hnd]; subst. constructor.
      * intros Hi. apply in_app_iff in Hi as [Hi|Hi]; [contradiction|]. apply (Hd x); [now left|assumption].
      * apply IH. repeat split; auto.
Qed.

Lemma NoDup_cons_iff' {A} (x : A) l : NoDup (x :: l) <-> ~ In x l /\ NoDup l.
Proof. split; [intros H; inversion H; auto|intros (H1 & H2); now constructor]. Qed.

Lemma concat_mid {A} (a : list (list A)) x b : concat (a ++ x :: b) = concat a ++ x ++ concat b.
Proof. rewrite concat_app. reflexivity. Qed.

Lemma nd2 (pid lid rid : nat) (A L R B : list nat) :
  NoDup (pid :: A ++ (lid :: L) ++ (rid :: R) ++ B) ->
  NoDup (L ++ R) /\
  (forall x, In x A \/ In x L \/ In x R \/ In x B -> x <> pid /\ x <> lid /\ x <> rid) /\
  NoDup (lid :: L) /\ NoDup (rid :: R) /\ (pid <> lid /\ pid <> rid /\ lid <> rid).
Proof.
  intros H. apply NoDup_cons_iff' in H as (Hp & H). apply NoDup_app_iff in H as (HA & H & HdA).
  change ((lid :: L) ++ (rid :: R) ++ B) with (lid :: (L ++ (rid :: R) ++ B)) in H, HdA, Hp.
  apply NoDup_cons_iff' in H as (Hl & H). apply NoDup_app_iff in H as (HL & H & HdL).
  change ((rid :: R) ++ B) with (rid :: (R ++ B)) in H, HdL, Hl, Hp, HdA.
  apply NoDup_cons_iff' in H as (Hr & H). apply NoDup_app_iff in H as (HR & HB & HdR).
  split; [|split; [|split; [|split]]].
  5:{ repeat split; intros Heq.
      - apply Hp. rewrite in_app_iff. right. left. exact (eq_sym Heq).
      - apply Hp. rewrite in_app_iff. right. right. rewrite in_app_iff. right. left. exact (eq_sym Heq).
      - apply Hl. rewrite in_app_iff. right. left. exact (eq_sym Heq). }
  - apply NoDup_app_iff. split; [assumption|]. split; [assumption|]. intros x Hx Hx'. apply (HdL x Hx). right. apply in_app_iff. now left.
  - intros x Hx. repeat split; intros ->.
    + apply Hp. rewrite !in_app_iff. cbn [In]. rewrite !in_app_iff. cbn [In]. rewrite in_app_iff. tauto.
    + destruct Hx as [Hx|[Hx|[Hx|Hx]]].
      * apply (HdA lid Hx). now left.
      * apply Hl. rewrite in_app_iff. tauto.
      * apply Hl. rewrite in_app_iff. cbn [In]. rewrite in_app_iff. tauto.
      * apply Hl. rewrite in_app_iff. cbn [In]. rewrite in_app_iff. tauto.
    + destruct Hx as [Hx|[Hx|[Hx|Hx]]].
      * apply (HdA rid Hx). right. rewrite in_app_iff. cbn [In]. tauto.
      * apply (HdL rid Hx). now left.
      * apply Hr. rewrite in_app_iff. tauto.
      * apply Hr. rewrite in_app_iff. tauto.
  - apply NoDup_cons_iff'. split; [|assumption]. intros Hi. apply Hl. apply in_app_iff. now left.
  - apply NoDup_cons_iff'. split; [|assumption]. intros Hi. apply Hr. apply in_app_iff. now left.
Qed.

Lemma in_fp2 (x pid lid rid : nat) fa L R fb :
  In x (pid :: concat (fa ++ (lid :: L) :: (rid :: R) :: fb)) <->
  pid = x \/ In x (concat fa) \/ lid = x \/ In x L \/ rid = x \/ In x R \/ In x (concat fb).
Proof.
  rewrite concat_mid. cbn [concat]. cbn [In]. rewrite in_app_iff. change ((lid :: L) ++ (rid :: R) ++ concat fb) with (lid :: (L ++ rid :: (R ++ concat fb))).
  cbn [In]. rewrite in_app_iff. cbn [In]. rewrite in_app_iff. tauto.
Qed.

Lemma len_fp2 (pid lid rid : nat) fa L R fb :
  length (pid :: concat (fa ++ (lid :: L) :: (rid :: R) :: fb)) =
  S (length (concat fa) + S (length L) + S (length R) + length (concat fb)).
Proof.
  rewrite concat_mid. cbn [concat]. change ((lid :: L) ++ (rid :: R) ++ concat fb) with (lid :: (L ++ rid :: (R ++ concat fb))).
  cbn [length]. rewrite app_length. cbn [length]. rewrite app_length. cbn [length]. rewrite app_length. lia.
Qed.

Lemma nd_merge (pid lid rid : nat) (A L R B L' : list nat) :
  NoDup (pid :: A ++ (lid :: L) ++ (rid :: R) ++ B) -> NoDup L' -> incl L' (L ++ R) ->
  NoDup (pid :: A ++ (lid :: L') ++ B).
Proof.
  intros H HL' Hi. apply NoDup_cons_iff' in H as (Hp & H). apply NoDup_app_iff in H as (HA & H & HdA).
  change ((lid :: L) ++ (rid :: R) ++ B) with (lid :: (L ++ (rid :: R) ++ B)) in H, HdA, Hp.
  apply NoDup_cons_iff' in H as (Hl & H). apply NoDup_app_iff in H as (HL & H & HdL).
  change ((rid :: R) ++ B) with (rid :: (R ++ B)) in H, HdL, Hl, Hp, HdA.
  apply NoDup_cons_iff' in H as (Hr & H). apply NoDup_app_iff in H as (HR & HB & HdR).
  assert (Hin : forall x, In x L' -> In x L \/ In x R) by (intros x Hx; apply in_app_iff; apply Hi; exact Hx).
  apply NoDup_cons_iff'. split.
  - intros Hx. apply Hp. rewrite in_app_iff in *. cbn [In app] in *. rewrite in_app_iff in Hx. rewrite !in_app_iff. cbn [In]. rewrite in_app_iff.
    destruct Hx as [Hx|[Hx|[Hx|Hx]]]; try tauto. destruct (Hin _ Hx); tauto.
  - apply NoDup_app_iff. split; [assumption|]. split.
    + change ((lid :: L') ++ B) with (lid :: (L' ++ B)). apply NoDup_cons_iff'. split.
      * intros Hx. apply Hl. rewrite in_app_iff in *. cbn [In]. rewrite in_app_iff. destruct Hx as [Hx|Hx]; [destruct (Hin _ Hx)|]; tauto.
      * apply NoDup_app_iff. split; [assumption|]. split; [assumption|]. intros x Hx Hb. destruct (Hin _ Hx) as [Hx'|Hx'].
        -- apply (HdL x Hx'). right. apply in_app_iff. now right.
        -- apply (HdR x Hx' Hb).
    + intros x Hx Hx2. change ((lid :: L') ++ B) with (lid :: (L' ++ B)) in Hx2. cbn [In] in Hx2. rewrite in_app_iff in Hx2.
      apply (HdA x Hx). cbn [In]. rewrite in_app_iff. cbn [In]. rewrite in_app_iff.
      destruct Hx2 as [Hx2|[Hx2|Hx2]]; try tauto. destruct (Hin _ Hx2); tauto.
Qed.

Section SIM.
Variable c : nat.   (* creator of the mutating tree *)
Notation own := (ownc c).

(* ---------------------------------------------------------------- maybe_cow *)

Lemma cow_sim s id tr fp s' id' :
  rep s id tr fp ->
  s_maybe_cow s id c = Ok (s', id') ->
  exists fp', rep s' id' tr fp' /\ own s' id' /\ fr s s' [] /\ sub s fp fp'.
Proof.
  intros Hr H. destruct tr as [lf es kids]. apply rep_inv in Hr as (n & fps & Hn & Hl & He & Hk & -> & Hnd & Hlk).
  unfold s_maybe_cow, sget in H. rewrite Hn in H. cbn [bind] in H.
  destruct (Nat.eqb_spec (s_cr n) c) as [Hc|Hc].
  - inversion H; subst s' id'. exists (id :: concat fps). split; [|split; [exists n; auto|split; [apply fr_refl|apply sub_refl]]].
    subst lf es. constructor; auto. intros Hlf. now destruct (Hlk Hlf).
  - unfold alloc in H. inversion H; subst s' id'. clear H.
    set (n' := mkS c (s_leaf n) (s_elts n) (if s_leaf n then [] else s_kids n)).
    assert (Hfr : fr s (s ++ [n']) []) by apply alloc_fr.
    exists (length s :: concat fps). split; [|split; [|split]].
    + subst lf es. change (s_leaf n) with (s_leaf n'). change (s_elts n) with (s_elts n').
      constructor; [apply nth_alloc| | |].
      * cbn [s_kids s_leaf n']. intros ->. reflexivity.
      * cbn [s_kids n']. destruct (s_leaf n) eqn:El.
        -- destruct (Hlk eq_refl) as (Hk0 & ->). rewrite Hk0 in Hk. inversion Hk; subst. constructor.
        -- eapply reps_fr; [exact Hk|exact Hfr|]. auto.
      * apply NoDup_cons_iff'. apply NoDup_cons_iff' in Hnd as (_ & Hnd). split; [|assumption].
        intros Hi. pose proof (reps_valid _ _ _ _ Hk _ Hi). lia.
    + exists n'. split; [apply nth_alloc|reflexivity].
    + assumption.
    + intros x [<-|Hx]; [right; lia|left; now right].
Qed.

(* the state of a parent whose child i has been made ready for writing *)
Lemma cow_child_sim s pid lf es ka ck kb fp i s' cid :
  rep s pid (Node lf es (ka ++ ck :: kb)) fp -> length ka = i -> own s pid ->
  s_maybe_cow_child s pid i = Ok (s', cid) ->
  exists n ia ib fa fc fb,
    nth_error s' pid = Some n /\ s_cr n = c /\ s_leaf n = lf /\ s_elts n = es /\ s_kids n = ia ++ cid :: ib /\
    reps s' ia ka fa /\ rep s' cid ck fc /\ reps s' ib kb fb /\ length ia = i /\
    NoDup (pid :: concat (fa ++ fc :: fb)) /\ own s' cid /\
    fr s s' [pid] /\ sub s fp (pid :: concat (fa ++ fc :: fb)) /\
    (forall j k, j <> i -> (exists m, nth_error s pid = Some m /\ nth_error (s_kids m) j = Some k) ->
                 nth_error (ia ++ cid :: ib) j = Some k).
Proof.
  intros Hr Hi (p0 & Hp0 & Hc0) H.
  apply rep_inv in Hr as (p & fps & Hp & Hl & He & Hk & -> & Hnd & _). assert (p0 = p) by congruence. subst p0.
  apply reps_mid in Hk as (ia & cid0 & ib & fa & fc & fb & Hids & -> & Hra & Hrc & Hrb & Lia & Lfa).
  unfold s_maybe_cow_child, sget in H. rewrite Hp in H. cbn [bind] in H.
  destruct (s_leaf p) eqn:Elf.
  { discriminate. }
  rewrite Hids in H. rewrite split_at_app in H by congruence. cbn [bind] in H.
  destruct (s_maybe_cow s cid0 (s_cr p)) as [(s1 & cid')| |] eqn:Ecow; cbn [bind] in H; try discriminate.
  rewrite Hc0 in Ecow.
  destruct (cow_sim _ _ _ _ _ _ Hrc Ecow) as (fc' & Hrc' & Hoc & Hfr1 & Hsub1).
  assert (Hnd' : NoDup (pid :: concat (fa ++ fc' :: fb))).
  { rewrite concat_mid in *. apply NoDup_cons_iff' in Hnd as (Hpn & Hnd). apply NoDup_cons_iff'.
    apply NoDup_app_iff in Hnd as (Hna & Hncb & Hd1). apply NoDup_app_iff in Hncb as (Hnc & Hnb & Hd2).
    assert (Hnew : forall x, In x fc' -> In x fc \/ (length s <= x)%nat) by exact Hsub1.
    assert (Hva : forall x, In x (concat fa) -> (x < length s)%nat) by (eapply reps_valid; eauto).
    assert (Hvb : forall x, In x (concat fb) -> (x < length s)%nat) by (eapply reps_valid; eauto).
    assert (Hvp : (pid < length s)%nat) by (apply nth_error_Some; congruence).
    split.
    - intros Hi'. apply in_app_iff in Hi' as [Hi'|Hi']; [apply Hpn; apply in_app_iff; now left|].
      apply in_app_iff in Hi' as [Hi'|Hi']; [|apply Hpn; rewrite !in_app_iff; auto].
      destruct (Hnew _ Hi'); [apply Hpn; rewrite !in_app_iff; auto|lia].
    - apply NoDup_app_iff. split; [assumption|]. split.
      + apply NoDup_app_iff. split; [eapply rep_nodup; eauto|]. split; [assumption|].
        intros x Hx Hxb. destruct (Hnew _ Hx) as [Hx'|Hx']; [apply (Hd2 x Hx' Hxb)|specialize (Hvb _ Hxb); lia].
      + intros x Hx Hx2. apply in_app_iff in Hx2 as [Hx2|Hx2].
        * destruct (Hnew _ Hx2) as [Hx'|Hx']; [apply (Hd1 x Hx); apply in_app_iff; now left|specialize (Hva _ Hx); lia].
        * apply (Hd1 x Hx). apply in_app_iff. now right. }
  assert (Hsubp : sub s (pid :: concat (fa ++ fc :: fb)) (pid :: concat (fa ++ fc' :: fb))).
  { intros x [<-|Hx]; [left; now left|]. rewrite concat_mid in *. rewrite !in_app_iff in Hx.
    destruct Hx as [Hx|[Hx|Hx]]; [left; right; rewrite !in_app_iff; auto| |left; right; rewrite !in_app_iff; auto].
    destruct (Hsub1 _ Hx); [left; right; rewrite !in_app_iff; auto|now right]. }
  assert (Hda : forall x, In x (concat fa) -> ~ In x []) by auto.
  destruct (Nat.eqb_spec cid' cid0) as [Heq|Hne].
  - inversion H; subst s' cid. subst cid'.
    destruct Hfr1 as (L1 & F1 & C1). destruct (C1 pid p Hp) as (p1 & Hp1 & Hcp1).
    assert (p1 = p).
    { assert (Hx : nth_error s1 pid = nth_error s pid) by (apply F1; [apply nth_error_Some; congruence|auto]). congruence. }
    subst p1. exists p, ia, ib, fa, fc', fb. repeat split; try assumption; try congruence.
    + eapply reps_fr; [exact Hra|split; [exact L1|split; [exact F1|exact C1]]|auto].
    + eapply reps_fr; [exact Hrb|split; [exact L1|split; [exact F1|exact C1]]|auto].
    + eapply fr_weaken; [split; [exact L1|split; [exact F1|exact C1]]|]. intros x [].
    + intros j k Hj (m & Hm & Hk). assert (m = p) by congruence. subst m. rewrite Hids in Hk. exact Hk.
  - destruct (upd s1 pid (fun p1 => w_kids p1 (ia ++ cid' :: ib))) as [s2| |] eqn:Eu; cbn [bind] in H; try discriminate.
    inversion H; subst s' cid. clear H.
    destruct (upd_spec _ _ _ _ Eu) as (p1 & Hp1 & Hp2 & Hlen & Hoth).
    assert (Hfr2 : fr s1 s2 [pid]) by (eapply upd_fr; [exact Eu|reflexivity]).
    assert (Hp1' : p1 = p).
    { destruct Hfr1 as (L1 & F1 & C1). assert (Hx : nth_error s1 pid = nth_error s pid) by (apply F1; [apply nth_error_Some; congruence|auto]). congruence. }
    subst p1.
    assert (Hpne : forall x, In x (concat (fa ++ fc' :: fb)) -> x <> pid).
    { intros x Hx ->. apply NoDup_cons_iff' in Hnd' as (Hn' & _). contradiction. }
    assert (Hfrall : fr s s2 [pid]).
    { eapply fr_trans; [eapply fr_weaken; [exact Hfr1|intros x []]|apply sub_refl|exact Hfr2]. }
    pose proof Hfrall as (Q1 & Q2 & Q3).
    exists (w_kids p (ia ++ cid' :: ib)), ia, ib, fa, fc', fb. cbn [w_kids s_cr s_leaf s_elts s_kids].
    repeat split; try assumption; try congruence.
    + eapply reps_fr; [eapply reps_fr; [exact Hra|exact Hfr1|auto]|exact Hfr2|].
      intros x Hx [<-|[]]. apply (Hpne pid); [rewrite concat_mid, !in_app_iff; auto|reflexivity].
    + eapply rep_fr; [exact Hrc'|exact Hfr2|]. intros x Hx [<-|[]]. apply (Hpne pid); [rewrite concat_mid, !in_app_iff; auto|reflexivity].
    + eapply reps_fr; [eapply reps_fr; [exact Hrb|exact Hfr1|auto]|exact Hfr2|].
      intros x Hx [<-|[]]. apply (Hpne pid); [rewrite concat_mid, !in_app_iff; auto|reflexivity].
    + eapply (ownc_fr c s1 s2 [pid]); [exact Hfr2|exact Hoc].
    + intros j k Hj (m & Hm & Hk). assert (m = p) by congruence. subst m. rewrite Hids in Hk.
      destruct (Nat.lt_ge_cases j (length ia)).
      * rewrite nth_error_app1 in * by assumption. exact Hk.
      * rewrite nth_error_app2 in * by assumption. destruct (j - length ia)%nat eqn:Ej; [lia|]. exact Hk.
Qed.

Lemma cow_child_ok s pid lf es ka ck kb fp i :
  rep s pid (Node lf es (ka ++ ck :: kb)) fp -> length ka = i ->
  exists s' cid, s_maybe_cow_child s pid i = Ok (s', cid).
Proof.
  intros Hr Hi. apply rep_inv in Hr as (p & fps & Hp & Hl & He & Hk & -> & Hnd & Hlk).
  apply reps_mid in Hk as (ia & cid0 & ib & fa & fc & fb & Hids & -> & Hra & Hrc & Hrb & Lia & Lfa).
  unfold s_maybe_cow_child. unfold sget at 1. rewrite Hp. cbn [bind].
  destruct (s_leaf p) eqn:El.
  { subst lf. destruct (Hlk eq_refl) as (_ & Hx). destruct ka; discriminate. }
  rewrite Hids, split_at_app by congruence. cbn [bind].
  destruct ck as [clf ces cks]. apply rep_inv in Hrc as (cn & cfps & Hcn & _).
  unfold s_maybe_cow, sget. rewrite Hcn. cbn [bind].
  destruct (s_cr cn =? s_cr p)%nat.
  - cbn [bind]. rewrite Nat.eqb_refl. eauto.
  - unfold alloc. cbn [bind].
    assert (Hlt : (cid0 < length s)%nat) by (apply nth_error_Some; congruence).
    destruct (Nat.eqb_spec (length s) cid0); [lia|].
    unfold upd, sget. rewrite nth_error_app1 by (apply nth_error_Some; congruence). rewrite Hp. cbn [bind]. eauto.
Qed.

(* ---------------------------------------------------------------- tools *)

Definition kid_at (s : store) (pid i k : nat) : Prop :=
  exists n, nth_error s pid = Some n /\ nth_error (s_kids n) i = Some k.

(* writing the root node of a representation; the children stay *)
Lemma rep_write_root s id lf es kids fp n n' :
  rep s id (Node lf es kids) fp -> nth_error s id = Some n ->
  s_kids n' = s_kids n -> s_leaf n' = s_leaf n ->
  rep (sset s id n') id (Node lf (s_elts n') kids) fp.
Proof.
  intros Hr Hn Hk Hl. apply rep_inv in Hr as (n0 & fps & Hn0 & Hl0 & He0 & Hks & -> & Hnd & Hlk).
  assert (n0 = n) by congruence. subst n0. rewrite <- Hl0, <- Hl.
  assert (Hlt : (id < length s)%nat) by (apply nth_error_Some; congruence).
  constructor.
  - unfold sset. now apply nth_set_nth_eq.
  - rewrite Hl, Hk. intros Hlf. rewrite Hl0 in Hlf. now destruct (Hlk Hlf).
  - rewrite Hk. eapply reps_frame; [exact Hks|]. intros x Hx. unfold sset. apply nth_set_nth_ne.
    intros ->. apply NoDup_cons_iff' in Hnd as (Hni & _). contradiction.
  - assumption.
Qed.

Lemma nodup_replace (s : store) pid fa fc fc' fb :
  NoDup (pid :: concat (fa ++ fc :: fb)) -> NoDup fc' ->
  (forall x, In x fc' -> In x fc \/ (length s <= x)%nat) ->
  (forall x, In x (pid :: concat (fa ++ fc :: fb)) -> (x < length s)%nat) ->
  NoDup (pid :: concat (fa ++ fc' :: fb)).
Proof.
  intros Hnd Hnc Hnew Hval. rewrite concat_mid in *.
  apply NoDup_cons_iff' in Hnd as (Hpn & Hnd). apply NoDup_cons_iff'.
  apply NoDup_app_iff in Hnd as (Hna & Hncb & Hd1). apply NoDup_app_iff in Hncb as (Hncc & Hnb & Hd2).
  assert (Hvp : (pid < length s)%nat) by (apply Hval; now left).
  assert (Hva : forall x, In x (concat fa) -> (x < length s)%nat) by (intros x Hx; apply Hval; right; rewrite !in_app_iff; auto).
  assert (Hvb : forall x, In x (concat fb) -> (x < length s)%nat) by (intros x Hx; apply Hval; right; rewrite !in_app_iff; auto).
  split.
  - intros Hi'. apply in_app_iff in Hi' as [Hi'|Hi']; [apply Hpn; apply in_app_iff; now left|].
    apply in_app_iff in Hi' as [Hi'|Hi']; [|apply Hpn; rewrite !in_app_iff; auto].
    destruct (Hnew _ Hi'); [apply Hpn; rewrite !in_app_iff; auto|lia].
  - apply NoDup_app_iff. split; [assumption|]. split.
    + apply NoDup_app_iff. split; [assumption|]. split; [assumption|].
      intros x Hx Hxb. destruct (Hnew _ Hx) as [Hx'|Hx']; [apply (Hd2 x Hx' Hxb)|specialize (Hvb _ Hxb); lia].
    + intros x Hx Hx2. apply in_app_iff in Hx2 as [Hx2|Hx2].
      * destruct (Hnew _ Hx2) as [Hx'|Hx']; [apply (Hd1 x Hx); apply in_app_iff; now left|specialize (Hva _ Hx); lia].
      * apply (Hd1 x Hx). apply in_app_iff. now right.
Qed.

(* a parent opened at one child *)
Definition opened (s : store) (pid : nat) (es : list elt) (ia : list nat) (cid : nat) (ib : list nat)
    (ka : list tree) (ck : tree) (kb : list tree) (fa : list (list nat)) (fc : list nat) (fb : list (list nat)) : Prop :=
  exists n, nth_error s pid = Some n /\ s_cr n = c /\ s_leaf n = false /\ s_elts n = es /\ s_kids n = ia ++ cid :: ib /\
  reps s ia ka fa /\ rep s cid ck fc /\ reps s ib kb fb /\ length ia = length ka /\
  NoDup (pid :: concat (fa ++ fc :: fb)).

Lemma opened_close s pid es ia cid ib ka ck kb fa fc fb :
  opened s pid es ia cid ib ka ck kb fa fc fb ->
  rep s pid (Node false es (ka ++ ck :: kb)) (pid :: concat (fa ++ fc :: fb)) /\ own s pid.
Proof.
  intros (n & Hn & Hc & Hl & He & Hk & Ha & Hck & Hb & Hlen & Hnd). split; [|exists n; auto].
  rewrite <- Hl, <- He. constructor; [assumption|rewrite Hl; discriminate| |assumption].
  rewrite Hk. apply reps_app; [assumption|]. now constructor.
Qed.

Lemma opened_valid s pid es ia cid ib ka ck kb fa fc fb :
  opened s pid es ia cid ib ka ck kb fa fc fb ->
  forall x, In x (pid :: concat (fa ++ fc :: fb)) -> (x < length s)%nat.
Proof. intros H. destruct (opened_close _ _ _ _ _ _ _ _ _ _ _ _ H) as (Hr & _). eapply rep_valid; eauto. Qed.

(* something happened inside the child's subtree only *)
Lemma child_step s1 s2 pid es ia cid ib ka ck kb fa fc fb ck' fc' :
  opened s1 pid es ia cid ib ka ck kb fa fc fb ->
  rep s2 cid ck' fc' -> fr s1 s2 fc -> sub s1 fc fc' ->
  opened s2 pid es ia cid ib ka ck' kb fa fc' fb /\
  sub s1 (pid :: concat (fa ++ fc :: fb)) (pid :: concat (fa ++ fc' :: fb)).
Proof.
  intros Hop Hr' Hfr Hsub. pose proof (opened_valid _ _ _ _ _ _ _ _ _ _ _ _ Hop) as Hval.
  destruct Hop as (n & Hn & Hc & Hl & He & Hk & Ha & Hck & Hb & Hlen & Hnd).
  pose proof Hnd as Hnd0. rewrite concat_mid in Hnd0. apply NoDup_cons_iff' in Hnd0 as (Hpn & Hnd0).
  apply NoDup_app_iff in Hnd0 as (Hna & Hncb & Hd1). apply NoDup_app_iff in Hncb as (Hncc & Hnb & Hd2).
  split.
  - exists n. split.
    { destruct Hfr as (_ & F & _). rewrite F; [assumption|apply Hval; now left|]. intros Hi. apply Hpn. rewrite !in_app_iff. auto. }
    split; [assumption|]. split; [assumption|]. split; [assumption|]. split; [assumption|].
    split. { eapply reps_fr; [exact Ha|exact Hfr|]. intros x Hx Hx'. apply (Hd1 x Hx). apply in_app_iff. now left. }
    split; [assumption|].
    split. { eapply reps_fr; [exact Hb|exact Hfr|]. intros x Hx Hx'. apply (Hd2 x Hx' Hx). }
    split; [assumption|].
    eapply nodup_replace; eauto. eapply rep_nodup; eauto.
  - intros x [<-|Hx]; [left; now left|]. rewrite concat_mid in *. rewrite !in_app_iff in Hx.
    destruct Hx as [Hx|[Hx|Hx]]; [left; right; rewrite !in_app_iff; auto| |left; right; rewrite !in_app_iff; auto].
    destruct (Hsub _ Hx); [left; right; rewrite !in_app_iff; auto|now right].
Qed.

Lemma rep_open s pid lf es ka ck kb fp :
  rep s pid (Node lf es (ka ++ ck :: kb)) fp -> own s pid ->
  exists ia cid ib fa fc fb, opened s pid es ia cid ib ka ck kb fa fc fb /\ fp = pid :: concat (fa ++ fc :: fb) /\ lf = false.
Proof.
  intros Hr (p0 & Hp0 & Hc0).
  apply rep_inv in Hr as (p & fps & Hp & Hl & He & Hk & -> & Hnd & Hlk). assert (p0 = p) by congruence. subst p0.
  apply reps_mid in Hk as (ia & cid & ib & fa & fc & fb & Hids & -> & Hra & Hrc & Hrb & Lia & Lfa).
  assert (lf = false).
  { destruct lf; [|reflexivity]. destruct (Hlk eq_refl) as (_ & Hx). destruct ka; discriminate. }
  subst lf. exists ia, cid, ib, fa, fc, fb. split; [|auto]. exists p. auto 12.
Qed.

(* ---------------------------------------------------------------- steal from the right sibling *)

Lemma is_minimal_eq t n : is_minimal t n = is_minimal_l t (length (n_elts n)).
Proof. reflexivity. Qed.
Lemma is_maximal_eq t n : is_maximal t n = is_maximal_l t (length (n_elts n)).
Proof. reflexivity. Qed.

Lemma rep_root s id lf es kids fp : rep s id (Node lf es kids) fp ->
  exists n, nth_error s id = Some n /\ s_leaf n = lf /\ s_elts n = es.
Proof. intros H. apply rep_inv in H as (n & fps & ? & ? & ? & _). eauto. Qed.

Lemma sget_some s id n : nth_error s id = Some n -> sget s id = Ok n.
Proof. unfold sget. now intros ->. Qed.

Lemma upd_some s id f n : nth_error s id = Some n -> upd s id f = Ok (sset s id (f n)).
Proof. intros H. unfold upd. now rewrite (sget_some _ _ _ H). Qed.

Lemma nth_sset_eq s id n : (id < length s)%nat -> nth_error (sset s id n) id = Some n.
Proof. apply nth_set_nth_eq. Qed.
Lemma nth_sset_ne s id x n : x <> id -> nth_error (sset s id n) x = nth_error s x.
Proof. intros H. apply nth_set_nth_ne. congruence. Qed.
Lemma length_sset s id n : length (sset s id n) = length s.
Proof. apply length_set_nth. Qed.

Lemma sset_fr' s id n n' : nth_error s id = Some n -> s_cr n' = s_cr n -> fr s (sset s id n') [id].
Proof. apply sset_fr. Qed.

(* the footprint bookkeeping of a rearrangement: same ids, no more of them *)
Lemma nodup_perm {A} (old new : list A) : NoDup old -> (length new <= length old)%nat -> incl old new -> NoDup new.
Proof. intros. eapply NoDup_incl_NoDup; eauto. Qed.


(* ---------------------------------------------------------------- local surgery on a parent and two adjacent children *)

(* the new store: three cells rewritten, everything else as before *)
Definition cells3 (s s' : store) (a : nat) (A : snode) (b : nat) (B : snode) (d : nat) (D : snode) : Prop :=
  length s' = length s /\ nth_error s' a = Some A /\ nth_error s' b = Some B /\ nth_error s' d = Some D /\
  forall x, x <> a -> x <> b -> x <> d -> nth_error s' x = nth_error s x.

Lemma cells3_fr s s' a A b B d D A0 B0 D0 :
  cells3 s s' a A b B d D ->
  nth_error s a = Some A0 -> nth_error s b = Some B0 -> nth_error s d = Some D0 ->
  s_cr A = s_cr A0 -> s_cr B = s_cr B0 -> s_cr D = s_cr D0 ->
  fr s s' [a; b; d].
Proof.
  intros (L & Ha & Hb & Hd & Ho) Ha0 Hb0 Hd0 Ca Cb Cd. split; [lia|]. split.
  - intros x Hx Hni. apply Ho; intros ->; apply Hni; cbn; auto.
  - intros x m Hm. destruct (Nat.eq_dec x a) as [->|H1]; [exists A; split; [assumption|congruence]|].
    destruct (Nat.eq_dec x b) as [->|H2]; [exists B; split; [assumption|congruence]|].
    destruct (Nat.eq_dec x d) as [->|H3]; [exists D; split; [assumption|congruence]|].
    exists m. split; [rewrite Ho; auto|reflexivity].
Qed.

(* parent pid with adjacent children lid, rid, all three nodes rewritten; the grandchildren
   subtrees (represented in the OLD store) are redistributed between lid and rid *)
Lemma surgery2 s s' pid P P' lid Ln L' rid Rn R' ia ib ka kb fa fb
      lks fl rks fr lks' fl' rks' fr' :
  nth_error s pid = Some P -> nth_error s lid = Some Ln -> nth_error s rid = Some Rn ->
  s_kids P = ia ++ lid :: rid :: ib ->
  reps s ia ka fa -> reps s ib kb fb ->
  reps s (s_kids Ln) lks fl -> reps s (s_kids Rn) rks fr ->
  NoDup (pid :: concat (fa ++ (lid :: concat fl) :: (rid :: concat fr) :: fb)) ->
  cells3 s s' pid P' lid L' rid R' ->
  s_kids P' = s_kids P -> s_leaf P' = false ->
  reps s (s_kids L') lks' fl' -> reps s (s_kids R') rks' fr' ->
  (s_leaf L' = true -> s_kids L' = []) -> (s_leaf R' = true -> s_kids R' = []) ->
  incl (concat fl ++ concat fr) (concat fl' ++ concat fr') ->
  (length (concat fl' ++ concat fr') <= length (concat fl ++ concat fr))%nat ->
  rep s' pid (Node false (s_elts P')
                (ka ++ Node (s_leaf L') (s_elts L') lks' :: Node (s_leaf R') (s_elts R') rks' :: kb))
      (pid :: concat (fa ++ (lid :: concat fl') :: (rid :: concat fr') :: fb)) /\
  (forall x, In x (pid :: concat (fa ++ (lid :: concat fl') :: (rid :: concat fr') :: fb)) ->
             In x (pid :: concat (fa ++ (lid :: concat fl) :: (rid :: concat fr) :: fb))).
Proof.
  intros HP HL HR HkP Hra Hrb Hrl Hrr Hnd Hcells HkP' HlP' Hrl' Hrr' HlkL HlkR Hincl Hlen.
  pose proof Hcells as (Hlen' & HP' & HL' & HR' & Hoth).
  (* the new footprint is a rearrangement of the old one *)
  assert (Hflat : NoDup (pid :: concat fa ++ (lid :: concat fl) ++ (rid :: concat fr) ++ concat fb)).
  { rewrite concat_mid in Hnd. cbn [concat] in Hnd. exact Hnd. }
  destruct (nd2 _ _ _ _ _ _ _ Hflat) as (Hndm & Hin_old & _ & _ & _).
  assert (Hback : forall x, In x (concat fl' ++ concat fr') -> In x (concat fl ++ concat fr)).
  { intros x Hx. apply (NoDup_length_incl Hndm Hlen Hincl). exact Hx. }
  assert (Hnew_in : forall x, In x (pid :: concat (fa ++ (lid :: concat fl') :: (rid :: concat fr') :: fb)) ->
             In x (pid :: concat (fa ++ (lid :: concat fl) :: (rid :: concat fr) :: fb))).
  { intros x Hx. apply in_fp2. apply in_fp2 in Hx.
    destruct Hx as [Hx|[Hx|[Hx|[Hx|[Hx|[Hx|Hx]]]]]]; try tauto.
    - assert (Hq : In x (concat fl ++ concat fr)) by (apply Hback; apply in_app_iff; now left). apply in_app_iff in Hq. tauto.
    - assert (Hq : In x (concat fl ++ concat fr)) by (apply Hback; apply in_app_iff; now right). apply in_app_iff in Hq. tauto. }
  assert (Hnd' : NoDup (pid :: concat (fa ++ (lid :: concat fl') :: (rid :: concat fr') :: fb))).
  { eapply nodup_perm; [exact Hnd| |].
    - rewrite !len_fp2. rewrite !app_length in Hlen. lia.
    - intros x Hx. apply in_fp2. apply in_fp2 in Hx.
      destruct Hx as [Hx|[Hx|[Hx|[Hx|[Hx|[Hx|Hx]]]]]]; try tauto.
      + assert (Hq : In x (concat fl' ++ concat fr')) by (apply Hincl; apply in_app_iff; now left). apply in_app_iff in Hq. tauto.
      + assert (Hq : In x (concat fl' ++ concat fr')) by (apply Hincl; apply in_app_iff; now right). apply in_app_iff in Hq. tauto. }
  split; [|exact Hnew_in].
  assert (Hfrm : forall ids trs fps, reps s ids trs fps ->
            (forall x, In x (concat fps) -> x <> pid /\ x <> lid /\ x <> rid) -> reps s' ids trs fps).
  { intros ids trs fps Hr Hd. eapply reps_frame; [exact Hr|]. intros x Hx. destruct (Hd x Hx) as (H1 & H2 & H3). now apply Hoth. }
  rewrite <- HlP'. constructor; [assumption|rewrite HlP'; discriminate| |exact Hnd'].
  rewrite HkP', HkP. apply reps_app.
  { apply (Hfrm _ _ _ Hra). intros x Hx. apply Hin_old. tauto. }
  assert (Hsubl : forall x, In x (concat fl') -> x <> pid /\ x <> lid /\ x <> rid).
  { intros x Hx. apply Hin_old. assert (Hq : In x (concat fl ++ concat fr)) by (apply Hback; apply in_app_iff; now left). apply in_app_iff in Hq. tauto. }
  assert (Hsubr : forall x, In x (concat fr') -> x <> pid /\ x <> lid /\ x <> rid).
  { intros x Hx. apply Hin_old. assert (Hq : In x (concat fl ++ concat fr)) by (apply Hback; apply in_app_iff; now right). apply in_app_iff in Hq. tauto. }
  assert (Hflat' : NoDup (pid :: concat fa ++ (lid :: concat fl') ++ (rid :: concat fr') ++ concat fb)).
  { rewrite concat_mid in Hnd'. cbn [concat] in Hnd'. exact Hnd'. }
  destruct (nd2 _ _ _ _ _ _ _ Hflat') as (_ & _ & HndL & HndR & _).
  constructor; [|constructor].
  - constructor; [assumption|assumption| |assumption]. apply (Hfrm _ _ _ Hrl'). exact Hsubl.
  - constructor; [assumption|assumption| |assumption]. apply (Hfrm _ _ _ Hrr'). exact Hsubr.
  - apply (Hfrm _ _ _ Hrb). intros x Hx. apply Hin_old. tauto.
Qed.

Lemma right_steal_sim t s pid p fp selfid index p' b :
  rep s pid p fp -> own s pid -> own s selfid -> kid_at s pid index selfid ->
  try_right_steal t p index = Ok (p', b) ->
  exists s' fp', s_try_right_steal t s selfid pid index = Ok (s', b) /\
     rep s' pid p' fp' /\ sub s fp fp' /\ fr s s' fp /\ own s' pid /\ own s' selfid /\
     kid_at s' pid index selfid.
Proof.
  intros Hr Hop Hos Hkid Hv. destruct p as [plf pes pks]. unfold try_right_steal in Hv.
  destruct (split_at index pks) as [((ka & self) & rest)| |] eqn:Esp; cbn [bind] in Hv; try discriminate.
  apply split_at_inv in Esp as (-> & Hka).
  destruct (rep_open _ _ _ _ _ _ _ _ Hr Hop) as (ia & sid & ib & fa & fs & fb & Hopen & -> & ->).
  pose proof Hopen as (n & Hn & Hcn & Hln & Hen & Hkn & Hra & Hrs & Hrb & Hlia & Hnd).
  assert (sid = selfid).
  { destruct Hkid as (n0 & Hn0 & Hk0). assert (n0 = n) by congruence. subst n0.
    rewrite Hkn in Hk0. rewrite <- Hka, <- Hlia, nth_error_app_mid in Hk0. congruence. }
  subst sid.
  assert (Hidx : S index = length (ia ++ [selfid])) by (rewrite app_length; cbn; lia).
  unfold s_try_right_steal. rewrite (sget_some _ _ _ Hn). cbn [bind]. rewrite Hkn, Hidx.
  destruct rest as [|rgt kb].
  { apply reps_nil_inv in Hrb as (-> & ->). inversion Hv; subst p' b.
    assert (Hnone : nth_error (ia ++ [selfid]) (length (ia ++ [selfid])) = None) by (apply nth_error_None; lia).
    rewrite Hnone.
    exists s, (pid :: concat (fa ++ [fs])). split; [reflexivity|].
    destruct (opened_close _ _ _ _ _ _ _ _ _ _ _ _ Hopen) as (Hrc & _).
    split; [assumption|]. split; [apply sub_refl|]. split; [apply fr_refl|]. auto. }
  apply reps_cons_inv in Hrb as (rid0 & ib' & fr0 & fb' & -> & -> & Hrr0 & Hrb').
  replace (ia ++ selfid :: rid0 :: ib') with ((ia ++ [selfid]) ++ rid0 :: ib') by (now rewrite <- app_assoc).
  rewrite nth_error_app_mid.
  destruct rgt as [rlf res_ rks]. destruct self as [slf ses sks].
  destruct (rep_root _ _ _ _ _ _ Hrr0) as (r0 & Hr0 & Hlr0 & Her0).
  rewrite (sget_some _ _ _ Hr0). cbn [bind]. rewrite Her0.
  rewrite is_minimal_eq in Hv. cbn [n_elts] in Hv.
  destruct (is_minimal_l t (length res_)) as [mn| |] eqn:Emn; cbn [bind] in Hv |- *; try discriminate.
  destruct mn.
  { inversion Hv; subst p' b.
    exists s, (pid :: concat (fa ++ fs :: fr0 :: fb')). split; [reflexivity|].
    destruct (opened_close _ _ _ _ _ _ _ _ _ _ _ _ Hopen) as (Hrc & _).
    split; [assumption|]. split; [apply sub_refl|]. split; [apply fr_refl|]. auto. }
  destruct (split_at index pes) as [((ea & pe) & eb)| |] eqn:Ees; cbn [bind] in Hv; try discriminate.
  destruct res_ as [|re res']; [discriminate|].
  (* copy-on-write of the right sibling *)
  assert (Hr2 : rep s pid (Node false pes ((ka ++ [Node slf ses sks]) ++ Node rlf (re :: res') rks :: kb)) (pid :: concat (fa ++ fs :: fr0 :: fb'))).
  { rewrite <- app_assoc. exact Hr. }
  assert (Hl2 : length (ka ++ [Node slf ses sks]) = length (ia ++ [selfid])) by (rewrite !app_length; cbn; lia).
  destruct (cow_child_ok _ _ _ _ _ _ _ _ _ Hr2 Hl2) as (s1 & rid & Ecow). rewrite Ecow. cbn [bind].
  destruct (cow_child_sim _ _ _ _ _ _ _ _ _ _ _ Hr2 Hl2 Hop Ecow)
    as (n1 & ia1 & ib1 & fa1 & fr & fb1 & Hn1 & Hcn1 & Hln1 & Hen1 & Hkn1 & Hra1 & Hrr & Hrb1 & Hlia1 & Hnd1 & Hor & Hfr1 & Hsub1 & Hoth).
  rewrite (sget_some _ _ _ Hn1). cbn [bind]. rewrite Hen1, Ees. cbn [bind].
  (* the left part still ends with selfid *)
  apply reps_split in Hra1 as (ia2 & isf & fa2 & fsf & -> & -> & Hra2 & Hrsf & Lia2 & Lfa2).
  apply reps_cons_inv in Hrsf as (sid2 & isf' & fs1 & fsf' & -> & -> & Hrs1 & Hnil). apply reps_nil_inv in Hnil as (-> & ->).
  assert (Hia2 : length ia2 = index) by (rewrite !app_length in Hlia1; cbn in Hlia1; lia).
  assert (sid2 = selfid).
  { assert (Hk : nth_error ((ia2 ++ [sid2]) ++ rid :: ib1) index = Some selfid).
    { apply Hoth; [rewrite app_length; cbn; lia|]. exists n. split; [assumption|].
      rewrite Hkn. rewrite <- Hka, <- Hlia. apply nth_error_app_mid. }
    rewrite <- app_assoc in Hk. cbn [app] in Hk. rewrite <- Hia2 in Hk. rewrite nth_error_app_mid in Hk. congruence. }
  subst sid2.
  apply rep_inv in Hrr as (r & frk & Hrn & Hlr & Her & Hrks & -> & Hndr & Hlkr).
  apply rep_inv in Hrs1 as (sn & fsk & Hsn & Hlsn & Hesn & Hsks & -> & Hnds & Hlks).
  rewrite <- app_assoc in Hnd1, Hsub1, Hkn1. cbn [app] in Hnd1, Hsub1, Hkn1.
  assert (Hflat1 : NoDup (pid :: concat fa2 ++ (selfid :: concat fsk) ++ (rid :: concat frk) ++ concat fb1)).
  { rewrite concat_mid in Hnd1. cbn [concat] in Hnd1. exact Hnd1. }
  destruct (nd2 _ _ _ _ _ _ _ Hflat1) as (_ & _ & _ & _ & (Hps & Hpr & Hsr)).
  assert (Hrs' : rid <> selfid) by congruence.
  rewrite (sget_some _ _ _ Hrn). cbn [bind]. rewrite Her.
  assert (Hvp : (pid < length s1)%nat) by (apply nth_error_Some; congruence).
  assert (Hvr : (rid < length s1)%nat) by (apply nth_error_Some; congruence).
  assert (Hvs : (selfid < length s1)%nat) by (apply nth_error_Some; congruence).
  (* the three element writes *)
  rewrite (upd_some _ _ _ _ Hrn). cbn [bind].
  set (s2 := sset s1 rid (w_elts r res')).
  assert (Hn1_2 : nth_error s2 pid = Some n1) by (unfold s2; rewrite nth_sset_ne; auto).
  rewrite (upd_some _ _ _ _ Hn1_2). cbn [bind].
  set (s3 := sset s2 pid (w_elts n1 (ea ++ re :: eb))).
  assert (Hsn_3 : nth_error s3 selfid = Some sn).
  { unfold s3, s2. rewrite !nth_sset_ne; auto. }
  rewrite (upd_some _ _ _ _ Hsn_3). cbn [bind].
  set (s4 := sset s3 selfid (w_elts sn (s_elts sn ++ [pe]))).
  assert (Hr_4 : nth_error s4 rid = Some (w_elts r res')).
  { unfold s4, s3. rewrite !nth_sset_ne by auto. unfold s2. apply nth_sset_eq. assumption. }
  rewrite (sget_some _ _ _ Hr_4). cbn [bind w_elts s_leaf]. rewrite Hlr.
  assert (Hp_4 : nth_error s4 pid = Some (w_elts n1 (ea ++ re :: eb))).
  { unfold s4. rewrite nth_sset_ne by auto. unfold s3. apply nth_sset_eq. unfold s2. rewrite length_sset. assumption. }
  assert (Hs_4 : nth_error s4 selfid = Some (w_elts sn (s_elts sn ++ [pe]))).
  { unfold s4. apply nth_sset_eq. unfold s3, s2. rewrite !length_sset. assumption. }
  assert (Hoth4 : forall x, x <> rid -> x <> pid -> x <> selfid -> nth_error s4 x = nth_error s1 x).
  { intros x H1 H2 H3. unfold s4, s3, s2. rewrite !nth_sset_ne; auto. }
  assert (Hlen4 : length s4 = length s1) by (unfold s4, s3, s2; rewrite !length_sset; reflexivity).
  assert (Hown4s0 : s_cr sn = c).
  { destruct Hos as (m & Hm & Hcm). destruct Hfr1 as (_ & _ & C1). destruct (C1 _ _ Hm) as (m' & Hm' & Hcm'). congruence. }
  assert (Hcr : s_cr r = c) by (destruct Hor as (m & Hm & Hcm); congruence).
  assert (Hfinish : forall sF L' R' lks' fl' rks' fr',
    cells3 s1 sF pid (w_elts n1 (ea ++ re :: eb)) selfid L' rid R' ->
    s_cr L' = c -> s_cr R' = c ->
    reps s1 (s_kids L') lks' fl' -> reps s1 (s_kids R') rks' fr' ->
    (s_leaf L' = true -> s_kids L' = []) -> (s_leaf R' = true -> s_kids R' = []) ->
    incl (concat fsk ++ concat frk) (concat fl' ++ concat fr') ->
    (length (concat fl' ++ concat fr') <= length (concat fsk ++ concat frk))%nat ->
    exists fp', rep sF pid (Node false (ea ++ re :: eb) (ka ++ Node (s_leaf L') (s_elts L') lks' :: Node (s_leaf R') (s_elts R') rks' :: kb)) fp' /\
      sub s (pid :: concat (fa ++ fs :: fr0 :: fb')) fp' /\ fr s sF (pid :: concat (fa ++ fs :: fr0 :: fb')) /\
      own sF pid /\ own sF selfid /\ kid_at sF pid index selfid).
  { intros sF L' R' lks' fl' rks' fr' Hcells HcL HcR HrL HrR HlkL HlkR Hincl Hlen.
    destruct (surgery2 s1 sF pid n1 (w_elts n1 (ea ++ re :: eb)) selfid sn L' rid r R' ia2 ib1 ka kb fa2 fb1
                sks fsk rks frk lks' fl' rks' fr') as (Hrep & Hback); try assumption; try reflexivity.
    eexists. split; [exact Hrep|].
    pose proof Hcells as (HlenF & HPF & HLF & HRF & HothF).
    assert (HfrF : fr s1 sF [pid; selfid; rid]).
    { eapply cells3_fr; [exact Hcells|exact Hn1|exact Hsn|exact Hrn|reflexivity|congruence|congruence]. }
    split; [|split; [|split; [|split]]].
    - intros x Hx. apply Hsub1. apply Hback. exact Hx.
    - eapply fr_trans; [eapply fr_weaken; [exact Hfr1|]|exact Hsub1|eapply fr_weaken; [exact HfrF|]].
      + intros x [<-|[]]. now left.
      + intros x Hx. apply in_fp2. pose proof (rep_root_in) as _. cbn [In] in Hx. destruct Hx as [<-|[<-|[<-|[]]]]; tauto.
    - exists (w_elts n1 (ea ++ re :: eb)). split; [assumption|cbn; assumption].
    - exists L'. split; assumption.
    - exists (w_elts n1 (ea ++ re :: eb)). split; [assumption|]. cbn [w_elts s_kids]. rewrite Hkn1.
      rewrite <- Hia2. apply nth_error_app_mid. }
  destruct rlf.
  - (* the right sibling is a leaf *)
    inversion Hv; subst p' b; clear Hv.
    destruct (Hfinish s4 (w_elts sn (s_elts sn ++ [pe])) (w_elts r res') sks fsk rks frk) as (fp' & Hrep & Hrest); try assumption; try (cbn; assumption).
    + split; [assumption|]. split; [assumption|]. split; [assumption|]. split; [assumption|]. intros x H1 H2 H3. apply Hoth4; auto.
    + cbn. rewrite Hlsn. intros Hl. destruct (Hlks Hl). assumption.
    + cbn. intros _. destruct (Hlkr eq_refl). assumption.
    + apply incl_refl.
    + lia.
    + exists s4, fp'. split; [reflexivity|]. cbn [w_elts s_leaf s_elts] in Hrep. rewrite Hlsn, Hesn, Hlr in Hrep. split; assumption.
  - (* internal nodes: the first child of the right sibling moves over *)
    rewrite (sget_some _ _ _ Hs_4). cbn [bind w_elts s_leaf]. rewrite Hlsn.
    destruct slf; [discriminate|].
    destruct rks as [|rc rks']; [discriminate|]. inversion Hv; subst p' b; clear Hv.
    apply reps_cons_inv in Hrks as (rcid & rkids' & frc & frk' & Hkr & -> & Hrrc & Hrrks').
    cbn [s_kids w_elts]. rewrite Hkr.
    rewrite (upd_some _ _ _ _ Hr_4). cbn [bind].
    set (s5 := sset s4 rid (w_kids (w_elts r res') rkids')).
    assert (Hs_5 : nth_error s5 selfid = Some (w_elts sn (s_elts sn ++ [pe]))) by (unfold s5; rewrite nth_sset_ne; auto).
    rewrite (upd_some _ _ _ _ Hs_5). cbn [bind].
    set (s6 := sset s5 selfid (w_kids (w_elts sn (s_elts sn ++ [pe])) (s_kids sn ++ [rcid]))).
    destruct (Hfinish s6 (w_kids (w_elts sn (s_elts sn ++ [pe])) (s_kids sn ++ [rcid])) (w_kids (w_elts r res') rkids')
                (sks ++ [rc]) (fsk ++ [frc]) rks' frk') as (fp' & Hrep & Hrest); try (cbn; assumption).
    + unfold s6, s5. split; [rewrite !length_sset; assumption|]. split; [rewrite !nth_sset_ne by auto; assumption|].
      split; [apply nth_sset_eq; rewrite length_sset; lia|]. split; [rewrite nth_sset_ne by auto; apply nth_sset_eq; lia|].
      intros x H1 H2 H3. rewrite !nth_sset_ne by auto. apply Hoth4; auto.
    + cbn. apply reps_app; [assumption|]. constructor; [assumption|constructor].
    + cbn. rewrite Hlsn. discriminate.
    + cbn. rewrite Hlr. discriminate.
    + intros x Hx. rewrite concat_app. cbn [concat] in *. rewrite ?app_nil_r. rewrite !in_app_iff in *. tauto.
    + rewrite concat_app. cbn [concat]. rewrite ?app_nil_r. rewrite !app_length. lia.
    + exists s6, fp'. split; [reflexivity|]. cbn [w_elts w_kids s_leaf s_elts] in Hrep. rewrite Hlsn, Hesn, Hlr in Hrep. split; assumption.
Qed.

(* ---------------------------------------------------------------- steal from the left sibling *)

Lemma left_steal_sim t s pid p fp selfid index p' b :
  rep s pid p fp -> own s pid -> own s selfid -> kid_at s pid index selfid ->
  try_left_steal t p index = Ok (p', b) ->
  exists s' fp', s_try_left_steal t s selfid pid index = Ok (s', b) /\
     rep s' pid p' fp' /\ sub s fp fp' /\ fr s s' fp /\ own s' pid /\ own s' selfid /\
     kid_at s' pid index selfid.
Proof.
  intros Hr Hop Hos Hkid Hv. destruct p as [plf pes pks]. unfold try_left_steal in Hv.
  destruct index as [|im].
  { inversion Hv; subst p' b. exists s, fp. split; [reflexivity|]. split; [assumption|]. split; [apply sub_refl|]. split; [apply fr_refl|]. auto. }
  destruct (split_at im pks) as [((ka & lft) & rest)| |] eqn:Esp; cbn [bind] in Hv; try discriminate.
  apply split_at_inv in Esp as (-> & Hka).
  destruct rest as [|self kb]; [discriminate|].
  destruct (rep_open _ _ _ _ _ _ _ _ Hr Hop) as (ia & lid0 & ib & fa & fl0 & fb & Hopen & -> & ->).
  pose proof Hopen as (n & Hn & Hcn & Hln & Hen & Hkn & Hra & Hrl0 & Hrb & Hlia & Hnd).
  apply reps_cons_inv in Hrb as (sid & ib' & fs0 & fb' & -> & -> & Hrs0 & Hrb').
  assert (sid = selfid).
  { destruct Hkid as (n0 & Hn0 & Hk0). assert (n0 = n) by congruence. subst n0.
    rewrite Hkn in Hk0. replace (ia ++ lid0 :: sid :: ib') with ((ia ++ [lid0]) ++ sid :: ib') in Hk0 by (now rewrite <- app_assoc).
    replace (S im) with (length (ia ++ [lid0])) in Hk0 by (rewrite app_length; cbn; lia).
    rewrite nth_error_app_mid in Hk0. congruence. }
  subst sid.
  unfold s_try_left_steal. rewrite (sget_some _ _ _ Hn). cbn [bind]. rewrite Hkn.
  rewrite split_at_app by congruence. cbn [bind].
  destruct lft as [llf les lks]. destruct self as [slf ses sks].
  destruct (rep_root _ _ _ _ _ _ Hrl0) as (l0 & Hl0 & Hll0 & Hel0).
  rewrite (sget_some _ _ _ Hl0). cbn [bind]. rewrite Hel0.
  rewrite is_minimal_eq in Hv. cbn [n_elts] in Hv.
  destruct (is_minimal_l t (length les)) as [mn| |] eqn:Emn; cbn [bind] in Hv |- *; try discriminate.
  destruct mn.
  { inversion Hv; subst p' b.
    exists s, (pid :: concat (fa ++ fl0 :: fs0 :: fb')). split; [reflexivity|].
    split; [assumption|]. split; [apply sub_refl|]. split; [apply fr_refl|]. auto. }
  destruct (split_at im pes) as [((ea & pe) & eb)| |] eqn:Ees; cbn [bind] in Hv; try discriminate.
  destruct (pop_last les) as [(les' & le)| |] eqn:Epl; cbn [bind] in Hv; try discriminate.
  (* copy-on-write of the left sibling *)
  assert (Hl2 : length ka = im) by assumption.
  destruct (cow_child_ok _ _ _ _ _ _ _ _ _ Hr Hl2) as (s1 & lid & Ecow). rewrite Ecow. cbn [bind].
  destruct (cow_child_sim _ _ _ _ _ _ _ _ _ _ _ Hr Hl2 Hop Ecow)
    as (n1 & ia1 & ib1 & fa1 & fl & fb1 & Hn1 & Hcn1 & Hln1 & Hen1 & Hkn1 & Hra1 & Hrl & Hrb1 & Hlia1 & Hnd1 & Hol & Hfr1 & Hsub1 & Hoth).
  rewrite (sget_some _ _ _ Hn1). cbn [bind]. rewrite Hen1, Ees. cbn [bind].
  apply reps_cons_inv in Hrb1 as (sid2 & ib2 & fs1 & fb2 & -> & -> & Hrs1 & Hrb2).
  assert (sid2 = selfid).
  { assert (Hk : nth_error (ia1 ++ lid :: sid2 :: ib2) (S im) = Some selfid).
    { apply Hoth; [lia|]. exists n. split; [assumption|]. rewrite Hkn.
      replace (ia ++ lid0 :: selfid :: ib') with ((ia ++ [lid0]) ++ selfid :: ib') by (now rewrite <- app_assoc).
      replace (S im) with (length (ia ++ [lid0])) by (rewrite app_length; cbn; lia). apply nth_error_app_mid. }
    replace (ia1 ++ lid :: sid2 :: ib2) with ((ia1 ++ [lid]) ++ sid2 :: ib2) in Hk by (now rewrite <- app_assoc).
    replace (S im) with (length (ia1 ++ [lid])) in Hk by (rewrite app_length; cbn; lia).
    rewrite nth_error_app_mid in Hk. congruence. }
  subst sid2.
  apply rep_inv in Hrl as (l & flk & Hln_ & Hll & Hel & Hlks & -> & Hndl & Hlkl).
  apply rep_inv in Hrs1 as (sn & fsk & Hsn & Hlsn & Hesn & Hsks & -> & Hnds & Hlks').
  assert (Hflat1 : NoDup (pid :: concat fa1 ++ (lid :: concat flk) ++ (selfid :: concat fsk) ++ concat fb2)).
  { rewrite concat_mid in Hnd1. cbn [concat] in Hnd1. exact Hnd1. }
  destruct (nd2 _ _ _ _ _ _ _ Hflat1) as (_ & _ & _ & _ & (Hpl & Hps & Hls)).
  rewrite (sget_some _ _ _ Hln_). cbn [bind]. rewrite Hel, Epl. cbn [bind].
  assert (Hvp : (pid < length s1)%nat) by (apply nth_error_Some; congruence).
  assert (Hvl : (lid < length s1)%nat) by (apply nth_error_Some; congruence).
  assert (Hvs : (selfid < length s1)%nat) by (apply nth_error_Some; congruence).
  rewrite (upd_some _ _ _ _ Hln_). cbn [bind].
  set (s2 := sset s1 lid (w_elts l les')).
  assert (Hn1_2 : nth_error s2 pid = Some n1) by (unfold s2; rewrite nth_sset_ne; auto).
  rewrite (upd_some _ _ _ _ Hn1_2). cbn [bind].
  set (s3 := sset s2 pid (w_elts n1 (ea ++ le :: eb))).
  assert (Hsn_3 : nth_error s3 selfid = Some sn).
  { unfold s3, s2. rewrite !nth_sset_ne; auto. }
  rewrite (upd_some _ _ _ _ Hsn_3). cbn [bind].
  set (s4 := sset s3 selfid (w_elts sn (pe :: s_elts sn))).
  assert (Hl_4 : nth_error s4 lid = Some (w_elts l les')).
  { unfold s4, s3. rewrite !nth_sset_ne by auto. unfold s2. apply nth_sset_eq. assumption. }
  rewrite (sget_some _ _ _ Hl_4). cbn [bind w_elts s_leaf]. rewrite Hll.
  assert (Hp_4 : nth_error s4 pid = Some (w_elts n1 (ea ++ le :: eb))).
  { unfold s4. rewrite nth_sset_ne by auto. unfold s3. apply nth_sset_eq. unfold s2. rewrite length_sset. assumption. }
  assert (Hs_4 : nth_error s4 selfid = Some (w_elts sn (pe :: s_elts sn))).
  { unfold s4. apply nth_sset_eq. unfold s3, s2. rewrite !length_sset. assumption. }
  assert (Hoth4 : forall x, x <> lid -> x <> pid -> x <> selfid -> nth_error s4 x = nth_error s1 x).
  { intros x H1 H2 H3. unfold s4, s3, s2. rewrite !nth_sset_ne; auto. }
  assert (Hlen4 : length s4 = length s1) by (unfold s4, s3, s2; rewrite !length_sset; reflexivity).
  assert (Hown4s0 : s_cr sn = c).
  { destruct Hos as (m & Hm & Hcm). destruct Hfr1 as (_ & _ & C1). destruct (C1 _ _ Hm) as (m' & Hm' & Hcm'). congruence. }
  assert (Hcl : s_cr l = c) by (destruct Hol as (m & Hm & Hcm); congruence).
  assert (Hfinish : forall sF L' R' lks' fl' rks' fr',
    cells3 s1 sF pid (w_elts n1 (ea ++ le :: eb)) lid L' selfid R' ->
    s_cr L' = c -> s_cr R' = c ->
    reps s1 (s_kids L') lks' fl' -> reps s1 (s_kids R') rks' fr' ->
    (s_leaf L' = true -> s_kids L' = []) -> (s_leaf R' = true -> s_kids R' = []) ->
    incl (concat flk ++ concat fsk) (concat fl' ++ concat fr') ->
    (length (concat fl' ++ concat fr') <= length (concat flk ++ concat fsk))%nat ->
    exists fp', rep sF pid (Node false (ea ++ le :: eb) (ka ++ Node (s_leaf L') (s_elts L') lks' :: Node (s_leaf R') (s_elts R') rks' :: kb)) fp' /\
      sub s (pid :: concat (fa ++ fl0 :: fs0 :: fb')) fp' /\ fr s sF (pid :: concat (fa ++ fl0 :: fs0 :: fb')) /\
      own sF pid /\ own sF selfid /\ kid_at sF pid (S im) selfid).
  { intros sF L' R' lks' fl' rks' fr' Hcells HcL HcR HrL HrR HlkL HlkR Hincl Hlen.
    destruct (surgery2 s1 sF pid n1 (w_elts n1 (ea ++ le :: eb)) lid l L' selfid sn R' ia1 ib2 ka kb fa1 fb2
                lks flk sks fsk lks' fl' rks' fr') as (Hrep & Hback); try assumption; try reflexivity.
    eexists. split; [exact Hrep|].
    pose proof Hcells as (HlenF & HPF & HLF & HRF & HothF).
    assert (HfrF : fr s1 sF [pid; lid; selfid]).
    { eapply cells3_fr; [exact Hcells|exact Hn1|exact Hln_|exact Hsn|reflexivity|congruence|congruence]. }
    split; [|split; [|split; [|split]]].
    - intros x Hx. apply Hsub1. apply Hback. exact Hx.
    - eapply fr_trans; [eapply fr_weaken; [exact Hfr1|]|exact Hsub1|eapply fr_weaken; [exact HfrF|]].
      + intros x [<-|[]]. now left.
      + intros x Hx. apply in_fp2. cbn [In] in Hx. destruct Hx as [<-|[<-|[<-|[]]]]; tauto.
    - exists (w_elts n1 (ea ++ le :: eb)). split; [assumption|cbn; assumption].
    - exists R'. split; assumption.
    - exists (w_elts n1 (ea ++ le :: eb)). split; [assumption|]. cbn [w_elts s_kids]. rewrite Hkn1.
      replace (ia1 ++ lid :: selfid :: ib2) with ((ia1 ++ [lid]) ++ selfid :: ib2) by (now rewrite <- app_assoc).
      replace (S im) with (length (ia1 ++ [lid])) by (rewrite app_length; cbn; lia). apply nth_error_app_mid. }
  destruct llf.
  - (* leaves *)
    inversion Hv; subst p' b; clear Hv.
    destruct (Hfinish s4 (w_elts l les') (w_elts sn (pe :: s_elts sn)) lks flk sks fsk) as (fp' & Hrep & Hrest); try assumption; try (cbn; assumption).
    + split; [assumption|]. split; [assumption|]. split; [assumption|]. split; [assumption|]. intros x H1 H2 H3. apply Hoth4; auto.
    + cbn. intros _. destruct (Hlkl eq_refl). assumption.
    + cbn. rewrite Hlsn. intros Hl. destruct (Hlks' Hl). assumption.
    + apply incl_refl.
    + lia.
    + exists s4, fp'. split; [reflexivity|]. cbn [w_elts s_leaf s_elts] in Hrep. rewrite Hlsn, Hesn, Hll in Hrep. split; assumption.
  - (* internal nodes: the last child of the left sibling moves over *)
    rewrite (sget_some _ _ _ Hs_4). cbn [bind w_elts s_leaf]. rewrite Hlsn.
    destruct slf; [discriminate|].
    destruct (pop_last lks) as [(lks' & lc)| |] eqn:Eplk; cbn [bind] in Hv; try discriminate.
    inversion Hv; subst p' b; clear Hv.
    apply pop_last_inv in Eplk. subst lks.
    apply reps_split in Hlks as (lki' & lci & flk' & flc & Hkl & -> & Hrlk' & Hrlc & Llk & Lflk).
    apply reps_cons_inv in Hrlc as (lcid & nil1 & frc & nil2 & -> & -> & Hrrc & Hnil). apply reps_nil_inv in Hnil as (-> & ->).
    cbn [s_kids w_elts]. rewrite Hkl. rewrite pop_last_app. cbn [bind].
    rewrite (upd_some _ _ _ _ Hl_4). cbn [bind].
    set (s5 := sset s4 lid (w_kids (w_elts l les') lki')).
    assert (Hs_5 : nth_error s5 selfid = Some (w_elts sn (pe :: s_elts sn))) by (unfold s5; rewrite nth_sset_ne; auto).
    rewrite (upd_some _ _ _ _ Hs_5). cbn [bind].
    set (s6 := sset s5 selfid (w_kids (w_elts sn (pe :: s_elts sn)) (lcid :: s_kids sn))).
    destruct (Hfinish s6 (w_kids (w_elts l les') lki') (w_kids (w_elts sn (pe :: s_elts sn)) (lcid :: s_kids sn))
                lks' flk' (lc :: sks) (frc :: fsk)) as (fp' & Hrep & Hrest); try (cbn; assumption).
    + unfold s6, s5. split; [rewrite !length_sset; assumption|]. split; [rewrite !nth_sset_ne by auto; assumption|].
      split; [rewrite nth_sset_ne by auto; apply nth_sset_eq; lia|]. split; [apply nth_sset_eq; rewrite length_sset; lia|].
      intros x H1 H2 H3. rewrite !nth_sset_ne by auto. apply Hoth4; auto.
    + cbn. constructor; assumption.
    + cbn. rewrite Hll. discriminate.
    + cbn. rewrite Hlsn. discriminate.
    + intros x Hx. rewrite concat_app in Hx. cbn [concat] in *. rewrite ?app_nil_r in *. rewrite !in_app_iff in *. tauto.
    + rewrite concat_app. cbn [concat]. rewrite ?app_nil_r. rewrite !app_length. lia.
    + exists s6, fp'. split; [reflexivity|]. cbn [w_elts w_kids s_leaf s_elts] in Hrep. rewrite Hlsn, Hesn, Hll in Hrep. split; assumption.
Qed.

(* ---------------------------------------------------------------- merge *)

Lemma surgery_merge s s' pid P P' lid Ln L' rid Rn ia ib ka kb fa fb lks fl rks fr lks' fl' :
  nth_error s pid = Some P -> nth_error s lid = Some Ln -> nth_error s rid = Some Rn ->
  s_kids P = ia ++ lid :: rid :: ib ->
  reps s ia ka fa -> reps s ib kb fb ->
  reps s (s_kids Ln) lks fl -> reps s (s_kids Rn) rks fr ->
  NoDup (pid :: concat (fa ++ (lid :: concat fl) :: (rid :: concat fr) :: fb)) ->
  cells3 s s' pid P' lid L' rid Rn ->
  s_kids P' = ia ++ lid :: ib -> s_leaf P' = false ->
  reps s (s_kids L') lks' fl' -> (s_leaf L' = true -> s_kids L' = []) ->
  incl (concat fl') (concat fl ++ concat fr) -> NoDup (concat fl') ->
  rep s' pid (Node false (s_elts P') (ka ++ Node (s_leaf L') (s_elts L') lks' :: kb))
      (pid :: concat (fa ++ (lid :: concat fl') :: fb)) /\
  (forall x, In x (pid :: concat (fa ++ (lid :: concat fl') :: fb)) ->
             In x (pid :: concat (fa ++ (lid :: concat fl) :: (rid :: concat fr) :: fb))).
Proof.
  intros HP HL HR HkP Hra Hrb Hrl Hrr Hnd Hcells HkP' HlP' Hrl' HlkL Hincl HndL'.
  pose proof Hcells as (Hlen' & HP' & HL' & HR' & Hoth).
  assert (Hflat : NoDup (pid :: concat fa ++ (lid :: concat fl) ++ (rid :: concat fr) ++ concat fb)).
  { rewrite concat_mid in Hnd. cbn [concat] in Hnd. exact Hnd. }
  destruct (nd2 _ _ _ _ _ _ _ Hflat) as (Hndm & Hin_old & _ & _ & _).
  assert (Hnd' : NoDup (pid :: concat (fa ++ (lid :: concat fl') :: fb))).
  { rewrite concat_mid. eapply nd_merge; eauto. }
  assert (Hnew_in : forall x, In x (pid :: concat (fa ++ (lid :: concat fl') :: fb)) ->
             In x (pid :: concat (fa ++ (lid :: concat fl) :: (rid :: concat fr) :: fb))).
  { intros x Hx. apply in_fp2. rewrite concat_mid in Hx. cbn [In] in Hx. rewrite in_app_iff in Hx.
    change ((lid :: concat fl') ++ concat fb) with (lid :: (concat fl' ++ concat fb)) in Hx. cbn [In] in Hx. rewrite in_app_iff in Hx.
    destruct Hx as [Hx|[Hx|[Hx|[Hx|Hx]]]]; try tauto.
    apply Hincl in Hx. apply in_app_iff in Hx. tauto. }
  split; [|exact Hnew_in].
  assert (Hfrm : forall ids trs fps, reps s ids trs fps ->
            (forall x, In x (concat fps) -> x <> pid /\ x <> lid /\ x <> rid) -> reps s' ids trs fps).
  { intros ids trs fps Hr Hd. eapply reps_frame; [exact Hr|]. intros x Hx. destruct (Hd x Hx) as (H1 & H2 & H3). now apply Hoth. }
  rewrite <- HlP'. constructor; [assumption|rewrite HlP'; discriminate| |exact Hnd'].
  rewrite HkP'. apply reps_app.
  { apply (Hfrm _ _ _ Hra). intros x Hx. apply Hin_old. tauto. }
  constructor.
  - constructor; [assumption|assumption| |].
    + apply (Hfrm _ _ _ Hrl'). intros x Hx. apply Hin_old. apply Hincl in Hx. apply in_app_iff in Hx. tauto.
    + rewrite concat_mid in Hnd'. apply NoDup_cons_iff' in Hnd' as (_ & Hnd'). apply NoDup_app_iff in Hnd' as (_ & Hq & _).
      apply NoDup_app_iff in Hq. tauto.
  - apply (Hfrm _ _ _ Hrb). intros x Hx. apply Hin_old. tauto.
Qed.

Lemma merge_sim s pid p fp selfid index p' :
  rep s pid p fp -> own s pid -> own s selfid -> kid_at s pid index selfid ->
  merge p index = Ok p' ->
  exists s' fp', s_merge s selfid pid index = Ok s' /\
     rep s' pid p' fp' /\ sub s fp fp' /\ fr s s' fp /\ own s' pid /\ own s' selfid /\
     kid_at s' pid index selfid.
Proof.
  intros Hr Hop Hos Hkid Hv. destruct p as [plf pes pks]. unfold merge in Hv.
  destruct (split_at index pks) as [((ka & self) & rest)| |] eqn:Esp; cbn [bind] in Hv; try discriminate.
  apply split_at_inv in Esp as (-> & Hka).
  destruct rest as [|rgt kb]; [discriminate|].
  destruct (split_at index pes) as [((ea & pe) & eb)| |] eqn:Ees; cbn [bind] in Hv; try discriminate.
  destruct self as [slf ses sks]. destruct rgt as [rlf res_ rks]. inversion Hv; subst p'; clear Hv.
  destruct (rep_open _ _ _ _ _ _ _ _ Hr Hop) as (ia & sid & ib & fa & fs & fb & Hopen & -> & ->).
  pose proof Hopen as (n & Hn & Hcn & Hln & Hen & Hkn & Hra & Hrs & Hrb & Hlia & Hnd).
  assert (sid = selfid).
  { destruct Hkid as (n0 & Hn0 & Hk0). assert (n0 = n) by congruence. subst n0.
    rewrite Hkn in Hk0. rewrite <- Hka, <- Hlia, nth_error_app_mid in Hk0. congruence. }
  subst sid.
  apply reps_cons_inv in Hrb as (rid & ib' & fr0 & fb' & -> & -> & Hrr & Hrb').
  apply rep_inv in Hrr as (r & frk & Hrn & Hlr & Her & Hrks & -> & Hndr & Hlkr).
  apply rep_inv in Hrs as (sn & fsk & Hsn & Hlsn & Hesn & Hsks & -> & Hnds & Hlks).
  assert (Hflat1 : NoDup (pid :: concat fa ++ (selfid :: concat fsk) ++ (rid :: concat frk) ++ concat fb')).
  { rewrite concat_mid in Hnd. cbn [concat] in Hnd. exact Hnd. }
  destruct (nd2 _ _ _ _ _ _ _ Hflat1) as (Hndm & _ & HndS & _ & (Hps & Hpr & Hsr)).
  assert (Hvp : (pid < length s)%nat) by (apply nth_error_Some; congruence).
  assert (Hvs : (selfid < length s)%nat) by (apply nth_error_Some; congruence).
  unfold s_merge. rewrite (sget_some _ _ _ Hn). cbn [bind]. rewrite Hkn.
  replace (ia ++ selfid :: rid :: ib') with ((ia ++ [selfid]) ++ rid :: ib') by (now rewrite <- app_assoc).
  rewrite split_at_app by (rewrite app_length; cbn; lia). cbn [bind].
  rewrite (upd_some _ _ _ _ Hn). cbn [bind].
  set (s1 := sset s pid (w_kids n ((ia ++ [selfid]) ++ ib'))).
  assert (Hp1 : nth_error s1 pid = Some (w_kids n ((ia ++ [selfid]) ++ ib'))) by (unfold s1; now apply nth_sset_eq).
  rewrite (sget_some _ _ _ Hp1). cbn [bind w_kids s_elts]. rewrite Hen, Ees. cbn [bind].
  rewrite (upd_some _ _ _ _ Hp1). cbn [bind].
  set (s2 := sset s1 pid (w_elts (w_kids n ((ia ++ [selfid]) ++ ib')) (ea ++ eb))).
  assert (Hr2 : nth_error s2 rid = Some r) by (unfold s2, s1; rewrite !nth_sset_ne by congruence; assumption).
  rewrite (sget_some _ _ _ Hr2). cbn [bind].
  assert (Hs2 : nth_error s2 selfid = Some sn) by (unfold s2, s1; rewrite !nth_sset_ne by congruence; assumption).
  rewrite (upd_some _ _ _ _ Hs2). cbn [bind].
  set (s3 := sset s2 selfid (w_elts sn (s_elts sn ++ pe :: s_elts r))).
  assert (Hs3 : nth_error s3 selfid = Some (w_elts sn (s_elts sn ++ pe :: s_elts r))).
  { unfold s3. apply nth_sset_eq. unfold s2, s1. rewrite !length_sset. assumption. }
  rewrite (sget_some _ _ _ Hs3). cbn [bind w_elts s_leaf]. rewrite Hlsn.
  assert (Hp3 : nth_error s3 pid = Some (w_elts (w_kids n ((ia ++ [selfid]) ++ ib')) (ea ++ eb))).
  { unfold s3. rewrite nth_sset_ne by congruence. unfold s2. apply nth_sset_eq. unfold s1. rewrite length_sset. assumption. }
  assert (Hoth3 : forall x, x <> pid -> x <> selfid -> nth_error s3 x = nth_error s x).
  { intros x H1 H2. unfold s3, s2, s1. rewrite !nth_sset_ne; auto. }
  assert (Hcsn : s_cr sn = c) by (destruct Hos as (m & Hm & Hcm); congruence).
  assert (Hfinish : forall sF L' lks' fl',
    cells3 s sF pid (w_elts (w_kids n ((ia ++ [selfid]) ++ ib')) (ea ++ eb)) selfid L' rid r ->
    s_cr L' = c -> reps s (s_kids L') lks' fl' -> (s_leaf L' = true -> s_kids L' = []) ->
    incl (concat fl') (concat fsk ++ concat frk) -> NoDup (concat fl') ->
    exists fp', rep sF pid (Node false (ea ++ eb) (ka ++ Node (s_leaf L') (s_elts L') lks' :: kb)) fp' /\
      sub s (pid :: concat (fa ++ (selfid :: concat fsk) :: (rid :: concat frk) :: fb')) fp' /\
      fr s sF (pid :: concat (fa ++ (selfid :: concat fsk) :: (rid :: concat frk) :: fb')) /\
      own sF pid /\ own sF selfid /\ kid_at sF pid index selfid).
  { intros sF L' lks' fl' Hcells HcL HrL HlkL Hincl HndL.
    destruct (surgery_merge s sF pid n (w_elts (w_kids n ((ia ++ [selfid]) ++ ib')) (ea ++ eb)) selfid sn L' rid r ia ib' ka kb fa fb'
                sks fsk rks frk lks' fl') as (Hrep & Hback); try assumption; try reflexivity.
    { cbn. now rewrite <- app_assoc. }
    eexists. split; [exact Hrep|].
    pose proof Hcells as (HlenF & HPF & HLF & HRF & HothF).
    assert (HfrF : fr s sF [pid; selfid; rid]).
    { eapply cells3_fr; [exact Hcells|exact Hn|exact Hsn|exact Hrn|reflexivity|congruence|reflexivity]. }
    split; [|split; [|split; [|split]]].
    - intros x Hx. left. apply Hback. exact Hx.
    - eapply fr_weaken; [exact HfrF|]. intros x Hx. apply in_fp2. cbn [In] in Hx. destruct Hx as [<-|[<-|[<-|[]]]]; tauto.
    - exists (w_elts (w_kids n ((ia ++ [selfid]) ++ ib')) (ea ++ eb)). split; [assumption|cbn; assumption].
    - exists L'. split; assumption.
    - exists (w_elts (w_kids n ((ia ++ [selfid]) ++ ib')) (ea ++ eb)). split; [assumption|]. cbn [w_elts w_kids s_kids].
      rewrite <- app_assoc. cbn [app]. rewrite <- Hka, <- Hlia. apply nth_error_app_mid. }
  destruct slf.
  - destruct (Hfinish s3 (w_elts sn (s_elts sn ++ pe :: s_elts r)) sks fsk) as (fp' & Hrep & Hrest); try assumption; try (cbn; assumption).
    + split; [unfold s3, s2, s1; rewrite !length_sset; reflexivity|]. split; [assumption|]. split; [assumption|].
      split; [rewrite Hoth3 by congruence; assumption|]. intros x H1 H2 H3. apply Hoth3; auto.
    + cbn. intros _. destruct (Hlks eq_refl). assumption.
    + intros x Hx. apply in_app_iff. now left.
    + apply NoDup_cons_iff' in HndS. tauto.
    + exists s3, fp'. split; [reflexivity|]. cbn [w_elts s_leaf s_elts] in Hrep. rewrite Hlsn, Hesn, Her in Hrep. split; assumption.
  - rewrite (upd_some _ _ _ _ Hs3). cbn [bind].
    set (s4 := sset s3 selfid (w_kids (w_elts sn (s_elts sn ++ pe :: s_elts r)) (s_kids sn ++ s_kids r))).
    destruct (Hfinish s4 (w_kids (w_elts sn (s_elts sn ++ pe :: s_elts r)) (s_kids sn ++ s_kids r)) (sks ++ rks) (fsk ++ frk)) as (fp' & Hrep & Hrest); try (cbn; assumption).
    + unfold s4. split; [unfold s3, s2, s1; rewrite !length_sset; reflexivity|]. split; [rewrite nth_sset_ne by congruence; assumption|].
      split; [apply nth_sset_eq; unfold s3, s2, s1; rewrite !length_sset; assumption|].
      split; [rewrite nth_sset_ne by congruence; rewrite Hoth3 by congruence; assumption|].
      intros x H1 H2 H3. rewrite nth_sset_ne by congruence. apply Hoth3; auto.
    + cbn. now apply reps_app.
    + cbn. rewrite Hlsn. discriminate.
    + rewrite concat_app. apply incl_refl.
    + rewrite concat_app. assumption.
    + exists s4, fp'. split; [reflexivity|]. cbn [w_elts w_kids s_leaf s_elts] in Hrep. rewrite Hlsn, Hesn, Her in Hrep. split; assumption.
Qed.

(* ---------------------------------------------------------------- balance *)

Lemma left_steal_shape t p i p1 b :
  try_left_steal t p i = Ok (p1, b) -> (b = false -> p1 = p) /\ length (n_kids p1) = length (n_kids p).
Proof.
  destruct p as [plf pes pks]. unfold try_left_steal. destruct i as [|im]; [intros H; inversion H; auto|].
  destruct (split_at im pks) as [((ka & lft) & rest)| |] eqn:E; cbn [bind]; try discriminate.
  apply split_at_inv in E as (-> & _). destruct rest as [|self kb]; try discriminate.
  destruct (is_minimal t lft) as [mn| |]; cbn [bind]; try discriminate. destruct mn; [intros H; inversion H; auto|].
  destruct (split_at im pes) as [((ea & pe) & eb)| |]; cbn [bind]; try discriminate.
  destruct lft as [llf les lks]. destruct self as [slf ses sks].
  destruct (pop_last les) as [(les' & le)| |]; cbn [bind]; try discriminate.
  destruct llf; [intros H; inversion H; subst; split; [discriminate|cbn; rewrite !app_length; reflexivity]|].
  destruct slf; try discriminate. destruct (pop_last lks) as [(lks' & lc)| |]; cbn [bind]; try discriminate.
  intros H; inversion H; subst; split; [discriminate|cbn; rewrite !app_length; reflexivity].
Qed.

Lemma right_steal_shape t p i p1 b :
  try_right_steal t p i = Ok (p1, b) -> (b = false -> p1 = p) /\ length (n_kids p1) = length (n_kids p).
Proof.
  destruct p as [plf pes pks]. unfold try_right_steal.
  destruct (split_at i pks) as [((ka & self) & rest)| |] eqn:E; cbn [bind]; try discriminate.
  apply split_at_inv in E as (-> & _). destruct rest as [|rgt kb]; [intros H; inversion H; auto|].
  destruct (is_minimal t rgt) as [mn| |]; cbn [bind]; try discriminate. destruct mn; [intros H; inversion H; auto|].
  destruct (split_at i pes) as [((ea & pe) & eb)| |]; cbn [bind]; try discriminate.
  destruct rgt as [rlf res_ rks]. destruct self as [slf ses sks]. destruct res_ as [|re res']; try discriminate.
  destruct rlf; [intros H; inversion H; subst; split; [discriminate|cbn; rewrite !app_length; reflexivity]|].
  destruct slf; try discriminate. destruct rks as [|rc rks']; try discriminate.
  intros H; inversion H; subst; split; [discriminate|cbn; rewrite !app_length; reflexivity].
Qed.

Lemma merge_shape p i p1 : merge p i = Ok p1 -> S (length (n_kids p1)) = length (n_kids p).
Proof.
  destruct p as [plf pes pks]. unfold merge.
  destruct (split_at i pks) as [((ka & self) & rest)| |] eqn:E; cbn [bind]; try discriminate.
  apply split_at_inv in E as (-> & _). destruct rest as [|rgt kb]; try discriminate.
  destruct (split_at i pes) as [((ea & pe) & eb)| |]; cbn [bind]; try discriminate.
  destruct self, rgt. intros H; inversion H; subst. cbn. rewrite !app_length. cbn. lia.
Qed.

Lemma fr_step s s1 s2 fp fp1 fp2 :
  fr s s1 fp -> sub s fp fp1 -> fr s1 s2 fp1 -> sub s1 fp1 fp2 -> fr s s2 fp /\ sub s fp fp2.
Proof.
  intros F1 S1 F2 S2. split; [eapply fr_trans; eauto|]. eapply (sub_trans s s1 fp fp1 fp2); [apply F1|exact S1|exact S2].
Qed.

Lemma balance_sim t s pid p fp cid i p' :
  rep s pid p fp -> own s pid -> own s cid -> kid_at s pid i cid ->
  balance t p i = Ok p' ->
  exists s' fp', s_balance t s cid pid i = Ok s' /\
     rep s' pid p' fp' /\ sub s fp fp' /\ fr s s' fp /\ own s' pid /\
     exists gid, kid_at s' pid (grown p p' i) gid /\ own s' gid.
Proof.
  intros Hr Hop Hoc Hkid Hv. unfold balance in Hv. destruct (n_leaf p) eqn:Hlf; [discriminate|].
  destruct (try_left_steal t p i) as [(p1 & ok1)| |] eqn:E1; cbn [bind] in Hv; try discriminate.
  destruct (left_steal_sim t s pid p fp cid i p1 ok1 Hr Hop Hoc Hkid E1) as (s1 & fp1 & Hs1 & Hr1 & Hsub1 & Hfr1 & Hop1 & Hoc1 & Hk1).
  destruct (left_steal_shape _ _ _ _ _ E1) as (Hsame1 & Hlen1).
  unfold s_balance.
  assert (Hpl : exists n, sget s pid = Ok n /\ s_leaf n = false).
  { destruct p as [lf es ks]. destruct (rep_root _ _ _ _ _ _ Hr) as (n & Hn & Hl & _). exists n. split; [now apply sget_some|]. cbn in Hlf. congruence. }
  destruct Hpl as (n & Hsg & Hlfn). rewrite Hsg. cbn [bind]. rewrite Hlfn, Hs1. cbn [bind].
  destruct ok1.
  { inversion Hv; subst p'. exists s1, fp1. split; [reflexivity|]. split; [assumption|]. split; [assumption|]. split; [assumption|]. split; [assumption|].
    exists cid. unfold grown. rewrite Hlen1, Nat.ltb_irrefl. cbn [andb]. auto. }
  specialize (Hsame1 eq_refl). subst p1.
  destruct (try_right_steal t p i) as [(p2 & ok2)| |] eqn:E2; cbn [bind] in Hv; try discriminate.
  destruct (right_steal_sim t s1 pid p fp1 cid i p2 ok2 Hr1 Hop1 Hoc1 Hk1 E2) as (s2 & fp2 & Hs2 & Hr2 & Hsub2 & Hfr2 & Hop2 & Hoc2 & Hk2).
  destruct (right_steal_shape _ _ _ _ _ E2) as (Hsame2 & Hlen2).
  rewrite Hs2. cbn [bind].
  destruct (fr_step _ _ _ _ _ _ Hfr1 Hsub1 Hfr2 Hsub2) as (Hfr02 & Hsub02).
  destruct ok2.
  { inversion Hv; subst p'. exists s2, fp2. split; [reflexivity|]. split; [assumption|]. split; [assumption|]. split; [assumption|]. split; [assumption|].
    exists cid. unfold grown. rewrite Hlen2, Nat.ltb_irrefl. cbn [andb]. auto. }
  specialize (Hsame2 eq_refl). subst p2.
  destruct i as [|im].
  - destruct (merge_sim s2 pid p fp2 cid 0 p' Hr2 Hop2 Hoc2 Hk2 Hv) as (s3 & fp3 & Hs3 & Hr3 & Hsub3 & Hfr3 & Hop3 & Hoc3 & Hk3).
    rewrite Hs3. destruct (fr_step _ _ _ _ _ _ Hfr02 Hsub02 Hfr3 Hsub3) as (Hfr03 & Hsub03).
    exists s3, fp3. split; [reflexivity|]. split; [assumption|]. split; [assumption|]. split; [assumption|]. split; [assumption|].
    exists cid. unfold grown. cbn [Nat.ltb Nat.leb andb]. rewrite andb_false_r. auto.
  - (* merge with the left sibling, which is copied first *)
    pose proof (merge_shape _ _ _ Hv) as Hml.
    destruct p as [plf pes pks]. cbn [n_leaf] in Hlf. subst plf. pose proof Hv as Hv0. unfold merge in Hv0.
    destruct (split_at im pks) as [((ka & lft) & rest)| |] eqn:Esp; cbn [bind] in Hv0; try discriminate.
    apply split_at_inv in Esp as (-> & Hka). clear Hv0.
    destruct (cow_child_ok _ _ _ _ _ _ _ _ _ Hr2 Hka) as (s3 & lid & Ecow). rewrite Ecow. cbn [bind].
    destruct (cow_child_sim _ _ _ _ _ _ _ _ _ _ _ Hr2 Hka Hop2 Ecow)
      as (n1 & ia1 & ib1 & fa1 & fl & fb1 & Hn1 & Hcn1 & Hln1 & Hen1 & Hkn1 & Hra1 & Hrl & Hrb1 & Hlia1 & Hnd1 & Hol & Hfr3 & Hsub3 & Hoth).
    assert (Hopen3 : opened s3 pid pes ia1 lid ib1 ka lft rest fa1 fl fb1).
    { exists n1. repeat split; try assumption. congruence. }
    destruct (opened_close _ _ _ _ _ _ _ _ _ _ _ _ Hopen3) as (Hr3 & Hop3).
    assert (Hk3 : kid_at s3 pid im lid).
    { exists n1. split; [assumption|]. rewrite Hkn1, <- Hlia1. apply nth_error_app_mid. }
    destruct (merge_sim s3 pid _ _ lid im p' Hr3 Hop3 Hol Hk3 Hv) as (s4 & fp4 & Hs4 & Hr4 & Hsub4 & Hfr4 & Hop4 & Hol4 & Hk4).
    rewrite Hs4.
    assert (Hfr3' : fr s2 s3 fp2).
    { eapply fr_weaken; [exact Hfr3|]. intros x [<-|[]]. eapply rep_root_in; eauto. }
    destruct (fr_step _ _ _ _ _ _ Hfr02 Hsub02 Hfr3' Hsub3) as (Hfr03 & Hsub03).
    destruct (fr_step _ _ _ _ _ _ Hfr03 Hsub03 Hfr4 Hsub4) as (Hfr04 & Hsub04).
    exists s4, fp4. split; [reflexivity|]. split; [assumption|]. split; [assumption|]. split; [assumption|]. split; [assumption|].
    exists lid. unfold grown. cbn [n_kids] in *.
    assert (Hlt : (length (n_kids p') <? length (ka ++ lft :: rest))%nat = true) by (apply Nat.ltb_lt; lia).
    rewrite Hlt. cbn [andb Nat.ltb Nat.leb]. replace (S im - 1)%nat with im by lia. auto.
Qed.

End SIM.
