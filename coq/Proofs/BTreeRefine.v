(* C19 - refinement of the store-level model by the value-level model: a store subtree that is
   tree-shaped (no node reachable twice) represents a value-level tree; every store operation
   maps such a representation of t to a representation of (value operation t). *)
From DV Require Import Base.Prelude Model.BTreeM Model.BTreeStoreM Proofs.BTreeBase Proofs.BTreeWf Proofs.BTreeStore.

(* rep s id tr fp : the nodes fp (all distinct) of store s form, below id, exactly the tree tr *)
Inductive rep (s : store) : nat -> tree -> list nat -> Prop :=
| rep_node id n kids fps :
    nth_error s id = Some n ->
    reps s (s_kids n) kids fps ->
    NoDup (id :: concat fps) ->
    rep s id (Node (s_leaf n) (s_elts n) kids) (id :: concat fps)
with reps (s : store) : list nat -> list tree -> list (list nat) -> Prop :=
| reps_nil : reps s [] [] []
| reps_cons k ks tr trs fp fps :
    rep s k tr fp -> reps s ks trs fps -> reps s (k :: ks) (tr :: trs) (fp :: fps).

Scheme rep_mind := Induction for rep Sort Prop
  with reps_mind := Induction for reps Sort Prop.

Lemma rep_inv s id lf es kids fp :
  rep s id (Node lf es kids) fp ->
  exists n fps, nth_error s id = Some n /\ s_leaf n = lf /\ s_elts n = es /\
                reps s (s_kids n) kids fps /\ fp = id :: concat fps /\ NoDup fp.
Proof. intros H. inversion H; subst. eauto 10. Qed.

Lemma reps_length s ids trs fps : reps s ids trs fps -> length ids = length trs /\ length fps = length trs.
Proof. induction 1; cbn; [auto|]. destruct IHreps. lia. Qed.

Lemma reps_app s i1 i2 t1 t2 f1 f2 :
  reps s i1 t1 f1 -> reps s i2 t2 f2 -> reps s (i1 ++ i2) (t1 ++ t2) (f1 ++ f2).
Proof. induction 1; cbn; [auto|]. intros. constructor; auto. Qed.

Lemma reps_split s ids t1 t2 fps :
  reps s ids (t1 ++ t2) fps ->
  exists i1 i2 f1 f2, ids = i1 ++ i2 /\ fps = f1 ++ f2 /\ reps s i1 t1 f1 /\ reps s i2 t2 f2 /\
                      length i1 = length t1 /\ length f1 = length t1.
Proof.
  revert ids fps. induction t1 as [|a t1 IH]; intros ids fps H; cbn in *.
  - exists [], ids, [], fps. repeat split; auto. constructor.
  - inversion H; subst. destruct (IH _ _ H5) as (i1 & i2 & f1 & f2 & -> & -> & H1 & H2 & L1 & L2).
    exists (k :: i1), i2, (fp :: f1), f2. repeat split; cbn; auto; try lia. constructor; auto.
Qed.

Lemma reps_mid s ids ka c kb fps :
  reps s ids (ka ++ c :: kb) fps ->
  exists ia cid ib fa fc fb, ids = ia ++ cid :: ib /\ fps = fa ++ fc :: fb /\
    reps s ia ka fa /\ rep s cid c fc /\ reps s ib kb fb /\ length ia = length ka /\ length fa = length ka.
Proof.
  intros H. destruct (reps_split _ _ _ _ _ H) as (i1 & i2 & f1 & f2 & -> & -> & H1 & H2 & L1 & L2).
  inversion H2 as [|k ks tr trs fp fps' Hk Hks]; subst. exists i1, k, ks, f1, fp, fps'. repeat split; auto.
Qed.

(* footprints contain valid ids only *)
Lemma rep_valid s : forall id tr fp, rep s id tr fp -> forall x, In x fp -> (x < length s)%nat.
Proof.
  apply (rep_mind s (fun id tr fp _ => forall x, In x fp -> (x < length s)%nat)
                    (fun ids trs fps _ => forall x, In x (concat fps) -> (x < length s)%nat)).
  - intros id n kids fps Hn Hr IH Hnd x [<-|Hx]; [apply nth_error_Some; congruence|auto].
  - intros x [].
  - intros k ks tr trs fp fps Hr IH Hrs IHs x Hx. cbn in Hx. apply in_app_iff in Hx as [Hx|Hx]; auto.
Qed.

Lemma rep_root_in s id tr fp : rep s id tr fp -> In id fp.
Proof. intros H; inversion H; subst. now left. Qed.

Lemma rep_nodup s id tr fp : rep s id tr fp -> NoDup fp.
Proof. intros H; inversion H; subst. assumption. Qed.

(* frame: a store that agrees on the footprint represents the same tree *)
Lemma rep_frame s s' : forall id tr fp, rep s id tr fp ->
  (forall x, In x fp -> nth_error s' x = nth_error s x) -> rep s' id tr fp.
Proof.
  apply (rep_mind s (fun id tr fp _ => (forall x, In x fp -> nth_error s' x = nth_error s x) -> rep s' id tr fp)
                    (fun ids trs fps _ => (forall x, In x (concat fps) -> nth_error s' x = nth_error s x) -> reps s' ids trs fps)).
  - intros id n kids fps Hn Hr IH Hnd Hag. constructor; [rewrite Hag; [assumption|now left]| |assumption].
    apply IH. intros x Hx. apply Hag. now right.
  - constructor.
  - intros k ks tr trs fp fps Hr IH Hrs IHs Hag. constructor.
    + apply IH. intros x Hx. apply Hag. cbn. apply in_app_iff. now left.
    + apply IHs. intros x Hx. apply Hag. cbn. apply in_app_iff. now right.
Qed.

Lemma reps_frame s s' ids trs fps : reps s ids trs fps ->
  (forall x, In x (concat fps) -> nth_error s' x = nth_error s x) -> reps s' ids trs fps.
Proof.
  induction 1; intros Hag; constructor.
  - eapply rep_frame; eauto. intros x Hx. apply Hag. cbn. apply in_app_iff. now left.
  - apply IHreps. intros x Hx. apply Hag. cbn. apply in_app_iff. now right.
Qed.

(* abs agrees with rep *)
Lemma rep_abs s : forall id tr fp, rep s id tr fp -> exists fuel, forall f, (fuel <= f)%nat -> abs f s id = Some tr.
Proof.
  apply (rep_mind s (fun id tr fp _ => exists fuel, forall f, (fuel <= f)%nat -> abs f s id = Some tr)
           (fun ids trs fps _ => exists fuel, forall f, (fuel <= f)%nat ->
              (fix go (ks : list nat) : option (list tree) :=
                 match ks with
                 | [] => Some []
                 | k :: r => match abs f s k, go r with Some k', Some r' => Some (k' :: r') | _, _ => None end
                 end) ids = Some trs)).
  - intros id n kids fps Hn Hr (fu & IH) Hnd. exists (S fu). intros f Hf. destruct f as [|f]; [lia|].
    cbn [abs]. rewrite Hn. rewrite IH by lia. reflexivity.
  - exists 0%nat. reflexivity.
  - intros k ks tr trs fp fps Hr (f1 & IH1) Hrs (f2 & IH2). exists (Nat.max f1 f2). intros f Hf.
    rewrite IH1, IH2 by lia. reflexivity.
Qed.

(* ---------------------------------------------------------------- frames with footprints *)

Definition ownc (c : nat) (s : store) (id : nat) : Prop := exists n, nth_error s id = Some n /\ s_cr n = c.

(* s' differs from s only inside fp and by new nodes; creator tags are permanent *)
Definition fr (s s' : store) (fp : list nat) : Prop :=
  (length s <= length s')%nat /\
  (forall x, (x < length s)%nat -> ~ In x fp -> nth_error s' x = nth_error s x) /\
  (forall x n, nth_error s x = Some n -> exists n', nth_error s' x = Some n' /\ s_cr n' = s_cr n).

(* every id of fp' is in fp or newer than s *)
Definition sub (s : store) (fp fp' : list nat) : Prop := forall x, In x fp' -> In x fp \/ (length s <= x)%nat.

Lemma fr_refl s fp : fr s s fp.
Proof. split; [lia|]. split; eauto. Qed.

Lemma sub_refl s fp : sub s fp fp.
Proof. intros x; auto. Qed.

Lemma fr_trans s s1 s2 fp fp1 : fr s s1 fp -> sub s fp fp1 -> fr s1 s2 fp1 -> fr s s2 fp.
Proof.
  intros (L1 & F1 & C1) Hsub (L2 & F2 & C2). split; [lia|]. split.
  - intros x Hx Hn. rewrite F2; [apply F1; assumption|lia|]. intros Hin. destruct (Hsub x Hin); [contradiction|lia].
  - intros x n Hn. destruct (C1 x n Hn) as (n1 & Hn1 & Hc1). destruct (C2 x n1 Hn1) as (n2 & Hn2 & Hc2).
    exists n2. split; [assumption|congruence].
Qed.

Lemma sub_trans s s1 fp fp1 fp2 : (length s <= length s1)%nat -> sub s fp fp1 -> sub s1 fp1 fp2 -> sub s fp fp2.
Proof. intros L H1 H2 x Hx. destruct (H2 x Hx) as [H|H]; [apply H1; assumption|right; lia]. Qed.

Lemma fr_weaken s s' fp fp' : fr s s' fp -> incl fp fp' -> fr s s' fp'.
Proof. intros (L & F & C) Hi. split; [assumption|]. split; [|assumption]. intros x Hx Hn. apply F; auto. Qed.

Lemma ownc_fr c s s' fp id : fr s s' fp -> ownc c s id -> ownc c s' id.
Proof. intros (_ & _ & C) (n & Hn & Hc). destruct (C id n Hn) as (n' & Hn' & Hc'). exists n'. split; [assumption|congruence]. Qed.

(* a sub-representation survives when the changed part is disjoint from it *)
Lemma rep_fr s s' id tr fp wfp :
  rep s id tr fp -> fr s s' wfp -> (forall x, In x fp -> ~ In x wfp) -> rep s' id tr fp.
Proof.
  intros Hr (L & F & C) Hd. eapply rep_frame; [exact Hr|]. intros x Hx. apply F; [eapply rep_valid; eauto|auto].
Qed.

Lemma reps_fr s s' ids trs fps wfp :
  reps s ids trs fps -> fr s s' wfp -> (forall x, In x (concat fps) -> ~ In x wfp) -> reps s' ids trs fps.
Proof.
  induction 1; intros Hf Hd; constructor.
  - eapply rep_fr; eauto. intros x Hx. apply Hd. cbn. apply in_app_iff. now left.
  - apply IHreps; auto. intros x Hx. apply Hd. cbn. apply in_app_iff. now right.
Qed.

Lemma reps_valid s ids trs fps : reps s ids trs fps -> forall x, In x (concat fps) -> (x < length s)%nat.
Proof.
  induction 1; intros x Hx; [destruct Hx|]. cbn in Hx. apply in_app_iff in Hx as [Hx|Hx]; [eapply rep_valid; eauto|auto].
Qed.

(* one write *)
Lemma upd_spec s id f s' :
  upd s id f = Ok s' ->
  exists n, nth_error s id = Some n /\ nth_error s' id = Some (f n) /\ length s' = length s /\
            forall x, x <> id -> nth_error s' x = nth_error s x.
Proof.
  unfold upd, sget. destruct (nth_error s id) as [n|] eqn:E; [|discriminate]. cbn [bind]. intros H; inversion H; subst s'.
  exists n. split; [reflexivity|]. unfold sset.
  assert (id < length s)%nat by (apply nth_error_Some; congruence).
  split; [now apply nth_set_nth_eq|]. split; [apply length_set_nth|]. intros x Hx. apply nth_set_nth_ne. intros Heq. apply Hx. now symmetry.
Qed.

Lemma sset_fr s id n n' : nth_error s id = Some n -> s_cr n' = s_cr n -> fr s (sset s id n') [id].
Proof.
  intros Hn Hc. assert (id < length s)%nat by (apply nth_error_Some; congruence). unfold sset.
  split; [rewrite length_set_nth; lia|]. split.
  - intros x Hx Hni. apply nth_set_nth_ne. intros ->. apply Hni. now left.
  - intros x m Hm. destruct (Nat.eq_dec id x) as [<-|Hne].
    + rewrite nth_set_nth_eq by assumption. exists n'. split; [reflexivity|congruence].
    + rewrite nth_set_nth_ne by assumption. eauto.
Qed.

Lemma upd_fr s id f s' : upd s id f = Ok s' -> (forall n, s_cr (f n) = s_cr n) -> fr s s' [id].
Proof.
  unfold upd, sget. destruct (nth_error s id) as [n|] eqn:E; [|discriminate]. cbn [bind]. intros H Hc; inversion H; subst s'.
  eapply sset_fr; eauto.
Qed.

Lemma alloc_fr s n : fr s (s ++ [n]) [].
Proof.
  split; [rewrite app_length; lia|]. split.
  - intros x Hx _. now rewrite nth_error_app1.
  - intros x m Hm. exists m. split; [|reflexivity]. rewrite nth_error_app1; [assumption|]. apply nth_error_Some. congruence.
Qed.

Lemma nth_alloc s (n : snode) : nth_error (s ++ [n]) (length s) = Some n.
Proof. rewrite nth_error_app2, Nat.sub_diag by lia. reflexivity. Qed.

(* NoDup helpers *)
Lemma NoDup_app_iff {A} (a b : list A) : NoDup (a ++ b) <-> NoDup a /\ NoDup b /\ (forall x, In x a -> ~ In x b).
Proof.
  induction a as [|x a IH]; cbn.
  - split; [intros H; repeat split; auto; constructor|tauto].
  - split.
    + intros H. inversion H as [|? ? Hn Hnd]; subst. apply IH in Hnd as (Ha & Hb & Hd). repeat split.
      * constructor; [|assumption]. intros Hi. apply Hn. apply in_app_iff. now left.
      * assumption.
      * intros y [<-|Hy]; [intros Hi; apply Hn; apply in_app_iff; now right|auto].
    + intros (Ha & Hb & Hd). inversion Ha as [|? ? Hn Hnd]; subst. constructor.
      * intros Hi. apply in_app_iff in Hi as [Hi|Hi]; [contradiction|]. apply (Hd x); [now left|assumption].
      * apply IH. repeat split; auto.
Qed.

Lemma NoDup_cons_iff' {A} (x : A) l : NoDup (x :: l) <-> ~ In x l /\ NoDup l.
Proof. split; [intros H; inversion H; auto|intros (H1 & H2); now constructor]. Qed.

Lemma concat_mid {A} (a : list (list A)) x b : concat (a ++ x :: b) = concat a ++ x ++ concat b.
Proof. rewrite concat_app. reflexivity. Qed.

Section SIM.
Variable c : nat.   (* creator of the mutating tree *)
Notation own := (ownc c).

(* ---------------------------------------------------------------- maybe_cow *)

Lemma cow_sim s id tr fp s' id' :
  rep s id tr fp -> (n_leaf tr = true -> n_kids tr = []) ->
  s_maybe_cow s id c = Ok (s', id') ->
  exists fp', rep s' id' tr fp' /\ own s' id' /\ fr s s' [] /\ sub s fp fp'.
Proof.
  intros Hr Hlk H. destruct tr as [lf es kids]. apply rep_inv in Hr as (n & fps & Hn & Hl & He & Hk & -> & Hnd).
  unfold s_maybe_cow, sget in H. rewrite Hn in H. cbn [bind] in H.
  destruct (Nat.eqb_spec (s_cr n) c) as [Hc|Hc].
  - inversion H; subst s' id'. exists (id :: concat fps). split; [|split; [exists n; auto|split; [apply fr_refl|apply sub_refl]]].
    subst lf es. now constructor.
  - unfold alloc in H. inversion H; subst s' id'. clear H.
    set (n' := mkS c (s_leaf n) (s_elts n) (if s_leaf n then [] else s_kids n)).
    assert (Hfr : fr s (s ++ [n']) []) by apply alloc_fr.
    exists (length s :: concat fps). split; [|split; [|split]].
    + subst lf es. change (s_leaf n) with (s_leaf n'). change (s_elts n) with (s_elts n').
      constructor; [apply nth_alloc| |].
      * cbn [s_kids n']. destruct (s_leaf n) eqn:El.
        -- cbn in Hlk. specialize (Hlk eq_refl). subst kids. inversion Hk; subst. constructor.
        -- eapply reps_fr; [exact Hk|exact Hfr|]. auto.
      * apply NoDup_cons_iff'. apply NoDup_cons_iff' in Hnd as (_ & Hnd). split; [|assumption].
        intros Hi. pose proof (reps_valid _ _ _ _ Hk _ Hi). lia.
    + exists n'. split; [apply nth_alloc|reflexivity].
    + assumption.
    + intros x [<-|Hx]; [right; lia|left; now right].
Qed.

(* the state of a parent whose child i has been made ready for writing *)
Lemma cow_child_sim s pid lf es ka ck kb fp i s' cid :
  rep s pid (Node lf es (ka ++ ck :: kb)) fp -> length ka = i -> own s pid ->
  (n_leaf ck = true -> n_kids ck = []) ->
  s_maybe_cow_child s pid i = Ok (s', cid) ->
  exists n ia ib fa fc fb,
    nth_error s' pid = Some n /\ s_cr n = c /\ s_leaf n = lf /\ s_elts n = es /\ s_kids n = ia ++ cid :: ib /\
    reps s' ia ka fa /\ rep s' cid ck fc /\ reps s' ib kb fb /\ length ia = i /\
    NoDup (pid :: concat (fa ++ fc :: fb)) /\ own s' cid /\
    fr s s' [pid] /\ sub s fp (pid :: concat (fa ++ fc :: fb)).
Proof.
  intros Hr Hi (p0 & Hp0 & Hc0) Hlk H.
  apply rep_inv in Hr as (p & fps & Hp & Hl & He & Hk & -> & Hnd). assert (p0 = p) by congruence. subst p0.
  apply reps_mid in Hk as (ia & cid0 & ib & fa & fc & fb & Hids & -> & Hra & Hrc & Hrb & Lia & Lfa).
  unfold s_maybe_cow_child, sget in H. rewrite Hp in H. cbn [bind] in H.
  destruct (s_leaf p) eqn:Elf.
  { discriminate. }
  rewrite Hids in H. rewrite split_at_app in H by congruence. cbn [bind] in H.
  destruct (s_maybe_cow s cid0 (s_cr p)) as [(s1 & cid')| |] eqn:Ecow; cbn [bind] in H; try discriminate.
  rewrite Hc0 in Ecow.
  destruct (cow_sim _ _ _ _ _ _ Hrc Hlk Ecow) as (fc' & Hrc' & Hoc & Hfr1 & Hsub1).
  assert (Hnd' : NoDup (pid :: concat (fa ++ fc' :: fb))).
  { rewrite concat_mid in *. apply NoDup_cons_iff' in Hnd as (Hpn & Hnd). apply NoDup_cons_iff'.
    apply NoDup_app_iff in Hnd as (Hna & Hncb & Hd1). apply NoDup_app_iff in Hncb as (Hnc & Hnb & Hd2).
    assert (Hnew : forall x, In x fc' -> In x fc \/ (length s <= x)%nat) by exact Hsub1.
    assert (Hva : forall x, In x (concat fa) -> (x < length s)%nat) by (eapply reps_valid; eauto).
    assert (Hvb : forall x, In x (concat fb) -> (x < length s)%nat) by (eapply reps_valid; eauto).
    assert (Hvp : (pid < length s)%nat) by (apply nth_error_Some; congruence).
    split.
    - intros Hi'. apply in_app_iff in Hi' as [Hi'|Hi']; [apply Hpn; apply in_app_iff; now left|].
      apply in_app_iff in Hi' as [Hi'|Hi']; [|apply Hpn; rewrite !in_app_iff; auto].
      destruct (Hnew _ Hi'); [apply Hpn; rewrite !in_app_iff; auto|lia].
    - apply NoDup_app_iff. split; [assumption|]. split.
      + apply NoDup_app_iff. split; [eapply rep_nodup; eauto|]. split; [assumption|].
        intros x Hx Hxb. destruct (Hnew _ Hx) as [Hx'|Hx']; [apply (Hd2 x Hx' Hxb)|specialize (Hvb _ Hxb); lia].
      + intros x Hx Hx2. apply in_app_iff in Hx2 as [Hx2|Hx2].
        * destruct (Hnew _ Hx2) as [Hx'|Hx']; [apply (Hd1 x Hx); apply in_app_iff; now left|specialize (Hva _ Hx); lia].
        * apply (Hd1 x Hx). apply in_app_iff. now right. }
  assert (Hsubp : sub s (pid :: concat (fa ++ fc :: fb)) (pid :: concat (fa ++ fc' :: fb))).
  { intros x [<-|Hx]; [left; now left|]. rewrite concat_mid in *. rewrite !in_app_iff in Hx.
    destruct Hx as [Hx|[Hx|Hx]]; [left; right; rewrite !in_app_iff; auto| |left; right; rewrite !in_app_iff; auto].
    destruct (Hsub1 _ Hx); [left; right; rewrite !in_app_iff; auto|now right]. }
  assert (Hda : forall x, In x (concat fa) -> ~ In x []) by auto.
  destruct (Nat.eqb_spec cid' cid0) as [Heq|Hne].
  - inversion H; subst s' cid. subst cid'.
    destruct Hfr1 as (L1 & F1 & C1). destruct (C1 pid p Hp) as (p1 & Hp1 & Hcp1).
    assert (p1 = p).
    { assert (Hx : nth_error s1 pid = nth_error s pid) by (apply F1; [apply nth_error_Some; congruence|auto]). congruence. }
    subst p1. exists p, ia, ib, fa, fc', fb. repeat split; try assumption; try congruence.
    + eapply reps_fr; [exact Hra|split; [exact L1|split; [exact F1|exact C1]]|auto].
    + eapply reps_fr; [exact Hrb|split; [exact L1|split; [exact F1|exact C1]]|auto].
    + eapply fr_weaken; [split; [exact L1|split; [exact F1|exact C1]]|]. intros x [].
  - destruct (upd s1 pid (fun p1 => w_kids p1 (ia ++ cid' :: ib))) as [s2| |] eqn:Eu; cbn [bind] in H; try discriminate.
    inversion H; subst s' cid. clear H.
    destruct (upd_spec _ _ _ _ Eu) as (p1 & Hp1 & Hp2 & Hlen & Hoth).
    assert (Hfr2 : fr s1 s2 [pid]) by (eapply upd_fr; [exact Eu|reflexivity]).
    assert (Hp1' : p1 = p).
    { destruct Hfr1 as (L1 & F1 & C1). assert (Hx : nth_error s1 pid = nth_error s pid) by (apply F1; [apply nth_error_Some; congruence|auto]). congruence. }
    subst p1.
    assert (Hpne : forall x, In x (concat (fa ++ fc' :: fb)) -> x <> pid).
    { intros x Hx ->. apply NoDup_cons_iff' in Hnd' as (Hn' & _). contradiction. }
    assert (Hfrall : fr s s2 [pid]).
    { eapply fr_trans; [eapply fr_weaken; [exact Hfr1|intros x []]|apply sub_refl|exact Hfr2]. }
    pose proof Hfrall as (Q1 & Q2 & Q3).
    exists (w_kids p (ia ++ cid' :: ib)), ia, ib, fa, fc', fb. cbn [w_kids s_cr s_leaf s_elts s_kids].
    repeat split; try assumption; try congruence.
    + eapply reps_fr; [eapply reps_fr; [exact Hra|exact Hfr1|auto]|exact Hfr2|].
      intros x Hx [<-|[]]. apply (Hpne pid); [rewrite concat_mid, !in_app_iff; auto|reflexivity].
    + eapply rep_fr; [exact Hrc'|exact Hfr2|]. intros x Hx [<-|[]]. apply (Hpne pid); [rewrite concat_mid, !in_app_iff; auto|reflexivity].
    + eapply reps_fr; [eapply reps_fr; [exact Hrb|exact Hfr1|auto]|exact Hfr2|].
      intros x Hx [<-|[]]. apply (Hpne pid); [rewrite concat_mid, !in_app_iff; auto|reflexivity].
    + eapply (ownc_fr c s1 s2 [pid]); [exact Hfr2|exact Hoc].
Qed.

End SIM.
