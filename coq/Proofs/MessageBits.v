(* rcode / opcode / EDNS-version bit packing (dns/rcode.py, dns/opcode.py, Message.set_rcode,
   set_opcode, use_edns): the extended rcode is split between the header and the OPT TTL. *)
From DV Require Import Base.Prelude Model.NameM Model.MessageM.
Open Scope Z_scope.

Lemma land_land_const a c d : Z.land (Z.land a c) d = Z.land a (Z.land c d).
Proof. now rewrite Z.land_assoc. Qed.

Lemma land_small r k : 0 <= r < 2 ^ k -> 0 <= k -> Z.land r (Z.ones k) = r.
Proof. intros H Hk. rewrite Z.land_ones by assumption. apply Z.mod_small; assumption. Qed.

(* from_flags (to_flags r) = r, and the two parts stay inside their fields *)
Lemma rcode_split_lemma r :
  0 <= r < 4096 ->
  exists v ev, rcode_to_flags r = Ok (v, ev) /\ rcode_from_flags v ev = r
               /\ Z.land v 65520 = 0 /\ Z.land ev 16777215 = 0.
Proof.
  intros Hr. unfold rcode_to_flags.
  replace ((r <? 0) || (r >? 4095)) with false by (symmetry; apply orb_false_iff; split; lia).
  eexists _, _; split; [reflexivity|]. unfold rcode_from_flags.
  repeat split.
  - rewrite land_land_const. change (Z.land 15 15) with 15.
    rewrite Z.shiftr_shiftl_l by lia. change (20 - 20) with 0. rewrite Z.shiftl_0_r.
    rewrite land_land_const. change (Z.land 4080 4080) with 4080.
    rewrite <- Z.land_lor_distr_r. change (Z.lor 15 4080) with (Z.ones 12).
    apply land_small; lia.
  - rewrite land_land_const. change (Z.land 15 65520) with 0. apply Z.land_0_r.
  - apply Z.bits_inj'; intros n Hn. rewrite Z.land_spec, Z.bits_0.
    destruct (Z_lt_ge_dec n 24).
    + rewrite Z.shiftl_spec by lia. rewrite Z.land_spec.
      destruct (Z_lt_ge_dec n 20).
      * rewrite (Z.testbit_neg_r r) by lia. reflexivity.
      * assert (Hc : Z.testbit 4080 (n - 20) = false).
        { assert (n - 20 = 0 \/ n - 20 = 1 \/ n - 20 = 2 \/ n - 20 = 3) as [H|[H|[H|H]]] by lia; rewrite H; reflexivity. }
        rewrite Hc. rewrite andb_false_r. reflexivity.
    + replace (Z.testbit 16777215 n) with false; [apply andb_false_r|].
      symmetry. change 16777215 with (Z.ones 24). apply Z.ones_spec_high; lia.
Qed.

Lemma rcode_after_set f e r :
  0 <= r < 4096 ->
  rcode_from_flags (Z.lor (Z.land f 65520) (Z.land r 15))
                   (Z.lor (Z.land e 16777215) (Z.shiftl (Z.land r 4080) 20)) = r.
Proof.
  intros Hr. unfold rcode_from_flags.
  rewrite Z.land_lor_distr_l, !land_land_const.
  change (Z.land 65520 15) with 0. change (Z.land 15 15) with 15. rewrite Z.land_0_r, Z.lor_0_l.
  rewrite Z.shiftr_lor, Z.shiftr_land. change (Z.shiftr 16777215 20) with 15.
  rewrite Z.shiftr_shiftl_l by lia. change (20 - 20) with 0. rewrite Z.shiftl_0_r.
  rewrite Z.land_lor_distr_l, !land_land_const.
  change (Z.land 15 4080) with 0. change (Z.land 4080 4080) with 4080. rewrite Z.land_0_r, Z.lor_0_l.
  rewrite <- Z.land_lor_distr_r. change (Z.lor 15 4080) with (Z.ones 12).
  apply land_small; lia.
Qed.

Lemma rcode_to_flags_ok r :
  0 <= r < 4096 -> rcode_to_flags r = Ok (Z.land r 15, Z.shiftl (Z.land r 4080) 20).
Proof.
  intros Hr. unfold rcode_to_flags.
  replace ((r <? 0) || (r >? 4095)) with false by (symmetry; apply orb_false_iff; split; lia).
  reflexivity.
Qed.

(* Message.set_rcode then Message.rcode() *)
Lemma set_rcode_rcode m r m' :
  0 <= r < 4096 -> m_set_rcode m r = Ok m' -> m_rcode m' = r.
Proof.
  intros Hr. unfold m_set_rcode. rewrite (rcode_to_flags_ok r Hr).
  remember (Z.shiftl (Z.land r 4080) 20) as ev eqn:Eev.
  remember (Z.land r 15) as v eqn:Ev.
  assert (H1 : forall e, rcode_from_flags (Z.lor (Z.land (mflags m) 65520) v)
                                          (Z.lor (Z.land e 16777215) ev) = r)
    by (intros; subst ev v; apply rcode_after_set; assumption).
  pose proof (H1 0) as H0. rewrite Z.land_0_l, Z.lor_0_l in H0.
  cbv beta iota delta [bind fst snd].
  intros H; inversion H; subst m'; clear H.
  unfold m_rcode, set_ednsflags, set_mflags, m_ednsflags; cbn [mopt mflags].
  destruct (mopt m) as [o|] eqn:Eo; cbn [mopt oflags].
  - apply H1.
  - rewrite Z.land_0_l, Z.lor_0_l.
    destruct (ev =? 0) eqn:Ez; cbn [mopt oflags].
    + apply Z.eqb_eq in Ez. rewrite Ez in H0. exact H0.
    + exact H0.
Qed.

Lemma set_rcode_keeps_flags m r m' :
  0 <= r < 4096 ->
  m_set_rcode m r = Ok m' -> Z.land (mflags m') 65520 = Z.land (mflags m) 65520.
Proof.
  intros Hr. unfold m_set_rcode. rewrite (rcode_to_flags_ok r Hr).
  remember (Z.shiftl (Z.land r 4080) 20) as ev eqn:Eev.
  cbv beta iota delta [bind fst snd].
  intros H; inversion H; subst m'; clear H.
  unfold set_ednsflags, set_mflags; cbn [mflags].
  rewrite Z.land_lor_distr_l, !land_land_const. change (Z.land 65520 65520) with 65520.
  change (Z.land 15 65520) with 0. rewrite Z.land_0_r, Z.lor_0_r. reflexivity.
Qed.

Lemma opcode_split o : 0 <= o < 16 -> opcode_from_flags (opcode_to_flags o) = o.
Proof.
  intros Ho. unfold opcode_from_flags, opcode_to_flags.
  rewrite land_land_const. change (Z.land 30720 30720) with 30720.
  rewrite Z.shiftr_land. rewrite Z.shiftr_shiftl_l by lia. change (11 - 11) with 0.
  rewrite Z.shiftl_0_r. change (Z.shiftr 30720 11) with (Z.ones 4). apply land_small; lia.
Qed.

Lemma set_opcode_opcode m o : 0 <= o < 16 -> m_opcode (m_set_opcode m o) = o.
Proof.
  intros Ho. unfold m_opcode, m_set_opcode, set_mflags, opcode_from_flags; cbn [mflags].
  rewrite Z.land_lor_distr_l, !land_land_const. change (Z.land 34815 30720) with 0.
  rewrite Z.land_0_r, Z.lor_0_l. exact (opcode_split o Ho).
Qed.

Lemma set_opcode_keeps_flags m o :
  Z.land (mflags (m_set_opcode m o)) 34815 = Z.land (mflags m) 34815.
Proof.
  unfold m_set_opcode, set_mflags, opcode_to_flags; cbn [mflags].
  rewrite Z.land_lor_distr_l, !land_land_const. change (Z.land 34815 34815) with 34815.
  change (Z.land 30720 34815) with 0. rewrite Z.land_0_r, Z.lor_0_r. reflexivity.
Qed.

(* the EDNS version written by use_edns is the one Message.edns reads back *)
Lemma edns_version_split v ef :
  0 <= v < 256 -> Z.shiftr (Z.land (use_edns_flags v ef) 16711680) 16 = v.
Proof.
  intros Hv. unfold use_edns_flags.
  rewrite Z.land_lor_distr_l, land_land_const. change (Z.land 4278255615 16711680) with 0.
  rewrite Z.land_0_r, Z.lor_0_l. rewrite Z.shiftr_land.
  rewrite Z.shiftr_shiftl_l by lia. change (16 - 16) with 0. rewrite Z.shiftl_0_r.
  change (Z.shiftr 16711680 16) with (Z.ones 8). apply land_small; lia.
Qed.

(* the rcode of a message only depends on the low 4 header bits and the top 8 OPT TTL bits *)
Lemma rcode_field_only f e f' e' :
  Z.land f 15 = Z.land f' 15 -> Z.shiftr e 24 = Z.shiftr e' 24 ->
  rcode_from_flags f e = rcode_from_flags f' e'.
Proof.
  intros Hf He. unfold rcode_from_flags. rewrite Hf. f_equal.
  apply Z.bits_inj'; intros n Hn. rewrite !Z.land_spec, !Z.shiftr_spec by lia.
  destruct (Z_lt_ge_dec n 4).
  - assert (Hc : Z.testbit 4080 n = false).
    { assert (n = 0 \/ n = 1 \/ n = 2 \/ n = 3) as [H|[H|[H|H]]] by lia; rewrite H; reflexivity. }
    rewrite Hc, !andb_false_r. reflexivity.
  - f_equal. replace (n + 20) with ((n - 4) + 24) by lia.
    rewrite <- !Z.shiftr_spec by lia. rewrite He. reflexivity.
Qed.

Lemma set_opcode_then_opcode_lemma : forall m o, 0 <= o < 16 ->
  m_opcode (m_set_opcode m o) = o /\ Z.land (mflags (m_set_opcode m o)) 34815 = Z.land (mflags m) 34815.
Proof. intros. split; [apply set_opcode_opcode; assumption|apply set_opcode_keeps_flags]. Qed.
