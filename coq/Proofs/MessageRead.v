(* What the renderer emits is read back by the reader: names (compressed or not), RDATA by
   schema, whole RRs.  All statements are for rendering without origin (absolute names). *)
From DV Require Import Base.Prelude Model.NameM Model.MessageM.
From DV Require Import Proofs.NameOrder Proofs.NameValid Proofs.NameRel Proofs.NameWire Proofs.NameCompress.
From DV Require Import Proofs.MessageName Proofs.MessageRender.
Open Scope Z_scope.

Ltac nlia := unfold name, label in *; lia.

Definition name_ok (n : name) : Prop := Valid n /\ is_absolute n = true.

(* ---------- an uncompressed name decodes to itself ---------- *)
Lemma nth_error_app_at {A} (pre : list A) x post : nth_error (pre ++ x :: post) (length pre) = Some x.
Proof. induction pre; [reflexivity|exact IHpre]. Qed.

Lemma Dec_plain_ls : forall (ls : list label) pre post b,
  Forall (fun l => l <> [] /\ zlen l <= 63) ls ->
  Dec (pre ++ wire_labels false (ls ++ [[]]) ++ post) (length pre) b (ls ++ [[]])
      (length pre + length (wire_labels false (ls ++ [[]]))).
Proof.
  induction ls as [|l ls IH]; intros pre post b HF.
  - cbn [app wire_labels flat_map length]. change (zlen (@nil Z)) with 0.
    replace (length pre + 1)%nat with (length pre + 1)%nat by lia.
    apply Dec_root. apply nth_error_app_at.
  - inversion HF as [|? ? [Hne Hlen] HF']; subst.
    cbn [app]. rewrite wire_labels_cons. cbn [app length].
    assert (Hl : (0 < length l)%nat) by (destruct l; [congruence|cbn; lia]).
    assert (Hc : 0 < zlen l < 64) by (unfold zlen in *; lia).
    replace (length pre + S (length (l ++ wire_labels false (ls ++ [[]]))))%nat
      with (Nat.max (length pre + 1 + Z.to_nat (zlen l))
                    ((length pre + 1 + Z.to_nat (zlen l)) + length (wire_labels false (ls ++ [[]]))))%nat
      by (rewrite Nat.max_r by nlia; rewrite app_length; unfold zlen; rewrite Nat2Z.id; nlia).
    eapply Dec_label with (count := zlen l).
    + apply nth_error_app_at.
    + exact Hc.
    + repeat (rewrite app_length || cbn [length]). unfold zlen. rewrite Nat2Z.id. nlia.
    + unfold zlen. rewrite Nat2Z.id.
      replace (pre ++ Z.of_nat (length l) :: (l ++ wire_labels false (ls ++ [[]])) ++ post)
        with ((pre ++ [Z.of_nat (length l)]) ++ l ++ (wire_labels false (ls ++ [[]]) ++ post))
        by (rewrite <- !app_assoc; reflexivity).
      replace (length pre + 1)%nat with (length (pre ++ [Z.of_nat (length l)])) by (rewrite app_length; cbn; lia).
      rewrite skipn_app, skipn_all, Nat.sub_diag. cbn [skipn app].
      rewrite firstn_app, firstn_all, Nat.sub_diag. cbn [firstn]. rewrite app_nil_r. reflexivity.
    + replace (pre ++ zlen l :: (l ++ wire_labels false (ls ++ [[]])) ++ post)
        with ((pre ++ zlen l :: l) ++ wire_labels false (ls ++ [[]]) ++ post)
        by (rewrite <- !app_assoc; reflexivity).
      replace (length pre + 1 + Z.to_nat (zlen l))%nat with (length (pre ++ zlen l :: l))
        by (rewrite app_length; cbn [length]; unfold zlen; rewrite Nat2Z.id; lia).
      apply IH. exact HF'.
Qed.

Lemma Dec_plain n pre post b :
  name_ok n ->
  Dec (pre ++ wire_labels false n ++ post) (length pre) b n (length pre + length (wire_labels false n)).
Proof.
  intros (V & A). destruct (Valid_absolute_shape n V A) as (ls & -> & HF). apply Dec_plain_ls. exact HF.
Qed.


(* ---------- names relative to an origin ---------- *)
Definition org_ok (o : option name) : Prop := match o with Some org => name_ok org | None => True end.

(* a name of a message rendered with origin o: absolute and not below the origin (so that
   parsing with the origin leaves it alone), or relative with name ++ origin valid *)
Definition name_wf (o : option name) (n : name) : Prop :=
  (name_ok n /\ match o with Some org => is_subdomain n org = false | None => True end)
  \/ (exists org, o = Some org /\ is_absolute n = false /\ Valid (n ++ org)).

Definition relz (o : option name) (n : name) : res name :=
  match o with Some org => relativize n org | None => Ok n end.

Lemma is_subdomain_ci a a' b : ci_equal a' a -> is_subdomain a' b = is_subdomain a b.
Proof.
  intros H.
  assert (X : forall x y, ci_equal x y -> is_subdomain x b = true -> is_subdomain y b = true).
  { intros x y Hxy Hs. apply is_subdomain_iff in Hs. destruct Hs as (A & p & s & -> & Hs).
    apply is_subdomain_iff. split; [rewrite <- (ci_equal_absolute _ _ Hxy); exact A|].
    pose proof (ci_equal_length _ _ Hxy) as L. rewrite app_length in L.
    exists (firstn (length p) y), (skipn (length p) y). split; [symmetry; apply firstn_skipn|].
    rewrite <- (firstn_skipn (length p) y) in Hxy.
    apply ci_equal_app_inv in Hxy; [|rewrite firstn_length; lia].
    destruct Hxy as (_ & H2). unfold ci_equal in *. congruence. }
  destruct (is_subdomain a' b) eqn:E1; destruct (is_subdomain a b) eqn:E2; try reflexivity.
  - rewrite (X _ _ H E1) in E2. discriminate.
  - assert (H' : ci_equal a a') by (unfold ci_equal in *; congruence).
    rewrite (X _ _ H' E2) in E1. discriminate.
Qed.

Lemma name_wf_full o n : org_ok o -> name_wf o n ->
  exists L, full_labels n o = Ok L /\ name_ok L.
Proof.
  intros OO [(NO & _)|(org & -> & A & V)].
  - exists n. split; [|exact NO]. destruct NO as (V & A). unfold full_labels. rewrite A. cbn [bind]. apply mk_name_valid. exact V.
  - cbn in OO. destruct OO as (Vo & Ao). exists (n ++ org). unfold full_labels. rewrite A, Ao. cbn [bind].
    split; [apply mk_name_valid; exact V|]. split; [exact V|].
    destruct org as [|x org']; [discriminate|]. rewrite is_absolute_app. exact Ao.
Qed.

(* what the reader makes of the decoded labels *)
Lemma name_back o n L L' :
  org_ok o -> name_wf o n -> full_labels n o = Ok L -> ci_equal L' L -> name_ok L' ->
  exists n', relz o L' = Ok n' /\ ci_equal n' n /\ name_wf o n'.
Proof.
  intros OO [(NO & NS)|(org & -> & A & V)] HF CI NO'.
  - assert (L = n).
    { destruct NO as (V & A). unfold full_labels in HF. rewrite A in HF. cbn [bind] in HF.
      rewrite (mk_name_valid _ V) in HF. congruence. }
    subst L. exists L'. destruct o as [org|]; cbn [relz].
    + unfold relativize. rewrite (is_subdomain_ci _ _ _ CI), NS. split; [reflexivity|]. split; [exact CI|].
      left. split; [exact NO'|]. rewrite (is_subdomain_ci _ _ _ CI). exact NS.
    + split; [reflexivity|]. split; [exact CI|]. left. auto.
  - cbn in OO. destruct OO as (Vo & Ao).
    assert (L = n ++ org).
    { unfold full_labels in HF. rewrite A, Ao in HF. cbn [bind] in HF. rewrite (mk_name_valid _ V) in HF. congruence. }
    subst L. cbn [relz].
    pose proof (ci_equal_length _ _ CI) as Ln. rewrite app_length in Ln.
    set (p := firstn (length n) L'). set (s := skipn (length n) L').
    assert (EL : L' = p ++ s) by (symmetry; apply firstn_skipn).
    assert (Lp : length p = length n) by (unfold p; rewrite firstn_length; lia).
    rewrite EL in CI. apply ci_equal_app_inv in CI; [|exact Lp]. destruct CI as (C1 & C2).
    assert (Sd : is_subdomain L' org = true).
    { apply is_subdomain_iff. split; [rewrite (proj2 NO'); symmetry; exact Ao|]. exists p, s. auto. }
    destruct (rel_derel L' org (proj1 NO') Sd) as (r & HR & E1 & E2 & _).
    exists r. split; [exact HR|].
    assert (r = p).
    { pose proof (ci_equal_length _ _ E2) as L2. rewrite skipn_length in L2.
      assert (length r = length p).
      { pose proof (f_equal (@length label) E1) as E1'. rewrite app_length, skipn_length in E1'. lia. }
      rewrite EL in E1. apply app_inj_len in E1; [|symmetry; assumption]. destruct E1 as (-> & _). reflexivity. }
    subst r. split; [exact C1|]. right. exists org. split; [reflexivity|].
    split; [rewrite (ci_equal_absolute _ _ C1); exact A|].
    eapply Valid_ci; [|exact V]. apply ci_equal_app; [unfold ci_equal in *; congruence|reflexivity].
Qed.

(* ---------- one name ---------- *)
Lemma full_labels_abs n o : name_ok n -> full_labels n o = Ok n.
Proof. intros (V & A). unfold full_labels. rewrite A. cbn [bind]. apply mk_name_valid. exact V. Qed.

Lemma TableSound_app file t em : TableSound file t -> TableSound (file ++ em) t.
Proof.
  intros TS k v I. destruct (TS k v I) as (Hv & ls & h & D & R). split; [exact Hv|].
  exists ls, h. split; [apply Dec_app; exact D|exact R].
Qed.

(* writing the labels L (the name made absolute with the origin) *)
Lemma nm_em_sound n o L c file t em t' :
  TableSound file t -> full_labels n o = Ok L -> name_ok L -> nm_em n o c (zlen file) t = Ok (em, t') ->
  TableSound (file ++ em) t' /\
  exists L', ci_equal L' L /\ name_ok L' /\
             Dec (file ++ em) (length file) (length file) L' (length (file ++ em)).
Proof.
  intros TS HF NO H. unfold nm_em in H. rewrite HF in H. cbn [bind] in H.
  destruct NO as (V & A). destruct c.
  - pose proof (tw_loop_em L file t) as E. injection H as H. rewrite H in E. cbn [fst snd] in E.
    destruct (tw_loop_dec L file t _ _ TS V A E) as (em' & ls & Ef & TS' & D & R & Vl).
    split; [exact TS'|]. exists ls. split; [exact R|]. split; [|exact D].
    split; [exact Vl|]. rewrite (ci_equal_absolute _ _ R). exact A.
  - injection H as <- <-. split; [apply TableSound_app; exact TS|].
    exists L. split; [reflexivity|]. split; [split; assumption|].
    rewrite app_length. rewrite <- (app_nil_r (file ++ wire_labels false L)), <- app_assoc.
    apply Dec_plain. split; assumption.
Qed.

Lemma nm_read file em ext endp n' :
  name_ok n' -> Dec (file ++ em) (length file) (length file) n' (length (file ++ em)) ->
  (length (file ++ em) <= endp)%nat ->
  nm_from_wire ((file ++ em) ++ ext) endp (length file) = Ok (n', length (file ++ em)).
Proof. intros (V & _) D H. apply nm_from_wire_Dec; assumption. Qed.

Lemma get_name_relz o w endp cur :
  org_ok o -> get_name w o endp cur = do nc <- nm_from_wire w endp cur; do n <- relz o (fst nc); Ok (n, snd nc).
Proof.
  intros OO. unfold get_name, relz. destruct o as [[|x org]|].
  - destruct OO as (_ & A). discriminate.
  - reflexivity.
  - destruct (nm_from_wire w endp cur) as [[n c]| |]; reflexivity.
Qed.

Lemma relz_total o L : org_ok o -> name_ok L -> exists x, relz o L = Ok x.
Proof.
  intros OO (V & A). destruct o as [org|]; cbn [relz]; [|eauto].
  unfold relativize. destruct (is_subdomain L org) eqn:E; [|eauto].
  destruct (rel_derel L org V E) as (r & HR & _). unfold relativize in HR. rewrite E in HR. eauto.
Qed.

(* ========== simulation: what may replace a name without changing the octets written ========== *)
(* tables with the same offsets and ci-equal keys *)
Definition tbl_ci (t' t : ctable) : Prop :=
  Forall2 (fun kv' kv => ci_equal (fst kv') (fst kv) /\ snd kv' = snd kv) t' t.

Lemma ci_sym a b : ci_equal a b -> ci_equal b a.
Proof. unfold ci_equal. congruence. Qed.
Lemma ci_trans a b c : ci_equal a b -> ci_equal b c -> ci_equal a c.
Proof. unfold ci_equal. congruence. Qed.

Lemma name_eqb_ci2 k k' n n' : ci_equal k' k -> ci_equal n' n -> name_eqb k' n' = name_eqb k n.
Proof.
  intros Hk Hn.
  destruct (name_eqb k' n') eqn:E1; destruct (name_eqb k n) eqn:E2; try reflexivity.
  - apply name_eqb_iff_ci in E1. assert (X : ci_equal k n) by (eapply ci_trans; [apply ci_sym; exact Hk|eapply ci_trans; [exact E1|exact Hn]]).
    apply name_eqb_iff_ci in X. congruence.
  - apply name_eqb_iff_ci in E2. assert (X : ci_equal k' n') by (eapply ci_trans; [exact Hk|eapply ci_trans; [exact E2|apply ci_sym; exact Hn]]).
    apply name_eqb_iff_ci in X. congruence.
Qed.

Lemma tbl_get_ci t' t n' n : tbl_ci t' t -> ci_equal n' n -> tbl_get t' n' = tbl_get t n.
Proof.
  intros H Hn. induction H as [|[k' v'] [k v] t' t (Hk & Hv) _ IH]; [reflexivity|].
  cbn [tbl_get fst snd] in *. rewrite (name_eqb_ci2 k k' n n' Hk Hn). subst v'. rewrite IH. reflexivity.
Qed.

(* L' may replace L when writing with table t: same labels wherever they are written literally,
   ci-equal where a pointer is written *)
Fixpoint lsim (t : ctable) (L' L : name) : Prop :=
  match L', L with
  | [], [] => True
  | l' :: r', l :: r =>
      match tbl_get t (l :: r) with
      | Some _ => ci_equal (l' :: r') (l :: r)
      | None => l' = l /\ lsim t r' r
      end
  | _, _ => False
  end.

Lemma lsim_ci t : forall L' L, lsim t L' L -> ci_equal L' L.
Proof.
  induction L' as [|l' r' IH]; intros [|l r] H; cbn [lsim] in H; try contradiction; [reflexivity|].
  destruct (tbl_get t (l :: r)); [exact H|]. destruct H as (-> & H). apply IH in H.
  unfold ci_equal in *. cbn [map]. f_equal. exact H.
Qed.

Lemma lsim_refl t L : lsim t L L.
Proof.
  induction L as [|l r IH]; [exact Logic.I|]. cbn [lsim]. destruct (tbl_get t (l :: r)); [reflexivity|auto].
Qed.

(* growing the table only weakens the requirement *)
Lemma lsim_mono t more : forall L' L, lsim t L' L -> lsim (t ++ more) L' L.
Proof.
  induction L' as [|l' r' IH]; intros [|l r] H; cbn [lsim] in *; try contradiction; [exact Logic.I|].
  destruct (tbl_get t (l :: r)) as [p|] eqn:E.
  - assert (E' : tbl_get (t ++ more) (l :: r) = Some p).
    { clear - E. induction t as [|[k v] t IHt]; [discriminate|]. cbn [app tbl_get] in *.
      destruct (name_eqb k (l :: r)); [exact E|apply IHt; exact E]. }
    rewrite E'. exact H.
  - destruct H as (-> & H). destruct (tbl_get (t ++ more) (l :: r)).
    + apply lsim_ci in H. unfold ci_equal in *. cbn [map]. f_equal. exact H.
    + split; [reflexivity|apply IH; exact H].
Qed.

(* an entry for a longer name does not matter for the shorter suffixes *)
Lemma lsim_longer t k v : forall L' L, (length L < length k)%nat -> lsim t L' L -> lsim (t ++ [(k, v)]) L' L.
Proof. intros L' L _ H. apply lsim_mono. exact H. Qed.

(* writing L' against t' emits what writing L against t emits *)
Lemma tw_em_sim : forall L' L pos t' t,
  tbl_ci t' t -> lsim t L' L ->
  fst (tw_em L' pos t') = fst (tw_em L pos t) /\ tbl_ci (snd (tw_em L' pos t')) (snd (tw_em L pos t)).
Proof.
  induction L' as [|l' r' IH]; intros [|l r] pos t' t TC H; cbn [lsim] in H; try contradiction.
  - cbn. auto.
  - cbn [tw_em].
    assert (CI : ci_equal (l' :: r') (l :: r)).
    { destruct (tbl_get t (l :: r)); [exact H|]. destruct H as (-> & H). apply lsim_ci in H.
      unfold ci_equal in *. cbn [map]. f_equal. exact H. }
    rewrite (tbl_get_ci t' t _ _ TC CI).
    destruct (tbl_get t (l :: r)) as [p|] eqn:E; [cbn [fst snd]; auto|].
    destruct H as (-> & H).
    assert (Hz : zlen (l :: r') = zlen (l :: r)).
    { unfold zlen. f_equal. cbn [length]. f_equal. apply ci_equal_length. apply lsim_ci in H. exact H. }
    rewrite Hz. cbn [fst snd].
    set (c := (1 <? zlen (l :: r)) && (pos <=? 16383)).
    assert (TC' : tbl_ci (if c then t' ++ [(l :: r', pos)] else t') (if c then t ++ [(l :: r, pos)] else t)).
    { destruct c; [|exact TC]. apply Forall2_app; [exact TC|]. constructor; [|constructor]. cbn [fst snd]. auto. }
    assert (H' : lsim (if c then t ++ [(l :: r, pos)] else t) r' r).
    { destruct c; [apply lsim_mono; exact H|exact H]. }
    destruct (IH r (pos + 1 + zlen l) _ _ TC' H') as (E1 & E2).
    split; [f_equal; f_equal; exact E1|exact E2].
Qed.

Lemma tbl_get_in : forall t k v, In (k, v) t -> exists p, tbl_get t k = Some p.
Proof.
  induction t as [|[k0 v0] t IH]; intros k v H; [contradiction|]. cbn [tbl_get].
  destruct (name_eqb k0 k) eqn:E; [eauto|]. destruct H as [H|H]; [|eapply IH; exact H].
  injection H as -> ->. assert (X : name_eqb k k = true) by (apply name_eqb_iff_ci; reflexivity). congruence.
Qed.

Lemma lsim_of_ci_hit t ls s p : tbl_get t s = Some p -> ci_equal ls s -> lsim t ls s.
Proof.
  intros H C. destruct ls as [|l' r']; destruct s as [|l r]; try (unfold ci_equal in C; discriminate).
  - exact Logic.I.
  - cbn [lsim]. rewrite H. exact C.
Qed.

Lemma lsim_trans t : forall a b c, lsim t a b -> lsim t b c -> lsim t a c.
Proof.
  induction a as [|la ra IH]; intros [|lb rb] [|lc rc] H1 H2; cbn [lsim] in *; try contradiction; [exact Logic.I|].
  assert (Cbc : ci_equal (lb :: rb) (lc :: rc)).
  { destruct (tbl_get t (lc :: rc)); [exact H2|]. destruct H2 as (-> & H2). apply lsim_ci in H2.
    unfold ci_equal in *. cbn [map]. f_equal. exact H2. }
  assert (Eg : tbl_get t (lb :: rb) = tbl_get t (lc :: rc)).
  { apply tbl_get_ci; [|exact Cbc]. clear. induction t as [|[k v] t IHt]; constructor; [split; reflexivity|exact IHt]. }
  rewrite Eg in H1. destruct (tbl_get t (lc :: rc)).
  - eapply ci_trans; eassumption.
  - destruct H1 as (-> & H1). destruct H2 as (-> & H2). split; [reflexivity|]. eapply IH; eassumption.
Qed.

(* the decoded labels agree with the written ones where they were written literally *)
Theorem tw_loop_dec_lsim labels file t file' t' :
  TableSound file t -> Valid labels -> is_absolute labels = true ->
  tw_loop labels false file t = (file', t') ->
  exists em ls,
    file' = file ++ em /\ TableSound file' t' /\
    Dec file' (length file) (length file) ls (length file') /\ lsim t ls labels /\ Valid ls.
Proof.
  intros TS V A L.
  rewrite <- (app_nil_r t) in L.
  destruct (tw_loop_sound false (lsim t)) with (labels := labels) (file := file) (t := t)
    (pend := @nil (name * Z)) (b := length file) (file' := file') (t' := t')
    as (em & new & ls & Ef & Et & D & R & Fnew); auto.
  - (* root *) cbn [lsim]. match goal with |- context [tbl_get t ?x] => destruct (tbl_get t x) end; [unfold ci_equal; reflexivity|split; [reflexivity|exact Logic.I]].
  - (* cons *) intros l ls r H. unfold emit. cbn [lsim]. destruct (tbl_get t (l :: r)).
    + apply lsim_ci in H. unfold ci_equal in *. cbn [map]. f_equal. exact H.
    + auto.
  - apply lsim_trans.
  - (* the table is sound for the finer relation *)
    intros k v I. destruct (TS k v I) as (Hv & ls0 & h0 & D0 & R0). split; [exact Hv|].
    exists ls0, h0. split; [exact D0|]. destruct (tbl_get_in t k v I) as (p & Hp).
    eapply lsim_of_ci_hit; eassumption.
  - (* hits *)
    intros k v I p s E Eq. destruct (tbl_get_in t k v I) as (p0 & Hp).
    assert (C : ci_equal k s) by (apply name_eqb_iff_ci; exact Eq).
    assert (Hs : tbl_get t s = Some p0).
    { rewrite <- Hp. symmetry. apply tbl_get_ci; [|exact C].
      clear. induction t as [|[k0 v0] t IHt]; constructor; [split; reflexivity|exact IHt]. }
    eapply lsim_of_ci_hit; eassumption.
  - intros k v I. destruct (TS k v I) as (_ & ls0 & h0 & D0 & _). apply Dec_bounds in D0. lia.
  - intros k v [].
  - rewrite app_nil_r in Et. exists em, ls. split; [exact Ef|]. split; [|split; [exact D|split; [exact R|]]].
    + intros k v I. rewrite Et in I. apply in_app_or in I. destruct I as [I|I].
      * destruct (TS k v I) as (Hv & ls0 & h0 & D0 & R0). split; [exact Hv|].
        exists ls0, h0. split; [rewrite Ef; apply Dec_app; exact D0|exact R0].
      * rewrite Forall_forall in Fnew. destruct (Fnew _ I) as (Hv & _ & ls0 & h0 & D0 & R0).
        split; [exact Hv|]. exists ls0, h0. split; [exact D0|]. apply lsim_ci in R0. exact R0.
    + eapply Valid_ci; [apply ci_sym; apply lsim_ci in R; exact R|exact V].
Qed.

(* ---------- one name: what was decoded can be written instead of the original ---------- *)
Definition Lsim (c : bool) (t : ctable) (L' L : name) : Prop := if c then lsim t L' L else L' = L.

Lemma Lsim_ci c t L' L : Lsim c t L' L -> ci_equal L' L.
Proof. destruct c; cbn; [apply lsim_ci|intros ->; reflexivity]. Qed.

Lemma Lsim_mono c t more L' L : Lsim c t L' L -> Lsim c (t ++ more) L' L.
Proof. destruct c; cbn; [apply lsim_mono|auto]. Qed.

Lemma nm_em_sound_sim n o L c file t em t' :
  TableSound file t -> full_labels n o = Ok L -> name_ok L -> nm_em n o c (zlen file) t = Ok (em, t') ->
  TableSound (file ++ em) t' /\
  exists L', Lsim c t L' L /\ name_ok L' /\
             Dec (file ++ em) (length file) (length file) L' (length (file ++ em)).
Proof.
  intros TS HF NO H. unfold nm_em in H. rewrite HF in H. cbn [bind] in H.
  destruct NO as (V & A). destruct c.
  - pose proof (tw_loop_em L file t) as E. injection H as H. rewrite H in E. cbn [fst snd] in E.
    destruct (tw_loop_dec_lsim L file t _ _ TS V A E) as (em' & ls & Ef & TS' & D & R & Vl).
    split; [exact TS'|]. exists ls. split; [exact R|]. split; [|exact D].
    split; [exact Vl|]. rewrite (ci_equal_absolute _ _ (lsim_ci _ _ _ R)). exact A.
  - injection H as <- <-. split; [apply TableSound_app; exact TS|].
    exists L. split; [reflexivity|]. split; [split; assumption|].
    rewrite app_length. rewrite <- (app_nil_r (file ++ wire_labels false L)), <- app_assoc.
    apply Dec_plain. split; assumption.
Qed.

Lemma nm_em_resim n' n o c pos t' t em t1 L' L :
  tbl_ci t' t -> full_labels n o = Ok L -> full_labels n' o = Ok L' -> Lsim c t L' L ->
  nm_em n o c pos t = Ok (em, t1) ->
  exists t1', nm_em n' o c pos t' = Ok (em, t1') /\ tbl_ci t1' t1.
Proof.
  intros TC HF HF' S H. unfold nm_em in *. rewrite HF in H. rewrite HF'. cbn [bind] in *.
  destruct c; cbn [Lsim] in S.
  - destruct (tw_em_sim L' L pos t' t TC S) as (E1 & E2). injection H as H.
    exists (snd (tw_em L' pos t')). rewrite H in E1, E2. cbn [fst snd] in E1, E2.
    split; [|exact E2]. rewrite (surjective_pairing (tw_em L' pos t')). rewrite E1. reflexivity.
  - subst L'. injection H as <- <-. exists t'. split; [reflexivity|exact TC].
Qed.

(* the suffix spelled by the origin may replace the decoded spelling of the origin *)
Lemma lsim_replace_suffix t : forall p' n s' org,
  length p' = length n -> ci_equal s' org -> lsim t (p' ++ s') (n ++ org) -> lsim t (p' ++ org) (n ++ org).
Proof.
  induction p' as [|l' r' IH]; intros [|l r] s' org HL CS H; cbn [length] in HL; try discriminate.
  - cbn [app] in *. apply lsim_refl.
  - cbn [app lsim] in *. destruct (tbl_get t (l :: r ++ org)).
    + change (l' :: r' ++ s') with ((l' :: r') ++ s') in H. change (l :: r ++ org) with ((l :: r) ++ org) in H.
      apply ci_equal_app_inv in H; [|cbn [length]; lia]. destruct H as (H1 & _).
      change (l' :: r' ++ org) with ((l' :: r') ++ org). change (l :: r ++ org) with ((l :: r) ++ org).
      apply ci_equal_app; [exact H1|reflexivity].
    + destruct H as (-> & H). split; [reflexivity|]. apply (IH r s' org); [lia|exact CS|exact H].
Qed.

Lemma name_back_sim o n L L' c t :
  org_ok o -> name_wf o n -> full_labels n o = Ok L -> Lsim c t L' L -> name_ok L' ->
  exists n' X, relz o L' = Ok n' /\ ci_equal n' n /\ name_wf o n' /\ full_labels n' o = Ok X /\ Lsim c t X L.
Proof.
  intros OO NW HF S NO'.
  destruct (name_back o n L L' OO NW HF (Lsim_ci _ _ _ _ S) NO') as (n' & HR & CI & NW').
  exists n'.
  destruct NW as [(NO & NS)|(org & -> & A & V)].
  - (* absolute, not below the origin: n' = L' *)
    assert (L = n).
    { destruct NO as (V & A). unfold full_labels in HF. rewrite A in HF. cbn [bind] in HF.
      rewrite (mk_name_valid _ V) in HF. congruence. }
    subst L.
    assert (n' = L').
    { destruct o as [org|]; cbn [relz] in HR; [|congruence].
      unfold relativize in HR. rewrite (is_subdomain_ci _ _ _ (Lsim_ci _ _ _ _ S)), NS in HR. congruence. }
    subst n'. exists L'. split; [exact HR|]. split; [exact CI|]. split; [exact NW'|].
    split; [apply full_labels_abs; exact NO'|exact S].
  - (* relative: n' is the prefix, written again with the origin's own spelling *)
    cbn in OO. destruct OO as (Vo & Ao).
    assert (L = n ++ org).
    { unfold full_labels in HF. rewrite A, Ao in HF. cbn [bind] in HF. rewrite (mk_name_valid _ V) in HF. congruence. }
    subst L.
    destruct NW' as [(NO2 & NS2)|(org2 & E2 & A2 & V2)].
    + (* impossible: n' is ci-equal to the relative n *)
      destruct NO2 as (_ & A2). rewrite (ci_equal_absolute _ _ CI) in A2. congruence.
    + injection E2 as <-. exists (n' ++ org). split; [exact HR|]. split; [exact CI|].
      split; [right; exists org; auto|].
      split.
      { unfold full_labels. rewrite A2, Ao. cbn [bind]. apply mk_name_valid. exact V2. }
      (* L' = n' ++ s' with s' ci org *)
      cbn [relz] in HR.
      pose proof (ci_equal_length _ _ (Lsim_ci _ _ _ _ S)) as Ln. rewrite app_length in Ln.
      assert (Sd : is_subdomain L' org = true).
      { unfold relativize in HR. destruct (is_subdomain L' org) eqn:E; [reflexivity|].
        injection HR as <-. destruct NO' as (_ & AL). congruence. }
      destruct (rel_derel L' org (proj1 NO') Sd) as (r & HR2 & E1 & E2 & _).
      assert (r = n') by congruence. subst r.
      destruct c; cbn [Lsim] in *.
      * rewrite E1 in S. apply (lsim_replace_suffix t n' n (skipn (length n') L') org); [apply ci_equal_length; exact CI|exact E2|exact S].
      * (* exact: L' = n ++ org *)
        subst L'. pose proof (ci_equal_length _ _ CI) as Ln'.
        apply app_inj_len in E1; [|symmetry; exact Ln']. destruct E1 as (<- & _). reflexivity.
Qed.

(* ---------- reading literal octets ---------- *)
Lemma firstn_skipn_mid {A} (pre b post : list A) :
  firstn (length b) (skipn (length pre) (pre ++ b ++ post)) = b.
Proof.
  rewrite skipn_app, skipn_all, Nat.sub_diag. cbn [skipn app].
  rewrite firstn_app, firstn_all, Nat.sub_diag. cbn [firstn]. apply app_nil_r.
Qed.

Lemma rd_bytes_at pre b post endp :
  (length pre + length b <= endp)%nat ->
  rd_bytes (pre ++ b ++ post) endp (length pre) (length b) = Ok b.
Proof.
  intros H. unfold rd_bytes. destruct (Nat.ltb_spec (endp - length pre) (length b)); [lia|].
  rewrite firstn_skipn_mid. reflexivity.
Qed.

Lemma u16_decode v : 0 <= v <= 65535 -> (v / 256) * 256 + v mod 256 = v.
Proof. intros H. pose proof (Z.div_mod v 256). lia. Qed.

Lemma rd_u16_at pre v post endp :
  0 <= v <= 65535 -> (length pre + 2 <= endp)%nat ->
  rd_u16 (pre ++ MessageM.u16 v ++ post) endp (length pre) = Ok v.
Proof.
  intros Hv H. unfold rd_u16. change 2%nat with (length (MessageM.u16 v)).
  rewrite rd_bytes_at by (cbn [length MessageM.u16]; lia).
  cbn [MessageM.u16]. rewrite u16_decode by exact Hv. reflexivity.
Qed.

Lemma u32_decode v : 0 <= v <= 4294967295 ->
  ((v / 16777216 * 256 + (v / 65536) mod 256) * 256 + (v / 256) mod 256) * 256 + v mod 256 = v.
Proof.
  intros H.
  pose proof (Z.div_mod v 256). pose proof (Z.div_mod (v / 256) 256). pose proof (Z.div_mod (v / 65536) 256).
  replace (v / 65536) with (v / 256 / 256) in * by (rewrite Z.div_div by lia; reflexivity).
  replace (v / 16777216) with (v / 256 / 256 / 256) by (rewrite !Z.div_div by lia; reflexivity).
  lia.
Qed.

Lemma rd_u32_at pre v post endp :
  0 <= v <= 4294967295 -> (length pre + 4 <= endp)%nat ->
  rd_u32 (pre ++ MessageM.u32 v ++ post) endp (length pre) = Ok v.
Proof.
  intros Hv H. unfold rd_u32. change 4%nat with (length (MessageM.u32 v)).
  rewrite rd_bytes_at by (cbn [length MessageM.u32]; lia).
  cbn [MessageM.u32]. rewrite u32_decode by exact Hv. reflexivity.
Qed.

Lemma pack16_ok v b : pack16 v = Ok b -> b = MessageM.u16 v /\ 0 <= v <= 65535.
Proof.
  unfold pack16. destruct (Z.leb_spec 0 v); destruct (Z.leb_spec v 65535); cbn [andb]; try discriminate.
  intros H'; inversion H'. split; [reflexivity|lia].
Qed.
Lemma pack32_ok v b : pack32 v = Ok b -> b = MessageM.u32 v /\ 0 <= v <= 4294967295.
Proof.
  unfold pack32. destruct (Z.leb_spec 0 v); destruct (Z.leb_spec v 4294967295); cbn [andb]; try discriminate.
  intros H'; inversion H'. split; [reflexivity|lia].
Qed.

(* ---------- RDATA by schema ---------- *)
Definition piece_wf (o : option name) (p : piece) : Prop :=
  match p with PB _ => True | PN n | PU n | PX n => name_wf o n end.

Definition piece_ci (a b : piece) : Prop :=
  match a, b with
  | PB x, PB y => x = y
  | PN x, PN y => ci_equal x y
  | PU x, PU y => ci_equal x y
  | PX x, PX y => x = y
  | _, _ => False
  end.
Definition rdata_ci (a b : rdata) : Prop := Forall2 piece_ci a b.

(* <character-string>s: at least one, each at most 255 octets *)
Definition txt_wire (ss : list (list Z)) : list Z := flat_map (fun s => zlen s :: s) ss.
Definition txt_ok (b : list Z) : Prop :=
  exists ss, ss <> [] /\ Forall (fun s => zlen s <= 255) ss /\ b = txt_wire ss.

(* the pieces of an rdata follow the reader's field list *)
Inductive shaped : list fld -> rdata -> Prop :=
| sh_nil : shaped [] []
| sh_fix n b fs r : length b = n -> shaped fs r -> shaped (FFix n :: fs) (PB b :: r)
| sh_namec n fs r : shaped fs r -> shaped (FNameC :: fs) (PN n :: r)
| sh_nameu n fs r : shaped fs r -> shaped (FNameU :: fs) (PU n :: r)
| sh_namea n fs r : name_ok n -> shaped fs r -> shaped (FNameA :: fs) (PU n :: r)
| sh_rest b : shaped [FRest] [PB b]
| sh_cnt16 d fs r : zlen d <= 65535 -> shaped fs r -> shaped (FCnt16 :: fs) (PB (MessageM.u16 (zlen d) ++ d) :: r)
| sh_max16 mx v fs r : 0 <= v <= mx -> v <= 65535 -> shaped fs r -> shaped (FMax16 mx :: fs) (PB (MessageM.u16 v) :: r)
| sh_txt b : txt_ok b -> shaped [FTxt] [PB b]
| sh_cnt8 d fs r : zlen d <= 255 -> shaped fs r -> shaped (FCnt8 :: fs) (PB (zlen d :: d) :: r)
| sh_rest1 b : b <> [] -> shaped [FRest1] [PB b]
| sh_chk k b : chk k b = true -> shaped [FChk k] [PB b]
| sh_namex n fs r : shaped fs r -> shaped (FNameX :: fs) (PX n :: r)
| sh_gw0 n i mk b fs r : length b = n -> Z.land (nth i b 0) mk = 0 -> shaped fs r ->
    shaped (FGw n i mk :: fs) (PB b :: r)
| sh_gwip n i mk b a fs r : length b = n ->
    (Z.land (nth i b 0) mk = 1 /\ length a = 4%nat) \/ (Z.land (nth i b 0) mk = 2 /\ length a = 16%nat) -> shaped fs r ->
    shaped (FGw n i mk :: fs) (PB b :: PB a :: r)
| sh_gwn n i mk b nm fs r : length b = n -> Z.land (nth i b 0) mk = 3 -> shaped fs r ->
    shaped (FGw n i mk :: fs) (PB b :: PX nm :: r).

Lemma txt_loop_ok : forall ss pre post fuel endp count,
  Forall (fun s => zlen s <= 255) ss ->
  endp = length (pre ++ txt_wire ss) -> (length (txt_wire ss) < fuel)%nat ->
  txt_loop (pre ++ txt_wire ss ++ post) fuel endp (length pre) count = Ok (count + length ss)%nat.
Proof.
  induction ss as [|s ss IH]; intros pre post fuel endp count HF He Hf.
  - destruct fuel; [lia|]. cbn [txt_loop txt_wire flat_map]. cbn [txt_wire flat_map] in He.
    rewrite app_nil_r in He. subst endp. rewrite Nat.leb_refl. f_equal. cbn [length]. lia.
  - destruct fuel; [lia|]. inversion HF as [|? ? Hs HF']; subst.
    cbn [txt_loop]. cbn [txt_wire flat_map] in *. fold (txt_wire ss) in *.
    assert (Hlen : length (pre ++ (zlen s :: s) ++ txt_wire ss) = (length pre + 1 + length s + length (txt_wire ss))%nat).
    { rewrite !app_length. cbn [length]. lia. }
    destruct (Nat.leb_spec (length (pre ++ (zlen s :: s) ++ txt_wire ss)) (length pre)); [lia|].
    assert (Hu8 : rd_u8 (pre ++ ((zlen s :: s) ++ txt_wire ss) ++ post) (length (pre ++ (zlen s :: s) ++ txt_wire ss)) (length pre) = Ok (zlen s)).
    { unfold rd_u8. change 1%nat with (length [zlen s]).
      replace (pre ++ ((zlen s :: s) ++ txt_wire ss) ++ post) with (pre ++ [zlen s] ++ (s ++ txt_wire ss ++ post))
        by (cbn [app]; rewrite <- !app_assoc; reflexivity).
      rewrite rd_bytes_at by (cbn [length]; lia). reflexivity. }
    rewrite Hu8. cbn [bind].
    replace (pre ++ ((zlen s :: s) ++ txt_wire ss) ++ post) with ((pre ++ [zlen s]) ++ s ++ (txt_wire ss ++ post))
      by (cbn [app]; rewrite <- !app_assoc; reflexivity).
    replace (length pre + 1)%nat with (length (pre ++ [zlen s])) by (rewrite app_length; cbn; lia).
    replace (Z.to_nat (zlen s)) with (length s) by (unfold zlen; rewrite Nat2Z.id; reflexivity).
    rewrite rd_bytes_at by (rewrite app_length; cbn [length]; lia). cbn [bind].
    replace ((pre ++ [zlen s]) ++ s ++ txt_wire ss ++ post) with ((pre ++ zlen s :: s) ++ txt_wire ss ++ post)
      by (rewrite <- !app_assoc; reflexivity).
    replace (length (pre ++ [zlen s]) + length s)%nat with (length (pre ++ zlen s :: s))
      by (rewrite !app_length; cbn [length]; lia).
    rewrite IH.
    + f_equal. cbn [length]. lia.
    + exact HF'.
    + rewrite <- !app_assoc. reflexivity.
    + rewrite app_length in Hf. cbn [length] in Hf. lia.
Qed.

Lemma rdata_ci_refl_pb b r r' : rdata_ci r' r -> rdata_ci (PB b :: r') (PB b :: r).
Proof. intros H. constructor; [reflexivity|exact H]. Qed.

(* names written without compression come back with exactly their labels *)
Lemma full_labels_inj o n n' L :
  name_wf o n -> name_wf o n' -> ci_equal n' n -> full_labels n o = Ok L -> full_labels n' o = Ok L -> n' = n.
Proof.
  intros NW NW' CI HF HF'.
  destruct NW as [((V & A) & NS)|(org & -> & A & V)]; destruct NW' as [((V' & A') & NS')|(org' & E' & A' & V')].
  - unfold full_labels in HF, HF'. rewrite A in HF. rewrite A' in HF'. cbn [bind] in HF, HF'.
    rewrite (mk_name_valid _ V) in HF. rewrite (mk_name_valid _ V') in HF'. congruence.
  - rewrite (ci_equal_absolute _ _ CI) in A'. congruence.
  - rewrite (ci_equal_absolute _ _ CI) in A'. congruence.
  - injection E' as <-. unfold full_labels in HF, HF'. rewrite A in HF. rewrite A' in HF'.
    destruct (is_absolute org); [|discriminate]. cbn [bind] in HF, HF'.
    rewrite (mk_name_valid _ V) in HF. rewrite (mk_name_valid _ V') in HF'.
    assert (E : n' ++ org = n ++ org) by congruence. apply app_inv_tail in E. exact E.
Qed.

Lemma rd_em_read o : org_ok o -> forall fs rd, shaped fs rd ->
  forall c file t em t',
    TableSound file t -> Forall (piece_wf o) rd -> rd_em rd o c (zlen file) t = Ok (em, t') ->
    TableSound (file ++ em) t' /\
    exists rd', rdata_ci rd' rd /\ Forall (piece_wf o) rd' /\ shaped fs rd' /\
      (forall ext acc,
        dec_fields ((file ++ em) ++ ext) fs o (length (file ++ em)) (length file) acc
        = Ok (rev acc ++ rd', length (file ++ em))) /\
      (forall tq, tbl_ci tq t -> exists tq', rd_em rd' o c (zlen file) tq = Ok (em, tq') /\ tbl_ci tq' t').
Proof.
  intros OO fs rd S. induction S as [|n b fs r Hb S IH|n fs r S IH|n fs r S IH|n fs r NOa S IH|b|d fs r Hd S IH|mx v fs r Hv Hv2 S IH|b Hb|d fs r Hd S IH|b Hne|k b Hck|n fs r S IH|n i mk b fs r Hb Ht S IH|n i mk b a fs r Hb Ht S IH|n i mk b nm fs r Hb Ht S IH];
    intros c file t em t' TS PO H.
  - injection H as <- <-. rewrite app_nil_r. split; [exact TS|]. exists []. split; [constructor|]. split; [constructor|]. split; [constructor|]. split.
    + intros ext acc. cbn [dec_fields]. rewrite app_nil_r. reflexivity.
    + intros tq TC. exists tq. split; [reflexivity|exact TC].
  - (* FFix *)
    cbn [rd_em] in H. apply bind_ok in H. destruct H as ([e2 t2] & H2 & H). injection H as <- <-.
    inversion PO as [|? ? _ PO']; subst. rewrite <- zlen_app' in H2.
    destruct (IH c (file ++ b) t e2 t2 (TableSound_app _ _ _ TS) PO' H2) as (TS' & rd' & CI & PO2 & S' & RD & RE).
    rewrite <- app_assoc in TS'. split; [exact TS'|]. exists (PB b :: rd').
    split; [apply rdata_ci_refl_pb; exact CI|]. split; [constructor; [exact Logic.I|exact PO2]|].
    split; [constructor; [reflexivity|exact S']|].
    split; [|intros tq TC; destruct (RE tq TC) as (tq' & E & TC'); exists tq'; split; [|exact TC']; cbn [rd_em]; rewrite <- zlen_app'; rewrite E; reflexivity].
    intros ext acc. cbn [dec_fields].
    replace ((file ++ b ++ e2) ++ ext) with (file ++ b ++ (e2 ++ ext)) by (rewrite <- !app_assoc; reflexivity).
    rewrite rd_bytes_at by (rewrite !app_length; lia). cbn [bind].
    replace (file ++ b ++ e2 ++ ext) with (((file ++ b) ++ e2) ++ ext) by (rewrite <- !app_assoc; reflexivity).
    replace (length file + length b)%nat with (length (file ++ b)) by (rewrite app_length; reflexivity).
    replace (length (file ++ b ++ e2)) with (length ((file ++ b) ++ e2)) by (rewrite <- app_assoc; reflexivity).
    rewrite RD. cbn [rev]. rewrite <- app_assoc. reflexivity.
  - (* FNameC *)
    cbn [rd_em] in H. apply bind_ok in H. destruct H as ([e1 t1] & H1 & H).
    apply bind_ok in H. destruct H as ([e2 t2] & H2 & H). injection H as <- <-. cbn [fst snd] in *.
    inversion PO as [|? ? NW PO']; subst. cbn [piece_wf] in NW.
    destruct (name_wf_full o n OO NW) as (L & HF & NOL).
    destruct (nm_em_sound_sim _ _ _ _ _ _ _ _ TS HF NOL H1) as (TS1 & L' & SL & NO1 & D1).
    destruct (name_back_sim o n L L' _ _ OO NW HF SL NO1) as (n' & X & HRZ & CI1 & NW1 & HFX & SX).
    rewrite <- zlen_app' in H2.
    destruct (IH c (file ++ e1) t1 e2 t2 TS1 PO' H2) as (TS' & rd' & CI & PO2 & S' & RD & RE).
    rewrite <- app_assoc in TS'. split; [exact TS'|]. exists (PN n' :: rd').
    split; [constructor; [exact CI1|exact CI]|]. split; [constructor; [exact NW1|exact PO2]|].
    split; [constructor; exact S'|].
    split; [|intros tq TC; destruct (nm_em_resim n' n o c (zlen file) tq t e1 t1 X L TC HF HFX SX H1) as (tq1 & E1 & TC1); destruct (RE tq1 TC1) as (tq' & E2 & TC'); exists tq'; split; [|exact TC']; cbn [rd_em]; rewrite E1; cbn [bind fst snd]; rewrite <- zlen_app'; rewrite E2; reflexivity].
    intros ext acc. cbn [dec_fields]. rewrite (get_name_relz o _ _ _ OO).
    replace ((file ++ e1 ++ e2) ++ ext) with ((file ++ e1) ++ (e2 ++ ext)) by (rewrite <- !app_assoc; reflexivity).
    rewrite (nm_read file e1 (e2 ++ ext) _ L' NO1 D1) by (rewrite !app_length; lia). cbn [bind fst snd].
    rewrite HRZ. cbn [bind fst snd].
    replace ((file ++ e1) ++ e2 ++ ext) with (((file ++ e1) ++ e2) ++ ext) by (rewrite <- !app_assoc; reflexivity).
    replace (length (file ++ e1 ++ e2)) with (length ((file ++ e1) ++ e2)) by (rewrite <- app_assoc; reflexivity).
    rewrite RD. cbn [rev]. rewrite <- app_assoc. reflexivity.
  - (* FNameU *)
    cbn [rd_em] in H. apply bind_ok in H. destruct H as ([e1 t1] & H1 & H).
    apply bind_ok in H. destruct H as ([e2 t2] & H2 & H). injection H as <- <-. cbn [fst snd] in *.
    inversion PO as [|? ? NW PO']; subst. cbn [piece_wf] in NW.
    destruct (name_wf_full o n OO NW) as (L & HF & NOL).
    destruct (nm_em_sound_sim _ _ _ _ _ _ _ _ TS HF NOL H1) as (TS1 & L' & SL & NO1 & D1).
    destruct (name_back_sim o n L L' _ _ OO NW HF SL NO1) as (n' & X & HRZ & CI1 & NW1 & HFX & SX).
    rewrite <- zlen_app' in H2.
    destruct (IH c (file ++ e1) t1 e2 t2 TS1 PO' H2) as (TS' & rd' & CI & PO2 & S' & RD & RE).
    rewrite <- app_assoc in TS'. split; [exact TS'|]. exists (PU n' :: rd').
    split; [constructor; [exact CI1|exact CI]|]. split; [constructor; [exact NW1|exact PO2]|].
    split; [constructor; exact S'|].
    split; [|intros tq TC; destruct (nm_em_resim n' n o false (zlen file) tq t e1 t1 X L TC HF HFX SX H1) as (tq1 & E1 & TC1); destruct (RE tq1 TC1) as (tq' & E2 & TC'); exists tq'; split; [|exact TC']; cbn [rd_em]; rewrite E1; cbn [bind fst snd]; rewrite <- zlen_app'; rewrite E2; reflexivity].
    intros ext acc. cbn [dec_fields]. rewrite (get_name_relz o _ _ _ OO).
    replace ((file ++ e1 ++ e2) ++ ext) with ((file ++ e1) ++ (e2 ++ ext)) by (rewrite <- !app_assoc; reflexivity).
    rewrite (nm_read file e1 (e2 ++ ext) _ L' NO1 D1) by (rewrite !app_length; lia). cbn [bind fst snd].
    rewrite HRZ. cbn [bind fst snd].
    replace ((file ++ e1) ++ e2 ++ ext) with (((file ++ e1) ++ e2) ++ ext) by (rewrite <- !app_assoc; reflexivity).
    replace (length (file ++ e1 ++ e2)) with (length ((file ++ e1) ++ e2)) by (rewrite <- app_assoc; reflexivity).
    rewrite RD. cbn [rev]. rewrite <- app_assoc. reflexivity.
  - (* FNameA *)
    cbn [rd_em] in H. apply bind_ok in H. destruct H as ([e1 t1] & H1 & H).
    apply bind_ok in H. destruct H as ([e2 t2] & H2 & H). injection H as <- <-. cbn [fst snd] in *.
    inversion PO as [|? ? NW PO']; subst. cbn [piece_wf] in NW.
    destruct (nm_em_sound_sim _ _ _ _ _ _ _ _ TS (full_labels_abs n o NOa) NOa H1) as (TS1 & n' & SL & NO1 & D1).
    pose proof (Lsim_ci _ _ _ _ SL) as CI1.
    assert (NW1 : name_wf o n').
    { left. split; [exact NO1|]. destruct o as [org|]; [|exact Logic.I].
      destruct NW as [(_ & NS)|(org' & _ & A & _)]; [|destruct NOa as (_ & A'); congruence].
      rewrite (is_subdomain_ci _ _ _ CI1). exact NS. }
    rewrite <- zlen_app' in H2.
    destruct (IH c (file ++ e1) t1 e2 t2 TS1 PO' H2) as (TS' & rd' & CI & PO2 & S' & RD & RE).
    rewrite <- app_assoc in TS'. split; [exact TS'|]. exists (PU n' :: rd').
    split; [constructor; [exact CI1|exact CI]|]. split; [constructor; [exact NW1|exact PO2]|].
    split; [constructor; [exact NO1|exact S']|].
    split; [|intros tq TC; destruct (nm_em_resim n' n o false (zlen file) tq t e1 t1 n' n TC (full_labels_abs n o NOa) (full_labels_abs n' o NO1) SL H1) as (tq1 & E1 & TC1); destruct (RE tq1 TC1) as (tq' & E2 & TC'); exists tq'; split; [|exact TC']; cbn [rd_em]; rewrite E1; cbn [bind fst snd]; rewrite <- zlen_app'; rewrite E2; reflexivity].
    intros ext acc. cbn [dec_fields]. unfold get_name.
    replace ((file ++ e1 ++ e2) ++ ext) with ((file ++ e1) ++ (e2 ++ ext)) by (rewrite <- !app_assoc; reflexivity).
    rewrite (nm_read file e1 (e2 ++ ext) _ n' NO1 D1) by (rewrite !app_length; lia). cbn [bind fst snd].
    replace ((file ++ e1) ++ e2 ++ ext) with (((file ++ e1) ++ e2) ++ ext) by (rewrite <- !app_assoc; reflexivity).
    replace (length (file ++ e1 ++ e2)) with (length ((file ++ e1) ++ e2)) by (rewrite <- app_assoc; reflexivity).
    rewrite RD. cbn [rev]. rewrite <- app_assoc. reflexivity.
  - (* FRest *)
    cbn [rd_em] in H. injection H as <- <-. rewrite app_nil_r.
    split; [apply TableSound_app; exact TS|]. exists [PB b].
    split; [constructor; [reflexivity|constructor]|]. split; [exact PO|]. split; [constructor|].
    split; [|intros tq TC; exists tq; split; [cbn [rd_em bind fst snd]; rewrite app_nil_r; reflexivity|exact TC]].
    intros ext acc. cbn [dec_fields].
    replace (length (file ++ b) - length file)%nat with (length b) by (rewrite app_length; lia).
    rewrite <- app_assoc. rewrite rd_bytes_at by (rewrite app_length; lia). cbn [bind rev]. reflexivity.
  - (* FCnt16 *)
    cbn [rd_em] in H. apply bind_ok in H. destruct H as ([e2 t2] & H2 & H). injection H as <- <-.
    inversion PO as [|? ? _ PO']; subst. rewrite <- zlen_app' in H2.
    set (b := MessageM.u16 (zlen d) ++ d) in *.
    destruct (IH c (file ++ b) t e2 t2 (TableSound_app _ _ _ TS) PO' H2) as (TS' & rd' & CI & PO2 & S' & RD & RE).
    rewrite <- app_assoc in TS'. split; [exact TS'|]. exists (PB b :: rd').
    split; [apply rdata_ci_refl_pb; exact CI|]. split; [constructor; [exact Logic.I|exact PO2]|].
    split; [constructor; assumption|].
    split; [|intros tq TC; destruct (RE tq TC) as (tq' & E & TC'); exists tq'; split; [|exact TC']; cbn [rd_em]; rewrite <- zlen_app'; rewrite E; reflexivity].
    intros ext acc. cbn [dec_fields]. pose proof (zlen_nn d) as Hd0.
    change (file ++ zlen d / 256 :: zlen d mod 256 :: d ++ e2) with (file ++ b ++ e2).
    assert (Hlb : length b = (2 + length d)%nat) by (unfold b; rewrite app_length; reflexivity).
    replace ((file ++ b ++ e2) ++ ext) with (file ++ MessageM.u16 (zlen d) ++ (d ++ e2 ++ ext))
      by (unfold b; rewrite <- !app_assoc; reflexivity).
    rewrite rd_u16_at by (try lia; rewrite !app_length; lia). cbn [bind].
    replace (file ++ MessageM.u16 (zlen d) ++ d ++ e2 ++ ext) with ((file ++ MessageM.u16 (zlen d)) ++ d ++ (e2 ++ ext))
      by (rewrite <- !app_assoc; reflexivity).
    replace (length file + 2)%nat with (length (file ++ MessageM.u16 (zlen d))) by (rewrite app_length; reflexivity).
    replace (Z.to_nat (zlen d)) with (length d) by (unfold zlen; rewrite Nat2Z.id; reflexivity).
    rewrite rd_bytes_at by (rewrite !app_length in *; cbn [length MessageM.u16] in *; lia). cbn [bind].
    replace ((file ++ MessageM.u16 (zlen d)) ++ d ++ e2 ++ ext) with (file ++ b ++ (e2 ++ ext))
      by (unfold b; rewrite <- !app_assoc; reflexivity).
    replace (2 + length d)%nat with (length b) by lia.
    rewrite rd_bytes_at by (rewrite !app_length; lia). cbn [bind].
    replace (file ++ b ++ e2 ++ ext) with (((file ++ b) ++ e2) ++ ext) by (rewrite <- !app_assoc; reflexivity).
    replace (length (file ++ MessageM.u16 (zlen d)) + length d)%nat with (length (file ++ b))
      by (rewrite !app_length; cbn [length MessageM.u16]; lia).
    replace (length (file ++ b ++ e2)) with (length ((file ++ b) ++ e2)) by (rewrite <- app_assoc; reflexivity).
    rewrite RD. cbn [rev]. rewrite <- app_assoc. reflexivity.
  - (* FMax16 *)
    cbn [rd_em] in H. apply bind_ok in H. destruct H as ([e2 t2] & H2 & H). injection H as <- <-.
    inversion PO as [|? ? _ PO']; subst. rewrite <- zlen_app' in H2.
    set (b := MessageM.u16 v) in *.
    destruct (IH c (file ++ b) t e2 t2 (TableSound_app _ _ _ TS) PO' H2) as (TS' & rd' & CI & PO2 & S' & RD & RE).
    rewrite <- app_assoc in TS'. split; [exact TS'|]. exists (PB b :: rd').
    split; [apply rdata_ci_refl_pb; exact CI|]. split; [constructor; [exact Logic.I|exact PO2]|].
    split; [constructor; assumption|].
    split; [|intros tq TC; destruct (RE tq TC) as (tq' & E & TC'); exists tq'; split; [|exact TC']; cbn [rd_em]; rewrite <- zlen_app'; rewrite E; reflexivity].
    intros ext acc. cbn [dec_fields].
    change (file ++ v / 256 :: v mod 256 :: e2) with (file ++ b ++ e2).
    replace ((file ++ b ++ e2) ++ ext) with (file ++ MessageM.u16 v ++ (e2 ++ ext))
      by (unfold b; rewrite <- !app_assoc; reflexivity).
    rewrite rd_u16_at by (try lia; unfold b; rewrite !app_length; cbn [length MessageM.u16]; lia). cbn [bind].
    change 2%nat with (length (MessageM.u16 v)) at 1.
    rewrite rd_bytes_at by (unfold b; rewrite !app_length; cbn [length MessageM.u16]; lia). cbn [bind].
    destruct (Z.gtb_spec v mx); [lia|].
    replace (file ++ MessageM.u16 v ++ e2 ++ ext) with (((file ++ b) ++ e2) ++ ext) by (unfold b; rewrite <- !app_assoc; reflexivity).
    replace (length file + 2)%nat with (length (file ++ b)) by (rewrite app_length; reflexivity).
    replace (length (file ++ b ++ e2)) with (length ((file ++ b) ++ e2)) by (rewrite <- app_assoc; reflexivity).
    rewrite RD. cbn [rev]. rewrite <- app_assoc. reflexivity.
  - (* FTxt *)
    cbn [rd_em] in H. injection H as <- <-. rewrite app_nil_r.
    split; [apply TableSound_app; exact TS|]. exists [PB b].
    split; [constructor; [reflexivity|constructor]|]. split; [exact PO|]. split; [constructor; exact Hb|].
    split; [|intros tq TC; exists tq; split; [cbn [rd_em bind fst snd]; rewrite app_nil_r; reflexivity|exact TC]].
    intros ext acc. cbn [dec_fields]. destruct Hb as (ss & Hne & HF & ->).
    replace (length (file ++ txt_wire ss) - length file)%nat with (length (txt_wire ss)) by (rewrite app_length; lia).
    rewrite <- app_assoc.
    rewrite (txt_loop_ok ss file ext _ _ 0 HF eq_refl) by lia. cbn [bind].
    destruct ss as [|s ss]; [congruence|]. cbn [length Nat.add Nat.eqb].
    rewrite rd_bytes_at by (rewrite app_length; lia). cbn [bind rev]. reflexivity.
  - (* FCnt8 *)
    cbn [rd_em] in H. apply bind_ok in H. destruct H as ([e2 t2] & H2 & H). injection H as <- <-.
    inversion PO as [|? ? _ PO']; subst. rewrite <- zlen_app' in H2.
    set (b := zlen d :: d) in *.
    destruct (IH c (file ++ b) t e2 t2 (TableSound_app _ _ _ TS) PO' H2) as (TS' & rd' & CI & PO2 & S' & RD & RE).
    rewrite <- app_assoc in TS'. split; [exact TS'|]. exists (PB b :: rd').
    split; [apply rdata_ci_refl_pb; exact CI|]. split; [constructor; [exact Logic.I|exact PO2]|].
    split; [constructor; assumption|].
    split; [|intros tq TC; destruct (RE tq TC) as (tq' & E & TC'); exists tq'; split; [|exact TC']; cbn [rd_em]; rewrite <- zlen_app'; rewrite E; reflexivity].
    intros ext acc. cbn [dec_fields]. pose proof (zlen_nn d) as Hd0.
    change (file ++ zlen d :: d ++ e2) with (file ++ b ++ e2).
    assert (Hlb : length b = (1 + length d)%nat) by reflexivity.
    assert (Hu8 : rd_u8 ((file ++ b ++ e2) ++ ext) (length (file ++ b ++ e2)) (length file) = Ok (zlen d)).
    { unfold rd_u8. change 1%nat with (length [zlen d]).
      assert (Eq1 : (file ++ b ++ e2) ++ ext = file ++ [zlen d] ++ (d ++ e2 ++ ext)).
      { unfold b. change (zlen d :: d) with ([zlen d] ++ d). rewrite <- !app_assoc. reflexivity. }
      rewrite Eq1.
      rewrite rd_bytes_at by (unfold b; rewrite !app_length; cbn [length]; lia). reflexivity. }
    rewrite Hu8. cbn [bind].
    replace (Z.to_nat (zlen d)) with (length d) by (unfold zlen; rewrite Nat2Z.id; reflexivity).
    replace ((file ++ b ++ e2) ++ ext) with (file ++ b ++ (e2 ++ ext)) by (rewrite <- !app_assoc; reflexivity).
    replace (1 + length d)%nat with (length b) by lia.
    rewrite rd_bytes_at by (rewrite !app_length; lia). cbn [bind].
    replace (file ++ b ++ e2 ++ ext) with (((file ++ b) ++ e2) ++ ext) by (rewrite <- !app_assoc; reflexivity).
    replace (length file + 1 + length d)%nat with (length (file ++ b)) by (rewrite app_length; lia).
    replace (length (file ++ b ++ e2)) with (length ((file ++ b) ++ e2)) by (rewrite <- app_assoc; reflexivity).
    rewrite RD. cbn [rev]. rewrite <- app_assoc. reflexivity.
  - (* FRest1 *)
    cbn [rd_em] in H. injection H as <- <-. rewrite app_nil_r.
    split; [apply TableSound_app; exact TS|]. exists [PB b].
    split; [constructor; [reflexivity|constructor]|]. split; [exact PO|]. split; [constructor; exact Hne|].
    split; [|intros tq TC; exists tq; split; [cbn [rd_em bind fst snd]; rewrite app_nil_r; reflexivity|exact TC]].
    intros ext acc. cbn [dec_fields].
    replace (length (file ++ b) - length file)%nat with (length b) by (rewrite app_length; lia).
    destruct b as [|x b']; [congruence|]. cbn [length Nat.eqb].
    rewrite <- app_assoc. rewrite rd_bytes_at by (rewrite app_length; lia). cbn [bind rev]. reflexivity.
  - (* FChk *)
    cbn [rd_em] in H. injection H as <- <-. rewrite app_nil_r.
    split; [apply TableSound_app; exact TS|]. exists [PB b].
    split; [constructor; [reflexivity|constructor]|]. split; [exact PO|]. split; [constructor; exact Hck|].
    split; [|intros tq TC; exists tq; split; [cbn [rd_em bind fst snd]; rewrite app_nil_r; reflexivity|exact TC]].
    intros ext acc. cbn [dec_fields].
    replace (length (file ++ b) - length file)%nat with (length b) by (rewrite app_length; lia).
    rewrite <- app_assoc. rewrite rd_bytes_at by (rewrite app_length; lia). cbn [bind]. rewrite Hck. cbn [rev]. reflexivity.
  - (* FNameX *)
    cbn [rd_em] in H. apply bind_ok in H. destruct H as ([e1 t1] & H1 & H).
    apply bind_ok in H. destruct H as ([e2 t2] & H2 & H). injection H as <- <-. cbn [fst snd] in *.
    inversion PO as [|? ? NW PO']; subst. cbn [piece_wf] in NW.
    destruct (name_wf_full o n OO NW) as (L & HF & NOL).
    destruct (nm_em_sound_sim _ _ _ _ _ _ _ _ TS HF NOL H1) as (TS1 & L' & SL & NO1 & D1).
    destruct (name_back_sim o n L L' _ _ OO NW HF SL NO1) as (n' & X & HRZ & CI1 & NW1 & HFX & SX).
    assert (n' = n).
    { cbn [Lsim] in SX. subst X. exact (full_labels_inj o n n' L NW NW1 CI1 HF HFX). }
    subst n'.
    rewrite <- zlen_app' in H2.
    destruct (IH c (file ++ e1) t1 e2 t2 TS1 PO' H2) as (TS' & rd' & CI & PO2 & S' & RD & RE).
    rewrite <- app_assoc in TS'. split; [exact TS'|]. exists (PX n :: rd').
    split; [constructor; [reflexivity|exact CI]|]. split; [constructor; [exact NW1|exact PO2]|].
    split; [constructor; exact S'|].
    split; [|intros tq TC; destruct (nm_em_resim n n o false (zlen file) tq t e1 t1 L L TC HF HF eq_refl H1) as (tq1 & E1 & TC1); destruct (RE tq1 TC1) as (tq' & E2 & TC'); exists tq'; split; [|exact TC']; cbn [rd_em]; rewrite E1; cbn [bind fst snd]; rewrite <- zlen_app'; rewrite E2; reflexivity].
    intros ext acc. cbn [dec_fields]. rewrite (get_name_relz o _ _ _ OO).
    replace ((file ++ e1 ++ e2) ++ ext) with ((file ++ e1) ++ (e2 ++ ext)) by (rewrite <- !app_assoc; reflexivity).
    rewrite (nm_read file e1 (e2 ++ ext) _ L' NO1 D1) by (rewrite !app_length; lia). cbn [bind fst snd].
    rewrite HRZ. cbn [bind fst snd].
    replace ((file ++ e1) ++ e2 ++ ext) with (((file ++ e1) ++ e2) ++ ext) by (rewrite <- !app_assoc; reflexivity).
    replace (length (file ++ e1 ++ e2)) with (length ((file ++ e1) ++ e2)) by (rewrite <- app_assoc; reflexivity).
    rewrite RD. cbn [rev]. rewrite <- app_assoc. reflexivity.
  - (* FGw, nothing *)
    cbn [rd_em] in H. apply bind_ok in H. destruct H as ([e2 t2] & H2 & H). injection H as <- <-.
    inversion PO as [|? ? _ PO']; subst. rewrite <- zlen_app' in H2.
    destruct (IH c (file ++ b) t e2 t2 (TableSound_app _ _ _ TS) PO' H2) as (TS' & rd' & CI & PO2 & S' & RD & RE).
    rewrite <- app_assoc in TS'. split; [exact TS'|]. exists (PB b :: rd').
    split; [apply rdata_ci_refl_pb; exact CI|]. split; [constructor; [exact Logic.I|exact PO2]|].
    split; [apply sh_gw0; [reflexivity|exact Ht|exact S']|].
    split; [|intros tq TC; destruct (RE tq TC) as (tq' & E & TC'); exists tq'; split; [|exact TC']; cbn [rd_em]; rewrite <- zlen_app'; rewrite E; reflexivity].
    intros ext acc. cbn [dec_fields].
    replace ((file ++ b ++ e2) ++ ext) with (file ++ b ++ (e2 ++ ext)) by (rewrite <- !app_assoc; reflexivity).
    rewrite rd_bytes_at by (rewrite !app_length; lia). cbn [bind]. rewrite Ht. change (0 =? 0) with true. cbv iota.
    replace (file ++ b ++ e2 ++ ext) with (((file ++ b) ++ e2) ++ ext) by (rewrite <- !app_assoc; reflexivity).
    replace (length file + length b)%nat with (length (file ++ b)) by (rewrite app_length; reflexivity).
    replace (length (file ++ b ++ e2)) with (length ((file ++ b) ++ e2)) by (rewrite <- app_assoc; reflexivity).
    rewrite RD. cbn [rev]. rewrite <- app_assoc. reflexivity.
  - (* FGw, an address *)
    cbn [rd_em] in H. apply bind_ok in H. destruct H as ([e2 t2] & H2 & H). injection H as <- <-.
    apply bind_ok in H2. destruct H2 as ([e3 t3] & H3 & H2). injection H2 as <- <-.
    inversion PO as [|? ? _ PO1]; subst. inversion PO1 as [|? ? _ PO']; subst.
    rewrite <- zlen_app' in H3. rewrite <- zlen_app' in H3.
    assert (TSa : TableSound ((file ++ b) ++ a) t) by (apply TableSound_app; apply TableSound_app; exact TS).
    destruct (IH c ((file ++ b) ++ a) t e3 t3 TSa PO' H3) as (TS' & rd' & CI & PO2 & S' & RD & RE).
    replace (file ++ b ++ a ++ e3) with (((file ++ b) ++ a) ++ e3) by (rewrite <- !app_assoc; reflexivity).
    split; [exact TS'|]. exists (PB b :: PB a :: rd').
    split; [apply rdata_ci_refl_pb; apply rdata_ci_refl_pb; exact CI|].
    split; [constructor; [exact Logic.I|constructor; [exact Logic.I|exact PO2]]|].
    split; [apply sh_gwip; [reflexivity|exact Ht|exact S']|].
    split; [|intros tq TC; destruct (RE tq TC) as (tq' & E & TC'); exists tq'; split; [|exact TC']; cbn [rd_em]; rewrite <- !zlen_app'; rewrite E; reflexivity].
    intros ext acc. cbn [dec_fields].
    replace ((((file ++ b) ++ a) ++ e3) ++ ext) with (file ++ b ++ (a ++ e3 ++ ext)) by (rewrite <- !app_assoc; reflexivity).
    rewrite rd_bytes_at by (rewrite !app_length; lia). cbn [bind].
    assert (Hk : (if Z.land (nth i b 0) mk =? 1 then 4%nat else 16%nat) = length a).
    { destruct Ht as [(E & L)|(E & L)]; rewrite E; cbn; lia. }
    assert (Hsel : (Z.land (nth i b 0) mk =? 0) = false /\ ((Z.land (nth i b 0) mk =? 1) || (Z.land (nth i b 0) mk =? 2)) = true).
    { destruct Ht as [(E & L)|(E & L)]; rewrite E; split; reflexivity. }
    destruct Hsel as (S0 & S12). rewrite S0, S12. cbv iota. rewrite Hk.
    replace (file ++ b ++ a ++ e3 ++ ext) with ((file ++ b) ++ a ++ (e3 ++ ext)) by (rewrite <- !app_assoc; reflexivity).
    replace (length file + length b)%nat with (length (file ++ b)) by (rewrite app_length; reflexivity).
    rewrite rd_bytes_at by (rewrite !app_length; lia). cbn [bind].
    replace ((file ++ b) ++ a ++ e3 ++ ext) with ((((file ++ b) ++ a) ++ e3) ++ ext) by (rewrite <- !app_assoc; reflexivity).
    replace (length (file ++ b) + length a)%nat with (length ((file ++ b) ++ a)) by (rewrite app_length; reflexivity).
    rewrite RD. cbn [rev]. rewrite <- !app_assoc. reflexivity.
  - (* FGw, a name *)
    cbn [rd_em] in H. apply bind_ok in H. destruct H as ([e0 t0] & H0 & H). injection H as <- <-.
    apply bind_ok in H0. destruct H0 as ([e1 t1] & H1 & H0).
    apply bind_ok in H0. destruct H0 as ([e2 t2] & H2 & H0). injection H0 as <- <-. cbn [fst snd] in *.
    inversion PO as [|? ? _ PO1]; subst. inversion PO1 as [|? ? NW PO']; subst. cbn [piece_wf] in NW.
    rewrite <- zlen_app' in H1.
    destruct (name_wf_full o nm OO NW) as (L & HF & NOL).
    destruct (nm_em_sound_sim _ _ _ _ _ _ _ _ (TableSound_app _ _ _ TS) HF NOL H1) as (TS1 & L' & SL & NO1 & D1).
    destruct (name_back_sim o nm L L' _ _ OO NW HF SL NO1) as (n' & X & HRZ & CI1 & NW1 & HFX & SX).
    assert (n' = nm).
    { cbn [Lsim] in SX. subst X. exact (full_labels_inj o nm n' L NW NW1 CI1 HF HFX). }
    subst n'.
    rewrite <- !zlen_app' in H2.
    destruct (IH c ((file ++ b) ++ e1) t1 e2 t2 TS1 PO' H2) as (TS' & rd' & CI & PO2 & S' & RD & RE).
    replace (file ++ b ++ e1 ++ e2) with (((file ++ b) ++ e1) ++ e2) by (rewrite <- !app_assoc; reflexivity).
    split; [exact TS'|]. exists (PB b :: PX nm :: rd').
    split; [apply rdata_ci_refl_pb; constructor; [reflexivity|exact CI]|].
    split; [constructor; [exact Logic.I|constructor; [exact NW1|exact PO2]]|].
    split; [apply sh_gwn; [reflexivity|exact Ht|exact S']|].
    split; [|intros tq TC; destruct (nm_em_resim nm nm o false (zlen (file ++ b)) tq t e1 t1 L L TC HF HF eq_refl H1) as (tq1 & E1 & TC1); destruct (RE tq1 TC1) as (tq' & E2 & TC'); exists tq'; split; [|exact TC']; cbn [rd_em]; rewrite <- zlen_app'; rewrite E1; cbn [bind fst snd]; rewrite <- zlen_app'; rewrite E2; reflexivity].
    intros ext acc. cbn [dec_fields].
    replace ((((file ++ b) ++ e1) ++ e2) ++ ext) with (file ++ b ++ (e1 ++ e2 ++ ext)) by (rewrite <- !app_assoc; reflexivity).
    rewrite rd_bytes_at by (rewrite !app_length; lia). cbn [bind]. rewrite Ht.
    change (3 =? 0) with false. change ((3 =? 1) || (3 =? 2)) with false. change (3 =? 3) with true. cbv iota.
    rewrite (get_name_relz o _ _ _ OO).
    replace (file ++ b ++ e1 ++ e2 ++ ext) with (((file ++ b) ++ e1) ++ (e2 ++ ext)) by (rewrite <- !app_assoc; reflexivity).
    replace (length file + length b)%nat with (length (file ++ b)) by (rewrite app_length; reflexivity).
    rewrite (nm_read (file ++ b) e1 (e2 ++ ext) _ L' NO1 D1) by (rewrite !app_length; lia). cbn [bind fst snd].
    rewrite HRZ. cbn [bind fst snd].
    replace (((file ++ b) ++ e1) ++ e2 ++ ext) with ((((file ++ b) ++ e1) ++ e2) ++ ext) by (rewrite <- !app_assoc; reflexivity).
    rewrite RD. cbn [rev]. rewrite <- !app_assoc. reflexivity.
Qed.

(* ---------- one RR ---------- *)
Lemma rr_em_read_x o ro fs owner Lown ty cl ttl rd oc rc file t em t' :
  org_ok o -> org_ok ro -> TableSound file t -> full_labels owner o = Ok Lown -> name_ok Lown ->
  Forall (piece_wf ro) rd -> shaped fs rd ->
  rr_em owner ty cl ttl rd o ro oc rc (zlen file) t = Ok (em, t') ->
  TableSound (file ++ em) t' /\
  0 <= ty <= 65535 /\ 0 <= cl <= 65535 /\ 0 <= ttl <= 4294967295 /\
  exists owner' x rd' (c1 rdl : nat),
    ci_equal owner' Lown /\ name_ok owner' /\ relz o owner' = Ok x /\
    rdata_ci rd' rd /\ Forall (piece_wf ro) rd' /\ shaped fs rd' /\
    (c1 + 10 + rdl = length (file ++ em))%nat /\ (length file < c1)%nat /\ Z.of_nat rdl <= 65535 /\
    (forall ext,
      rr_head ((file ++ em) ++ ext) o (length file)
        = Ok (owner', x, c1, ty, cl, ttl, Z.of_nat rdl) /\
      forall acc, dec_fields ((file ++ em) ++ ext) fs ro (length (file ++ em)) (c1 + 10) acc
                  = Ok (rev acc ++ rd', length (file ++ em))) /\
    Lsim oc t owner' Lown /\
    (forall tq ownq Lq, tbl_ci tq t -> full_labels ownq o = Ok Lq -> Lsim oc t Lq Lown ->
       exists tq', rr_em ownq ty cl ttl rd' o ro oc rc (zlen file) tq = Ok (em, tq') /\ tbl_ci tq' t').
Proof.
  intros OO OR TS HFo NO PO S H. unfold rr_em in H.
  apply bind_ok in H. destruct H as ([e1 t1] & H1 & H).
  apply bind_ok in H. destruct H as (h1 & E1 & H). apply bind_ok in H. destruct H as (h2 & E2 & H).
  apply bind_ok in H. destruct H as (h3 & E3 & H). apply bind_ok in H. destruct H as ([e2 t2] & H2 & H).
  cbn [fst snd] in *. destruct (Z.gtb_spec (zlen e2) 65535) as [|Hlen]; [discriminate|].
  remember (MessageM.u16 (zlen e2)) as h4 eqn:E4.
  injection H as <- <-.
  pose proof E1 as P1. pose proof E2 as P2. pose proof E3 as P3.
  apply pack16_ok in E1, E2. apply pack32_ok in E3. destruct E1 as (-> & R1). destruct E2 as (-> & R2). destruct E3 as (-> & R3).
  subst h4.
  destruct (nm_em_sound_sim _ _ _ _ _ _ _ _ TS HFo NO H1) as (TS1 & owner' & SL & NO1 & D1).
  pose proof (Lsim_ci _ _ _ _ SL) as CI1.
  destruct (relz_total o owner' OO NO1) as (x & HX).
  set (hdr := MessageM.u16 ty ++ MessageM.u16 cl ++ MessageM.u32 ttl ++ MessageM.u16 (zlen e2)).
  assert (Hh : length hdr = 10%nat) by reflexivity.
  set (file1 := (file ++ e1) ++ hdr).
  assert (Hpos : zlen file + zlen e1 + 10 = zlen file1).
  { unfold file1. rewrite !zlen_app'. unfold zlen at 5. rewrite Hh. lia. }
  rewrite Hpos in H2.
  destruct (rd_em_read ro OR fs rd S rc file1 t1 e2 t2 (TableSound_app _ _ _ TS1) PO H2) as (TS2 & rd' & CI2 & PO2 & S2 & RD & RE).
  assert (Eq : file ++ e1 ++ MessageM.u16 ty ++ MessageM.u16 cl ++ MessageM.u32 ttl ++ MessageM.u16 (zlen e2) ++ e2 = file1 ++ e2).
  { unfold file1, hdr. rewrite <- !app_assoc. reflexivity. }
  rewrite Eq. split; [exact TS2|]. split; [exact R1|]. split; [exact R2|]. split; [exact R3|].
  exists owner', x, rd', (length (file ++ e1)), (length e2).
  split; [exact CI1|]. split; [exact NO1|]. split; [exact HX|]. split; [exact CI2|]. split; [exact PO2|]. split; [exact S2|].
  pose proof (Dec_bounds _ _ _ _ _ D1) as (B1 & B2 & B3).
  split; [unfold file1; rewrite !app_length; lia|]. split; [lia|]. split; [unfold zlen in Hlen; lia|].
  split; [|split; [exact SL|]].
  2:{ intros tq ownq Lq TC HFq SLq.
      destruct (nm_em_resim ownq owner o oc (zlen file) tq t e1 t1 Lq Lown TC HFo HFq SLq H1) as (tq1 & E1 & TC1).
      destruct (RE tq1 TC1) as (tq' & E2 & TC'). exists tq'. split; [|exact TC'].
      unfold rr_em. rewrite E1. cbn [bind fst snd]. rewrite P1, P2, P3. cbn [bind]. rewrite Hpos, E2. cbn [bind fst snd].
      destruct (Z.gtb_spec (zlen e2) 65535); [lia|]. reflexivity. }
  intros ext. split.
  - unfold rr_head.
    replace ((file1 ++ e2) ++ ext) with ((file ++ e1) ++ (hdr ++ e2 ++ ext)) by (unfold file1; rewrite <- !app_assoc; reflexivity).
    rewrite (nm_read file e1 _ _ owner' NO1 D1) by (rewrite !app_length; lia). cbn [bind fst snd].
    change (match o with Some o0 => relativize owner' o0 | None => Ok owner' end) with (relz o owner'). rewrite HX. cbn [bind].
    set (endp := length ((file ++ e1) ++ hdr ++ e2 ++ ext)).
    assert (He : (length (file ++ e1) + 10 <= endp)%nat) by (unfold endp; rewrite !app_length; lia).
    replace ((file ++ e1) ++ hdr ++ e2 ++ ext)
      with ((file ++ e1) ++ MessageM.u16 ty ++ (MessageM.u16 cl ++ MessageM.u32 ttl ++ MessageM.u16 (zlen e2) ++ e2 ++ ext))
      by (unfold hdr; rewrite <- !app_assoc; reflexivity).
    rewrite rd_u16_at by (try lia). cbn [bind].
    replace ((file ++ e1) ++ MessageM.u16 ty ++ MessageM.u16 cl ++ MessageM.u32 ttl ++ MessageM.u16 (zlen e2) ++ e2 ++ ext)
      with (((file ++ e1) ++ MessageM.u16 ty) ++ MessageM.u16 cl ++ (MessageM.u32 ttl ++ MessageM.u16 (zlen e2) ++ e2 ++ ext))
      by (rewrite <- !app_assoc; reflexivity).
    replace (length (file ++ e1) + 2)%nat with (length ((file ++ e1) ++ MessageM.u16 ty)) by (rewrite app_length; reflexivity).
    rewrite rd_u16_at by (try lia; rewrite app_length; cbn [length MessageM.u16]; lia). cbn [bind].
    replace (((file ++ e1) ++ MessageM.u16 ty) ++ MessageM.u16 cl ++ MessageM.u32 ttl ++ MessageM.u16 (zlen e2) ++ e2 ++ ext)
      with (((file ++ e1) ++ MessageM.u16 ty ++ MessageM.u16 cl) ++ MessageM.u32 ttl ++ (MessageM.u16 (zlen e2) ++ e2 ++ ext))
      by (rewrite <- !app_assoc; reflexivity).
    replace (length (file ++ e1) + 4)%nat with (length ((file ++ e1) ++ MessageM.u16 ty ++ MessageM.u16 cl))
      by (rewrite !app_length; cbn [length MessageM.u16]; lia).
    rewrite rd_u32_at by (try lia; rewrite !app_length in *; cbn [length MessageM.u16]; lia). cbn [bind].
    replace (((file ++ e1) ++ MessageM.u16 ty ++ MessageM.u16 cl) ++ MessageM.u32 ttl ++ MessageM.u16 (zlen e2) ++ e2 ++ ext)
      with (((file ++ e1) ++ MessageM.u16 ty ++ MessageM.u16 cl ++ MessageM.u32 ttl) ++ MessageM.u16 (zlen e2) ++ (e2 ++ ext))
      by (rewrite <- !app_assoc; reflexivity).
    replace (length (file ++ e1) + 8)%nat with (length ((file ++ e1) ++ MessageM.u16 ty ++ MessageM.u16 cl ++ MessageM.u32 ttl))
      by (rewrite !app_length; cbn [length MessageM.u16 MessageM.u32]; lia).
    pose proof (zlen_nn e2).
    rewrite rd_u16_at by (try lia; rewrite !app_length in *; cbn [length MessageM.u16 MessageM.u32]; lia). cbn [bind].
    unfold zlen. reflexivity.
  - intros acc. replace (length (file ++ e1) + 10)%nat with (length file1) by (unfold file1; rewrite !app_length; lia).
    apply RD.
Qed.

Lemma rr_em_read o ro fs owner Lown ty cl ttl rd oc rc file t em t' :
  org_ok o -> org_ok ro -> TableSound file t -> full_labels owner o = Ok Lown -> name_ok Lown ->
  Forall (piece_wf ro) rd -> shaped fs rd ->
  rr_em owner ty cl ttl rd o ro oc rc (zlen file) t = Ok (em, t') ->
  TableSound (file ++ em) t' /\
  0 <= ty <= 65535 /\ 0 <= cl <= 65535 /\ 0 <= ttl <= 4294967295 /\
  exists owner' x rd' (c1 rdl : nat),
    ci_equal owner' Lown /\ name_ok owner' /\ relz o owner' = Ok x /\
    rdata_ci rd' rd /\ Forall (piece_wf ro) rd' /\ shaped fs rd' /\
    (c1 + 10 + rdl = length (file ++ em))%nat /\ (length file < c1)%nat /\ Z.of_nat rdl <= 65535 /\
    forall ext,
      rr_head ((file ++ em) ++ ext) o (length file)
        = Ok (owner', x, c1, ty, cl, ttl, Z.of_nat rdl) /\
      forall acc, dec_fields ((file ++ em) ++ ext) fs ro (length (file ++ em)) (c1 + 10) acc
                  = Ok (rev acc ++ rd', length (file ++ em)).
Proof.
  intros OO OR TS HFo NO PO S H.
  destruct (rr_em_read_x o ro fs owner Lown ty cl ttl rd oc rc file t em t' OO OR TS HFo NO PO S H)
    as (TS' & R1 & R2 & R3 & owner' & x & rd' & c1 & rdl & A1 & A2 & A3 & A4 & A5 & A6 & A7 & A8 & A9 & A10 & _).
  split; [exact TS'|]. split; [exact R1|]. split; [exact R2|]. split; [exact R3|].
  exists owner', x, rd', c1, rdl. repeat (split; [assumption|]). exact A10.
Qed.

(* ---------- the reader on one emitted RR ---------- *)
Definition po0 : popts := mkPopts false false false false true false.

Definition rd_covers (ty : Z) (rd : rdata) : Z :=
  if is_sigtype ty then match rd with PB (a :: b :: _) :: _ => a * 256 + b | _ => 0 end else 0.

(* what the wire holds at off: an RR that reads back as (owner', ty, cl, ttl, rd') and ends at end_ *)
Definition RRreads (o ro : option name) (w : list Z) (off : nat) (abs' owner' : name) (ty cl ttl : Z) (fs : list fld)
           (rd' : rdata) (end_ : nat) : Prop :=
  exists c1 rdl : nat,
    (c1 + 10 + rdl = end_)%nat /\ (end_ <= length w)%nat /\ (off < c1)%nat /\ Z.of_nat rdl <= 65535 /\
    forall ext,
      rr_head (w ++ ext) o off = Ok (abs', owner', c1, ty, cl, ttl, Z.of_nat rdl) /\
      forall acc, dec_fields (w ++ ext) fs ro end_ (c1 + 10) acc = Ok (rev acc ++ rd', end_).

Lemma RRreads_app o ro w more off abs' owner' ty cl ttl fs rd' end_ :
  RRreads o ro w off abs' owner' ty cl ttl fs rd' end_ -> RRreads o ro (w ++ more) off abs' owner' ty cl ttl fs rd' end_.
Proof.
  intros (c1 & rdl & A & B & C & D & E). exists c1, rdl. repeat split; try assumption.
  - rewrite app_length. lia.
  - rewrite <- app_assoc. apply E.
  - rewrite <- app_assoc. apply E.
Qed.

Lemma get_rr_ordinary o w off abs' owner' ty cl ttl fs rd' end_ ext sec count i fu m :
  RRreads o o w off abs' owner' ty cl ttl fs rd' end_ ->
  ty <> tOPT -> ty <> tTSIG -> schema_of cl ty = Some fs -> 0 <= ttl <= 2147483647 ->
  get_rr (w ++ ext) o po0 false sec count i off fu m
  = Ok (end_, fu, set_sec m sec (find_add (get_sec m sec) owner' cl ty (rd_covers ty rd') None fu
                                          (fun rs => rrset_add rs rd' ttl))).
Proof.
  intros (c1 & rdl & A & B & C & D & E) H1 H2 HS Httl.
  destruct (E ext) as (EH & ED). unfold get_rr. rewrite EH. cbn [bind].
  assert (E1 : (ty =? tOPT) = false) by (apply Z.eqb_neq; assumption).
  assert (E2 : (ty =? tTSIG) = false) by (apply Z.eqb_neq; assumption).
  rewrite !E1, !E2.
  cbn [orb]. unfold parse_rr_header. cbn [negb bind]. rewrite ?E1, ?E2.
  rewrite Nat2Z.id.
  destruct (Nat.ltb_spec (length (w ++ ext) - (c1 + 10)) rdl); [rewrite app_length in *; lia|].
  unfold dec_rdata. rewrite HS. rewrite A. rewrite ED. cbn [bind fst snd rev app].
  rewrite Nat.eqb_refl. cbn [bind].
  destruct (Z.gtb_spec ttl 2147483647); [lia|].
  unfold po0. cbn [p_xfr andb orb]. rewrite orb_false_r. unfold rd_covers.
  rewrite ?E1, ?E2. destruct (is_sigtype ty); reflexivity.
Qed.
