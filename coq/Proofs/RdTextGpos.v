(* GPOS: a string accepted by _validate_float_string (SchemaM.parse_float, the C02 model of it) consists of
   digits, at most one dot and an optional sign: it is one tokenizer word of ASCII characters. *)
From DV Require Import Base.Prelude Model.NameM Model.TokM Model.RdTextM.
From DV Require Model.SchemaM.
From DV Require Import Proofs.TokEsc Proofs.TokWords.
Open Scope Z_scope.

Definition fchar (c : Z) : bool := SchemaM.is_dig c || (c =? 46) || (c =? 45) || (c =? 43).

Lemma fchar_safe c : fchar c = true -> safe c = true /\ (0 <=? c) && (c <? 128) = true.
Proof.
  unfold fchar, SchemaM.is_dig. intros H. split; [|lia]. unfold safe, is_delim.
  replace (c =? 32) with false by lia. replace (c =? 9) with false by lia.
  replace (c =? 10) with false by lia. replace (c =? 59) with false by lia.
  replace (c =? 40) with false by lia. replace (c =? 41) with false by lia.
  replace (c =? 34) with false by lia. replace (c =? 92) with false by lia. reflexivity.
Qed.

Lemma fchars_word s : forallb fchar s = true -> forallb safe s = true /\ all_ascii s = true.
Proof.
  induction s as [|c s IH]; intros H; [split; reflexivity|].
  cbn [forallb] in H. apply andb_true_iff in H as [Hc H]. destruct (IH H) as [I1 I2]. destruct (fchar_safe c Hc) as [S A].
  unfold all_ascii in *. cbn [forallb]. rewrite S, A, I1, I2. split; reflexivity.
Qed.

Lemma digs_fchars s : forallb SchemaM.is_dig s = true -> forallb fchar s = true.
Proof.
  intros H. apply forallb_forall. intros c Hc. rewrite forallb_forall in H. unfold fchar. rewrite (H c Hc). reflexivity.
Qed.

Lemma all_digits_digs s : SchemaM.all_digits s = true -> forallb SchemaM.is_dig s = true.
Proof. unfold SchemaM.all_digits. intros H. apply andb_true_iff in H as [_ H]. exact H. Qed.

Lemma split_dot_spec s : forall a b, SchemaM.split_dot s = (a, b) ->
  match b with Some r => s = a ++ 46 :: r | None => s = a end.
Proof.
  induction s as [|c s IH]; intros a b H; cbn [SchemaM.split_dot] in H.
  - inversion H; subst. reflexivity.
  - destruct (c =? 46) eqn:E.
    + inversion H; subst. apply Z.eqb_eq in E. subst. reflexivity.
    + destruct (SchemaM.split_dot s) as [a' b'] eqn:Es. inversion H; subst. specialize (IH a' b eq_refl).
      destruct b; cbn [app]; rewrite IH at 1; reflexivity.
Qed.

Lemma opt_digits s : (negb (Nat.eqb (length s) 0) && negb (SchemaM.all_digits s)) = false -> forallb SchemaM.is_dig s = true.
Proof.
  intros H. destruct s as [|c s]; [reflexivity|]. cbn [length Nat.eqb negb andb] in H.
  apply negb_false_iff in H. apply all_digits_digs, H.
Qed.

Lemma float_body (body : list Z) (neg : bool) (p : bool * list Z * list Z) :
  (if SchemaM.all_digits body then Some (neg, body, [])
   else match SchemaM.split_dot body with
        | (lft, Some rgt) =>
            match SchemaM.split_dot rgt with
            | (_, Some _) => None
            | (_, None) =>
                if Nat.eqb (length lft) 0 && Nat.eqb (length rgt) 0 then None
                else if negb (Nat.eqb (length lft) 0) && negb (SchemaM.all_digits lft) then None
                else if negb (Nat.eqb (length rgt) 0) && negb (SchemaM.all_digits rgt) then None
                else Some (neg, lft, rgt)
            end
        | (_, None) => None
        end) = Some p -> forallb fchar body = true.
Proof.
  destruct (SchemaM.all_digits body) eqn:Ed; [intros _; apply digs_fchars, all_digits_digs, Ed|].
  destruct (SchemaM.split_dot body) as [lft [rgt|]] eqn:Es; try discriminate.
  destruct (SchemaM.split_dot rgt) as [x [y|]] eqn:Es2; try discriminate.
  destruct (Nat.eqb (length lft) 0 && Nat.eqb (length rgt) 0); try discriminate.
  destruct (negb (Nat.eqb (length lft) 0) && negb (SchemaM.all_digits lft)) eqn:El; try discriminate.
  destruct (negb (Nat.eqb (length rgt) 0) && negb (SchemaM.all_digits rgt)) eqn:Er; try discriminate.
  intros _. pose proof (split_dot_spec _ _ _ Es) as Hs. cbv beta iota in Hs.
  rewrite Hs. rewrite forallb_app. cbn [forallb].
  rewrite (digs_fchars _ (opt_digits _ El)), (digs_fchars _ (opt_digits _ Er)). reflexivity.
Qed.

Theorem float_string_word s p : SchemaM.parse_float s = Some p ->
  forallb safe s = true /\ all_ascii s = true /\ s <> [].
Proof.
  intros H. destruct s as [|c r]; [discriminate|].
  assert (F : forallb fchar (c :: r) = true).
  { unfold SchemaM.parse_float in H. destruct ((c =? 45) || (c =? 43)) eqn:Esign.
    - cbn [forallb]. rewrite (float_body r _ _ H). rewrite andb_true_r. unfold fchar.
      apply orb_true_iff in Esign. destruct Esign as [E|E]; rewrite E; rewrite ?orb_true_r; reflexivity.
    - exact (float_body (c :: r) _ _ H). }
  destruct (fchars_word _ F) as [S A]. split; [exact S|]. split; [exact A|discriminate].
Qed.
