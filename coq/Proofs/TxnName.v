(* C10: owner-name facts used by the transaction refinement.
   dict keys are Names compared case-insensitively (name_eqb); `ck` is the canonical key.
   validate_name (what the zone stores: relative or absolute per zone.relativize) and canon (the
   reference model's absolute spelling) fail together and otherwise denote the same owner. *)
From DV Require Import Base.Prelude Model.NameM Model.TxnM.
From DV Require Import Proofs.NameValid Proofs.NameOrder Proofs.NameRel.
Open Scope Z_scope.

Definition ck (n : name) : list label := map lower_l n.

Lemma name_eqb_ck a b : name_eqb a b = true <-> ck a = ck b.
Proof. apply name_eqb_iff_ci. Qed.

Lemma name_eqb_refl a : name_eqb a a = true.
Proof. apply name_eqb_ck. reflexivity. Qed.

Lemma name_eqb_sym a b : name_eqb a b = name_eqb b a.
Proof.
  destruct (name_eqb a b) eqn:E1, (name_eqb b a) eqn:E2; auto.
  - apply name_eqb_ck in E1. symmetry in E1. apply name_eqb_ck in E1. congruence.
  - apply name_eqb_ck in E2. symmetry in E2. apply name_eqb_ck in E2. congruence.
Qed.

Lemma name_eqb_false_ck a b : name_eqb a b = false <-> ck a <> ck b.
Proof.
  split.
  - intros H E. apply name_eqb_ck in E. congruence.
  - intros H. destruct (name_eqb a b) eqn:E; auto. apply name_eqb_ck in E. contradiction.
Qed.

(* name_eqb only looks at the canonical keys *)
Lemma name_eqb_congr a a' b b' : ck a = ck a' -> ck b = ck b' -> name_eqb a b = name_eqb a' b'.
Proof.
  intros Ha Hb.
  destruct (name_eqb a b) eqn:E1, (name_eqb a' b') eqn:E2; auto.
  - apply name_eqb_ck in E1. apply name_eqb_false_ck in E2. congruence.
  - apply name_eqb_ck in E2. apply name_eqb_false_ck in E1. congruence.
Qed.

Lemma name_eqb_trans_l a b c : name_eqb a b = true -> name_eqb a c = name_eqb b c.
Proof. intros H. apply name_eqb_ck in H. apply name_eqb_congr; auto. Qed.

Lemma name_eqb_trans_r a b c : name_eqb b c = true -> name_eqb a b = name_eqb a c.
Proof. intros H. apply name_eqb_ck in H. apply name_eqb_congr; auto. Qed.

Lemma ck_app a b : ck (a ++ b) = ck a ++ ck b.
Proof. apply map_app. Qed.

Lemma ck_nil_iff n : ck n = [] <-> n = [].
Proof. unfold ck. destruct n; cbn; split; intros H; try reflexivity; discriminate H. Qed.

(* ---------- zone configuration ---------- *)
Definition wfc (c : cfg) : Prop := Valid (c_origin c) /\ is_absolute (c_origin c) = true.

(* stored key k and absolute owner a denote the same owner *)
Definition key_rel (c : cfg) (k a : name) : Prop :=
  ck a = ck k ++ (if c_rel c then ck (c_origin c) else []).

Lemma key_rel_eqb c k1 a1 k2 a2 :
  key_rel c k1 a1 -> key_rel c k2 a2 -> name_eqb k1 k2 = name_eqb a1 a2.
Proof.
  unfold key_rel. intros H1 H2.
  destruct (name_eqb k1 k2) eqn:E1, (name_eqb a1 a2) eqn:E2; auto.
  - apply name_eqb_ck in E1. apply name_eqb_false_ck in E2. congruence.
  - apply name_eqb_ck in E2. apply name_eqb_false_ck in E1.
    rewrite H1, H2 in E2. apply app_inv_tail in E2. contradiction.
Qed.

Lemma derelativize_relative n o : is_absolute n = false -> derelativize n o = mk_name (n ++ o).
Proof. intros H. unfold derelativize, concatenate. rewrite H. reflexivity. Qed.

(* validate_name and canon agree *)
Lemma validate_canon c n :
  wfc c -> Valid n ->
  match validate_name c n, canon c n with
  | Ok k, Ok a => key_rel c k a /\ Valid a /\ is_absolute a = true /\ is_subdomain a (c_origin c) = true
  | Lib e1, Lib e2 => e1 = e2
  | Internal e1, Internal e2 => e1 = e2
  | _, _ => False
  end.
Proof.
  intros [Vo Ao] Vn. unfold validate_name, canon, key_rel.
  destruct (is_absolute n) eqn:An.
  - destruct (is_subdomain n (c_origin c)) eqn:Sd; cbn [negb]; [|reflexivity].
    destruct (c_rel c).
    + destruct (rel_derel n (c_origin c) Vn Sd) as (r & -> & _ & _ & _ & C).
      refine (conj _ (conj Vn (conj An Sd))). rewrite <- ck_app. symmetry. exact C.
    + refine (conj _ (conj Vn (conj An Sd))). rewrite app_nil_r. reflexivity.
  - rewrite derelativize_relative by exact An.
    destruct (mk_name (n ++ c_origin c)) as [a|e|e] eqn:M.
    + apply mk_name_ok in M. destruct M as [-> V].
      assert (is_absolute (n ++ c_origin c) = true) as A.
      { destruct (c_origin c) as [|o0 o'] eqn:Eo; [discriminate|]. rewrite is_absolute_app. exact Ao. }
      assert (is_subdomain (n ++ c_origin c) (c_origin c) = true) as Sd.
      { apply is_subdomain_iff. split; [congruence|apply ci_suffix_app]. }
      destruct (c_rel c); refine (conj _ (conj V (conj A Sd))).
      * apply ck_app.
      * rewrite app_nil_r. reflexivity.
    + destruct (e =? eNameTooLong); reflexivity.
    + reflexivity.
Qed.

(* the absolute spelling is a fixed point: spelling an owner absolutely or relatively is the same
   owner for the reference model *)
Lemma canon_idem c n a : wfc c -> Valid n -> canon c n = Ok a -> canon c a = Ok a.
Proof.
  intros W Vn H. pose proof (validate_canon c n W Vn) as VC. rewrite H in VC.
  destruct (validate_name c n); try contradiction.
  destruct VC as (_ & _ & A & Sd). unfold canon. rewrite A, Sd. reflexivity.
Qed.

Lemma canon_valid c n a : wfc c -> Valid n -> canon c n = Ok a -> Valid a.
Proof.
  intros W Vn H. pose proof (validate_canon c n W Vn) as VC. rewrite H in VC.
  destruct (validate_name c n); try contradiction. tauto.
Qed.

Lemma canon_never_internal c n e : canon c n <> Internal e.
Proof.
  unfold canon. destruct (is_absolute n).
  - destruct (is_subdomain _ _); discriminate.
  - destruct (mk_name _) eqn:M; try discriminate.
    + destruct (_ =? _); discriminate.
    + exfalso. eapply mk_name_never_internal; eauto.
Qed.

(* the SOA owner test of _add only depends on the owner denoted *)
Lemma origin_ok_canon c n :
  wfc c -> Valid n ->
  origin_ok c n = match canon c n with Ok a => name_eqb a (c_origin c) | _ => false end.
Proof.
  intros [Vo Ao] Vn. unfold origin_ok, canon, NameM.empty.
  assert (forall x y : bool, negb (negb x && (negb y && negb false)) = x || y) as B
    by (intros [] []; reflexivity).
  assert (forall x y z : bool, negb (negb x && (negb y && negb z)) = x || y || z) as B3
    by (intros [] [] []; reflexivity).
  rewrite B3.
  destruct (is_absolute n) eqn:An.
  - (* absolute: not the empty name; equal to the effective origin only if equal to the origin *)
    assert (name_eqb n [] = false) as E0.
    { apply name_eqb_false_ck. intros H. destruct n; [discriminate An|discriminate H]. }
    rewrite E0.
    assert (name_eqb n (if c_rel c then [] else c_origin c) || name_eqb n (c_origin c) = name_eqb n (c_origin c)) as E1.
    { destruct (c_rel c); [rewrite E0; reflexivity|apply orb_diag]. }
    rewrite E1, orb_false_r.
    destruct (is_subdomain n (c_origin c)) eqn:Sd; [reflexivity|].
    destruct (name_eqb n (c_origin c)) eqn:E; [|reflexivity].
    exfalso. apply name_eqb_ck in E.
    assert (is_subdomain n (c_origin c) = true); [|congruence].
    apply is_subdomain_iff. split; [congruence|]. exists [], n. split; [reflexivity|exact E].
  - (* relative: equal to the origin (absolute) never; denotes the origin iff empty *)
    assert (name_eqb n (c_origin c) = false) as E1.
    { apply name_eqb_false_ck. intros H. apply (ci_equal_absolute n (c_origin c)) in H. congruence. }
    rewrite E1.
    assert (name_eqb n (if c_rel c then [] else c_origin c) || false || name_eqb n [] = name_eqb n []) as E2.
    { destruct (c_rel c); [rewrite orb_false_r; apply orb_diag|rewrite E1; reflexivity]. }
    rewrite E2.
    destruct (mk_name (n ++ c_origin c)) as [a|e|e] eqn:M.
    + apply mk_name_ok in M. destruct M as [-> _].
      destruct n as [|l n'].
      * cbn [app]. rewrite !name_eqb_refl. reflexivity.
      * transitivity false.
        -- apply name_eqb_false_ck. cbn. discriminate.
        -- symmetry. apply name_eqb_false_ck. intros H.
           apply (f_equal (@length _)) in H. unfold ck in H. rewrite !map_length, app_length in H.
           cbn [length] in H. change label with (list Z) in *. lia.
    + destruct n as [|l n'].
      * exfalso. cbn [app] in M. rewrite (mk_name_valid _ Vo) in M. discriminate.
      * destruct (e =? eNameTooLong); apply name_eqb_false_ck; cbn; discriminate.
    + exfalso. eapply mk_name_never_internal; eauto.
Qed.

(* hence independent of zone.relativize and of the zone class *)
Lemma canon_cfg k1 r1 k2 r2 o n : canon (mkCfg k1 r1 o) n = canon (mkCfg k2 r2 o) n.
Proof. reflexivity. Qed.
