(* C04, text side: name text, TTLs, $GENERATE ranges, token unescaping and Tokenizer.get end in a
   value or in the library's syntax-error family; each of them terminates (structural recursion or
   proved fuel). *)
From DV Require Import Base.Prelude Model.NameM Model.ParserM Model.UntrustedM Proofs.NameValid.
From DV Require Model.TokM.
Open Scope Z_scope.

(* ---------- dns.name.from_text ---------- *)
Definition isNameTextErr (e : Z) : Prop :=
  e = eBadEscape \/ e = eEmptyLabel \/ e = eLabelTooLong \/ e = eNameTooLong.

Lemma ft_loop_family : forall t L lab esc ed tot,
  match ft_loop t L lab esc ed tot with
  | Ok _ => True
  | Lib e => e = eBadEscape \/ e = eEmptyLabel
  | Internal _ => False
  end.
Proof.
  induction t as [|c t IH]; intros L lab esc ed tot; cbn [ft_loop]; auto.
  destruct esc.
  - destruct ed as [|ed'].
    + destruct (is_digit c); apply IH.
    + destruct (negb (is_digit c)); [left; reflexivity|].
      destruct ed' as [|[|?]]; try apply IH.
      destruct (tot * 10 + (c - 48) >? 255); [left; reflexivity|apply IH].
  - destruct (c =? 46).
    + destruct lab; [right; reflexivity|apply IH].
    + destruct (c =? 92); apply IH.
Qed.

Lemma mk_name_family ls :
  match mk_name ls with
  | Ok n => n = ls /\ Valid n
  | Lib e => e = eLabelTooLong \/ e = eNameTooLong \/ e = eEmptyLabel
  | Internal _ => False
  end.
Proof.
  destruct (mk_name ls) as [n|e|e] eqn:E.
  - apply mk_name_ok in E. destruct E as [-> V]. auto.
  - unfold mk_name in E. destruct (validate_labels ls) as [[]|e'|e'] eqn:V; inversion E; subst.
    apply validate_error in V. destruct V as [(-> & _) | [(-> & _) | (-> & _)]]; auto.
  - exfalso. eapply mk_name_never_internal; eauto.
Qed.

(* every character string: a valid name or one of the four documented errors *)
Theorem name_from_text_family text origin :
  match from_text text origin with
  | Ok n => Valid n
  | Lib e => isNameTextErr e
  | Internal _ => False
  end.
Proof.
  unfold from_text, isNameTextErr.
  set (t := match text with [64] => [] | _ => text end).
  assert (M : forall ls, match mk_name ls with
                         | Ok n => Valid n
                         | Lib e => e = eBadEscape \/ e = eEmptyLabel \/ e = eLabelTooLong \/ e = eNameTooLong
                         | Internal _ => False end).
  { intros ls. pose proof (mk_name_family ls) as H. destruct (mk_name ls); auto.
    - tauto.
    - destruct H as [-> | [-> | ->]]; auto. }
  assert (B : forall (r : res name),
             match r with Ok _ => True | Lib e => e = eBadEscape \/ e = eEmptyLabel | Internal _ => False end ->
             match (do labels <- r;
                    mk_name (if negb (ends_with_root labels)
                             then match origin with Some o => labels ++ o | None => labels end
                             else labels)) with
             | Ok n => Valid n
             | Lib e => e = eBadEscape \/ e = eEmptyLabel \/ e = eLabelTooLong \/ e = eNameTooLong
             | Internal _ => False end).
  { intros r Hr. destruct r as [labels|e|e]; cbn [bind]; [apply M| |contradiction].
    destruct Hr as [-> | ->]; auto. }
  destruct t as [|c t'] eqn:Et.
  - apply (B (Ok [])). exact Logic.I.
  - destruct (Z.eq_dec c 46) as [->|Hc].
    + destruct t' as [|c2 t2]; [apply M|].
      apply B.
      pose proof (ft_loop_family (46 :: c2 :: t2) [] [] false 0%nat 0) as F.
      destruct (ft_loop (46 :: c2 :: t2) [] [] false 0 0) as [[[labels lab] esc]|e|e]; auto.
      destruct esc; auto.
    + assert (X : forall (A : Type) (a b : A),
                 match c :: t' with [46] => a | _ => b end = b).
      { intros. destruct c as [|p|p]; try reflexivity.
        repeat (destruct p as [p|p|]; try reflexivity). destruct t'; [congruence|reflexivity]. }
      rewrite X. apply B.
      pose proof (ft_loop_family (c :: t') [] [] false 0%nat 0) as F.
      destruct (ft_loop (c :: t') [] [] false 0 0) as [[[labels lab] esc]|e|e]; auto.
      destruct esc; auto.
Qed.

(* ---------- dns.ttl.from_text ---------- *)
Section Ttl.
  Variable dval : Z -> option Z.

  Lemma ttl_loop_family : forall s total current nd,
    match ttl_loop dval s total current nd with
    | Ok _ => True
    | Lib e => e = eBadTTL
    | Internal _ => False
    end.
  Proof.
    induction s as [|c s IH]; intros total current nd; cbn [ttl_loop].
    - destruct (negb (current =? 0)); auto.
    - destruct (dval c); [apply IH|].
      destruct nd; [reflexivity|].
      repeat match goal with |- context [if ?b then _ else _] => destruct b; [apply IH|] end.
      reflexivity.
  Qed.

  (* any string, any digit classifier: a TTL inside [0, 2^32-1] or BadTTL *)
  Theorem ttl_from_text_family s :
    match ttl_from_text dval s with
    | Ok v => 0 <= v <= MAX_TTL
    | Lib e => e = eBadTTL
    | Internal _ => False
    end.
  Proof.
    unfold ttl_from_text.
    assert (R : forall (r : res Z),
               match r with Ok _ => True | Lib e => e = eBadTTL | Internal _ => False end ->
               match (do total <- r; if (total <? 0) || (total >? MAX_TTL) then Lib eBadTTL else Ok total) with
               | Ok v => 0 <= v <= MAX_TTL | Lib e => e = eBadTTL | Internal _ => False end).
    { intros r Hr. destruct r as [v|e|e]; cbn [bind]; auto.
      destruct ((v <? 0) || (v >? MAX_TTL)) eqn:E; [reflexivity|].
      apply orb_false_iff in E as [E1 E2]. lia. }
    apply R. destruct s as [|c s']; [reflexivity|].
    destruct (forallb (is_dec dval) (c :: s')).
    - destruct (zlen (c :: s') >? MAX_STR_DIGITS); auto.
    - apply ttl_loop_family.
  Qed.
End Ttl.

(* ---------- dns.grange.from_text and its guard in zonefile._generate_line ---------- *)
(* called directly it does leak Python exceptions ... *)
Theorem grange_unguarded_refuted :
  grange_from_text dval_run [49; 45] = Internal iValueError           (* "1-"  : int('') *)
  /\ grange_from_text dval_run [49; 47; 50] = Internal iAssertGr       (* "1/2" : assert start >= 0 *)
  /\ grange_from_text dval_run [49; 45; 50; 47; 48] = Internal iAssertGr.  (* "1-2/0": assert step >= 1 *)
Proof. repeat split; vm_compute; reflexivity. Qed.

(* ... which is why _generate_line wraps it in `except Exception: raise SyntaxError` *)
Theorem generate_range_closes dval s :
  match generate_range dval s with
  | Ok (start, stop, step) => True
  | Lib e => e = eSyntax
  | Internal _ => False
  end.
Proof.
  unfold generate_range. destruct (grange_from_text dval s) as [[[a b] c]|e|e]; auto.
Qed.

(* ---------- zonefile.Reader.read: the directive test ---------- *)
Theorem line_kind_total t d : exists k, line_kind t d = Ok k /\ 0 <= k <= 4.
Proof.
  unfold line_kind.
  repeat match goal with |- context [if ?b then _ else _] => destruct b; [eexists; split; [reflexivity|lia]|] end.
  destruct (TokM.tvalue t) as [|c ?]; [eexists; split; [reflexivity|lia]|].
  destruct ((c =? 36) && d); eexists; (split; [reflexivity|lia]).
Qed.

(* the code of the snapshot (token.value[0]) failed on the empty quoted string *)
Theorem line_kind_prefix_refuted :
  line_kind_prefix (TokM.mkTok TokM.tQUOTED [] false None) true = Internal iIndexError.
Proof. reflexivity. Qed.

(* ---------- Token.unescape / Token.unescape_to_bytes (shared model TokM) ---------- *)
Definition isEscErr (e : Z) : Prop := e = TokM.eUnexpectedEnd \/ e = TokM.eSyntax.

Lemma ue_loop_family : forall n v acc, (length v <= n)%nat ->
  match TokM.ue_loop v acc with
  | Ok _ => True
  | Lib e => isEscErr e
  | Internal _ => False
  end.
Proof.
  induction n as [|n IH]; intros v acc Hl.
  - destruct v; [exact Logic.I|cbn in Hl; lia].
  - destruct v as [|c r]; [exact Logic.I|]. cbn [TokM.ue_loop]. cbn in Hl.
    destruct (c =? 92).
    + destruct r as [|c1 r1]; [left; reflexivity|].
      destruct (TokM.is_decimal c1).
      * destruct r1 as [|c2 r2]; [left; reflexivity|].
        destruct r2 as [|c3 r3]; [left; reflexivity|].
        destruct (negb (TokM.is_decimal c2 && TokM.is_decimal c3)); [right; reflexivity|].
        match goal with |- context [if ?b then _ else _] => destruct b; [right; reflexivity|] end.
        apply IH. cbn in Hl. lia.
      * apply IH. cbn in Hl. lia.
    + apply IH. lia.
Qed.

Theorem unescape_family t :
  match TokM.unescape t with
  | Ok _ => True
  | Lib e => isEscErr e
  | Internal _ => False
  end.
Proof.
  unfold TokM.unescape. destruct (negb (TokM.tesc t)); [exact Logic.I|].
  pose proof (ue_loop_family (length (TokM.tvalue t)) (TokM.tvalue t) [] (le_n _)) as H.
  destruct (TokM.ue_loop (TokM.tvalue t) []); cbn [bind]; auto.
Qed.

(* str.encode() fails on lone surrogates only *)
Definition no_surrogate (c : Z) : Prop := ~ (55296 <= c <= 57343).

Lemma utf8_cp_ok c : no_surrogate c -> exists b, TokM.utf8_cp c = Ok b.
Proof.
  unfold TokM.utf8_cp, no_surrogate. intros H.
  destruct (c <? 128); [eauto|]. destruct (c <? 2048); [eauto|].
  destruct ((55296 <=? c) && (c <=? 57343)) eqn:E; [exfalso; apply H; lia|].
  destruct (c <? 65536); eauto.
Qed.

Lemma ub_loop_family : forall n v acc, (length v <= n)%nat -> Forall no_surrogate v ->
  match TokM.ub_loop v acc with
  | Ok _ => True
  | Lib e => isEscErr e
  | Internal _ => False
  end.
Proof.
  induction n as [|n IH]; intros v acc Hl Hs.
  - destruct v; [exact Logic.I|cbn in Hl; lia].
  - destruct v as [|c r]; [exact Logic.I|]. cbn [TokM.ub_loop]. cbn in Hl.
    inversion Hs as [|? ? Hc Hr]; subst.
    destruct (c =? 92).
    + destruct r as [|c1 r1]; [left; reflexivity|].
      inversion Hr as [|? ? Hc1 Hr1]; subst.
      destruct (TokM.is_decimal c1).
      * destruct r1 as [|c2 r2]; [left; reflexivity|].
        destruct r2 as [|c3 r3]; [left; reflexivity|].
        destruct (negb (TokM.is_decimal c2 && TokM.is_decimal c3)); [right; reflexivity|].
        match goal with |- context [if ?b then _ else _] => destruct b; [right; reflexivity|] end.
        inversion Hr1 as [|? ? _ Hr2]; inversion Hr2; subst.
        apply IH; auto. cbn in Hl. lia.
      * destruct (utf8_cp_ok c1 Hc1) as [b ->]. apply IH; auto. cbn in Hl. lia.
    + destruct (utf8_cp_ok c Hc) as [b ->]. apply IH; auto. lia.
Qed.

Theorem unescape_to_bytes_family t :
  Forall no_surrogate (TokM.tvalue t) ->
  match TokM.unescape_to_bytes t with
  | Ok _ => True
  | Lib e => isEscErr e
  | Internal _ => False
  end.
Proof.
  intros Hs. unfold TokM.unescape_to_bytes.
  pose proof (ub_loop_family (length (TokM.tvalue t)) (TokM.tvalue t) [] (le_n _) Hs) as H.
  destruct (TokM.ub_loop (TokM.tvalue t) []); cbn [bind]; auto.
Qed.

(* a lone surrogate does reach UnicodeEncodeError when the token method is called directly;
   dns.rdata.from_text runs it under ExceptionWrapper(SyntaxError) *)
Theorem unescape_to_bytes_surrogate_refuted :
  TokM.unescape_to_bytes (TokM.mkTok TokM.tQUOTED [55296] false None) = Internal TokM.iUnicodeEncode.
Proof. reflexivity. Qed.

Theorem unescape_to_bytes_wrapped t :
  match wrap_res eSyntax is_syntax (TokM.unescape_to_bytes t) with
  | Ok _ => True
  | Lib e => is_syntax e = true
  | Internal _ => False
  end.
Proof.
  unfold wrap_res. destruct (TokM.unescape_to_bytes t) as [a|e|e]; auto.
  destruct (is_syntax e) eqn:E; auto.
Qed.

(* ---------- Tokenizer.get ---------- *)
Lemma skip_ws_len ml i : (length (snd (TokM.skip_ws ml i)) <= length i)%nat.
Proof.
  induction i as [|c r IH]; cbn; [lia|].
  destruct ((c =? 32) || (c =? 9)).
  - destruct (TokM.skip_ws ml r); cbn in *. lia.
  - destruct ((c =? 10) && TokM.ml_on ml).
    + destruct (TokM.skip_ws ml r); cbn in *. lia.
    + cbn. lia.
Qed.

Lemma read_comment_len : forall i acc, (length (snd (TokM.read_comment i acc)) <= length i)%nat.
Proof.
  induction i as [|c r IH]; intros acc; cbn; [lia|].
  destruct (c =? 10); cbn; [lia|]. specialize (IH (c :: acc)). lia.
Qed.

Definition isTokErr (e : Z) : Prop := e = TokM.eSyntax \/ e = TokM.eUnexpectedEnd.

Lemma finish_family tok tt he ml :
  match TokM.finish tok tt he ml with Ok _ => True | Lib e => isTokErr e | Internal _ => False end.
Proof.
  unfold TokM.finish. destruct (TokM.is_nil tok && negb (tt =? TokM.tQUOTED)); [|exact Logic.I].
  destruct ml; [exact Logic.I|left; reflexivity].
Qed.

Lemma finish_bind_family {A} tok tt he ml (x : A) :
  match (do t <- TokM.finish tok tt he ml; Ok (t, x)) with
  | Ok _ => True | Lib e => isTokErr e | Internal _ => False end.
Proof.
  pose proof (finish_family tok tt he ml) as H. destruct (TokM.finish tok tt he ml); cbn [bind]; auto.
Qed.

(* the main loop: the fuel S(length input) is never exhausted *)
Lemma get_loop_family : forall fuel wc i ml q tok tt he,
  (length i < fuel)%nat ->
  match TokM.get_loop fuel wc i ml q tok tt he with
  | Ok _ => True
  | Lib e => isTokErr e
  | Internal _ => False
  end.
Proof.
  induction fuel as [|f IH]; intros wc i ml q tok tt he Hl; [lia|].
  cbn [TokM.get_loop].
  destruct i as [|c r].
  - destruct q; [right; reflexivity|].
    destruct (TokM.is_nil tok && negb (tt =? TokM.tQUOTED)); apply finish_bind_family.
  - cbn [length] in Hl.
    destruct (TokM.is_delim q c).
    + destruct (TokM.is_nil tok && negb (tt =? TokM.tQUOTED)); [|apply finish_bind_family].
      destruct (c =? 40).
      { apply IH. pose proof (skip_ws_len (S ml) r). lia. }
      destruct (c =? 41).
      { destruct ml as [|ml']; [left; reflexivity|]. apply IH. pose proof (skip_ws_len ml' r). lia. }
      destruct (c =? 34).
      { destruct (negb q); apply IH; [lia|]. pose proof (skip_ws_len ml r). lia. }
      destruct (c =? 10); [exact Logic.I|].
      destruct (c =? 59); [|apply finish_bind_family].
      pose proof (read_comment_len r []) as Hc.
      destruct (TokM.read_comment r []) as [cm rest]. cbn [snd] in Hc.
      destruct wc; [exact Logic.I|].
      destruct rest as [|x rest'].
      * destruct ml; [exact Logic.I|left; reflexivity].
      * destruct ml; [exact Logic.I|]. apply IH. pose proof (skip_ws_len (S ml) rest'). cbn [length] in Hc. lia.
    + destruct (q && (c =? 10)); [left; reflexivity|].
      destruct (c =? 92).
      * destruct r as [|c2 r2]; [right; reflexivity|].
        destruct ((c2 =? 10) && negb q); [right; reflexivity|]. apply IH. cbn [length] in Hl. lia.
      * apply IH. lia.
Qed.

Lemma get_fresh_family st wl wc :
  match TokM.get_fresh st wl wc with Ok _ => True | Lib e => isTokErr e | Internal _ => False end.
Proof.
  unfold TokM.get_fresh.
  destruct (TokM.skip_ws (TokM.multiline st) (TokM.inp st)) as [skipped i1].
  destruct (wl && negb (Nat.eqb skipped 0)); [exact Logic.I|].
  pose proof (get_loop_family (TokM.get_fuel i1) wc i1 (TokM.multiline st) (TokM.quoting st) [] TokM.tIDENT false) as H.
  unfold TokM.get_fuel in *. specialize (H (Nat.lt_succ_diag_r _)).
  destruct (TokM.get_loop (S (length i1)) wc i1 (TokM.multiline st) (TokM.quoting st) [] TokM.tIDENT false) as [[t [[i2 ml] q]]|e|e]; auto.
Qed.

(* Tokenizer.get, any state, any flags: a token, SyntaxError or UnexpectedEnd; terminates *)
Theorem tokenizer_get_family st wl wc :
  match TokM.get st wl wc with
  | Ok _ => True
  | Lib e => isTokErr e
  | Internal _ => False
  end.
Proof.
  unfold TokM.get. destruct (TokM.ungot st) as [ut|]; [|apply get_fresh_family].
  destruct (TokM.ttype ut =? TokM.tWS).
  - destruct wl; [exact Logic.I|apply get_fresh_family].
  - destruct (TokM.ttype ut =? TokM.tCOMMENT); [|exact Logic.I].
    destruct wc; [exact Logic.I|apply get_fresh_family].
Qed.
