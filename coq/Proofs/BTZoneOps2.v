(* C20, layer D5: put_rdataset / delete_rdataset / delete_node preserve the invariant. *)
From DV Require Import Base.Prelude Model.NameM Model.BTZoneM
     Proofs.BTZoneOrder Proofs.BTZoneList Proofs.BTZoneSpec Proofs.BTZoneWalk Proofs.BTZoneInv
     Proofs.BTZoneMaster Proofs.BTZoneOps.
From Coq Require Import Permutation.
Open Scope Z_scope.

(* ---------- the rdataset list of a node ---------- *)
Lemma rds_get_app : forall t a b,
    rds_get t (a ++ b) = match rds_get t a with Some y => Some y | None => rds_get t b end.
Proof.
  induction a as [|[t' x] a IH]; intros b; cbn; auto. destruct (t' =? t); auto.
Qed.

Lemma rds_get_remove_other : forall t t' r, t' <> t -> rds_get t' (rds_remove t r) = rds_get t' r.
Proof.
  induction r as [|[t0 x] r IH]; intros Hne; cbn; auto.
  destruct (t0 =? t) eqn:E.
  - apply Z.eqb_eq in E. subst t0. destruct (t =? t') eqn:E2; auto. apply Z.eqb_eq in E2. congruence.
  - cbn. destruct (t0 =? t'); auto.
Qed.

Lemma rds_get_none_notin : forall t r, ~ In t (map fst r) -> rds_get t r = None.
Proof.
  induction r as [|[t0 x] r IH]; intros H; cbn; auto.
  destruct (t0 =? t) eqn:E.
  - apply Z.eqb_eq in E. subst. exfalso. apply H. left; auto.
  - apply IH. intros Hin. apply H. right; auto.
Qed.

Lemma rds_remove_fst_incl : forall t r y, In y (map fst (rds_remove t r)) -> In y (map fst r).
Proof.
  induction r as [|[t0 x] r IH]; intros y H; cbn in *; auto.
  destruct (t0 =? t); cbn in *; auto. destruct H; auto.
Qed.

Lemma rds_remove_nodup : forall t r, NoDup (map fst r) ->
    NoDup (map fst (rds_remove t r)) /\ ~ In t (map fst (rds_remove t r)).
Proof.
  induction r as [|[t0 x] r IH]; intros H; cbn.
  - split; [constructor|auto].
  - inversion H; subst. destruct (t0 =? t) eqn:E.
    + apply Z.eqb_eq in E. subst. split; auto.
    + apply Z.eqb_neq in E. destruct (IH H3) as [A B]. cbn. split.
      * constructor; auto. intros Hin. apply H2. eapply rds_remove_fst_incl; eauto.
      * intros [H0|H0]; auto.
Qed.

Lemma kind_ns : kind tNS = 0.
Proof. reflexivity. Qed.

Lemma rds_get_filter_keep : forall t (f : Z * list Z -> bool) r,
    (forall x, f (t, x) = true) -> rds_get t (filter f r) = rds_get t r.
Proof.
  induction r as [|[t0 x] r IH]; intros H; cbn; auto.
  destruct (f (t0, x)) eqn:E; cbn.
  - destruct (t0 =? t); auto.
  - destruct (t0 =? t) eqn:E2; auto. apply Z.eqb_eq in E2. subst. rewrite H in E. discriminate.
Qed.

Lemma rds_get_filter_drop : forall t (f : Z * list Z -> bool) r,
    (forall x, f (t, x) = false) -> rds_get t (filter f r) = None.
Proof.
  induction r as [|[t0 x] r IH]; intros H; cbn; auto.
  destruct (f (t0, x)) eqn:E; cbn; auto.
  destruct (t0 =? t) eqn:E2; auto. apply Z.eqb_eq in E2. subst. rewrite H in E. discriminate.
Qed.

Lemma filter_fst_incl : forall (f : Z * list Z -> bool) r y, In y (map fst (filter f r)) -> In y (map fst r).
Proof.
  intros f r y H. apply in_map_iff in H as (e & <- & He). apply filter_In in He as [He _]. apply in_map; auto.
Qed.

Lemma filter_nodup_fst : forall (f : Z * list Z -> bool) r, NoDup (map fst r) -> NoDup (map fst (filter f r)).
Proof.
  induction r as [|[t0 x] r IH]; intros H; cbn; [constructor|]. inversion H; subst.
  destruct (f (t0, x)); cbn; auto. constructor; auto. intros Hin. apply H2. eapply filter_fst_incl; eauto.
Qed.

Lemma rds_append_fst : forall t x r y, In y (map fst (rds_append t x r)) -> y = t \/ In y (map fst r).
Proof.
  intros t x r y H. unfold rds_append in H. destruct r as [|e r]; [cbn in H; destruct H; auto|].
  rewrite map_app in H. apply in_app_or in H as [H|H]; [|cbn in H; destruct H as [H|[]]; auto].
  right. destruct (kind t =? 2); [eapply filter_fst_incl; eauto|].
  destruct (kind t =? 0); [eapply filter_fst_incl; eauto|exact H].
Qed.

Lemma rds_append_nodup : forall t x r, NoDup (map fst r) -> ~ In t (map fst r) -> NoDup (map fst (rds_append t x r)).
Proof.
  intros t x r H Hn. unfold rds_append. destruct r as [|e r]; [cbn; constructor; auto; constructor|].
  rewrite map_app. cbn [map fst].
  set (r' := if kind t =? 2 then filter (fun r0 : Z * list Z => negb (kind (fst r0) =? 0)) (e :: r)
             else if kind t =? 0 then filter (fun r0 : Z * list Z => negb (kind (fst r0) =? 2)) (e :: r)
             else e :: r).
  assert (Hnd : NoDup (map fst r')).
  { unfold r'. destruct (kind t =? 2); [|destruct (kind t =? 0)]; auto; apply filter_nodup_fst; auto. }
  assert (Hni : ~ In t (map fst r')).
  { unfold r'. intros Hin. apply Hn. destruct (kind t =? 2); [|destruct (kind t =? 0)]; auto;
      eapply filter_fst_incl; eauto. }
  apply Permutation.Permutation_NoDup with (l := t :: map fst r').
  - apply Permutation.Permutation_cons_append.
  - constructor; auto.
Qed.

Lemma rds_replace_nodup : forall t x r, NoDup (map fst r) -> NoDup (map fst (rds_replace t x r)).
Proof.
  intros t x r H. unfold rds_replace. destruct (rds_remove_nodup t r H) as [A B]. apply rds_append_nodup; auto.
Qed.

Lemma rds_get_append : forall t' t x r,
    rds_get t' (rds_append t x r) =
    match rds_get t' (match r with
                      | [] => []
                      | _ => if kind t =? 2 then filter (fun r0 : Z * list Z => negb (kind (fst r0) =? 0)) r
                             else if kind t =? 0 then filter (fun r0 : Z * list Z => negb (kind (fst r0) =? 2)) r
                             else r
                      end) with
    | Some y => Some y
    | None => if t =? t' then Some x else None
    end.
Proof.
  intros. unfold rds_append. destruct r as [|e r]; [reflexivity|]. rewrite rds_get_app. reflexivity.
Qed.

Lemma has_ns_replace_other : forall t x f r, t <> tNS ->
    has_ns (mkNode f (rds_replace t x r)) =
    if kind t =? 2 then false else match rds_get tNS r with Some _ => true | None => false end.
Proof.
  intros t x f r Ht. unfold has_ns, rds_replace. cbn [nrds]. rewrite rds_get_append.
  assert (Et : (t =? tNS) = false) by (apply Z.eqb_neq; auto). rewrite Et.
  rewrite <- (rds_get_remove_other t tNS r) by auto.
  destruct (rds_remove t r) as [|e r'] eqn:Er; [cbn; destruct (kind t =? 2); reflexivity|].
  destruct (kind t =? 2).
  - rewrite rds_get_filter_drop; auto.
  - destruct (kind t =? 0); [rewrite rds_get_filter_keep; auto|]; destruct (rds_get tNS (e :: r')); reflexivity.
Qed.

Lemma has_ns_replace_ns : forall x f r, has_ns (mkNode f (rds_replace tNS x r)) = true.
Proof.
  intros. unfold has_ns, rds_replace. cbn [nrds]. rewrite rds_get_append. rewrite Z.eqb_refl.
  match goal with |- match match ?a with _ => _ end with _ => _ end = _ => destruct a end; reflexivity.
Qed.

Lemma has_ns_remove_other : forall t f r, t <> tNS ->
    has_ns (mkNode f (rds_remove t r)) = match rds_get tNS r with Some _ => true | None => false end.
Proof. intros. unfold has_ns. cbn [nrds]. rewrite rds_get_remove_other by auto. reflexivity. Qed.

Lemma has_ns_remove_ns : forall f r, NoDup (map fst r) -> has_ns (mkNode f (rds_remove tNS r)) = false.
Proof.
  intros. unfold has_ns. cbn [nrds]. rewrite rds_get_none_notin; auto. apply rds_remove_nodup; auto.
Qed.

(* ---------- common set-up after _maybe_cow_with_name ---------- *)
Lemma not_sb_self : forall k n, K k = K n -> strictly_beneath k n = false.
Proof.
  intros k n E. apply not_true_is_false. intros H. apply strictly_beneath_iff in H. rewrite E in H.
  eapply sbelow_irrefl; eauto.
Qed.

Lemma owner_same_entry : forall c (l l' : nodes_t) n n0 nd nd' tr,
    sorted l -> In (n0, nd) l -> K n0 = K n ->
    Desc l l' n (Some (n0, nd')) tr -> (forall k x, nrds (tr k x) = nrds x) ->
    ns_owner c (n0, nd') = ns_owner c (n0, nd) ->
    forall k, owner c l' k <-> owner c l k.
Proof.
  intros c l l' n n0 nd nd' tr S Hin E D Htr Hns k.
  rewrite (Desc_owner c _ _ _ _ _ D Htr). split.
  - intros [[_ H]|[-> (e & He & _ & H)]]; auto. inversion He; subst e. rewrite Hns in H.
    exists n0, nd. auto.
  - intros H. destruct (key_eq_dec k (K n)) as [->|Hne]; auto. right. split; auto.
    exists (n0, nd'). repeat split; auto. rewrite Hns.
    destruct H as (m & nd1 & Hin1 & Hns1 & E1).
    assert ((m, nd1) = (n0, nd)) by (eapply sorted_functional; eauto; congruence). congruence.
Qed.

Lemma owner_add_entry : forall c (l l' : nodes_t) n n0 nd' tr,
    Desc l l' n (Some (n0, nd')) tr -> (forall k x, nrds (tr k x) = nrds x) -> K n0 = K n ->
    ns_owner c (n0, nd') = true ->
    forall k, owner c l' k <-> (owner c l k \/ k = K n).
Proof.
  intros c l l' n n0 nd' tr D Htr E Hns k. rewrite (Desc_owner c _ _ _ _ _ D Htr). split.
  - intros [[_ H]|[H _]]; auto.
  - intros [H| ->].
    + destruct (key_eq_dec k (K n)) as [->|Hne]; auto. right. split; auto. exists (n0, nd'). auto.
    + right. split; auto. exists (n0, nd'). auto.
Qed.

