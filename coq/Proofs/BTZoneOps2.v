(* C20, layer D5: put_rdataset / delete_rdataset / delete_node preserve the invariant. *)
From DV Require Import Base.Prelude Model.NameM Model.BTZoneM
     Proofs.BTZoneOrder Proofs.BTZoneList Proofs.BTZoneSpec Proofs.BTZoneWalk Proofs.BTZoneInv
     Proofs.BTZoneMaster Proofs.BTZoneOps.
From Coq Require Import Permutation.
Open Scope Z_scope.

(* ---------- the rdataset list of a node ---------- *)
Lemma rds_get_app : forall t a b,
    rds_get t (a ++ b) = match rds_get t a with Some y => Some y | None => rds_get t b end.
Proof.
  induction a as [|[t' x] a IH]; intros b; cbn; auto. destruct (t' =? t); auto.
Qed.

Lemma rds_get_remove_other : forall t t' r, t' <> t -> rds_get t' (rds_remove t r) = rds_get t' r.
Proof.
  induction r as [|[t0 x] r IH]; intros Hne; cbn; auto.
  destruct (t0 =? t) eqn:E.
  - apply Z.eqb_eq in E. subst t0. destruct (t =? t') eqn:E2; auto. apply Z.eqb_eq in E2. congruence.
  - cbn. destruct (t0 =? t'); auto.
Qed.

Lemma rds_get_none_notin : forall t r, ~ In t (map fst r) -> rds_get t r = None.
Proof.
  induction r as [|[t0 x] r IH]; intros H; cbn; auto.
  destruct (t0 =? t) eqn:E.
  - apply Z.eqb_eq in E. subst. exfalso. apply H. left; auto.
  - apply IH. intros Hin. apply H. right; auto.
Qed.

Lemma rds_remove_fst_incl : forall t r y, In y (map fst (rds_remove t r)) -> In y (map fst r).
Proof.
  induction r as [|[t0 x] r IH]; intros y H; cbn in *; auto.
  destruct (t0 =? t); cbn in *; auto. destruct H; auto.
Qed.

Lemma rds_remove_nodup : forall t r, NoDup (map fst r) ->
    NoDup (map fst (rds_remove t r)) /\ ~ In t (map fst (rds_remove t r)).
Proof.
  induction r as [|[t0 x] r IH]; intros H; cbn.
  - split; [constructor|auto].
  - inversion H; subst. destruct (t0 =? t) eqn:E.
    + apply Z.eqb_eq in E. subst. split; auto.
    + apply Z.eqb_neq in E. destruct (IH H3) as [A B]. cbn. split.
      * constructor; auto. intros Hin. apply H2. eapply rds_remove_fst_incl; eauto.
      * intros [H0|H0]; auto.
Qed.

Lemma rds_replace_nodup : forall t x r, NoDup (map fst r) -> NoDup (map fst (rds_replace t x r)).
Proof.
  intros t x r H. unfold rds_replace. rewrite map_app. cbn.
  destruct (rds_remove_nodup t r H) as [A B].
  apply Permutation.Permutation_NoDup with (l := t :: map fst (rds_remove t r)).
  - apply Permutation.Permutation_cons_append.
  - constructor; auto.
Qed.

Lemma has_ns_replace_other : forall t x f r, t <> tNS ->
    has_ns (mkNode f (rds_replace t x r)) = match rds_get tNS r with Some _ => true | None => false end.
Proof.
  intros. unfold has_ns, rds_replace. cbn [nrds]. rewrite rds_get_app, rds_get_remove_other by auto.
  destruct (rds_get tNS r); auto. cbn. destruct (t =? tNS) eqn:E; auto. apply Z.eqb_eq in E. congruence.
Qed.

Lemma has_ns_replace_ns : forall x f r, has_ns (mkNode f (rds_replace tNS x r)) = true.
Proof.
  intros. unfold has_ns, rds_replace. cbn [nrds]. rewrite rds_get_app.
  destruct (rds_get tNS (rds_remove tNS r)); auto.
Qed.

Lemma has_ns_remove_other : forall t f r, t <> tNS ->
    has_ns (mkNode f (rds_remove t r)) = match rds_get tNS r with Some _ => true | None => false end.
Proof. intros. unfold has_ns. cbn [nrds]. rewrite rds_get_remove_other by auto. reflexivity. Qed.

Lemma has_ns_remove_ns : forall f r, NoDup (map fst r) -> has_ns (mkNode f (rds_remove tNS r)) = false.
Proof.
  intros. unfold has_ns. cbn [nrds]. rewrite rds_get_none_notin; auto. apply rds_remove_nodup; auto.
Qed.

(* ---------- common set-up after _maybe_cow_with_name ---------- *)
Lemma not_sb_self : forall k n, K k = K n -> strictly_beneath k n = false.
Proof.
  intros k n E. apply not_true_is_false. intros H. apply strictly_beneath_iff in H. rewrite E in H.
  eapply sbelow_irrefl; eauto.
Qed.

Lemma owner_same_entry : forall c (l l' : nodes_t) n n0 nd nd' tr,
    sorted l -> In (n0, nd) l -> K n0 = K n ->
    Desc l l' n (Some (n0, nd')) tr -> (forall k x, nrds (tr k x) = nrds x) ->
    ns_owner c (n0, nd') = ns_owner c (n0, nd) ->
    forall k, owner c l' k <-> owner c l k.
Proof.
  intros c l l' n n0 nd nd' tr S Hin E D Htr Hns k.
  rewrite (Desc_owner c _ _ _ _ _ D Htr). split.
  - intros [[_ H]|[-> (e & He & _ & H)]]; auto. inversion He; subst e. rewrite Hns in H.
    exists n0, nd. auto.
  - intros H. destruct (key_eq_dec k (K n)) as [->|Hne]; auto. right. split; auto.
    exists (n0, nd'). repeat split; auto. rewrite Hns.
    destruct H as (m & nd1 & Hin1 & Hns1 & E1).
    assert ((m, nd1) = (n0, nd)) by (eapply sorted_functional; eauto; congruence). congruence.
Qed.

Lemma owner_add_entry : forall c (l l' : nodes_t) n n0 nd' tr,
    Desc l l' n (Some (n0, nd')) tr -> (forall k x, nrds (tr k x) = nrds x) -> K n0 = K n ->
    ns_owner c (n0, nd') = true ->
    forall k, owner c l' k <-> (owner c l k \/ k = K n).
Proof.
  intros c l l' n n0 nd' tr D Htr E Hns k. rewrite (Desc_owner c _ _ _ _ _ D Htr). split.
  - intros [[_ H]|[H _]]; auto.
  - intros [H| ->].
    + destruct (key_eq_dec k (K n)) as [->|Hne]; auto. right. split; auto. exists (n0, nd'). auto.
    + right. split; auto. exists (n0, nd'). auto.
Qed.

(* ---------- put_rdataset ---------- *)
Theorem put_inv : forall c v n t x,
    Inv c v -> validk c (K n) -> Inv c (put_rdataset c v n t x).
Proof.
  intros c v n t x HI Hv. unfold put_rdataset.
  destruct (maybe_cow c v n) as [[l1 d1 ch1] nd] eqn:Ec.
  destruct (cow_spec c v n _ nd HI Hv Ec) as (HI1 & _ & (n0 & E0 & Hin0) & _).
  cbn [v_nodes v_delegs v_changed] in *.
  pose proof (inv_sn c _ HI1) as S1. pose proof (inv_sd c _ HI1) as Sd1. cbn [v_nodes v_delegs] in S1, Sd1.
  pose proof (inv_flags c _ HI1 n0 nd Hin0) as Hf. cbn [v_nodes] in Hf.
  rewrite (is_apex_ext c n0 n), (occluded_ext c l1 n0 n) in Hf by auto.
  pose proof (inv_nd c _ HI1 n0 nd Hin0) as Hnd.
  pose proof (D_refl l1 n n0 nd S1 Hin0 E0) as D0.
  pose proof (flag_cases (is_apex c n) (occluded c l1 n) (has_ns nd)) as (Fc1 & _ & _).
  cbn zeta in Fc1. rewrite <- Hf in Fc1. rewrite Fc1.
  pose proof (owner_entry c l1 n0 nd S1 Hin0) as Hoe. rewrite E0 in Hoe.
  destruct ((t =? tNS) && (negb (is_apex c n) && negb (occluded c l1 n))) eqn:Eb.
  - (* a delegation point: NS at a name that is neither the origin nor glue *)
    apply andb_true_iff in Eb as [Et Eb]. apply andb_true_iff in Eb as [Ea Eo].
    apply Z.eqb_eq in Et. subst t. apply negb_true_iff in Ea, Eo.
    assert (Hna : K n <> apexkey c) by (apply is_apex_false_key; auto).
    assert (Hno : ~ occk c l1 (K n)) by (apply occluded_false_iff; auto).
    rewrite Ea, Eo in Hf.
    assert (Hf2 : Z.lor (nflags nd) fDELEGATION = fDELEGATION) by (rewrite Hf; destruct (has_ns nd); reflexivity).
    rewrite Hf2.
    set (nd2 := mkNode fDELEGATION (nrds nd)).
    set (ndf := mkNode fDELEGATION (rds_replace tNS x (nrds nd))).
    assert (Hnsf : ns_owner c (n0, ndf) = true).
    { unfold ns_owner. cbn [fst snd]. unfold ndf. rewrite has_ns_replace_ns.
      rewrite (is_apex_ext c n0 n), Ea by auto. reflexivity. }
    assert (Hndf : NoDup (map fst (nrds ndf))) by (apply rds_replace_nodup; auto).
    pose proof (D_update l1 l1 n n0 nd nd2 idtr S1 D0 E0) as D2.
    pose proof (al_update_sorted l1 n nd2 S1) as S2.
    destruct (al_mem n d1) eqn:Em; cbn [negb].
    + (* already a delegation point *)
      cbn [v_nodes v_delegs v_changed nflags nrds].
      pose proof (D_update l1 _ n n0 nd2 ndf idtr S2 D2 E0) as Df.
      apply (inv_mem c _ HI1) in Em as [Ho _]. cbn [v_nodes] in Ho. apply Hoe in Ho as [Hns _].
      assert (Hown : forall k, owner c (al_update n ndf (al_update n nd2 l1)) k <-> owner c l1 k).
      { eapply owner_same_entry; eauto. rewrite Hnsf. unfold ns_owner. cbn [fst snd].
        rewrite Hns, (is_apex_ext c n0 n), Ea by auto. reflexivity. }
      eapply (Inv_same_occ c l1 d1 ch1 _ d1 ch1 n (Some (n0, ndf)) idtr); eauto.
      * apply al_update_sorted; auto.
      * intros k. apply occP_ext. exact Hown.
      * intros n1 nd1 He. injection He as <- <-. rewrite Ea, Eo. unfold ndf. rewrite has_ns_replace_ns. reflexivity.
      * tauto.
      * intros e He. inversion He; subst e. exact Hndf.
    + (* a new delegation point: index it, mark its subtree as glue *)
      cbn [v_nodes v_delegs v_changed].
      destruct (ugf_true_desc (al_update n nd2 l1) (al_set n tt d1) ch1 n S2 (al_set_sorted _ _ _ Sd1))
        as (l3 & d3 & ch3 & Eu & S3 & Sd3 & Hl3 & Hd3).
      rewrite Eu. cbn [v_nodes v_delegs v_changed nflags nrds].
      set (trw := fun (k : name) (y : node) => if strictly_beneath k n then mkNode fGLUE (nrds y) else y).
      assert (D3 : Desc l1 l3 n (Some (n0, nd2)) trw).
      { eapply D_trans_walk; eauto. intros k y Ek. unfold trw. rewrite not_sb_self; auto. }
      pose proof (D_update l1 l3 n n0 nd2 ndf trw S3 D3 E0) as Df.
      eapply (Inv_new_top c l1 d1 ch1 _ d3 ch3 n n0 ndf trw); eauto.
      * apply al_update_sorted; auto.
      * intros k y. unfold trw. destruct (strictly_beneath k n); reflexivity.
      * unfold ndf. apply has_ns_replace_ns.
      * intros k y Hin Hk. unfold trw. destruct (strictly_beneath k n); reflexivity.
      * intros y. rewrite Hd3. split.
        -- intros [Hy Hn]. apply keys_in in Hy as (k & u & Hin & <-). apply al_set_in in Hin; auto.
           destruct Hin as [Hin|[Hin Hk]]; [inversion Hin; subst; auto|]. right.
           assert (Hk1 : In (K k) (keys d1)) by (eapply in_keys; eauto).
           split; auto. intros Hs. apply Hn. split; auto.
           rewrite al_update_keys. apply (inv_deleg_keys_nodes c _ HI1). exact Hk1.
        -- intros [->|[Hy Hn]].
           ++ split; [apply (in_keys _ n tt); apply al_set_in; auto|].
              intros [Hs _]. eapply sbelow_irrefl; eauto.
           ++ split; [|intros [Hs _]; auto]. apply keys_in in Hy as (k & u & Hin & <-).
              destruct (key_eq_dec (K k) (K n)) as [Ek|Ek].
              ** rewrite Ek. apply (in_keys _ n tt); apply al_set_in; auto.
              ** apply (in_keys _ k u). apply al_set_in; auto.
  - (* no change of the delegation structure *)
    cbn [v_nodes v_delegs v_changed].
    set (ndf := mkNode (nflags nd) (rds_replace t x (nrds nd))).
    pose proof (D_update l1 l1 n n0 nd ndf idtr S1 D0 E0) as Df.
    assert (Hndf : NoDup (map fst (nrds ndf))) by (apply rds_replace_nodup; auto).
    destruct (t =? tNS) eqn:Et.
    + apply Z.eqb_eq in Et. subst t. cbn [andb] in Eb.
      destruct (is_apex c n) eqn:Ea.
      * (* NS at the origin *)
        assert (Hown : forall k, owner c (al_update n ndf l1) k <-> owner c l1 k).
        { eapply owner_same_entry; eauto. unfold ns_owner. cbn [fst snd].
          rewrite (is_apex_ext c n0 n), Ea, !andb_false_r by auto. reflexivity. }
        eapply (Inv_same_occ c l1 d1 ch1 _ d1 ch1 n (Some (n0, ndf)) idtr); eauto.
        -- apply al_update_sorted; auto.
        -- intros k. apply occP_ext. exact Hown.
        -- intros n1 nd1 He. injection He as <- <-. unfold ndf. cbn [nflags]. rewrite Hf, Ea. reflexivity.
        -- tauto.
        -- intros e He. inversion He; subst e. exact Hndf.
      * (* NS beneath a delegation point *)
        cbn [negb andb] in Eb. apply negb_false_iff in Eb.
        assert (Hna : K n <> apexkey c) by (apply is_apex_false_key; auto).
        assert (Hocc : occk c l1 (K n)) by (apply occluded_iff; auto).
        assert (Hnsf : ns_owner c (n0, ndf) = true).
        { unfold ns_owner. cbn [fst snd]. unfold ndf. rewrite has_ns_replace_ns.
          rewrite (is_apex_ext c n0 n), Ea by auto. reflexivity. }
        pose proof (owner_add_entry c l1 _ n n0 ndf idtr Df (fun _ _ => eq_refl) E0 Hnsf) as Hown.
        eapply (Inv_same_occ c l1 d1 ch1 _ d1 ch1 n (Some (n0, ndf)) idtr); eauto.
        -- apply al_update_sorted; auto.
        -- intros k. rewrite !occk_occP. eapply occP_add_occluded; eauto.
        -- intros k Hk. rewrite Hown. split; auto. intros [H| ->]; auto. contradiction.
        -- intros n1 nd1 He. injection He as <- <-. unfold ndf. cbn [nflags]. rewrite Hf, Ea, Eb. reflexivity.
        -- tauto.
        -- intros e He. inversion He; subst e. exact Hndf.
    + (* another type *)
      apply Z.eqb_neq in Et.
      assert (Hns : has_ns ndf = has_ns nd) by (unfold ndf; rewrite has_ns_replace_other; auto).
      assert (Hown : forall k, owner c (al_update n ndf l1) k <-> owner c l1 k).
      { eapply owner_same_entry; eauto. unfold ns_owner. cbn [fst snd]. rewrite Hns. reflexivity. }
      eapply (Inv_same_occ c l1 d1 ch1 _ d1 ch1 n (Some (n0, ndf)) idtr); eauto.
      * apply al_update_sorted; auto.
      * intros k. apply occP_ext. exact Hown.
      * intros n1 nd1 He. injection He as <- <-. rewrite Hns. unfold ndf. cbn [nflags]. exact Hf.
      * tauto.
      * intros e He. inversion He; subst e. exact Hndf.
Qed.
