(* WKS: the bitmap rebuilt by from_text from the port numbers that to_text lists is the bitmap again (for a
   bitmap without trailing zero octets; the empty bitmap included). *)
From DV Require Import Base.Prelude Model.NameM Model.TokM Model.RdTextM.
From DV Require Import Proofs.TokEsc Proofs.TokWords Proofs.TokDec Proofs.TokShape Proofs.RdTextAddr Proofs.RdTextBitmap
     Proofs.RdTextTypes Proofs.RdTextTail.
Open Scope Z_scope.

Ltac Zify.zify_post_hook ::= Z.to_euclidean_division_equations.

(* trailing zero octets removed *)
Definition tz (l : list Z) : list Z := rev (strip_trailing_zeros_rev (rev l)).

Lemma tz_snoc_nz l b : b <> 0 -> tz (l ++ [b]) = l ++ [b].
Proof.
  intros Hb. unfold tz. rewrite rev_app_distr. cbn [rev app strip_trailing_zeros_rev].
  replace (b =? 0) with false by lia. cbn [rev]. rewrite rev_involutive. reflexivity.
Qed.

Lemma tz_snoc_z l : tz (l ++ [0]) = tz l.
Proof. unfold tz. rewrite rev_app_distr. reflexivity. Qed.

Lemma strip_zeros r : exists k, r = repeat 0 k ++ strip_trailing_zeros_rev r.
Proof.
  induction r as [|c r IH]; [exists 0%nat; reflexivity|]. cbn [strip_trailing_zeros_rev].
  destruct (c =? 0) eqn:E; [|exists 0%nat; reflexivity]. apply Z.eqb_eq in E. subst.
  destruct IH as (k & Hk). exists (S k). cbn [repeat app]. rewrite <- Hk. reflexivity.
Qed.

Lemma repeat_rev {A} (x : A) k : rev (repeat x k) = repeat x k.
Proof.
  induction k as [|k IH]; [reflexivity|]. cbn [repeat rev]. rewrite IH. clear IH.
  induction k as [|k IH]; [reflexivity|]. cbn [repeat app]. rewrite IH. reflexivity.
Qed.

Lemma tz_zeros l : exists k, l = tz l ++ repeat 0 k.
Proof.
  destruct (strip_zeros (rev l)) as (k & Hk). exists k. unfold tz.
  set (s := strip_trailing_zeros_rev (rev l)) in *.
  apply (f_equal (@rev Z)) in Hk. rewrite rev_involutive, rev_app_distr, repeat_rev in Hk. exact Hk.
Qed.

(* ---------- one octet ---------- *)
Section Octet.
  Variable pre : list Z.
  Definition st (x : Z) : list Z := if x =? 0 then tz pre else pre ++ [x].

  Lemma mask_pos j : 0 <= j < 8 -> 0 < mask j.
  Proof. intros Hj. unfold mask. assert (j = 0 \/ j = 1 \/ j = 2 \/ j = 3 \/ j = 4 \/ j = 5 \/ j = 6 \/ j = 7) by lia.
         repeat (destruct H as [->|H]; [reflexivity|]). subst. reflexivity. Qed.

  Lemma lor_mask_pos x j : 0 <= x -> 0 <= j < 8 -> 0 < Z.lor x (mask j).
  Proof.
    intros Hx Hj. pose proof (mask_pos j Hj) as Hm.
    assert (0 <= Z.lor x (mask j)) by (apply Z.lor_nonneg; lia).
    destruct (Z.eq_dec (Z.lor x (mask j)) 0) as [E|]; [|lia]. apply Z.lor_eq_0_iff in E. lia.
  Qed.

  Lemma wks_set_bit x j : 0 <= x -> 0 <= j < 8 ->
    wks_set (st x) (zlen pre * 8 + j) = st (Z.lor x (mask j)).
  Proof.
    intros Hx Hj. pose proof (lor_mask_pos x j Hx Hj) as Hl.
    unfold wks_set. replace ((zlen pre * 8 + j) / 8) with (zlen pre) by lia.
    replace ((zlen pre * 8 + j) mod 8) with j by lia. fold (mask j).
    unfold st. replace (Z.lor x (mask j) =? 0) with false by lia. destruct (x =? 0) eqn:E.
    - apply Z.eqb_eq in E. subst x. destruct (tz_zeros pre) as (k & Hk).
      assert (Hlen : zlen pre = zlen (tz pre) + Z.of_nat k).
      { unfold zlen. rewrite Hk at 1. rewrite app_length, repeat_length. lia. }
      replace (zlen (tz pre) <? zlen pre + 1) with true by lia.
      replace (Z.to_nat (zlen pre + 1 - zlen (tz pre))) with (S k) by lia.
      replace (tz pre ++ repeat 0 (S k)) with (pre ++ [0]).
      2:{ rewrite Hk at 1. rewrite <- app_assoc. f_equal. clear. induction k; [reflexivity|]. cbn [repeat app]. rewrite IHk. reflexivity. }
      replace (Z.to_nat (zlen pre)) with (length pre) by (unfold zlen; lia).
      rewrite set_nth_app. reflexivity.
    - assert (Hz : zlen (pre ++ [x]) = zlen pre + 1) by (unfold zlen; rewrite app_length; cbn [length]; lia).
      rewrite Hz. rewrite Z.ltb_irrefl.
      replace (Z.to_nat (zlen pre)) with (length pre) by (unfold zlen; lia).
      rewrite set_nth_app. reflexivity.
  Qed.

  Lemma wks_bits b : forall js x, 0 <= x -> (forall j, In j js -> 0 <= j < 8) ->
    fold_left wks_set (flat_map (fun j => if bit_set b j then [zlen pre * 8 + j] else []) js) (st x)
    = st (fold_left (fun a j => if bit_set b j then Z.lor a (mask j) else a) js x).
  Proof.
    induction js as [|j js IH]; intros x Hx Hjs; [reflexivity|]. cbn [flat_map fold_left].
    destruct (bit_set b j).
    - cbn [app fold_left]. rewrite wks_set_bit by (auto; apply Hjs; left; reflexivity).
      apply IH; [|intros; apply Hjs; right; assumption].
      pose proof (lor_mask_pos x j Hx (Hjs j (or_introl eq_refl))). lia.
    - cbn [app]. apply IH; [exact Hx|intros; apply Hjs; right; assumption].
  Qed.

  Lemma wks_octet b : 0 <= b < 256 ->
    fold_left wks_set (byte_types (zlen pre * 8) b) (tz pre) = tz (pre ++ [b]).
  Proof.
    intros Hb. change (tz pre) with (st 0). unfold byte_types.
    rewrite (wks_bits b [0; 1; 2; 3; 4; 5; 6; 7] 0 ltac:(lia)).
    2:{ intros j Hj. cbn in Hj. lia. }
    rewrite octet_bits by exact Hb. unfold st. destruct (b =? 0) eqn:E.
    - apply Z.eqb_eq in E. subst. rewrite tz_snoc_z. reflexivity.
    - rewrite tz_snoc_nz by lia. reflexivity.
  Qed.
End Octet.

(* ---------- the whole bitmap ---------- *)
Lemma wks_rebuild bm : all_bytes bm = true -> forall pre,
  fold_left wks_set (window_types 0 (zlen pre) bm) (tz pre) = tz (pre ++ bm).
Proof.
  induction bm as [|b bm IH]; intros Hb pre; [rewrite app_nil_r; reflexivity|].
  cbn [all_bytes forallb] in Hb. apply andb_true_iff in Hb as [Hb0 Hb]. apply is_byte_range in Hb0.
  cbn [window_types]. rewrite fold_left_app. change (0 * 256 + zlen pre * 8) with (zlen pre * 8).
  rewrite wks_octet by exact Hb0.
  replace (zlen pre + 1) with (zlen (pre ++ [b])) by (unfold zlen; rewrite app_length; cbn [length]; lia).
  rewrite (IH Hb (pre ++ [b])). rewrite <- app_assoc. reflexivity.
Qed.

Definition wks_canon (bm : list Z) : Prop := bm = [] \/ last bm 0 <> 0.

Lemma tz_canon bm : wks_canon bm -> tz bm = bm /\ truncate_bitmap bm = bm.
Proof.
  intros [->|H]; [split; reflexivity|].
  destruct (exists_last (l := bm)) as (l & b & ->); [intros ->; apply H; reflexivity|].
  rewrite last_last in H. split; [apply tz_snoc_nz, H|].
  unfold truncate_bitmap. rewrite rev_app_distr. cbn [rev app strip_trailing_zeros_rev].
  replace (b =? 0) with false by lia. cbn [rev]. rewrite rev_involutive. reflexivity.
Qed.

Theorem wks_bitmap_roundtrip bm : all_bytes bm = true -> wks_canon bm ->
  truncate_bitmap (fold_left wks_set (wks_ports bm) []) = bm.
Proof.
  intros Hb Hc. unfold wks_ports. pose proof (wks_rebuild bm Hb []) as G. cbn [app] in G.
  change (zlen []) with 0 in G. change (tz []) with (@nil Z) in G. rewrite G.
  destruct (tz_canon bm Hc) as [E1 E2]. rewrite E1. exact E2.
Qed.

(* ---------- the port numbers as tokens ---------- *)
Lemma wks_ports_range bm : zlen bm <= 8192 -> Forall (fun p => 0 <= p <= 65535) (wks_ports bm).
Proof.
  intros Hl. apply Forall_forall. intros t Ht. destruct (window_types_facts 0 bm 0) as [_ R]. specialize (R t Ht). lia.
Qed.

Lemma wks_tokens ports : Forall (fun p => 0 <= p <= 65535) ports ->
  Forall uword (map dec ports) /\ Forall (fun t => forallb safe t = true) (map dec ports)
  /\ map_res wks_token_port (map utok (map dec ports)) = Ok ports.
Proof.
  induction 1 as [|p ports Hp _ IH]; [repeat split; constructor|]. destruct IH as (I1 & I2 & I3).
  pose proof (dec_safe p ltac:(lia)) as Hs. cbn [map].
  split; [constructor; [split; [apply units_safe, Hs|apply dec_nonempty]|exact I1]|].
  split; [constructor; assumption|]. cbn [map_res]. unfold wks_token_port at 1, utok at 1, unescape. cbn [tesc tvalue].
  rewrite has_bs_safe by exact Hs. cbn [negb bind tvalue].
  rewrite (dec_decimal p ltac:(lia)). replace (is_nil (dec p)) with false by (pose proof (dec_nonempty p); destruct (dec p); [congruence|reflexivity]).
  cbn [negb andb]. rewrite dec_value_pv, pv_dec by lia. replace ((p <? 0) || (p >? 65535)) with false by lia.
  cbn [bind]. rewrite I3. reflexivity.
Qed.
