(* C09: the printed zone is read back as the zone that was printed. *)
From DV Require Import Base.Prelude Model.NameM Model.ZoneTextM Proofs.ZoneTextBase Proofs.ZoneTextInv
  Proofs.ZoneTextRespell Proofs.ZoneTextRead Proofs.ZoneTextLex Proofs.ZoneTextLines Proofs.ZoneTextAcc
  Proofs.ZoneTextRecord Proofs.ZoneTextSweep.
Open Scope Z_scope.

Lemma rds_eta r : mkrds (rtype r) (rcovers r) (rttl r) (rdatas r) = r.
Proof. destruct r; reflexivity. Qed.

Lemma blank_line_reads c s : line_reads c s [] s.
Proof. intros rest f. reflexivity. Qed.

Lemma check_origin_empty c zo : check_origin c (Some zo) [] = Lib eNoSOA.
Proof. unfold check_origin. destruct (c_rel c); reflexivity. Qed.

Section RT.
  Variable c : cfg.
  Variable st : style.
  Variable zo : name.
  Let rel := c_rel c.

  Hypothesis Hloss : lossless st.
  Hypothesis Hclass16 : 0 <= c_class c <= 65535.
  Let Hclass : class_ok c := class_ok_all c Hclass16.

  (* the zone built so far: the finished names, then the current name if it has an rdataset *)
  Definition pzone (zdone : zone) (n : name) (ndone : node) : zone :=
    zdone ++ match ndone with [] => [] | _ => [(n, ndone)] end.

  Lemma first_add zdone n ndone ttl ty rd :
    key_fresh zdone n -> soa_ok zo rel n ty ->
    rds_fresh ndone ty (covers_of ty rd) -> compat ndone (classify ty (covers_of ty rd)) ->
    txn_add zo rel (pzone zdone n ndone) n ttl ty rd =
    Ok (zdone ++ [(n, ndone ++ [mkrds ty (covers_of ty rd) ttl [rd]])]).
  Proof.
    intros Hf Hs Hr Hc. unfold pzone. destruct ndone as [|r0 nd0].
    - rewrite app_nil_r. apply add_new_node; assumption.
    - apply add_new_rds; assumption.
  Qed.

  (* ---------- well-formed zones (what Zone objects built through the API satisfy) ---------- *)
  Fixpoint rdatas_wf (ty cov : Z) (rdone rds : list rdata) : Prop :=
    match rds with
    | [] => True
    | rd :: r =>
        covers_of ty rd = cov /\
        existsb (rdata_eqb (canon_names ty) rd) rdone = false /\
        (exists toks, rdata_ok c st zo ty rd toks) /\
        rdatas_wf ty cov (rdone ++ [rd]) r
    end.

  Definition rds_wf (n : name) (r : rdataset) : Prop :=
    rdatas r <> [] /\ 0 <= rttl r <= MAX_TTL /\ 0 <= rtype r <= 65535 /\ soa_ok zo rel n (rtype r) /\
    (is_singleton (rtype r) = true -> exists rd, rdatas r = [rd]) /\
    rdatas_wf (rtype r) (rcovers r) [] (rdatas r).

  Fixpoint rdss_wf (n : name) (ndone rest : node) : Prop :=
    match rest with
    | [] => True
    | r :: rest' =>
        rds_fresh ndone (rtype r) (rcovers r) /\ compat ndone (rds_kind r) /\ rds_wf n r /\
        rdss_wf n (ndone ++ [r]) rest'
    end.

  Fixpoint nodes_wf (zdone rest : zone) : Prop :=
    match rest with
    | [] => True
    | (n, nd) :: rest' =>
        key_fresh zdone n /\ nd <> [] /\ (exists v nabs, owner_ok c st zo n v nabs) /\
        rdss_wf n [] nd /\ nodes_wf (zdone ++ [(n, nd)]) rest'
    end.

  (* ---------- further records of the current rdataset ---------- *)
  Section Node.
    Variables (zdone : zone) (n nabs : name) (v : list Z).
    Hypothesis Hfresh : key_fresh zdone n.
    Hypothesis Hown : owner_ok c st zo n v nabs.

    Let own_cond (s : rstate) (ownt : option (list Z)) : Prop :=
      match ownt with Some v' => v' = v | None => lastname s = Some nabs end.

    Lemma own_cond_record s ownt :
      own_cond s ownt ->
      match ownt with
      | Some v' => owner_ok c st zo n v' nabs
      | None => lastname s = Some nabs /\ is_subdomain nabs zo = true /\
                (if c_rel c then lift_name true (relativize nabs zo) else Ok nabs) = Ok n
      end.
    Proof.
      destruct ownt as [v'|]; cbn.
      - intros E. subst v'. exact Hown.
      - intros Hl. destruct Hown as (_ & _ & _ & _ & Hs & Hr). auto.
    Qed.

    Lemma more_rdatas r ndone ttl : forall rds rdone s ownt,
      rdone <> [] -> st_inv st zo s -> own_cond s ownt ->
      zn s = zdone ++ [(n, ndone ++ [mkrds (rtype r) (rcovers r) ttl rdone])] ->
      0 <= ttl <= MAX_TTL -> type_ok (rtype r) -> soa_ok zo rel n (rtype r) ->
      rds_fresh ndone (rtype r) (rcovers r) -> compat ndone (rds_kind r) ->
      (is_singleton (rtype r) = true -> rds = []) ->
      rdatas_wf (rtype r) (rcovers r) rdone rds ->
      exists lines s',
        rds_lines st (owner_field st ownt) (ttl_field st ttl) (class_field c st) (type_field st (rtype r)) r rds
          = Ok lines /\
        lines_read c s lines s' /\ st_inv st zo s' /\
        (lastname s = Some nabs -> lastname s' = Some nabs) /\
        zn s' = zdone ++ [(n, ndone ++ [mkrds (rtype r) (rcovers r) ttl (rdone ++ rds)])].
    Proof.
      induction rds as [|rd rds IH]; intros rdone s ownt Hne Hinv Hoc Hzn Httl Hty Hsoa Hrf Hcp Hsing Hwf.
      - exists [], s. cbn [rds_lines]. rewrite app_nil_r.
        split; [reflexivity|]. split; [constructor|]. split; [exact Hinv|]. split; [auto|exact Hzn].
      - cbn [rdatas_wf] in Hwf. destruct Hwf as (Hcov & Hdup & (toks & Hrd) & Hwf).
        assert (Hns : is_singleton (rtype r) = false).
        { destruct (is_singleton (rtype r)); [specialize (Hsing eq_refl); discriminate|reflexivity]. }
        assert (Hadd : txn_add zo rel (zn s) n ttl (rtype r) rd =
                       Ok (zdone ++ [(n, ndone ++ [mkrds (rtype r) (rcovers r) ttl (rdone ++ [rd])])])).
        { rewrite Hzn. apply add_more_rd; auto. }
        set (z' := zdone ++ [(n, ndone ++ [mkrds (rtype r) (rcovers r) ttl (rdone ++ [rd])])]) in *.
        set (s1 := next_state st s nabs ttl (rtype r) rd z').
        assert (Hline := record_line_reads c st zo s n nabs ownt ttl (rtype r) rd toks z'
                           Hloss Hclass Hinv (own_cond_record s ownt Hoc) Httl Hty Hrd Hadd).
        fold s1 in Hline.
        destruct (IH (rdone ++ [rd]) s1 (if st_dedup st then None else ownt)) as (lines & s' & Hl & Hr & Hi & Hla & Hz); auto.
        + intro H. apply app_eq_nil in H. destruct H; discriminate.
        + apply next_state_inv. exact Hinv.
        + destruct (st_dedup st); [apply next_state_last|].
          destruct ownt; [exact Hoc|apply next_state_last].
        + intros H. specialize (Hsing H). discriminate.
        + destruct Hrd as (Hrt & _ & _).
          destruct Hloss as (_ & _ & Hg & _ & Hod & _).
          exists ((owner_field st ownt ++ ttl_field st ttl ++ class_field c st ++ type_field st (rtype r) ++
                   32 :: join_sp (map render_tok toks)) :: lines), s'.
          cbn [rds_lines]. rewrite Hg, Hod, Hrt. cbn [bind].
          replace (if st_dedup st then justify blank4 (st_name_just st) else owner_field st ownt)
            with (owner_field st (if st_dedup st then None else ownt)) by (destruct (st_dedup st); reflexivity).
          rewrite Hl. cbn [bind].
          split; [reflexivity|]. split; [econstructor; eauto|]. split; [exact Hi|].
          split; [intros _; apply Hla; apply next_state_last|].
          rewrite Hz, <- app_assoc. reflexivity.
    Qed.

    (* ---------- one rdataset ---------- *)
    Lemma rds_text_lines_eq (fd : bool) r :
      rds_text_lines st (c_class c) fd n r =
      rds_lines st (owner_field st (if st_dedup st && fd then None else Some v)) (ttl_field st (rttl r))
        (class_field c st) (type_field st (rtype r)) r (rdatas r).
    Proof.
      destruct Hloss as (_ & Hot & Hg & _ & Hod & _). destruct Hown as (Hnt & _).
      unfold rds_text_lines, owner_field, ttl_field, class_field, type_field.
      rewrite Hod, Hnt. destruct (st_dedup st && fd); reflexivity.
    Qed.

    Lemma rdataset_lines r ndone (fd : bool) s :
      st_inv st zo s -> (st_dedup st && fd = true -> lastname s = Some nabs) ->
      zn s = pzone zdone n ndone ->
      rds_fresh ndone (rtype r) (rcovers r) -> compat ndone (rds_kind r) -> rds_wf n r ->
      exists lines s',
        rds_text_lines st (c_class c) fd n r = Ok lines /\
        lines_read c s lines s' /\ st_inv st zo s' /\ lastname s' = Some nabs /\
        zn s' = zdone ++ [(n, ndone ++ [r])].
    Proof.
      intros Hinv Hfd Hzn Hrf Hcp (Hne & Httl & Hty16 & Hsoa & Hsing & Hwf).
      pose proof (type_ok_all _ Hty16) as Hty.
      destruct (rdatas r) as [|rd rds] eqn:Erd; [congruence|].
      cbn [rdatas_wf] in Hwf. destruct Hwf as (Hcov & _ & (toks & Hrd) & Hwf).
      remember (if st_dedup st && fd then None else Some v) as ownt eqn:Eown.
      assert (Hoc : own_cond s ownt).
      { subst ownt. destruct (st_dedup st && fd); [apply Hfd; reflexivity|reflexivity]. }
      assert (Hadd : txn_add zo rel (zn s) n (rttl r) (rtype r) rd =
                     Ok (zdone ++ [(n, ndone ++ [mkrds (rtype r) (rcovers r) (rttl r) [rd]])])).
      { rewrite Hzn, <- Hcov. apply first_add; auto; rewrite Hcov; assumption. }
      set (z' := zdone ++ [(n, ndone ++ [mkrds (rtype r) (rcovers r) (rttl r) [rd]])]) in *.
      set (s1 := next_state st s nabs (rttl r) (rtype r) rd z').
      assert (Hline := record_line_reads c st zo s n nabs ownt (rttl r) (rtype r) rd toks z'
                         Hloss Hclass Hinv (own_cond_record s ownt Hoc) Httl Hty Hrd Hadd).
      fold s1 in Hline.
      destruct (more_rdatas r ndone (rttl r) rds [rd] s1 (if st_dedup st then None else ownt))
        as (lines & s' & Hl & Hr & Hi & Hla & Hz); auto.
      - discriminate.
      - apply next_state_inv. exact Hinv.
      - destruct (st_dedup st) eqn:Ed; [apply next_state_last|].
        cbn [andb] in Eown. subst ownt. reflexivity.
      - intros H. destruct (Hsing H) as (rd0 & E0). inversion E0. reflexivity.
      - destruct Hrd as (Hrt & _ & _).
        destruct Hloss as (_ & Hot & Hg & _ & Hod & _).
        exists ((owner_field st ownt ++ ttl_field st (rttl r) ++ class_field c st ++ type_field st (rtype r) ++
                 32 :: join_sp (map render_tok toks)) :: lines), s'.
        rewrite (rds_text_lines_eq fd r), <- Eown, Erd.
        cbn [rds_lines]. rewrite Hg, Hod, Hrt. cbn [bind].
        replace (if st_dedup st then justify blank4 (st_name_just st) else owner_field st ownt)
          with (owner_field st (if st_dedup st then None else ownt)) by (destruct (st_dedup st); reflexivity).
        rewrite Hl. cbn [bind].
        split; [reflexivity|]. split; [econstructor; eauto|]. split; [exact Hi|].
        split; [apply Hla; apply next_state_last|].
        rewrite Hz. cbn [app]. rewrite <- Erd, rds_eta. reflexivity.
    Qed.
    (* ---------- all rdatasets of one name ---------- *)
    Lemma pzone_cons ndone r : pzone zdone n (ndone ++ [r]) = zdone ++ [(n, ndone ++ [r])].
    Proof. unfold pzone. destruct (ndone ++ [r]) eqn:E; [|reflexivity]. apply app_eq_nil in E. destruct E; discriminate. Qed.

    Lemma node_lines_read : forall rest ndone (fd : bool) s,
      st_inv st zo s -> (st_dedup st && fd = true -> lastname s = Some nabs) ->
      zn s = pzone zdone n ndone -> rdss_wf n ndone rest ->
      exists lines s',
        node_lines st (c_class c) fd n rest = Ok lines /\
        lines_read c s lines s' /\ st_inv st zo s' /\
        zn s' = pzone zdone n (ndone ++ rest).
    Proof.
      induction rest as [|r rest IH]; intros ndone fd s Hinv Hfd Hzn Hwf.
      - exists [], s. rewrite app_nil_r. split; [reflexivity|]. split; [constructor|]. auto.
      - cbn [rdss_wf] in Hwf. destruct Hwf as (Hrf & Hcp & Hr & Hwf).
        destruct (rdataset_lines r ndone fd s Hinv Hfd Hzn Hrf Hcp Hr) as (l & s1 & Hl & Hr1 & Hi1 & Hla1 & Hz1).
        destruct (IH (ndone ++ [r]) (fd || st_dedup st) s1 Hi1 ltac:(intros _; exact Hla1)
                    ltac:(rewrite pzone_cons; exact Hz1) Hwf) as (more & s' & Hm & Hr2 & Hi2 & Hz2).
        exists (l ++ more), s'. cbn [node_lines].
        destruct Hr as (Hne & _). destruct (rdatas r) eqn:Erd; [congruence|].
        rewrite Hl. cbn [bind]. rewrite Hm. cbn [bind].
        split; [reflexivity|]. split; [eapply lines_read_app; eauto|]. split; [exact Hi2|].
        rewrite Hz2, <- app_assoc. reflexivity.
    Qed.
  End Node.

  (* ---------- all names ---------- *)
  Lemma nodes_lines_read : forall rest zdone s,
    st_inv st zo s -> zn s = zdone -> nodes_wf zdone rest ->
    exists lines s',
      nodes_lines st (c_class c) rest = Ok lines /\
      lines_read c s lines s' /\ st_inv st zo s' /\ zn s' = zdone ++ rest.
  Proof.
    induction rest as [|[n nd] rest IH]; intros zdone s Hinv Hzn Hwf.
    - exists [], s. rewrite app_nil_r. split; [reflexivity|]. split; [constructor|]. auto.
    - cbn [nodes_wf] in Hwf. destruct Hwf as (Hf & Hne & (v & nabs & Hown) & Hrw & Hwf).
      destruct Hloss as (Hfd & _).
      destruct (node_lines_read zdone n nabs v Hf Hown nd [] (st_first_dup st) s Hinv)
        as (l & s1 & Hl & Hr1 & Hi1 & Hz1); auto.
      { rewrite Hfd, andb_false_r. discriminate. }
      { unfold pzone. rewrite app_nil_r. exact Hzn. }
      assert (Hz1' : zn s1 = zdone ++ [(n, nd)]).
      { rewrite Hz1. unfold pzone. cbn [app]. destruct nd; [congruence|reflexivity]. }
      destruct (IH (zdone ++ [(n, nd)]) s1 Hi1 Hz1' Hwf) as (more & s' & Hm & Hr2 & Hi2 & Hz2).
      exists ((match l with [] => [[]] | _ => l end) ++ more), s'.
      cbn [nodes_lines]. rewrite Hl. cbn [bind]. rewrite Hm. cbn [bind].
      split; [reflexivity|]. split; [|split; [exact Hi2|rewrite Hz2, <- app_assoc; reflexivity]].
      eapply lines_read_app; [|exact Hr2].
      destruct l as [|l0 l']; [|exact Hr1].
      inversion Hr1; subst. econstructor; [apply blank_line_reads|constructor].
  Qed.

  (* ---------- directives ---------- *)
  Definition origin_ok : Prop :=
    as_name true (NameM.to_text zo) None false None = Ok zo /\ is_absolute zo = true /\
    id_clean (NameM.to_text zo) = true.

  Lemma origin_line_reads s :
    origin_ok ->
    line_reads c s ([36; 79; 82; 73; 71; 73; 78; 32] ++ NameM.to_text zo) (set_origin s zo).
  Proof.
    intros (Hn & Ha & Hc).
    replace ([36; 79; 82; 73; 71; 73; 78; 32] ++ NameM.to_text zo)
      with (render [Tk (TId sORIGIN); Sp 1; Tk (TId (NameM.to_text zo))])
      by (cbn [render render_tok repeat app sORIGIN]; rewrite app_nil_r; reflexivity).
    apply line_reads_pieces.
    - cbn [sep_ok tok_clean]. rewrite Hc. reflexivity.
    - cbn [toks_of]. unfold process_line.
      replace (starts_ws _) with false by reflexivity.
      cbn [tokval sORIGIN upper_l map upper Z.leb Z.compare andb zlist_eqb Z.eqb sTTL Pos.eqb get_ident bind].
      rewrite Hn. cbn [bind]. rewrite Ha. reflexivity.
  Qed.

  Lemma ttl_line_reads s d :
    0 <= d <= MAX_TTL ->
    line_reads c s ([36; 84; 84; 76; 32] ++ dec d) (set_dttl s d).
  Proof.
    intros Hd.
    replace ([36; 84; 84; 76; 32] ++ dec d) with (render [Tk (TId sTTL); Sp 1; Tk (TId (dec d))])
      by (cbn [render render_tok repeat app sTTL]; rewrite app_nil_r; reflexivity).
    apply line_reads_pieces.
    - cbn [sep_ok tok_clean].
      destruct (dec_spec d ltac:(lia)) as (Ha & _ & Hne). rewrite (digits_clean _ Ha Hne). reflexivity.
    - cbn [toks_of]. unfold process_line.
      replace (starts_ws _) with false by reflexivity.
      cbn [tokval sTTL upper_l map upper Z.leb Z.compare andb zlist_eqb Z.eqb Pos.eqb get_ident bind].
      rewrite (ttl_from_text_dec _ Hd). reflexivity.
  Qed.

  (* ---------- the whole zone ---------- *)
  (* the order in which the printer writes the names *)
  Definition printed_order (nodes : zone) : zone := if st_sorted st then zsort nodes else nodes.

  Theorem zone_roundtrip_proof nodes nodes' :
    nodes' = printed_order nodes ->
    (c_origin c = Some zo \/ (c_origin c = None /\ st_want_origin st = true)) ->
    (st_want_origin st = true -> origin_ok) ->
    nodes_wf [] nodes' ->
    (c_check c = true -> check_origin c (Some zo) nodes' = Ok tt) ->
    exists text,
      zone_text st (mkpz (Some zo) rel (c_class c) nodes) = Ok text /\
      from_text c text = Ok (match nodes' with [] => c_origin c | _ => Some zo end, nodes').
  Proof.
    intros En Horig Hook Hwf Hchk.
    destruct Hloss as (Hfd & Hot & Hg & Hnj & Hod & Hdr).
    (* state after the directives *)
    set (s0 := init_state c).
    set (s1 := if st_want_origin st then set_origin s0 zo else s0).
    set (s2 := match st_default_ttl st with Some d => set_dttl s1 d | None => s1 end).
    assert (Hinv : st_inv st zo s2).
    { unfold st_inv, s2, s1, s0, init_state.
      destruct (st_want_origin st) eqn:Ew; destruct (st_default_ttl st) as [d|] eqn:Ed; st_simpl;
        destruct Horig as [Ho|[Ho Hw]]; try rewrite Ho; try congruence;
        (split; [reflexivity|split; [reflexivity|]]); intros d' Hd'; inversion Hd'; subst; auto. }
    assert (Hz2 : zn s2 = []).
    { unfold s2, s1, s0. destruct (st_want_origin st); destruct (st_default_ttl st); reflexivity. }
    destruct (nodes_lines_read nodes' [] s2 Hinv Hz2 Hwf) as (l3 & s3 & Hl3 & Hr3 & Hi3 & Hz3).
    cbn [app] in Hz3.
    set (l1 := if st_want_origin st then [[36; 79; 82; 73; 71; 73; 78; 32] ++ NameM.to_text zo] else []).
    set (l2 := match st_default_ttl st with Some d => [[36; 84; 84; 76; 32] ++ dec d] | None => [] end).
    assert (Hlines : zone_lines st (mkpz (Some zo) rel (c_class c) nodes) = Ok (l1 ++ l2 ++ l3)).
    { unfold zone_lines. cbn [pz_rel pz_origin pz_class pz_nodes]. rewrite Hg. cbn [andb].
      fold (printed_order nodes). rewrite <- En, Hl3. unfold l1, l2.
      destruct (st_want_origin st); [|reflexivity].
      unfold name_text, choose_relativity. cbn [bind]. rewrite Hod. reflexivity. }
    assert (Hread : lines_read c s0 (l1 ++ l2 ++ l3) s3).
    { apply lines_read_app with (s1 := s1).
      - unfold l1, s1. destruct (st_want_origin st) eqn:Ew; [|constructor].
        econstructor; [apply origin_line_reads; auto|constructor].
      - apply lines_read_app with (s1 := s2); [|exact Hr3].
        unfold l2, s2. destruct (st_default_ttl st) as [d|] eqn:Ed; [|constructor].
        econstructor; [apply ttl_line_reads; auto|constructor]. }
    exists (text_of (l1 ++ l2 ++ l3)). split.
    - unfold zone_text. rewrite Hlines. reflexivity.
    - unfold from_text.
      rewrite (read_loop_lines c _ _ _ Hread) by (pose proof (length_text_of (l1 ++ l2 ++ l3)); lia).
      cbn [bind]. rewrite Hz3.
      destruct Hi3 as (_ & Hzo3 & _). rewrite Hzo3.
      destruct nodes' as [|e ns]; [|destruct (c_check c) eqn:Ec; [rewrite (Hchk eq_refl)|]; reflexivity].
      destruct (c_check c) eqn:Ec; [|reflexivity].
      specialize (Hchk eq_refl). rewrite check_origin_empty in Hchk. discriminate.
  Qed.
End RT.
