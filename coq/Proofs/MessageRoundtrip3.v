(* Render-then-parse including the TSIG record (ordinary messages, no origin). *)
From DV Require Import Base.Prelude Model.NameM Model.MessageM.
From DV Require Import Proofs.NameOrder Proofs.NameValid Proofs.NameRel Proofs.NameWire Proofs.NameCompress.
From DV Require Import Proofs.MessageName Proofs.MessageRender Proofs.MessageRead Proofs.MessageRoundtrip Proofs.MessageRoundtrip2.
From DV Require Import Proofs.MessageSize Proofs.MessagePad Proofs.MessageTrunc.
Open Scope Z_scope.

(* the stages of Message.to_wire *)
Lemma to_wire_st_stages m og ms rp prefer pad r :
  to_wire_st m og ms rp prefer pad = Ok r ->
  let r0 := mkRst (repeat 0 12) [] 0 0 0 0 0 (mflags m) (eff_limit ms rp) 0 false in
  exists r1 tr r2 b1 s1 b2 s2 b3 s3 b4 s4 r3,
    reserve (compute_opt_reserve m pad) r0 = Ok r1 /\ compute_tsig_reserve m = Ok tr /\ reserve tr r1 = Ok r2 /\
    add_questions og (mq m) r2 = Ok (b1, s1) /\
    (if b1 then Ok (b1, s1) else add_rrsets og 1 (man m) s1) = Ok (b2, s2) /\
    (if b2 then Ok (b2, s2) else add_rrsets og 2 (mau m) s2) = Ok (b3, s3) /\
    (if b3 then Ok (b3, s3) else add_rrsets og 3 (mad m) s3) = Ok (b4, s4) /\
    (if b4 then if prefer then Ok (if rsec s4 <? 3 then set_rflags s4 (Z.lor (rflags s4) fTC) else s4) else Lib eTooBig
     else Ok s4) = Ok r3 /\
    finish m og pad (compute_opt_reserve m pad) tr r3 = Ok r.
Proof.
  intros H r0. unfold to_wire_st in H. fold r0 in H.
  apply bind_ok in H. destruct H as (r1 & R1 & H).
  apply bind_ok in H. destruct H as (tr & TR & H).
  apply bind_ok in H. destruct H as (r2 & R2 & H).
  apply bind_ok in H. destruct H as ([b1 s1] & S1 & H). cbn [fst snd] in H.
  apply bind_ok in H. destruct H as ([b2 s2] & S2 & H). cbn [fst snd] in H.
  apply bind_ok in H. destruct H as ([b3 s3] & S3 & H). cbn [fst snd] in H.
  apply bind_ok in H. destruct H as ([b4 s4] & S4 & H). cbn [fst snd] in H.
  apply bind_ok in H. destruct H as (r3 & R3 & H).
  exists r1, tr, r2, b1, s1, b2, s2, b3, s3, b4, s4, r3. repeat split; assumption.
Qed.

(* ---------- one RR emission taken apart and put together ---------- *)
Lemma rr_em_split owner ty cl ttl rd oo ro oc rc pos t em t' :
  rr_em owner ty cl ttl rd oo ro oc rc pos t = Ok (em, t') ->
  exists e1 t1 e2,
    nm_em owner oo oc pos t = Ok (e1, t1) /\ rd_em rd ro rc (pos + zlen e1 + 10) t1 = Ok (e2, t') /\
    (zlen e2 >? 65535) = false /\ pack16 ty = Ok (MessageM.u16 ty) /\ pack16 cl = Ok (MessageM.u16 cl) /\
    pack32 ttl = Ok (MessageM.u32 ttl) /\
    em = e1 ++ MessageM.u16 ty ++ MessageM.u16 cl ++ MessageM.u32 ttl ++ MessageM.u16 (zlen e2) ++ e2.
Proof.
  intros H. unfold rr_em in H.
  apply bind_ok in H. destruct H as ([e1 t1] & H1 & H).
  apply bind_ok in H. destruct H as (h1 & E1 & H). apply bind_ok in H. destruct H as (h2 & E2 & H).
  apply bind_ok in H. destruct H as (h3 & E3 & H). apply bind_ok in H. destruct H as ([e2 t2] & H2 & H).
  cbn [fst snd] in *. destruct (zlen e2 >? 65535) eqn:EB; [discriminate|].
  pose proof E1 as P1. pose proof E2 as P2. pose proof E3 as P3.
  apply pack16_ok in E1, E2. apply pack32_ok in E3. destruct E1 as (-> & _). destruct E2 as (-> & _). destruct E3 as (-> & _).
  remember (MessageM.u16 (zlen e2)) as h4. injection H as <- <-. subst h4.
  exists e1, t1, e2. repeat split; assumption.
Qed.

Lemma rr_em_join owner ty cl ttl rd oo ro oc rc pos t e1 t1 e2 t' :
  nm_em owner oo oc pos t = Ok (e1, t1) -> rd_em rd ro rc (pos + zlen e1 + 10) t1 = Ok (e2, t') ->
  (zlen e2 >? 65535) = false -> pack16 ty = Ok (MessageM.u16 ty) -> pack16 cl = Ok (MessageM.u16 cl) ->
  pack32 ttl = Ok (MessageM.u32 ttl) ->
  rr_em owner ty cl ttl rd oo ro oc rc pos t
  = Ok (e1 ++ MessageM.u16 ty ++ MessageM.u16 cl ++ MessageM.u32 ttl ++ MessageM.u16 (zlen e2) ++ e2, t').
Proof.
  intros H1 H2 EB P1 P2 P3. unfold rr_em. rewrite H1. cbn [bind fst snd]. rewrite P1, P2, P3. cbn [bind].
  rewrite H2. cbn [bind fst snd]. rewrite EB. reflexivity.
Qed.

Lemma wire_labels_len_ci : forall a b, ci_equal a b -> zlen (wire_labels false a) = zlen (wire_labels false b).
Proof.
  unfold ci_equal. induction a as [|l a IH]; intros [|l' b] H; try discriminate; [reflexivity|].
  cbn [map] in H. injection H as H1 H2. rewrite !wire_labels_cons. rewrite !zlen_cons', !zlen_app'.
  rewrite (IH b H2). f_equal. f_equal. apply (f_equal (@length Z)) in H1. unfold lower_l in H1. rewrite !map_length in H1.
  unfold zlen. f_equal. exact H1.
Qed.

Lemma tbl_ci_refl t : tbl_ci t t.
Proof. induction t as [|[k v] t IH]; constructor; [split; reflexivity|exact IH]. Qed.

Lemma tsig_reserve_make m kn rd et t :
  mtsig m = Some (kn, rd) -> rr_em kn tTSIG cANY 0 rd None None false false 0 [] = Ok (et, t) ->
  compute_tsig_reserve m = Ok (zlen et).
Proof.
  intros HM H. unfold compute_tsig_reserve. rewrite HM. rewrite rrset_to_wire_em. unfold run_em, rrset_em, tsig_rrset, wclass.
  cbn [rrds rdeleting rname rtype rclass rttl rrs_em]. change (zlen (@nil Z)) with 0. rewrite H. cbn [bind fst snd app].
  rewrite app_nil_r. reflexivity.
Qed.

(* the reserve computed for a TSIG record depends on the key name only through its label lengths *)
Lemma tsig_reserve_ci og m m2 kn rd kn' rd' tr pos t et t1 t2 :
  mtsig m = Some (kn, rd) -> mtsig m2 = Some (kn', rd') -> compute_tsig_reserve m = Ok tr ->
  name_ok kn -> name_ok kn' -> ci_equal kn' kn ->
  rr_em kn tTSIG cANY 0 rd og None true false pos t = Ok (et, t1) ->
  rr_em kn tTSIG cANY 0 rd' og None true false pos t = Ok (et, t2) ->
  compute_tsig_reserve m2 = Ok tr.
Proof.
  intros HM HM2 HTR NO NO' CI H1 H2.
  destruct (tsig_reserve_spec m kn rd tr HM HTR) as (A & et0 & HE0 & ->).
  destruct (rr_em_split _ _ _ _ _ _ _ _ _ _ _ _ _ H1) as (e1 & s1 & e2 & N1 & D1 & B1 & P1 & P2 & P3 & ->).
  destruct (rr_em_split _ _ _ _ _ _ _ _ _ _ _ _ _ H2) as (e1' & s1' & e2' & N1' & D2 & B2 & _ & _ & _ & EQ).
  assert (e1' = e1 /\ s1' = s1) as (-> & ->) by (split; congruence).
  apply app_inv_head in EQ. apply app_inv_head in EQ. apply app_inv_head in EQ. apply app_inv_head in EQ.
  cbn [MessageM.u16 app] in EQ. injection EQ as _ _ EQ. subst e2'.
  destruct (rd_em_nc _ _ _ _ _ _ D1) as (_ & NC1). destruct (rd_em_nc _ _ _ _ _ _ D2) as (_ & NC2).
  destruct (rr_em_split _ _ _ _ _ _ _ _ _ _ _ _ _ HE0) as (f1 & u1 & f2 & M1 & M2 & _ & _ & _ & _ & ->).
  assert (f2 = e2) by (rewrite NC1 in M2; congruence). subst f2.
  assert (Ef1 : f1 = wire_labels false kn /\ u1 = []).
  { unfold nm_em in M1. rewrite (full_labels_abs kn None NO) in M1. cbn [bind] in M1. split; congruence. }
  destruct Ef1 as (-> & ->).
  assert (M1' : nm_em kn' None false 0 [] = Ok (wire_labels false kn', [])).
  { unfold nm_em. rewrite (full_labels_abs kn' None NO'). reflexivity. }
  rewrite (tsig_reserve_make m2 kn' rd' _ _ HM2 (rr_em_join _ _ _ _ _ _ _ _ _ _ _ _ _ _ _ M1' (NC2 _ _) B1 P1 P2 P3)).
  f_equal. rewrite !zlen_app'. rewrite (wire_labels_len_ci _ _ CI). reflexivity.
Qed.

(* ---------- padding: add_opt with a block size is add_opt without, on the padded OPT ---------- *)
Definition pad_opt (oo : optrec) (pad size : Z) : optrec :=
  if pad =? 0 then oo
  else mkOpt (oflags oo) (opayload oo)
             (oopts oo ++ [(12, if size mod pad =? 0 then [] else repeat 0 (Z.to_nat (pad - size mod pad)))]).
Definition pad_st (r : rst) (pad : Z) : rst := if pad =? 0 then r else set_padded r.

Lemma add_opt_pad og oo pad os ts r :
  add_opt og oo pad os ts r = add_opt og (pad_opt oo pad (zlen (out r) + os + ts)) 0 os ts (pad_st r pad).
Proof. unfold add_opt, pad_opt, pad_st. destruct (pad =? 0); reflexivity. Qed.

Lemma pad_st_fields r pad :
  out (pad_st r pad) = out r /\ tbl (pad_st r pad) = tbl r /\ cq (pad_st r pad) = cq r /\ can (pad_st r pad) = can r /\
  cau (pad_st r pad) = cau r /\ cad (pad_st r pad) = cad r /\ rflags (pad_st r pad) = rflags r /\
  rsec (pad_st r pad) = rsec r /\ padded (pad_st r pad) = (if pad =? 0 then padded r else true).
Proof. unfold pad_st. destruct (pad =? 0); repeat split; reflexivity. Qed.

Definition opt_padded (m : msg) (pad : Z) : bool :=
  match mopt m with Some _ => negb (pad =? 0) | None => false end.

Lemma pad_opt_ok oo pad size : opts_ok (oopts oo) -> opts_ok (oopts (pad_opt oo pad size)).
Proof.
  intros H. unfold pad_opt. destruct (pad =? 0); [exact H|]. cbn [oopts]. unfold opts_ok in *.
  apply Forall_app. split; [exact H|]. constructor; [reflexivity|constructor].
Qed.

Section WithOrigin.
Variable o : option name.
Hypothesis OO : org_ok o.

Definition tail6 (m : msg) (r5 : rst) : res rst :=
  do r6 <- write_header (mid m) r5;
  match mtsig m with
  | Some (kn, rd) =>
      do br <- write_tsig o kn rd r6;
      do r7 <- raise_if_big br;
      write_header (mid m) r7
  | None => Ok r6
  end.

(* Message.to_wire up to (not including) the first write_header *)
Definition head5 (m : msg) (ms rp : Z) : res rst :=
  let r0 := mkRst (repeat 0 12) [] 0 0 0 0 0 (mflags m) (eff_limit ms rp) 0 false in
  do r1 <- reserve (compute_opt_reserve m 0) r0;
  do tr <- compute_tsig_reserve m;
  do r2 <- reserve tr r1;
  do b1 <- add_questions o (mq m) r2;
  do b2 <- (if fst b1 then Ok b1 else add_rrsets o 1 (man m) (snd b1));
  do b3 <- (if fst b2 then Ok b2 else add_rrsets o 2 (mau m) (snd b2));
  do b4 <- (if fst b3 then Ok b3 else add_rrsets o 3 (mad m) (snd b3));
  do r3 <- (if fst b4 then Lib eTooBig else Ok (snd b4));
  let r4 := release_reserved r3 in
  match mopt m with
  | Some oo => do br <- add_opt o oo 0 (compute_opt_reserve m 0) tr r4; raise_if_big br
  | None => Ok r4
  end.

Lemma to_wire_st_head5 m ms rp : to_wire_st m o ms rp false 0 = do r5 <- head5 m ms rp; tail6 m r5.
Proof.
  unfold to_wire_st, head5, tail6.
  destruct (reserve _ _) as [r1| |]; cbn [bind]; try reflexivity.
  destruct (compute_tsig_reserve m) as [tr| |]; cbn [bind]; try reflexivity.
  destruct (reserve tr r1) as [r2| |]; cbn [bind]; try reflexivity.
  destruct (add_questions o (mq m) r2) as [[b1 s1]| |]; cbn [bind fst snd]; try reflexivity.
  destruct (if b1 then _ else _) as [[b2 s2]| |]; cbn [bind fst snd]; try reflexivity.
  destruct (if b2 then _ else _) as [[b3 s3]| |]; cbn [bind fst snd]; try reflexivity.
  destruct (if b3 then _ else _) as [[b4 s4]| |]; cbn [bind fst snd]; try reflexivity.
  destruct b4; cbn [bind]; try reflexivity.
Qed.

Lemma write_header_with_tbl id r r' tq :
  write_header id r = Ok r' -> write_header id (with_tbl r tq) = Ok (with_tbl r' tq).
Proof.
  unfold write_header. cbn [with_tbl set_out rflags cq can cau cad out tbl].
  destruct (pack16 id); cbn [bind]; try discriminate.
  destruct (pack16 (rflags r)); cbn [bind]; try discriminate.
  destruct (pack16 (cq r)); cbn [bind]; try discriminate.
  destruct (pack16 (can r)); cbn [bind]; try discriminate.
  destruct (pack16 (cau r)); cbn [bind]; try discriminate.
  destruct (pack16 (cad r)); cbn [bind]; try discriminate.
  intros H. injection H as <-. reflexivity.
Qed.

Definition qrec (q : qd) : rrset := mkRR (q_name q) (q_cl q) (q_ty q) 0 None 0 [].

(* everything before the header is written, relative to an arbitrary 12-octet header `hdr`;
   generic in the well-formedness W of the record sets of a section and the relation D between the
   record sets and the records on the wire *)
Section Body.
Variable W : Z -> rrset -> Prop.
Variable D : Z -> list rrset -> list rrd -> Prop.
Variable R : Z -> list rrset -> list rrd -> list rrset -> Prop.
Hypothesis chainW : forall sec l r r' file,
  1 <= sec <= 3 ->
  zlen file = zlen (out r) -> TableSound file (tbl r) -> TblBelow r -> Forall (W sec) l ->
  add_rrsets o sec l r = Ok (false, r') ->
  exists em ds,
    out r' = out r ++ em /\ TableSound (file ++ em) (tbl r') /\ TblBelow r' /\
    Chain o (file ++ em) (length file) ds (length (file ++ em)) /\ D sec l ds /\
    count_of r' sec = count_of r sec + zlen ds /\
    (forall s, 0 <= s <= 3 -> s <> sec -> count_of r' s = count_of r s) /\
    rflags r' = rflags r /\ maxsz r' = maxsz r /\ reserved r' = reserved r /\ padded r' = padded r /\
    rsec r <= rsec r' <= Z.max (rsec r) sec /\
    (forall l2 tq, R sec l ds l2 -> tbl_ci tq (tbl r) ->
       exists tq', add_rrsets o sec l2 (with_tbl r tq) = Ok (false, with_tbl r' tq') /\ tbl_ci tq' (tbl r')).

Lemma render_body_gen_p pad m ms rp r hdr :
  zlen hdr = 12 ->
  Forall (fun rs => name_wf o (rname rs)) (mq m) ->
  Forall (W 1) (man m) -> Forall (W 2) (mau m) -> Forall (W 3) (mad m) ->
  match mopt m with Some oo => opts_ok (oopts oo) /\ name_wf o [[]] | None => True end ->
  to_wire_st m o ms rp false pad = Ok r ->
  exists qs ds1 ds2 ds3 owner' wb body (e0 e1 e2 e3 : nat) r5,
    tail6 m r5 = Ok r /\
    out r5 = repeat 0 12 ++ body /\
    cq r5 = zlen qs /\ can r5 = zlen ds1 /\ cau r5 = zlen ds2 /\ cad r5 = zlen ds3 + opt_count (mopt m) /\
    rflags r5 = mflags m /\ padded r5 = opt_padded m pad /\ TblBelow r5 /\ rsec r5 <= 3 /\
    TableSound (hdr ++ body) (tbl r5) /\
    QChain o (hdr ++ body) 12 qs e0 /\ Chain o (hdr ++ body) e0 ds1 e1 /\ Chain o (hdr ++ body) e1 ds2 e2 /\
    Chain o (hdr ++ body) e2 ds3 e3 /\
    Forall2 (q_desc o) (mq m) qs /\ D 1 (man m) ds1 /\ D 2 (mau m) ds2 /\ D 3 (mad m) ds3 /\
    match mopt m with
    | Some o1 => exists sz, let o' := pad_opt o1 pad sz in
                 (exists abs', RRreads o o (hdr ++ body) e3 abs' owner' tOPT (opayload o') (oflags o') [FRest] [PB wb] (length (hdr ++ body))) /\
                 ci_equal owner' [[]] /\ opts_wire (oopts o') = Ok wb
    | None => e3 = length (hdr ++ body)
    end /\
    (pad = 0 -> forall m2, mflags m2 = mflags m -> mopt m2 = mopt m -> mq m2 = map qrec qs ->
       R 1 (man m) ds1 (man m2) -> R 2 (mau m) ds2 (mau m2) -> R 3 (mad m) ds3 (mad m2) ->
       compute_tsig_reserve m2 = compute_tsig_reserve m ->
       exists tq5, head5 m2 ms rp = Ok (with_tbl r5 tq5) /\ tbl_ci tq5 (tbl r5)).
Proof.
  intros Hh WQ WA WU WD WO H.
  assert (Hhl : length hdr = 12%nat) by (unfold zlen in Hh; lia).
  destruct (to_wire_st_stages _ _ _ _ _ _ _ H) as (r1 & tr & r2' & bq & s1 & ba & s2 & bu & s3 & bd & s4 & r3 & R1 & TR & R2 & S1 & S2 & S3 & S4 & R3 & FIN).
  set (r0 := mkRst (repeat 0 12) [] 0 0 0 0 0 (mflags m) (eff_limit ms rp) 0 false) in *.
  pose proof R1 as R1'. pose proof R2 as R2'.
  apply reserve_is in R1. destruct R1 as (a1 & b1 & ->). apply reserve_is in R2. destruct R2 as (a2 & b2 & ->).
  set (r2 := set_limits (set_limits r0 a1 b1) a2 b2) in *.
  assert (bq = false /\ ba = false /\ bu = false /\ bd = false) as (-> & -> & -> & ->).
  { destruct bq; [injection S2 as <- <-; injection S3 as <- <-; injection S4 as <- <-; discriminate|].
    destruct ba; [injection S3 as <- <-; injection S4 as <- <-; discriminate|].
    destruct bu; [injection S4 as <- <-; discriminate|].
    destruct bd; [discriminate|]. auto. }
  injection R3 as <-.
  unfold finish in FIN. set (r4 := release_reserved s4) in *.
  apply bind_ok in FIN. destruct FIN as (r5 & R5 & FIN).
  (* questions *)
  destruct (add_questions_chain o OO (mq m) r2 s1 hdr) as (emq & qs & Oq & TSq & TBq & QC & QD & Cq0 & Cq1 & Cq2 & Cq3 & Fq & _ & _ & Pq & REq);
    [rewrite Hh; reflexivity|apply TableSound_nil'|constructor|exact WQ|exact S1|].
  (* answer, authority, additional *)
  destruct (chainW 1 (man m) s1 s2 (hdr ++ emq)) as (em1 & ds1 & O1 & TS1 & TB1 & C1 & SD1 & N1 & N1' & F1 & _ & _ & P1 & RS1 & RE1);
    [lia|rewrite Oq, !zlen_app', Hh; reflexivity|exact TSq|exact TBq|exact WA|exact S2|].
  destruct (chainW 2 (mau m) s2 s3 ((hdr ++ emq) ++ em1)) as (em2 & ds2 & O2 & TS2 & TB2 & C2 & SD2 & N2 & N2' & F2 & _ & _ & P2 & RS2 & RE2);
    [lia|rewrite O1, Oq, !zlen_app', Hh; reflexivity|exact TS1|exact TB1|exact WU|exact S3|].
  destruct (chainW 3 (mad m) s3 s4 (((hdr ++ emq) ++ em1) ++ em2)) as (em3 & ds3 & O3 & TS3 & TB3 & C3 & SD3 & N3 & N3' & F3 & _ & _ & P3 & RS3 & RE3);
    [lia|rewrite O2, O1, Oq, !zlen_app', Hh; reflexivity|exact TS2|exact TB2|exact WD|exact S4|].
  remember ((((hdr ++ emq) ++ em1) ++ em2) ++ em3) as f3 eqn:Ef3.
  assert (Os4 : out s4 = repeat 0 12 ++ emq ++ em1 ++ em2 ++ em3).
  { rewrite O3, O2, O1, Oq. unfold r2. cbn [out set_limits r0]. rewrite <- !app_assoc. reflexivity. }
  assert (Hz4 : zlen f3 = zlen (out r4)).
  { unfold r4. cbn [out release_reserved set_limits]. rewrite Os4. rewrite Ef3. rewrite !zlen_app'.
    change (zlen (repeat 0 12)) with 12. lia. }
  assert (Hcnt : cq s4 = zlen qs /\ can s4 = zlen ds1 /\ cau s4 = zlen ds2 /\ cad s4 = zlen ds3 /\ rflags s4 = mflags m).
  { pose proof (N1' 0 ltac:(lia) ltac:(lia)) as A0. pose proof (N1' 2 ltac:(lia) ltac:(lia)) as A2.
    pose proof (N1' 3 ltac:(lia) ltac:(lia)) as A3.
    pose proof (N2' 0 ltac:(lia) ltac:(lia)) as B0. pose proof (N2' 1 ltac:(lia) ltac:(lia)) as B1.
    pose proof (N2' 3 ltac:(lia) ltac:(lia)) as B3.
    pose proof (N3' 0 ltac:(lia) ltac:(lia)) as D0. pose proof (N3' 1 ltac:(lia) ltac:(lia)) as D1.
    pose proof (N3' 2 ltac:(lia) ltac:(lia)) as D2.
    unfold count_of in *. cbn [Z.eqb Pos.eqb] in *.
    unfold r2 in *. cbn [cq can cau cad rflags set_limits r0] in *.
    repeat split; try lia; try (rewrite F3, F2, F1, Fq; reflexivity); try congruence. }
  destruct Hcnt as (K0 & K1 & K2 & K3 & KF).
  assert (PD4 : padded s4 = false).
  { rewrite P3, P2, P1, Pq. reflexivity. }
  assert (RS4 : rsec s4 <= 3).
  { unfold r2 in *. cbn [rsec set_limits r0] in *.
    assert (rsec s1 <= 0).
    { destruct (add_questions_req o (mq m) r2 r2 false s1 (req_refl r2)) as (_ & _ & _ & X & _); try exact S1;
        unfold r2; cbn [rsec set_limits r0]; lia. }
    lia. }
  assert (RE4 : pad = 0 -> forall m2, mflags m2 = mflags m -> mopt m2 = mopt m -> mq m2 = map qrec qs ->
       R 1 (man m) ds1 (man m2) -> R 2 (mau m) ds2 (mau m2) -> R 3 (mad m) ds3 (mad m2) ->
       compute_tsig_reserve m2 = compute_tsig_reserve m ->
       exists tq4, tbl_ci tq4 (tbl s4) /\
         head5 m2 ms rp = match mopt m with
                          | Some oo => do br <- add_opt o oo 0 (compute_opt_reserve m 0) tr (with_tbl r4 tq4); raise_if_big br
                          | None => Ok (with_tbl r4 tq4)
                          end).
  { intros Hp m2 Hfl2 Hopt2 Hq2 HR1 HR2 HR3 Htr2. subst pad.
    assert (TC0 : tbl_ci [] (tbl r2)) by (unfold r2; cbn [tbl set_limits r0]; constructor).
    destruct (REq [] TC0) as (tq1 & Tq & TCq).
    destruct (RE1 (man m2) tq1 HR1 TCq) as (tq2 & T1 & TC1).
    destruct (RE2 (mau m2) tq2 HR2 TC1) as (tq3 & T2 & TC2).
    destruct (RE3 (mad m2) tq3 HR3 TC2) as (tq4 & T3 & TC3).
    exists tq4. split; [exact TC3|].
    assert (Hco : compute_opt_reserve m2 0 = compute_opt_reserve m 0) by (unfold compute_opt_reserve; rewrite Hopt2; reflexivity).
    assert (Er2 : with_tbl r2 [] = r2) by reflexivity. rewrite Er2 in Tq.
    unfold head5. rewrite Hfl2, Hco, Htr2, Hopt2, Hq2. fold r0. rewrite R1'. cbn [bind]. rewrite TR. cbn [bind].
    rewrite R2'. cbn [bind]. fold r2. unfold qrec. rewrite Tq. cbn [bind fst snd]. rewrite T1. cbn [bind fst snd].
    rewrite T2. cbn [bind fst snd]. rewrite T3. cbn [bind fst snd]. reflexivity. }
  destruct (mopt m) as [o'|] eqn:EO.
  - apply bind_ok in R5. destruct R5 as ([b5 s5] & A5 & R5). unfold raise_if_big in R5. cbn [fst snd] in R5.
    destruct b5; [discriminate|]. injection R5 as <-.
    assert (TS4 : TableSound f3 (tbl r4)) by (unfold r4; cbn [tbl release_reserved set_limits]; exact TS3).
    assert (TB4 : TblBelow r4) by (unfold TblBelow, r4 in *; cbn [out tbl release_reserved set_limits]; exact TB3).
    destruct WO as (WO & NWr).
    rewrite add_opt_pad in A5.
    set (sz := zlen (out r4) + compute_opt_reserve m pad + tr) in *.
    set (o2 := pad_opt o' pad sz) in *. set (r4p := pad_st r4 pad) in *.
    destruct (pad_st_fields r4 pad) as (Po & Pt & Pq0 & Pq1 & Pq2 & Pq3 & Pf & Ps & Pp). fold r4p in Po, Pt, Pq0, Pq1, Pq2, Pq3, Pf, Ps, Pp.
    assert (Hz4p : zlen f3 = zlen (out r4p)) by (rewrite Po; exact Hz4).
    assert (TS4p : TableSound f3 (tbl r4p)) by (rewrite Pt; exact TS4).
    assert (TB4p : TblBelow r4p) by (unfold TblBelow; rewrite Po, Pt; exact TB4).
    destruct (add_opt_chain o OO o2 (compute_opt_reserve m pad) tr r4p s5 f3 NWr Hz4p TS4p TB4p A5)
      as (emo & wb & abso & owner' & Oo & HW & CIo & RO & TSo & Q0 & Q1 & Q2 & Q3 & QF & REo).
    rewrite Po in Oo. rewrite Pq0 in Q0. rewrite Pq1 in Q1. rewrite Pq2 in Q2. rewrite Pq3 in Q3. rewrite Pf in QF.
    unfold r4 in Oo, Q0, Q1, Q2, Q3, QF. cbn [out cq can cau cad rflags release_reserved set_limits] in Oo, Q0, Q1, Q2, Q3, QF.
    (* padded and section of s5, TblBelow s5 *)
    assert (X5 : padded s5 = negb (pad =? 0) /\ rsec s5 <= 3 /\ TblBelow s5).
    { unfold add_opt in A5. cbn [Z.eqb] in A5. apply bind_ok in A5. destruct A5 as (rs & _ & A5).
      rewrite add_rrset_tracked in A5.
      destruct (tracked_spec _ _ _ _ _ _ (ext_rrset_em _ _ _) TB4p A5) as (_ & em' & new' & _ & F' & [(_ & _ & ->)|(Hb & _)]);
        [|discriminate].
      cbn [padded rsec inc_count set_out set_rsec]. rewrite Pp. unfold r4. cbn [padded release_reserved set_limits].
      split; [rewrite PD4; destruct (pad =? 0); reflexivity|]. split; [lia|].
      unfold TblBelow. cbn [out tbl inc_count set_out]. apply TblBelow_step; assumption. }
    destruct X5 as (P5 & RS5 & TB5).
    exists qs, ds1, ds2, ds3, owner', wb, (emq ++ em1 ++ em2 ++ em3 ++ emo),
      (length (hdr ++ emq)), (length ((hdr ++ emq) ++ em1)), (length (((hdr ++ emq) ++ em1) ++ em2)), (length f3), s5.
    assert (Ebody : hdr ++ emq ++ em1 ++ em2 ++ em3 ++ emo = f3 ++ emo) by (rewrite Ef3; rewrite <- !app_assoc; reflexivity).
    rewrite Ebody. cbn [opt_count].
    split; [exact FIN|].
    split; [rewrite Oo, Os4; rewrite <- !app_assoc; reflexivity|].
    split; [lia|]. split; [lia|]. split; [lia|]. split; [lia|]. split; [congruence|].
    split; [unfold opt_padded; rewrite EO; exact P5|]. split; [exact TB5|]. split; [exact RS5|]. split; [exact TSo|].
    split; [rewrite <- Hhl; rewrite Ef3; do 4 apply QChain_app_w; exact QC|].
    split; [rewrite Ef3; do 3 apply Chain_app_w; exact C1|].
    split; [rewrite Ef3; do 2 apply Chain_app_w; exact C2|].
    split; [apply Chain_app_w; exact C3|].
    split; [exact QD|]. split; [exact SD1|]. split; [exact SD2|]. split; [exact SD3|].
    split; [exists sz; split; [exists abso; exact RO|split; [exact CIo|exact HW]]|].
    intros Hp m2 Hfl2 Hopt2 Hq2 HR1 HR2 HR3 Htr2.
    destruct (RE4 Hp m2 Hfl2 Hopt2 Hq2 HR1 HR2 HR3 Htr2) as (tq4 & TC4 & H5).
    assert (TC4p : tbl_ci tq4 (tbl r4p)) by (rewrite Pt; exact TC4).
    destruct (REo tq4 TC4p) as (tq5 & To & TCo).
    exists tq5. split; [|exact TCo]. rewrite H5. subst pad.
    change (add_opt o o' 0 (compute_opt_reserve m 0) tr (with_tbl r4 tq4))
      with (add_opt o o2 0 (compute_opt_reserve m 0) tr (with_tbl r4p tq4)).
    rewrite To. reflexivity.
  - injection R5 as <-.
    exists qs, ds1, ds2, ds3, [[]], [], (emq ++ em1 ++ em2 ++ em3),
      (length (hdr ++ emq)), (length ((hdr ++ emq) ++ em1)), (length (((hdr ++ emq) ++ em1) ++ em2)), (length f3), r4.
    assert (Ebody : hdr ++ emq ++ em1 ++ em2 ++ em3 = f3) by (rewrite Ef3; rewrite <- !app_assoc; reflexivity).
    rewrite Ebody. cbn [opt_count]. unfold r4. cbn [out tbl cq can cau cad rflags padded rsec release_reserved set_limits].
    split; [exact FIN|]. split; [exact Os4|].
    split; [lia|]. split; [lia|]. split; [lia|]. split; [lia|]. split; [exact KF|].
    split; [unfold opt_padded; rewrite EO; exact PD4|]. split; [exact TB3|]. split; [exact RS4|]. split; [exact TS3|].
    split; [rewrite <- Hhl; rewrite Ef3; do 3 apply QChain_app_w; exact QC|].
    split; [rewrite Ef3; do 2 apply Chain_app_w; exact C1|].
    split; [rewrite Ef3; apply Chain_app_w; exact C2|].
    split; [exact C3|].
    split; [exact QD|]. split; [exact SD1|]. split; [exact SD2|]. split; [exact SD3|]. split; [reflexivity|].
    intros Hp m2 Hfl2 Hopt2 Hq2 HR1 HR2 HR3 Htr2.
    destruct (RE4 Hp m2 Hfl2 Hopt2 Hq2 HR1 HR2 HR3 Htr2) as (tq4 & TC4 & H5).
    exists tq4. split; [exact H5|exact TC4].
Qed.


Lemma skipn_patch16_12 f v : (12 <= length f)%nat -> skipn 12 (patch16 f 10 v) = skipn 12 f.
Proof.
  intros H. unfold patch16. change (Z.to_nat 10) with 10%nat.
  replace (firstn 10 f ++ MessageM.u16 v ++ skipn (10 + 2) f) with ((firstn 10 f ++ MessageM.u16 v) ++ skipn 12 f)
    by (rewrite <- app_assoc; reflexivity).
  apply skipn_app_exact'. rewrite app_length, firstn_length. cbn [length MessageM.u16]. lia.
Qed.

Definition wf_tsig (m : msg) : Prop :=
  match mtsig m with
  | Some (kn, rd) => name_ok kn /\ Forall (piece_wf None) rd /\ shaped tsig_fs rd
  | None => True
  end.

(* the final octets: header with the counts, then the chains, the OPT and the TSIG record *)
Lemma layout_final_p pad m ms rp w :
  Forall (fun rs => name_wf o (rname rs)) (mq m) ->
  Forall (W 1) (man m) -> Forall (W 2) (mau m) -> Forall (W 3) (mad m) ->
  match mopt m with Some oo => opts_ok (oopts oo) /\ name_wf o [[]] | None => True end ->
  wf_tsig m -> to_wire m o ms rp false pad = Ok w ->
  exists qs ds1 ds2 ds3 owner' wb body (e0 e1 e2 e3 e4 : nat) (t' : option (name * rdata)),
    w = hdr_bytes (mid m) (mflags m) (zlen qs) (zlen ds1) (zlen ds2)
                  (zlen ds3 + opt_count (mopt m) + opt_count t') ++ body /\
    0 <= mid m <= 65535 /\ 0 <= mflags m <= 65535 /\ zlen qs <= 65535 /\ zlen ds1 <= 65535 /\ zlen ds2 <= 65535 /\
    zlen ds3 + opt_count (mopt m) + opt_count t' <= 65535 /\
    QChain o w 12 qs e0 /\ Chain o w e0 ds1 e1 /\ Chain o w e1 ds2 e2 /\ Chain o w e2 ds3 e3 /\
    Forall2 (q_desc o) (mq m) qs /\ D 1 (man m) ds1 /\ D 2 (mau m) ds2 /\ D 3 (mad m) ds3 /\
    match mopt m with
    | Some o1 => exists sz, let o' := pad_opt o1 pad sz in
                 (exists abs', RRreads o o w e3 abs' owner' tOPT (opayload o') (oflags o') [FRest] [PB wb] e4) /\
                 ci_equal owner' [[]] /\ opts_wire (oopts o') = Ok wb /\ opts_ok (oopts o')
    | None => e4 = e3
    end /\
    match t' with
    | Some (kn', rd') => exists x, RRreads o None w e4 kn' x tTSIG cANY 0 tsig_fs rd' (length w)
    | None => e4 = length w
    end /\
    match t', mtsig m with
    | Some (kn', rd'), Some (kn, rd) => ci_equal kn' kn /\ rdata_ci rd' rd
    | None, None => True
    | _, _ => False
    end /\
    (exists r, to_wire_st m o ms rp false pad = Ok r /\ out r = w /\ TableSound w (tbl r)) /\
    (pad = 0 -> forall m2, mid m2 = mid m -> mflags m2 = mflags m -> mopt m2 = mopt m -> mq m2 = map qrec qs ->
       R 1 (man m) ds1 (man m2) -> R 2 (mau m) ds2 (mau m2) -> R 3 (mad m) ds3 (mad m2) -> mtsig m2 = t' ->
       to_wire m2 o ms rp false 0 = Ok w).
Proof.
  intros WQ WA WU WD WO WT H. unfold to_wire in H. apply bind_ok in H. destruct H as (r & HR & H). injection H as <-.
  destruct (to_wire_st_SInv _ _ _ _ _ _ _ HR) as ((I12 & _) & _).
  set (hdr := firstn 12 (out r)).
  assert (Hh : zlen hdr = 12).
  { unfold hdr, zlen in *. rewrite firstn_length. lia. }
  destruct (render_body_gen_p pad m ms rp r hdr Hh WQ WA WU WD WO HR)
    as (qs & ds1 & ds2 & ds3 & owner' & wb & body & e0 & e1 & e2 & e3 & r5 & T6 & O5 & K0 & K1 & K2 & K3 & KF & P5 & TB5 & RS5 &
        TS5 & QC & C1 & C2 & C3 & QD & SD1 & SD2 & SD3 & HO & RE5).
  unfold tail6 in T6. apply bind_ok in T6. destruct T6 as (r6 & R6 & T6). pose proof R6 as R6'.
  destruct (write_header_full _ _ _ R6) as (Er6 & Hid & Hfl & Hc0 & Hc1 & Hc2 & Hc3).
  rewrite KF, K0, K1, K2, K3 in *.
  assert (S12 : skipn 12 (out r5) = body) by (rewrite O5; apply skipn_app_exact'; reflexivity).
  rewrite S12 in Er6.
  remember (hdr_bytes (mid m) (mflags m) (zlen qs) (zlen ds1) (zlen ds2) (zlen ds3 + opt_count (mopt m))) as h6 eqn:Eh6.
  assert (Lh6 : length h6 = 12%nat) by (subst h6; reflexivity).
  assert (F6 : out r6 = h6 ++ body /\ tbl r6 = tbl r5 /\ cq r6 = zlen qs /\ can r6 = zlen ds1 /\ cau r6 = zlen ds2 /\
               cad r6 = zlen ds3 + opt_count (mopt m) /\ rflags r6 = mflags m /\ padded r6 = opt_padded m pad).
  { rewrite Er6. cbn [out tbl cq can cau cad rflags padded set_out]. repeat split; assumption. }
  destruct F6 as (F6o & F6t & F6q & F6a & F6u & F6d & F6f & F6p). clear Er6.
  unfold wf_tsig in WT.
  destruct (mtsig m) as [[kn rd]|] eqn:ET.
  - (* with a TSIG record *)
    destruct WT as (NOk & POk & SHk).
    apply bind_ok in T6. destruct T6 as ([b7 s7] & A7 & T6). apply bind_ok in T6. destruct T6 as (r7 & R7 & T6).
    unfold raise_if_big in R7. cbn [fst snd] in R7. destruct b7; [discriminate|]. injection R7 as <-.
    rewrite write_tsig_eq in A7. rewrite F6p in A7. cbn [negb] in A7.
    apply bind_ok in A7. destruct A7 as ([b8 s8] & A8 & A7). cbn [fst snd] in A7.
    assert (TB6 : TblBelow r6).
    { unfold TblBelow in *. rewrite F6t, F6o. rewrite O5 in TB5. rewrite zlen_app' in *.
      change (zlen (repeat 0 12)) with 12 in TB5. unfold zlen at 1. rewrite Lh6. exact TB5. }
    destruct (tracked_spec _ _ _ _ _ _ (ext_rr_em _ _ _ _ _ _ _ _ _) TB6 A8) as (_ & et & new8 & HE8 & _ & [(Eb & _ & Es8)|(Eb & _)]);
      [|subst b8; discriminate].
    subst b8. apply bind_ok in A7. destruct A7 as (c & PC & A7). injection A7 as <-.
    pose proof T6 as T6'. pose proof A8 as A8'.
    assert (Fs8 : out s8 = (h6 ++ body) ++ et /\ tbl s8 = tbl r5 ++ new8 /\ cq s8 = zlen qs /\ can s8 = zlen ds1 /\ cau s8 = zlen ds2 /\
                  cad s8 = zlen ds3 + opt_count (mopt m) + 1 /\ rflags s8 = mflags m).
    { rewrite Es8. cbn [out tbl cq can cau cad rflags set_out inc_count set_rsec Z.eqb Pos.eqb].
      rewrite F6o, F6t, F6q, F6a, F6u, F6d, F6f. repeat split; reflexivity. }
    destruct Fs8 as (F8o & F8t & F8q & F8a & F8u & F8d & F8f). clear Es8.
    destruct (write_header_full _ _ _ T6) as (Er & _ & _ & _ & _ & _ & Hc3').
    cbn [out tbl cq can cau cad rflags set_out] in Er, Hc3'.
    rewrite F8o, F8q, F8a, F8u, F8d, F8f in Er. rewrite F8d in Hc3'.
    assert (L6 : (12 <= length ((h6 ++ body) ++ et))%nat) by (rewrite !app_length, Lh6; lia).
    rewrite skipn_patch16_12 in Er by exact L6.
    rewrite <- app_assoc in Er. rewrite (skipn_app_exact' h6) in Er by exact Lh6.
    remember (hdr_bytes (mid m) (mflags m) (zlen qs) (zlen ds1) (zlen ds2) (zlen ds3 + opt_count (mopt m) + 1)) as hF eqn:EhF.
    assert (LhF : length hF = 12%nat) by (subst hF; reflexivity).
    assert (Ehdr : hdr = hF).
    { unfold hdr. rewrite Er. cbn [out set_out]. rewrite <- LhF. apply (firstn_app_exact hF (body ++ et)). }
    rewrite F6o, F6t in HE8.
    assert (Z6 : zlen (h6 ++ body) = zlen (hdr ++ body)) by (rewrite !zlen_app', Hh; unfold zlen; rewrite Lh6; reflexivity).
    rewrite Z6 in HE8.
    destruct (rr_em_read_x o None tsig_fs kn kn tTSIG cANY 0 rd (negb (opt_padded m pad)) false (hdr ++ body) (tbl r5) et _ OO Logic.I TS5
                         (full_labels_abs kn o NOk) NOk POk SHk HE8)
      as (TS8 & _ & _ & _ & kn' & xk & rd' & c1 & rdl & CIk & NOk' & HXk & CIr & _ & _ & A & B & C & E & SLk & RE8).
    assert (RR : pad = 0 -> forall m2, mid m2 = mid m -> mflags m2 = mflags m -> mopt m2 = mopt m -> mq m2 = map qrec qs ->
       R 1 (man m) ds1 (man m2) -> R 2 (mau m) ds2 (mau m2) -> R 3 (mad m) ds3 (mad m2) -> mtsig m2 = Some (kn', rd') ->
       to_wire m2 o ms rp false 0 = Ok (out r)).
    { intros Hp m2 Hid2 Hfl2 Hopt2 Hq2 HR1 HR2 HR3 Ht2.
      assert (EC : negb (opt_padded m pad) = true) by (rewrite Hp; unfold opt_padded; destruct (mopt m); reflexivity).
      rewrite EC in *.
      assert (Htr2 : compute_tsig_reserve m2 = compute_tsig_reserve m).
      { destruct (RE8 (tbl r5) kn kn (tbl_ci_refl _) (full_labels_abs kn o NOk) (lsim_refl _ _)) as (tqx & HEx & _).
        destruct (to_wire_st_stages _ _ _ _ _ _ _ HR) as (_ & tr & _ & _ & _ & _ & _ & _ & _ & _ & _ & _ & _ & TR & _).
        rewrite TR. exact (tsig_reserve_ci o m m2 kn rd kn' rd' tr _ _ _ _ _ ET Ht2 TR NOk NOk' CIk HE8 HEx). }
      destruct (RE5 Hp m2 Hfl2 Hopt2 Hq2 HR1 HR2 HR3 Htr2) as (tq5 & H5 & TC5).
      unfold to_wire. rewrite to_wire_st_head5, H5. cbn [bind]. unfold tail6. rewrite Hid2, Ht2.
      rewrite (write_header_with_tbl _ _ _ tq5 R6'). cbn [bind].
      rewrite write_tsig_eq. cbn [padded with_tbl set_out]. rewrite F6p. rewrite EC.
      destruct (tracked_sim (rr_em kn' tTSIG cANY 0 rd' o None true false) _ _ _ _ _ tq5 A8') as (tq8 & T8 & TC8).
      { rewrite F6t. exact TC5. }
      { intros em0 t0 HE0. rewrite F6o, F6t, Z6 in HE0. rewrite F6o, Z6.
        assert (em0 = et /\ t0 = tbl r5 ++ new8) as (-> & ->) by (split; congruence).
        apply (RE8 tq5 kn' kn' TC5 (full_labels_abs kn' o NOk') SLk). }
      rewrite T8. cbn [bind fst snd]. cbn [cad with_tbl set_out]. rewrite PC. cbn [bind]. unfold raise_if_big. cbn [fst snd bind].
      change (set_out (with_tbl s8 tq8) (patch16 (out (with_tbl s8 tq8)) 10 (cad s8)) (tbl (with_tbl s8 tq8)))
        with (with_tbl (set_out s8 (patch16 (out s8) 10 (cad s8)) (tbl s8)) tq8).
      rewrite (write_header_with_tbl _ _ _ tq8 T6'). reflexivity. }
    exists qs, ds1, ds2, ds3, owner', wb, (body ++ et), e0, e1, e2, e3, (length (hdr ++ body)), (Some (kn', rd')).
    rewrite Er. cbn [out set_out opt_count]. rewrite Ehdr in *. rewrite EhF in *.
    split; [reflexivity|]. split; [exact Hid|]. split; [exact Hfl|]. split; [lia|]. split; [lia|]. split; [lia|].
    split; [lia|].
    split; [rewrite app_assoc; apply QChain_app_w; exact QC|].
    split; [rewrite app_assoc; apply Chain_app_w; exact C1|].
    split; [rewrite app_assoc; apply Chain_app_w; exact C2|].
    split; [rewrite app_assoc; apply Chain_app_w; exact C3|].
    split; [exact QD|]. split; [exact SD1|]. split; [exact SD2|]. split; [exact SD3|].
    split.
    { destruct (mopt m) as [o'|].
      - destruct HO as (sz & (abso & RO) & CI & HW). destruct WO as (WO1 & _). exists sz.
        split; [exists abso; rewrite app_assoc; apply RRreads_app; exact RO|].
        split; [exact CI|]. split; [exact HW|]. apply pad_opt_ok. exact WO1.
      - symmetry. exact HO. }
    split; [|split; [split; [exact CIk|exact CIr]|split]].
    { exists xk. rewrite app_assoc. exists c1, rdl. split; [exact A|]. split; [lia|]. split; [exact B|]. split; [exact C|]. exact E. }
    { exists r. split; [exact HR|]. split; [rewrite Er; reflexivity|].
      rewrite Er. cbn [tbl set_out]. rewrite F8t. rewrite app_assoc. exact TS8. }
    intros Hp m2 Hid2 Hfl2 Hopt2 Hq2 HR1 HR2 HR3 Ht2. rewrite (RR Hp m2 Hid2 Hfl2 Hopt2 Hq2 HR1 HR2 HR3 Ht2).
    rewrite Er. reflexivity.
  - (* without TSIG *)
    injection T6 as <-.
    assert (RR : pad = 0 -> forall m2, mid m2 = mid m -> mflags m2 = mflags m -> mopt m2 = mopt m -> mq m2 = map qrec qs ->
       R 1 (man m) ds1 (man m2) -> R 2 (mau m) ds2 (mau m2) -> R 3 (mad m) ds3 (mad m2) -> mtsig m2 = None ->
       to_wire m2 o ms rp false 0 = Ok (out r6)).
    { intros Hp m2 Hid2 Hfl2 Hopt2 Hq2 HR1 HR2 HR3 Ht2.
      assert (Htr2 : compute_tsig_reserve m2 = compute_tsig_reserve m).
      { unfold compute_tsig_reserve. rewrite Ht2, ET. reflexivity. }
      destruct (RE5 Hp m2 Hfl2 Hopt2 Hq2 HR1 HR2 HR3 Htr2) as (tq5 & H5 & TC5).
      unfold to_wire. rewrite to_wire_st_head5, H5. cbn [bind]. unfold tail6. rewrite Hid2, Ht2.
      rewrite (write_header_with_tbl _ _ _ tq5 R6'). reflexivity. }
    assert (Ehdr : hdr = h6).
    { unfold hdr. rewrite F6o. rewrite <- Lh6. apply (firstn_app_exact h6 body). }
    exists qs, ds1, ds2, ds3, owner', wb, body, e0, e1, e2, e3,
      (match mopt m with Some _ => length (h6 ++ body) | None => e3 end), (@None (name * rdata)).
    rewrite F6o. rewrite Ehdr in *. cbn [opt_count]. rewrite Z.add_0_r. rewrite Eh6 in *.
    split; [reflexivity|]. split; [exact Hid|]. split; [exact Hfl|]. split; [lia|]. split; [lia|]. split; [lia|].
    split; [lia|].
    split; [exact QC|]. split; [exact C1|]. split; [exact C2|]. split; [exact C3|].
    split; [exact QD|]. split; [exact SD1|]. split; [exact SD2|]. split; [exact SD3|].
    split.
    { destruct (mopt m) as [o'|]; [|reflexivity].
      destruct HO as (sz & RO & CI & HW). destruct WO as (WO1 & _). exists sz. split; [exact RO|].
      split; [exact CI|]. split; [exact HW|]. apply pad_opt_ok. exact WO1. }
    split; [|split; [exact Logic.I|split]].
    { destruct (mopt m) as [o'|]; [reflexivity|exact HO]. }
    { exists r6. split; [exact HR|]. split; [exact F6o|]. rewrite F6t. exact TS5. }
    intros Hp m2 Hid2 Hfl2 Hopt2 Hq2 HR1 HR2 HR3 Ht2. rewrite (RR Hp m2 Hid2 Hfl2 Hopt2 Hq2 HR1 HR2 HR3 Ht2).
    rewrite F6o. reflexivity.
Qed.

(* the unpadded instances *)
Lemma render_body_gen m ms rp r hdr :
  zlen hdr = 12 ->
  Forall (fun rs => name_wf o (rname rs)) (mq m) ->
  Forall (W 1) (man m) -> Forall (W 2) (mau m) -> Forall (W 3) (mad m) ->
  match mopt m with Some oo => opts_ok (oopts oo) /\ name_wf o [[]] | None => True end ->
  to_wire_st m o ms rp false 0 = Ok r ->
  exists qs ds1 ds2 ds3 owner' wb body (e0 e1 e2 e3 : nat) r5,
    tail6 m r5 = Ok r /\
    out r5 = repeat 0 12 ++ body /\
    cq r5 = zlen qs /\ can r5 = zlen ds1 /\ cau r5 = zlen ds2 /\ cad r5 = zlen ds3 + opt_count (mopt m) /\
    rflags r5 = mflags m /\ padded r5 = false /\ TblBelow r5 /\ rsec r5 <= 3 /\
    TableSound (hdr ++ body) (tbl r5) /\
    QChain o (hdr ++ body) 12 qs e0 /\ Chain o (hdr ++ body) e0 ds1 e1 /\ Chain o (hdr ++ body) e1 ds2 e2 /\
    Chain o (hdr ++ body) e2 ds3 e3 /\
    Forall2 (q_desc o) (mq m) qs /\ D 1 (man m) ds1 /\ D 2 (mau m) ds2 /\ D 3 (mad m) ds3 /\
    match mopt m with
    | Some o' => (exists abs', RRreads o o (hdr ++ body) e3 abs' owner' tOPT (opayload o') (oflags o') [FRest] [PB wb] (length (hdr ++ body))) /\
                 ci_equal owner' [[]] /\ opts_wire (oopts o') = Ok wb
    | None => e3 = length (hdr ++ body)
    end.
Proof.
  intros Hh WQ WA WU WD WO H.
  destruct (render_body_gen_p 0 m ms rp r hdr Hh WQ WA WU WD WO H)
    as (qs & ds1 & ds2 & ds3 & owner' & wb & body & e0 & e1 & e2 & e3 & r5 &
        A1&A2&A3&A4&A5&A6&A7&A8&A9&A10&A11&A12&A13&A14&A15&A16&A17&A18&A19&A20&_).
  exists qs, ds1, ds2, ds3, owner', wb, body, e0, e1, e2, e3, r5.
  assert (A8' : padded r5 = false) by (rewrite A8; unfold opt_padded; destruct (mopt m); reflexivity).
  clear A8.
  repeat (split; [assumption|]).
  destruct (mopt m) as [o1|]; [|exact A20]. destruct A20 as (sz & X). exact X.
Qed.

Lemma layout_final m ms rp w :
  Forall (fun rs => name_wf o (rname rs)) (mq m) ->
  Forall (W 1) (man m) -> Forall (W 2) (mau m) -> Forall (W 3) (mad m) ->
  match mopt m with Some oo => opts_ok (oopts oo) /\ name_wf o [[]] | None => True end ->
  wf_tsig m -> to_wire m o ms rp false 0 = Ok w ->
  exists qs ds1 ds2 ds3 owner' wb body (e0 e1 e2 e3 e4 : nat) (t' : option (name * rdata)),
    w = hdr_bytes (mid m) (mflags m) (zlen qs) (zlen ds1) (zlen ds2)
                  (zlen ds3 + opt_count (mopt m) + opt_count t') ++ body /\
    0 <= mid m <= 65535 /\ 0 <= mflags m <= 65535 /\ zlen qs <= 65535 /\ zlen ds1 <= 65535 /\ zlen ds2 <= 65535 /\
    zlen ds3 + opt_count (mopt m) + opt_count t' <= 65535 /\
    QChain o w 12 qs e0 /\ Chain o w e0 ds1 e1 /\ Chain o w e1 ds2 e2 /\ Chain o w e2 ds3 e3 /\
    Forall2 (q_desc o) (mq m) qs /\ D 1 (man m) ds1 /\ D 2 (mau m) ds2 /\ D 3 (mad m) ds3 /\
    match mopt m with
    | Some o' => (exists abs', RRreads o o w e3 abs' owner' tOPT (opayload o') (oflags o') [FRest] [PB wb] e4) /\
                 ci_equal owner' [[]] /\ opts_wire (oopts o') = Ok wb /\ opts_ok (oopts o')
    | None => e4 = e3
    end /\
    match t' with
    | Some (kn', rd') => exists x, RRreads o None w e4 kn' x tTSIG cANY 0 tsig_fs rd' (length w)
    | None => e4 = length w
    end /\
    match t', mtsig m with
    | Some (kn', rd'), Some (kn, rd) => ci_equal kn' kn /\ rdata_ci rd' rd
    | None, None => True
    | _, _ => False
    end /\
    (forall m2, mid m2 = mid m -> mflags m2 = mflags m -> mopt m2 = mopt m -> mq m2 = map qrec qs ->
       R 1 (man m) ds1 (man m2) -> R 2 (mau m) ds2 (mau m2) -> R 3 (mad m) ds3 (mad m2) -> mtsig m2 = t' ->
       to_wire m2 o ms rp false 0 = Ok w).
Proof.
  intros WQ WA WU WD WO WT H.
  destruct (layout_final_p 0 m ms rp w WQ WA WU WD WO WT H)
    as (qs & ds1 & ds2 & ds3 & owner' & wb & body & e0 & e1 & e2 & e3 & e4 & t' &
        A1&A2&A3&A4&A5&A6&A7&A8&A9&A10&A11&A12&A13&A14&A15&A16&A17&A18&_&A19).
  exists qs, ds1, ds2, ds3, owner', wb, body, e0, e1, e2, e3, e4, t'.
  repeat (split; [assumption|]).
  split; [|split; [exact A17|split; [exact A18|exact (A19 eq_refl)]]].
  destruct (mopt m) as [o1|]; [|exact A16]. destruct A16 as (sz & X). exact X.
Qed.

End Body.

Lemma render_body m ms rp r hdr :
  zlen hdr = 12 -> WfMsg o m -> to_wire_st m o ms rp false 0 = Ok r ->
  exists qs ds1 ds2 ds3 owner' wb body (e0 e1 e2 e3 : nat) r5,
    tail6 m r5 = Ok r /\
    out r5 = repeat 0 12 ++ body /\
    cq r5 = zlen qs /\ can r5 = zlen ds1 /\ cau r5 = zlen ds2 /\ cad r5 = zlen ds3 + opt_count (mopt m) /\
    rflags r5 = mflags m /\ padded r5 = false /\ TblBelow r5 /\ rsec r5 <= 3 /\
    TableSound (hdr ++ body) (tbl r5) /\
    QChain o (hdr ++ body) 12 qs e0 /\ Chain o (hdr ++ body) e0 ds1 e1 /\ Chain o (hdr ++ body) e1 ds2 e2 /\
    Chain o (hdr ++ body) e2 ds3 e3 /\
    Forall2 (q_desc o) (mq m) qs /\ SecDesc o (man m) ds1 /\ SecDesc o (mau m) ds2 /\ SecDesc o (mad m) ds3 /\
    match mopt m with
    | Some o' => (exists abs', RRreads o o (hdr ++ body) e3 abs' owner' tOPT (opayload o') (oflags o') [FRest] [PB wb] (length (hdr ++ body))) /\
                 ci_equal owner' [[]] /\ opts_wire (oopts o') = Ok wb
    | None => e3 = length (hdr ++ body)
    end.
Proof.
  intros Hh [W0 WQ WA WU WD KA KU KD WO] H.
  exact (render_body_gen (fun _ => wf_rrset o) (fun _ => SecDesc o) (fun _ => Rebuilt)
                         (fun sec l r r' file => add_rrsets_chain_x o OO sec l r r' file) m ms rp r hdr Hh WQ WA WU WD WO H).
Qed.

(* ---------- the TSIG record ---------- *)
Lemma dec_fields_tsig w og e c acc : dec_fields w tsig_fs og e c acc = dec_fields w tsig_fs None e c acc.
Proof. reflexivity. Qed.

Lemma get_rr_tsig iu w off abs' owner' rd' end_ ext count i fu m :
  RRreads o None w off abs' owner' tTSIG cANY 0 tsig_fs rd' end_ -> (i = count - 1)%nat ->
  get_rr (w ++ ext) o po0 iu 3 count i off fu m = Ok (end_, fu, set_tsig m abs' rd').
Proof.
  intros (c1 & rdl & A & B & C & D & E) Hi.
  destruct (E ext) as (EH & ED). unfold get_rr. rewrite EH. cbn [bind].
  change (tTSIG =? tOPT) with false. change (tTSIG =? tTSIG) with true. cbn [orb].
  unfold parse_special_rr_header. change (tTSIG =? tOPT) with false. cbv iota.
  change (3 =? 3) with true. change (cANY =? cANY) with true. rewrite Hi, Nat.eqb_refl. cbn [negb orb bind].
  rewrite Nat2Z.id.
  destruct (Nat.ltb_spec (length (w ++ ext) - (c1 + 10)) rdl); [rewrite app_length in *; lia|].
  change (tTSIG =? tOPT) with false. cbv iota.
  unfold dec_rdata. change (schema_of cANY tTSIG) with (Some tsig_fs). rewrite A. rewrite dec_fields_tsig. rewrite ED.
  cbn [bind fst snd rev app]. rewrite Nat.eqb_refl. cbn [bind].
  change (tTSIG =? tTSIG) with true. change (0 =? 0) with true.
  change (p_keyring_false po0) with true. change (p_xfr po0) with false. cbn [negb andb orb]. cbv iota.
  rewrite orb_false_r. reflexivity.
Qed.

Definition tsig_equiv (a b : option (name * rdata)) : Prop :=
  match a, b with
  | Some (kn', rd'), Some (kn, rd) => ci_equal kn' kn /\ rdata_ci rd' rd
  | None, None => True
  | _, _ => False
  end.

Definition msg_equiv_t (m' m : msg) : Prop := msg_equiv m' m /\ tsig_equiv (mtsig m') (mtsig m).

Definition read_result_t (id fl : Z) (qs : list qd) (ds1 ds2 ds3 : list rrd) (o : option optrec)
           (t : option (name * rdata)) : msg :=
  let m5 := read_result id fl qs ds1 ds2 ds3 o in
  match t with Some (kn, rd) => set_tsig m5 kn rd | None => m5 end.

Lemma read_structure_t id fl qs ds1 ds2 ds3 (oo : option optrec) (t : option (name * rdata)) owner' wb body
      (e0 e1 e2 e3 e4 : nat) :
  let w := hdr_bytes id fl (zlen qs) (zlen ds1) (zlen ds2) (zlen ds3 + opt_count oo + opt_count t) ++ body in
  0 <= id <= 65535 -> 0 <= fl <= 65535 -> zlen qs <= 65535 -> zlen ds1 <= 65535 -> zlen ds2 <= 65535 ->
  zlen ds3 + opt_count oo + opt_count t <= 65535 ->
  (opcode_from_flags fl =? 5) = false ->
  QChain o w 12 qs e0 -> Chain o w e0 ds1 e1 -> Chain o w e1 ds2 e2 -> Chain o w e2 ds3 e3 ->
  Forall ordinary ds1 -> Forall ordinary ds2 -> Forall ordinary ds3 ->
  match oo with
  | Some o' => (exists abs', RRreads o o w e3 abs' owner' tOPT (opayload o') (oflags o') [FRest] [PB wb] e4) /\
               ci_equal owner' [[]] /\ opts_wire (oopts o') = Ok wb /\ opts_ok (oopts o')
  | None => e4 = e3
  end ->
  match t with
  | Some (kn', rd') => exists x, RRreads o None w e4 kn' x tTSIG cANY 0 tsig_fs rd' (length w)
  | None => e4 = length w
  end ->
  from_wire w o po0 = Ok (read_result_t id fl qs ds1 ds2 ds3 oo t).
Proof.
  intros w Hid Hfl Hq H1 H2 H3 Hop QC C1 C2 C3 O1 O2 O3 HO HT.
  pose proof (zlen_nn qs). pose proof (zlen_nn ds1). pose proof (zlen_nn ds2). pose proof (zlen_nn ds3).
  assert (Hoc : 0 <= opt_count oo <= 1) by (destruct oo; cbn; lia).
  assert (Htc : 0 <= opt_count t <= 1) by (destruct t; cbn; lia).
  destruct (hdr_read id fl (zlen qs) (zlen ds1) (zlen ds2) (zlen ds3 + opt_count oo + opt_count t) body) as (R0 & R2 & R4 & R6 & R8 & R10);
    try lia.
  fold w in R0, R2, R4, R6, R8, R10.
  assert (Hl : (12 <= length w)%nat).
  { unfold w, hdr_bytes. rewrite !app_length. cbn [length MessageM.u16]. lia. }
  unfold from_wire. destruct (Nat.ltb_spec (length w) 12); [lia|].
  rewrite R0, R2, R4, R6, R8, R10. cbn [bind]. rewrite Hop.
  change (p_one_rr po0) with false. change (p_question_only po0) with false. cbv iota.
  rewrite zlen_to_nat.
  pose proof (get_question_chain o w [] qs 12 e0 (mkMsg id fl [] [] [] [] None None) QC) as GQ.
  rewrite app_nil_r in GQ. rewrite GQ. cbn [bind fst snd].
  rewrite !zlen_to_nat.
  set (m1 := fold_left add_q qs (mkMsg id fl [] [] [] [] None None)).
  pose proof (get_section_chain o w [] 1 (length ds1) ds1 e0 e1 0%nat false m1 C1 O1) as G1.
  rewrite app_nil_r in G1. rewrite G1. cbn [bind fst snd].
  set (m2 := fold_left (apply_d 1 false) ds1 m1).
  pose proof (get_section_chain o w [] 2 (length ds2) ds2 e1 e2 0%nat false m2 C2 O2) as G2.
  rewrite app_nil_r in G2. rewrite G2. cbn [bind fst snd].
  set (m3 := fold_left (apply_d 2 false) ds2 m2).
  set (cnt := Z.to_nat (zlen ds3 + opt_count oo + opt_count t)).
  set (m4 := fold_left (apply_d 3 false) ds3 m3).
  assert (HM : mopt m4 = None).
  { unfold m4. destruct (fold_apply_d_keeps 3 ds3 m3) as (-> & _).
    unfold m3. destruct (fold_apply_d_keeps 2 ds2 m2) as (-> & _).
    unfold m2. destruct (fold_apply_d_keeps 1 ds1 m1) as (-> & _).
    unfold m1. destruct (fold_add_q_keeps qs (mkMsg id fl [] [] [] [] None None)) as (-> & _). reflexivity. }
  set (no := Z.to_nat (opt_count oo)). set (nt := Z.to_nat (opt_count t)).
  assert (Hcnt : cnt = (length ds3 + (no + nt))%nat) by (unfold cnt, no, nt, zlen; lia).
  rewrite Hcnt. rewrite get_section_split.
  pose proof (get_section_chain o w [] 3 (length ds3 + (no + nt)) ds3 e2 e3 0%nat false m3 C3 O3) as G3.
  rewrite app_nil_r in G3. rewrite G3. cbn [bind fst snd]. fold m4.
  rewrite get_section_split.
  (* the OPT record *)
  assert (GO : get_section w o po0 false 3 (length ds3 + (no + nt)) (0 + length ds3) no e3 false m4
               = Ok (e4, false, match oo with Some o' => set_opt m4 o' | None => m4 end)).
  { destruct oo as [o'|].
    - destruct HO as ((abso & RO) & CI & HW & OK).
      assert (Hno : no = 1%nat) by reflexivity. rewrite Hno. cbn [get_section].
      pose proof (get_rr_opt o false w e3 abso owner' (opayload o') (oflags o') wb (oopts o') e4 [] (length ds3 + (1 + nt))
                             (0 + length ds3) false m4 RO CI HW OK HM) as G.
      rewrite app_nil_r in G. rewrite G. cbn [bind]. destruct o'; reflexivity.
    - subst e4. assert (Hno : no = 0%nat) by reflexivity. rewrite Hno. reflexivity. }
  rewrite GO. cbn [bind fst snd].
  set (m5 := match oo with Some o' => set_opt m4 o' | None => m4 end).
  destruct t as [[kn' rd']|].
  - assert (Hnt : nt = 1%nat) by reflexivity. rewrite Hnt. cbn [get_section].
    destruct HT as (x & HT).
    pose proof (get_rr_tsig false w e4 kn' x rd' (length w) [] (length ds3 + (no + 1)) (0 + length ds3 + no) false m5 HT) as G.
    rewrite app_nil_r in G. rewrite G by lia. cbn [bind fst snd].
    change (p_ignore_trailing po0) with false. change (p_raise_on_trunc po0) with false.
    cbn [negb andb]. rewrite Nat.eqb_refl. cbn [negb andb]. rewrite andb_false_r.
    unfold read_result_t, read_result. fold m1 m2 m3 m4 m5. reflexivity.
  - assert (Hnt : nt = 0%nat) by reflexivity. rewrite Hnt. cbn [get_section bind fst snd]. subst e4.
    change (p_ignore_trailing po0) with false. change (p_raise_on_trunc po0) with false.
    cbn [negb andb]. rewrite Nat.eqb_refl. cbn [negb andb]. rewrite andb_false_r.
    unfold read_result_t, read_result. fold m1 m2 m3 m4 m5. reflexivity.
Qed.

Lemma read_result_equiv m qs ds1 ds2 ds3 oo :
  WfMsg o m -> Forall2 (q_desc o) (mq m) qs -> SecDesc o (man m) ds1 -> SecDesc o (mau m) ds2 -> SecDesc o (mad m) ds3 ->
  (mid (read_result (mid m) (mflags m) qs ds1 ds2 ds3 oo) = mid m /\
   mflags (read_result (mid m) (mflags m) qs ds1 ds2 ds3 oo) = mflags m /\
   Forall2 q_equiv (mq (read_result (mid m) (mflags m) qs ds1 ds2 ds3 oo)) (mq m) /\
   Forall2 rrset_equiv (man (read_result (mid m) (mflags m) qs ds1 ds2 ds3 oo)) (man m) /\
   Forall2 rrset_equiv (mau (read_result (mid m) (mflags m) qs ds1 ds2 ds3 oo)) (mau m) /\
   Forall2 rrset_equiv (mad (read_result (mid m) (mflags m) qs ds1 ds2 ds3 oo)) (mad m) /\
   mopt (read_result (mid m) (mflags m) qs ds1 ds2 ds3 oo) = oo) /\
  mtsig (read_result (mid m) (mflags m) qs ds1 ds2 ds3 oo) = None /\
  mq (read_result (mid m) (mflags m) qs ds1 ds2 ds3 oo) = map qrec qs /\
  Rebuilt (man m) ds1 (man (read_result (mid m) (mflags m) qs ds1 ds2 ds3 oo)) /\
  Rebuilt (mau m) ds2 (mau (read_result (mid m) (mflags m) qs ds1 ds2 ds3 oo)) /\
  Rebuilt (mad m) ds3 (mad (read_result (mid m) (mflags m) qs ds1 ds2 ds3 oo)).
Proof.
  intros [W0 WQ WA WU WD KA KU KD WO] QD SD1 SD2 SD3. unfold read_result.
  set (m0 := mkMsg (mid m) (mflags m) [] [] [] [] None None).
  destruct (fold_add_q_keeps qs m0) as (Q1 & Q2 & Q3 & Q4 & Q5 & Q6 & Q7).
  set (m1 := fold_left add_q qs m0) in *.
  assert (T1 : mtsig m1 = None).
  { unfold m1. assert (X : forall x, mtsig x = None -> mtsig (fold_left add_q qs x) = None).
    { clear. induction qs as [|q qs IH]; intros x Hx; cbn [fold_left]; [exact Hx|]. apply IH. exact Hx. }
    apply X. reflexivity. }
  assert (G1 : get_sec m1 1 = []) by (unfold get_sec; cbn [Z.eqb Pos.eqb]; rewrite Q2; reflexivity).
  destruct (section_rebuilt o 1 (man m) ds1 m1 ltac:(lia) SD1 WA KA G1) as (l1 & EQ1 & E1 & RB1).
  rewrite E1. set (m2 := set_sec m1 1 l1).
  assert (G2 : get_sec m2 2 = []) by (unfold m2, get_sec, set_sec; cbn [Z.eqb Pos.eqb mau]; rewrite Q3; reflexivity).
  destruct (section_rebuilt o 2 (mau m) ds2 m2 ltac:(lia) SD2 WU KU G2) as (l2 & EQ2 & E2 & RB2).
  rewrite E2. set (m3 := set_sec m2 2 l2).
  assert (G3 : get_sec m3 3 = []) by (unfold m3, m2, get_sec, set_sec; cbn [Z.eqb Pos.eqb mad]; rewrite Q4; reflexivity).
  destruct (section_rebuilt o 3 (mad m) ds3 m3 ltac:(lia) SD3 WD KD G3) as (l3 & EQ3 & E3 & RB3).
  rewrite E3. set (m4 := set_sec m3 3 l3).
  assert (F : mid m4 = mid m /\ mflags m4 = mflags m /\ mq m4 = mq m1 /\ man m4 = l1 /\ mau m4 = l2 /\ mad m4 = l3 /\ mopt m4 = None /\ mtsig m4 = None).
  { unfold m4, m3, m2. cbn [mid mflags mq man mau mad mopt mtsig set_sec Z.eqb Pos.eqb]. rewrite Q5, Q6, Q1, T1. auto 10. }
  destruct F as (F1 & F2 & F3 & F4 & F5 & F6 & F7 & F8).
  assert (QE : Forall2 q_equiv (mq m1) (mq m)).
  { rewrite Q7. cbn [mq m0 app]. clear - QD. induction QD as [|rs q l qs (A & B & C & D) _ IH]; cbn [map]; constructor; [|exact IH].
    unfold q_equiv. cbn [rname rclass rtype rcovers rdeleting rttl rrds]. auto 10. }
  destruct oo as [o'|].
  - cbn [mid mflags mq man mau mad mopt mtsig set_opt]. rewrite F1, F2, F3, F4, F5, F6.
    split; [repeat split; assumption|]. split; [exact F8|]. split; [rewrite Q7; reflexivity|]. auto.
  - rewrite F1, F2, F3, F4, F5, F6, F7. split; [repeat split; assumption|].
    split; [exact F8|]. split; [rewrite Q7; reflexivity|]. auto.
Qed.


Theorem render_parse_rerender_lemma m ms rp w :
  WfMsg o m -> wf_tsig m -> to_wire m o ms rp false 0 = Ok w ->
  exists m', from_wire w o po0 = Ok m' /\ msg_equiv_t m' m /\ to_wire m' o ms rp false 0 = Ok w.
Proof.
  intros WF WT H. pose proof WF as [W0 WQ WA WU WD KA KU KD WO].
  destruct (layout_final (fun _ => wf_rrset o) (fun _ => SecDesc o) (fun _ => Rebuilt)
                         (fun sec l r r' file => add_rrsets_chain_x o OO sec l r r' file) m ms rp w WQ WA WU WD WO WT H)
    as (qs & ds1 & ds2 & ds3 & owner' & wb & body & e0 & e1 & e2 & e3 & e4 & t' & Ew & Hid & Hfl & L0 & L1 & L2 & L3 &
        QC & C1 & C2 & C3 & QD & SD1 & SD2 & SD3 & HO & HT & TE & RR).
  destruct (read_result_equiv m qs ds1 ds2 ds3 (mopt m) WF QD SD1 SD2 SD3) as (EQ & TN & MQ & RB1 & RB2 & RB3).
  exists (read_result_t (mid m) (mflags m) qs ds1 ds2 ds3 (mopt m) t'). split; [|split].
  - rewrite Ew in *. eapply read_structure_t; try eassumption.
    + apply (SecDesc_ordinary o) with (l := man m); assumption.
    + apply (SecDesc_ordinary o) with (l := mau m); assumption.
    + apply (SecDesc_ordinary o) with (l := mad m); assumption.
  - unfold msg_equiv_t, read_result_t. destruct t' as [[kn' rd']|].
    + split.
      * destruct EQ as (Q1 & Q2 & Q3 & Q4 & Q5 & Q6 & Q7). unfold msg_equiv.
        cbn [mid mflags mq man mau mad mopt set_tsig]. auto 10.
      * cbn [mtsig set_tsig tsig_equiv]. destruct (mtsig m) as [[kn rd]|]; [exact TE|contradiction].
    + split; [exact EQ|]. rewrite TN. destruct (mtsig m) as [[kn rd]|]; [contradiction|exact Logic.I].
  - destruct EQ as (Q1 & Q2 & _ & _ & _ & _ & Q7).
    apply RR; unfold read_result_t; destruct t' as [[kn' rd']|]; cbn [mid mflags mq man mau mad mopt mtsig set_tsig];
      try assumption; try reflexivity.
Qed.

(* with padding: the parsed message carries the padding option that Renderer.add_opt appended *)
Definition opt_rel (pad : Z) (a b : option optrec) : Prop :=
  match b with
  | None => a = None
  | Some o1 => exists sz, a = Some (pad_opt o1 pad sz)
  end.

Definition msg_equiv_p (pad : Z) (m' m : msg) : Prop :=
  mid m' = mid m /\ mflags m' = mflags m /\
  Forall2 q_equiv (mq m') (mq m) /\
  Forall2 rrset_equiv (man m') (man m) /\ Forall2 rrset_equiv (mau m') (mau m) /\
  Forall2 rrset_equiv (mad m') (mad m) /\
  opt_rel pad (mopt m') (mopt m) /\ tsig_equiv (mtsig m') (mtsig m).

Theorem render_parse_pad_lemma pad m ms rp w :
  WfMsg o m -> wf_tsig m -> to_wire m o ms rp false pad = Ok w ->
  exists m', from_wire w o po0 = Ok m' /\ msg_equiv_p pad m' m.
Proof.
  intros WF WT H. pose proof WF as [W0 WQ WA WU WD KA KU KD WO].
  destruct (layout_final_p (fun _ => wf_rrset o) (fun _ => SecDesc o) (fun _ => Rebuilt)
                         (fun sec l r r' file => add_rrsets_chain_x o OO sec l r r' file) pad m ms rp w WQ WA WU WD WO WT H)
    as (qs & ds1 & ds2 & ds3 & owner' & wb & body & e0 & e1 & e2 & e3 & e4 & t' & Ew & Hid & Hfl & L0 & L1 & L2 & L3 &
        QC & C1 & C2 & C3 & QD & SD1 & SD2 & SD3 & HO & HT & TE & _ & _).
  assert (X : exists oo, opt_rel pad oo (mopt m) /\ opt_count oo = opt_count (mopt m) /\
              match oo with
              | Some o' => (exists abs', RRreads o o w e3 abs' owner' tOPT (opayload o') (oflags o') [FRest] [PB wb] e4) /\
                           ci_equal owner' [[]] /\ opts_wire (oopts o') = Ok wb /\ opts_ok (oopts o')
              | None => e4 = e3
              end).
  { destruct (mopt m) as [o1|].
    - destruct HO as (sz & HO). exists (Some (pad_opt o1 pad sz)). split; [exists sz; reflexivity|]. split; [reflexivity|exact HO].
    - exists None. split; [reflexivity|]. split; [reflexivity|exact HO]. }
  destruct X as (oo & OR & OC & HO').
  destruct (read_result_equiv m qs ds1 ds2 ds3 oo WF QD SD1 SD2 SD3) as ((Q1 & Q2 & Q3 & Q4 & Q5 & Q6 & Q7) & TN & _).
  exists (read_result_t (mid m) (mflags m) qs ds1 ds2 ds3 oo t'). split.
  - rewrite Ew in *. rewrite <- OC in *. eapply read_structure_t; try eassumption.
    + apply (SecDesc_ordinary o) with (l := man m); assumption.
    + apply (SecDesc_ordinary o) with (l := mau m); assumption.
    + apply (SecDesc_ordinary o) with (l := mad m); assumption.
  - unfold msg_equiv_p, read_result_t. destruct t' as [[kn' rd']|].
    + cbn [mid mflags mq man mau mad mopt mtsig set_tsig tsig_equiv]. rewrite Q7.
      repeat (split; [assumption|]). destruct (mtsig m) as [[kn rd]|]; [exact TE|contradiction].
    + rewrite Q7, TN. repeat (split; [assumption|]). destruct (mtsig m) as [[kn rd]|]; [contradiction|exact Logic.I].
Qed.

Theorem render_parse_full_lemma m ms rp w :
  WfMsg o m -> wf_tsig m -> to_wire m o ms rp false 0 = Ok w ->
  exists m', from_wire w o po0 = Ok m' /\ msg_equiv_t m' m.
Proof.
  intros WF WT H. destruct (render_parse_rerender_lemma m ms rp w WF WT H) as (m' & A & B & _).
  exists m'. split; assumption.
Qed.

End WithOrigin.

(* ---------- corollaries ---------- *)
Section Corollaries.
Variable o : option name.
Hypothesis OO : org_ok o.

(* the header counts are the numbers of records present, and they account for every octet *)
Theorem counts_exact_lemma m ms rp w :
  WfMsg o m -> wf_tsig m -> to_wire m o ms rp false 0 = Ok w ->
  exists body,
    w = hdr_bytes (mid m) (mflags m) (zlen (mq m)) (rr_count (man m)) (rr_count (mau m))
                  (rr_count (mad m) + opt_count (mopt m) + opt_count (mtsig m)) ++ body /\
    exists m', from_wire w o po0 = Ok m'.
Proof.
  intros WF WT H.
  destruct (render_parse_full_lemma o OO m ms rp w WF WT H) as (m' & F & _).
  unfold to_wire in H. apply bind_ok in H. destruct H as (r & HR & H). injection H as <-.
  destruct (to_wire_st_SInv _ _ _ _ _ _ _ HR) as ((I12 & _) & _).
  set (hdr := firstn 12 (out r)).
  assert (Hh : zlen hdr = 12) by (unfold hdr, zlen in *; rewrite firstn_length; lia).
  destruct (render_body o OO m ms rp r hdr Hh WF HR)
    as (qs & ds1 & ds2 & ds3 & owner' & wb & body & e0 & e1 & e2 & e3 & r5 & T6 & O5 & K0 & K1 & K2 & K3 & KF & P5 & TB5 & RS5 &
        TS5 & QC & C1 & C2 & C3 & QD & SD1 & SD2 & SD3 & HO).
  destruct WF as [W0 WQ WA WU WD KA KU KD WO].
  assert (Z0 : zlen qs = zlen (mq m)) by (unfold zlen; f_equal; symmetry; eapply Forall2_len; exact QD).
  pose proof (SecDesc_count o _ _ SD1 WA) as Z1. pose proof (SecDesc_count o _ _ SD2 WU) as Z2.
  pose proof (SecDesc_count o _ _ SD3 WD) as Z3.
  unfold tail6 in T6. apply bind_ok in T6. destruct T6 as (r6 & R6 & T6).
  destruct (write_header_full _ _ _ R6) as (Er6 & _).
  assert (S12 : skipn 12 (out r5) = body) by (rewrite O5; apply skipn_app_exact'; reflexivity).
  rewrite S12, KF, K0, K1, K2, K3, Z0, Z1, Z2, Z3 in Er6.
  destruct (mtsig m) as [[kn rd]|] eqn:ET.
  - apply bind_ok in T6. destruct T6 as ([b7 s7] & A7 & T6). apply bind_ok in T6. destruct T6 as (r7 & R7 & T6).
    unfold raise_if_big in R7. cbn [fst snd] in R7. destruct b7; [discriminate|]. injection R7 as <-.
    rewrite write_tsig_eq in A7. apply bind_ok in A7. destruct A7 as ([b8 s8] & A8 & A7). cbn [fst snd] in A7.
    destruct b8; [discriminate|]. apply bind_ok in A7. destruct A7 as (c & _ & A7). injection A7 as <-.
    unfold tracked in A8. apply bind_ok in A8. destruct A8 as (r6' & S6 & A8). apply set_section_spec in S6. destruct S6 as (-> & _).
    apply bind_ok in A8. destruct A8 as ([et t8] & HE8 & A8). cbn [fst snd out tbl set_rsec] in A8.
    unfold track_end in A8. destruct (_ >? _); [discriminate|]. injection A8 as <-.
    destruct (write_header_full _ _ _ T6) as (Er & _).
    cbn [out tbl cq can cau cad rflags set_out inc_count set_rsec Z.eqb Pos.eqb] in Er.
    rewrite Er6 in Er. cbn [out tbl cq can cau cad rflags set_out] in Er.
    exists (skipn 12 (patch16 ((hdr_bytes (mid m) (mflags m) (zlen (mq m)) (rr_count (man m)) (rr_count (mau m))
                                           (rr_count (mad m) + opt_count (mopt m)) ++ body) ++ et) 10
                              (rr_count (mad m) + opt_count (mopt m) + 1))).
    split; [|exists m'; exact F]. rewrite Er. cbn [out set_out opt_count]. rewrite KF, K0, K1, K2, K3, Z0, Z1, Z2, Z3. reflexivity.
  - injection T6 as <-. exists body. split; [|exists m'; exact F]. rewrite Er6. cbn [out set_out opt_count].
    rewrite Z.add_0_r. reflexivity.
Qed.

(* the compression table at the end of rendering is sound w.r.t. the final octets *)
Theorem counts_exact_pad_lemma pad m ms rp w :
  WfMsg o m -> wf_tsig m -> to_wire m o ms rp false pad = Ok w ->
  exists body,
    w = hdr_bytes (mid m) (mflags m) (zlen (mq m)) (rr_count (man m)) (rr_count (mau m))
                  (rr_count (mad m) + opt_count (mopt m) + opt_count (mtsig m)) ++ body /\
    exists m', from_wire w o po0 = Ok m'.
Proof.
  intros WF WT H. pose proof WF as [W0 WQ WA WU WD KA KU KD WO].
  destruct (render_parse_pad_lemma o OO pad m ms rp w WF WT H) as (m' & F & _).
  destruct (layout_final_p o OO (fun _ => wf_rrset o) (fun _ => SecDesc o) (fun _ => Rebuilt)
                         (fun sec l r r' file => add_rrsets_chain_x o OO sec l r r' file) pad m ms rp w WQ WA WU WD WO WT H)
    as (qs & ds1 & ds2 & ds3 & owner' & wb & body & e0 & e1 & e2 & e3 & e4 & t' & Ew & _ & _ & _ & _ & _ & _ &
        _ & _ & _ & _ & QD & SD1 & SD2 & SD3 & _ & _ & TE & _).
  assert (Z0 : zlen qs = zlen (mq m)) by (unfold zlen; f_equal; symmetry; eapply Forall2_len; exact QD).
  pose proof (SecDesc_count o _ _ SD1 WA) as Z1. pose proof (SecDesc_count o _ _ SD2 WU) as Z2.
  pose proof (SecDesc_count o _ _ SD3 WD) as Z3.
  assert (ZT : opt_count t' = opt_count (mtsig m)).
  { destruct t' as [[kn' rd']|]; destruct (mtsig m) as [[kn rd]|]; try contradiction; reflexivity. }
  exists body. split; [|exists m'; exact F]. rewrite Ew, Z0, Z1, Z2, Z3, ZT. reflexivity.
Qed.

Theorem render_table_sound_pad_lemma pad m ms rp r :
  WfMsg o m -> wf_tsig m -> to_wire_st m o ms rp false pad = Ok r -> TableSound (out r) (tbl r).
Proof.
  intros WF WT HR. pose proof WF as [W0 WQ WA WU WD KA KU KD WO].
  assert (H : to_wire m o ms rp false pad = Ok (out r)) by (unfold to_wire; rewrite HR; reflexivity).
  destruct (layout_final_p o OO (fun _ => wf_rrset o) (fun _ => SecDesc o) (fun _ => Rebuilt)
                         (fun sec l r r' file => add_rrsets_chain_x o OO sec l r r' file) pad m ms rp (out r) WQ WA WU WD WO WT H)
    as (qs & ds1 & ds2 & ds3 & owner' & wb & body & e0 & e1 & e2 & e3 & e4 & t' & _ & _ & _ & _ & _ & _ & _ &
        _ & _ & _ & _ & _ & _ & _ & _ & _ & _ & _ & (r2 & HR2 & _ & TS) & _).
  assert (r2 = r) by congruence. subst r2. exact TS.
Qed.

Theorem render_table_sound_lemma m ms rp r :
  WfMsg o m -> mtsig m = None -> to_wire_st m o ms rp false 0 = Ok r -> TableSound (out r) (tbl r).
Proof.
  intros WF NT HR.
  destruct (to_wire_st_SInv _ _ _ _ _ _ _ HR) as ((I12 & _) & _).
  set (hdr := firstn 12 (out r)).
  assert (Hh : zlen hdr = 12) by (unfold hdr, zlen in *; rewrite firstn_length; lia).
  destruct (render_body o OO m ms rp r hdr Hh WF HR)
    as (qs & ds1 & ds2 & ds3 & owner' & wb & body & e0 & e1 & e2 & e3 & r5 & T6 & O5 & _ & _ & _ & _ & _ & _ & _ & _ &
        TS5 & _).
  unfold tail6 in T6. rewrite NT in T6. apply bind_ok in T6. destruct T6 as (r6 & R6 & T6). injection T6 as <-.
  destruct (write_header_out _ _ _ R6) as (h & Lh & ->). cbn [out tbl set_out].
  assert (S12 : skipn 12 (out r5) = body) by (rewrite O5; apply skipn_app_exact'; reflexivity).
  rewrite S12.
  assert (hdr = h).
  { unfold hdr. cbn [out set_out]. rewrite S12. replace 12%nat with (length h) by (unfold zlen in Lh; lia).
    apply firstn_app_exact. }
  rewrite <- H. exact TS5.
Qed.

Theorem name_write_sound_lemma n c file t file' t' :
  TableSound file t -> name_wf o n -> name_to_wire n o c file t = Ok (file', t') ->
  exists em L L' n',
    file' = file ++ em /\ TableSound file' t' /\ full_labels n o = Ok L /\ ci_equal L' L /\
    NameM.from_wire file' (length file) = Ok (L', length em) /\
    relz o L' = Ok n' /\ ci_equal n' n /\
    (forall ext endp, (length file' <= endp)%nat -> get_name (file' ++ ext) o endp (length file) = Ok (n', length file')).
Proof.
  intros TS NW H. rewrite name_to_wire_em in H. unfold run_em in H.
  apply bind_ok in H. destruct H as ([em t1] & HE & H). injection H as <- <-. cbn [fst snd].
  destruct (name_wf_full o n OO NW) as (L & HF & NOL).
  destruct (nm_em_sound _ _ _ _ _ _ _ _ TS HF NOL HE) as (TS1 & L' & CI & NO1 & D).
  destruct (name_back o n L L' OO NW HF CI NO1) as (n' & HRZ & CI1 & _).
  exists em, L, L', n'. split; [reflexivity|]. split; [exact TS1|]. split; [exact HF|]. split; [exact CI|]. split.
  - rewrite (Dec_from_wire _ _ _ _ D (proj1 NO1)). f_equal. f_equal. rewrite app_length. lia.
  - split; [exact HRZ|]. split; [exact CI1|].
    intros ext endp He. rewrite (get_name_relz o _ _ _ OO). rewrite (nm_read file em ext endp L' NO1 D He).
    cbn [bind fst snd]. rewrite HRZ. reflexivity.
Qed.
End Corollaries.
