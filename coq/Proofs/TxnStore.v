(* C10: the zone version model (copy-on-write node map, relativized keys, Node list surgery) simulates the
   flat reference store, operation by operation. *)
From DV Require Import Base.Prelude Model.NameM Model.TxnM.
From DV Require Import Proofs.NameValid Proofs.NameOrder Proofs.NameRel Proofs.TxnName.
Open Scope Z_scope.

(* ---------------------------------------------------------------- results *)
Definition res_rel {A B} (R : A -> B -> Prop) (x : res A) (y : res B) : Prop :=
  match x, y with
  | Ok a, Ok b => R a b
  | Lib e, Lib e' => e = e'
  | Internal e, Internal e' => e = e'
  | _, _ => False
  end.

Lemma res_rel_bind {A B A' B'} (R : A -> B -> Prop) (R' : A' -> B' -> Prop) x y f g :
  res_rel R x y -> (forall a b, R a b -> res_rel R' (f a) (g b)) -> res_rel R' (bind x f) (bind y g).
Proof. destruct x, y; cbn; intros H K; try contradiction; auto. Qed.

Lemma res_rel_eq {A} (x y : res A) : res_rel eq x y <-> x = y.
Proof. destruct x, y; cbn; split; intros H; try congruence; try contradiction; inversion H; auto. Qed.

(* ---------------------------------------------------------------- the node map *)
Lemma map_get_congr m k k' : name_eqb k k' = true -> map_get m k = map_get m k'.
Proof.
  intros H. induction m as [|[k0 v] m IH]; [reflexivity|]. cbn [map_get].
  rewrite (name_eqb_trans_r k0 k k' H). rewrite IH. reflexivity.
Qed.

Lemma map_get_set m k0 v k :
  map_get (map_set m k0 v) k = if name_eqb k0 k then Some v else map_get m k.
Proof.
  induction m as [|[k' v'] m IH]; cbn [map_set map_get].
  - reflexivity.
  - destruct (name_eqb k' k0) eqn:E0; cbn [map_get].
    + rewrite (name_eqb_trans_l k' k0 k E0). destruct (name_eqb k0 k); reflexivity.
    + rewrite IH. destruct (name_eqb k' k) eqn:E1; [|reflexivity].
      destruct (name_eqb k0 k) eqn:E2; [|reflexivity].
      exfalso. rewrite (name_eqb_sym k0 k) in E2. rewrite (name_eqb_trans_r k' k k0 E2) in E1. congruence.
Qed.

Lemma map_get_remove m k0 k :
  map_get (map_remove m k0) k = if name_eqb k0 k then None else map_get m k.
Proof.
  induction m as [|[k' v'] m IH]; cbn [map_remove map_get].
  - destruct (name_eqb k0 k); reflexivity.
  - destruct (name_eqb k' k0) eqn:E0; cbn [map_get].
    + rewrite IH. rewrite (name_eqb_trans_l k' k0 k E0). destruct (name_eqb k0 k); reflexivity.
    + rewrite IH. destruct (name_eqb k' k) eqn:E1; [|reflexivity].
      destruct (name_eqb k0 k) eqn:E2; [|reflexivity].
      exfalso. rewrite (name_eqb_sym k0 k) in E2. rewrite (name_eqb_trans_r k' k k0 E2) in E1. congruence.
Qed.

Lemma map_has_set m k v : map_has (map_set m k v) k = true.
Proof. unfold map_has. rewrite map_get_set, name_eqb_refl. reflexivity. Qed.

(* ---------------------------------------------------------------- nodes *)
Definition tkey (r : rds) : Z * Z := (r_ty r, r_cov r).
Definition node_wf (nd : node) : Prop := NoDup (map tkey nd) /\ Forall (fun r => r_cls r = cIN) nd.

Definition evicts_rds (k : nkind) (x : rds) : bool :=
  match k with
  | KCname => nkind_eqb (classify_rds x) KRegular
  | KRegular => nkind_eqb (classify_rds x) KCname
  | KNeutral => false
  end.

Lemma rds_match_tkey r ty cov : r_cls r = cIN -> rds_match r cIN ty cov = true <-> tkey r = (ty, cov).
Proof.
  intros C. unfold rds_match, tkey. rewrite C, Z.eqb_refl. cbn [andb].
  rewrite andb_true_iff, !Z.eqb_eq. split; [intros [-> ->]; reflexivity|intros H; inversion H; auto].
Qed.

Lemma rds_match_cls r cls ty cov : rds_match r cls ty cov = true -> r_cls r = cls.
Proof. unfold rds_match. rewrite !andb_true_iff, !Z.eqb_eq. tauto. Qed.

Lemma node_wf_nil : node_wf [].
Proof. split; constructor. Qed.

Lemma node_wf_tail r nd : node_wf (r :: nd) -> node_wf nd.
Proof. intros [H1 H2]. inversion H1; inversion H2; subst. split; auto. Qed.

Lemma node_wf_filter p nd : node_wf nd -> node_wf (filter p nd).
Proof.
  intros [H1 H2]. split.
  - induction nd as [|r nd IH]; cbn; [constructor|].
    inversion H1; inversion H2; subst. destruct (p r); cbn; auto.
    constructor; auto. intros Hin. apply H3. apply in_map_iff in Hin. destruct Hin as (x & E & Hx).
    apply filter_In in Hx. apply in_map_iff. exists x. tauto.
  - apply Forall_forall. intros x Hx. apply filter_In in Hx. eapply Forall_forall in H2; [exact H2|tauto].
Qed.

Lemma filter_nomatch nd ty cov :
  Forall (fun r => r_cls r = cIN) nd -> ~ In (ty, cov) (map tkey nd) ->
  filter (fun r => negb (rds_match r cIN ty cov)) nd = nd.
Proof.
  induction nd as [|x nd IH]; intros F H; [reflexivity|]. cbn [filter].
  inversion F; subst.
  destruct (rds_match x cIN ty cov) eqn:Mx; cbn [negb].
  - exfalso. apply (rds_match_tkey x ty cov H2) in Mx. apply H. left. exact Mx.
  - f_equal. apply IH; auto. intros Hin. apply H. right. exact Hin.
Qed.

Lemma NoDup_snoc {A} (l : list A) x : NoDup l -> ~ In x l -> NoDup (l ++ [x]).
Proof.
  induction l as [|y l IH]; intros H Hx; cbn.
  - constructor; [intros []|constructor].
  - inversion H; subst. constructor.
    + rewrite in_app_iff. intros [Hy|[Hy|[]]]; [auto|]. subst. apply Hx. left. reflexivity.
    + apply IH; auto. intros Hin. apply Hx. right. exact Hin.
Qed.

(* list.remove of the (unique) match = dropping every match *)
Lemma node_delete_filter nd ty cov :
  node_wf nd -> node_delete nd cIN ty cov = filter (fun r => negb (rds_match r cIN ty cov)) nd.
Proof.
  induction nd as [|r nd IH]; intros W; [reflexivity|]. cbn [node_delete filter].
  destruct W as [W1 W2]. inversion W1; inversion W2; subst.
  destruct (rds_match r cIN ty cov) eqn:M; cbn [negb].
  - symmetry. apply filter_nomatch; [exact H6|].
    apply (rds_match_tkey r ty cov H5) in M. rewrite <- M. exact H1.
  - f_equal. apply IH. split; auto.
Qed.

Lemma node_append_filter nd r :
  node_append nd r = filter (fun x => negb (evicts_rds (classify_rds r) x)) nd ++ [r].
Proof.
  unfold node_append. destruct nd as [|x nd]; [reflexivity|].
  destruct (classify_rds r); cbn [evicts_rds]; try reflexivity.
  f_equal. symmetry. rewrite (filter_ext _ (fun _ => true)) by reflexivity.
  clear. generalize (x :: nd). induction l; cbn; congruence.
Qed.

Lemma filter_filter {A} (p q : A -> bool) l : filter p (filter q l) = filter (fun x => q x && p x) l.
Proof. induction l as [|x l IH]; cbn; [reflexivity|]. destruct (q x); cbn; [destruct (p x)|]; rewrite IH; reflexivity. Qed.

Lemma node_replace_filter nd r :
  node_wf nd -> r_cls r = cIN ->
  node_replace nd r =
  filter (fun x => negb (rds_match x cIN (r_ty r) (r_cov r) || evicts_rds (classify_rds r) x)) nd ++ [r].
Proof.
  intros W C. unfold node_replace. rewrite C, node_delete_filter by exact W.
  rewrite node_append_filter, filter_filter. f_equal. apply filter_ext. intros x.
  rewrite negb_orb. reflexivity.
Qed.

Lemma node_replace_wf nd r : node_wf nd -> r_cls r = cIN -> node_wf (node_replace nd r).
Proof.
  intros W C. rewrite node_replace_filter by assumption.
  pose proof (node_wf_filter (fun x => negb (rds_match x cIN (r_ty r) (r_cov r) || evicts_rds (classify_rds r) x)) nd W) as [F1 F2].
  split.
  - rewrite map_app. cbn [map]. apply NoDup_snoc; [exact F1|].
    intros Hin. apply in_map_iff in Hin. destruct Hin as (x & E & Hx). apply filter_In in Hx. destruct Hx as [Hx Hp].
    apply negb_true_iff, orb_false_iff in Hp. destruct Hp as [Hp _].
    assert (rds_match x cIN (r_ty r) (r_cov r) = true); [|congruence].
    apply rds_match_tkey; [|exact E]. destruct W as [_ W2]. eapply Forall_forall in W2; eauto.
  - apply Forall_app. split; [exact F2|constructor; auto].
Qed.
