(* Second half of C02 WITH an origin: what decode_rdata accepts under origin o encodes under o,
   and the encoding decodes (under o) to the same record. *)
From DV Require Import Base.Prelude Model.NameM Model.SchemaM Proofs.SchemaName Proofs.SchemaCodec
  Proofs.SchemaThm Proofs.SchemaFix Proofs.SchemaOrigin.
From DV Require Proofs.NameValid Proofs.NameRel.
Open Scope Z_scope.

(* ---------- generic: a property of decoded names lifts to all decoded values ---------- *)
Section DecNok.
  Variable oo : option name.
  Variable NOK : bool -> name -> Prop.
  Hypothesis Hget : forall w rel e c v c', get_name w oo rel e c = Ok (v, c') -> NOK rel v.
  Hypothesis Henc : forall rel v, NOK rel v -> exists b, NameM.to_wire v oo false = Ok b.

  Lemma g_dec_s : forall w f e c v c', dec_s w oo f e c = Ok (v, c') -> nok_s NOK f v.
  Proof.
    intros w [wd m|n|wd lo hi|rel] e c v c' H; cbn [dec_s] in H.
    - inv_bind H. injection H as <- <-. exact Logic.I.
    - inv_bind H. injection H as <- <-. exact Logic.I.
    - inv_bind H. inv_bind H. injection H as <- <-. exact Logic.I.
    - inv_bind H. injection H as <- <-. destruct x as [n c1]. cbn. eapply Hget; eauto.
  Qed.

  Lemma g_dec_row : forall w fs e c vs c', dec_row w oo fs e c = Ok (vs, c') -> nok_row NOK fs vs.
  Proof.
    induction fs as [|f fr IH]; intros e c vs c' H; cbn [dec_row] in H.
    - injection H as <- <-. exact Logic.I.
    - inv_bind H. inv_bind H. injection H as <- <-. destruct x as [v c1], x0 as [vr c2]. cbn [fst snd] in *.
      split; [eapply g_dec_s; eauto|eapply IH; eauto].
  Qed.

  Lemma g_dec_rows : forall w fuel row e c rows c',
    dec_rows w oo fuel row e c = Ok (rows, c') -> Forall (nok_row NOK row) rows.
  Proof.
    induction fuel as [|f IH]; intros row e c rows c' H; cbn [dec_rows] in H.
    - destruct (Nat.leb e c); [|discriminate]. injection H as <- <-. constructor.
    - destruct (Nat.leb e c); [injection H as <- <-; constructor|].
      inv_bind H. inv_bind H. injection H as <- <-. destruct x as [r c1], x0 as [rr c2]. cbn [fst snd] in *.
      constructor; [eapply g_dec_row; eauto|eapply IH; eauto].
  Qed.

  Lemma g_dec_f : forall w f e c v c', dec_f w oo f e c = Ok (v, c') -> nok_f NOK f v.
  Proof.
    intros w [s|lo|n|hi|m a row] e c v c' H; cbn [dec_f] in H.
    - inv_bind H. injection H as <- <-. destruct x. eapply g_dec_s; eauto.
    - inv_bind H. injection H as <- <-. exact Logic.I.
    - inv_bind H. injection H as <- <-. exact Logic.I.
    - destruct (Nat.ltb c e).
      + inv_bind H. injection H as <- <-. exact Logic.I.
      + injection H as <- <-. exact Logic.I.
    - inv_bind H. injection H as <- <-. destruct x. cbn [fst]. eapply g_dec_rows; eauto.
  Qed.

  Lemma g_dec_fields : forall w fs e c vs c', dec_fields w oo fs e c = Ok (vs, c') -> nok_fields NOK fs vs.
  Proof.
    induction fs as [|f fr IH]; intros e c vs c' H; cbn [dec_fields] in H.
    - injection H as <- <-. exact Logic.I.
    - inv_bind H. inv_bind H. injection H as <- <-. destruct x as [v c1], x0 as [vr c2]. cbn [fst snd] in *.
      split; [eapply g_dec_f; eauto|eapply IH; eauto].
  Qed.

  (* valid values whose names satisfy NOK always encode *)
  Lemma g_enc_s : forall f v, sfld_wf f = true -> valid_s f v = true -> nok_s NOK f v -> exists b, enc_s oo f v = Ok b.
  Proof.
    intros [w m|n|w lo hi|rel] [z|x|nm] Hwf Hv Hn; cbn in Hv; try discriminate; unfold sfld_wf in Hwf; cbn [enc_s].
    - apply andb_prop in Hv as [H1 H2]. apply andb_prop in Hwf as [Hwf H3].
      assert (E : (0 <=? z) && (z <? pow256 w) = true) by (apply andb_true_intro; split; lia).
      rewrite E. eauto.
    - eauto.
    - unfold len_in in Hv. apply andb_prop in Hv as [H1 H2]. apply andb_prop in Hwf as [Hwf H3].
      assert (E : (zlen x <? pow256 w) = true) by lia. rewrite E. eauto.
    - cbn in Hn. eapply Henc; eauto.
  Qed.

  Lemma g_enc_row : forall fs vs, forallb sfld_wf fs = true -> valid_row fs vs = true -> nok_row NOK fs vs ->
    exists b, enc_row oo fs vs = Ok b.
  Proof.
    induction fs as [|f fr IH]; intros [|v vr] Hwf Hv Hn; cbn in Hv; try discriminate.
    - cbn. eauto.
    - cbn [forallb] in Hwf. apply andb_prop in Hwf as [W1 W2]. apply andb_prop in Hv as [V1 V2].
      destruct Hn as [N1 N2].
      destruct (g_enc_s f v W1 V1 N1) as [b1 E1]. destruct (IH vr W2 V2 N2) as [b2 E2].
      cbn [enc_row]. rewrite E1, E2. cbn. eauto.
  Qed.

  Lemma g_enc_rows : forall row rows, forallb sfld_wf row = true -> forallb (valid_row row) rows = true ->
    Forall (nok_row NOK row) rows -> exists b, enc_rows oo row rows = Ok b.
  Proof.
    induction rows as [|r rr IH]; intros Hwf Hv Hn.
    - cbn. eauto.
    - cbn [forallb] in Hv. apply andb_prop in Hv as [V1 V2]. inversion Hn; subst.
      destruct (g_enc_row row r Hwf V1 H1) as [b1 E1]. destruct (IH Hwf V2 H2) as [b2 E2].
      cbn [enc_rows]. rewrite E1, E2. cbn. eauto.
  Qed.

  Lemma g_enc_f : forall f v, last_wf f = true -> valid_f f v = true -> nok_f NOK f v -> exists b, enc_f oo f v = Ok b.
  Proof.
    intros [s|lo|n|hi|m a row] [x|rows] Hwf Hv Hn; cbn in Hv; try discriminate; cbn [enc_f].
    - apply g_enc_s; assumption.
    - destruct x; try discriminate. eauto.
    - destruct x; try discriminate. eauto.
    - destruct x as [|x|]; try discriminate. destruct x as [|c x']; [eauto|].
      cbn [enc_s]. cbn [last_wf] in Hwf. apply andb_prop in Hwf as [W1 W2].
      assert (E : (zlen (c :: x') <? pow256 1) = true) by (cbn [pow256]; lia). rewrite E. eauto.
    - apply andb_prop in Hv as [Hv _]. apply andb_prop in Hv as [Hv _].
      cbn [last_wf] in Hwf. unfold row_wf in Hwf. apply andb_prop in Hwf as [Hwf _].
      apply g_enc_rows; assumption.
  Qed.

  Lemma g_enc_fields : forall fs vs, schema_wf fs = true -> valid_fields fs vs = true -> nok_fields NOK fs vs ->
    exists b, enc_fields oo fs vs = Ok b.
  Proof.
    induction fs as [|f fr IH]; intros [|v vr] Hwf Hv Hn; cbn in Hv; try discriminate.
    - cbn. eauto.
    - apply andb_prop in Hv as [V1 V2]. destruct Hn as [N1 N2].
      assert (Hl : last_wf f = true /\ schema_wf fr = true).
      { destruct fr as [|f2 fr'].
        - split; [destruct f; exact Hwf|reflexivity].
        - destruct f as [s| | | |]; try (cbn in Hwf; discriminate).
          cbn [schema_wf] in Hwf. apply andb_prop in Hwf. exact Hwf. }
      destruct Hl as [L1 L2].
      destruct (g_enc_f f v L1 V1 N1) as [b1 E1]. destruct (IH vr L2 V2 N2) as [b2 E2].
      cbn [enc_fields]. rewrite E1, E2. cbn. eauto.
  Qed.
End DecNok.

(* ---------- instantiation for an absolute origin ---------- *)
Section WithOrigin.
  Variable o : name.
  Hypothesis o_abs : is_absolute o = true.

  Lemma get_name_nok_origin : forall w rel e c v c',
    get_name w (Some o) rel e c = Ok (v, c') -> nok_origin o rel v.
  Proof.
    intros w rel e c v c' H. unfold get_name in H.
    destruct (NameM.from_wire (firstn e w) c) as [[n k]| |] eqn:Ef; try discriminate.
    destruct (from_wire_abs_valid _ _ _ _ Ef) as [Habs Hval].
    assert (Vn : NameValid.Valid n) by (apply NameValid.validate_iff; exact Hval).
    destruct rel.
    - destruct o as [|x o'] eqn:Eo; [discriminate|]. rewrite <- Eo in *.
      destruct (relativize n o) as [r| |] eqn:Er; cbn [bind] in H; try discriminate.
      injection H as <- _.
      destruct (is_subdomain n o) eqn:Sd.
      + destruct (NameRel.rel_derel n o Vn Sd) as (r' & Hr & Hsplit & Hci & _ & Hci2).
        rewrite Er in Hr. injection Hr as <-.
        left. split; [reflexivity|]. split.
        * (* the stripped prefix is relative *)
          set (s := skipn (length r) n) in *.
          assert (Hs : s <> []).
          { intro E. rewrite E in Hci. apply NameRel.ci_equal_length in Hci. rewrite Eo in Hci. discriminate. }
          destruct s as [|s0 s']; [congruence|].
          rewrite Hsplit in Vn. eapply NameValid.Valid_prefix_relative; eauto.
        * eapply NameRel.Valid_ci; [symmetry; exact Hci2|exact Vn].
      + unfold relativize in Er. rewrite Sd in Er. injection Er as <-.
        right. split; [exact Habs|]. split; [exact Hval|]. intros _. exact Sd.
    - injection H as <- _. right. split; [exact Habs|]. split; [exact Hval|]. discriminate.
  Qed.

  Lemma nok_origin_encodes : forall rel v, nok_origin o rel v -> exists b, NameM.to_wire v (Some o) false = Ok b.
  Proof.
    intros rel v [(_ & Hna & Hv)|(Habs & _ & _)]; unfold NameM.to_wire.
    - rewrite Hna, o_abs.
      assert (Hw : wire_length v + wire_length o <= 255).
      { destruct Hv as (_ & Hw & _). rewrite NameValid.wire_length_app in Hw. exact Hw. }
      destruct (wire_length v + wire_length o >? 255) eqn:E; [lia|]. eauto.
    - rewrite Habs. eauto.
  Qed.

  Theorem schema_fixed_point_origin_thm : forall fs ck wire cur rdlen vs,
    schema_wf fs = true ->
    decode_rdata (Some o) fs ck wire cur rdlen = Ok vs ->
    exists w', encode_rdata (Some o) fs ck vs = Ok w' /\
               decode_rdata (Some o) fs ck w' 0 (length w') = Ok vs.
  Proof.
    intros fs ck wire cur rdlen vs Hwf Hd.
    pose proof (decode_validates _ _ _ _ _ _ _ Hd) as Hv.
    apply exact_consumption in Hd as [_ Hdf].
    pose proof (g_dec_fields (Some o) (nok_origin o) get_name_nok_origin wire fs _ _ _ _ Hdf) as Hn.
    pose proof Hv as Hv'. unfold validate in Hv'. apply andb_prop in Hv' as [Hvf _].
    destruct (g_enc_fields (Some o) (nok_origin o) get_name_nok_origin nok_origin_encodes fs vs Hwf Hvf Hn) as [w' Ew].
    assert (He : encode_rdata (Some o) fs ck vs = Ok w') by (unfold encode_rdata; rewrite Hv; exact Ew).
    exists w'. split; [exact He|].
    pose proof (schema_roundtrip_origin_thm o o_abs fs ck vs w' [] [] Hwf Hn He) as Hr.
    cbn [app length] in Hr. rewrite app_nil_r in Hr. exact Hr.
  Qed.
End WithOrigin.

From DV Require Import Proofs.SchemaTable.

(* table level: for an entry whose two sides agree on the origin flags *)
Theorem table_fixed_point_origin_thm : forall tbl o e w r ck wire cur rdlen vs,
  forallb entry_ok tbl = true -> In e tbl -> entry_origin_ok e = true ->
  e_codec e = CSchema w r ck -> is_absolute o = true ->
  decode_rdata (Some o) (map fst r) ck wire cur rdlen = Ok vs ->
  exists w', encode_rdata (Some o) (map fst w) ck vs = Ok w' /\
             decode_rdata (Some o) (map fst r) ck w' 0 (length w') = Ok vs.
Proof.
  intros tbl o e w r ck wire cur rdlen vs Ht Hin Hor Hc Ho Hd.
  rewrite forallb_forall in Ht. specialize (Ht e Hin).
  pose proof (entry_sides_equal e w r ck Ht Hor Hc) as Heq.
  rewrite <- decode_rdata_norm_last in Hd. rewrite <- Heq in Hd.
  destruct (schema_fixed_point_origin_thm o Ho (map fst w) ck wire cur rdlen vs (entry_ok_wf e w r ck Ht Hc) Hd) as (w' & H1 & H2).
  exists w'. split; [exact H1|]. rewrite <- decode_rdata_norm_last. rewrite <- Heq. exact H2.
Qed.
