(* C19 - isolation, node by node: an operation on one tree leaves every NODE that any other tree
   reaches literally untouched (same id, same creator, same keys, same children) - which is what
   keeps cursors and iterators held on those other trees valid: they are not parked when a
   different tree (a clone, or the original of a clone) is mutated. *)
From DV Require Import Base.Prelude Model.BTreeM Model.BTreeStoreM Proofs.BTreeBase Proofs.BTreeWf Proofs.BTreeInsert
  Proofs.BTreeLookup Proofs.BTreeDelete Proofs.BTreeTop Proofs.BTreeStore Proofs.BTreeIsolation
  Proofs.BTreeRefine Proofs.BTreeRefine4 Proofs.BTreeRefine5.

(* the nodes of footprint fp are the same in s and s' *)
Definition same_nodes (s s' : store) (fp : list nat) : Prop := forall y, In y fp -> nth_error s' y = nth_error s y.

Lemma same_nodes_refl s fp : same_nodes s s fp.
Proof. intros y _. reflexivity. Qed.

Lemma same_nodes_trans s1 s2 s3 fp : same_nodes s1 s2 fp -> same_nodes s2 s3 fp -> same_nodes s1 s3 fp.
Proof. intros H1 H2 y Hy. now rewrite (H2 y Hy), (H1 y Hy). Qed.

Lemma ext_same_nodes sw i s' k sb tr fp :
  WI sw -> nth_error (sw_trees sw) k = Some sb -> rep (sw_store sw) (sb_root sb) tr fp ->
  frw (sw_trees sw) i = false -> i <> k ->
  ext i (sw_store sw) s' -> same_nodes (sw_store sw) s' fp.
Proof.
  intros (Hok & Htr) Hk Hr Hfr Hne (_ & He) y Hy. destruct (Htr k sb Hk) as (_ & Hv).
  destruct (rep_vis (ancw (frw (sw_trees sw))) (ancw_trans _) _ Hok _ _ _ Hr k Hv y Hy) as (n & Hn & Ha).
  rewrite Hn. apply (proj1 (He y n Hn)). intros Hc.
  destruct Ha as [Heq|(Hlt & Hf)]; [congruence|]. rewrite Hc in Hf. congruence.
Qed.

Lemma exec_prim_nodes sw x sw' o k sb tr fp :
  WI sw -> exec_prim sw x = (sw', o) -> target x <> Some k ->
  nth_error (sw_trees sw) k = Some sb -> rep (sw_store sw) (sb_root sb) tr fp ->
  same_nodes (sw_store sw) (sw_store sw') fp.
Proof.
  intros HW H Hne Hk Hr. pose proof HW as (Hok & Htr).
  destruct x; cbn [exec_prim target] in *; try (inversion H; subst; apply same_nodes_refl).
  - unfold s_new in H. destruct (Z.to_nat t <? 3)%nat; [inversion H; subst; apply same_nodes_refl|].
    unfold alloc in H. inversion H; subst sw' o. cbn [sw_store]. intros y Hy.
    apply nth_error_app1. eapply rep_valid; eauto.
  - unfold s_with_tree in H. destruct (nth_error (sw_trees sw) (Z.to_nat ti)) as [b|] eqn:Eb; [|inversion H; subst; apply same_nodes_refl].
    unfold s_mutate in H.
    destruct (s_insert_element (sw_store sw) b (k0, v) match io with Some x => x | None => sb_inorder b end)
      as [((s' & b') & oe)|e|e] eqn:Ei; cbn [bind] in H; try (inversion H; subst; apply same_nodes_refl).
    inversion H; subst sw' o. cbn [sw_store]. destruct (Htr _ b Eb) as (Hcb & Hvb).
    assert (Him : sb_immut b = false) by (unfold s_insert_element in Ei; destruct (sb_immut b); [discriminate|reflexivity]).
    destruct (s_insert_element_ok (ancw (frw (sw_trees sw))) (ancw_refl _) (ancw_trans _) (Z.to_nat ti)
                (sw_store sw) b (k0, v) _ s' b' oe Hok Hvb Hcb Ei) as ((_ & He) & _).
    apply (ext_same_nodes sw (Z.to_nat ti) s' k sb tr fp HW Hk Hr); [unfold frw; now rewrite Eb|congruence|exact He].
  - unfold s_with_tree in H. destruct (nth_error (sw_trees sw) (Z.to_nat ti)) as [b|] eqn:Eb; [|inversion H; subst; apply same_nodes_refl].
    unfold s_mutate in H.
    destruct (s_delete (sw_store sw) b k0 exact) as [((s' & b') & od)|e|e] eqn:Ei; cbn [bind] in H; try (inversion H; subst; apply same_nodes_refl).
    inversion H; subst sw' o. cbn [sw_store]. destruct (Htr _ b Eb) as (Hcb & Hvb).
    assert (Him : sb_immut b = false) by (unfold s_delete in Ei; destruct (sb_immut b); [discriminate|reflexivity]).
    destruct (s_delete_ok (ancw (frw (sw_trees sw))) (ancw_refl _) (ancw_trans _) (Z.to_nat ti)
                (sw_store sw) b k0 exact s' b' od Hok Hvb Hcb Ei) as ((_ & He) & _).
    apply (ext_same_nodes sw (Z.to_nat ti) s' k sb tr fp HW Hk Hr); [unfold frw; now rewrite Eb|congruence|exact He].
  - unfold s_with_tree in H. destruct (nth_error (sw_trees sw) (Z.to_nat ti)); inversion H; subst; apply same_nodes_refl.
  - unfold s_with_tree in H. destruct (nth_error (sw_trees sw) (Z.to_nat ti)) as [b|]; [|inversion H; subst; apply same_nodes_refl].
    unfold s_clone in H. destruct (sb_immut b); inversion H; subst; apply same_nodes_refl.
Qed.

Lemma s_clear_nodes ti k sb tr fp : Z.to_nat ti <> k -> forall fuel sw,
  WI sw -> nth_error (sw_trees sw) k = Some sb -> rep (sw_store sw) (sb_root sb) tr fp ->
  same_nodes (sw_store sw) (sw_store (s_clear fuel sw ti)) fp.
Proof.
  intros Hne. induction fuel as [|f IH]; intros sw HW Hk Hr; [apply same_nodes_refl|]. cbn [s_clear].
  destruct (s_first sw ti) as [e|]; [|apply same_nodes_refl].
  destruct (exec_prim sw (SDel ti (fst e) None 2)) as (sw1 & o1) eqn:E1. cbn [fst].
  assert (Ht : target (SDel ti (fst e) None 2) <> Some k) by (cbn [target]; congruence).
  pose proof (exec_prim_nodes _ _ _ _ _ _ _ _ HW E1 Ht Hk Hr) as H1.
  destruct (exec_prim_isolated _ _ _ _ HW E1) as (HW1 & Hiso). destruct (Hiso k sb Ht Hk) as (Hk1 & _).
  eapply same_nodes_trans; [exact H1|]. apply IH; [assumption|assumption|].
  eapply rep_frame; [exact Hr|exact H1].
Qed.

Theorem exec_nodes sw x sw' o k sb tr fp :
  WI sw -> exec sw x = (sw', o) -> target x <> Some k ->
  nth_error (sw_trees sw) k = Some sb -> rep (sw_store sw) (sb_root sb) tr fp ->
  same_nodes (sw_store sw) (sw_store sw') fp.
Proof.
  intros HW H Hne Hk Hr. destruct x; cbn [exec] in H; try (exact (exec_prim_nodes _ _ _ _ _ _ _ _ HW H Hne Hk Hr)).
  - destruct (s_lookup sw ti k0); [|inversion H; subst; apply same_nodes_refl].
    exact (exec_prim_nodes _ _ _ _ _ _ _ _ HW H Hne Hk Hr).
  - destruct (s_first sw ti); [|inversion H; subst; apply same_nodes_refl].
    exact (exec_prim_nodes _ _ _ _ _ _ _ _ HW H Hne Hk Hr).
  - injection H as Hsw _. subst sw'.
    change (same_nodes (sw_store sw) (sw_store (s_clear (S (tree_size sw ti)) sw ti)) fp).
    apply (s_clear_nodes ti k sb tr fp); auto. cbn [target] in Hne. congruence.
  - destruct (s_lookup sw ti k0); [inversion H; subst; apply same_nodes_refl|].
    exact (exec_prim_nodes _ _ _ _ _ _ _ _ HW H Hne Hk Hr).
Qed.

(* exported: after any history, one more operation leaves every node that another tree reaches
   untouched; `reach` lists those nodes - the ids seen by the preorder walk from the tree's root *)
Theorem cow_nodes_untouched_proof xs x w' o k bk :
  let w := execs (mkSW [] []) xs in
  exec w x = (w', o) -> target x <> Some k -> nth_error (sw_trees w) k = Some bk ->
  exists fp tr, rep (sw_store w) (sb_root bk) tr fp /\ rep (sw_store w') (sb_root bk) tr fp /\
    forall y, In y fp -> nth_error (sw_store w') y = nth_error (sw_store w) y.
Proof.
  intros w H Hne Hk. destruct (store_refines_proof xs) as (HW & Hlen & Hrel). fold w in HW, Hlen, Hrel.
  destruct (nth_error (vexecs [] xs) k) as [b|] eqn:Eb.
  2:{ apply nth_error_None in Eb. assert (k < length (sw_trees w))%nat by (apply nth_error_Some; congruence). lia. }
  destruct (Hrel k bk b Hk Eb) as ((_ & _ & _ & _ & fp & Hr) & _).
  pose proof (exec_nodes w x w' o k bk _ fp HW H Hne Hk Hr) as Hs.
  exists fp, (b_root b). split; [assumption|]. split; [|exact Hs]. eapply rep_frame; [exact Hr|exact Hs].
Qed.

(* who owns what a tree reaches: every node in the footprint of tree k was created by k itself or
   by an OLDER tree that is frozen - a mutable tree never shares its own nodes with anybody *)
Theorem sharing_discipline_proof xs k bk :
  let w := execs (mkSW [] []) xs in
  nth_error (sw_trees w) k = Some bk ->
  exists fp tr, rep (sw_store w) (sb_root bk) tr fp /\
    forall y, In y fp -> exists n, nth_error (sw_store w) y = Some n /\
      (s_cr n = k \/ ((s_cr n < k)%nat /\ exists bo, nth_error (sw_trees w) (s_cr n) = Some bo /\ sb_immut bo = true)).
Proof.
  intros w Hk. destruct (store_refines_proof xs) as (HW & Hlen & Hrel). fold w in HW, Hlen, Hrel.
  destruct (nth_error (vexecs [] xs) k) as [b|] eqn:Eb.
  2:{ apply nth_error_None in Eb. assert (k < length (sw_trees w))%nat by (apply nth_error_Some; congruence). lia. }
  destruct (Hrel k bk b Hk Eb) as ((_ & _ & _ & _ & fp & Hr) & _).
  exists fp, (b_root b). split; [assumption|]. intros y Hy.
  pose proof HW as (Hok & Htr). destruct (Htr k bk Hk) as (_ & Hv).
  destruct (rep_vis (ancw (frw (sw_trees w))) (ancw_trans _) _ Hok _ _ _ Hr k Hv y Hy) as (n & Hn & Ha).
  exists n. split; [assumption|]. destruct Ha as [Heq|(Hlt & Hf)]; [now left|right].
  split; [assumption|]. unfold frw in Hf. destruct (nth_error (sw_trees w) (s_cr n)) as [bo|]; [|discriminate]. eauto.
Qed.

(* ---------------------------------------------------------------- the write set of an operation *)

(* `ext c s s'` (Proofs/BTreeStore.v): nothing disappears, no creator tag ever changes, and every
   node NOT tagged c is exactly as before.  Every operation on tree i satisfies it with c = i; the
   operations without a target (new tree, clone) only allocate. *)
Lemma ext_refl' c s : ext c s s.
Proof. exact (ext_refl eq (fun a => eq_refl) (fun a b d H1 H2 => eq_trans H1 H2) c s). Qed.

Lemma ext_trans' c s1 s2 s3 : ext c s1 s2 -> ext c s2 s3 -> ext c s1 s3.
Proof. exact (ext_trans eq (fun a => eq_refl) (fun a b d H1 H2 => eq_trans H1 H2) c s1 s2 s3). Qed.

Definition wtag (w : sworld) (x : sop) : nat :=
  match target x with Some i => i | None => length (sw_trees w) end.

Lemma ext_alloc c s n : ext c s (s ++ [n]).
Proof.
  split; [rewrite app_length; lia|]. intros id m Hm.
  assert (id < length s)%nat by (apply nth_error_Some; congruence).
  rewrite nth_error_app1 by assumption. split; [auto|eauto].
Qed.

Lemma exec_prim_writes sw x sw' o :
  WI sw -> exec_prim sw x = (sw', o) -> ext (wtag sw x) (sw_store sw) (sw_store sw').
Proof.
  intros HW H. pose proof HW as (Hok & Htr). unfold wtag.
  destruct x; cbn [exec_prim target] in *; try (inversion H; subst; apply ext_refl').
  - unfold s_new in H. destruct (Z.to_nat t <? 3)%nat; [inversion H; subst; apply ext_refl'|].
    unfold alloc in H. inversion H; subst sw' o. cbn [sw_store]. apply ext_alloc.
  - unfold s_with_tree in H. destruct (nth_error (sw_trees sw) (Z.to_nat ti)) as [b|] eqn:Eb; [|inversion H; subst; apply ext_refl'].
    unfold s_mutate in H.
    destruct (s_insert_element (sw_store sw) b (k, v) match io with Some x => x | None => sb_inorder b end)
      as [((s' & b') & oe)|e|e] eqn:Ei; cbn [bind] in H; try (inversion H; subst; apply ext_refl').
    inversion H; subst sw' o. cbn [sw_store]. destruct (Htr _ b Eb) as (Hcb & Hvb).
    exact (proj2 (proj1 (s_insert_element_ok (ancw (frw (sw_trees sw))) (ancw_refl _) (ancw_trans _) (Z.to_nat ti)
                (sw_store sw) b (k, v) _ s' b' oe Hok Hvb Hcb Ei))).
  - unfold s_with_tree in H. destruct (nth_error (sw_trees sw) (Z.to_nat ti)) as [b|] eqn:Eb; [|inversion H; subst; apply ext_refl'].
    unfold s_mutate in H.
    destruct (s_delete (sw_store sw) b k exact) as [((s' & b') & od)|e|e] eqn:Ei; cbn [bind] in H; try (inversion H; subst; apply ext_refl').
    inversion H; subst sw' o. cbn [sw_store]. destruct (Htr _ b Eb) as (Hcb & Hvb).
    exact (proj2 (proj1 (s_delete_ok (ancw (frw (sw_trees sw))) (ancw_refl _) (ancw_trans _) (Z.to_nat ti)
                (sw_store sw) b k exact s' b' od Hok Hvb Hcb Ei))).
  - unfold s_with_tree in H. destruct (nth_error (sw_trees sw) (Z.to_nat ti)); inversion H; subst; apply ext_refl'.
  - unfold s_with_tree in H. destruct (nth_error (sw_trees sw) (Z.to_nat ti)) as [b|]; [|inversion H; subst; apply ext_refl'].
    unfold s_clone in H. destruct (sb_immut b); inversion H; subst; apply ext_refl'.
Qed.

Lemma s_clear_writes ti : forall fuel sw, WI sw -> ext (Z.to_nat ti) (sw_store sw) (sw_store (s_clear fuel sw ti)).
Proof.
  induction fuel as [|f IH]; intros sw HW; [apply ext_refl'|]. cbn [s_clear].
  destruct (s_first sw ti) as [e|]; [|apply ext_refl'].
  destruct (exec_prim sw (SDel ti (fst e) None 2)) as (sw1 & o1) eqn:E1. cbn [fst].
  pose proof (exec_prim_writes _ _ _ _ HW E1) as H1. unfold wtag in H1. cbn [target] in H1.
  destruct (exec_prim_isolated _ _ _ _ HW E1) as (HW1 & _).
  eapply ext_trans'; [exact H1|]. now apply IH.
Qed.

Theorem writes_own_nodes_only_proof xs x w' o :
  let w := execs (mkSW [] []) xs in
  exec w x = (w', o) -> ext (wtag w x) (sw_store w) (sw_store w').
Proof.
  intros w H. pose proof (WI_reachable xs) as HW. fold w in HW.
  destruct x; cbn [exec] in H; try (exact (exec_prim_writes _ _ _ _ HW H)).
  - destruct (s_lookup w ti k); [|inversion H; subst; apply ext_refl']. exact (exec_prim_writes _ _ _ _ HW H).
  - destruct (s_first w ti); [|inversion H; subst; apply ext_refl']. exact (exec_prim_writes _ _ _ _ HW H).
  - injection H as Hsw _. subst w'.
    change (ext (Z.to_nat ti) (sw_store w) (sw_store (s_clear (S (tree_size w ti)) w ti))). now apply s_clear_writes.
  - destruct (s_lookup w ti k); [inversion H; subst; apply ext_refl'|]. exact (exec_prim_writes _ _ _ _ HW H).
Qed.
