(* C19 - whole histories: the world of trees and cursors driven by BTreeM.step is, step by
   step and for every operation sequence, observationally equal to a reference world made of
   sorted association lists and cursor anchors; all trees stay well-formed. *)
From DV Require Import Base.Prelude Model.BTreeM Proofs.BTreeBase Proofs.BTreeWf Proofs.BTreeInsert
  Proofs.BTreeLookup Proofs.BTreeDelete Proofs.BTreeCursor Proofs.BTreeTop.

(* ---------------------------------------------------------------- operations and their syntax *)

Inductive vop :=
| VNew (t : nat) (io : bool) | VNewSet (t : nat) (io : bool)
| VIns (ti : nat) (k v : Z) (io : bool)
| VDel (ti : nat) (k : Z) | VDelX (ti : nat) (k v : Z)
| VGet (ti : nat) (k : Z) | VLen (ti : nat) | VItems (ti : nat) | VIter (ti : nat)
| VFreeze (ti : nat) | VClone (ti : nat) (io : bool) | VCopy (ti : nat)
| VCur (ti : nat)
| VSeek (ci : nat) (k : Z) (before : bool) | VFirst (ci : nat) | VLast (ci : nat)
| VNext (ci : nat) | VPrev (ci : nat)
| VDSet (ti : nat) (k v : Z) | VDGet (ti : nat) (k : Z) | VDDel (ti : nat) (k : Z)
| VSAdd (ti : nat) (k : Z) | VSDisc (ti : nat) (k : Z) | VSIn (ti : nat) (k : Z)
| VItOpen (ti : nat) (kind : Z) | VItNext (ci : nat) (mode : Z)
| VMin (ti : nat) | VMax (ti : nat)
| VPop (ti : nat) (k : Z) | VPopItem (ti : nat) | VClear (ti : nat)
| VSetDefault (ti : nat) (k v : Z) | VUpdate (ti : nat) (k v : Z)
| VSRemove (ti : nat) (k : Z) | VSPop (ti : nat) | VSClear (ti : nat)
| VDrop (ti : nat).

Definition bz (b : bool) : obs := I (if b then 1 else 0).
Definition nz (n : nat) : obs := I (Z.of_nat n).

(* the history syntax shared with the harness *)
Definition enc (x : vop) : obs :=
  match x with
  | VNew t io => L [I 1; nz t; bz io]
  | VNewSet t io => L [I 26; nz t; bz io]
  | VIns ti k v io => L [I 2; nz ti; I k; I v; bz io]
  | VDel ti k => L [I 3; nz ti; I k]
  | VDelX ti k v => L [I 4; nz ti; I k; I v]
  | VGet ti k => L [I 5; nz ti; I k]
  | VLen ti => L [I 6; nz ti]
  | VItems ti => L [I 7; nz ti]
  | VFreeze ti => L [I 8; nz ti]
  | VClone ti io => L [I 9; nz ti; bz io]
  | VCur ti => L [I 10; nz ti]
  | VSeek ci k before => L [I 11; nz ci; I k; bz before]
  | VFirst ci => L [I 12; nz ci]
  | VLast ci => L [I 13; nz ci]
  | VNext ci => L [I 14; nz ci]
  | VPrev ci => L [I 15; nz ci]
  | VIter ti => L [I 17; nz ti]
  | VDSet ti k v => L [I 20; nz ti; I k; I v]
  | VDGet ti k => L [I 21; nz ti; I k]
  | VDDel ti k => L [I 22; nz ti; I k]
  | VSAdd ti k => L [I 23; nz ti; I k]
  | VSDisc ti k => L [I 24; nz ti; I k]
  | VSIn ti k => L [I 25; nz ti; I k]
  | VCopy ti => L [I 27; nz ti]
  | VItOpen ti kind => L [I 18; nz ti; I kind]
  | VItNext ci mode => L [I 19; nz ci; I mode]
  | VMin ti => L [I 28; nz ti]
  | VMax ti => L [I 29; nz ti]
  | VPop ti k => L [I 40; nz ti; I k]
  | VPopItem ti => L [I 41; nz ti]
  | VClear ti => L [I 42; nz ti]
  | VSetDefault ti k v => L [I 43; nz ti; I k; I v]
  | VUpdate ti k v => L [I 44; nz ti; I k; I v]
  | VSRemove ti k => L [I 45; nz ti; I k]
  | VSPop ti => L [I 46; nz ti]
  | VSClear ti => L [I 47; nz ti]
  | VDrop ti => L [I 48; nz ti]
  end.

(* ---------------------------------------------------------------- the reference world *)

Record rtree := mkR { r_t : nat; r_items : list elt; r_immut : bool; r_inorder : bool }.
Record rworld := mkRW { rw_trees : list rtree; rw_cursors : list (nat * anchor) }.

Fixpoint span_lt (k : Z) (l : list elt) : list elt * list elt :=
  match l with
  | [] => ([], [])
  | e :: r => if fst e <? k then let '(a, b) := span_lt k r in (e :: a, b) else ([], l)
  end.
Fixpoint span_le (k : Z) (l : list elt) : list elt * list elt :=
  match l with
  | [] => ([], [])
  | e :: r => if fst e <=? k then let '(a, b) := span_le k r in (e :: a, b) else ([], l)
  end.

Definition split_anchor (a : anchor) (l : list elt) : list elt * list elt :=
  match a with
  | AL => ([], l)
  | AR => (l, [])
  | AB k => span_lt k l
  | AA k => span_le k l
  end.

Definition r_set (r : rtree) (items : list elt) : rtree := mkR (r_t r) items (r_immut r) (r_inorder r).

Definition r_with_tree (rw : rworld) (ti : nat) (f : rtree -> rworld * obs) : rworld * obs :=
  match nth_error (rw_trees rw) ti with Some r => f r | None => (rw, Prelude.E eBadCase) end.

Definition r_mutate (rw : rworld) (ti : nat) (r : rtree) (items : list elt) (o : obs) : rworld * obs :=
  if r_immut r then (rw, Prelude.E eImmutable)
  else (mkRW (set_nth ti (r_set r items) (rw_trees rw)) (rw_cursors rw), o).

Definition r_with_cursor (rw : rworld) (ci : nat) (f : nat -> anchor -> list elt -> rworld * obs) : rworld * obs :=
  match nth_error (rw_cursors rw) ci with
  | Some (ti, a) =>
      match nth_error (rw_trees rw) ti with
      | Some r => f ti a (r_items r)
      | None => (rw, Prelude.E eBadCase)
      end
  | None => (rw, Prelude.E eBadCase)
  end.

Definition rstep (rw : rworld) (x : vop) : rworld * obs :=
  match x with
  | VNew t io | VNewSet t io =>
      if (t <? 3)%nat then (rw, Prelude.E eBadT)
      else (mkRW (rw_trees rw ++ [mkR t [] false io]) (rw_cursors rw), N)
  | VIns ti k v _ =>
      r_with_tree rw ti (fun r =>
        r_mutate rw ti r (ins_sorted (k, v) (r_items r)) (obs_of_oelt (find_sorted k (r_items r))))
  | VDel ti k =>
      r_with_tree rw ti (fun r =>
        let o := dspec None (find_sorted k (r_items r)) in
        r_mutate rw ti r (after_del k o (r_items r)) (obs_of_dout o))
  | VDelX ti k v =>
      r_with_tree rw ti (fun r =>
        let o := dspec (Some v) (find_sorted k (r_items r)) in
        r_mutate rw ti r (after_del k o (r_items r)) (obs_of_dout o))
  | VGet ti k => r_with_tree rw ti (fun r => (rw, obs_of_oelt (find_sorted k (r_items r))))
  | VLen ti => r_with_tree rw ti (fun r => (rw, I (zlen (r_items r))))
  | VItems ti => r_with_tree rw ti (fun r => (rw, L (map (fun e => L [I (fst e); I (snd e)]) (r_items r))))
  | VIter ti => r_with_tree rw ti (fun r => (rw, L (map (fun e => I (fst e)) (r_items r))))
  | VFreeze ti =>
      r_with_tree rw ti (fun r =>
        (mkRW (set_nth ti (mkR (r_t r) (r_items r) true (r_inorder r)) (rw_trees rw)) (rw_cursors rw), N))
  | VClone ti io =>
      r_with_tree rw ti (fun r =>
        if r_immut r then (mkRW (rw_trees rw ++ [mkR (r_t r) (r_items r) false io]) (rw_cursors rw), N)
        else (rw, Prelude.E eNotImmutable))
  | VCopy ti =>
      r_with_tree rw ti (fun r =>
        if r_immut r then (mkRW (rw_trees rw ++ [mkR (r_t r) (r_items r) false false]) (rw_cursors rw), N)
        else (rw, Prelude.E eNotImmutable))
  | VCur ti => r_with_tree rw ti (fun r => (mkRW (rw_trees rw) (rw_cursors rw ++ [(ti, AL)]), N))
  | VSeek ci k before =>
      r_with_cursor rw ci (fun ti a l =>
        (mkRW (rw_trees rw) (set_nth ci (ti, if before then AB k else AA k) (rw_cursors rw)), N))
  | VFirst ci => r_with_cursor rw ci (fun ti a l => (mkRW (rw_trees rw) (set_nth ci (ti, AL) (rw_cursors rw)), N))
  | VLast ci => r_with_cursor rw ci (fun ti a l => (mkRW (rw_trees rw) (set_nth ci (ti, AR) (rw_cursors rw)), N))
  | VNext ci =>
      r_with_cursor rw ci (fun ti a l =>
        match snd (split_anchor a l) with
        | x :: _ => (mkRW (rw_trees rw) (set_nth ci (ti, AA (fst x)) (rw_cursors rw)), L [I (fst x); I (snd x)])
        | [] => (mkRW (rw_trees rw) (set_nth ci (ti, AR) (rw_cursors rw)), N)
        end)
  | VPrev ci =>
      r_with_cursor rw ci (fun ti a l =>
        match rev (fst (split_anchor a l)) with
        | x :: _ => (mkRW (rw_trees rw) (set_nth ci (ti, AB (fst x)) (rw_cursors rw)), L [I (fst x); I (snd x)])
        | [] => (mkRW (rw_trees rw) (set_nth ci (ti, AL) (rw_cursors rw)), N)
        end)
  | VDSet ti k v =>
      r_with_tree rw ti (fun r => r_mutate rw ti r (ins_sorted (k, v) (r_items r)) N)
  | VDGet ti k =>
      r_with_tree rw ti (fun r =>
        (rw, match find_sorted k (r_items r) with Some e => I (snd e) | None => Prelude.E eKey end))
  | VDDel ti k =>
      r_with_tree rw ti (fun r =>
        r_mutate rw ti r (del_sorted k (r_items r))
          (match find_sorted k (r_items r) with Some _ => N | None => Prelude.E eKey end))
  | VSAdd ti k => r_with_tree rw ti (fun r => r_mutate rw ti r (ins_sorted (k, 0) (r_items r)) N)
  | VSDisc ti k => r_with_tree rw ti (fun r => r_mutate rw ti r (del_sorted k (r_items r)) N)
  | VSIn ti k =>
      r_with_tree rw ti (fun r => (rw, match find_sorted k (r_items r) with Some _ => I 1 | None => I 0 end))
  (* iterators: an anchor like any cursor; a step yields the first element behind it *)
  | VItOpen ti kind => r_with_tree rw ti (fun r => (mkRW (rw_trees rw) (rw_cursors rw ++ [(ti, AL)]), N))
  | VItNext ci mode =>
      r_with_cursor rw ci (fun ti a l =>
        match snd (split_anchor a l) with
        | x :: _ => (mkRW (rw_trees rw) (set_nth ci (ti, AA (fst x)) (rw_cursors rw)), obs_of_iter mode (Some x))
        | [] => (mkRW (rw_trees rw) (set_nth ci (ti, AR) (rw_cursors rw)), N)
        end)
  (* least / greatest element *)
  | VMin ti =>
      r_with_tree rw ti (fun r => (rw, match r_items r with x :: _ => L [I (fst x); I (snd x)] | [] => Prelude.E eIndex end))
  | VMax ti =>
      r_with_tree rw ti (fun r => (rw, match rev (r_items r) with x :: _ => L [I (fst x); I (snd x)] | [] => Prelude.E eIndex end))
  (* the collections.abc mixins: the lookup comes first, so an absent key / an empty container is
     answered with KeyError (None for clear) even by a frozen tree *)
  | VPop ti k =>
      r_with_tree rw ti (fun r =>
        match find_sorted k (r_items r) with
        | None => (rw, Prelude.E eKey)
        | Some e => r_mutate rw ti r (del_sorted k (r_items r)) (I (snd e))
        end)
  | VPopItem ti =>
      r_with_tree rw ti (fun r =>
        match r_items r with
        | [] => (rw, Prelude.E eKey)
        | x :: _ => r_mutate rw ti r (del_sorted (fst x) (r_items r)) (L [I (fst x); I (snd x)])
        end)
  | VClear ti | VSClear ti =>
      r_with_tree rw ti (fun r =>
        match r_items r with
        | [] => (rw, N)
        | _ :: _ => r_mutate rw ti r [] N
        end)
  | VSetDefault ti k v =>
      r_with_tree rw ti (fun r =>
        match find_sorted k (r_items r) with
        | Some e => (rw, I (snd e))
        | None => r_mutate rw ti r (ins_sorted (k, v) (r_items r)) (I v)
        end)
  | VUpdate ti k v => r_with_tree rw ti (fun r => r_mutate rw ti r (ins_sorted (k, v) (r_items r)) N)
  | VSRemove ti k =>
      r_with_tree rw ti (fun r =>
        match find_sorted k (r_items r) with
        | None => (rw, Prelude.E eKey)
        | Some _ => r_mutate rw ti r (del_sorted k (r_items r)) N
        end)
  | VSPop ti =>
      r_with_tree rw ti (fun r =>
        match r_items r with
        | [] => (rw, Prelude.E eKey)
        | x :: _ => r_mutate rw ti r (del_sorted (fst x) (r_items r)) (I (fst x))
        end)
  | VDrop ti => r_with_tree rw ti (fun r => (rw, N))
  end.

Fixpoint rsteps (rw : rworld) (xs : list vop) : list obs :=
  match xs with
  | [] => []
  | x :: r => let '(rw', o) := rstep rw x in o :: rsteps rw' r
  end.

(* ---------------------------------------------------------------- the simulation relation *)

Definition tree_rel (b : btree) (r : rtree) : Prop :=
  bwf b /\ elements (b_root b) = r_items r /\ b_t b = r_t r /\ b_immut b = r_immut r /\ b_inorder b = r_inorder r.

Definition cur_rel (w : world) (tc : nat * cursor) (ta : nat * anchor) : Prop :=
  fst tc = fst ta /\ anchor_of (snd tc) = snd ta /\
  exists b, nth_error (w_trees w) (fst tc) = Some b /\ cinv (b_t b) (b_root b) (snd tc).

Definition R (w : world) (rw : rworld) : Prop :=
  Forall2 tree_rel (w_trees w) (rw_trees rw) /\ Forall2 (cur_rel w) (w_cursors w) (rw_cursors rw).

(* ---------------------------------------------------------------- list plumbing *)

Lemma Forall2_nth {A B} (P : A -> B -> Prop) la lb i :
  Forall2 P la lb ->
  match nth_error la i, nth_error lb i with
  | Some a, Some b => P a b
  | None, None => True
  | _, _ => False
  end.
Proof.
  intros H. revert i. induction H; intros [|i]; cbn; auto. apply IHForall2.
Qed.

Lemma Forall2_set_nth {A B} (P : A -> B -> Prop) la lb i a b :
  Forall2 P la lb -> P a b -> Forall2 P (set_nth i a la) (set_nth i b lb).
Proof.
  intros H Hab. revert i. induction H; intros [|i]; cbn; constructor; auto.
Qed.

Lemma Forall2_snoc {A B} (P : A -> B -> Prop) la lb a b :
  Forall2 P la lb -> P a b -> Forall2 P (la ++ [a]) (lb ++ [b]).
Proof. intros H Hab. apply Forall2_app; auto. Qed.

Lemma Forall2_impl' {A B} (P Q : A -> B -> Prop) la lb :
  (forall a b, P a b -> Q a b) -> Forall2 P la lb -> Forall2 Q la lb.
Proof. intros HPQ H. induction H; constructor; auto. Qed.

Lemma nth_set_nth_eq' {A} i (x : A) l : (i < length l)%nat -> nth_error (set_nth i x l) i = Some x.
Proof. revert i. induction l as [|y l IH]; intros [|i] H; cbn in *; try lia; auto. apply IH. lia. Qed.

Lemma nth_set_nth_ne' {A} i j (x : A) l : i <> j -> nth_error (set_nth i x l) j = nth_error l j.
Proof. revert i j. induction l as [|y l IH]; intros [|i] [|j] H; cbn; auto; try congruence. Qed.

Lemma bool_of_bz (b : bool) : bool_of (if b then 1 else 0) = b.
Proof. destruct b; reflexivity. Qed.

(* ---------------------------------------------------------------- anchors, executable *)

Lemma span_lt_ok k l : ksorted l -> pos_ok (AB k) l (fst (span_lt k l)) (snd (span_lt k l)).
Proof.
  induction l as [|e r IH]; cbn [span_lt]; intros Hs.
  - split; [reflexivity|]. split; constructor.
  - destruct Hs as (Hg & Hs). destruct (Z.ltb_spec (fst e) k).
    + destruct (span_lt k r) as [a b] eqn:E. cbn [fst snd] in *. destruct (IH Hs) as (He & Ha & Hb).
      split; [cbn; now rewrite He|]. split; [constructor; assumption|assumption].
    + cbn [fst snd]. split; [reflexivity|]. split; [constructor|].
      constructor; [lia|]. eapply Forall_impl; [|exact Hg]. cbn. intros; lia.
Qed.

Lemma span_le_ok k l : ksorted l -> pos_ok (AA k) l (fst (span_le k l)) (snd (span_le k l)).
Proof.
  induction l as [|e r IH]; cbn [span_le]; intros Hs.
  - split; [reflexivity|]. split; constructor.
  - destruct Hs as (Hg & Hs). destruct (Z.leb_spec (fst e) k).
    + destruct (span_le k r) as [a b] eqn:E. cbn [fst snd] in *. destruct (IH Hs) as (He & Ha & Hb).
      split; [cbn; now rewrite He|]. split; [constructor; assumption|assumption].
    + cbn [fst snd]. split; [reflexivity|]. split; [constructor|].
      constructor; [lia|]. eapply Forall_impl; [|exact Hg]. cbn. intros; lia.
Qed.

Lemma split_anchor_ok a l : ksorted l -> pos_ok a l (fst (split_anchor a l)) (snd (split_anchor a l)).
Proof.
  intros Hs. destruct a; cbn [split_anchor fst snd].
  - split; reflexivity.
  - split; [apply app_nil_r|reflexivity].
  - now apply span_lt_ok.
  - now apply span_le_ok.
Qed.

(* ---------------------------------------------------------------- one step *)

Lemma insert_element_inorder b e io b' o : insert_element b e io = Ok (b', o) -> b_inorder b' = b_inorder b.
Proof.
  unfold insert_element. destruct (b_immut b); [discriminate|].
  destruct (insert_tree (b_t b) io (b_root b) e) as [(r & o')| |]; cbn [bind]; try discriminate.
  intros H; inversion H; reflexivity.
Qed.

Lemma delete_btree_inorder b k ex b' o : delete_btree b k ex = Ok (b', o) -> b_inorder b' = b_inorder b.
Proof.
  unfold delete_btree. destruct (b_immut b); [discriminate|].
  destruct (delete_tree (b_t b) (b_root b) k ex) as [(r & o')| |]; cbn [bind]; try discriminate.
  intros H; inversion H; reflexivity.
Qed.

Lemma R_tree w rw ti :
  R w rw ->
  match nth_error (w_trees w) ti, nth_error (rw_trees rw) ti with
  | Some b, Some r => tree_rel b r
  | None, None => True
  | _, _ => False
  end.
Proof. intros (Ht & _). now apply Forall2_nth. Qed.

(* replacing tree ti (same t) and parking its cursors *)
Lemma R_mutate w rw ti b r b' r' :
  R w rw -> nth_error (w_trees w) ti = Some b -> nth_error (rw_trees rw) ti = Some r ->
  tree_rel b' r' -> b_t b' = b_t b ->
  R (mkW (set_nth ti b' (w_trees w)) (park_all ti (w_cursors w)))
    (mkRW (set_nth ti r' (rw_trees rw)) (rw_cursors rw)).
Proof.
  intros (Ht & Hc) Hb Hr Hrel Htt. split; cbn [w_trees w_cursors rw_trees rw_cursors].
  - now apply Forall2_set_nth.
  - unfold park_all. induction Hc as [|tc ta cs ras Hh Hc IH]; cbn [map]; constructor; [|exact IH].
    destruct Hh as (H1 & H2 & b0 & Hb0 & Hinv). destruct tc as (tj & c). cbn [fst snd] in *.
    destruct (Nat.eqb_spec tj ti) as [->|Hne]; cbn [fst snd].
    + assert (b0 = b) by congruence. subst b0.
      destruct (cursor_park_spec (b_t b) (b_root b) c Hinv) as (Ha & Hall).
      split; [assumption|]. split; [cbn [snd]; rewrite Ha; assumption|]. exists b'. split.
      * cbn [fst w_trees]. apply nth_set_nth_eq'. apply nth_error_Some. rewrite Hb. discriminate.
      * rewrite Htt. apply Hall.
    + split; [assumption|]. split; [assumption|]. exists b0. split; [|assumption].
      cbn [fst w_trees]. rewrite nth_set_nth_ne'; auto.
Qed.

Lemma sim_insert w rw ti b r k v io (wrap : option elt -> obs) :
  R w rw -> nth_error (w_trees w) ti = Some b -> nth_error (rw_trees rw) ti = Some r -> tree_rel b r ->
  let '(w', o) := mutate w ti b (do (b', o) <- insert_element b (k, v) io; Ok (b', wrap o)) in
  let '(rw', o') := r_mutate rw ti r (ins_sorted (k, v) (r_items r)) (wrap (find_sorted k (r_items r))) in
  o = o' /\ R w' rw'.
Proof.
  intros HR Hb Hr (Hbwf & He & Ht & Him & Hio). unfold r_mutate. rewrite <- Him.
  destruct (b_immut b) eqn:Eim.
  - unfold insert_element. rewrite Eim. cbn [bind mutate]. auto.
  - destruct (insert_element_spec_proof b (k, v) io Hbwf Eim) as (b' & Hi & Hbwf' & He' & Him' & Ht').
    rewrite Hi. cbn [bind mutate fst]. rewrite He. split; [reflexivity|].
    eapply R_mutate; eauto. unfold tree_rel, r_set. cbn [r_items r_t r_immut r_inorder].
    repeat split; try (apply Hbwf'); try congruence.
    rewrite (insert_element_inorder _ _ _ _ _ Hi). assumption.
Qed.

Lemma sim_delete w rw ti b r k ex (wrap : dout -> obs) :
  R w rw -> nth_error (w_trees w) ti = Some b -> nth_error (rw_trees rw) ti = Some r -> tree_rel b r ->
  let d := dspec ex (find_sorted k (r_items r)) in
  let '(w', o) := mutate w ti b (do (b', o) <- delete_btree b k ex; Ok (b', wrap o)) in
  let '(rw', o') := r_mutate rw ti r (after_del k d (r_items r)) (wrap d) in
  o = o' /\ R w' rw'.
Proof.
  intros HR Hb Hr (Hbwf & He & Ht & Him & Hio) d. unfold r_mutate. rewrite <- Him.
  destruct (b_immut b) eqn:Eim.
  - unfold delete_btree. rewrite Eim. cbn [bind mutate]. auto.
  - destruct (delete_btree_spec_proof b k ex Hbwf Eim) as (b' & Hi & Hbwf' & He' & Him' & Ht').
    rewrite Hi. cbn [bind mutate fst]. rewrite He. fold d. split; [reflexivity|].
    eapply R_mutate; eauto. unfold tree_rel, r_set. cbn [r_items r_t r_immut r_inorder].
    repeat split; try (apply Hbwf'); try congruence.
    + rewrite He', He. reflexivity.
    + rewrite (delete_btree_inorder _ _ _ _ _ Hi). assumption.
Qed.

Lemma del_sorted_absent k l : find_sorted k l = None -> del_sorted k l = l.
Proof.
  induction l as [|[k' v] r IH]; cbn; [reflexivity|]. destruct (k =? k'); [discriminate|]. intros H. now rewrite IH.
Qed.

(* cursors only look at the trees of the world *)
Lemma cur_rel_trees w w' tc ta : w_trees w = w_trees w' -> cur_rel w tc ta -> cur_rel w' tc ta.
Proof. intros H (H1 & H2 & b & Hb & Hc). split; [assumption|]. split; [assumption|]. exists b. now rewrite <- H. Qed.

Lemma R_cursors w rw cs rcs :
  R w rw -> Forall2 (cur_rel w) cs rcs -> R (mkW (w_trees w) cs) (mkRW (rw_trees rw) rcs).
Proof.
  intros (Ht & _) Hc. split; [exact Ht|]. cbn [w_cursors rw_cursors].
  eapply Forall2_impl'; [|exact Hc]. intros a b. now apply cur_rel_trees.
Qed.

Lemma R_cursor w rw ci :
  R w rw ->
  match nth_error (w_cursors w) ci, nth_error (rw_cursors rw) ci with
  | Some tc, Some ta => cur_rel w tc ta
  | None, None => True
  | _, _ => False
  end.
Proof. intros (_ & Hc). now apply Forall2_nth. Qed.

(* appending a tree *)
Lemma R_append w rw b r :
  R w rw -> tree_rel b r -> R (mkW (w_trees w ++ [b]) (w_cursors w)) (mkRW (rw_trees rw ++ [r]) (rw_cursors rw)).
Proof.
  intros (Ht & Hc) Hrel. split; cbn [w_trees w_cursors rw_trees rw_cursors].
  - now apply Forall2_snoc.
  - eapply Forall2_impl'; [|exact Hc]. intros tc ta (H1 & H2 & b0 & Hb0 & Hinv).
    split; [assumption|]. split; [assumption|]. exists b0. split; [|assumption]. cbn [w_trees].
    rewrite nth_error_app1; [assumption|]. apply nth_error_Some. congruence.
Qed.

(* replacing a tree by one with the same root and t (freeze) *)
Lemma R_same_root w rw ti b b' r' :
  R w rw -> nth_error (w_trees w) ti = Some b -> tree_rel b' r' -> b_t b' = b_t b -> b_root b' = b_root b ->
  R (mkW (set_nth ti b' (w_trees w)) (w_cursors w)) (mkRW (set_nth ti r' (rw_trees rw)) (rw_cursors rw)).
Proof.
  intros (Ht & Hc) Hb Hrel Htt Hrr. split; cbn [w_trees w_cursors rw_trees rw_cursors].
  - now apply Forall2_set_nth.
  - eapply Forall2_impl'; [|exact Hc]. intros tc ta (H1 & H2 & b0 & Hb0 & Hinv).
    split; [assumption|]. split; [assumption|]. cbn [w_trees].
    destruct (Nat.eq_dec ti (fst tc)) as [Heq|Hne].
    + exists b'. subst ti. assert (b0 = b) by congruence. subst b0. split.
      * apply nth_set_nth_eq'. apply nth_error_Some. rewrite Hb. discriminate.
      * now rewrite Htt, Hrr.
    + exists b0. split; [|assumption]. now rewrite nth_set_nth_ne'.
Qed.

Lemma wf_empty t : (3 <= t)%nat -> wf t (Node true [] []).
Proof.
  intros Ht. split; [assumption|]. split; [|exact Logic.I]. exists 1%nat. unfold wfr, root_lo. cbn.
  constructor. cbn. lia.
Qed.

Lemma iter_loop_spec t root : wf t root -> forall aft fuel c bef acc,
  cinv t root c -> pos_ok (anchor_of c) (elements root) bef aft -> (length aft < fuel)%nat ->
  iter_loop fuel root c acc = Ok (rev acc ++ map fst aft).
Proof.
  intros Hwf. pose proof Hwf as (Ht & _ & Hs).
  induction aft as [|x aft IH]; intros fuel c bef acc Hinv Hpos Hf; (destruct fuel as [|f]; [cbn in Hf; lia|]).
  - cbn [iter_loop]. destruct (cursor_next_proof t root c Hwf Hinv) as (bef0 & aft0 & c' & Hp0 & Hn & _).
    destruct (pos_ok_unique _ _ _ _ _ _ Hs Hp0 Hpos) as (-> & ->). rewrite Hn. cbn [bind hd_error map]. now rewrite app_nil_r.
  - cbn [iter_loop]. destruct (cursor_next_proof t root c Hwf Hinv) as (bef0 & aft0 & c' & Hp0 & Hn & Hinv' & _ & Han).
    destruct (pos_ok_unique _ _ _ _ _ _ Hs Hp0 Hpos) as (-> & ->). rewrite Hn. cbn [bind hd_error].
    rewrite (IH f c' (bef ++ [x]) (fst x :: acc) Hinv').
    + cbn [rev map]. now rewrite <- app_assoc.
    + rewrite Han. destruct Hpos as (He & _). split; [rewrite <- He; now rewrite <- app_assoc|].
      apply (sorted_after t Ht (elements root) bef x aft Hs). now symmetry.
    + cbn in Hf. lia.
Qed.

Lemma first_element_spec b : bwf b -> first_element b = Ok (hd_error (elements (b_root b))).
Proof.
  intros (Hwf & _). pose proof Hwf as (_ & _ & Hs). unfold first_element.
  destruct (cursor_next_proof (b_t b) (b_root b) new_cursor Hwf) as (bef & aft & c' & Hp & -> & _).
  { apply (cursor_boundary_proof (b_t b) (b_root b) new_cursor). }
  destruct Hp as (He & Hb). cbn in Hb. subst bef. cbn in He. subst aft. reflexivity.
Qed.

Lemma find_sorted_hd x l : find_sorted (fst x) (x :: l) = Some x.
Proof. destruct x as [k v]. cbn. now rewrite Z.eqb_refl. Qed.

Lemma del_sorted_hd x l : del_sorted (fst x) (x :: l) = l.
Proof. destruct x as [k v]. cbn. now rewrite Z.eqb_refl. Qed.

Lemma get_element_spec b k : bwf b -> get_element b k = Ok (find_sorted k (elements (b_root b))).
Proof. intros (Hwf & _). apply (lookup_spec_proof (b_t b)). exact Hwf. Qed.

(* clear(): every element is popped *)
Lemma clear_loop_spec : forall l fuel b,
  bwf b -> b_immut b = false -> elements (b_root b) = l -> (length l < fuel)%nat ->
  exists b', clear_loop fuel b = Ok b' /\ bwf b' /\ elements (b_root b') = [] /\
             b_immut b' = false /\ b_t b' = b_t b /\ b_inorder b' = b_inorder b.
Proof.
  induction l as [|x l IH]; intros fuel b Hb Him He Hf; (destruct fuel as [|f]; [cbn in Hf; lia|]); cbn [clear_loop].
  - rewrite (first_element_spec b Hb), He. cbn [bind hd_error]. exists b. auto 10.
  - rewrite (first_element_spec b Hb), He. cbn [bind hd_error].
    rewrite (get_element_spec b _ Hb), He, find_sorted_hd. cbn [bind].
    destruct (delete_btree_spec_proof b (fst x) None Hb Him) as (b' & Hd & Hb' & He' & Him' & Ht').
    rewrite He, find_sorted_hd in Hd, He'. cbn [dspec after_del] in Hd, He'. rewrite del_sorted_hd in He'.
    rewrite Hd. cbn [bind].
    destruct (IH f b' Hb' Him' He' ltac:(cbn in Hf; lia)) as (b2 & Hr & Hb2 & He2 & Him2 & Ht2 & Hio2).
    exists b2. split; [assumption|]. split; [assumption|]. split; [assumption|]. split; [assumption|].
    split; [congruence|]. rewrite Hio2. eapply delete_btree_inorder; eauto.
Qed.

Lemma sclear_loop_spec : forall l fuel b,
  bwf b -> b_immut b = false -> elements (b_root b) = l -> (length l < fuel)%nat ->
  exists b', sclear_loop fuel b = Ok b' /\ bwf b' /\ elements (b_root b') = [] /\
             b_immut b' = false /\ b_t b' = b_t b /\ b_inorder b' = b_inorder b.
Proof.
  induction l as [|x l IH]; intros fuel b Hb Him He Hf; (destruct fuel as [|f]; [cbn in Hf; lia|]); cbn [sclear_loop].
  - rewrite (first_element_spec b Hb), He. cbn [bind hd_error]. exists b. auto 10.
  - rewrite (first_element_spec b Hb), He. cbn [bind hd_error].
    destruct (delete_btree_spec_proof b (fst x) None Hb Him) as (b' & Hd & Hb' & He' & Him' & Ht').
    rewrite He, find_sorted_hd in Hd, He'. cbn [dspec after_del] in Hd, He'. rewrite del_sorted_hd in He'.
    rewrite Hd. cbn [bind].
    destruct (IH f b' Hb' Him' He' ltac:(cbn in Hf; lia)) as (b2 & Hr & Hb2 & He2 & Him2 & Ht2 & Hio2).
    exists b2. split; [assumption|]. split; [assumption|]. split; [assumption|]. split; [assumption|].
    split; [congruence|]. rewrite Hio2. eapply delete_btree_inorder; eauto.
Qed.

(* a mutation described by its effect on an unfrozen tree and rejected by a frozen one *)
Lemma sim_mutate_gen w rw ti b r (comp : res (btree * obs)) items' o :
  R w rw -> nth_error (w_trees w) ti = Some b -> nth_error (rw_trees rw) ti = Some r -> tree_rel b r ->
  (b_immut b = true -> comp = Lib eImmutable) ->
  (b_immut b = false -> exists b', comp = Ok (b', o) /\ tree_rel b' (r_set r items') /\ b_t b' = b_t b) ->
  let '(w', o1) := mutate w ti b comp in
  let '(rw', o2) := r_mutate rw ti r items' o in
  o1 = o2 /\ R w' rw'.
Proof.
  intros HR Hb Hr Hrel Hfro Hok. pose proof Hrel as (_ & _ & _ & Him & _). unfold r_mutate. rewrite <- Him.
  destruct (b_immut b) eqn:Eim.
  - rewrite (Hfro eq_refl). cbn [mutate]. auto.
  - destruct (Hok eq_refl) as (b' & -> & Hrel' & Ht'). cbn [mutate]. split; [reflexivity|].
    eapply R_mutate; eauto.
Qed.

Lemma clear_frozen b x l fuel :
  bwf b -> b_immut b = true -> elements (b_root b) = x :: l ->
  clear_loop (S fuel) b = Lib eImmutable /\ sclear_loop (S fuel) b = Lib eImmutable.
Proof.
  intros Hb Him He. cbn [clear_loop sclear_loop]. rewrite (first_element_spec b Hb), He. cbn [bind hd_error].
  rewrite (get_element_spec b _ Hb), He, find_sorted_hd. cbn [bind]. unfold delete_btree. rewrite Him. auto.
Qed.

Lemma minimum_root t root : wf t root ->
  minimum root = match elements root with e :: _ => Ok e | [] => Internal eIndex end.
Proof.
  intros (Ht & (h & Hw) & _). unfold wfr, root_lo in Hw. destruct root as [lf es ks]. destruct lf.
  - cbn. destruct es; reflexivity.
  - cbn [n_leaf] in Hw. destruct (minimum_spec t Ht h 1 _ Hw (le_n _)) as (e & rest & -> & ->). reflexivity.
Qed.

Lemma last_max_snoc : forall ks' k,
  (fix last_max (l : list tree) : res elt :=
     match l with [] => Internal eIndex | [k] => maximum k | _ :: r => last_max r end) (ks' ++ [k]) = maximum k.
Proof. induction ks' as [|a ks' IH]; intros k; [reflexivity|]. cbn [app]. destruct (ks' ++ [k]) eqn:E; [destruct ks'; discriminate|]. rewrite <- (IH k). rewrite E. reflexivity. Qed.

Lemma maximum_spec t : (3 <= t)%nat -> forall h lo n, wfn t lo h n -> (1 <= lo)%nat ->
  exists e front, maximum n = Ok e /\ elements n = front ++ [e].
Proof.
  intros Ht. induction h as [|h IH]; intros lo [lf es ks] Hw Hlo.
  { pose proof (wfn_pos t Ht _ _ _ Hw). lia. }
  apply wfn_inv in Hw as (Hb & [(-> & Hh & ->)|(-> & h' & Hh & Hk & Hall)]).
  - destruct (exists_last (l := es)) as (front & e & ->); [destruct es; [cbn in Hb; lia|discriminate]|].
    exists e, front. cbn [maximum elements]. rewrite rev_app_distr. split; reflexivity.
  - inversion Hh; subst h'.
    destruct (exists_last (l := ks)) as (ks' & k & ->); [destruct ks; [discriminate|discriminate]|].
    apply Forall_app in Hall as (_ & Hk1). inversion Hk1; subst.
    assert (Hm : (1 <= t_min t)%nat) by (unfold t_min; lia).
    destruct (IH _ k H1 Hm) as (e & front & Hmax & He).
    exists e, (zipl ks' es ++ front). cbn [maximum]. rewrite last_max_snoc. split; [exact Hmax|].
    assert (Hl : length ks' = length es) by (rewrite app_length in Hk; cbn in Hk; lia).
    pose proof (elements_split es [] ks' k [] Hl eq_refl) as Hsp. rewrite app_nil_r in Hsp.
    rewrite Hsp. cbn [zipr]. rewrite He, app_nil_r, app_assoc. reflexivity.
Qed.

Lemma maximum_root t root : wf t root ->
  maximum root = match rev (elements root) with e :: _ => Ok e | [] => Internal eIndex end.
Proof.
  intros (Ht & (h & Hw) & _). unfold wfr, root_lo in Hw. destruct root as [lf es ks]. destruct lf.
  - cbn. destruct (rev es); reflexivity.
  - cbn [n_leaf] in Hw. destruct (maximum_spec t Ht h 1 _ Hw (le_n _)) as (e & front & -> & ->).
    rewrite rev_app_distr. reflexivity.
Qed.

Theorem step_sim w rw x :
  R w rw ->
  let '(w', o) := step w (enc x) in
  let '(rw', o') := rstep rw x in
  o = o' /\ R w' rw'.
Proof.
  intros HR. destruct x; cbn [enc step rstep nz bz]; unfold with_tree, r_with_tree, with_cursor, r_with_cursor;
    rewrite ?Nat2Z.id, ?bool_of_bz.
  - (* new *) unfold new_btree. destruct (t <? 3)%nat eqn:Et; [cbn; auto|].
    cbn [obs_err]. split; [reflexivity|]. apply R_append; [assumption|].
    apply Nat.ltb_ge in Et. unfold tree_rel, bwf.
    cbn [b_t b_root b_size b_immut b_inorder r_t r_items r_immut r_inorder elements]. split_ands; try reflexivity. now apply wf_empty.
  - (* new set *) unfold new_btree. destruct (t <? 3)%nat eqn:Et; [cbn; auto|].
    cbn [obs_err]. split; [reflexivity|]. apply R_append; [assumption|].
    apply Nat.ltb_ge in Et. unfold tree_rel, bwf.
    cbn [b_t b_root b_size b_immut b_inorder r_t r_items r_immut r_inorder elements]. split_ands; try reflexivity. now apply wf_empty.
  - (* insert *) pose proof (R_tree w rw ti HR) as Ht.
    destruct (nth_error (w_trees w) ti) as [b|] eqn:Eb, (nth_error (rw_trees rw) ti) as [r|] eqn:Er; try contradiction; [|auto].
    exact (sim_insert w rw ti b r k v io obs_of_oelt HR Eb Er Ht).
  - (* delete_key *) pose proof (R_tree w rw ti HR) as Ht.
    destruct (nth_error (w_trees w) ti) as [b|] eqn:Eb, (nth_error (rw_trees rw) ti) as [r|] eqn:Er; try contradiction; [|auto].
    exact (sim_delete w rw ti b r k None obs_of_dout HR Eb Er Ht).
  - (* delete_exact *) pose proof (R_tree w rw ti HR) as Ht.
    destruct (nth_error (w_trees w) ti) as [b|] eqn:Eb, (nth_error (rw_trees rw) ti) as [r|] eqn:Er; try contradiction; [|auto].
    exact (sim_delete w rw ti b r k (Some v) obs_of_dout HR Eb Er Ht).
  - (* get *) pose proof (R_tree w rw ti HR) as Ht.
    destruct (nth_error (w_trees w) ti) as [b|] eqn:Eb, (nth_error (rw_trees rw) ti) as [r|] eqn:Er; try contradiction; [|auto].
    destruct Ht as ((Hwf & Hsz) & He & _). unfold get_element. rewrite (lookup_spec_proof _ _ k Hwf), He. auto.
  - (* len *) pose proof (R_tree w rw ti HR) as Ht.
    destruct (nth_error (w_trees w) ti) as [b|] eqn:Eb, (nth_error (rw_trees rw) ti) as [r|] eqn:Er; try contradiction; [|auto].
    destruct Ht as ((Hwf & Hsz) & He & _). rewrite Hsz, He. auto.
  - (* items *) pose proof (R_tree w rw ti HR) as Ht.
    destruct (nth_error (w_trees w) ti) as [b|] eqn:Eb, (nth_error (rw_trees rw) ti) as [r|] eqn:Er; try contradiction; [|auto].
    destruct Ht as (_ & He & _). rewrite He. auto.
  - (* iter *) pose proof (R_tree w rw ti HR) as Ht.
    destruct (nth_error (w_trees w) ti) as [b|] eqn:Eb, (nth_error (rw_trees rw) ti) as [r|] eqn:Er; try contradiction; [|auto].
    destruct Ht as ((Hwf & Hsz) & He & _).
    rewrite (iter_loop_spec (b_t b) (b_root b) Hwf (elements (b_root b)) _ new_cursor [] []).
    + cbn [rev app]. rewrite He, map_map. auto.
    + apply (cursor_boundary_proof (b_t b) (b_root b) new_cursor).
    + split; reflexivity.
    + rewrite Hsz. unfold zlen. rewrite Nat2Z.id. lia.
  - (* freeze *) pose proof (R_tree w rw ti HR) as Ht.
    destruct (nth_error (w_trees w) ti) as [b|] eqn:Eb, (nth_error (rw_trees rw) ti) as [r|] eqn:Er; try contradiction; [|auto].
    split; [reflexivity|]. eapply R_same_root; eauto.
    destruct Ht as ((Hwf & Hsz) & He & Htt & Him & Hio). unfold tree_rel, bwf, make_immutable. cbn. auto 10.
  - (* clone *) pose proof (R_tree w rw ti HR) as Ht.
    destruct (nth_error (w_trees w) ti) as [b|] eqn:Eb, (nth_error (rw_trees rw) ti) as [r|] eqn:Er; try contradiction; [|auto].
    destruct Ht as ((Hwf & Hsz) & He & Htt & Him & Hio). unfold clone_btree. rewrite <- Him.
    destruct (b_immut b); [|cbn; auto]. split; [reflexivity|]. apply R_append; [assumption|].
    unfold tree_rel, bwf. cbn. auto 10.
  - (* copy *) pose proof (R_tree w rw ti HR) as Ht.
    destruct (nth_error (w_trees w) ti) as [b|] eqn:Eb, (nth_error (rw_trees rw) ti) as [r|] eqn:Er; try contradiction; [|auto].
    destruct Ht as ((Hwf & Hsz) & He & Htt & Him & Hio). unfold clone_btree. rewrite <- Him.
    destruct (b_immut b); [|cbn; auto]. split; [reflexivity|]. apply R_append; [assumption|].
    unfold tree_rel, bwf. cbn. auto 10.
  - (* cursor() *) pose proof (R_tree w rw ti HR) as Ht.
    destruct (nth_error (w_trees w) ti) as [b|] eqn:Eb, (nth_error (rw_trees rw) ti) as [r|] eqn:Er; try contradiction; [|auto].
    split; [reflexivity|]. apply R_cursors; [assumption|]. apply Forall2_snoc; [apply HR|].
    split; [reflexivity|]. split; [reflexivity|]. exists b. split; [assumption|].
    apply (cursor_boundary_proof (b_t b) (b_root b) new_cursor).
  - (* seek *) pose proof (R_cursor w rw ci HR) as Hc.
    destruct (nth_error (w_cursors w) ci) as [(tj & c)|] eqn:Ec, (nth_error (rw_cursors rw) ci) as [(tj' & a)|] eqn:Ea; try contradiction; [|auto].
    destruct Hc as (H1 & H2 & b & Hb & Hinv). cbn [fst snd] in *. subst tj'. rewrite Hb.
    pose proof (R_tree w rw tj HR) as Ht. rewrite Hb in Ht.
    destruct (nth_error (rw_trees rw) tj) as [r|] eqn:Er; [|contradiction].
    destruct Ht as ((Hwf & Hsz) & He & _).
    destruct (cursor_seek_proof (b_t b) (b_root b) k before Hwf) as (c' & -> & Hinv' & _ & Han).
    split; [reflexivity|]. apply R_cursors; [assumption|]. apply Forall2_set_nth; [apply HR|].
    split; [reflexivity|]. split; [exact Han|]. exists b. auto.
  - (* seek_first *) pose proof (R_cursor w rw ci HR) as Hc.
    destruct (nth_error (w_cursors w) ci) as [(tj & c)|] eqn:Ec, (nth_error (rw_cursors rw) ci) as [(tj' & a)|] eqn:Ea; try contradiction; [|auto].
    destruct Hc as (H1 & H2 & b & Hb & Hinv). cbn [fst snd] in *. subst tj'. rewrite Hb.
    pose proof (R_tree w rw tj HR) as Ht. rewrite Hb in Ht.
    destruct (nth_error (rw_trees rw) tj) as [r|] eqn:Er; [|contradiction].
    split; [reflexivity|]. apply R_cursors; [assumption|]. apply Forall2_set_nth; [apply HR|].
    split; [reflexivity|]. split; [reflexivity|]. exists b. split; [assumption|].
    apply (cursor_boundary_proof (b_t b) (b_root b) c).
  - (* seek_last *) pose proof (R_cursor w rw ci HR) as Hc.
    destruct (nth_error (w_cursors w) ci) as [(tj & c)|] eqn:Ec, (nth_error (rw_cursors rw) ci) as [(tj' & a)|] eqn:Ea; try contradiction; [|auto].
    destruct Hc as (H1 & H2 & b & Hb & Hinv). cbn [fst snd] in *. subst tj'. rewrite Hb.
    pose proof (R_tree w rw tj HR) as Ht. rewrite Hb in Ht.
    destruct (nth_error (rw_trees rw) tj) as [r|] eqn:Er; [|contradiction].
    split; [reflexivity|]. apply R_cursors; [assumption|]. apply Forall2_set_nth; [apply HR|].
    split; [reflexivity|]. split; [reflexivity|]. exists b. split; [assumption|].
    apply (cursor_boundary_proof (b_t b) (b_root b) c).
  - (* next *) pose proof (R_cursor w rw ci HR) as Hc.
    destruct (nth_error (w_cursors w) ci) as [(tj & c)|] eqn:Ec, (nth_error (rw_cursors rw) ci) as [(tj' & a)|] eqn:Ea; try contradiction; [|auto].
    destruct Hc as (H1 & H2 & b & Hb & Hinv). cbn [fst snd] in *. subst tj' a. rewrite Hb.
    pose proof (R_tree w rw tj HR) as Ht. rewrite Hb in Ht.
    destruct (nth_error (rw_trees rw) tj) as [r|] eqn:Er; [|contradiction].
    destruct Ht as ((Hwf & Hsz) & He & _). pose proof Hwf as (_ & _ & Hs).
    destruct (cursor_next_proof (b_t b) (b_root b) c Hwf Hinv) as (bef & aft & c' & Hp & -> & Hinv' & _ & Han).
    destruct (pos_ok_unique _ _ _ _ _ _ Hs Hp (split_anchor_ok (anchor_of c) _ Hs)) as (Hb1 & Ha1).
    rewrite <- He, <- Ha1.
    destruct aft as [|x aft']; cbn [hd_error obs_of_oelt].
    + split; [reflexivity|]. apply R_cursors; [assumption|]. apply Forall2_set_nth; [apply HR|].
      split; [reflexivity|]. split; [exact Han|]. exists b. auto.
    + split; [reflexivity|]. apply R_cursors; [assumption|]. apply Forall2_set_nth; [apply HR|].
      split; [reflexivity|]. split; [exact Han|]. exists b. auto.
  - (* prev *) pose proof (R_cursor w rw ci HR) as Hc.
    destruct (nth_error (w_cursors w) ci) as [(tj & c)|] eqn:Ec, (nth_error (rw_cursors rw) ci) as [(tj' & a)|] eqn:Ea; try contradiction; [|auto].
    destruct Hc as (H1 & H2 & b & Hb & Hinv). cbn [fst snd] in *. subst tj' a. rewrite Hb.
    pose proof (R_tree w rw tj HR) as Ht. rewrite Hb in Ht.
    destruct (nth_error (rw_trees rw) tj) as [r|] eqn:Er; [|contradiction].
    destruct Ht as ((Hwf & Hsz) & He & _). pose proof Hwf as (_ & _ & Hs).
    destruct (cursor_prev_proof (b_t b) (b_root b) c Hwf Hinv) as (bef & aft & c' & Hp & -> & Hinv' & _ & Han).
    destruct (pos_ok_unique _ _ _ _ _ _ Hs Hp (split_anchor_ok (anchor_of c) _ Hs)) as (Hb1 & Ha1).
    rewrite <- He, <- Hb1.
    destruct (rev bef) as [|x bef']; cbn [hd_error obs_of_oelt].
    + split; [reflexivity|]. apply R_cursors; [assumption|]. apply Forall2_set_nth; [apply HR|].
      split; [reflexivity|]. split; [exact Han|]. exists b. auto.
    + split; [reflexivity|]. apply R_cursors; [assumption|]. apply Forall2_set_nth; [apply HR|].
      split; [reflexivity|]. split; [exact Han|]. exists b. auto.
  - (* d[k] = v *) pose proof (R_tree w rw ti HR) as Ht.
    destruct (nth_error (w_trees w) ti) as [b|] eqn:Eb, (nth_error (rw_trees rw) ti) as [r|] eqn:Er; try contradiction; [|auto].
    exact (sim_insert w rw ti b r k v (b_inorder b) (fun _ => N) HR Eb Er Ht).
  - (* d[k] *) pose proof (R_tree w rw ti HR) as Ht.
    destruct (nth_error (w_trees w) ti) as [b|] eqn:Eb, (nth_error (rw_trees rw) ti) as [r|] eqn:Er; try contradiction; [|auto].
    destruct Ht as ((Hwf & Hsz) & He & _). unfold get_element. rewrite (lookup_spec_proof _ _ k Hwf), He.
    destruct (find_sorted k (r_items r)); auto.
  - (* del d[k] *) pose proof (R_tree w rw ti HR) as Ht.
    destruct (nth_error (w_trees w) ti) as [b|] eqn:Eb, (nth_error (rw_trees rw) ti) as [r|] eqn:Er; try contradiction; [|auto].
    pose proof (sim_delete w rw ti b r k None (fun o => match o with DDel _ => N | _ => Prelude.E eKey end) HR Eb Er Ht) as Hsim.
    cbn zeta in Hsim. cbn [dspec] in Hsim.
    destruct (find_sorted k (r_items r)) eqn:Ef; cbn [after_del] in Hsim; [exact Hsim|].
    rewrite (del_sorted_absent _ _ Ef). exact Hsim.
  - (* add *) pose proof (R_tree w rw ti HR) as Ht.
    destruct (nth_error (w_trees w) ti) as [b|] eqn:Eb, (nth_error (rw_trees rw) ti) as [r|] eqn:Er; try contradiction; [|auto].
    exact (sim_insert w rw ti b r k 0 (b_inorder b) (fun _ => N) HR Eb Er Ht).
  - (* discard *) pose proof (R_tree w rw ti HR) as Ht.
    destruct (nth_error (w_trees w) ti) as [b|] eqn:Eb, (nth_error (rw_trees rw) ti) as [r|] eqn:Er; try contradiction; [|auto].
    pose proof (sim_delete w rw ti b r k None (fun _ => N) HR Eb Er Ht) as Hsim.
    cbn zeta in Hsim. cbn [dspec] in Hsim.
    destruct (find_sorted k (r_items r)) eqn:Ef; cbn [after_del] in Hsim; [exact Hsim|].
    rewrite (del_sorted_absent _ _ Ef). exact Hsim.
  - (* in *) pose proof (R_tree w rw ti HR) as Ht.
    destruct (nth_error (w_trees w) ti) as [b|] eqn:Eb, (nth_error (rw_trees rw) ti) as [r|] eqn:Er; try contradiction; [|auto].
    destruct Ht as ((Hwf & Hsz) & He & _). unfold get_element. rewrite (lookup_spec_proof _ _ k Hwf), He.
    destruct (find_sorted k (r_items r)); auto.
  - (* iterator open *) pose proof (R_tree w rw ti HR) as Ht.
    destruct (nth_error (w_trees w) ti) as [b|] eqn:Eb, (nth_error (rw_trees rw) ti) as [r|] eqn:Er; try contradiction; [|auto].
    split; [reflexivity|]. apply R_cursors; [assumption|]. apply Forall2_snoc; [apply HR|].
    split; [reflexivity|]. split; [reflexivity|]. exists b. split; [assumption|].
    apply (cursor_boundary_proof (b_t b) (b_root b) new_cursor).
  - (* iterator step *) pose proof (R_cursor w rw ci HR) as Hc.
    destruct (nth_error (w_cursors w) ci) as [(tj & c)|] eqn:Ec, (nth_error (rw_cursors rw) ci) as [(tj' & a)|] eqn:Ea; try contradiction; [|auto].
    destruct Hc as (H1 & H2 & b & Hb & Hinv). cbn [fst snd] in *. subst tj' a. rewrite Hb.
    pose proof (R_tree w rw tj HR) as Ht. rewrite Hb in Ht.
    destruct (nth_error (rw_trees rw) tj) as [r|] eqn:Er; [|contradiction].
    destruct Ht as ((Hwf & Hsz) & He & _). pose proof Hwf as (_ & _ & Hs).
    destruct (cursor_next_proof (b_t b) (b_root b) c Hwf Hinv) as (bef & aft & c' & Hp & -> & Hinv' & _ & Han).
    destruct (pos_ok_unique _ _ _ _ _ _ Hs Hp (split_anchor_ok (anchor_of c) _ Hs)) as (Hb1 & Ha1).
    rewrite <- He, <- Ha1.
    destruct aft as [|x aft']; cbn [hd_error obs_of_iter].
    + split; [reflexivity|]. apply R_cursors; [assumption|]. apply Forall2_set_nth; [apply HR|].
      split; [reflexivity|]. split; [exact Han|]. exists b. auto.
    + split; [reflexivity|]. apply R_cursors; [assumption|]. apply Forall2_set_nth; [apply HR|].
      split; [reflexivity|]. split; [exact Han|]. exists b. auto.
  - (* minimum *) pose proof (R_tree w rw ti HR) as Ht.
    destruct (nth_error (w_trees w) ti) as [b|] eqn:Eb, (nth_error (rw_trees rw) ti) as [r|] eqn:Er; try contradiction; [|auto].
    pose proof Ht as (Hbwf & He & Htt & Him & Hio).
    destruct Hbwf as (Hwf & _). rewrite (minimum_root _ _ Hwf), He. destruct (r_items r); cbn; auto.
  - (* maximum *) pose proof (R_tree w rw ti HR) as Ht.
    destruct (nth_error (w_trees w) ti) as [b|] eqn:Eb, (nth_error (rw_trees rw) ti) as [r|] eqn:Er; try contradiction; [|auto].
    pose proof Ht as (Hbwf & He & Htt & Him & Hio).
    destruct Hbwf as (Hwf & _). rewrite (maximum_root _ _ Hwf), He. destruct (rev (r_items r)); cbn; auto.
  - (* pop *) pose proof (R_tree w rw ti HR) as Ht.
    destruct (nth_error (w_trees w) ti) as [b|] eqn:Eb, (nth_error (rw_trees rw) ti) as [r|] eqn:Er; try contradiction; [|auto].
    pose proof Ht as (Hbwf & He & Htt & Him & Hio).
    rewrite (get_element_spec b k Hbwf), He.
    destruct (find_sorted k (r_items r)) as [e|] eqn:Ef; [|auto].
    pose proof (sim_delete w rw ti b r k None (fun d => match d with DDel _ => I (snd e) | _ => Prelude.E eKey end) HR Eb Er Ht) as Hsim.
    cbn zeta in Hsim. rewrite Ef in Hsim. cbn [dspec after_del] in Hsim. exact Hsim.
  - (* popitem *) pose proof (R_tree w rw ti HR) as Ht.
    destruct (nth_error (w_trees w) ti) as [b|] eqn:Eb, (nth_error (rw_trees rw) ti) as [r|] eqn:Er; try contradiction; [|auto].
    pose proof Ht as (Hbwf & He & Htt & Him & Hio).
    rewrite (first_element_spec b Hbwf), He.
    destruct (r_items r) as [|x l] eqn:Ei; cbn [hd_error]; [auto|].
    rewrite (get_element_spec b _ Hbwf), He, find_sorted_hd.
    pose proof (sim_delete w rw ti b r (fst x) None (fun d => match d with DDel _ => L [I (fst x); I (snd x)] | _ => Prelude.E eKey end) HR Eb Er Ht) as Hsim.
    cbn zeta in Hsim. rewrite Ei, find_sorted_hd in Hsim. cbn [dspec after_del] in Hsim. exact Hsim.
  - (* clear *) pose proof (R_tree w rw ti HR) as Ht.
    destruct (nth_error (w_trees w) ti) as [b|] eqn:Eb, (nth_error (rw_trees rw) ti) as [r|] eqn:Er; try contradiction; [|auto].
    pose proof Ht as (Hbwf & He & Htt & Him & Hio).
    rewrite (first_element_spec b Hbwf), He.
    destruct (r_items r) as [|x l] eqn:Ei; cbn [hd_error]; [auto|].
    apply (sim_mutate_gen w rw ti b r _ [] N HR Eb Er Ht).
    + intros Hf. destruct (clear_frozen b x l (Z.to_nat (b_size b)) Hbwf Hf He) as (-> & _). reflexivity.
    + intros Hf. destruct (clear_loop_spec (x :: l) (S (Z.to_nat (b_size b))) b Hbwf Hf He) as (b' & -> & Hb' & He' & Him' & Ht' & Hio').
      { destruct Hbwf as (_ & Hsz). rewrite Hsz, He. unfold zlen. rewrite Nat2Z.id. lia. }
      cbn [bind]. exists b'. split; [reflexivity|]. split; [|assumption].
      unfold tree_rel, r_set. cbn [r_items r_t r_immut r_inorder]. repeat split; try (apply Hb'); congruence.
  - (* setdefault *) pose proof (R_tree w rw ti HR) as Ht.
    destruct (nth_error (w_trees w) ti) as [b|] eqn:Eb, (nth_error (rw_trees rw) ti) as [r|] eqn:Er; try contradiction; [|auto].
    pose proof Ht as (Hbwf & He & Htt & Him & Hio).
    rewrite (get_element_spec b k Hbwf), He.
    destruct (find_sorted k (r_items r)) as [e|] eqn:Ef; [auto|].
    pose proof (sim_insert w rw ti b r k v (b_inorder b) (fun _ => I v) HR Eb Er Ht) as Hsim. exact Hsim.
  - (* update *) pose proof (R_tree w rw ti HR) as Ht.
    destruct (nth_error (w_trees w) ti) as [b|] eqn:Eb, (nth_error (rw_trees rw) ti) as [r|] eqn:Er; try contradiction; [|auto].
    pose proof Ht as (Hbwf & He & Htt & Him & Hio).
    exact (sim_insert w rw ti b r k v (b_inorder b) (fun _ => N) HR Eb Er Ht).
  - (* set remove *) pose proof (R_tree w rw ti HR) as Ht.
    destruct (nth_error (w_trees w) ti) as [b|] eqn:Eb, (nth_error (rw_trees rw) ti) as [r|] eqn:Er; try contradiction; [|auto].
    pose proof Ht as (Hbwf & He & Htt & Him & Hio).
    rewrite (get_element_spec b k Hbwf), He.
    destruct (find_sorted k (r_items r)) as [e|] eqn:Ef; [|auto].
    pose proof (sim_delete w rw ti b r k None (fun _ => N) HR Eb Er Ht) as Hsim.
    cbn zeta in Hsim. rewrite Ef in Hsim. cbn [dspec after_del] in Hsim. exact Hsim.
  - (* set pop *) pose proof (R_tree w rw ti HR) as Ht.
    destruct (nth_error (w_trees w) ti) as [b|] eqn:Eb, (nth_error (rw_trees rw) ti) as [r|] eqn:Er; try contradiction; [|auto].
    pose proof Ht as (Hbwf & He & Htt & Him & Hio).
    rewrite (first_element_spec b Hbwf), He.
    destruct (r_items r) as [|x l] eqn:Ei; cbn [hd_error]; [auto|].
    pose proof (sim_delete w rw ti b r (fst x) None (fun _ => I (fst x)) HR Eb Er Ht) as Hsim.
    cbn zeta in Hsim. rewrite Ei, find_sorted_hd in Hsim. cbn [dspec after_del] in Hsim. exact Hsim.
  - (* set clear *) pose proof (R_tree w rw ti HR) as Ht.
    destruct (nth_error (w_trees w) ti) as [b|] eqn:Eb, (nth_error (rw_trees rw) ti) as [r|] eqn:Er; try contradiction; [|auto].
    pose proof Ht as (Hbwf & He & Htt & Him & Hio).
    rewrite (first_element_spec b Hbwf), He.
    destruct (r_items r) as [|x l] eqn:Ei; cbn [hd_error]; [auto|].
    apply (sim_mutate_gen w rw ti b r _ [] N HR Eb Er Ht).
    + intros Hf. destruct (clear_frozen b x l (Z.to_nat (b_size b)) Hbwf Hf He) as (_ & ->). reflexivity.
    + intros Hf. destruct (sclear_loop_spec (x :: l) (S (Z.to_nat (b_size b))) b Hbwf Hf He) as (b' & -> & Hb' & He' & Him' & Ht' & Hio').
      { destruct Hbwf as (_ & Hsz). rewrite Hsz, He. unfold zlen. rewrite Nat2Z.id. lia. }
      cbn [bind]. exists b'. split; [reflexivity|]. split; [|assumption].
      unfold tree_rel, r_set. cbn [r_items r_t r_immut r_inorder]. repeat split; try (apply Hb'); congruence.
  - (* the handle is dropped *) pose proof (R_tree w rw ti HR) as Ht.
    destruct (nth_error (w_trees w) ti) as [b|] eqn:Eb, (nth_error (rw_trees rw) ti) as [r|] eqn:Er; try contradiction; auto.
Qed.

(* ---------------------------------------------------------------- whole histories *)

Lemma R_empty : R (mkW [] []) (mkRW [] []).
Proof. split; constructor. Qed.

Lemma steps_sim xs : forall w rw, R w rw -> steps w (map enc xs) = rsteps rw xs.
Proof.
  induction xs as [|x r IH]; intros w rw HR; [reflexivity|].
  cbn [map steps rsteps]. pose proof (step_sim w rw x HR) as Hs.
  destruct (step w (enc x)) as (w' & o). destruct (rstep rw x) as (rw' & o'). destruct Hs as (-> & HR').
  f_equal. now apply IH.
Qed.

(* every history of map / set / cursor operations on any number of trees, clones and cursors
   is answered exactly as by the reference world of sorted association lists and anchors *)
Theorem history_refines_proof xs : steps (mkW [] []) (map enc xs) = rsteps (mkRW [] []) xs.
Proof. apply steps_sim, R_empty. Qed.

Fixpoint wsteps (w : world) (ops : list obs) : world :=
  match ops with [] => w | op :: r => wsteps (fst (step w op)) r end.

(* ... and all trees stay well-formed with exact size, all cursors representable *)
Theorem history_wf_proof xs :
  let w := wsteps (mkW [] []) (map enc xs) in
  Forall bwf (w_trees w) /\
  Forall (fun tc => exists b, nth_error (w_trees w) (fst tc) = Some b /\ cinv (b_t b) (b_root b) (snd tc)) (w_cursors w).
Proof.
  assert (H : forall w rw, R w rw -> exists rw', R (wsteps w (map enc xs)) rw').
  { induction xs as [|x r IH]; intros w rw HR; [exists rw; assumption|].
    cbn [map wsteps]. pose proof (step_sim w rw x HR) as Hs.
    destruct (step w (enc x)) as (w' & o). destruct (rstep rw x) as (rw' & o'). destruct Hs as (_ & HR').
    cbn [fst]. eapply IH; eauto. }
  destruct (H _ _ R_empty) as (rw' & (Ht & Hc)). cbn zeta. split.
  - clear - Ht. induction Ht; constructor; auto. apply H.
  - clear - Hc. induction Hc; constructor; auto. destruct H as (_ & _ & Hx). exact Hx.
Qed.
