(* Injectivity of the RFC 8945 input also in key name and algorithm name (canonical names of
   valid absolute names are prefix-free), and the corollaries for messages signed with a
   different key, key name or algorithm. *)
From DV Require Import Base.Prelude.
From DV Require Model.NameM.
From DV Require Import Proofs.NameValid Proofs.NameWire.
From DV Require Import Model.TsigM Proofs.TsigSpec Proofs.TsigLemmas Proofs.TsigInj.
Open Scope Z_scope.

Definition ci (n : dname) : list (list Z) := map (map to_lower) n.

Lemma canonical_name_cons : forall l n,
  canonical_name (l :: n) = (olen l :: map to_lower l) ++ canonical_name n.
Proof. intros. unfold canonical_name. cbn [map concat]. reflexivity. Qed.

(* labels non-empty, then the root label: the encoding is self-delimiting *)
Lemma canonical_prefix_free : forall ls1 ls2 r1 r2,
  Forall (fun l => l <> []) ls1 -> Forall (fun l => l <> []) ls2 ->
  canonical_name (ls1 ++ [[]]) ++ r1 = canonical_name (ls2 ++ [[]]) ++ r2 ->
  ci ls1 = ci ls2 /\ r1 = r2.
Proof.
  induction ls1 as [|l1 ls1 IH]; intros ls2 r1 r2 F1 F2 E.
  - destruct ls2 as [|l2 ls2].
    + cbn in E. injection E as ->. split; reflexivity.
    + cbn [app] in E. rewrite canonical_name_cons in E. cbn in E.
      inversion F2; subst. destruct l2; [contradiction|].
      inversion E as [[E0 _]]; unfold olen in E0; cbn [length] in E0; lia.
  - destruct ls2 as [|l2 ls2].
    + cbn [app] in E. rewrite canonical_name_cons in E. cbn in E.
      inversion F1; subst. destruct l1; [contradiction|].
      inversion E as [[E0 _]]; unfold olen in E0; cbn [length] in E0; lia.
    + cbn [app] in E. rewrite !canonical_name_cons in E.
      cbn [app] in E. inversion E as [[E0 E1]].
      assert (L : length (map to_lower l1) = length (map to_lower l2)).
      { rewrite !map_length. unfold olen in E0. lia. }
      rewrite <- !app_assoc in E1.
      apply app_inv_len in E1 as [El Er]; [|exact L].
      inversion F1; subst. inversion F2; subst.
      destruct (IH ls2 r1 r2) as [Ec Err]; try assumption.
      split; [|assumption]. unfold ci in *. cbn [map]. congruence.
Qed.

Lemma valid_abs_shape : forall n, Valid n -> NameM.is_absolute n = true ->
  exists ls, n = ls ++ [[]] /\ Forall (fun l => l <> []) ls.
Proof.
  intros n V A. destruct (Valid_absolute_shape n V A) as (ls & -> & F).
  exists ls. split; [reflexivity|]. rewrite Forall_forall in *. intros l Hl. now apply F.
Qed.

Lemma ci_app_root : forall a b, ci a = ci b -> ci (a ++ [[]]) = ci (b ++ [[]]).
Proof. intros. unfold ci in *. rewrite !map_app. congruence. Qed.

Definition good_name (n : dname) : Prop := Valid n /\ NameM.is_absolute n = true.

(* same request MAC, same length of the digested message: equal inputs force equal canonical
   key name, canonical algorithm name, original id, message octets, time, fudge, error, other *)
Lemma rfc_input_injective_names : forall rm oid1 oid2 w1 w2 v1 v2,
  good_name (v_name v1) -> good_name (v_name v2) -> good_name (v_alg v1) -> good_name (v_alg v2) ->
  length (skipn 2 w1) = length (skipn 2 w2) ->
  vars_wf oid1 v1 -> vars_wf oid2 v2 ->
  rfc8945_input rm oid1 w1 v1 = rfc8945_input rm oid2 w2 v2 ->
  ci (v_name v1) = ci (v_name v2) /\ ci (v_alg v1) = ci (v_alg v2) /\
  oid1 = oid2 /\ skipn 2 w1 = skipn 2 w2 /\ v_time v1 = v_time v2 /\ v_fudge v1 = v_fudge v2
  /\ v_error v1 = v_error v2 /\ v_other v1 = v_other v2.
Proof.
  intros rm oid1 oid2 w1 w2 v1 v2 (Vn1 & An1) (Vn2 & An2) (Va1 & Aa1) (Va2 & Aa2) LEN
         (O1 & T1 & F1 & E1 & L1) (O2 & T2 & F2 & E2 & L2) E.
  destruct (valid_abs_shape _ Vn1 An1) as (kn1 & Hk1 & Fk1).
  destruct (valid_abs_shape _ Vn2 An2) as (kn2 & Hk2 & Fk2).
  destruct (valid_abs_shape _ Va1 Aa1) as (an1 & Ha1 & Fa1).
  destruct (valid_abs_shape _ Va2 Aa2) as (an2 & Ha2 & Fa2).
  unfold rfc8945_input in E. apply app_inv_head in E.
  unfold rfc_dns_message, rfc_tsig_variables in E. rewrite Hk1, Hk2, Ha1, Ha2 in E.
  repeat rewrite <- app_assoc in E.
  apply app_inv_len in E as [Eo E]; [|now rewrite !be_length].
  apply be_inj in Eo; [|rewrite pow_2; lia|rewrite pow_2; lia].
  apply app_inv_len in E as [Ew E]; [|exact LEN].
  apply canonical_prefix_free in E as [Ekn E]; try assumption.
  apply app_inv_head in E. apply app_inv_head in E.
  apply canonical_prefix_free in E as [Ean E]; try assumption.
  apply app_inv_len in E as [Et E]; [|now rewrite !be_length].
  apply app_inv_len in E as [Ef E]; [|now rewrite !be_length].
  apply app_inv_len in E as [Ee E]; [|now rewrite !be_length].
  apply app_inv_len in E as [_ Eot]; [|now rewrite !be_length].
  apply be_inj in Et; [|rewrite pow_6; lia|rewrite pow_6; lia].
  apply be_inj in Ef; [|rewrite pow_2; lia|rewrite pow_2; lia].
  apply be_inj in Ee; [|rewrite pow_2; lia|rewrite pow_2; lia].
  rewrite Hk1, Hk2, Ha1, Ha2.
  split; [now apply ci_app_root|]. split; [now apply ci_app_root|].
  repeat split; assumption.
Qed.

Section WithH.
  Variable H : hashid -> bytes -> bytes -> bytes.

  (* signed under k1, validated under k2 (any relation between the two keys): acceptance means
     the receiver's keyed hash of the receiver's input equals the signer's keyed hash of the
     signer's input; if key name or algorithm differ (canonically) the two inputs are different *)
  Lemma wrong_key_lemma :
    forall wire k1 k2 rd t rmac ctx multi rd' c' wire' start adcount now owner r,
      (ctx = None \/ multi = false) ->
      all_bytes wire' = true ->
      sign H wire k1 rd (Some t) rmac ctx multi = Ok (rd', c') ->
      get_adcount wire' = Ok adcount ->
      rfc_received_message wire' adcount start = wire ->
      validate H wire' k2 owner rd' now rmac start ctx multi = Ok r ->
      exists h1 sz1 h2 sz2,
        assoc_name hashes (kalg k1) = Some (h1, sz1) /\ assoc_name hashes (kalg k2) = Some (h2, sz2) /\
        let d1 := rfc8945_input (omac rmac) (t_oid rd) wire (vars_of k1 rd t) in
        let d2 := rfc8945_input (omac rmac) (t_oid rd) wire (vars_of k2 rd t) in
        rfc_truncate (trunc_of sz2) (H h2 (ksecret k2) d2) = rfc_truncate (trunc_of sz1) (H h1 (ksecret k1) d1)
        /\ (good_name (kname k1) -> good_name (kname k2) -> good_name (kalg k1) -> good_name (kalg k2) ->
            tsig_wf rd' ->
            (ci (kname k1) <> ci (kname k2) \/ ci (kalg k1) <> ci (kalg k2)) -> d1 <> d2).
  Proof.
    intros until r. intros F A S G W V.
    apply (sign_mac_is_rfc H) in S as (h1 & sz1 & Hh1 & Ms & Ft & Fa & Ff & Fo & Fe & Fot); [|assumption].
    apply (validate_accepts_mac_is_rfc H) in V as (ad & h2 & sz2 & P & Hh2 & Mv); try assumption.
    destruct P as (G' & _). rewrite G in G'. inversion G'; subst ad. clear G'.
    rewrite W in Mv.
    assert (VE : vars_of k2 rd' (t_time rd') = vars_of k2 rd t).
    { unfold vars_of. rewrite Ft, Ff, Fe, Fot. reflexivity. }
    rewrite VE, Fo in Mv.
    exists h1, sz1, h2, sz2. split; [assumption|]. split; [assumption|].
    intros d1 d2. split; [fold d1 in Ms; fold d2 in Mv; congruence|].
    intros Gk1 Gk2 Ga1 Ga2 (Wo & Wt & Wf & We & Wot) Diff E.
    unfold d1, d2 in E.
    assert (VW1 : vars_wf (t_oid rd) (vars_of k1 rd t)).
    { unfold vars_wf, olen. cbn. rewrite <- Fo, <- Ft, <- Ff, <- Fe, <- Fot. unfold zlen in Wot. auto. }
    assert (VW2 : vars_wf (t_oid rd) (vars_of k2 rd t)).
    { unfold vars_wf, olen. cbn. rewrite <- Fo, <- Ft, <- Ff, <- Fe, <- Fot. unfold zlen in Wot. auto. }
    pose proof (rfc_input_injective_names (omac rmac) (t_oid rd) (t_oid rd) wire wire
                  (vars_of k1 rd t) (vars_of k2 rd t) Gk1 Gk2 Ga1 Ga2 eq_refl VW1 VW2 E) as (En & Ea & _).
    cbn in En, Ea. destruct Diff; contradiction.
  Qed.
End WithH.
