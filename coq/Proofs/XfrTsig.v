(* C13 - transfers authenticated with TSIG (Inbound.require_tsig): the zone is only ever changed by
   a message that carries a TSIG; when every message is signed the transfer behaves exactly like an
   unauthenticated one, so every convergence / rejection theorem carries over. *)
From DV Require Import Base.Prelude Model.XfrM Proofs.XfrSets Proofs.XfrSpec Proofs.XfrZone
  Proofs.XfrSafety Proofs.XfrBasic Proofs.XfrRun.

Definition set_req (s : st) (b : bool) : st :=
  mkSt (pub s) (txn s) (rdtype s) (incremental s) (serial s) (is_udp s) (soa s) (done s) (expecting s) (delmode s) b.

Ltac brkG :=
  repeat match goal with
         | |- context [if ?b then _ else _] => destruct b eqn:?
         | |- context [match ?x with _ => _ end] => destruct x eqn:?
         end.

(* except at the last RRset of an unsigned message, step does not look at require_tsig *)
Lemma step_set_req : forall (fl : flag) s r b, fl <> LastNoSig ->
  step fl (set_req s b) r = (let '(t, o) := step fl s r in (set_req t b, o)).
Proof.
  intros fl [p t rd inc se u so d e dm rq] r b Hfl. unfold step, res_of, set_req.
  cbn [pub txn rdtype incremental serial is_udp soa done expecting delmode req_tsig
       set_pub set_txn set_incremental set_serial set_soa set_done set_expecting set_delmode].
  destruct d; [reflexivity|].
  destruct t as [tz|]; [|reflexivity].
  destruct ((s_type r =? tSOA) && (s_name r =? origin)).
  - match goal with |- (if ?c then _ else _) = _ => destruct c end.
    + destruct (soa_serial r); [|reflexivity].
      destruct e; [reflexivity|].
      match goal with |- (if ?c then _ else _) = _ => destruct c end; [reflexivity|].
      destruct fl; [reflexivity| |congruence].
      rewrite !andb_false_r. destruct (t_add true tz r); reflexivity.
    + destruct (soa_serial r); [|reflexivity].
      destruct inc; [|reflexivity].
      match goal with |- (if ?c then _ else _) = _ => destruct c end.
      * match goal with |- (if ?c then _ else _) = _ => destruct c end; reflexivity.
      * destruct (t_add true tz r); reflexivity.
  - destruct e.
    + match goal with |- (if ?c then _ else _) = _ => destruct c end; [reflexivity|].
      cbn [delmode]. destruct (t_add false [] r); reflexivity.
    + match goal with |- (if ?c then _ else _) = _ => destruct c end; [reflexivity|].
      destruct dm; [destruct (t_delete_exact tz r)|destruct (t_add false tz r)]; reflexivity.
Qed.

Lemma loop_set_req : forall rs s b,
  loop (set_req s b) rs = (let '(t, o) := loop s rs in (set_req t b, o)).
Proof.
  induction rs as [|r rest IH]; intros s b; cbn [loopT]; [reflexivity|].
  rewrite step_set_req by (destruct rest; discriminate).
  destruct (step _ s r) as [t [e|]]; [reflexivity|]. apply IH.
Qed.

Lemma process_set_req : forall s m b, m_tsig m = true ->
  process_message (set_req s b) m = (let '(t, o) := process_message s m in (set_req t b, o)).
Proof.
  intros s m b Hsig. unfold process_message. rewrite Hsig.
  change (txn (set_req s b)) with (txn s). change (incremental (set_req s b)) with (incremental s).
  change (pub (set_req s b)) with (pub s).
  set (sx := match txn s with
             | None => set_txn s (Some (if incremental s then pub s else []))
             | Some _ => s end).
  assert (E : match txn s with
              | None => set_txn (set_req s b) (Some (if incremental s then pub s else []))
              | Some _ => set_req s b end = set_req sx b) by (subst sx; destruct (txn s); reflexivity).
  rewrite E. clearbody sx. clear E.
  change (rdtype (set_req sx b)) with (rdtype sx). change (soa (set_req sx b)) with (soa sx).
  assert (AFTER : forall sa rs,
    (match loop (set_req sa b) rs with
     | (s', Some e) => (s', Some e)
     | (s', None) => if is_udp s' && negb (done s') then (s', Some eUDPEnd) else (s', None)
     end) =
    (let '(t, o) := (match loop sa rs with
                     | (s', Some e) => (s', Some e)
                     | (s', None) => if is_udp s' && negb (done s') then (s', Some eUDPEnd) else (s', None)
                     end) in (set_req t b, o))).
  { intros sa rs. rewrite loop_set_req. destruct (loop sa rs) as [t [e|]]; [reflexivity|].
    change (is_udp (set_req t b)) with (is_udp t). change (done (set_req t b)) with (done t).
    destruct (is_udp t && negb (done t)); reflexivity. }
  destruct (negb (m_rcode m =? 0)); [reflexivity|].
  match goal with |- (match ?q with Some e => _ | None => _ end) = _ => destruct q end; [reflexivity|].
  destruct (soa sx).
  - apply AFTER.
  - destruct (m_answer m) as [|r0 rest]; [reflexivity|].
    destruct (negb (s_name r0 =? origin)); [reflexivity|].
    destruct (negb (s_type r0 =? tSOA)); [reflexivity|].
    change (incremental (set_soa (set_req sx b) (Some r0))) with (incremental sx).
    change (incremental (set_soa sx (Some r0))) with (incremental sx).
    destruct (incremental sx).
    + destruct (soa_serial r0); [|reflexivity].
      change (serial (set_soa (set_req sx b) (Some r0))) with (serial sx).
      change (serial (set_soa sx (Some r0))) with (serial sx).
      change (is_udp (set_soa (set_req sx b) (Some r0))) with (is_udp sx).
      change (is_udp (set_soa sx (Some r0))) with (is_udp sx).
      destruct (z =? serial sx).
      * apply (AFTER (set_done (set_soa sx (Some r0)) true)).
      * destruct (serial_lt z (serial sx)); [reflexivity|].
        match goal with |- (if ?c then _ else _) = _ => destruct c end; [reflexivity|].
        apply (AFTER (set_expecting (set_soa sx (Some r0)) true)).
    + apply (AFTER (set_soa sx (Some r0))).
Qed.

Lemma drive_set_req : forall one_rr ws s b, Forall (fun w => w_tsig w = true) ws ->
  drive one_rr (set_req s b) ws = drive one_rr s ws.
Proof.
  induction ws as [|w ws IH]; intros s b Hs; cbn [drive]; [reflexivity|].
  inversion Hs as [|? ? Hw Hws]; subst.
  rewrite process_set_req by exact Hw.
  destruct (process_message s (from_wire one_rr w)) as [t [e|]]; [reflexivity|].
  change (done (set_req t b)) with (done t). change (pub (set_req t b)) with (pub t).
  destruct (done t); [reflexivity|]. rewrite IH by exact Hws. reflexivity.
Qed.

(* every message signed: an authenticated transfer is exactly the unauthenticated one *)
Theorem xfr_run_all_signed : forall z rdt ser udp ws,
  Forall (fun w => w_tsig w = true) ws ->
  xfr_run true z rdt ser udp ws = inbound_xfr z rdt ser udp ws.
Proof.
  intros z rdt ser udp ws Hs. unfold inbound_xfr, xfr_run, init_t.
  destruct (rdt =? tIXFR).
  - destruct ser as [sv|]; [|reflexivity].
    apply (drive_set_req true ws (mkSt z None rdt true sv udp None false false false false) true Hs).
  - destruct (rdt =? tAXFR); [|reflexivity]. destruct udp; [reflexivity|].
    apply (drive_set_req false ws (mkSt z None rdt false (match ser with Some sv => sv | None => 0 end) false None false false false false) true Hs).
Qed.

(* ---- with require_tsig, a message without TSIG never publishes anything ---- *)
Lemma step_unsigned_pub : forall (fl : flag) s r s' o, req_tsig s = true -> fl <> Last ->
  step fl s r = (s', o) -> pub s' = pub s.
Proof.
  intros fl [p t rd inc se u so d e dm rq] r s' o Hrq Hfl H. cbn in Hrq. subst rq.
  unfold step, res_of in H.
  cbn [pub txn rdtype incremental serial is_udp soa done expecting delmode req_tsig
       set_pub set_txn set_incremental set_serial set_soa set_done set_expecting set_delmode] in H.
  destruct fl; [| congruence |]; cbn [andb] in H;
    repeat match type of H with
           | context [if ?b then _ else _] => destruct b
           | context [match ?x with _ => _ end] => destruct x
           end; inversion H; subst; reflexivity.
Qed.

Lemma loop_unsigned_pub : forall rs s s' o, req_tsig s = true ->
  loopT false s rs = (s', o) -> pub s' = pub s.
Proof.
  induction rs as [|r rest IH]; intros s s' o Hrq H; cbn [loopT] in H.
  - inversion H; reflexivity.
  - destruct (step _ s r) as [s1 [e|]] eqn:Hs.
    + inversion H; subst. eapply step_unsigned_pub; [exact Hrq| |exact Hs]. destruct rest; discriminate.
    + pose proof (step_req_tsig _ _ _ _ _ Hs) as R.
      apply step_unsigned_pub in Hs; [|exact Hrq|destruct rest; discriminate].
      apply IH in H; [|congruence]. congruence.
Qed.

(* one call of process_message on a message without TSIG, when TSIGs are required: nothing is published *)
Theorem unsigned_message_never_applies : forall s m s' o,
  req_tsig s = true -> m_tsig m = false ->
  process_message s m = (s', o) -> pub s' = pub s.
Proof.
  intros s m s' o Hrq Hsig H. unfold process_message in H. rewrite Hsig in H.
  set (sx := match txn s with
             | None => set_txn s (Some (if incremental s then pub s else []))
             | Some _ => s end) in *.
  assert (Hp0 : pub sx = pub s) by (subst sx; destruct (txn s); reflexivity).
  assert (Hr0 : req_tsig sx = true) by (subst sx; destruct (txn s); exact Hrq).
  clearbody sx. rewrite <- Hp0.
  assert (AFTER : forall sa rs, req_tsig sa = true -> pub sa = pub sx ->
    (match loopT false sa rs with
     | (s1, Some e) => (s1, Some e)
     | (s1, None) => if is_udp s1 && negb (done s1) then (s1, Some eUDPEnd) else (s1, None)
     end) = (s', o) -> pub s' = pub sx).
  { intros sa rs Hra Hpa HA. destruct (loopT false sa rs) as [s1 o1] eqn:Hl.
    apply loop_unsigned_pub in Hl; [|exact Hra].
    destruct o1; [inversion HA; subst; congruence|].
    destruct (is_udp s1 && negb (done s1)); inversion HA; subst; congruence. }
  destruct (negb (m_rcode m =? 0)); [inversion H; reflexivity|].
  match type of H with (match ?q with Some e => _ | None => _ end) = _ => destruct q end; [inversion H; reflexivity|].
  destruct (soa sx).
  - eapply AFTER; [exact Hr0|reflexivity|exact H].
  - destruct (m_answer m) as [|r0 rest]; [inversion H; reflexivity|].
    destruct (negb (s_name r0 =? origin)); [inversion H; reflexivity|].
    destruct (negb (s_type r0 =? tSOA)); [inversion H; reflexivity|].
    cbn [incremental set_soa] in H.
    destruct (incremental sx).
    + destruct (soa_serial r0); [|inversion H; reflexivity].
      cbn [serial is_udp set_soa] in H.
      destruct (z =? serial sx).
      * eapply (AFTER (set_done (set_soa sx (Some r0)) true)); [exact Hr0|reflexivity|exact H].
      * destruct (serial_lt z (serial sx)); [inversion H; reflexivity|].
        match type of H with (if ?c then _ else _) = _ => destruct c end; [inversion H; reflexivity|].
        eapply (AFTER (set_expecting (set_soa sx (Some r0)) true)); [exact Hr0|reflexivity|exact H].
    + eapply (AFTER (set_soa sx (Some r0))); [exact Hr0|reflexivity|exact H].
Qed.

(* hence: the zone an authenticated transfer ends with differs from the initial one only if the
   last message processed - the one that completed the transfer - carried a TSIG *)
Lemma drive_signed_completion : forall one_rr ws s z' n,
  req_tsig s = true -> drive one_rr s ws = (Done z', n) ->
  z' = pub s \/ exists w, nth_error ws (pred n) = Some w /\ w_tsig w = true.
Proof.
  induction ws as [|w ws IH]; intros s z' n Hrq H; cbn [drive] in H; [discriminate|].
  destruct (process_message s (from_wire one_rr w)) as [s1 [e|]] eqn:Hp; [discriminate|].
  assert (R1 : req_tsig s1 = true).
  { clear - Hp Hrq. unfold process_message in Hp.
    set (sx := match txn s with None => set_txn s (Some (if incremental s then pub s else [])) | Some _ => s end) in *.
    assert (Hr0 : req_tsig sx = true) by (subst sx; destruct (txn s); exact Hrq). clearbody sx.
    assert (AFTER : forall sg sa rs t o, req_tsig sa = true ->
      (match loopT sg sa rs with
       | (s1, Some e) => (s1, Some e)
       | (s1, None) => if is_udp s1 && negb (done s1) then (s1, Some eUDPEnd) else (s1, None)
       end) = (t, o) -> req_tsig t = true).
    { intros sg sa rs t o Hra HA. destruct (loopT sg sa rs) as [s2 o2] eqn:Hl.
      apply loop_inv in Hl. destruct Hl as (_ & _ & _ & _ & R).
      destruct o2; [inversion HA; subst; congruence|].
      destruct (is_udp s2 && negb (done s2)); inversion HA; subst; congruence. }
    destruct (negb (m_rcode (from_wire one_rr w) =? 0)); [inversion Hp; subst; exact Hr0|].
    match type of Hp with (match ?q with Some e => _ | None => _ end) = _ => destruct q end; [inversion Hp; subst; exact Hr0|].
    destruct (soa sx).
    - eapply AFTER; [exact Hr0|exact Hp].
    - destruct (m_answer (from_wire one_rr w)) as [|r0 rest]; [inversion Hp; subst; exact Hr0|].
      destruct (negb (s_name r0 =? origin)); [inversion Hp; subst; exact Hr0|].
      destruct (negb (s_type r0 =? tSOA)); [inversion Hp; subst; exact Hr0|].
      cbn [incremental set_soa] in Hp.
      destruct (incremental sx).
      + destruct (soa_serial r0); [|inversion Hp; subst; exact Hr0].
        cbn [serial is_udp set_soa] in Hp.
        destruct (z =? serial sx).
        * eapply (AFTER _ (set_done (set_soa sx (Some r0)) true)); [exact Hr0|exact Hp].
        * destruct (serial_lt z (serial sx)); [inversion Hp; subst; exact Hr0|].
          match type of Hp with (if ?c then _ else _) = _ => destruct c end; [inversion Hp; subst; exact Hr0|].
          eapply (AFTER _ (set_expecting (set_soa sx (Some r0)) true)); [exact Hr0|exact Hp].
      + eapply (AFTER _ (set_soa sx (Some r0))); [exact Hr0|exact Hp]. }
  destruct (done s1) eqn:Hd.
  - inversion H; subst. cbn [pred nth_error].
    destruct (w_tsig w) eqn:Hsig; [right; exists w; auto|left].
    eapply unsigned_message_never_applies; [exact Hrq| |exact Hp]. exact Hsig.
  - destruct (drive one_rr s1 ws) as [r n'] eqn:Hdr. inversion H; subst.
    assert (Hps : pub s1 = pub s).
    { apply process_message_pub in Hp. destruct Hp as [?|[_ [? _]]]; [assumption|congruence]. }
    destruct (IH s1 z' n' R1 Hdr) as [Hz|[w' [Hn Hs']]]; [left; congruence|right].
    exists w'. split; [|exact Hs']. destruct n' as [|k]; [|exact Hn].
    (* n' = 0 is impossible for a Done result *)
    exfalso. clear - Hdr. destruct ws as [|w2 ws2]; cbn [drive] in Hdr; [discriminate|].
    destruct (process_message s1 (from_wire one_rr w2)) as [s2 [e|]]; [discriminate|].
    destruct (done s2); [inversion Hdr|]. destruct (drive one_rr s2 ws2); inversion Hdr.
Qed.

Theorem authenticated_completion_is_signed : forall z rdt ser udp ws z' n,
  xfr_run true z rdt ser udp ws = (Done z', n) ->
  z' = z \/ exists w, nth_error ws (pred n) = Some w /\ w_tsig w = true.
Proof.
  intros z rdt ser udp ws z' n H. unfold xfr_run in H.
  destruct (init_t true z rdt ser udp) as [s|e] eqn:Hi; [|discriminate].
  assert (Hs : pub s = z /\ req_tsig s = true).
  { unfold init_t in Hi. destruct (rdt =? tIXFR).
    - destruct ser; inversion Hi; auto.
    - destruct (rdt =? tAXFR); [|discriminate]. destruct udp; inversion Hi; auto. }
  destruct Hs as [Hp Hr]. apply drive_signed_completion in H; [|exact Hr]. rewrite Hp in H. exact H.
Qed.
