(* C13 - transfers authenticated with TSIG (Inbound.require_tsig): the zone is only ever changed by
   a message that carries a TSIG; when every message is signed the transfer behaves exactly like an
   unauthenticated one, so every convergence / rejection theorem carries over. *)
From DV Require Import Base.Prelude Model.XfrM Proofs.XfrSets Proofs.XfrSpec Proofs.XfrZone
  Proofs.XfrSafety Proofs.XfrBasic Proofs.XfrRun.

Definition set_req (s : st) (b : bool) : st :=
  mkSt (pub s) (txn s) (rdtype s) (incremental s) (serial s) (is_udp s) (soa s) (done s) (expecting s) (delmode s) b.

Ltac brkG :=
  repeat match goal with
         | |- context [if ?b then _ else _] => destruct b eqn:?
         | |- context [match ?x with _ => _ end] => destruct x eqn:?
         end.

(* except at the last RRset of an unsigned message, step does not look at require_tsig *)
Lemma step_set_req : forall (fl : flag) s r b, fl <> LastNoSig ->
  step fl (set_req s b) r = (let '(t, o) := step fl s r in (set_req t b, o)).
Proof.
  intros fl [p t rd inc se u so d e dm rq] r b Hfl. unfold step, res_of, set_req.
  cbn [pub txn rdtype incremental serial is_udp soa done expecting delmode req_tsig
       set_pub set_txn set_incremental set_serial set_soa set_done set_expecting set_delmode].
  destruct d; [reflexivity|].
  destruct t as [tz|]; [|reflexivity].
  destruct ((s_type r =? tSOA) && (s_name r =? origin)).
  - match goal with |- (if ?c then _ else _) = _ => destruct c end.
    + destruct (soa_serial r); [|reflexivity].
      destruct e; [reflexivity|].
      match goal with |- (if ?c then _ else _) = _ => destruct c end; [reflexivity|].
      destruct fl; [reflexivity| |congruence].
      rewrite !andb_false_r. destruct (t_add true tz r); reflexivity.
    + destruct (soa_serial r); [|reflexivity].
      destruct inc; [|reflexivity].
      match goal with |- (if ?c then _ else _) = _ => destruct c end.
      * match goal with |- (if ?c then _ else _) = _ => destruct c end; reflexivity.
      * destruct (t_add true tz r); reflexivity.
  - destruct e.
    + match goal with |- (if ?c then _ else _) = _ => destruct c end; [reflexivity|].
      cbn [delmode]. destruct (t_add false [] r); reflexivity.
    + match goal with |- (if ?c then _ else _) = _ => destruct c end; [reflexivity|].
      destruct dm; [destruct (t_delete_exact tz r)|destruct (t_add false tz r)]; reflexivity.
Qed.

Lemma loop_set_req : forall rs s b,
  loop (set_req s b) rs = (let '(t, o) := loop s rs in (set_req t b, o)).
Proof.
  induction rs as [|r rest IH]; intros s b; cbn [loopT]; [reflexivity|].
  rewrite step_set_req by (destruct rest; discriminate).
  destruct (step _ s r) as [t [e|]]; [reflexivity|]. apply IH.
Qed.

Lemma process_set_req : forall s m b, m_tsig m = true ->
  process_message (set_req s b) m = (let '(t, o) := process_message s m in (set_req t b, o)).
Proof.
  intros s m b Hsig. unfold process_message. rewrite Hsig.
  change (txn (set_req s b)) with (txn s). change (incremental (set_req s b)) with (incremental s).
  change (pub (set_req s b)) with (pub s).
  set (sx := match txn s with
             | None => set_txn s (Some (if incremental s then pub s else []))
             | Some _ => s end).
  assert (E : match txn s with
              | None => set_txn (set_req s b) (Some (if incremental s then pub s else []))
              | Some _ => set_req s b end = set_req sx b) by (subst sx; destruct (txn s); reflexivity).
  rewrite E. clearbody sx. clear E.
  change (rdtype (set_req sx b)) with (rdtype sx). change (soa (set_req sx b)) with (soa sx).
  assert (AFTER : forall sa rs,
    (match loop (set_req sa b) rs with
     | (s', Some e) => (s', Some e)
     | (s', None) => if is_udp s' && negb (done s') then (s', Some eUDPEnd) else (s', None)
     end) =
    (let '(t, o) := (match loop sa rs with
                     | (s', Some e) => (s', Some e)
                     | (s', None) => if is_udp s' && negb (done s') then (s', Some eUDPEnd) else (s', None)
                     end) in (set_req t b, o))).
  { intros sa rs. rewrite loop_set_req. destruct (loop sa rs) as [t [e|]]; [reflexivity|].
    change (is_udp (set_req t b)) with (is_udp t). change (done (set_req t b)) with (done t).
    destruct (is_udp t && negb (done t)); reflexivity. }
  destruct (negb (m_rcode m =? 0)); [reflexivity|].
  match goal with |- (match ?q with Some e => _ | None => _ end) = _ => destruct q end; [reflexivity|].
  destruct (soa sx).
  - apply AFTER.
  - destruct (m_answer m) as [|r0 rest]; [reflexivity|].
    destruct (negb (s_name r0 =? origin)); [reflexivity|].
    destruct (negb (s_type r0 =? tSOA)); [reflexivity|].
    change (incremental (set_soa (set_req sx b) (Some r0))) with (incremental sx).
    change (incremental (set_soa sx (Some r0))) with (incremental sx).
    destruct (incremental sx).
    + destruct (soa_serial r0); [|reflexivity].
      change (serial (set_soa (set_req sx b) (Some r0))) with (serial sx).
      change (serial (set_soa sx (Some r0))) with (serial sx).
      change (is_udp (set_soa (set_req sx b) (Some r0))) with (is_udp sx).
      change (is_udp (set_soa sx (Some r0))) with (is_udp sx).
      destruct (z =? serial sx).
      * apply (AFTER (set_done (set_soa sx (Some r0)) true)).
      * destruct (serial_lt z (serial sx)); [reflexivity|].
        match goal with |- (if ?c then _ else _) = _ => destruct c end; [reflexivity|].
        apply (AFTER (set_expecting (set_soa sx (Some r0)) true)).
    + apply (AFTER (set_soa sx (Some r0))).
Qed.

Lemma drive_set_req : forall one_rr ws s b, Forall (fun w => w_tsig w = true) ws ->
  drive one_rr (set_req s b) ws = drive one_rr s ws.
Proof.
  induction ws as [|w ws IH]; intros s b Hs; cbn [drive]; [reflexivity|].
  inversion Hs as [|? ? Hw Hws]; subst.
  rewrite process_set_req by exact Hw.
  destruct (process_message s (from_wire one_rr w)) as [t [e|]]; [reflexivity|].
  change (done (set_req t b)) with (done t). change (pub (set_req t b)) with (pub t).
  rewrite Hw. cbn [negb]. rewrite !andb_false_r.
  destruct (done t); [reflexivity|]. rewrite IH by exact Hws. reflexivity.
Qed.

(* every message signed: an authenticated transfer is exactly the unauthenticated one *)
Theorem xfr_run_all_signed : forall z rdt ser udp ws,
  Forall (fun w => w_tsig w = true) ws ->
  xfr_run true z rdt ser udp ws = inbound_xfr z rdt ser udp ws.
Proof.
  intros z rdt ser udp ws Hs. unfold inbound_xfr, xfr_run, init_t.
  destruct (rdt =? tIXFR).
  - destruct ser as [sv|]; [|reflexivity].
    apply (drive_set_req true ws (mkSt z None rdt true sv udp None false false false false) true Hs).
  - destruct (rdt =? tAXFR); [|reflexivity]. destruct udp; [reflexivity|].
    apply (drive_set_req false ws (mkSt z None rdt false (match ser with Some sv => sv | None => 0 end) false None false false false false) true Hs).
Qed.

(* an authenticated transfer only completes on a message that carries a TSIG (the last one processed) *)
Lemma drive_signed_completion : forall one_rr ws s z' n,
  req_tsig s = true -> drive one_rr s ws = (Done z', n) ->
  exists w, nth_error ws (pred n) = Some w /\ w_tsig w = true.
Proof.
  induction ws as [|w ws IH]; intros s z' n Hrq H; cbn [drive] in H; [discriminate|].
  destruct (process_message s (from_wire one_rr w)) as [s1 [e|]] eqn:Hp; [discriminate|].
  assert (R1 : req_tsig s1 = true) by (rewrite (process_req_tsig _ _ _ _ Hp); exact Hrq).
  destruct (done s1) eqn:Hd.
  - rewrite R1 in H. cbn [andb] in H. destruct (w_tsig w) eqn:Hsig; cbn [negb] in H; [|discriminate].
    inversion H; subst. exists w. auto.
  - destruct (drive one_rr s1 ws) as [r n'] eqn:Hdr. inversion H; subst.
    destruct (IH s1 z' n' R1 Hdr) as [w' [Hn Hs']].
    exists w'. split; [|exact Hs']. destruct n' as [|k]; [|exact Hn].
    (* n' = 0 is impossible for a Done result *)
    exfalso. clear - Hdr. destruct ws as [|w2 ws2]; cbn [drive] in Hdr; [discriminate|].
    destruct (process_message s1 (from_wire one_rr w2)) as [s2 [e|]]; [discriminate|].
    destruct (done s2); [destruct (req_tsig s2 && negb (w_tsig w2)); inversion Hdr|].
    destruct (drive one_rr s2 ws2); inversion Hdr.
Qed.

(* a completed authenticated transfer: the message that completed it was signed *)
Theorem authenticated_completion_is_signed : forall z rdt ser udp ws z' n,
  xfr_run true z rdt ser udp ws = (Done z', n) ->
  exists w, nth_error ws (pred n) = Some w /\ w_tsig w = true.
Proof.
  intros z rdt ser udp ws z' n H. unfold xfr_run in H.
  destruct (init_t true z rdt ser udp) as [s|e] eqn:Hi; [|discriminate].
  assert (Hs : pub s = z /\ req_tsig s = true).
  { unfold init_t in Hi. destruct (rdt =? tIXFR).
    - destruct ser; inversion Hi; auto.
    - destruct (rdt =? tAXFR); [|discriminate]. destruct udp; inversion Hi; auto. }
  destruct Hs as [Hp Hr]. apply drive_signed_completion in H; [|exact Hr]. exact H.
Qed.
