(* C09: read_rrsets - a CNAME never coexists with other data in the list of rrsets it returns. *)
From DV Require Import Base.Prelude Model.NameM Model.ZoneTextM.
From DV Require Import Proofs.NameOrder.
From DV Require Import Proofs.ZoneTextBase Proofs.ZoneTextInv Proofs.ZoneTextAcc Proofs.ZoneTextWf.
Open Scope Z_scope.

Lemma name_eqb_trans a b c : name_eqb a b = true -> name_eqb b c = true -> name_eqb a c = true.
Proof.
  intros H1 H2. apply name_eqb_iff_ci in H1, H2. apply name_eqb_iff_ci. etransitivity; eauto.
Qed.

Lemma name_eqb_congr a b c : name_eqb a b = true -> name_eqb a c = name_eqb b c.
Proof.
  intros H. destruct (name_eqb a c) eqn:E1; destruct (name_eqb b c) eqn:E2; try reflexivity.
  - rewrite name_eqb_sym in H. rewrite (name_eqb_trans _ _ _ H E1) in E2. discriminate.
  - rewrite (name_eqb_trans _ _ _ H E2) in E1. discriminate.
Qed.

(* every name of the store has an exclusive node *)
Definition rrs_excl (st : rrstore) : Prop := forall n, node_excl (rrs_node st n).

Lemma rrs_node_cons k r st n :
  rrs_node ((k, r) :: st) n = if name_eqb k n then r :: rrs_node st n else rrs_node st n.
Proof. unfold rrs_node. cbn [filter fst]. destruct (name_eqb k n); reflexivity. Qed.

Lemma has_kind_cons k r nd : has_kind k (r :: nd) = nkind_eqb (rds_kind r) k || has_kind k nd.
Proof. reflexivity. Qed.

(* the kinds present at a name after rrs_set: those before, plus the kind of the new rdataset *)
Lemma rrs_set_kinds : forall st n r n' k,
  has_kind k (rrs_node (rrs_set st n r) n') = true ->
  has_kind k (rrs_node st n') = true \/ (name_eqb n n' = true /\ nkind_eqb (rds_kind r) k = true).
Proof.
  induction st as [|[k0 r0] st IH]; intros n r n' k H; cbn [rrs_set] in H.
  - rewrite rrs_node_cons in H. destruct (name_eqb n n') eqn:E; [|left; exact H].
    rewrite has_kind_cons in H. apply orb_true_iff in H as [H|H]; [right; auto|left; exact H].
  - destruct (name_eqb k0 n && rds_match r0 (rtype r) (rcovers r)) eqn:Em.
    + apply andb_true_iff in Em as [Ek Emr]. rewrite rrs_node_cons in *.
      rewrite (name_eqb_congr _ _ n' Ek) in *. destruct (name_eqb n n') eqn:E; [|left; exact H].
      rewrite has_kind_cons in *. apply orb_true_iff in H as [H|H]; [right; auto|left; rewrite H; apply orb_true_r].
    + rewrite rrs_node_cons in *. destruct (name_eqb k0 n') eqn:E.
      * rewrite has_kind_cons in *. apply orb_true_iff in H as [H|H]; [left; rewrite H; reflexivity|].
        destruct (IH _ _ _ _ H) as [H'|H']; [left; rewrite H'; apply orb_true_r|right; exact H'].
      * apply IH. exact H.
Qed.

Lemma rrs_node_eqv st n n' : name_eqb n n' = true -> rrs_node st n = rrs_node st n'.
Proof.
  intros H. unfold rrs_node. f_equal. apply filter_ext. intros [k r]. cbn [fst].
  rewrite !(name_eqb_sym k). apply name_eqb_congr. exact H.
Qed.

Lemma node_kind_neutral_or_has nd : node_kind nd = KNeutral \/ has_kind (node_kind nd) nd = true.
Proof.
  destruct (node_kind nd) eqn:E; [right|left; reflexivity|right]; eapply node_kind_has; eauto; discriminate.
Qed.

Lemma excl_kind nd : node_excl nd -> has_kind KCname nd = true -> node_kind nd = KCname.
Proof.
  intros He Hc. pose proof (He Hc) as Hr.
  destruct (node_kind nd) eqn:E; [|exfalso|reflexivity].
  - rewrite (node_kind_has nd KRegular E) in Hr by discriminate. discriminate.
  - (* all neutral: then no CNAME present *)
    clear He Hr. induction nd as [|r nd IH]; [discriminate|].
    cbn [node_kind] in E. rewrite has_kind_cons in Hc. destruct (rds_kind r) eqn:Ek; try discriminate.
    cbn [nkind_eqb orb] in Hc. auto.
Qed.

Lemma excl_kind_regular nd : node_excl nd -> has_kind KRegular nd = true -> node_kind nd = KRegular.
Proof.
  intros He Hr.
  destruct (node_kind nd) eqn:E; [reflexivity|exfalso|exfalso].
  - clear He. induction nd as [|r nd IH]; [discriminate|].
    cbn [node_kind] in E. rewrite has_kind_cons in Hr. destruct (rds_kind r) eqn:Ek; try discriminate.
    cbn [nkind_eqb orb] in Hr. auto.
  - pose proof (node_kind_has nd KCname E ltac:(discriminate)) as Hc. rewrite (He Hc) in Hr. discriminate.
Qed.

Lemma rrs_add_excl zo rel st n ttl ty rd st' :
  rrs_excl st -> rrs_add zo rel st n ttl ty rd = Ok st' -> rrs_excl st'.
Proof.
  intros He H. unfold rrs_add in H. cbv zeta in H.
  destruct (_ && _ && _); [discriminate|].
  set (r := match rrs_find st n ty (covers_of ty rd) with
            | Some e => rds_union e ttl rd
            | None => mkrds ty (covers_of ty rd) ttl [rd]
            end) in *.
  apply bind_ok in H as (u & Hchk & H). inversion H; subst; clear H.
  intros n'. unfold node_excl. intros Hc.
  destruct (has_kind KRegular (rrs_node (rrs_set st n r) n')) eqn:Hr; [exfalso|reflexivity].
  destruct (rrs_set_kinds _ _ _ _ _ Hc) as [Hc'|[En Hkc]];
    destruct (rrs_set_kinds _ _ _ _ _ Hr) as [Hr'|[En' Hkr]].
  - rewrite (He n' Hc') in Hr'. discriminate.
  - (* a CNAME was there, the new rdataset is regular: the check refuses *)
    rewrite <- (rrs_node_eqv st n n' En') in Hc'.
    pose proof (excl_kind _ (He n) Hc') as Hk.
    destruct (rrs_node st n) as [|x nd] eqn:En0; [discriminate|].
    rewrite Hk in Hchk. destruct (rds_kind r); try discriminate.
  - rewrite <- (rrs_node_eqv st n n' En) in Hr'.
    pose proof (excl_kind_regular _ (He n) Hr') as Hk.
    destruct (rrs_node st n) as [|x nd] eqn:En0; [discriminate|].
    rewrite Hk in Hchk. destruct (rds_kind r); try discriminate.
  - destruct (rds_kind r); discriminate.
Qed.

Lemma rrs_fields_store c zo s last n toks lerr s' :
  rrs_fields c zo s last n toks lerr = Ok s' ->
  exists ttl ty rd, rrs_add zo (c_rel c) (rr_store s) n ttl ty rd = Ok (rr_store s').
Proof.
  intros H. unfold rrs_fields in H.
  repeat step H.
  all: repeat match goal with HH : Ok _ = Ok _ |- _ => inversion HH; subst; clear HH end.
  all: cbn [rr_store]; eauto.
Qed.

Lemma rrs_line_store c zo s lead toks lerr s' :
  rrs_line c zo s lead toks lerr = Ok s' ->
  rr_store s' = rr_store s \/
  exists n ttl ty rd, rrs_add zo (c_rel c) (rr_store s) n ttl ty rd = Ok (rr_store s').
Proof.
  intros H. unfold rrs_line in H.
  repeat step H.
  all: repeat match goal with HH : Ok _ = Ok _ |- _ => inversion HH; subst; clear HH end.
  all: cbn [rr_store]; try (left; reflexivity).
  all: right; apply rrs_fields_store in H; destruct H as (ttl & ty & rd & H);
    match goal with Hr : c_rel _ = _ |- _ => rewrite Hr in H end; eauto.
Qed.

Lemma rrs_loop_excl : forall fuel c zo s text s',
  rrs_excl (rr_store s) -> rrs_loop fuel c zo s text = Ok s' -> rrs_excl (rr_store s').
Proof.
  induction fuel as [|f IH]; intros c zo s text s' He H; cbn [rrs_loop] in H; [discriminate|].
  destruct (ZoneTextM.lex text 0 MSkip []) as [[toks term] rest]. cbv zeta in H.
  apply bind_ok in H as (s1 & E & H).
  assert (He1 : rrs_excl (rr_store s1)).
  { destruct (starts_ws text).
    - apply rrs_line_store in E as [E|(n & ttl & ty & rd & E)]; [rewrite E; exact He|eapply rrs_add_excl; eauto].
    - destruct toks as [|t0 tl].
      + destruct (match term with TErr => true | _ => false end); inversion E; subst; exact He.
      + apply rrs_line_store in E as [E|(n & ttl & ty & rd & E)]; [rewrite E; exact He|eapply rrs_add_excl; eauto]. }
  destruct term; [eapply IH; eauto|inversion H; subst; exact He1|discriminate].
Qed.

Theorem rrsets_cname_exclusive_proof c zo text st :
  read_rrsets c zo text = Ok st -> rrs_excl st.
Proof.
  unfold read_rrsets. intros H. apply bind_ok in H as (s & E & H). inversion H; subst.
  eapply rrs_loop_excl; [|exact E]. intros n. unfold rrs_node, node_excl. cbn. discriminate.
Qed.
