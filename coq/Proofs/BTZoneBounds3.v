(* C20, layer E3: bounds_eq_spec. *)
From DV Require Import Base.Prelude Model.NameM Model.BTZoneM
     Proofs.BTZoneOrder Proofs.BTZoneList Proofs.BTZoneSpec Proofs.BTZoneWalk Proofs.BTZoneInv
     Proofs.BTZoneMaster Proofs.BTZoneMain Proofs.BTZoneBounds Proofs.BTZoneBounds2.
Open Scope Z_scope.

(* the part of bounds() after the delegation lookup *)
Definition bounds_core (z : zone) (o q target : name) (is_deleg : bool) : res bounds :=
  let cur := c_seek (z_nodes z) target in
  match c_prev cur with
  | (None, _) => Internal eAssert
  | (Some left0, cur1) =>
      do lc <- skip_glue_left left0 cur1 (fst cur1);
      let '(lft, cur2) := lc in
      let '(_, cur3) := c_next cur2 in
      let rgt := skip_glue_right (snd cur3) in
      let lcmp := fullcompare (fst lft) q in
      let rcommon := match rgt with Some r => common (fst r) q | None => zlen o end in
      let n := Z.max (snd lcmp) rcommon in
      Ok (mkBounds (fst lft) (option_map fst rgt) (py_suffix q n)
                   (fst (fst lcmp) =? rEQUAL) is_deleg)
  end.

Lemma bounds_v_unfold : forall c z q0 o q,
    validate_name c (c_origin c) = Ok o -> validate_name c q0 = Ok q ->
    bounds_v c z q0 =
    match fst (get_delegation (z_delegs z) q) with
    | Some d => bounds_core z o q d true
    | None => bounds_core z o q q false
    end.
Proof.
  intros c z q0 o q Eo Eq. unfold bounds_v. rewrite Eo. cbn [bind]. rewrite Eq. cbn [bind].
  destruct (get_delegation (z_delegs z) q) as [[cut|] sub]; reflexivity.
Qed.

(* evaluation of the cursor part: left = first non-glue at or before the target,
   right = first non-glue after it *)
Lemma bounds_core_eval : forall c z o q t is_deleg,
    ZInv c z -> validk c (K t) -> In (apexkey c) (keys (z_nodes z)) ->
    exists b a gl x rest,
      c_seek (z_nodes z) t = (b, a) /\ b = gl ++ x :: rest /\ all_glue gl /\ node_is_glue (snd x) = false /\
      bounds_core z o q t is_deleg =
      Ok (mkBounds (fst x) (option_map fst (skip_glue_right a))
                   (py_suffix q (Z.max (common (fst x) q)
                                       (match skip_glue_right a with Some r => common (fst r) q | None => zlen o end)))
                   (reln (fst x) q =? rEQUAL) is_deleg).
Proof.
  intros c z o q t is_deleg HZ Hv Hapex. unfold ZInv in HZ.
  pose proof (inv_sn c _ HZ) as S. cbn [v_nodes] in S.
  destruct (c_seek (z_nodes z) t) as [b a] eqn:Es.
  apply keys_in in Hapex as (ax & ndx & Hinx & Eax).
  assert (Hgx : node_is_glue ndx = false).
  { rewrite (inv_node_glue c _ ax ndx HZ Hinx). cbn [v_nodes]. apply occluded_false_iff. rewrite Eax.
    apply (apex_not_occk c _ HZ). }
  assert (Hxb : In (ax, ndx) b).
  { eapply nb_in_b; eauto. rewrite Eax. apply below_kle. exact Hv. }
  destruct b as [|left0 b']; [destruct Hxb|].
  destruct (skip_glue_left_spec b' left0 a) as (gl & x & rest & E & Hgl & Hx & Hs).
  { exists (ax, ndx). auto. }
  exists (left0 :: b'), a, gl, x, rest. split; auto. split; auto. split; auto. split; auto.
  unfold bounds_core. rewrite Es. unfold c_prev. cbn [fst snd]. rewrite Hs. cbn [bind].
  unfold c_next. cbn [fst snd].
  assert (Hrg : all_glue (rev gl)) by (intros e He; apply Hgl; apply in_rev; auto).
  rewrite (skip_glue_right_app (rev gl) a Hrg). reflexivity.
Qed.

Lemma name_le_iff : forall a b, name_le a b = true <-> kcmp (K a) (K b) <> Gt.
Proof. intros. apply order_le_kcmp. Qed.

Lemma name_lt_iff : forall a b, name_lt a b = true <-> klt (K a) (K b).
Proof. intros. apply order_lt_kcmp. Qed.

Lemma name_lt_false_iff : forall a b, name_lt a b = false <-> ~ klt (K a) (K b).
Proof. intros. rewrite <- name_lt_iff. destruct (name_lt a b); split; congruence. Qed.

Lemma klt_or_ge : forall a b, klt a b \/ kcmp b a <> Gt.
Proof.
  intros a b. unfold klt. destruct (kcmp a b) eqn:E; auto.
  - right. apply kcmp_eq in E. subst. rewrite kcmp_refl. discriminate.
  - right. apply kcmp_gt_lt in E. rewrite E. discriminate.
Qed.

Definition flag (n : name) : label := if is_absolute n then [1] else [0].

Lemma ekey_flag : forall n, K n = flag n :: lkey n.
Proof. reflexivity. Qed.

Lemma prefix_cons : forall (x : label) p a, prefix (x :: p) (x :: a) <-> prefix p a.
Proof.
  intros. split; intros [s H]; exists s.
  - cbn in H. inversion H. auto.
  - cbn. rewrite H. reflexivity.
Qed.

Lemma zlen_lkey : forall n, zlen (lkey n) = zlen n.
Proof. intros. unfold lkey, zlen. rewrite rev_length, map_length. reflexivity. Qed.

Lemma length_lkey : forall n, length (lkey n) = length n.
Proof. intros. unfold lkey. rewrite rev_length, map_length. reflexivity. Qed.

Theorem bounds_eq_spec_main : forall c z q0 q,
    ZInv c z -> is_absolute (c_origin c) = true -> In (apexkey c) (keys (z_nodes z)) ->
    validate_name c q0 = Ok q -> validk c (K q) ->
    exists b, bounds_v c z q0 = Ok b /\ bounds_spec c (z_nodes z) q b.
Proof.
  intros c z q0 q HZ Habs Hapex Eq Hvq.
  pose proof HZ as HI. unfold ZInv in HI.
  set (l := z_nodes z) in *. set (d := z_delegs z) in *.
  pose proof (inv_sn c _ HI) as S. pose proof (inv_sd c _ HI) as Sd. cbn [v_nodes v_delegs] in S, Sd.
  assert (HG : forall k nd, In (k, nd) l -> node_is_glue nd = occluded c l k).
  { intros k nd Hin. apply (inv_node_glue c _ k nd HI Hin). }
  assert (Hvalid : forall k nd, In (k, nd) l -> validk c (K k)).
  { intros k nd Hin. apply (inv_v c _ HI). eapply in_keys; eauto. }
  assert (Habsn : forall n, validk c (K n) -> is_absolute n = is_absolute q).
  { intros n Hn. rewrite (valid_abs c n Habs Hn), (valid_abs c q Habs Hvq). reflexivity. }
  destruct (validate_origin c Habs) as (o & Eo & Hzo).
  rewrite (bounds_v_unfold c z q0 o q Eo Eq). fold d.
  (* the target and its relation to q *)
  assert (Htarget : exists t is_deleg,
             match fst (get_delegation d q) with
             | Some d0 => bounds_core z o q d0 true
             | None => bounds_core z o q q false
             end = bounds_core z o q t is_deleg /\
             validk c (K t) /\
             is_deleg = existsb (fun d0 => is_subdomain q d0) (delegations_of c l) /\
             (t = q \/ (below (K q) (K t) /\ owner c l (K t) /\ ~ occk c l (K t)))).
  { destruct (get_delegation d q) as [[cut|] sub] eqn:Gd; cbn [fst].
    - apply gd_sound in Gd as (Hin & Hb & _); auto.
      assert (Hkd : In (K cut) (keys d)) by (apply (in_keys _ cut tt); auto).
      pose proof (proj1 (inv_d c _ HI (K cut)) Hkd) as [Ho Hno]. cbn [v_nodes] in Ho, Hno.
      exists cut, true. split; auto. split.
      + apply (inv_v c _ HI). apply (inv_deleg_keys_nodes c _ HI). exact Hkd.
      + split; [|right; auto]. symmetry. apply existsb_exists.
        assert (Hk' : In (K cut) (map K (delegations_of c l))) by (apply delegations_of_in; auto).
        apply in_map_iff in Hk' as (d0 & E0 & Hd0). exists d0. split; auto.
        apply is_subdomain_below. rewrite E0. exact Hb.
    - exists q, false. split; auto. split; auto. split; [|left; auto].
      symmetry. apply not_true_is_false. intros H. apply existsb_exists in H as (d0 & Hd0 & Hs).
      assert (Hk : In (K d0) (keys d)).
      { apply (inv_d c _ HI). cbn [v_nodes]. apply delegations_of_in. apply in_map. auto. }
      apply keys_in in Hk as (x & [] & Hinx & Ex).
      destruct (gd_complete d q x Sd (inv_antichain c _ HI) Hinx) as (x' & _ & G').
      { rewrite Ex. apply is_subdomain_below. auto. }
      rewrite G' in Gd. discriminate. }
  destruct Htarget as (t & is_deleg & -> & Hvt & Hdel & Hcase).
  destruct (bounds_core_eval c z o q t is_deleg HZ Hvt Hapex)
    as (b & a & gl & x & rest & Es & Eb & Hgl & Hx & Ev).
  fold l in Es.
  rewrite Ev. eexists. split; [reflexivity|].
  destruct (nb_left l (occluded c l) S HG t b a Es gl x rest Eb Hgl Hx) as (Hxl & Hxg & Hxt & Hxmax).
  destruct x as [kx ndx]. cbn [fst snd] in *.
  (* below the target but not equal: occluded *)
  assert (Hocc_t : forall v, t <> q \/ True -> (below (K q) (K t) /\ owner c l (K t) /\ ~ occk c l (K t)) ->
                             klt (K t) (K v) -> kcmp (K v) (K q) <> Gt -> occluded c l v = true).
  { intros v _ (Hb & Ho & _) Hlt Hle. apply occluded_iff. exists (K t). split; auto. split.
    - eapply prefix_convex; [apply prefix_refl|exact Hb| |exact Hle]. unfold klt in Hlt. rewrite Hlt. discriminate.
    - apply not_eq_sym, klt_neq. auto. }
  (* the left neighbour relative to q *)
  assert (HL : kcmp (K kx) (K q) <> Gt /\
               forall v nd, In (v, nd) l -> occluded c l v = false -> kcmp (K v) (K q) <> Gt ->
                            kcmp (K v) (K kx) <> Gt).
  { destruct Hcase as [->|Hc]; [split; auto|]. pose proof Hc as (Hb & Ho & Hno).
    destruct Ho as (m & ndm & Hinm & Hnsm & Em).
    assert (Hmg : occluded c l m = false) by (apply occluded_false_iff; rewrite Em; auto).
    assert (Ekx : K kx = K t).
    { apply kcmp_le_antisym; auto. rewrite <- Em. apply (Hxmax m ndm Hinm Hmg).
      rewrite Em, kcmp_refl. discriminate. }
    split.
    - rewrite Ekx. apply below_kle. exact Hb.
    - intros v nd Hin Hg Hle. destruct (klt_or_ge (K t) (K v)) as [Hlt|Hge].
      + rewrite (Hocc_t v (or_intror Logic.I) Hc Hlt Hle) in Hg. discriminate.
      + apply (Hxmax v nd); auto. }
  destruct HL as [HLq HLmax].
  (* the right neighbour relative to q *)
  assert (Htq : kcmp (K t) (K q) <> Gt).
  { destruct Hcase as [->|(Hb & _)]; [rewrite kcmp_refl; discriminate|apply below_kle; auto]. }
  pose proof (skip_glue_right_spec a) as Hr.
  assert (HR : match skip_glue_right a with
               | Some r => In r l /\ occluded c l (fst r) = false /\ klt (K q) (K (fst r)) /\
                           forall v nd, In (v, nd) l -> occluded c l v = false -> klt (K q) (K v) ->
                                        kcmp (K (fst r)) (K v) <> Gt
               | None => forall v nd, In (v, nd) l -> occluded c l v = false -> ~ klt (K q) (K v)
               end).
  { destruct (skip_glue_right a) as [[kr ndr]|].
    - destruct Hr as (gl2 & rest2 & Ea & Hgl2 & Hrg).
      destruct (nb_right_some l (occluded c l) S HG t b a Es gl2 (kr, ndr) rest2 Ea Hgl2 Hrg)
        as (Hrl & Hrgl & Hrt & Hrmin). cbn [fst snd] in *.
      split; auto. split; auto. split.
      + destruct Hcase as [->|Hc]; auto. destruct (klt_or_ge (K q) (K kr)) as [Hlt|Hge]; auto.
        rewrite (Hocc_t kr (or_intror Logic.I) Hc Hrt Hge) in Hrgl. discriminate.
      + intros v nd Hin Hg Hlt. apply (Hrmin v nd); auto. eapply kcmp_le_lt_trans; eauto.
    - intros v nd Hin Hg Hlt.
      assert (occluded c l v = true); [|congruence].
      eapply (nb_right_none l (occluded c l) S HG t b a Es Hr v nd); eauto. eapply kcmp_le_lt_trans; eauto. }
  clear Hr.
  (* relativity and common-label counts *)
  assert (Hvx : validk c (K kx)) by (eapply Hvalid; eauto).
  assert (Hcx : common kx q = lcp (lkey kx) (lkey q)).
  { rewrite common_lcp, (Habsn kx Hvx), Bool.eqb_reflx. reflexivity. }
  assert (Horigin : zlen o <= lcp (lkey kx) (lkey q)).
  { rewrite Hzo. destruct (c_rel c) eqn:Er; [apply lcp_nonneg|].
    rewrite <- zlen_lkey. apply lcp_max.
    - unfold validk, apexkey, apexname in Hvx. rewrite Er in Hvx. apply below_split in Hvx. tauto.
    - unfold validk, apexkey, apexname in Hvq. rewrite Er in Hvq. apply below_split in Hvq. tauto. }
  set (rc := match skip_glue_right a with Some r => common (fst r) q | None => zlen o end) in *.
  set (n := Z.max (common kx q) rc).
  assert (Hrc : match skip_glue_right a with
                | Some r => rc = lcp (lkey (fst r)) (lkey q)
                | None => rc <= common kx q
                end).
  { unfold rc. destruct (skip_glue_right a) as [[kr ndr]|]; [|rewrite Hcx; exact Horigin].
    destruct HR as (Hrl & _). cbn [fst]. rewrite common_lcp, (Habsn kr (Hvalid kr ndr Hrl)), Bool.eqb_reflx.
    reflexivity. }
  assert (Hn : 0 <= n <= zlen q).
  { unfold n. pose proof (lcp_nonneg (lkey kx) (lkey q)). pose proof (lcp_le_r (lkey kx) (lkey q)).
    rewrite zlen_lkey in H0. rewrite Hcx.
    destruct (skip_glue_right a) as [[kr ndr]|].
    - rewrite Hrc. pose proof (lcp_nonneg (lkey kr) (lkey q)). pose proof (lcp_le_r (lkey kr) (lkey q)).
      rewrite zlen_lkey in H2. cbn [fst]. lia.
    - rewrite Hcx in Hrc. lia. }
  set (n' := Z.to_nat n).
  assert (Hn' : (n' <= length q)%nat) by (unfold n', zlen in *; lia).
  assert (Henc : py_suffix q n = skipn (length q - n') q) by (apply py_suffix_skipn; auto).
  set (enc := skipn (length q - n') q) in *.
  assert (Hlenc : lkey enc = firstn n' (lkey q)).
  { unfold enc. rewrite lkey_skipn by lia. f_equal. lia. }
  assert (Hnpos : c_rel c = false -> (1 <= n')%nat).
  { intros Er. pose proof (is_absolute_nonempty _ Habs). unfold n', n. rewrite Hzo, Er in Horigin.
    rewrite Hcx. unfold zlen in Horigin. lia. }
  assert (Habs_enc : is_absolute enc = is_absolute q).
  { unfold enc. destruct (Nat.eq_dec n' 0) as [E0|E0].
    - rewrite E0, Nat.sub_0_r, skipn_all. cbn.
      destruct (c_rel c) eqn:Er; [|specialize (Hnpos eq_refl); lia].
      rewrite (valid_abs c q Habs Hvq), Er. reflexivity.
    - apply is_absolute_skipn. lia. }
  (* a visible name whose common-label count with q is n encloses *)
  assert (Hwit : forall w, validk c (K w) -> n = lcp (lkey w) (lkey q) -> is_subdomain w enc = true).
  { intros w Hw En. apply is_subdomain_below, below_split. split.
    - rewrite Habs_enc. apply Habsn; auto.
    - rewrite Hlenc. unfold n'. rewrite En. apply lcp_firstn. }
  unfold bounds_spec. cbn [b_left b_right b_encloser b_equal b_deleg].
  split; [|split; [|split; [|split]]].
  - (* left *)
    split; [apply visible_in; exists ndx; auto|]. split; [apply name_le_iff; auto|].
    intros v Hv Hle. apply visible_in in Hv as (nd & Hin & Hg). apply name_le_iff.
    apply (HLmax v nd); auto. apply name_le_iff; auto.
  - (* right *)
    destruct (skip_glue_right a) as [[kr ndr]|]; cbn [option_map fst].
    + destruct HR as (Hrl & Hrg & Hrq & Hrmin). cbn [fst] in *.
      split; [apply visible_in; exists ndr; auto|]. split; [apply name_lt_iff; auto|].
      intros v Hv Hlt. apply visible_in in Hv as (nd & Hin & Hg). apply name_le_iff.
      apply (Hrmin v nd); auto. apply name_lt_iff; auto.
    + intros v Hv. apply visible_in in Hv as (nd & Hin & Hg). apply name_lt_false_iff. eapply HR; eauto.
  - (* closest encloser *)
    rewrite Henc. split; [apply skipn_in_suffixes; lia|]. split.
    + destruct (Z.max_spec (common kx q) rc) as [[Hlt Hmax]|[Hge Hmax]].
      * (* n = rc > common kx q: there is a right neighbour *)
        destruct (skip_glue_right a) as [[kr ndr]|]; [|lia].
        destruct HR as (Hrl & Hrg & _). cbn [fst] in *.
        exists kr. split; [apply visible_in; exists ndr; auto|].
        apply Hwit; [eapply Hvalid; eauto|]. unfold n. rewrite Hmax. exact Hrc.
      * exists kx. split; [apply visible_in; exists ndx; auto|].
        apply Hwit; auto. unfold n. rewrite Hmax. exact Hcx.
    + intros s Hs (v & Hv & Hsub). apply visible_in in Hv as (nd & Hin & Hg).
      apply suffixes_skipn in Hs as (k & Hk & ->).
      assert (Hlen_enc : length enc = n') by (unfold enc; rewrite skipn_length; lia).
      rewrite Hlen_enc, skipn_length.
      set (m := (length q - k)%nat).
      apply is_subdomain_below, below_split in Hsub as [_ Hp]. rewrite lkey_skipn in Hp by auto. fold m in Hp.
      set (p := firstn m (lkey q)) in *.
      assert (Hzp : zlen p = Z.of_nat m).
      { unfold p, zlen. rewrite firstn_length_le; auto. rewrite length_lkey. unfold m. lia. }
      assert (Hvv : validk c (K v)) by (eapply Hvalid; eauto).
      assert (HPv : prefix (flag q :: p) (K v)).
      { rewrite ekey_flag. unfold flag. rewrite (Habsn v Hvv). apply prefix_cons. exact Hp. }
      assert (HPq : prefix (flag q :: p) (K q)).
      { rewrite ekey_flag. apply prefix_cons. apply firstn_prefix. }
      assert (Hgoal : Z.of_nat m <= n); [|unfold n' ; lia].
      destruct (klt_or_ge (K q) (K v)) as [Hlt|Hge].
      * (* v > q: through the right neighbour *)
        destruct (skip_glue_right a) as [[kr ndr]|]; [|exfalso; eapply HR; eauto].
        destruct HR as (Hrl & Hrg & Hrq & Hrmin). cbn [fst] in *.
        assert (HPr : prefix (flag q :: p) (K kr)).
        { eapply prefix_convex; [exact HPq|exact HPv| |apply (Hrmin v nd); auto].
          unfold klt in Hrq. rewrite Hrq. discriminate. }
        rewrite ekey_flag in HPr. unfold flag in HPr. rewrite (Habsn kr (Hvalid kr ndr Hrl)) in HPr.
        pose proof (proj1 (prefix_cons _ _ _) HPr) as HPr'.
        pose proof (lcp_max p (lkey kr) (lkey q) HPr' (firstn_prefix m (lkey q))) as Hm.
        unfold n. rewrite Hrc. lia.
      * (* v <= q: through the left neighbour *)
        assert (HPx : prefix (flag q :: p) (K kx)).
        { eapply prefix_convex; [exact HPv|exact HPq|apply (HLmax v nd); auto|exact HLq]. }
        rewrite ekey_flag in HPx. unfold flag in HPx. rewrite (Habsn kx Hvx) in HPx.
        pose proof (proj1 (prefix_cons _ _ _) HPx) as HPx'.
        pose proof (lcp_max p (lkey kx) (lkey q) HPx' (firstn_prefix m (lkey q))) as Hm.
        unfold n. rewrite Hcx. lia.
  - (* is_equal *)
    destruct (reln kx q =? rEQUAL) eqn:E1; destruct (name_eqb kx q) eqn:E2; auto.
    + apply reln_equal_ekey in E1. apply name_eqb_false_ekey in E2. congruence.
    + apply name_eqb_ekey in E2. apply reln_equal_ekey in E2. congruence.
  - exact Hdel.
Qed.
