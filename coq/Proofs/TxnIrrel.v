(* C10: the spelling of owner names (relative / absolute / letter case, Name / str) and the zone
   configuration (zone class, relativize on/off) are irrelevant: histories that differ only in these give
   the same results for every call and zones that look the same. *)
From DV Require Import Base.Prelude Model.NameM Model.TxnM.
From DV Require Import Proofs.NameValid Proofs.NameOrder Proofs.NameRel.
From DV Require Import Proofs.TxnName Proofs.TxnStore Proofs.TxnLow Proofs.TxnSim Proofs.TxnThm.
Open Scope Z_scope.

(* ---------------------------------------------------------------- generic list facts *)
Lemma Forall2_filter {A B} (Rl : A -> B -> Prop) p q l1 l2 :
  Forall2 Rl l1 l2 -> (forall x y, Rl x y -> p x = q y) -> Forall2 Rl (filter p l1) (filter q l2).
Proof.
  intros F H. induction F as [|x y l1 l2 Hxy F IH]; cbn; [constructor|].
  rewrite (H x y Hxy). destruct (q y); auto.
Qed.

Lemma Forall2_existsb {A B} (Rl : A -> B -> Prop) p q l1 l2 :
  Forall2 Rl l1 l2 -> (forall x y, Rl x y -> p x = q y) -> existsb p l1 = existsb q l2.
Proof.
  intros F H. induction F as [|x y l1 l2 Hxy F IH]; cbn; [reflexivity|].
  rewrite (H x y Hxy), IH. reflexivity.
Qed.

Lemma Forall2_find {A B} (Rl : A -> B -> Prop) p q l1 l2 :
  Forall2 Rl l1 l2 -> (forall x y, Rl x y -> p x = q y) ->
  match find p l1, find q l2 with
  | Some x, Some y => Rl x y
  | None, None => True
  | _, _ => False
  end.
Proof.
  intros F H. induction F as [|x y l1 l2 Hxy F IH]; cbn; [exact Logic.I|].
  rewrite (H x y Hxy). destruct (q y); auto.
Qed.

Lemma Forall2_compose {A B C} (R1 : A -> B -> Prop) (R2 : B -> C -> Prop) l1 l2 l3 :
  Forall2 R1 l1 l2 -> Forall2 R2 l2 l3 -> Forall2 (fun a c => exists b, R1 a b /\ R2 b c) l1 l3.
Proof.
  intros F. revert l3. induction F; intros l3 G; inversion G; subst; constructor; eauto.
Qed.

Lemma Forall2_flip {A B} (Rl : A -> B -> Prop) l1 l2 : Forall2 Rl l1 l2 -> Forall2 (fun b a => Rl a b) l2 l1.
Proof. induction 1; constructor; auto. Qed.

Lemma Forall2_impl {A B} (R1 R2 : A -> B -> Prop) l1 l2 :
  (forall a b, R1 a b -> R2 a b) -> Forall2 R1 l1 l2 -> Forall2 R2 l1 l2.
Proof. intros H; induction 1; constructor; auto. Qed.

(* ---------------------------------------------------------------- the reference store only sees owners *)
Definition ent_same (e1 e2 : entry) : Prop := ck (e_name e1) = ck (e_name e2) /\ e_rds e1 = e_rds e2.
Definition ent_rel (l1 l2 : list entry) : Prop := Forall2 ent_same l1 l2.
Definition rst_rel (s1 s2 : rstate) : Prop := ent_rel (rs_entries s1) (rs_entries s2) /\ rs_dirty s1 = rs_dirty s2.

Definition ci (a b : name) : Prop := ck a = ck b.

Section Irrel.
  Variable c1 c2 : cfg.
  Hypothesis W1 : wfc c1.
  Hypothesis W2 : wfc c2.
  Hypothesis Ho : c_origin c1 = c_origin c2.

  (* two spellings of the same owner: both within the DNS limits, and their absolute forms are the
     same name up to letter case (or both are rejected) *)
  Definition ES (n1 n2 : name) : Prop := Valid n1 /\ Valid n2 /\ res_rel ci (canon c1 n1) (canon c2 n2).

  Lemma at_name_same a1 a2 e1 e2 : ci a1 a2 -> ent_same e1 e2 -> at_name a1 e1 = at_name a2 e2.
  Proof. intros Ha [He _]. unfold at_name. apply name_eqb_congr; auto. Qed.

  Lemma at_key_same a1 a2 ty cov e1 e2 : ci a1 a2 -> ent_same e1 e2 -> at_key a1 ty cov e1 = at_key a2 ty cov e2.
  Proof. intros Ha He. unfold at_key. rewrite (at_name_same a1 a2 e1 e2 Ha He). destruct He as [_ ->]. reflexivity. Qed.

  Lemma entries_at_same a1 a2 l1 l2 : ci a1 a2 -> ent_rel l1 l2 -> entries_at a1 l1 = entries_at a2 l2.
  Proof.
    intros Ha F. unfold entries_at. induction F as [|e1 e2 l1 l2 He F IH]; cbn; [reflexivity|].
    rewrite (at_name_same a1 a2 e1 e2 Ha He). destruct (at_name a2 e2); cbn; [|exact IH].
    destruct He as [_ ->]. f_equal. exact IH.
  Qed.

  Ltac canon_cases n1 n2 He :=
    destruct He as (_ & _ & He);
    destruct (canon c1 n1) as [a1|e1|e1], (canon c2 n2) as [a2|e2|e2]; cbn in He |- *;
    try contradiction; try (subst; reflexivity).

  Lemma irr_get s1 s2 n1 n2 ty cov : rst_rel s1 s2 -> ES n1 n2 -> r_get c1 s1 n1 ty cov = r_get c2 s2 n2 ty cov.
  Proof.
    intros [F _] He. unfold r_get. canon_cases n1 n2 He.
    pose proof (Forall2_find ent_same (at_key a1 ty cov) (at_key a2 ty cov) _ _ F
                  (fun x y H => at_key_same a1 a2 ty cov x y He H)) as K.
    destruct (find _ (rs_entries s1)), (find _ (rs_entries s2)); try contradiction; auto.
    destruct K as [_ ->]. reflexivity.
  Qed.

  Lemma irr_put s1 s2 n1 n2 r : rst_rel s1 s2 -> ES n1 n2 -> res_rel rst_rel (r_put c1 s1 n1 r) (r_put c2 s2 n2 r).
  Proof.
    intros [F _] He. unfold r_put. canon_cases n1 n2 He.
    split; cbn; [|reflexivity]. apply Forall2_app.
    - apply Forall2_filter; [exact F|]. intros x y Hxy.
      rewrite (at_name_same a1 a2 x y He Hxy). unfold evicts. destruct Hxy as [_ ->]. reflexivity.
    - constructor; [|constructor]. split; cbn; auto.
  Qed.

  Lemma irr_del_name s1 s2 n1 n2 : rst_rel s1 s2 -> ES n1 n2 -> res_rel rst_rel (r_del_name c1 s1 n1) (r_del_name c2 s2 n2).
  Proof.
    intros [F D] He. unfold r_del_name. canon_cases n1 n2 He.
    rewrite (Forall2_existsb ent_same (at_name a1) (at_name a2) _ _ F (fun x y H => at_name_same a1 a2 x y He H)).
    destruct (existsb _ _); cbn; [|split; auto].
    split; cbn; [|reflexivity]. apply Forall2_filter; [exact F|]. intros x y Hxy.
    rewrite (at_name_same a1 a2 x y He Hxy). reflexivity.
  Qed.

  Lemma irr_del_rds s1 s2 n1 n2 ty cov :
    rst_rel s1 s2 -> ES n1 n2 -> res_rel rst_rel (r_del_rds c1 s1 n1 ty cov) (r_del_rds c2 s2 n2 ty cov).
  Proof.
    intros [F D] He. unfold r_del_rds. canon_cases n1 n2 He.
    split; cbn; [|reflexivity]. apply Forall2_filter; [exact F|]. intros x y Hxy.
    rewrite (at_key_same a1 a2 ty cov x y He Hxy). reflexivity.
  Qed.

  Lemma irr_exists s1 s2 n1 n2 : rst_rel s1 s2 -> ES n1 n2 -> r_exists c1 s1 n1 = r_exists c2 s2 n2.
  Proof.
    intros [F _] He. unfold r_exists. canon_cases n1 n2 He.
    rewrite (Forall2_existsb ent_same (at_name a1) (at_name a2) _ _ F (fun x y H => at_name_same a1 a2 x y He H)).
    reflexivity.
  Qed.

  Lemma irr_node s1 s2 n1 n2 : rst_rel s1 s2 -> ES n1 n2 -> r_node c1 s1 n1 = r_node c2 s2 n2.
  Proof.
    intros [F _] He. unfold r_node. canon_cases n1 n2 He.
    rewrite (entries_at_same a1 a2 _ _ He F). reflexivity.
  Qed.

  Lemma irr_origin n1 n2 : ES n1 n2 -> origin_ok c1 n1 = origin_ok c2 n2.
  Proof.
    intros (V1 & V2 & He). rewrite (origin_ok_canon c1 n1 W1 V1), (origin_ok_canon c2 n2 W2 V2).
    destruct (canon c1 n1), (canon c2 n2); cbn in He; try contradiction; auto.
    rewrite Ho. apply name_eqb_congr; auto.
  Qed.

  Lemma irr_empty : ES NameM.empty NameM.empty.
  Proof.
    split; [apply Valid_nil|split; [apply Valid_nil|]]. unfold canon. rewrite Ho. cbn.
    destruct (mk_name _); cbn; try reflexivity. destruct (_ =? _); reflexivity.
  Qed.

  (* the reference model: same results, same published content (owners up to letter case) *)
  Theorem spec_irrelevant h1 h2 l1 l2 :
    Forall2 (spec_rel ES) h1 h2 -> ent_rel l1 l2 ->
    Forall2 (ROut ent_rel) (spec_hist c1 h1 l1) (spec_hist c2 h2 l2).
  Proof.
    intros F HP. unfold spec_hist.
    apply (sim_run_hist (rstore c1) (rstore c2) c1 c2 ES rst_rel ent_rel false); auto.
    - apply irr_empty.
    - apply irr_origin.
    - intros z1 z2 b H. cbn. destruct b; split; cbn; auto. constructor.
    - intros s1 s2 [H _]. exact H.
    - intros; apply irr_get; auto.
    - intros s2 n ty cov r. apply r_get_cls.
    - intros; apply irr_put; auto.
    - intros; apply irr_del_name; auto.
    - intros; apply irr_del_rds; auto.
    - intros; apply irr_exists; auto.
    - intros; apply irr_node; auto.
    - intros s1 s2 [_ H]. exact H.
    - discriminate.
  Qed.

  (* spec_rel ES histories are valid on both sides *)
  Lemma ES_valid_l h1 h2 : Forall2 (spec_rel ES) h1 h2 -> Forall spec_valid h1.
  Proof.
    assert (forall a b, arg_rel ES a b -> arg_valid a) as Ka
      by (intros a b H; destruct H; cbn; auto; destruct H; auto).
    assert (forall a b, Forall2 (arg_rel ES) a b -> Forall arg_valid a) as Kl
      by (induction 1; constructor; eauto).
    assert (forall o1 o2, op_rel ES o1 o2 -> op_valid o1) as Ko.
    { intros o1 o2 H. destruct H; cbn; eauto; try discriminate. destruct a, b; cbn in *; eauto; contradiction. }
    induction 1 as [|x y h1 h2 (_ & _ & _ & H) F IH]; constructor; auto.
    unfold spec_valid. clear -H Ko. induction H; constructor; eauto.
  Qed.

  Lemma ES_valid_r h1 h2 : Forall2 (spec_rel ES) h1 h2 -> Forall spec_valid h2.
  Proof.
    assert (forall a b, arg_rel ES a b -> arg_valid b) as Ka
      by (intros a b H; destruct H; cbn; auto; destruct H as (_ & H & _); auto).
    assert (forall a b, Forall2 (arg_rel ES) a b -> Forall arg_valid b) as Kl
      by (induction 1; constructor; eauto).
    assert (forall o1 o2, op_rel ES o1 o2 -> op_valid o2) as Ko.
    { intros o1 o2 H. destruct H; cbn; eauto; try discriminate. destruct a, b; cbn in *; eauto; contradiction. }
    induction 1 as [|x y h1 h2 (_ & _ & _ & H) F IH]; constructor; auto.
    unfold spec_valid. clear -H Ko. induction H; constructor; eauto.
  Qed.

  (* two zones that denote the same content *)
  Definition same_zone (z1 z2 : nmap) : Prop := exists l1 l2, RP c1 z1 l1 /\ RP c2 z2 l2 /\ ent_rel l1 l2.

  (* The zone model: two histories that differ only in how owner names are spelled, run on zones of any
     class with relativize on or off, give the same result for every call and zones with the same content *)
  Theorem impl_irrelevant h1 h2 z1 z2 :
    Forall2 (spec_rel ES) h1 h2 -> same_zone z1 z2 ->
    Forall2 (fun x y => fst x = fst y /\ same_zone (snd x) (snd y)) (impl_hist c1 h1 z1) (impl_hist c2 h2 z2).
  Proof.
    intros F (l1 & l2 & P1 & P2 & HL).
    pose proof (refines_hist c1 h1 z1 l1 W1 (ES_valid_l h1 h2 F) P1) as R1.
    pose proof (refines_hist c2 h2 z2 l2 W2 (ES_valid_r h1 h2 F) P2) as R2.
    pose proof (spec_irrelevant h1 h2 l1 l2 F HL) as R3.
    pose proof (Forall2_compose _ _ _ _ _ (Forall2_compose _ _ _ _ _ R1 R3) (Forall2_flip _ _ _ R2)) as K.
    eapply Forall2_impl; [|exact K]. intros x y (b2 & (b1 & [A1 A2] & [B1 B2]) & [C1 C2]).
    split; [congruence|]. exists (snd b1), (snd b2). auto.
  Qed.

  (* ... and "same content" is what an observer of Zone.get_node sees, under either spelling *)
  Theorem same_zone_observe z1 z2 n1 n2 :
    same_zone z1 z2 -> ES n1 n2 -> zone_get_node c1 z1 n1 = zone_get_node c2 z2 n2.
  Proof.
    intros (l1 & l2 & P1 & P2 & HL) He. pose proof He as (V1 & V2 & Hc).
    rewrite (RP_observe c1 z1 l1 n1 W1 V1 P1), (RP_observe c2 z2 l2 n2 W2 V2 P2). unfold ref_node.
    destruct (canon c1 n1), (canon c2 n2); cbn in Hc; try contradiction; auto.
    rewrite (entries_at_same _ _ _ _ Hc HL). reflexivity.
  Qed.
End Irrel.

(* the two spellings the property text names: a relative name and the same name made absolute *)
Lemma ES_rel_abs c r :
  wfc c -> Valid r -> is_absolute r = false -> Valid (r ++ c_origin c) -> ES c c r (r ++ c_origin c).
Proof.
  intros W Vr Ar V. split; [exact Vr|split; [exact V|]].
  assert (canon c r = Ok (r ++ c_origin c)) as E1.
  { unfold canon. rewrite Ar, (mk_name_valid _ V). reflexivity. }
  rewrite E1, (canon_idem c r _ W Vr E1). reflexivity.
Qed.

Lemma ES_refl c n : Valid n -> ES c c n n.
Proof.
  intros V. split; [exact V|split; [exact V|]]. destruct (canon c n); cbn; reflexivity.
Qed.

(* letter case of an absolute in-zone name *)
Lemma ES_case c n n' :
  wfc c -> Valid n -> Valid n' -> ci n n' -> is_absolute n = true -> ES c c n n'.
Proof.
  intros W V V' Hc A. split; [exact V|split; [exact V'|]].
  assert (is_absolute n' = true) as A' by (rewrite <- (ci_equal_absolute n n' Hc); exact A).
  unfold canon. rewrite A, A'.
  assert (is_subdomain n (c_origin c) = is_subdomain n' (c_origin c)) as S.
  { destruct (is_subdomain n (c_origin c)) eqn:S1, (is_subdomain n' (c_origin c)) eqn:S2; auto.
    - apply is_subdomain_iff in S1. destruct S1 as [B (p & s & -> & Hs)].
      assert (is_subdomain n' (c_origin c) = true); [|congruence].
      apply is_subdomain_iff. split; [congruence|].
      unfold ci, ck in Hc. rewrite map_app in Hc. symmetry in Hc. apply map_eq_app_inv in Hc.
      destruct Hc as (p' & s' & -> & Hp & Hs'). exists p', s'. split; [reflexivity|].
      unfold ci_equal in *. etransitivity; [exact Hs'|exact Hs].
    - apply is_subdomain_iff in S2. destruct S2 as [B (p & s & -> & Hs)].
      assert (is_subdomain n (c_origin c) = true); [|congruence].
      apply is_subdomain_iff. split; [congruence|].
      unfold ci, ck in Hc. rewrite map_app in Hc. apply map_eq_app_inv in Hc.
      destruct Hc as (p' & s' & -> & Hp & Hs'). exists p', s'. split; [reflexivity|].
      unfold ci_equal in *. etransitivity; [exact Hs'|exact Hs]. }
  rewrite S. destruct (is_subdomain n' (c_origin c)); cbn; [exact Hc|reflexivity].
Qed.

(* letter case of a relative name *)
Lemma ES_case_rel c r r' :
  wfc c -> Valid r -> Valid r' -> ci r r' -> is_absolute r = false -> ES c c r r'.
Proof.
  intros [Vo Ao] V V' Hc A. split; [exact V|split; [exact V'|]].
  assert (is_absolute r' = false) as A' by (rewrite <- (ci_equal_absolute r r' Hc); exact A).
  unfold canon. rewrite A, A'.
  assert (ci_equal (r ++ c_origin c) (r' ++ c_origin c)) as Hci by (apply ci_equal_app; [exact Hc|reflexivity]).
  destruct (mk_name (r ++ c_origin c)) as [a|e|e] eqn:M.
  - apply mk_name_ok in M. destruct M as [-> Va].
    rewrite (mk_name_valid _ (Valid_ci _ _ Hci Va)). cbn. exact Hci.
  - destruct (mk_name (r' ++ c_origin c)) as [a'|e'|e'] eqn:M'.
    + exfalso. apply mk_name_ok in M'. destruct M' as [_ Va'].
      assert (ci_equal (r' ++ c_origin c) (r ++ c_origin c)) as Hci' by (symmetry; exact Hci).
      rewrite (mk_name_valid _ (Valid_ci _ _ Hci' Va')) in M. discriminate.
    + (* both invalid: only the length limit can fail, on both sides *)
      unfold mk_name in M, M'.
      destruct (validate_labels (r ++ c_origin c)) as [[]| |] eqn:E1; try discriminate.
      destruct (validate_labels (r' ++ c_origin c)) as [[]| |] eqn:E2; try discriminate.
      inversion M; inversion M'; subst.
      apply validate_error in E1. apply validate_error in E2.
      pose proof (ci_equal_label_len _ _ Hci) as L.
      assert (wire_length (r ++ c_origin c) = wire_length (r' ++ c_origin c)) as WL
        by (rewrite !wire_length_lens, L; reflexivity).
      assert (Forall (fun l => zlen l <= 63) (r ++ c_origin c) <-> Forall (fun l => zlen l <= 63) (r' ++ c_origin c)) as FL.
      { assert (forall a b : name, map (@length Z) a = map (@length Z) b ->
                  Forall (fun l => zlen l <= 63) a -> Forall (fun l => zlen l <= 63) b) as K.
        { induction a as [|x a IH]; destruct b as [|y b]; intros Hl Hf; try discriminate; [constructor|].
          inversion Hl. inversion Hf; subst. constructor; [unfold zlen in *; congruence|apply IH; auto]. }
        split; apply K; [exact L|symmetry; exact L]. }
      destruct E1 as [[-> H1]|[[-> (H1 & H1')]|[-> (H1 & H1' & H1'')]]],
               E2 as [[-> H2]|[[-> (H2 & H2')]|[-> (H2 & H2' & H2'')]]];
        cbn; try reflexivity; try (exfalso; tauto); try (exfalso; lia).
    + exfalso. eapply mk_name_never_internal; eauto.
  - exfalso. eapply mk_name_never_internal; eauto.
Qed.
