(* Hex and base64 fields: decode (encode d) = d for every octet string, the alphabets contain no
   tokenizer delimiter, and _wordbreak with any chunk size > 0 and a separator made of blanks
   produces a text that concatenate_remaining_identifiers reads back as the unbroken string. *)
From DV Require Import Base.Prelude Model.TokM Proofs.TokWords Proofs.TokEsc.
Open Scope Z_scope.

Ltac Zify.zify_post_hook ::= Z.to_euclidean_division_equations.

(* ---------- hex ---------- *)
Lemma hexval_digit v : 0 <= v < 16 -> hexval (hexdigit v) = Some v.
Proof.
  intros Hv. unfold hexval, hexdigit, digit_val.
  destruct (v <? 10) eqn:E.
  - replace ((48 <=? 48 + v) && (48 + v <=? 57)) with true by lia.
    replace (48 + v - 48 <? 16) with true by lia. f_equal. lia.
  - replace ((48 <=? 87 + v) && (87 + v <=? 57)) with false by lia.
    replace ((97 <=? 87 + v) && (87 + v <=? 122)) with true by lia.
    replace (87 + v - 87 <? 16) with true by lia. f_equal. lia.
Qed.

Theorem unhexlify_hexlify d : all_bytes d = true -> unhexlify (hexlify d) = Ok d.
Proof.
  induction d as [|b d IH]; intros Hd; [reflexivity|].
  cbn [all_bytes forallb] in Hd. apply andb_true_iff in Hd as [Hb Hd]. apply is_byte_range in Hb.
  unfold hexlify in *. cbn [flat_map app unhexlify].
  rewrite !hexval_digit by lia. rewrite IH by exact Hd. cbn [bind]. f_equal. f_equal. lia.
Qed.

Lemma hexdigit_safe v : 0 <= v < 16 -> safe (hexdigit v) = true /\ 0 <= hexdigit v < 128.
Proof.
  intros Hv. unfold hexdigit. destruct (v <? 10) eqn:E; (split; [|lia]); unfold safe, is_delim.
  all: match goal with |- context [?c =? 32] =>
         replace (c =? 32) with false by lia; replace (c =? 9) with false by lia;
         replace (c =? 10) with false by lia; replace (c =? 59) with false by lia;
         replace (c =? 40) with false by lia; replace (c =? 41) with false by lia;
         replace (c =? 34) with false by lia; replace (c =? 92) with false by lia end; reflexivity.
Qed.

Lemma hexlify_safe d : all_bytes d = true ->
  forallb safe (hexlify d) = true /\ all_ascii (hexlify d) = true.
Proof.
  induction d as [|b d IH]; intros Hd; [split; reflexivity|].
  cbn [all_bytes forallb] in Hd. apply andb_true_iff in Hd as [Hb Hd]. apply is_byte_range in Hb.
  destruct (IH Hd) as [I1 I2]. unfold hexlify in *. cbn [flat_map app forallb all_ascii].
  destruct (hexdigit_safe (b / 16) ltac:(lia)) as [A1 A2].
  destruct (hexdigit_safe (b mod 16) ltac:(lia)) as [B1 B2].
  rewrite A1, B1, I1. unfold all_ascii in I2. rewrite I2. split; [reflexivity|].
  replace ((0 <=? hexdigit (b / 16)) && (hexdigit (b / 16) <? 128)) with true by lia.
  replace ((0 <=? hexdigit (b mod 16)) && (hexdigit (b mod 16) <? 128)) with true by lia. reflexivity.
Qed.

(* ---------- base64 ---------- *)
Definition b64_ok (v : Z) : bool :=
  match b64val (b64char v) with
  | Some v' => (v' =? v) && negb (b64char v =? 61) && safe (b64char v)
               && (0 <=? b64char v) && (b64char v <? 128)
  | None => false
  end.

Lemma b64_ok_all : forallb b64_ok (map Z.of_nat (seq 0 64)) = true.
Proof. vm_compute. reflexivity. Qed.

Lemma b64val_char v : 0 <= v < 64 ->
  b64val (b64char v) = Some v /\ (b64char v =? 61) = false /\ safe (b64char v) = true
  /\ 0 <= b64char v < 128.
Proof.
  intros Hv. pose proof b64_ok_all as H. rewrite forallb_forall in H.
  specialize (H v). unfold b64_ok in H.
  assert (Hin : In v (map Z.of_nat (seq 0 64))).
  { rewrite <- (Z2Nat.id v) by lia. apply in_map. apply in_seq. lia. }
  specialize (H Hin). destruct (b64val (b64char v)) as [v'|]; [|discriminate].
  repeat (apply andb_true_iff in H as [H ?]).
  apply negb_true_iff in H3. split; [f_equal; lia|]. split; [exact H3|]. split; [assumption|lia].
Qed.

Fixpoint list_ind3 {A} (P : list A -> Prop) (H0 : P []) (H1 : forall a, P [a]) (H2 : forall a b, P [a; b])
         (H3 : forall a b c r, P r -> P (a :: b :: c :: r)) (l : list A) : P l :=
  match l with
  | [] => H0
  | [a] => H1 a
  | [a; b] => H2 a b
  | a :: b :: c :: r => H3 a b c r (list_ind3 P H0 H1 H2 H3 r)
  end.

Lemma b64_step v r qp left pads acc : 0 <= v < 64 ->
  b64dec_loop (b64char v :: r) qp left pads acc
  = match qp with
    | 0%nat => b64dec_loop r 1%nat v 0%nat acc
    | 1%nat => b64dec_loop r 2%nat (v mod 16) 0%nat ((left * 4 + v / 16) :: acc)
    | 2%nat => b64dec_loop r 3%nat (v mod 4) 0%nat ((left * 16 + v / 4) :: acc)
    | _ => b64dec_loop r 0%nat 0 0%nat ((left * 64 + v) :: acc)
    end.
Proof.
  intros Hv. destruct (b64val_char v Hv) as (A & B & _). cbn [b64dec_loop]. rewrite A, B. reflexivity.
Qed.

Lemma b64decode_encode_acc d : all_bytes d = true -> forall acc,
  b64dec_loop (b64encode d) 0%nat 0 0%nat acc = Ok (rev acc ++ d).
Proof.
  induction d as [|a|a b|a b c r IH] using list_ind3; intros Hd acc.
  - cbn. rewrite app_nil_r. reflexivity.
  - cbn [all_bytes forallb] in Hd. rewrite andb_true_r in Hd. apply is_byte_range in Hd.
    cbn [b64encode]. rewrite !b64_step by lia. cbn [b64dec_loop].
    replace (61 =? 61) with true by reflexivity. cbn [Nat.leb Nat.add rev].
    f_equal. f_equal. f_equal. lia.
  - cbn [all_bytes forallb] in Hd. rewrite andb_true_r in Hd. apply andb_true_iff in Hd as [Ha Hb].
    apply is_byte_range in Ha. apply is_byte_range in Hb.
    cbn [b64encode]. rewrite !b64_step by lia. cbn [b64dec_loop].
    replace (61 =? 61) with true by reflexivity. cbn [Nat.leb Nat.add rev].
    rewrite <- app_assoc. cbn [app]. f_equal. f_equal. f_equal; [lia|f_equal; lia].
  - cbn [all_bytes forallb] in Hd. apply andb_true_iff in Hd as [Ha Hd].
    apply andb_true_iff in Hd as [Hb Hd]. apply andb_true_iff in Hd as [Hc Hd].
    apply is_byte_range in Ha. apply is_byte_range in Hb. apply is_byte_range in Hc.
    cbn [b64encode]. rewrite !b64_step by lia. rewrite IH by exact Hd.
    cbn [rev]. rewrite <- !app_assoc. cbn [app]. f_equal. f_equal. f_equal; [lia|].
    f_equal; [lia|]. f_equal. lia.
Qed.

Theorem b64decode_b64encode d : all_bytes d = true -> b64decode (b64encode d) = Ok d.
Proof. intros Hd. unfold b64decode. rewrite b64decode_encode_acc by exact Hd. reflexivity. Qed.

Lemma safe61 : safe 61 = true.
Proof. reflexivity. Qed.

Lemma b64encode_safe d : all_bytes d = true ->
  forallb safe (b64encode d) = true /\ all_ascii (b64encode d) = true.
Proof.
  induction d as [|a|a b|a b c r IH] using list_ind3; intros Hd.
  - split; reflexivity.
  - cbn [all_bytes forallb] in Hd. rewrite andb_true_r in Hd. apply is_byte_range in Hd.
    cbn [b64encode forallb all_ascii].
    destruct (b64val_char (a / 4) ltac:(lia)) as (_ & _ & S1 & R1).
    destruct (b64val_char (a mod 4 * 16) ltac:(lia)) as (_ & _ & S2 & R2).
    rewrite S1, S2. split; [reflexivity|].
    replace ((0 <=? b64char (a / 4)) && (b64char (a / 4) <? 128)) with true by lia.
    replace ((0 <=? b64char (a mod 4 * 16)) && (b64char (a mod 4 * 16) <? 128)) with true by lia. reflexivity.
  - cbn [all_bytes forallb] in Hd. rewrite andb_true_r in Hd. apply andb_true_iff in Hd as [Ha Hb].
    apply is_byte_range in Ha. apply is_byte_range in Hb.
    cbn [b64encode forallb all_ascii].
    destruct (b64val_char (a / 4) ltac:(lia)) as (_ & _ & S1 & R1).
    destruct (b64val_char (a mod 4 * 16 + b / 16) ltac:(lia)) as (_ & _ & S2 & R2).
    destruct (b64val_char (b mod 16 * 4) ltac:(lia)) as (_ & _ & S3 & R3).
    rewrite S1, S2, S3. split; [reflexivity|].
    replace ((0 <=? b64char (a / 4)) && (b64char (a / 4) <? 128)) with true by lia.
    replace ((0 <=? b64char (a mod 4 * 16 + b / 16)) && (b64char (a mod 4 * 16 + b / 16) <? 128)) with true by lia.
    replace ((0 <=? b64char (b mod 16 * 4)) && (b64char (b mod 16 * 4) <? 128)) with true by lia. reflexivity.
  - cbn [all_bytes forallb] in Hd. apply andb_true_iff in Hd as [Ha Hd].
    apply andb_true_iff in Hd as [Hb Hd]. apply andb_true_iff in Hd as [Hc Hd].
    apply is_byte_range in Ha. apply is_byte_range in Hb. apply is_byte_range in Hc.
    destruct (IH Hd) as [I1 I2]. cbn [b64encode forallb all_ascii].
    destruct (b64val_char (a / 4) ltac:(lia)) as (_ & _ & S1 & R1).
    destruct (b64val_char (a mod 4 * 16 + b / 16) ltac:(lia)) as (_ & _ & S2 & R2).
    destruct (b64val_char (b mod 16 * 4 + c / 64) ltac:(lia)) as (_ & _ & S3 & R3).
    destruct (b64val_char (c mod 64) ltac:(lia)) as (_ & _ & S4 & R4).
    rewrite S1, S2, S3, S4, I1. unfold all_ascii in I2. rewrite I2. split; [reflexivity|].
    replace ((0 <=? b64char (a / 4)) && (b64char (a / 4) <? 128)) with true by lia.
    replace ((0 <=? b64char (a mod 4 * 16 + b / 16)) && (b64char (a mod 4 * 16 + b / 16) <? 128)) with true by lia.
    replace ((0 <=? b64char (b mod 16 * 4 + c / 64)) && (b64char (b mod 16 * 4 + c / 64) <? 128)) with true by lia.
    replace ((0 <=? b64char (c mod 64)) && (b64char (c mod 64) <? 128)) with true by lia. reflexivity.
Qed.

(* ---------- _wordbreak ---------- *)
Lemma chunks_concat n : (0 < n)%nat -> forall f d, (length d <= f)%nat ->
  concat (chunks_fuel f n d) = d /\
  Forall (fun u => u <> [] /\ incl u d) (chunks_fuel f n d).
Proof.
  intros Hn. induction f as [|f IH]; intros d Hf.
  - destruct d; [split; [reflexivity|constructor]|cbn in Hf; lia].
  - cbn [chunks_fuel]. destruct d as [|x d]; [split; [reflexivity|constructor]|].
    destruct (IH (skipn n (x :: d))) as [I1 I2].
    { rewrite skipn_length. cbn [length] in *. lia. }
    split.
    + cbn [concat]. rewrite I1. apply firstn_skipn.
    + constructor.
      * split; [destruct n; [lia|discriminate]|].
        intros y Hy. rewrite <- (firstn_skipn n (x :: d)). apply in_or_app. left. exact Hy.
      * eapply Forall_impl; [|exact I2]. intros u [U1 U2]. split; [exact U1|].
        intros y Hy. rewrite <- (firstn_skipn n (x :: d)). apply in_or_app. right. apply U2, Hy.
Qed.

Lemma chunked_blanks bl w t : forallb is_blank bl = true -> chunked w t -> chunked w (bl ++ t).
Proof.
  induction bl as [|b bl IH]; intros Hbl H; [exact H|].
  cbn [forallb] in Hbl. apply andb_true_iff in Hbl as [Hb Hbl].
  cbn [app]. apply ch_blank; [exact Hb|]. apply IH; assumption.
Qed.

Lemma chunked_single w : forallb safe w = true -> chunked w w.
Proof.
  intros Hw. destruct w as [|c w]; [constructor|].
  rewrite <- (app_nil_r (c :: w)) at 1. rewrite <- (app_nil_r (c :: w)) at 2.
  apply ch_word; [discriminate|exact Hw|left; reflexivity|constructor].
Qed.

Lemma join_chunked sep cs : sep <> [] -> forallb is_blank sep = true ->
  Forall (fun u => u <> [] /\ forallb safe u = true) cs ->
  chunked (concat cs) (join_sep sep cs).
Proof.
  intros Hne Hsep. induction cs as [|x cs IH]; intros Hcs; [constructor|].
  inversion Hcs as [|? ? [Hx1 Hx2] Hcs']; subst.
  destruct cs as [|y cs].
  - cbn [concat join_sep]. rewrite app_nil_r. apply chunked_single, Hx2.
  - change (join_sep sep (x :: y :: cs)) with (x ++ sep ++ join_sep sep (y :: cs)).
    change (concat (x :: y :: cs)) with (x ++ concat (y :: cs)).
    apply ch_word; [exact Hx1|exact Hx2| |].
    + right. destruct sep as [|b sep]; [congruence|]. cbn [forallb] in Hsep.
      apply andb_true_iff in Hsep as [Hb _]. exists b, (sep ++ join_sep (b :: sep) (y :: cs)).
      split; [reflexivity|exact Hb].
    + apply chunked_blanks; [exact Hsep|]. apply IH, Hcs'.
Qed.

Lemma join_nil_concat cs : join_sep [] cs = concat cs.
Proof.
  induction cs as [|x cs IH]; [reflexivity|]. destruct cs as [|y cs].
  - cbn. rewrite app_nil_r. reflexivity.
  - change (join_sep [] (x :: y :: cs)) with (x ++ [] ++ join_sep [] (y :: cs)).
    rewrite IH. reflexivity.
Qed.

Theorem wordbreak_chunked w chunk sep :
  forallb safe w = true -> forallb is_blank sep = true -> chunked w (wordbreak w chunk sep).
Proof.
  intros Hw Hsep. unfold wordbreak. destruct (chunk <=? 0) eqn:E; [apply chunked_single, Hw|].
  destruct (chunks_concat (Z.to_nat chunk) ltac:(lia) (length w) w (le_n _)) as [C1 C2].
  destruct sep as [|b sep].
  - rewrite join_nil_concat, C1. apply chunked_single, Hw.
  - rewrite <- C1 at 1. apply join_chunked; [discriminate|exact Hsep|].
    eapply Forall_impl; [|exact C2]. intros u [U1 U2]. split; [exact U1|].
    rewrite forallb_forall in *. intros y Hy. apply Hw, U2, Hy.
Qed.
