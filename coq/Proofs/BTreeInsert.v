(* C19 - insertion: insert_nonfull with pre-emptive split and in-order optimisation keeps the
   tree well-formed and inserts into the in-order traversal like a sorted association list. *)
From DV Require Import Base.Prelude Model.BTreeM Proofs.BTreeBase Proofs.BTreeWf.

Ltac len_lia := cbn [n_elts] in *; rewrite ?app_length in *; cbn [length] in *; lia.

Lemma app_eq_len {A} (a a' b b' : list A) : a ++ b = a' ++ b' -> length a' = length a -> a' = a /\ b' = b.
Proof.
  revert a'. induction a as [|x a IH]; intros [|x' a'] He Hl; try discriminate; cbn in *.
  - auto.
  - inversion He; subst. destruct (IH a' H1) as (-> & ->); [lia|]. auto.
Qed.

Lemma node_decomp1 {A B} (es : list A) (ks : list B) i :
  length ks = S (length es) -> (i <= length es)%nat ->
  exists ea eb ka c kb, es = ea ++ eb /\ ks = ka ++ c :: kb /\ length ea = i /\ length ka = i /\ length kb = length eb.
Proof.
  intros Hl Hi. destruct (list_split_at es i Hi) as (ea & eb & -> & Hea).
  destruct (split_at_ok i ks) as (ka & c & kb & _ & -> & Hka); [lia|].
  exists ea, eb, ka, c, kb. repeat split; try assumption.
  rewrite !app_length in Hl. cbn in Hl. lia.
Qed.

Lemma node_decomp2 {A B} (es : list A) (ks : list B) i :
  length ks = S (length es) -> (i < length es)%nat ->
  exists ea pe eb ka l r kb, es = ea ++ pe :: eb /\ ks = ka ++ l :: r :: kb /\ length ea = i /\ length ka = i /\ length kb = length eb.
Proof.
  intros Hl Hi. destruct (node_decomp1 es ks i Hl) as (ea & eb & ka & l & kb & -> & -> & H1 & H2 & H3); [lia|].
  destruct eb as [|pe eb]; [rewrite app_length in Hi; cbn in Hi; lia|].
  destruct kb as [|r kb]; [discriminate|].
  exists ea, pe, eb, ka, l, r, kb. repeat split; try assumption. cbn in H3. lia.
Qed.

Lemma elements_at_elt ea eb ks :
  length ks = S (length (ea ++ (0, 0) :: eb)) ->
  exists A B, forall x, elements (Node false (ea ++ x :: eb) ks) = A ++ x :: B.
Proof.
  intros Hl. destruct (node_decomp2 (ea ++ (0, 0) :: eb) ks (length ea) Hl) as (ea' & pe & eb' & ka & l & r & kb & He & -> & H1 & H2 & H3).
  { rewrite app_length. cbn. lia. }
  destruct (app_eq_len _ _ _ _ He H1) as (-> & Hq). inversion Hq; subst eb' pe.
  exists (zipl ka ea ++ elements l), (elements r ++ zipr eb kb). intros x.
  rewrite elements_split2 by assumption. now rewrite <- !app_assoc.
Qed.

Lemma ins_sorted_sorted e l : ksorted l -> ksorted (ins_sorted e l).
Proof.
  induction l as [|[k v] r IH]; cbn; intros Hs; [split; [constructor|exact Logic.I]|].
  destruct Hs as (Hg & Hs).
  destruct (Z.eqb_spec (fst e) k) as [Heq|Hne]; [cbn; rewrite Heq; auto|].
  destruct (Z.ltb_spec (fst e) k).
  - cbn. split; [|split; assumption]. constructor; [cbn; lia|]. eapply all_gt_weaken; [|exact Hg]. cbn. lia.
  - cbn. split; [|auto]. clear IH Hs. induction r as [|[k' v'] r IHr]; cbn.
    + constructor; [cbn; lia|constructor].
    + inversion Hg; subst. cbn in *.
      destruct (Z.eqb_spec (fst e) k'); [constructor; [cbn; lia|assumption]|].
      destruct (Z.ltb_spec (fst e) k'); [constructor; [cbn; lia|now constructor]|].
      constructor; [assumption|]. now apply IHr.
Qed.

Section INS.
Variable t : nat.
Hypothesis Ht : (3 <= t)%nat.
Notation wfn := (wfn t).

(* ---------------------------------------------------------------- rebuilding a parent *)

Lemma wfn_replace1 lo h ea eb ka c kb c' :
  wfn lo (S h) (Node false (ea ++ eb) (ka ++ c :: kb)) -> wfn (t_min t) h c' ->
  wfn lo (S h) (Node false (ea ++ eb) (ka ++ c' :: kb)).
Proof.
  intros H Hc. apply wfn_inv in H as (Hb & [(? & _)|(_ & h' & Hh & Hk & Hall)]); [discriminate|].
  inversion Hh; subst h'. constructor; [assumption|rewrite app_length in *; cbn in *; lia|].
  apply Forall_mid in Hall as (H1 & _ & H3). apply Forall_mid. auto.
Qed.

Lemma wfn_replace2 lo h ea pe eb ka l r kb pe' l' r' :
  wfn lo (S h) (Node false (ea ++ pe :: eb) (ka ++ l :: r :: kb)) -> wfn (t_min t) h l' -> wfn (t_min t) h r' ->
  wfn lo (S h) (Node false (ea ++ pe' :: eb) (ka ++ l' :: r' :: kb)).
Proof.
  intros H Hl Hr. apply wfn_inv in H as (Hb & [(? & _)|(_ & h' & Hh & Hk & Hall)]); [discriminate|].
  inversion Hh; subst h'. constructor; [rewrite app_length in *; cbn in *; lia|rewrite !app_length in *; cbn in *; lia|].
  apply Forall_mid in Hall as (H1 & _ & H3). inversion H3; subst. apply Forall_mid. repeat split; auto.
Qed.




(* ---------------------------------------------------------------- optimize_in_order_insertion *)

Lemma opt_loop_spec fuel : forall h ea pe eb ka l r kb lol,
  length ka = length ea -> length kb = length eb ->
  wfn lol h l -> wfn (t_min t) h r -> (t_max t - length (n_elts l) < fuel)%nat ->
  exists l' pe' r',
    opt_loop fuel t (Node false (ea ++ pe :: eb) (ka ++ l :: r :: kb)) (length ka)
      = Ok (Node false (ea ++ pe' :: eb) (ka ++ l' :: r' :: kb)) /\
    wfn lol h l' /\ wfn (t_min t) h r' /\
    elements l' ++ pe' :: elements r' = elements l ++ pe :: elements r.
Proof.
  induction fuel as [|f IH]; intros h ea pe eb ka l r kb lol H1 H2 Hl Hr Hf; [lia|].
  cbn [opt_loop n_kids]. rewrite split_at_app by reflexivity. cbn [bind].
  destruct (Nat.ltb_spec (length (n_elts l)) (t_max t)) as [Hlt|Hge].
  - pose proof (try_right_steal_spec t Ht h ea pe eb ka l r kb lol H1 H2 Hl Hr Hlt) as Hs. cbn zeta in Hs.
    destruct (Nat.eqb_spec (length (n_elts r)) (t_min t)).
    + rewrite Hs. cbn [bind]. exists l, pe, r. auto.
    + destruct Hs as (l' & re & r' & -> & Hl' & Hr' & Hll & Hrl & He & _). cbn [bind].
      destruct (IH h ea re eb ka l' r' kb lol H1 H2 Hl' Hr') as (l2 & pe2 & r2 & -> & ? & ? & He2); [lia|].
      exists l2, pe2, r2. repeat split; try assumption. congruence.
  - exists l, pe, r. auto.
Qed.

Lemma optimize_spec lo h p i :
  wfn lo (S h) p -> n_leaf p = false -> (i <= length (n_elts p))%nat ->
  exists p', optimize_in_order_insertion t p i = Ok p' /\ wfn lo (S h) p' /\ elements p' = elements p /\
             length (n_elts p') = length (n_elts p).
Proof.
  intros Hw Hnl Hi. destruct i as [|li]; [exists p; auto|].
  destruct p as [lf es ks]. pose proof Hw as Hw0. cbn in Hnl. subst lf.
  apply wfn_inv in Hw as (Hb & [(? & Hh & _)|(_ & h' & Hh & Hk & Hall)]); [discriminate|].
  inversion Hh; subst h'. cbn [n_elts] in Hi.
  destruct (node_decomp2 es ks li Hk) as (ea & pe & eb & ka & l & r & kb & -> & -> & H1 & H2 & H3); [lia|].
  assert (Hka : length ka = length ea) by lia. rewrite <- H2. clear H1 H2.
  cbn [optimize_in_order_insertion n_kids]. rewrite split_at_app by reflexivity. cbn [bind].
  destruct (Nat.eqb_spec (length (n_elts l)) (t_max t)).
  - exists (Node false (ea ++ pe :: eb) (ka ++ l :: r :: kb)). auto.
  - apply Forall_mid in Hall as (Ha & Hl & Hrb). inversion Hrb; subst.
    destruct (opt_loop_spec (S (t_max t)) h ea pe eb ka l r kb (t_min t)) as (l' & pe' & r' & -> & Hl' & Hr' & He);
      try assumption; try congruence; [lia|].
    eexists. split; [reflexivity|]. split; [eapply wfn_replace2; eassumption|]. split.
    + rewrite !elements_split2 by congruence. now rewrite He.
    + cbn. rewrite !app_length. reflexivity.
Qed.

(* ---------------------------------------------------------------- one iteration of insert_nonfull *)

Definition ins_ok (lo h : nat) (n : tree) (e : elt) (g : nat) (r : res (tree * option elt)) : Prop :=
  exists n', r = Ok (n', find_sorted (fst e) (elements n)) /\ wfn lo h n' /\
             elements n' = ins_sorted e (elements n) /\
             (length (n_elts n) <= length (n_elts n') <= length (n_elts n) + g)%nat.

Definition rec_ok (rec : tree -> res (tree * option elt)) (e : elt) (h' : nat) : Prop :=
  forall c, wfn (t_min t) h' c -> (length (n_elts c) < t_max t)%nat -> ksorted (elements c) ->
            ins_ok (t_min t) h' c e 1 (rec c).


Lemma ins_iter_nosplit io rec again lo h n e :
  wfn lo h n -> ksorted (elements n) ->
  (n_leaf n = true -> (length (n_elts n) < t_max t)%nat) ->
  (forall h', h = S h' -> rec_ok rec e h') ->
  (snd (lsearch (fst e) (n_elts n)) = false ->
   forall c, nth_error (n_kids n) (fst (lsearch (fst e) (n_elts n))) = Some c -> (length (n_elts c) < t_max t)%nat) ->
  ins_ok lo h n e (if n_leaf n then 1 else 0) (ins_iter t io rec again n e).
Proof.
  intros Hw Hs Hleaf Hrec Hkid. pose proof (node_es_sorted t Ht _ _ _ Hw Hs) as Hes.
  destruct n as [lf es ks]. cbn [n_leaf n_elts n_kids] in *. destruct e as [k v0]. cbn [fst] in *.
  unfold ins_iter. cbn [fst].
  destruct (search_cases k es Hes) as [(ea & v & eb & -> & Hsr & Hlt & Hgt)|(ea & eb & -> & Hsr & Hlt & Hgt)].
  - (* replace *)
    rewrite Hsr. cbn [bind]. rewrite split_at_app by reflexivity. cbn [bind].
    exists (Node lf (ea ++ (k, v0) :: eb) ks).
    apply wfn_inv in Hw as (Hb & Hsh).
    assert (Hw' : wfn lo h (Node lf (ea ++ (k, v0) :: eb) ks)).
    { destruct Hsh as [(-> & -> & ->)|(-> & h' & -> & Hk & Hall)]; constructor; rewrite ?app_length in *; cbn in *; auto. }
    assert (Hlen : length (ea ++ (k, v0) :: eb) = length (ea ++ (k, v) :: eb)) by (rewrite !app_length; reflexivity).
    destruct Hsh as [(-> & -> & ->)|(-> & h' & -> & Hk & Hall)].
    + cbn [elements]. rewrite find_sorted_lt, ins_sorted_lt by assumption. cbn [find_sorted ins_sorted fst]. rewrite Z.eqb_refl.
      repeat split; try assumption; try reflexivity; len_lia.
    + destruct (elements_at_elt ea eb ks) as (A & B & HAB).
      { rewrite Hk, !app_length. reflexivity. }
      rewrite !HAB in *. apply ksorted_mid in Hs as (HA & _). cbn [fst] in HA.
      rewrite find_sorted_lt, ins_sorted_lt by assumption. cbn [find_sorted ins_sorted fst]. rewrite Z.eqb_refl.
      repeat split; try assumption; try reflexivity; len_lia.
  - rewrite Hsr. cbn [bind].
    assert (Hls : lsearch k (ea ++ eb) = (length ea, false)) by (now apply lsearch_miss).
    rewrite Hls in Hkid. cbn [fst snd] in Hkid. specialize (Hkid eq_refl).
    apply wfn_inv in Hw as (Hb & [(-> & -> & ->)|(-> & h' & -> & Hk & Hall)]).
    + (* leaf insert *)
      rewrite insert_at_app by reflexivity. exists (Node true (ea ++ (k, v0) :: eb) []).
      specialize (Hleaf eq_refl). cbn [elements].
      rewrite find_sorted_lt, ins_sorted_lt by assumption. rewrite find_sorted_gt, ins_sorted_gt by assumption.
      repeat split; try reflexivity; try len_lia. constructor. len_lia.
    + (* descend *)
      destruct (node_decomp1 (ea ++ eb) ks (length ea) Hk) as (ea' & eb' & ka & c & kb & He & -> & H1 & H2 & H3).
      { rewrite app_length. lia. }
      destruct (app_eq_len _ _ _ _ He H1) as (-> & ->).
      rewrite split_at_app by assumption. cbn [bind].
      apply Forall_mid in Hall as (Ha & Hc & Hbk).
      rewrite (is_maximal_ok t Ht _ _ _ Hc). cbn [bind].
      specialize (Hkid c). rewrite <- H2, nth_error_app_mid in Hkid. specialize (Hkid eq_refl).
      destruct (Nat.eqb_spec (length (n_elts c)) (t_max t)); [lia|].
      destruct (kid_sorted ea eb ka c kb H2 H3 Hs) as (Hcs & Hzl & Hzr & Hcb & Hbound).
      destruct (Hrec h' eq_refl c Hc Hkid Hcs) as (c' & -> & Hc' & Hec & Hlc). cbn [bind].
      assert (Hn' : wfn lo (S h') (Node false (ea ++ eb) (ka ++ c' :: kb))).
      { apply (wfn_replace1 lo h' ea eb ka c kb c'); [|exact Hc']. constructor; [assumption|assumption|]. apply Forall_mid. auto. }
      assert (HA : all_lt (zipl ka ea) k) by (apply zipl_lt; assumption).
      assert (HB : all_gt (zipr eb kb) k) by (apply zipr_gt; assumption).
      assert (Hel : elements (Node false (ea ++ eb) (ka ++ c' :: kb)) =
                    ins_sorted (k, v0) (elements (Node false (ea ++ eb) (ka ++ c :: kb)))).
      { rewrite !elements_split by assumption. rewrite Hec. symmetry. now apply ins_sorted_in_mid. }
      assert (Hfind : find_sorted k (elements (Node false (ea ++ eb) (ka ++ c :: kb))) = find_sorted k (elements c)).
      { rewrite elements_split by assumption. now apply find_sorted_in_mid. }
      unfold ins_ok. cbn [fst n_elts n_leaf] in *. rewrite Hfind.
      destruct io.
      * destruct (optimize_spec lo h' _ (length ea) Hn' eq_refl) as (p' & Hop & Hwp & Hep & Hlp).
        { cbn. rewrite app_length. lia. }
        rewrite <- H2 in Hop. rewrite H2 in Hop. rewrite Hop. cbn [bind].
        exists p'. repeat split; try assumption; [congruence|rewrite Hlp; cbn; lia|rewrite Hlp; cbn; lia].
      * eexists. split; [reflexivity|]. repeat split; try assumption; cbn; lia.
Qed.

(* ---------------------------------------------------------------- insert_nonfull *)

Lemma ins_ok_weaken lo h n e g g' r : (g <= g')%nat -> ins_ok lo h n e g r -> ins_ok lo h n e g' r.
Proof. intros Hg (n' & ? & ? & ? & ?). exists n'. repeat split; try assumption; lia. Qed.

Lemma ins_spec io e : forall fuel h, (h <= fuel)%nat -> forall lo n,
  wfn lo h n -> (length (n_elts n) < t_max t)%nat -> ksorted (elements n) ->
  ins_ok lo h n e 1 (ins t fuel io n e).
Proof.
  induction fuel as [|f IH]; intros h Hf lo n Hw Hlen Hs.
  { pose proof (wfn_pos t Ht _ _ _ Hw). lia. }
  cbn [ins]. rewrite (is_maximal_ok t Ht _ _ _ Hw). cbn [bind].
  destruct (Nat.eqb_spec (length (n_elts n)) (t_max t)); [lia|].
  set (rec := fun c => ins t f io c e).
  assert (Hrec : forall h', h = S h' -> rec_ok rec e h').
  { intros h' -> c Hc Hcl Hcs. apply (IH h'); [lia|assumption..]. }
  (* is the child we would descend into full? *)
  destruct (snd (lsearch (fst e) (n_elts n))) eqn:Ehit.
  { eapply ins_ok_weaken; [|apply ins_iter_nosplit; try assumption]; [destruct (n_leaf n); lia|auto|].
    rewrite Ehit. discriminate. }
  destruct (nth_error (n_kids n) (fst (lsearch (fst e) (n_elts n)))) as [c|] eqn:Ekid.
  2:{ eapply ins_ok_weaken; [|apply ins_iter_nosplit; try assumption]; [destruct (n_leaf n); lia|auto|].
      rewrite Ekid. discriminate. }
  destruct (Nat.ltb_spec (length (n_elts c)) (t_max t)) as [Hc|Hc].
  { eapply ins_ok_weaken; [|apply ins_iter_nosplit; try assumption]; [destruct (n_leaf n); lia|auto|].
    rewrite Ekid. intros _ c' Hc'. inversion Hc'; subst. assumption. }
  (* pre-emptive split of the full child, then one more iteration *)
  pose proof (node_es_sorted t Ht _ _ _ Hw Hs) as Hes.
  destruct n as [lf es ks]. cbn [n_leaf n_elts n_kids] in *. destruct e as [k v0]. cbn [fst] in *.
  destruct (search_cases k es Hes) as [(ea & v & eb & -> & Hsr & Hlt & Hgt)|(ea & eb & -> & Hsr & Hlt & Hgt)].
  { rewrite lsearch_hit in Ehit by assumption. discriminate. }
  rewrite lsearch_miss in Ekid by assumption. cbn [fst] in Ekid.
  pose proof Hw as Hw0.
  apply wfn_inv in Hw as (Hb & [(-> & -> & ->)|(-> & h' & -> & Hk & Hall)]); [destruct (length ea); discriminate|].
  destruct (node_decomp1 (ea ++ eb) ks (length ea) Hk) as (ea' & eb' & ka & c0 & kb & He & -> & H1 & H2 & H3).
  { rewrite app_length. lia. }
  destruct (app_eq_len _ _ _ _ He H1) as (-> & ->).
  rewrite <- H2, nth_error_app_mid in Ekid. inversion Ekid; subst c0. clear Ekid.
  unfold ins_iter at 1. cbn [fst]. rewrite Hsr. cbn [bind]. rewrite split_at_app by assumption. cbn [bind].
  apply Forall_mid in Hall as (Ha & Hcw & Hbk).
  rewrite (is_maximal_ok t Ht _ _ _ Hcw). cbn [bind].
  pose proof (wfn_len t Ht _ _ _ Hcw) as Hcl.
  assert (Hcmax : length (n_elts c) = t_max t) by lia.
  rewrite Hcmax, Nat.eqb_refl.
  destruct (split_node_spec t Ht h' c Hcw Hcmax) as (l & m & r & -> & Hl & Hr & Hll & Hrl & Hec). cbn [bind].
  destruct (kid_sorted ea eb ka c kb H2 H3 Hs) as (Hcs & Hzl & Hzr & Hcb & Hbound).
  assert (Hm : all_lt ea (fst m) /\ all_gt eb (fst m)).
  { apply Hbound. rewrite Hec. apply in_or_app. right. now left. }
  destruct Hm as (Hm1 & Hm2).
  (* adopt *)
  unfold adopt. unfold is_maximal at 1. cbn [n_elts].
  destruct (Nat.ltb_spec (t_max t) (length (ea ++ eb))); [lia|]. cbn [bind].
  destruct (Nat.eqb_spec (length (ea ++ eb)) (t_max t)); [lia|].
  rewrite search_miss by assumption. cbn [bind]. rewrite insert_at_app by reflexivity.
  destruct (ka ++ l :: kb) eqn:Ekl; [destruct ka; discriminate|]. rewrite <- Ekl. clear Ekl.
  rewrite <- H2 at 1. rewrite nth_error_app_mid. rewrite Nat.eqb_refl.
  replace (insert_at (S (length ea)) r (ka ++ l :: kb)) with (ka ++ l :: r :: kb).
  2:{ replace (ka ++ l :: kb) with ((ka ++ [l]) ++ kb) by (now rewrite <- app_assoc).
      rewrite insert_at_app by (rewrite app_length; cbn; lia). now rewrite <- app_assoc. }
  cbn [bind].
  (* second iteration on n1 *)
  set (n1 := Node false (ea ++ m :: eb) (ka ++ l :: r :: kb)).
  assert (Hn1 : wfn lo (S h') n1).
  { constructor; [rewrite app_length in *; cbn; lia|rewrite !app_length in *; cbn in *; lia|].
    apply Forall_mid. split; [assumption|]. split; [assumption|]. now constructor. }
  assert (He1 : elements n1 = elements (Node false (ea ++ eb) (ka ++ c :: kb))).
  { unfold n1. rewrite elements_split2, elements_split by assumption. now rewrite Hec. }
  assert (Hs1 : ksorted (elements n1)) by now rewrite He1.
  pose proof t_min_lt_max t Ht as Htm.
  assert (Hok : ins_ok lo (S h') n1 (k, v0) 0
                  (ins_iter t io rec (fun _ : tree => Internal eFuel) n1 (k, v0))).
  { apply (ins_iter_nosplit io rec _ lo (S h') n1 (k, v0)); try assumption.
    - discriminate.
    - unfold n1. cbn [n_elts n_kids fst]. intros Hmiss c' Hc'.
      destruct (Z.lt_trichotomy k (fst m)) as [Hkm|[Hkm|Hkm]].
      + assert (Hmeb : all_gt (m :: eb) k) by (constructor; [assumption|eapply all_gt_weaken; [|exact Hm2]; lia]).
        rewrite (lsearch_miss ea (m :: eb)) in Hc' by assumption.
        cbn [fst] in Hc'. rewrite <- H2, nth_error_app_mid in Hc'. inversion Hc'; subst. lia.
      + destruct m as [mk mv]. cbn in Hkm. subst mk. rewrite lsearch_hit in Hmiss by assumption. discriminate.
      + replace (ea ++ m :: eb) with ((ea ++ [m]) ++ eb) in Hc' by (now rewrite <- app_assoc).
        rewrite lsearch_miss in Hc'; try assumption.
        2:{ apply all_lt_app. split; [assumption|]. constructor; [lia|constructor]. }
        cbn [fst] in Hc'. rewrite app_length in Hc'. cbn [length] in Hc'.
        replace (ka ++ l :: r :: kb) with ((ka ++ [l]) ++ r :: kb) in Hc' by (now rewrite <- app_assoc).
        replace (length ea + 1)%nat with (length (ka ++ [l])) in Hc' by (rewrite app_length; cbn; lia).
        rewrite nth_error_app_mid in Hc'. inversion Hc'; subst. lia. }
  destruct Hok as (n' & Hr' & Hw' & He' & Hl').
  exists n'. rewrite He1 in *. unfold n1 in Hl'. cbn [n_elts] in *. rewrite !app_length in *. cbn [length] in *.
  repeat split; try assumption; lia.
Qed.

(* ---------------------------------------------------------------- the whole tree *)

(* the root may hold fewer than t-1 keys; an internal root holds at least one *)
Definition root_lo (n : tree) : nat := if n_leaf n then 0%nat else 1%nat.
Definition wfr (h : nat) (n : tree) : Prop := wfn (root_lo n) h n.


Lemma grow_root_spec h root :
  wfr h root ->
  exists h1 root1, grow_root t root = Ok root1 /\ wfr h1 root1 /\ elements root1 = elements root /\
                   (length (n_elts root1) < t_max t)%nat.
Proof.
  intros Hw. unfold wfr, root_lo in Hw. unfold grow_root. rewrite (is_maximal_ok t Ht _ _ _ Hw). cbn [bind].
  pose proof (wfn_len t Ht _ _ _ Hw) as Hl.
  destruct (Nat.eqb_spec (length (n_elts root)) (t_max t)) as [Hmax|Hmax].
  - assert (Hw' : wfn (t_min t) h root).
    { eapply (wfn_lo t Ht); [exact Hw|]. pose proof (t_min_lt_max t Ht). lia. }
    destruct (split_node_spec t Ht h root Hw' Hmax) as (l & m & r & -> & Hlw & Hrw & Hll & Hrl & He). cbn [bind].
    unfold adopt, is_maximal. cbn [n_elts length].
    destruct (Nat.ltb_spec (t_max t) 0); [lia|]. cbn [bind].
    destruct (Nat.eqb_spec 0 (t_max t)) as [H0|H0]; [unfold t_max in H0; lia|].
    cbn. exists (S h), (Node false [m] [l; r]). split; [reflexivity|].
    split; [|split].
    + unfold wfr, root_lo. cbn [n_leaf]. constructor; cbn; [unfold t_max; lia|reflexivity|]. repeat constructor; assumption.
    + rewrite He. reflexivity.
    + cbn. unfold t_max. lia.
  - exists h, root. repeat split; try assumption. lia.
Qed.

Theorem insert_tree_spec io h root e :
  wfr h root -> ksorted (elements root) ->
  exists h' root',
    insert_tree t io root e = Ok (root', find_sorted (fst e) (elements root)) /\
    wfr h' root' /\ ksorted (elements root') /\
    elements root' = ins_sorted e (elements root).
Proof.
  intros Hw Hs. unfold insert_tree.
  destruct (grow_root_spec h root Hw) as (h1 & root1 & -> & Hw1 & He1 & Hl1). cbn [bind].
  unfold wfr in Hw1. rewrite (wfn_depth t _ _ _ Hw1).
  destruct (ins_spec io e h1 h1 (le_n _) _ root1 Hw1 Hl1) as (n' & -> & Hw' & He' & Hl').
  { now rewrite He1. }
  rewrite He1 in *. exists h1, n'. split; [reflexivity|]. split; [|split; [|assumption]].
  - unfold wfr, root_lo in *. replace (n_leaf n') with (n_leaf root1); [assumption|].
    pose proof (wfn_leaf_iff t Ht _ _ _ Hw1). pose proof (wfn_leaf_iff t Ht _ _ _ Hw').
    destruct (n_leaf root1), (n_leaf n'); try reflexivity; intuition congruence.
  - rewrite He'. now apply ins_sorted_sorted.
Qed.

End INS.
