(* C09: what a successful load does to the zone - every change is a txn_add of an in-zone name;
   invariants of the loaded zone (CNAME exclusivity, names inside the origin). *)
From DV Require Import Base.Prelude Model.NameM Model.ZoneTextM Proofs.ZoneTextBase.
Open Scope Z_scope.

(* one destruct of the outermost match in a hypothesis *)
Ltac brk H :=
  match type of H with
  | context [match ?x with _ => _ end] =>
      match x with
      | context [match _ with _ => _ end] => fail 1
      | _ => destruct x eqn:?
      end
  end.

Ltac brk_all H := repeat (brk H; cbn [bind] in H; try discriminate H).

Lemma bind_ok {A B} (r : res A) (f : A -> res B) b :
  bind r f = Ok b -> exists a, r = Ok a /\ f a = Ok b.
Proof. destruct r; cbn; intros H; try discriminate. eauto. Qed.

(* ---------- the changes a load makes ---------- *)
(* adds rel zo z z': z' is obtained from z by a sequence of txn_add calls whose names come from
   absolute names inside the origin zo *)
Inductive adds (rel : bool) (zo : name) : zone -> zone -> Prop :=
| adds_refl (z : zone) : adds rel zo z z
| adds_step (z : zone) (nabs n : name) (ttl ty : Z) (rd : rdata) (z' z'' : zone) :
    is_subdomain nabs zo = true ->
    (if rel then lift_name true (relativize nabs zo) else Ok nabs) = Ok n ->
    txn_add zo rel z n ttl ty rd = Ok z' ->
    adds rel zo z' z'' -> adds rel zo z z''.

Lemma adds_trans rel zo a b c : adds rel zo a b -> adds rel zo b c -> adds rel zo a c.
Proof. induction 1; intros; eauto using adds. Qed.

Lemma adds_one (rel : bool) zo z nabs n ttl ty rd z' :
  is_subdomain nabs zo = true ->
  (if rel then lift_name true (relativize nabs zo) else Ok nabs) = Ok n ->
  txn_add zo rel z n ttl ty rd = Ok z' -> adds rel zo z z'.
Proof. intros. eapply adds_step; eauto using adds. Qed.

(* state components untouched by the setters *)
Definition same_origins (s s' : rstate) : Prop := zorigin s' = zorigin s /\ corigin s' = corigin s.

(* one step of taking a successful monadic computation apart *)
Ltac step H :=
  first
  [ let a := fresh "a" in let E := fresh "E" in
    lazymatch type of H with bind _ _ = Ok _ => idtac end;
    apply bind_ok in H; destruct H as (a & E & H);
    cbv beta iota in E; cbn [bind] in E; repeat (step E)
  | brk H; try discriminate H ];
  cbv beta iota in H; cbn [bind] in H.

Ltac st_simpl :=
  cbn [zn zorigin corigin lastname lttl lttl_known dttl dttl_known
       set_last set_lttl set_dttl set_zn set_origin] in *.

Lemma rr_fields_adds c s co zo nabs n toks lerr s' :
  is_subdomain nabs zo = true ->
  (if c_rel c then lift_name true (relativize nabs zo) else Ok nabs) = Ok n ->
  rr_fields c s co zo n toks lerr = Ok s' ->
  same_origins s s' /\ adds (c_rel c) zo (zn s) (zn s').
Proof.
  intros Hsub Hn H. unfold rr_fields in H.
  repeat step H.
  all: repeat match goal with HH : Ok _ = Ok _ |- _ => inversion HH; subst; clear HH end.
  all: unfold same_origins; st_simpl.
  all: (split; [split; reflexivity|]); eapply adds_one; eauto.
Qed.

(* what one logical line may do to the state *)
Definition step_ok (rel : bool) (s s' : rstate) : Prop :=
  match zorigin s with
  | Some zo => zorigin s' = Some zo /\ adds rel zo (zn s) (zn s')
  | None => zn s' = zn s
  end.

Lemma step_ok_same rel s s' : zorigin s' = zorigin s -> zn s' = zn s -> step_ok rel s s'.
Proof.
  unfold step_ok. intros Ho Hz. destruct (zorigin s); [|exact Hz].
  split; [exact Ho|]. rewrite Hz. constructor.
Qed.

Lemma rr_line_step c s lead toks lerr s' :
  rr_line c s lead toks lerr = Ok s' -> step_ok (c_rel c) s s'.
Proof.
  intros H. unfold rr_line in H.
  repeat step H.
  all: repeat match goal with HH : Ok _ = Ok _ |- _ => inversion HH; subst; clear HH end.
  all: unfold eol_ok in *.
  all: repeat step H.
  all: repeat match goal with HH : Ok _ = Ok _ |- _ => inversion HH; subst; clear HH end.
  all: try (apply step_ok_same; reflexivity).
  all: st_simpl.
  all: match goal with
       | HF : rr_fields ?c ?s1 _ ?zo ?n _ _ = Ok ?s', Hs : negb (is_subdomain ?nabs ?zo) = false,
         Hr : c_rel ?c = _ |- _ =>
           apply negb_false_iff in Hs;
           assert (X : same_origins s1 s' /\ adds (c_rel c) zo (zn s1) (zn s'))
             by (eapply (rr_fields_adds c s1 _ zo nabs n); [exact Hs | rewrite Hr; try assumption; reflexivity | exact HF]);
           destruct X as [[Ho _] Ha]; rewrite Hr in Ha
       end.
  all: unfold step_ok; st_simpl.
  all: match goal with Hz : zorigin _ = Some _ |- _ => rewrite Hz in *; st_simpl end.
  all: split; [congruence|assumption].
Qed.

Lemma gen_loop_adds c co zo lhs rhs lm rm ttl ty step : forall count i s s' eaten,
  gen_loop count i step c s co zo lhs rhs lm rm ttl ty = Ok (s', eaten) ->
  zorigin s' = zorigin s /\ adds (c_rel c) zo (zn s) (zn s').
Proof.
  induction count as [|k IH]; intros i s s' eaten H; cbn [gen_loop] in H.
  - inversion H; subst. split; [reflexivity|constructor].
  - destruct lm as [[[[lmod lneg] loff] lwidth] lbase].
    destruct rm as [[[[rmod rneg] roff] rwidth] rbase].
    cbv beta iota in H.
    repeat step H.
    all: repeat match goal with HH : Ok _ = Ok _ |- _ => inversion HH; subst; clear HH end.
    all: try (st_simpl; split; [reflexivity|constructor]).
    all: apply IH in H; destruct H as [Ho Ha]; st_simpl.
    all: split; [exact Ho|].
    all: match goal with Hs : negb (is_subdomain ?nabs _) = false |- _ => apply negb_false_iff in Hs end.
    all: eapply adds_step; [eassumption | | eassumption | exact Ha].
    all: first [assumption | reflexivity].
Qed.

Lemma generate_line_step c s toks lerr s' lft :
  generate_line c s toks lerr = Ok (s', lft) -> zorigin s' = zorigin s /\ step_ok (c_rel c) s s'.
Proof.
  intros H. unfold generate_line in H.
  repeat step H.
  all: repeat match goal with HH : Ok _ = Ok _ |- _ => inversion HH; subst; clear HH end.
  all: match goal with HG : gen_loop _ _ _ _ _ _ _ _ _ _ _ _ _ = Ok _ |- _ =>
         apply gen_loop_adds in HG; destruct HG as [Ho Ha] end.
  all: st_simpl.
  all: unfold step_ok.
  all: match goal with Hz : zorigin _ = Some _ |- _ => st_simpl; rewrite Hz in * end.
  all: st_simpl; auto.
Qed.


Lemma step_ok_trans rel s1 s2 s3 : step_ok rel s1 s2 -> step_ok rel s2 s3 ->
  (zorigin s1 = None -> zorigin s2 = None) -> step_ok rel s1 s3.
Proof.
  unfold step_ok. intros H1 H2 Hn.
  destruct (zorigin s1) as [zo|].
  - destruct H1 as [Ho Ha]. rewrite Ho in H2. destruct H2 as [Ho2 Ha2].
    split; [exact Ho2|]. eapply adds_trans; eauto.
  - rewrite (Hn eq_refl) in H2. congruence.
Qed.

Lemma process_line_step c s lead toks lerr s' :
  process_line c s lead toks lerr = Ok s' -> step_ok (c_rel c) s s'.
Proof.
  intros H. unfold process_line in H.
  destruct lead; [eapply rr_line_step; eauto|].
  destruct toks as [|t rest]; [unfold eol_ok in H; destruct lerr; inversion H; subst; apply step_ok_same; reflexivity|].
  destruct (tokval t) as [|c0 v0] eqn:Et; [eapply rr_line_step; eauto|].
  destruct (c0 =? 36) eqn:E36.
  2:{ assert (Hr : rr_line c s false (t :: rest) lerr = Ok s').
      { revert H. destruct c0; try (intros; assumption).
        repeat (destruct p; try (intros; assumption)); cbn in E36; discriminate. }
      eapply rr_line_step; eauto. }
  apply Z.eqb_eq in E36; subst c0.
  repeat step H.
  all: unfold eol_ok in *.
  all: repeat step H.
  all: repeat match goal with HH : Ok _ = Ok _ |- _ => inversion HH; subst; clear HH end.
  all: try (apply step_ok_same; reflexivity).
  all: try (match goal with HG : generate_line _ _ _ _ = Ok _ |- _ =>
                    apply generate_line_step in HG; destruct HG as [HGo HG] end).
  all: try assumption.
  - (* $ORIGIN *) unfold step_ok; st_simpl. destruct (zorigin s); [split; [reflexivity|constructor]|reflexivity].
  - (* $GENERATE then the rest of the line *)
    match goal with HR : rr_line _ _ _ _ _ = Ok _ |- _ => apply rr_line_step in HR end.
    eapply step_ok_trans; eauto. intros Hn. congruence.
Qed.

(* the zone under construction is the result of txn_adds of in-zone names, from the empty zone *)
Definition loaded (rel : bool) (s : rstate) : Prop :=
  match zorigin s with
  | Some zo => adds rel zo [] (zn s)
  | None => zn s = []
  end.

Lemma loaded_step rel s s' : loaded rel s -> step_ok rel s s' -> loaded rel s'.
Proof.
  unfold loaded, step_ok. intros HL HS.
  destruct (zorigin s) as [zo|].
  - destruct HS as [Ho Ha]. rewrite Ho. eapply adds_trans; eauto.
  - rewrite HS, HL. destruct (zorigin s'); [constructor|reflexivity].
Qed.

Lemma read_loop_loaded : forall fuel c s text s',
  loaded (c_rel c) s -> read_loop fuel c s text = Ok s' -> loaded (c_rel c) s'.
Proof.
  induction fuel as [|f IH]; intros c s text s' HL H; cbn [read_loop] in H; [discriminate|].
  destruct (lex text 0 MSkip []) as [[toks term] rest].
  apply bind_ok in H as (s1 & E & H).
  apply process_line_step in E.
  pose proof (loaded_step _ _ _ HL E) as HL1.
  destruct term; [eapply IH; eauto | inversion H; subst; exact HL1 | discriminate].
Qed.

Lemma from_text_loaded c text o z :
  from_text c text = Ok (o, z) ->
  z = [] \/ exists zo, o = Some zo /\ adds (c_rel c) zo [] z.
Proof.
  unfold from_text. intros H.
  apply bind_ok in H as (s & E & H).
  apply read_loop_loaded in E; [|unfold loaded, init_state; cbn; destruct (c_origin c); [constructor|reflexivity]].
  apply bind_ok in H as (u & _ & H). inversion H; subst; clear H.
  destruct (zn s) as [|e z'] eqn:Ez; [left; reflexivity|right].
  unfold loaded in E. rewrite Ez in E. destruct (zorigin s) as [zo|]; [|discriminate].
  exists zo. split; [reflexivity|exact E].
Qed.

(* ---------- CNAME and other data ---------- *)
Definition has_kind (k : nkind) (nd : node) : bool :=
  existsb (fun r => nkind_eqb (rds_kind r) k) nd.

(* a node never holds a CNAME (or RRSIG(CNAME)) together with "other data" *)
Definition node_excl (nd : node) : Prop :=
  has_kind KCname nd = true -> has_kind KRegular nd = false.
Definition zone_excl (z : zone) : Prop := Forall (fun e => node_excl (snd e)) z.

Lemma has_kind_app k a b : has_kind k (a ++ b) = has_kind k a || has_kind k b.
Proof. unfold has_kind. apply existsb_app. Qed.

Lemma has_kind_nremove k nd ty cov :
  has_kind k (nremove nd ty cov) = true -> has_kind k nd = true.
Proof.
  unfold has_kind.
  induction nd as [|r nd IH]; cbn [nremove existsb]; [auto|].
  destruct (rds_match r ty cov); cbn [existsb].
  - intros H. rewrite H. apply orb_true_r.
  - intros H. apply orb_true_iff in H as [H|H]; [rewrite H; reflexivity|].
    rewrite (IH H). apply orb_true_r.
Qed.

Lemma has_kind_filter_out k nd :
  has_kind k (filter (fun x => negb (nkind_eqb (rds_kind x) k)) nd) = false.
Proof.
  unfold has_kind.
  induction nd as [|r nd IH]; cbn [filter existsb]; [reflexivity|].
  destruct (nkind_eqb (rds_kind r) k) eqn:E; cbn [negb existsb]; [exact IH|]. rewrite E. exact IH.
Qed.

Lemma has_kind_filter_sub k k' nd :
  has_kind k (filter (fun x => negb (nkind_eqb (rds_kind x) k')) nd) = true -> has_kind k nd = true.
Proof.
  unfold has_kind.
  induction nd as [|r nd IH]; cbn [filter existsb]; [auto|].
  destruct (nkind_eqb (rds_kind r) k'); cbn [negb existsb].
  - intros H. rewrite (IH H). apply orb_true_r.
  - intros H. apply orb_true_iff in H as [H|H]; [rewrite H; reflexivity|].
    rewrite (IH H). apply orb_true_r.
Qed.

Lemma node_excl_sub nd nd' :
  (forall k, has_kind k nd' = true -> has_kind k nd = true) -> node_excl nd -> node_excl nd'.
Proof.
  unfold node_excl. intros Hs He Hc.
  destruct (has_kind KRegular nd') eqn:E; [|reflexivity].
  apply Hs in E. apply Hs in Hc. apply He in Hc. congruence.
Qed.

Lemma append_rdataset_excl nd r : node_excl nd -> node_excl (append_rdataset nd r).
Proof.
  intros He. unfold append_rdataset, node_excl.
  rewrite !has_kind_app. cbn [has_kind existsb]. rewrite !orb_false_r.
  destruct nd as [|r0 nd0].
  - cbn. destruct (rds_kind r); cbn; congruence.
  - remember (r0 :: nd0) as nd.
    destruct (rds_kind r) eqn:Ek; cbn [nkind_eqb]; rewrite ?orb_false_r, ?orb_true_r.
    + (* regular: CNAMEs were filtered out *)
      rewrite has_kind_filter_out. discriminate.
    + (* neutral *) exact He.
    + (* cname: regular data was filtered out *)
      intros _. rewrite has_kind_filter_out. reflexivity.
Qed.

Lemma replace_rdataset_excl nd r : node_excl nd -> node_excl (replace_rdataset nd r).
Proof.
  intros He. unfold replace_rdataset. apply append_rdataset_excl.
  eapply node_excl_sub; [|exact He]. intros k. apply has_kind_nremove.
Qed.

Lemma zfind_excl z n nd : zone_excl z -> zfind z n = Some nd -> node_excl nd.
Proof.
  induction 1 as [|[k nd'] z Hh Ht IH]; cbn; [discriminate|].
  destruct (name_eqb k n); [intros H; inversion H; subst; exact Hh|exact IH].
Qed.

Lemma zset_excl z n nd : zone_excl z -> node_excl nd -> zone_excl (zset z n nd).
Proof.
  intros Hz Hn. induction Hz as [|[k nd'] z Hh Ht IH]; cbn [zset].
  - constructor; [exact Hn|constructor].
  - destruct (name_eqb k n).
    + constructor; [exact Hn|exact Ht].
    + constructor; [exact Hh|exact IH].
Qed.

Lemma txn_add_excl zo rel z n ttl ty rd z' :
  zone_excl z -> txn_add zo rel z n ttl ty rd = Ok z' -> zone_excl z'.
Proof.
  intros He H. unfold txn_add in H.
  destruct (_ && _ && _); [discriminate|].
  apply bind_ok in H as (u & _ & H). inversion H; subst; clear H.
  unfold zput. destruct (zfind z n) as [nd|] eqn:Ef.
  - apply zset_excl; [exact He|]. apply replace_rdataset_excl. eapply zfind_excl; eauto.
  - apply Forall_app; split; [exact He|]. constructor; [|constructor].
    cbn [snd]. apply replace_rdataset_excl. unfold node_excl. cbn. discriminate.
Qed.

Lemma adds_excl rel zo z z' : adds rel zo z z' -> zone_excl z -> zone_excl z'.
Proof. induction 1; intros; eauto using txn_add_excl. Qed.

Theorem cname_exclusive_after_load_proof c text o z :
  from_text c text = Ok (o, z) -> zone_excl z.
Proof.
  intros H. apply from_text_loaded in H as [->|(zo & _ & Ha)]; [constructor|].
  eapply adds_excl; eauto. constructor.
Qed.
